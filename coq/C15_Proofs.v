(* C15_Proofs.v — the Gaussian density utilities at the MathComp instance
   (World A): Woodbury identity, matrix determinant lemma, block-diagonal
   inverse / determinant, and the factorised ("UVR") log-density equals the
   direct one on the assembled covariance.  ln / exp / pi are the
   uninterpreted functions of the Transc record: only congruence is used.
   Axiom-free. *)
Require Import ZArith List.
Require Import BFL.Ops BFL.Density BFL.C15_Model.
From mathcomp Require Import all_ssreflect all_algebra.
Require Import BFL.MxOps BFL.LinAlg.
Set Implicit Arguments.
Unset Strict Implicit.
Unset Printing Implicit Defensive.
Import Order.Theory GRing.Theory Num.Theory.
Local Open Scope ring_scope.

(* ------------------------------------------------------------------ *)
(* Coq stdlib nat functions used by the model vs ssrnat               *)
Lemma leb_leq a b : Nat.leb a b = (a <= b)%N.
Proof. by apply/idP/idP => [/Nat.leb_le/ssrnat.leP|/ssrnat.leP/Nat.leb_le]. Qed.
Lemma ltb_ltn a b : Nat.ltb a b = (a < b)%N.
Proof. by rewrite /Nat.ltb leb_leq. Qed.
Lemma eqb_eqn a b : Nat.eqb a b = (a == b).
Proof. by apply/idP/eqP => /Nat.eqb_eq. Qed.
Lemma div_mulK nb bs : (0 < bs)%N -> Nat.div (nb * bs)%N bs = nb.
Proof. by move=> b0; apply: Nat.div_mul => E; rewrite E in b0. Qed.

(* ------------------------------------------------------------------ *)
(* Woodbury and the matrix determinant lemma, general U, V, invertible R *)
Section Woodbury.
Variable F : realFieldType.
Variables (d k : nat) (R : 'M[F]_d) (U : 'M[F]_(d,k)) (V : 'M[F]_(k,d)).
Hypothesis uR : R \in unitmx.

Let S := U *m V + R.
Let C := 1%:M + V *m invmx R *m U.       (* the "capacitance" matrix I + V R^-1 U *)

(* det (U V + R) = det R * det (I + V R^-1 U) *)
Lemma det_lemma : \det S = \det R * \det C.
Proof.
rewrite /S /C addrC.
pose B : 'M[F]_(d + k) := block_mx R (- U) V 1%:M.
have E1 : B = block_mx 1%:M 0 (V *m invmx R) 1%:M *m block_mx R (- U) 0 (1%:M + V *m invmx R *m U).
  rewrite mulmx_block ?mul1mx ?mul0mx ?mulmx0 ?addr0 -[V *m invmx R *m R]mulmxA (mulVmx uR) mulmx1.
  by rewrite mulmxN addrCA addNr addr0.
have E2 : B = block_mx (R + U *m V) (- U) 0 1%:M *m block_mx 1%:M 0 V 1%:M.
  rewrite mulmx_block ?mulmx1 ?mul0mx ?mulmx0 ?add0r ?addr0 ?mul1mx.
  by rewrite mulNmx addrK.
have := E1; rewrite {1}E2 => /(congr1 determinant).
rewrite !det_mulmx !det_ublock !det_lblock !det1 !mulr1 !mul1r.
by move=> ->.
Qed.

Hypothesis uS : S \in unitmx.

(* derived, not assumed: the matrix the code inverts is invertible *)
Lemma capacitance_unit : C \in unitmx.
Proof.
move: uS; rewrite !unitmxE det_lemma unitrM; by case/andP.
Qed.

Lemma woodbury_right_inverse :
  S *m (invmx R *m (1%:M - U *m invmx C *m (V *m invmx R))) = 1%:M.
Proof.
have uC := capacitance_unit.
set Ri := invmx R; set Ci := invmx C.
have SRi : S *m Ri = U *m V *m Ri + 1%:M by rewrite /S mulmxDl (mulmxV uR).
have key : (U *m V *m Ri + 1%:M) *m U = U *m C.
  by rewrite /C mulmxDl mul1mx mulmxDr mulmx1 !mulmxA addrC.
rewrite (mulmxA S) SRi mulmxBr mulmx1 !mulmxA key.
by rewrite -[U *m C *m Ci]mulmxA (mulmxV uC) mulmx1 addrAC subrr add0r.
Qed.

Lemma woodbury : invmx S = invmx R *m (1%:M - U *m invmx C *m (V *m invmx R)).
Proof.
have := woodbury_right_inverse; set X := (invmx R *m _) => E.
by rewrite -[X]mul1mx -(mulVmx uS) -mulmxA E mulmx1.
Qed.

Lemma woodbury_quadform (x : 'cV[F]_d) :
  x^T *m invmx S *m x = x^T *m invmx R *m (1%:M - U *m invmx C *m (V *m invmx R)) *m x.
Proof. by rewrite woodbury !mulmxA. Qed.

End Woodbury.

(* ------------------------------------------------------------------ *)
(* Block-diagonal matrices with nb blocks of size bs: entrywise form (what the
   model's loops build) and its algebra, by induction on the number of blocks
   through block_mx.                                                         *)
Section BlockDiag.
Variable F : realFieldType.
Variable bs : nat.

Definition BD nb (G : nat -> 'M[F]_bs) : 'M[F]_(nb * bs) :=
  \matrix_(i, j) if (i %/ bs == j %/ bs)%N then mx_get (G (i %/ bs)%N) (i %% bs)%N (j %% bs)%N else 0.

Lemma bs_pos nb (i : 'I_(nb * bs)) : (0 < bs)%N.
Proof. by case: i => m; case: (bs) => //; rewrite muln0. Qed.

Lemma BD_S nb (G : nat -> 'M[F]_bs) :
  BD nb.+1 G = (block_mx (G 0%N) 0 0 (BD nb (fun i => G i.+1)) : 'M_(bs + nb * bs)).
Proof.
apply/matrixP => i j; rewrite [LHS]mxE.
case: (split_ordP i) => [i0 ->|i1 ->]; case: (split_ordP j) => [j0 ->|j1 ->] /=.
- by rewrite block_mxEul !divn_small // !modn_small // eqxx mx_get_ord.
- have b0 : (0 < bs)%N by apply: leq_ltn_trans (ltn_ord i0).
  by rewrite block_mxEur mxE divn_small // divnDl ?dvdnn // divnn b0.
- have b0 : (0 < bs)%N by apply: leq_ltn_trans (ltn_ord j0).
  by rewrite block_mxEdl mxE [(j0 %/ bs)%N]divn_small // divnDl ?dvdnn // divnn b0.
- have b0 := bs_pos i1.
  by rewrite block_mxEdr mxE !divnDl ?dvdnn // divnn b0 !add1n eqSS !modnDl.
Qed.

Lemma BD_ext nb (G H : nat -> 'M[F]_bs) :
  (forall i, (i < nb)%N -> G i = H i) -> BD nb G = BD nb H.
Proof.
move=> E; apply/matrixP => i j; rewrite !mxE.
have b0 := bs_pos i.
by rewrite E // ltn_divLR // ltn_ord.
Qed.

Lemma BD_mul nb (G H : nat -> 'M[F]_bs) :
  BD nb G *m BD nb H = BD nb (fun i => G i *m H i).
Proof.
elim: nb G H => [|nb IH] G H; first by apply/matrixP; case.
by rewrite !BD_S mulmx_block !mulmx0 !mul0mx !addr0 add0r IH.
Qed.

Lemma BD_1 nb : BD nb (fun _ => 1%:M) = 1%:M.
Proof.
elim: nb => [|nb IH]; first by apply/matrixP; case.
by rewrite BD_S IH -scalar_mx_block.
Qed.

Lemma BD_det nb (G : nat -> 'M[F]_bs) : \det (BD nb G) = \prod_(i < nb) \det (G i).
Proof.
elim: nb G => [|nb IH] G; first by rewrite big_ord0 det_mx00.
by rewrite BD_S det_ublock IH big_ord_recl.
Qed.

Lemma BD_inverse nb (G : nat -> 'M[F]_bs) :
  (forall i, (i < nb)%N -> G i \in unitmx) ->
  BD nb G \in unitmx /\ invmx (BD nb G) = BD nb (fun i => invmx (G i)).
Proof.
move=> uG.
have E : BD nb G *m BD nb (fun i => invmx (G i)) = 1%:M.
  rewrite BD_mul -(BD_1 nb); apply: BD_ext => i lt; exact: mulmxV (uG i lt).
have [uB _] := mulmx1_unit E; split=> //.
by rewrite -[LHS]mulmx1 -E mulmxA (mulVmx uB) mul1mx.
Qed.

(* symmetric positive definite blocks give a symmetric positive definite matrix *)
Lemma spd_block_diag2 m n (A : 'M[F]_m) (D : 'M[F]_n) :
  spd A -> spd D -> spd (block_mx A 0 0 D).
Proof.
move=> [sA pA] [sD pD]; split.
  by rewrite /sym tr_block_mx !trmx0 sA sD.
move=> x xn0; rewrite -[x]hsubmxK /qf.
set xl := lsubmx x; set xr := rsubmx x.
rewrite mul_row_block !mulmx0 addr0 add0r tr_row_mx mul_row_col mxE.
have xlr : (xl != 0) || (xr != 0).
  apply: contraR xn0; rewrite negb_or !negbK => /andP [/eqP El /eqP Er].
  by rewrite -[x]hsubmxK -/xl -/xr El Er row_mx0.
have nnA : 0 <= qf A xl by case: (eqVneq xl 0) => [E|/pA/ltW //]; rewrite E qf0.
have nnD : 0 <= qf D xr by case: (eqVneq xr 0) => [E|/pD/ltW //]; rewrite E qf0.
case/orP: xlr => [/pA pos|/pD pos].
- exact: ltr_paddr.
- exact: ltr_paddl.
Qed.

Lemma BD_spd nb (G : nat -> 'M[F]_bs) :
  (forall i, (i < nb)%N -> spd (G i)) -> spd (BD nb G).
Proof.
elim: nb G => [|nb IH] G sG.
  split; first by apply/matrixP; case.
  by move=> x; rewrite [x]thinmx0 eqxx.
rewrite BD_S; apply: spd_block_diag2; first exact: sG.
by apply: IH => i lt; exact: sG.
Qed.

End BlockDiag.

(* ------------------------------------------------------------------ *)
(* The model's loops at the MathComp instance                          *)
Section Assembly.
Variable F : realFieldType.
Variable tr : Transc F.
Variable sq : forall n, 'M[F]_n -> 'M[F]_n.
Variable eg : forall n, 'M[F]_n -> 'M[F]_(n,1).
Let O := MxMat tr sq eg.
Variable bs : nat.
Hypothesis bs0 : (0 < bs)%N.

Lemma mx_get_mul m n p (A : 'M[F]_(m,n)) (B : 'M[F]_(n,p)) (i j : nat) :
  (i < m)%N -> (j < p)%N -> mx_get (A *m B) i j = \sum_(l < n) mx_get A i l * mx_get B l j.
Proof.
move=> im jp.
have -> : i = Ordinal im by []. have -> : j = Ordinal jp by [].
by rewrite mx_get_ord mxE; apply: eq_bigr => l _; rewrite !mx_get_ord.
Qed.

Lemma mx_get_tr m n (A : 'M[F]_(m,n)) (i j : nat) : mx_get A^T i j = mx_get A j i.
Proof.
rewrite /mx_get; case: (insub i) => [i'|]; case: (insub j) => [j'|] //.
by rewrite mxE.
Qed.

Lemma sum_blocks nb (Fn : nat -> F) :
  \sum_(i < nb * bs) Fn i = \sum_(b < nb) \sum_(l < bs) Fn (b * bs + l)%N.
Proof.
rewrite -(big_mkord xpredT Fn) big_nat_mul big_mkord; apply: eq_bigr => b _.
rewrite mulSnr -{1}[(b * bs)%N]add0n big_addn addKn big_mkord.
by apply: eq_bigr => l _; rewrite addnC.
Qed.

Lemma blk_div c x : ((c * bs <= x) && (x < c * bs + bs))%N = (x %/ bs == c)%N.
Proof. by rewrite -mulSnr -leq_divRL // -ltn_divLR // ltnS -eqn_leq eq_sym. Qed.

Lemma blk_mod x : (x - x %/ bs * bs)%N = (x %% bs)%N.
Proof. by rewrite {1}(divn_eq x bs) addKn. Qed.

Lemma get_set_block m n r c (A : 'M[F]_(m,n)) r0 c0 (B : 'M[F]_(r,c)) (i j : nat) :
  (i < m)%N -> (j < n)%N ->
  mx_get (mset_block (O:=O) A r0 c0 B) i j =
  if ((r0 <= i) && (i < r0 + r) && (c0 <= j) && (j < c0 + c))%N
  then mx_get B (i - r0) (j - c0) else mx_get A i j.
Proof. by move=> im jn; rewrite /mset_block /= mx_get_build // !leb_leq !ltb_ltn. Qed.

(* a row of blocks: block t written at columns [t*bs, t*bs+bs) *)
Lemma fold_rowblocks r n cnt (off : nat -> nat) (G : nat -> 'M[F]_(r, bs)) (A0 : 'M[F]_(r,n))
      (i j : nat) :
  (forall t, off t = (t * bs)%N) -> (i < r)%N -> (j < n)%N ->
  mx_get (List.fold_left (fun acc t => mset_block (O:=O) acc 0 (off t) (G t)) (List.seq 0 cnt) A0) i j
  = if (j < cnt * bs)%N then mx_get (G (j %/ bs)%N) i (j %% bs)%N else mx_get A0 i j.
Proof.
move=> Hoff ir jn; elim: cnt => [|cnt IH]; first by rewrite mul0n ltn0.
rewrite List.seq_S List.fold_left_app /= get_set_block // IH Hoff leq0n add0n ir /= subn0.
rewrite blk_div -!ltn_divLR // ltnS.
case: (ltngtP (j %/ bs)%N cnt) => [lt|gt|E] //.
by rewrite -E blk_mod.
Qed.

(* blocks on the diagonal: block t at rows and columns [t*bs, t*bs+bs) *)
Lemma fold_diagblocks n cnt (off : nat -> nat) (G : nat -> 'M[F]_bs) (i j : nat) :
  (forall t, off t = (t * bs)%N) -> (i < n)%N -> (j < n)%N ->
  mx_get (List.fold_left (fun acc t => mset_block (O:=O) acc (off t) (off t) (G t))
                         (List.seq 0 cnt) (0 : 'M[F]_n)) i j
  = if ((i < cnt * bs) && (j < cnt * bs) && (i %/ bs == j %/ bs))%N
    then mx_get (G (i %/ bs)%N) (i %% bs)%N (j %% bs)%N else 0.
Proof.
move=> Hoff ir jn; elim: cnt => [|cnt IH].
  by rewrite mul0n ltn0 /= /mx_get; case: insub => // a; case: insub => // c; rewrite mxE.
rewrite List.seq_S List.fold_left_app /= get_set_block // IH Hoff -andbA !blk_div -!ltn_divLR // !ltnS.
case: (ltngtP (i %/ bs)%N cnt) => [lt|gt|E] /=; case: (ltngtP (j %/ bs)%N cnt) => [lt2|gt2|E2] //=.
- by rewrite E2 (ltn_eqF lt).
- by rewrite E (gtn_eqF lt2).
- by rewrite E E2 eqxx -{2}E -{2}E2 !blk_mod.
Qed.

End Assembly.

(* ------------------------------------------------------------------ *)
(* The factorised log-density at the MathComp instance                 *)
Section UVRModel.
Variable F : realFieldType.
Variable tr : Transc F.
Variable sq : forall n, 'M[F]_n -> 'M[F]_n.
Variable eg : forall n, 'M[F]_n -> 'M[F]_(n,1).
Let O := MxMat tr sq eg.
Variables (bs nb k b rc : nat).
Hypothesis bs0 : (0 < bs)%N.
Notation d := (nb * bs)%N.

Variables (input : M O d b) (mean : M O d 1) (U : M O d k) (V : M O k d) (R : M O bs rc).

(* block t of R as the code reads it: R itself in the shared encoding *)
Definition blk (t : nat) : 'M[F]_bs :=
  if (rc == bs)%N then uvr_R_single (O:=O) R else uvr_R_block (O:=O) R t.

Lemma mul_BD r (X : 'M[F]_(r, d)) (G : nat -> 'M[F]_bs) (Y : nat -> 'M[F]_(r, bs)) :
  (forall t i l, (t < nb)%N -> (i < r)%N -> (l < bs)%N ->
     mx_get (Y t) i l = mx_get X i (t * bs + l)%N) ->
  forall (i : 'I_r) (j : 'I_d),
    (X *m BD nb G) i j = mx_get (Y (j %/ bs)%N *m G (j %/ bs)%N) i (j %% bs)%N.
Proof.
move=> HY i j.
have jb : (j %/ bs < nb)%N by rewrite ltn_divLR.
rewrite mxE.
pose Fn (q : nat) := mx_get X i q *
  (if (q %/ bs == j %/ bs)%N then mx_get (G (q %/ bs)%N) (q %% bs)%N (j %% bs)%N else 0).
rewrite (eq_bigr (fun q : 'I_d => Fn q)); last by move=> q _; rewrite /Fn mx_get_ord mxE.
have dv c (l : 'I_bs) : ((c * bs + l) %/ bs)%N = c by rewrite divnMDl // divn_small ?addn0.
have md c (l : 'I_bs) : ((c * bs + l) %% bs)%N = l by rewrite modnMDl modn_small.
rewrite (sum_blocks bs nb Fn) (bigD1 (Ordinal jb)) //= [X in _ + X]big1 ?addr0; last first.
  move=> c; rewrite -val_eqE /= => ne; apply: big1 => l _.
  by rewrite /Fn dv (negbTE ne) mulr0.
rewrite mx_get_mul // ?ltn_pmod //; apply: eq_bigr => l _.
by rewrite /Fn dv md eqxx HY.
Qed.

Lemma dv c (l : nat) : (l < bs)%N -> ((c * bs + l) %/ bs)%N = c.
Proof. by move=> lb; rewrite divnMDl // divn_small ?addn0. Qed.
Lemma md c (l : nat) : (l < bs)%N -> ((c * bs + l) %% bs)%N = l.
Proof. by move=> lb; rewrite modnMDl modn_small. Qed.
Lemma in_blk t l : (t < nb)%N -> (l < bs)%N -> (t * bs + l < d)%N.
Proof.
move=> tn lb; apply: (@leq_trans (t.+1 * bs)%N); first by rewrite mulSnr ltn_add2l.
by rewrite leq_mul2r tn orbT.
Qed.

Lemma mx_get0 m n i j : mx_get (0 : 'M[F]_(m,n)) i j = 0.
Proof. by rewrite /mx_get; case: insub => // a; case: insub => // c; rewrite mxE. Qed.

(* inv_R holds the inverses of the blocks side by side *)
Lemma inv_R_get (i j : nat) : (i < bs)%N -> (j < d)%N ->
  mx_get (uvr_inv_R (O:=O) d nb R) i j = mx_get (invmx (blk (j %/ bs)%N)) i (j %% bs)%N.
Proof.
move=> ib jd; rewrite /uvr_inv_R /blk eqb_eqn; case: ifP => _.
- by rewrite (@fold_rowblocks _ tr sq eg bs bs0 bs d nb (fun t => bs * t)%N
               (fun _ => invmx (uvr_R_single (O:=O) R)) 0 i j) ?jd // => t; rewrite mulnC.
- by rewrite (@fold_rowblocks _ tr sq eg bs bs0 bs d nb (fun t => bs * t)%N
               (fun t => invmx (uvr_R_block (O:=O) R t)) 0 i j) ?jd // => t; rewrite mulnC.
Qed.

Lemma inv_R_slice t : (t < nb)%N ->
  mslice (O:=O) 0 (bs * t) bs bs (uvr_inv_R (O:=O) d nb R) = invmx (blk t).
Proof.
move=> tn; apply/matrixP => i j.
by rewrite mxE /= !plusE ?multE [(bs * t)%N]mulnC inv_R_get ?in_blk // dv // md // mx_get_ord.
Qed.

Let Ri := BD nb (fun t => invmx (blk t)).

Lemma V_inv_R_eq : uvr_V_inv_R (O:=O) V (uvr_inv_R (O:=O) d nb R) = V *m Ri.
Proof.
apply/matrixP => i j; rewrite -mx_get_ord /uvr_V_inv_R div_mulK //.
rewrite (@fold_rowblocks _ tr sq eg bs bs0 k d nb (fun t => t * bs)%N
          (fun t => mslice (O:=O) 0 (t * bs) k bs V *m
                    mslice (O:=O) 0 (bs * t) bs bs (uvr_inv_R (O:=O) d nb R)) 0 i j) //.
rewrite ltn_ord inv_R_slice ?ltn_divLR //.
rewrite (@mul_BD k V _ (fun t => mslice (O:=O) 0 (t * bs) k bs V)) // => t i0 l tn ik lb.
by rewrite /mslice /= mx_get_build.
Qed.

Lemma dT_inv_R_eq (diff : M O d b) :
  uvr_diffT_inv_R (O:=O) nb diff (uvr_inv_R (O:=O) d nb R) = diff^T *m Ri.
Proof.
apply/matrixP => i j; rewrite -mx_get_ord /uvr_diffT_inv_R.
rewrite (@fold_rowblocks _ tr sq eg bs bs0 b d nb (fun t => t * bs)%N
          (fun t => (mslice (O:=O) (t * bs) 0 bs b diff)^T *m
                    mslice (O:=O) 0 (bs * t) bs bs (uvr_inv_R (O:=O) d nb R)) 0 i j) //.
rewrite ltn_ord inv_R_slice ?ltn_divLR //.
rewrite (@mul_BD b diff^T _ (fun t => (mslice (O:=O) (t * bs) 0 bs b diff)^T)) // => t i0 l tn ik lb.
by rewrite !mx_get_tr /mslice /= mx_get_build.
Qed.

(* the spec-level assembly is the block-diagonal matrix of the blocks *)
Lemma blockdiag_BD : blockdiag (O:=O) d R = BD nb blk.
Proof.
apply/matrixP => i j; rewrite -mx_get_ord /blockdiag div_mulK //.
rewrite (@fold_diagblocks _ tr sq eg bs bs0 d nb (fun t => bs * t)%N
          (fun t => if Nat.eqb rc bs then uvr_R_single (O:=O) R else uvr_R_block (O:=O) R t) i j) //;
  last by move=> t; rewrite mulnC.
by rewrite !ltn_ord /= mxE /blk eqb_eqn.
Qed.

Lemma spow_exp (x : F) n : spow (Sc:=FOps tr) x n = x ^+ n.
Proof. by elim: n => [|n IH] //=; rewrite IH exprS. Qed.

Lemma fold_prod (f : nat -> F) n :
  List.fold_left (fun acc i => acc * f i) (List.seq 0 n) 1 = \prod_(i < n) f i.
Proof.
elim: n => [|n IH]; first by rewrite big_ord0.
by rewrite List.seq_S List.fold_left_app /= IH big_ord_recr.
Qed.

Lemma det_R_eq : uvr_det_R (O:=O) nb R = \prod_(t < nb) \det (blk t).
Proof.
rewrite /uvr_det_R /blk eqb_eqn; case: ifP => _.
- by rewrite spow_exp prodr_const card_ord.
- exact: fold_prod.
Qed.

(* ---- block-diagonal R: invertibility, inverse, determinant (premise: the blocks) ---- *)
Hypothesis uB : forall t, (t < nb)%N -> blk t \in unitmx.

Lemma Rd_unit : (blockdiag (O:=O) d R : 'M[F]_d) \in unitmx.
Proof. by rewrite blockdiag_BD; case: (BD_inverse uB). Qed.

Lemma Rd_inv : invmx (blockdiag (O:=O) d R : 'M[F]_d) = Ri.
Proof. by rewrite blockdiag_BD; case: (BD_inverse uB). Qed.

Lemma Rd_det : \det (blockdiag (O:=O) d R : 'M[F]_d) = uvr_det_R (O:=O) nb R.
Proof. by rewrite blockdiag_BD BD_det det_R_eq. Qed.

Lemma capacitance_eq :
  uvr_I_V_inv_R_U (O:=O) (uvr_V_inv_R (O:=O) V (uvr_inv_R (O:=O) d nb R)) U
  = 1%:M + V *m invmx (blockdiag (O:=O) d R : 'M[F]_d) *m U.
Proof. by rewrite /uvr_I_V_inv_R_U /= V_inv_R_eq Rd_inv. Qed.

Lemma uvr_det_S_eq : uvr_det_S (O:=O) U V R = \det (assembled_S (O:=O) U V R : 'M[F]_d).
Proof.
rewrite /uvr_det_S div_mulK // capacitance_eq /assembled_S /= -Rd_det.
by rewrite (det_lemma U V Rd_unit).
Qed.

Hypothesis uS : (assembled_S (O:=O) U V R : 'M[F]_d) \in unitmx.

Lemma uvr_capacitance_unit :
  (uvr_I_V_inv_R_U (O:=O) (uvr_V_inv_R (O:=O) V (uvr_inv_R (O:=O) d nb R)) U : 'M[F]_k) \in unitmx.
Proof. rewrite capacitance_eq; exact: (capacitance_unit Rd_unit uS). Qed.

Lemma mcol_ord m n (X : 'M[F]_(m,n)) i (lt : (i < n)%N) : mcol (O:=O) i X = col (Ordinal lt) X.
Proof. by apply/matrixP => r c; rewrite !mxE /= (mx_get_ord X r (Ordinal lt)). Qed.

Lemma mrow_ord m n (X : 'M[F]_(m,n)) i (lt : (i < m)%N) : mrow (O:=O) i X = row (Ordinal lt) X.
Proof. by apply/matrixP => r c; rewrite !mxE /= (mx_get_ord X (Ordinal lt) c). Qed.

Lemma col_colwise_sub i (lt : (i < b)%N) :
  col (Ordinal lt) (mcolwise_sub (O:=O) input mean) = col (Ordinal lt) (input : 'M[F]_(d,b)) - mean.
Proof.
apply/matrixP => r c; rewrite !mxE /=.
by rewrite (mx_get_ord input r (Ordinal lt)) (mx_get_ord mean r ord0) [c]ord1.
Qed.

Lemma uvr_eq_direct i : (i < b)%N ->
  List.nth i (log_density_uvr (O:=O) input mean U V R) 0 =
  log_density (O:=O) (mcol (O:=O) i input) mean (assembled_S (O:=O) U V R).
Proof.
move=> ib; rewrite /log_density_uvr div_mulK //.
set f := (fun i0 : nat => gauss_log_value _ _ _).
rewrite (List.nth_indep _ 0 (f 0%N)); last by rewrite List.map_length List.seq_length; apply/ssrnat.ltP.
rewrite List.map_nth List.seq_nth; last exact/ssrnat.ltP.
rewrite /f {f} -[(0 + i)%coq_nat]/i.
set A := smul _ _ _; set B := uvr_weighted_diff _ _ _ _ _ _.
have -> : A = mdet (assembled_S (O:=O) U V R).
  by rewrite /A -[RHS]uvr_det_S_eq /uvr_det_S div_mulK.
suff -> : B = quadform (msub (mcol (O:=O) i input) mean) (minv (assembled_S (O:=O) U V R)) by [].
rewrite /B /uvr_weighted_diff /quadform capacitance_eq V_inv_R_eq dT_inv_R_eq -Rd_inv.
rewrite (mrow_ord _ ib) !(mcol_ord _ ib) row_mul -tr_col col_colwise_sub.
congr (mx_get _ 0 0).
exact: (esym (@woodbury_quadform _ _ _ _ U V Rd_unit uS (col (Ordinal ib) (input : 'M[F]_(d,b)) - (mean : 'cV[F]_d)))).
Qed.

End UVRModel.

(* ------------------------------------------------------------------ *)
(* a symmetric positive definite matrix has a positive determinant
   (induction on the size through the Schur complement of the top-left entry) *)
Section SpdDet.
Variable F : realFieldType.

Lemma spd_ulsub m n (Aul : 'M[F]_m) (Aur : 'M[F]_(m,n)) (Adl : 'M[F]_(n,m)) (Adr : 'M[F]_n) :
  spd (block_mx Aul Aur Adl Adr) -> spd Aul.
Proof.
case=> sA pA; split.
  by move: sA; rewrite /sym tr_block_mx => /eq_block_mx [].
move=> x xn0.
have -> : qf Aul x = qf (block_mx Aul Aur Adl Adr) (row_mx x 0).
  by rewrite /qf mul_row_block !mul0mx !addr0 tr_row_mx trmx0 mul_row_col mulmx0 addr0.
by apply: pA; rewrite row_mx_eq0 negb_and xn0.
Qed.

Lemma spd_mx11_gt0 (a : 'M[F]_1) : spd a -> 0 < \det a.
Proof.
case=> _ pa; rewrite det_mx11.
have := pa 1%:M (oner_neq0 _).
by rewrite /qf mul1mx trmx1 mulmx1.
Qed.

Lemma spd_det_step n : (forall B : 'M[F]_n, spd B -> 0 < \det B) ->
  forall A : 'M[F]_(1 + n), spd A -> 0 < \det A.
Proof.
move=> IH A; rewrite -[A]submxK.
set a := ulsubmx _; set b := ursubmx _; set c := dlsubmx _; set D := drsubmx _ => sA.
have sa : spd a := spd_ulsub sA.
have ua := spd_unit sa.
have [symA posA] := sA.
have [ta tc tb tD] : [/\ a^T = a, c^T = b, b^T = c & D^T = D].
  by move: symA; rewrite /sym tr_block_mx => /eq_block_mx [].
pose S := D - c *m invmx a *m b.
have E : block_mx a b c D = block_mx 1%:M 0 (c *m invmx a) 1%:M *m block_mx a b 0 S.
  rewrite mulmx_block !mul1mx !mul0mx ?mulmx0 !addr0 -[c *m invmx a *m a]mulmxA (mulVmx ua) mulmx1.
  by rewrite /S addrC subrK.
have sS : spd S.
  split.
    by rewrite /sym /S linearB /= !trmx_mul trmx_inv ta tb tc tD mulmxA.
  move=> y yn0.
  pose s : 'rV[F]_1 := - (y *m c *m invmx a).
  have -> : qf S y = qf (block_mx a b c D) (row_mx s y).
    rewrite /qf mul_row_block tr_row_mx mul_row_col.
    have -> : s *m a + y *m c = 0.
      by rewrite /s mulNmx -[_ *m invmx a *m a]mulmxA (mulVmx ua) mulmx1 addNr.
    rewrite mul0mx add0r /S mulmxBr /s mulNmx !mulmxA addrC.
    by [].
  by apply: posA; rewrite row_mx_eq0 negb_and yn0 orbT.
rewrite E det_mulmx det_lblock !det1 !mul1r det_ublock.
by apply: mulr_gt0; [exact: spd_mx11_gt0 | exact: IH].
Qed.

Lemma spd_det_gt0 n (A : 'M[F]_n) : spd A -> 0 < \det A.
Proof.
elim: n A => [|n IH] A sA; first by rewrite det_mx00 ltr01.
exact: (@spd_det_step n IH A sA).
Qed.

End SpdDet.

(* ------------------------------------------------------------------ *)
(* Statements in terms of the model only (per-block / shared encodings,
   block-diagonal inverse and determinant, density = exp, definition)   *)
Section Statements.
Variable F : realFieldType.
Variable tr : Transc F.
Variable sq : forall n, 'M[F]_n -> 'M[F]_n.
Variable eg : forall n, 'M[F]_n -> 'M[F]_(n,1).
Let O := MxMat tr sq eg.
Variables (bs nb k b : nat).
Hypothesis bs0 : (0 < bs)%N.
Notation d := (nb * bs)%N.
Variables (input : M O d b) (mean : M O d 1) (U : M O d k) (V : M O k d).

Lemma single_id (R : 'M[F]_bs) : uvr_R_single (O:=O) R = R.
Proof. by apply/matrixP => i j; rewrite mxE /= mx_get_ord. Qed.

Lemma blk_shared (R : M O bs bs) t : blk (tr:=tr) (sq:=sq) (eg:=eg) R t = R.
Proof. by rewrite /blk eqxx single_id. Qed.

Lemma blk_per_block (R : M O bs d) t : (t < nb)%N ->
  blk (tr:=tr) (sq:=sq) (eg:=eg) R t = uvr_R_block (O:=O) R t.
Proof.
move=> tn; rewrite /blk; case: ifP => // /eqP E.
have nb1 : nb = 1%N by apply/eqP; rewrite -(eqn_pmul2r bs0) mul1n E.
have t0 : t = 0%N by apply/eqP; rewrite -leqn0 -ltnS -nb1.
by rewrite t0 /uvr_R_block /uvr_R_single multE muln0.
Qed.

(* R given as all its diagonal blocks side by side *)
Lemma uvr_eq_direct_per_block (R : M O bs d) :
  (forall t, (t < nb)%N -> (uvr_R_block (O:=O) R t : 'M[F]_bs) \in unitmx) ->
  (assembled_S (O:=O) U V R : 'M[F]_d) \in unitmx ->
  forall i, (i < b)%N ->
    List.nth i (log_density_uvr (O:=O) input mean U V R) 0 =
    log_density (O:=O) (mcol (O:=O) i input) mean (assembled_S (O:=O) U V R).
Proof.
move=> uB uS i ib; apply: (uvr_eq_direct bs0) => // t tn.
by rewrite blk_per_block //; exact: uB.
Qed.

(* R given as one block shared by all diagonal positions *)
Lemma uvr_eq_direct_shared (R : M O bs bs) :
  (R : 'M[F]_bs) \in unitmx ->
  (assembled_S (O:=O) U V R : 'M[F]_d) \in unitmx ->
  forall i, (i < b)%N ->
    List.nth i (log_density_uvr (O:=O) input mean U V R) 0 =
    log_density (O:=O) (mcol (O:=O) i input) mean (assembled_S (O:=O) U V R).
Proof.
move=> uR uS i ib; apply: (uvr_eq_direct bs0) => // t tn.
by rewrite blk_shared.
Qed.

(* the common use (V = U^T, SPD blocks): every premise is derived *)
Lemma assembled_sym_factor_spd rc (R : M O bs rc) :
  (forall t, (t < nb)%N -> spd (blk (tr:=tr) (sq:=sq) (eg:=eg) R t)) ->
  spd (assembled_S (O:=O) U (mtr (m:=d) (n:=k) U) R : 'M[F]_d).
Proof.
move=> sB; rewrite /assembled_S /= (blockdiag_BD (tr:=tr) (sq:=sq) (eg:=eg) nb bs0 R).
apply: psd_spd_add; last exact: BD_spd.
rewrite -[U in U *m _]mulmx1; apply: psd_congr; apply: spd_psd; exact: spd1.
Qed.

Lemma uvr_eq_direct_sym_factor rc (R : M O bs rc) :
  (forall t, (t < nb)%N -> spd (blk (tr:=tr) (sq:=sq) (eg:=eg) R t)) ->
  forall i, (i < b)%N ->
    List.nth i (log_density_uvr (O:=O) input mean U (mtr (m:=d) (n:=k) U) R) 0 =
    log_density (O:=O) (mcol (O:=O) i input) mean (assembled_S (O:=O) U (mtr (m:=d) (n:=k) U) R).
Proof.
move=> sB i ib; apply: (uvr_eq_direct bs0) => // [t tn|].
- exact: spd_unit (sB t tn).
- exact: spd_unit (assembled_sym_factor_spd sB).
Qed.

(* what "assembled" means, entry by entry *)
Lemma blockdiag_entry rc (R : M O bs rc) (i j : 'I_d) :
  (blockdiag (O:=O) d R : 'M[F]_d) i j =
  if (i %/ bs == j %/ bs)%N
  then mx_get (blk (tr:=tr) (sq:=sq) (eg:=eg) R (i %/ bs)%N) (i %% bs)%N (j %% bs)%N else 0.
Proof. by rewrite (blockdiag_BD (tr:=tr) (sq:=sq) (eg:=eg) nb bs0 R) mxE. Qed.

(* the code's inv_R (same side-by-side layout) assembles to the inverse of blockdiag(R) *)
Lemma blockdiag_inverse rc (R : M O bs rc) :
  (forall t, (t < nb)%N -> blk (tr:=tr) (sq:=sq) (eg:=eg) R t \in unitmx) ->
  (blockdiag (O:=O) d R : 'M[F]_d) \in unitmx /\
  invmx (blockdiag (O:=O) d R : 'M[F]_d) = blockdiag (O:=O) d (uvr_inv_R (O:=O) d nb R).
Proof.
move=> uB; split; first exact: (Rd_unit bs0 uB).
rewrite (Rd_inv bs0 uB) (blockdiag_BD (tr:=tr) (sq:=sq) (eg:=eg) nb bs0 (uvr_inv_R (O:=O) d nb R)).
apply: BD_ext => t tn; rewrite blk_per_block // /uvr_R_block.
by rewrite (inv_R_slice (tr:=tr) (sq:=sq) (eg:=eg) bs0 R tn).
Qed.

Lemma blockdiag_det rc (R : M O bs rc) :
  \det (blockdiag (O:=O) d R : 'M[F]_d) = uvr_det_R (O:=O) nb R.
Proof. exact: (Rd_det (tr:=tr) (sq:=sq) (eg:=eg) nb bs0 R). Qed.

(* non-vacuity: identity blocks and U = V = 0 satisfy the premises, for every shape *)
Lemma premises_example :
  ((1%:M : 'M[F]_bs) \in unitmx) /\
  ((assembled_S (O:=O) (0 : 'M[F]_(d,k)) (0 : 'M[F]_(k,d)) (1%:M : 'M[F]_bs) : 'M[F]_d) \in unitmx).
Proof.
split; first exact: unitmx1.
rewrite /assembled_S /= mulmx0 add0r (blockdiag_BD (tr:=tr) (sq:=sq) (eg:=eg) nb bs0 (1%:M : 'M[F]_bs)).
rewrite (BD_ext (H:=fun _ => 1%:M)) ?BD_1 ?unitmx1 // => t _.
exact: blk_shared.
Qed.

End Statements.

Section Definitions.
Variable F : realFieldType.
Variable tr : Transc F.
Variable sq : forall n, 'M[F]_n -> 'M[F]_n.
Variable eg : forall n, 'M[F]_n -> 'M[F]_(n,1).
Let O := MxMat tr sq eg.
Variables (d b k bs rc : nat).
Variables (input : M O d b) (mean : M O d 1) (cov : M O d d).
Variables (U : M O d k) (V : M O k d) (R : M O bs rc).

Lemma nth_map_seq (T : Type) (f : nat -> T) n i x0 : (i < n)%N ->
  List.nth i (List.map f (List.seq 0 n)) x0 = f i.
Proof.
move=> lt; rewrite (List.nth_indep _ x0 (f 0%N)); last by rewrite List.map_length List.seq_length; apply/ssrnat.ltP.
by rewrite List.map_nth List.seq_nth //; apply/ssrnat.ltP.
Qed.

Lemma log_density_uvr_length : length (log_density_uvr (O:=O) input mean U V R) = b.
Proof. by rewrite /log_density_uvr List.map_length List.seq_length. Qed.

Lemma log_density_mat_length : length (log_density_mat (O:=O) input mean cov) = b.
Proof. by rewrite /log_density_mat List.map_length List.seq_length. Qed.

(* density = exp(log-density), entry by entry, same length *)
Lemma density_uvr_exp i :
  List.nth i (density_uvr (O:=O) input mean U V R) (t_exp tr 0) =
  t_exp tr (List.nth i (log_density_uvr (O:=O) input mean U V R) 0).
Proof. by rewrite /density_uvr (List.map_nth (sexp (sc O))). Qed.

Lemma density_mat_exp i :
  List.nth i (density_mat (O:=O) input mean cov) (t_exp tr 0) =
  t_exp tr (List.nth i (log_density_mat (O:=O) input mean cov) 0).
Proof. by rewrite /density_mat (List.map_nth (sexp (sc O))). Qed.

Lemma density_lengths :
  length (density_uvr (O:=O) input mean U V R) = b /\ length (density_mat (O:=O) input mean cov) = b.
Proof.
by rewrite /density_uvr /density_mat /log_density_uvr /log_density_mat !List.map_length !List.seq_length.
Qed.

Lemma batch_lengths :
  length (log_density_uvr (O:=O) input mean U V R) = b /\
  length (log_density_mat (O:=O) input mean cov) = b /\
  length (density_uvr (O:=O) input mean U V R) = b /\
  length (density_mat (O:=O) input mean cov) = b.
Proof. by rewrite log_density_uvr_length log_density_mat_length; case: density_lengths. Qed.

Lemma sofnat_natr n : sofnat (sc O) n = n%:R.
Proof.
rewrite /sofnat /=; case: n => [|n] //=.
by rewrite SuccNat2Pos.id_succ.
Qed.

(* the direct form is the textbook expression, per column of the batch *)
Lemma log_density_mat_def i (lt : (i < b)%N) :
  let delta := col (Ordinal lt) (input : 'M[F]_(d,b)) - (mean : 'cV[F]_d) in
  List.nth i (log_density_mat (O:=O) input mean cov) 0 =
  - 2%:R^-1 * (d%:R * t_ln tr (2%:R * t_pi tr) + t_ln tr (\det (cov : 'M[F]_d))
               + (delta^T *m invmx (cov : 'M[F]_d) *m delta) 0 0).
Proof.
rewrite /log_density_mat nth_map_seq // /log_density /quadform.
rewrite (mcol_ord tr sq eg _ lt) sofnat_natr /shalf /s2 /=.
by rewrite div1r -[1 + 1]/(2%:R) (mx_get_ord _ ord0 ord0).
Qed.

End Definitions.

(* ------------------------------------------------------------------ *)
(* the arguments of ln are positive (derived from SPD, not assumed), and the
   clause "the factorised density equals the direct one", per evaluation point *)
Section Guards.
Variable F : realFieldType.
Variable tr : Transc F.
Variable sq : forall n, 'M[F]_n -> 'M[F]_n.
Variable eg : forall n, 'M[F]_n -> 'M[F]_(n,1).
Let O := MxMat tr sq eg.
Variables (bs nb k b rc : nat).
Hypothesis bs0 : (0 < bs)%N.
Notation d := (nb * bs)%N.
Variables (input : M O d b) (mean : M O d 1) (U : M O d k) (R : M O bs rc).
Notation blkR := (blk (tr:=tr) (sq:=sq) (eg:=eg) R).

Lemma direct_logdet_guard n (cov : M O n n) : spd (cov : 'M[F]_n) -> 0 < (mdet cov : F).
Proof. exact: spd_det_gt0. Qed.

Lemma uvr_logdet_guard (V : M O k d) :
  (forall t, (t < nb)%N -> blkR t \in unitmx) ->
  spd (assembled_S (O:=O) U V R : 'M[F]_d) -> 0 < (uvr_det_S (O:=O) U V R : F).
Proof. by move=> uB sS; rewrite (uvr_det_S_eq bs0 U V uB); exact: spd_det_gt0. Qed.

Lemma uvr_det_R_guard :
  (forall t, (t < nb)%N -> spd (blkR t)) -> 0 < (uvr_det_R (O:=O) nb R : F).
Proof.
move=> sB; rewrite -(Rd_det (tr:=tr) (sq:=sq) (eg:=eg) nb bs0 R).
rewrite (blockdiag_BD (tr:=tr) (sq:=sq) (eg:=eg) nb bs0 R).
by apply: spd_det_gt0; exact: BD_spd.
Qed.

Lemma uvr_logdet_guard_sym_factor :
  (forall t, (t < nb)%N -> spd (blkR t)) ->
  0 < (uvr_det_S (O:=O) U (mtr (m:=d) (n:=k) U) R : F).
Proof.
move=> sB; apply: uvr_logdet_guard; first by move=> t tn; exact: spd_unit (sB t tn).
exact: (assembled_sym_factor_spd (tr:=tr) (sq:=sq) (eg:=eg) bs0 U sB).
Qed.

Lemma density_uvr_eq_direct (V : M O k d) :
  (forall t, (t < nb)%N -> blkR t \in unitmx) ->
  (assembled_S (O:=O) U V R : 'M[F]_d) \in unitmx ->
  forall i, (i < b)%N ->
    List.nth i (density_uvr (O:=O) input mean U V R) (t_exp tr 0) =
    List.nth i (density_mat (O:=O) input mean (assembled_S (O:=O) U V R)) (t_exp tr 0).
Proof.
move=> uB uS i ib; rewrite density_uvr_exp density_mat_exp.
by rewrite (uvr_eq_direct bs0 input mean uB uS ib) /log_density_mat nth_map_seq.
Qed.

Lemma log_density_uvr_eq_mat (V : M O k d) :
  (forall t, (t < nb)%N -> blkR t \in unitmx) ->
  (assembled_S (O:=O) U V R : 'M[F]_d) \in unitmx ->
  log_density_uvr (O:=O) input mean U V R =
  log_density_mat (O:=O) input mean (assembled_S (O:=O) U V R).
Proof.
move=> uB uS; apply: (List.nth_ext _ _ (0 : F) (0 : F)).
  by rewrite log_density_uvr_length log_density_mat_length.
move=> i; rewrite log_density_uvr_length => /ssrnat.ltP ib.
by rewrite (uvr_eq_direct bs0 input mean uB uS ib) /log_density_mat nth_map_seq.
Qed.

End Guards.
