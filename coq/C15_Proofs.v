(* C15_Proofs.v — the Gaussian density utilities at the MathComp instance
   (World A): Woodbury identity, matrix determinant lemma, block-diagonal
   inverse / determinant, and the factorised ("UVR") log-density equals the
   direct one on the assembled covariance.  ln / exp / pi are the
   uninterpreted functions of the Transc record: only congruence is used.
   Axiom-free. *)
Require Import ZArith List.
Require Import BFL.Ops BFL.Density BFL.C15_Model.
From mathcomp Require Import all_ssreflect all_algebra.
Require Import BFL.MxOps BFL.LinAlg.
Set Implicit Arguments.
Unset Strict Implicit.
Unset Printing Implicit Defensive.
Import Order.Theory GRing.Theory Num.Theory.
Local Open Scope ring_scope.

(* ------------------------------------------------------------------ *)
(* Coq stdlib nat functions used by the model vs ssrnat               *)
Lemma leb_leq a b : Nat.leb a b = (a <= b)%N.
Proof. by apply/idP/idP => [/Nat.leb_le/ssrnat.leP|/ssrnat.leP/Nat.leb_le]. Qed.
Lemma ltb_ltn a b : Nat.ltb a b = (a < b)%N.
Proof. by rewrite /Nat.ltb leb_leq. Qed.
Lemma eqb_eqn a b : Nat.eqb a b = (a == b).
Proof. by apply/idP/eqP => /Nat.eqb_eq. Qed.
Lemma div_mulK nb bs : (0 < bs)%N -> Nat.div (nb * bs)%N bs = nb.
Proof. by move=> b0; apply: Nat.div_mul => E; rewrite E in b0. Qed.

(* ------------------------------------------------------------------ *)
(* Woodbury and the matrix determinant lemma, general U, V, invertible R *)
Section Woodbury.
Variable F : fieldType.
Variables (d k : nat) (R : 'M[F]_d) (U : 'M[F]_(d,k)) (V : 'M[F]_(k,d)).
Hypothesis uR : R \in unitmx.

Let S := U *m V + R.
Let C := 1%:M + V *m invmx R *m U.       (* the "capacitance" matrix I + V R^-1 U *)

(* det (U V + R) = det R * det (I + V R^-1 U) *)
Lemma det_lemma : \det S = \det R * \det C.
Proof.
rewrite /S /C addrC.
pose B : 'M[F]_(d + k) := block_mx R (- U) V 1%:M.
have E1 : B = block_mx 1%:M 0 (V *m invmx R) 1%:M *m block_mx R (- U) 0 (1%:M + V *m invmx R *m U).
  rewrite mulmx_block ?mul1mx ?mul0mx ?mulmx0 ?addr0 -[V *m invmx R *m R]mulmxA (mulVmx uR) mulmx1.
  by rewrite mulmxN addrCA addNr addr0.
have E2 : B = block_mx (R + U *m V) (- U) 0 1%:M *m block_mx 1%:M 0 V 1%:M.
  rewrite mulmx_block ?mulmx1 ?mul0mx ?mulmx0 ?add0r ?addr0 ?mul1mx.
  by rewrite mulNmx addrK.
have := E1; rewrite {1}E2 => /(congr1 determinant).
rewrite !det_mulmx !det_ublock !det_lblock !det1 !mulr1 !mul1r.
by move=> ->.
Qed.

Hypothesis uS : S \in unitmx.

(* derived, not assumed: the matrix the code inverts is invertible *)
Lemma capacitance_unit : C \in unitmx.
Proof.
move: uS; rewrite !unitmxE det_lemma unitrM; by case/andP.
Qed.

Lemma woodbury_right_inverse :
  S *m (invmx R *m (1%:M - U *m invmx C *m (V *m invmx R))) = 1%:M.
Proof.
have uC := capacitance_unit.
set Ri := invmx R; set Ci := invmx C.
have SRi : S *m Ri = U *m V *m Ri + 1%:M by rewrite /S mulmxDl (mulmxV uR).
have key : (U *m V *m Ri + 1%:M) *m U = U *m C.
  by rewrite /C mulmxDl mul1mx mulmxDr mulmx1 !mulmxA addrC.
rewrite (mulmxA S) SRi mulmxBr mulmx1 !mulmxA key.
by rewrite -[U *m C *m Ci]mulmxA (mulmxV uC) mulmx1 addrAC subrr add0r.
Qed.

Lemma woodbury : invmx S = invmx R *m (1%:M - U *m invmx C *m (V *m invmx R)).
Proof.
have := woodbury_right_inverse; set X := (invmx R *m _) => E.
by rewrite -[X]mul1mx -(mulVmx uS) -mulmxA E mulmx1.
Qed.

Lemma woodbury_quadform (x : 'cV[F]_d) :
  x^T *m invmx S *m x = x^T *m invmx R *m (1%:M - U *m invmx C *m (V *m invmx R)) *m x.
Proof. by rewrite woodbury !mulmxA. Qed.

End Woodbury.

(* ------------------------------------------------------------------ *)
(* Block-diagonal matrices with nb blocks of size bs: entrywise form (what the
   model's loops build) and its algebra, by induction on the number of blocks
   through block_mx.                                                         *)
Section BlockDiag.
Variable F : realFieldType.
Variable bs : nat.

Definition BD nb (G : nat -> 'M[F]_bs) : 'M[F]_(nb * bs) :=
  \matrix_(i, j) if (i %/ bs == j %/ bs)%N then mx_get (G (i %/ bs)%N) (i %% bs)%N (j %% bs)%N else 0.

Lemma bs_pos nb (i : 'I_(nb * bs)) : (0 < bs)%N.
Proof. by case: i => m; case: (bs) => //; rewrite muln0. Qed.

Lemma BD_S nb (G : nat -> 'M[F]_bs) :
  BD nb.+1 G = (block_mx (G 0%N) 0 0 (BD nb (fun i => G i.+1)) : 'M_(bs + nb * bs)).
Proof.
apply/matrixP => i j; rewrite [LHS]mxE.
case: (split_ordP i) => [i0 ->|i1 ->]; case: (split_ordP j) => [j0 ->|j1 ->] /=.
- by rewrite block_mxEul !divn_small // !modn_small // eqxx mx_get_ord.
- have b0 : (0 < bs)%N by apply: leq_ltn_trans (ltn_ord i0).
  by rewrite block_mxEur mxE divn_small // divnDl ?dvdnn // divnn b0.
- have b0 : (0 < bs)%N by apply: leq_ltn_trans (ltn_ord j0).
  by rewrite block_mxEdl mxE [(j0 %/ bs)%N]divn_small // divnDl ?dvdnn // divnn b0.
- have b0 := bs_pos i1.
  by rewrite block_mxEdr mxE !divnDl ?dvdnn // divnn b0 !add1n eqSS !modnDl.
Qed.

Lemma BD_ext nb (G H : nat -> 'M[F]_bs) :
  (forall i, (i < nb)%N -> G i = H i) -> BD nb G = BD nb H.
Proof.
move=> E; apply/matrixP => i j; rewrite !mxE.
have b0 := bs_pos i.
by rewrite E // ltn_divLR // ltn_ord.
Qed.

Lemma BD_mul nb (G H : nat -> 'M[F]_bs) :
  BD nb G *m BD nb H = BD nb (fun i => G i *m H i).
Proof.
elim: nb G H => [|nb IH] G H; first by apply/matrixP; case.
by rewrite !BD_S mulmx_block !mulmx0 !mul0mx !addr0 add0r IH.
Qed.

Lemma BD_1 nb : BD nb (fun _ => 1%:M) = 1%:M.
Proof.
elim: nb => [|nb IH]; first by apply/matrixP; case.
by rewrite BD_S IH -scalar_mx_block.
Qed.

Lemma BD_det nb (G : nat -> 'M[F]_bs) : \det (BD nb G) = \prod_(i < nb) \det (G i).
Proof.
elim: nb G => [|nb IH] G; first by rewrite big_ord0 det_mx00.
by rewrite BD_S det_ublock IH big_ord_recl.
Qed.

Lemma BD_inverse nb (G : nat -> 'M[F]_bs) :
  (forall i, (i < nb)%N -> G i \in unitmx) ->
  BD nb G \in unitmx /\ invmx (BD nb G) = BD nb (fun i => invmx (G i)).
Proof.
move=> uG.
have E : BD nb G *m BD nb (fun i => invmx (G i)) = 1%:M.
  rewrite BD_mul -(BD_1 nb); apply: BD_ext => i lt; exact: mulmxV (uG i lt).
have [uB _] := mulmx1_unit E; split=> //.
by rewrite -[LHS]mulmx1 -E mulmxA (mulVmx uB) mul1mx.
Qed.

End BlockDiag.

(* ------------------------------------------------------------------ *)
(* The model's loops at the MathComp instance                          *)
Section Assembly.
Variable F : realFieldType.
Variable tr : Transc F.
Variable sq : forall n, 'M[F]_n -> 'M[F]_n.
Variable eg : forall n, 'M[F]_n -> 'M[F]_(n,1).
Let O := MxMat tr sq eg.
Variable bs : nat.
Hypothesis bs0 : (0 < bs)%N.

Lemma mx_get_mul m n p (A : 'M[F]_(m,n)) (B : 'M[F]_(n,p)) (i j : nat) :
  (i < m)%N -> (j < p)%N -> mx_get (A *m B) i j = \sum_(l < n) mx_get A i l * mx_get B l j.
Proof.
move=> im jp.
have -> : i = Ordinal im by []. have -> : j = Ordinal jp by [].
by rewrite mx_get_ord mxE; apply: eq_bigr => l _; rewrite !mx_get_ord.
Qed.

Lemma mx_get_tr m n (A : 'M[F]_(m,n)) (i j : nat) : mx_get A^T i j = mx_get A j i.
Proof.
rewrite /mx_get; case: (insub i) => [i'|]; case: (insub j) => [j'|] //.
by rewrite mxE.
Qed.

Lemma sum_blocks nb (Fn : nat -> F) :
  \sum_(i < nb * bs) Fn i = \sum_(b < nb) \sum_(l < bs) Fn (b * bs + l)%N.
Proof.
rewrite -(big_mkord xpredT Fn) big_nat_mul big_mkord; apply: eq_bigr => b _.
rewrite mulSnr -{1}[(b * bs)%N]add0n big_addn addKn big_mkord.
by apply: eq_bigr => l _; rewrite addnC.
Qed.

Lemma blk_div c x : ((c * bs <= x) && (x < c * bs + bs))%N = (x %/ bs == c)%N.
Proof. by rewrite -mulSnr -leq_divRL // -ltn_divLR // ltnS -eqn_leq eq_sym. Qed.

Lemma blk_mod x : (x - x %/ bs * bs)%N = (x %% bs)%N.
Proof. by rewrite {1}(divn_eq x bs) addKn. Qed.

Lemma get_set_block m n r c (A : 'M[F]_(m,n)) r0 c0 (B : 'M[F]_(r,c)) (i j : nat) :
  (i < m)%N -> (j < n)%N ->
  mx_get (mset_block (O:=O) A r0 c0 B) i j =
  if ((r0 <= i) && (i < r0 + r) && (c0 <= j) && (j < c0 + c))%N
  then mx_get B (i - r0) (j - c0) else mx_get A i j.
Proof. by move=> im jn; rewrite /mset_block /= mx_get_build // !leb_leq !ltb_ltn. Qed.

(* a row of blocks: block t written at columns [t*bs, t*bs+bs) *)
Lemma fold_rowblocks r n cnt (off : nat -> nat) (G : nat -> 'M[F]_(r, bs)) (A0 : 'M[F]_(r,n))
      (i j : nat) :
  (forall t, off t = (t * bs)%N) -> (i < r)%N -> (j < n)%N ->
  mx_get (List.fold_left (fun acc t => mset_block (O:=O) acc 0 (off t) (G t)) (List.seq 0 cnt) A0) i j
  = if (j < cnt * bs)%N then mx_get (G (j %/ bs)%N) i (j %% bs)%N else mx_get A0 i j.
Proof.
move=> Hoff ir jn; elim: cnt => [|cnt IH]; first by rewrite mul0n ltn0.
rewrite List.seq_S List.fold_left_app /= get_set_block // IH Hoff leq0n add0n ir /= subn0.
rewrite blk_div -!ltn_divLR // ltnS.
case: (ltngtP (j %/ bs)%N cnt) => [lt|gt|E].
- by rewrite (ltnW lt).
- by rewrite leqNgt gt.
- by rewrite -E leqnn blk_mod.
Qed.

(* blocks on the diagonal: block t at rows and columns [t*bs, t*bs+bs) *)
Lemma fold_diagblocks n cnt (off : nat -> nat) (G : nat -> 'M[F]_bs) (i j : nat) :
  (forall t, off t = (t * bs)%N) -> (i < n)%N -> (j < n)%N ->
  mx_get (List.fold_left (fun acc t => mset_block (O:=O) acc (off t) (off t) (G t))
                         (List.seq 0 cnt) (0 : 'M[F]_n)) i j
  = if ((i < cnt * bs) && (j < cnt * bs) && (i %/ bs == j %/ bs))%N
    then mx_get (G (i %/ bs)%N) (i %% bs)%N (j %% bs)%N else 0.
Proof.
move=> Hoff ir jn; elim: cnt => [|cnt IH].
  by rewrite mul0n ltn0 /= /mx_get; case: insub => // a; case: insub => // c; rewrite mxE.
rewrite List.seq_S List.fold_left_app /= get_set_block // IH Hoff -andbA !blk_div -!ltn_divLR // !ltnS.
case: (ltngtP (i %/ bs)%N cnt) => [lt|gt|E] /=.
- case: (ltngtP (j %/ bs)%N cnt) => [lt2|gt2|E2] //=.
  by rewrite E2 (gtn_eqF lt).
- by [].
- rewrite E; case: (ltngtP (j %/ bs)%N cnt) => [lt2|gt2|E2] //=.
  + by rewrite eq_sym (ltn_eqF lt2).
  + by rewrite eq_sym (gtn_eqF gt2).
  + by rewrite -{1}E -{1}E2 !blk_mod eqxx.
Qed.

End Assembly.
