(* C06_CmdProofs.v — the SIS invariant and the per-step clauses for every history of
   RAW skip commands, steps and resets (C06_Cmd.v), over the reals.  The flags a step
   runs under are computed by the dispatch of C13_Model from the commands; the rule
   "status of the last command touching the flag" (C13_Proofs.flags_match_commands)
   turns premises on flags into premises on the command history. *)
Require Import Reals ZArith List Bool Lia Lra.
Require Import BFL.Ops BFL.C07_Model BFL.C07_ROps BFL.C07_Proofs BFL.C06_Model BFL.C06_Proofs.
Require Import BFL.C13_Model BFL.C13_Proofs BFL.C06_Cmd.
Import ListNotations.
Local Open Scope R_scope.

Section CMD.
Variables St Aux : Type.
Variables (N dl dc : nat).
Hypothesis Npos : (0 < N)%nat.

Notation sset := (@sset ROps St Aux).
Notation event := (@event ROps St).
Notation sis_state := (@sis_state ROps St Aux).
Notation cevent := (@cevent ROps St).
Notation item := (@item ROps St Aux).
Notation cstate := (@cstate ROps St Aux).
Notation PreInv := (PreInv St Aux N dl dc).
Notation Inv := (Inv St Aux N dl dc).
Notation good := (good St Aux N dl dc).
Notation wf_set := (wf_set St Aux N dl dc).

(* the only premise on a step: a valid likelihood vector has one non-negative entry per particle;
   on a reset: the initialisation delivers N particles with normalised log-weights *)
Definition wf_cev (ce : cevent) : Prop :=
  match ce_lik ce with Some l => length l = N /\ Forall (fun x => 0 <= x) l | None => True end.
Definition wf_item (it : item) : Prop :=
  match it with
  | IStep ce => wf_cev ce
  | IReset p w => length p = N /\ length w = N /\ lse ROps w = 0
  end.
Definition is_step (it : item) : bool := match it with IStep _ => true | IReset _ _ => false end.

Lemma wf_event_of f ce : wf_cev ce -> wf_ev St N (event_of f ce).
Proof. intro H. exact H. Qed.

Lemma cmd_step_sis (cs : cstate) (ce : cevent) : c_sis (cmd_step N cs ce) = sis_step N (c_sis cs) (event_of (cmd_flags cs ce) ce).
Proof. reflexivity. Qed.

Lemma cmd_step_flags (cs : cstate) (ce : cevent) : c_flags (cmd_step N cs ce) = final (ce_cmds ce) (c_flags cs).
Proof. reflexivity. Qed.

Lemma reinit_preinv (st : sis_state) p w :
  PreInv st -> length p = N -> length w = N -> lse ROps w = 0 -> PreInv (reinit st p w).
Proof.
  intros [[[_ [_ [L1 L2]]] _] _] Hp Hw Hn. split.
  - split; [repeat split; simpl; auto | exact Hn].
  - intro H. exfalso. apply H. reflexivity.
Qed.

Lemma item_inv (cs : cstate) (it : item) :
  PreInv (c_sis cs) -> wf_item it ->
  PreInv (c_sis (item_step N cs it)) /\ (is_step it = true -> Inv (c_sis (item_step N cs it))).
Proof.
  intros HP Hw. destruct it as [ce | p w]; simpl in *.
  - pose proof (step_inv St Aux N dl dc Npos (c_sis cs) (event_of (cmd_flags cs ce) ce) HP (wf_event_of _ ce Hw)) as HI.
    split; [apply Inv_PreInv; exact HI | intros _; exact HI].
  - destruct Hw as [Hp [Hl Hn]]. split; [apply reinit_preinv; auto | discriminate].
Qed.

(* the invariant after every item of every history *)
Lemma cmd_trace_inv (its : list item) : forall cs : cstate,
  PreInv (c_sis cs) -> Forall wf_item its ->
  Forall2 (fun it cs' => PreInv (c_sis cs') /\ (is_step it = true -> Inv (c_sis cs'))) its (cmd_trace N cs its).
Proof.
  induction its as [|it its IH]; intros cs HP Hw; simpl; [constructor|].
  inversion Hw; subst. destruct (item_inv cs it HP H1) as [A B].
  constructor; [split; assumption | apply IH; assumption].
Qed.

Lemma cmd_run_preinv (its : list item) : forall cs : cstate,
  PreInv (c_sis cs) -> Forall wf_item its -> PreInv (c_sis (cmd_run N cs its)).
Proof.
  induction its as [|it its IH]; intros cs HP Hw; [exact HP|].
  inversion Hw; subst. unfold cmd_run. simpl. apply IH; [|assumption]. apply (item_inv cs it HP H1).
Qed.

(* after every step of a pass no resampling is pending; a reset returns to step 0 *)
Definition settled_if_started (st : sis_state) : Prop := step st <> 0%nat -> settled St Aux N (cor st).

Lemma item_settled (cs : cstate) (it : item) :
  PreInv (c_sis cs) -> wf_item it -> settled_if_started (c_sis (item_step N cs it)).
Proof.
  intros HP Hw. destruct it as [ce | p w]; simpl in *.
  - intros _. apply (settled_after_step St Aux N dl dc Npos).
    apply (good_mid St Aux N dl dc Npos (c_sis cs) (event_of (cmd_flags cs ce) ce) HP (wf_event_of _ ce Hw)).
  - intro H. exfalso. apply H. reflexivity.
Qed.

Lemma cmd_run_settled (its : list item) : forall cs : cstate,
  PreInv (c_sis cs) -> settled_if_started (c_sis cs) -> Forall wf_item its -> settled_if_started (c_sis (cmd_run N cs its)).
Proof.
  induction its as [|it its IH]; intros cs HP HS Hw; [exact HS|].
  inversion Hw; subst. unfold cmd_run. simpl. apply IH; [apply (item_inv cs it HP H1) | apply item_settled; assumption | assumption].
Qed.

(* the flags after a history are the dispatch of all its raw commands *)
Lemma cmd_run_flags (its : list item) : forall cs : cstate,
  c_flags (cmd_run N cs its) = final (cmds_of its) (c_flags cs).
Proof.
  induction its as [|it its IH]; intros cs; [reflexivity|].
  unfold cmd_run. simpl fold_left. fold (cmd_run N (item_step N cs it) its). rewrite IH.
  destruct it as [ce | p w]; simpl; [|reflexivity]. rewrite final_app. reflexivity.
Qed.

Section Hist.
Variable have : bool.
Variable st0 : sis_state.
Hypothesis Hstep0 : step st0 = 0%nat.
Hypothesis Hgood0 : good (pred st0).

Notation hstate := (hist_state N have st0).
Notation hflags := (hist_flags N have st0).
Notation hmid := (hist_mid N have st0).
Notation hafter := (hist_after N have st0).

Lemma hist_preinv its : Forall wf_item its -> PreInv (c_sis (hstate its)).
Proof. intro H. apply cmd_run_preinv; auto. apply init_preinv; auto. Qed.

Lemma hist_flags_final its ce : hflags its ce = final (hist_cmds its ce) (init have).
Proof.
  unfold hist_flags, cmd_flags, hist_state, hist_cmds. rewrite cmd_run_flags, final_app. reflexivity.
Qed.

(* the flags of the step, by the rule on the raw commands *)
Lemma hist_flags_rule its ce :
  f_pred (hflags its ce) = rule_pred_skipped have (hist_cmds its ce) /\
  f_corr (hflags its ce) = rule_corr_skipped (hist_cmds its ce).
Proof.
  rewrite hist_flags_final. split; [apply pred_reported|].
  destruct (flags_match_commands have (hist_cmds its ce)) as (_ & _ & Hc & _). exact Hc.
Qed.

Lemma hist_mode_rule its ce :
  rule_pred_skipped have (hist_cmds its ce) = false ->
  prop_mode_of (hflags its ce) = rule_mode have (hist_cmds its ce).
Proof.
  rewrite hist_flags_final. unfold rule_pred_skipped, rule_mode.
  destruct (flags_match_commands have (hist_cmds its ce)) as (Hs & He & _ & _ & _).
  revert Hs He. destruct (final (hist_cmds its ce) (init have)) as [p i s x c]. simpl.
  intros <- He. unfold prop_mode_of, have_exo, exo_model. simpl. rewrite He.
  destruct have; destruct s; destruct (last_status exo_names false (hist_cmds its ce)); simpl; intro H;
    try discriminate; reflexivity.
Qed.

Lemma hist_good_mid its ce : Forall wf_item its -> wf_cev ce -> good (pred (hmid its ce)) /\ good (cor (hmid its ce)).
Proof.
  intros Hw Hc. unfold hist_mid. apply good_mid; [exact Npos | apply hist_preinv; exact Hw | exact Hc].
Qed.

(* ---- re-weighting: measurement available, last command touching the correction (if any) is "off" ---- *)
Lemma cmd_reweight its ce l :
  Forall wf_item its ->
  rule_corr_skipped (hist_cmds its ce) = false -> ce_freeze ce = true -> ce_lik ce = Some l ->
  length l = N -> Forall (fun x => 0 <= x) l ->
  forall i, (i < N)%nat ->
  let lwp := s_lw (pred (hmid its ce)) in
  exp (nth i (s_lw (cor (hmid its ce))) 0)
  = exp (nth i lwp 0) * (nth i l 0 + Rtiny) / sumR (map (fun p => exp (fst p) * (snd p + Rtiny)) (combine lwp l)).
Proof.
  intros Hw Hr Hf Hl Hlen Hpos i Hi.
  assert (Hc : wf_cev ce) by (unfold wf_cev; rewrite Hl; split; assumption).
  destruct (hist_good_mid its ce Hw Hc) as [[[_ [L _]] _] _].
  destruct (hist_flags_rule its ce) as [_ Hfc]. rewrite Hr in Hfc.
  unfold hist_mid in *. apply (reweight St Aux N Npos); auto.
Qed.

(* ---- acquisition fails: corrected = predicted, whatever was commanded ---- *)
Lemma cmd_no_measurement its ce : ce_freeze ce = false -> cor (hmid its ce) = pred (hmid its ce).
Proof. intro H. unfold hist_mid. apply no_measurement. exact H. Qed.

(* ---- measurement acquired but the correction is commanded off, or the likelihood is invalid ---- *)
Lemma cmd_no_usable_likelihood its ce :
  Forall wf_item its -> wf_cev ce -> ce_freeze ce = true ->
  (rule_corr_skipped (hist_cmds its ce) = true \/ ce_lik ce = None) ->
  cor (hmid its ce) = pred (hmid its ce).
Proof.
  intros Hw Hc Hf Hs. destruct (hist_good_mid its ce Hw Hc) as [[_ Hn] _].
  destruct (hist_flags_rule its ce) as [_ Hfc].
  unfold hist_mid in *. apply no_usable_likelihood; auto.
  destruct Hs as [Hs|Hs]; [left; simpl; rewrite Hfc; exact Hs | right; exact Hs].
Qed.

(* ---- the prediction, from the commands ---- *)
Lemma map_fst_combine {A B} (a : list A) (b : list B) : length a = length b -> map fst (combine a b) = a.
Proof. revert b; induction a; destruct b; simpl; intro H; try congruence; try reflexivity. f_equal. apply IHa. lia. Qed.
Lemma map_snd_combine {A B} (a : list A) (b : list B) : length a = length b -> map snd (combine a b) = b.
Proof. revert b; induction a; destruct b; simpl; intro H; try congruence; try reflexivity. f_equal. apply IHa. lia. Qed.

Lemma cmd_prediction its ce :
  Forall wf_item its ->
  let st := c_sis (hstate its) in
  let cmds := hist_cmds its ce in
  (step st = 0%nat -> pred (hmid its ce) = pred st) /\
  (step st <> 0%nat -> rule_pred_skipped have cmds = true -> pred (hmid its ce) = cor st) /\
  (step st <> 0%nat -> rule_pred_skipped have cmds = false ->
     s_lw (pred (hmid its ce)) = s_lw (cor st) /\
     map fst (s_parts (pred (hmid its ce))) = mapi_from (ce_motion ce (rule_mode have cmds)) 0 (map fst (s_parts (cor st))) /\
     map snd (s_parts (pred (hmid its ce))) = map snd (s_parts (pred st)) /\
     s_lin (pred (hmid its ce)) = s_lin (pred st) /\ s_circ (pred (hmid its ce)) = s_circ (pred st) /\
     (rule_mode have cmds = MFull \/ rule_mode have cmds = MStateOnly \/ rule_mode have cmds = MExoOnly)).
Proof.
  intros Hw st cmds. destruct (hist_flags_rule its ce) as [Hfp _].
  unfold hist_mid, sis_mid. cbn [pred]. fold st. split; [|split].
  - intro H. rewrite H. reflexivity.
  - intros H Hr. apply Nat.eqb_neq in H. rewrite H. unfold C06_Model.predict. cbn [ev_skip_pred event_of].
    rewrite Hfp. fold cmds. rewrite Hr. reflexivity.
  - intros H Hr. pose proof (hist_preinv its Hw) as [[[P1 _] _] Hc]. fold st in P1, Hc.
    destruct (Hc H) as [[C1 _] _].
    apply Nat.eqb_neq in H. rewrite H. unfold C06_Model.predict. cbn [ev_skip_pred ev_pred event_of].
    rewrite Hfp. fold cmds. rewrite Hr. cbn [s_lw s_parts s_lin s_circ].
    rewrite (hist_mode_rule its ce Hr). fold cmds.
    assert (L : length (mapi_from (ce_motion ce (rule_mode have cmds)) 0 (map fst (s_parts (cor st))))
                = length (map snd (s_parts (pred st)))).
    { rewrite mapi_from_length, !map_length. transitivity N; [exact C1 | symmetry; exact P1]. }
    repeat split; auto using map_fst_combine, map_snd_combine.
    unfold rule_mode. destruct have; destruct (last_status state_names false cmds);
      destruct (last_status exo_names false cmds); tauto.
Qed.

(* ---- the resampling trigger at command level ---- *)
Lemma cmd_resample_iff its ce :
  let m := hmid its ce in
  (needs_resampling N (cor m) = true <-> neff ROps (s_lw (cor m)) < INR N / 3) /\
  (needs_resampling N (cor m) = true ->
     cor (hafter its ce) = resampled (cor m) (ce_u1 ce) /\
     (wf_set (cor m) -> s_lw (cor (hafter its ce)) = repeat (- ln (INR N)) N)) /\
  (needs_resampling N (cor m) = false -> cor (hafter its ce) = cor m) /\
  pred (hafter its ce) = pred m /\ step (hafter its ce) = Datatypes.S (step (c_sis (hstate its))).
Proof. exact (resample_iff St Aux N dl dc (c_sis (hstate its)) (event_of (hflags its ce) ce)). Qed.

(* under the invariant the premise wf_set of the uniform-weights clause is discharged *)
Lemma cmd_resampled_uniform its ce :
  Forall wf_item its -> wf_cev ce ->
  needs_resampling N (cor (hmid its ce)) = true -> s_lw (cor (hafter its ce)) = repeat (- ln (INR N)) N.
Proof.
  intros Hw Hc H. destruct (cmd_resample_iff its ce) as (_ & A & _). destruct (A H) as [_ B].
  apply B. apply (hist_good_mid its ce Hw Hc).
Qed.

(* ---- the invariant after every item of every history from a fresh filter ---- *)
Lemma cmd_inv_statement (its : list item) :
  Forall wf_item its ->
  Forall2 (fun it cs' => PreInv (c_sis cs') /\ (is_step it = true -> Inv (c_sis cs'))) its
          (cmd_trace N (hist_start have st0) its).
Proof. intro H. apply cmd_trace_inv; auto. apply init_preinv; auto. Qed.

(* one more step after any history: the invariant holds at its end *)
Lemma cmd_inv_after its ce : Forall wf_item its -> wf_cev ce -> Inv (hafter its ce).
Proof.
  intros Hw Hc. unfold hist_after. rewrite cmd_step_sis.
  apply (step_inv St Aux N dl dc Npos); [apply hist_preinv; exact Hw | exact Hc].
Qed.

(* from the second step of a pass on, a failed acquisition leaves corrected = predicted at the END of the step *)
Lemma cmd_no_measurement_end_of_step its ce :
  Forall wf_item its -> step (c_sis (hstate its)) <> 0%nat -> ce_freeze ce = false ->
  cor (hafter its ce) = pred (hafter its ce).
Proof.
  intros Hw Hs Hf. unfold hist_after. rewrite cmd_step_sis.
  apply (no_measurement_end_of_step St Aux N); [exact Hs | | exact Hf].
  apply (cmd_run_settled its (hist_start have st0)); [apply init_preinv; auto | | exact Hw | exact Hs].
  intro H. exfalso. apply H. exact Hstep0.
Qed.

End Hist.

(* ---- un-matched command pairs: after "all off" nothing is skipped, whatever was commanded before ---- *)
Lemma cmd_all_off_event have (cs : list cmd) (ce : cevent) :
  event_of (final (cs ++ [(NAll, false)]) (init have)) ce = event_of (init have) ce.
Proof. rewrite back_to_init_after_all_off. reflexivity. Qed.

Lemma cmd_fresh_event have (ce : cevent) :
  ev_skip_pred (event_of (init have) ce) = false /\ ev_skip_corr (event_of (init have) ce) = false /\
  ev_pred (event_of (init have) ce) = ce_motion ce (if have then MFull else MStateOnly).
Proof. destruct have; repeat split. Qed.

(* ---- what the driver runs ---- *)
Lemma cmd_trace_full_bridge (its : list item) : forall cs : cstate,
  map snd (cmd_trace_full N cs its) = cmd_trace N cs its.
Proof. induction its as [|it its IH]; intro cs; simpl; [reflexivity|]. f_equal. apply IH. Qed.

Lemma cmd_trace_last (its : list item) : forall cs d : cstate, its <> [] -> last (cmd_trace N cs its) d = cmd_run N cs its.
Proof.
  induction its as [|it its IH]; intros cs d H; [congruence|].
  destruct its as [|it' its']; [reflexivity|].
  change (cmd_trace N cs (it :: it' :: its')) with (item_step N cs it :: cmd_trace N (item_step N cs it) (it' :: its')).
  change (cmd_run N cs (it :: it' :: its')) with (cmd_run N (item_step N cs it) (it' :: its')).
  rewrite <- (IH (item_step N cs it) d) by congruence. reflexivity.
Qed.

(* the k-th report of the full trace is the report of the k-th item on the state reached by the items before it *)
Lemma cmd_trace_full_components (its : list item) : forall (cs : cstate) k r cs',
  nth_error (cmd_trace_full N cs its) k = Some (r, cs') ->
  exists it, nth_error its k = Some it /\
             r = step_report N (cmd_run N cs (firstn k its)) it /\ cs' = item_step N (cmd_run N cs (firstn k its)) it.
Proof.
  induction its as [|it its IH]; intros cs k r cs' H; [destruct k; discriminate|].
  destruct k; simpl in H.
  - inversion H; subst. exists it. repeat split.
  - destruct (IH _ _ _ _ H) as [it' [A [B C]]]. exists it'. repeat split; assumption.
Qed.

End CMD.
