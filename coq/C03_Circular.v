(* C03_Circular.v — what is proved about the non-linear layouts (Euler-circular rows,
   quaternion blocks) at the MathComp instance, with the transcendental functions
   uninterpreted: the first sigma point of every component, for EVERY layout.
   Moment preservation and affine exactness on circular / quaternion rows need the scalar
   facts wrap x = x (mod 2 pi), atan2 polar form (C19) and the quaternion exp/log
   round trip (C18): they are proved over Coq's reals in C03_Euler.v / C03_Spread.v /
   C03_Quat.v (statements in Properties_C03_Real.v). *)
Require Import ZArith List Bool Lia.
Require Import BFL.Ops BFL.C03_Model.
From mathcomp Require Import all_ssreflect all_algebra.
Require Import BFL.MxOps BFL.LinAlg BFL.C03_Proofs.
Set Implicit Arguments.
Unset Strict Implicit.
Unset Printing Implicit Defensive.
Import Order.Theory GRing.Theory Num.Theory.
Local Open Scope ring_scope.

Section FirstSigmaPoint.
Variable F : realFieldType.
Variable tr : Transc F.
Variable sq : forall n, 'M[F]_n -> 'M[F]_n.
Variable eg : forall n, 'M[F]_n -> 'M[F]_(n,1).
Let O := MxMat tr sq eg.

Lemma mx_get0 r c i j : mx_get (0 : 'M[F]_(r,c)) i j = 0.
Proof. by rewrite /mx_get; case: insub => [i'|] //; case: insub => [j'|] //; rewrite mxE. Qed.

(* is storage row i one of the Euler-angle rows of the layout *)
Definition euler_row (L : layout) (i : nat) : bool :=
  ~~ l_quat L && (l_lin L <= i)%N && (i < l_lin L + l_circ L)%N.

(* the first sigma point of a component: the mean itself on linear, quaternion and noise
   rows (exactly), arg(exp(j m_i)) on Euler rows — for every layout, dimension, covariance,
   whatever the square-root oracle returns *)
Lemma first_sigma_point (L : layout) (c : F) (m : 'cV[F]_(l_dim L)) (P : 'M[F]_(l_dcov L)) x :
  List.nth 0 (sigma_comp (O:=O) L (l_dim L) (l_dcov L) c m P) x =
  \matrix_(i, j) (if euler_row L i then C03_Model.wrap (O:=O) (m i 0) else m i j).
Proof.
rewrite /sigma_comp /=; apply/matrixP=> i j; rewrite !mxE !ord1 /add_mean_row /euler_row.
rewrite /colget /= !mx_get0 !add0r !(mx_get_ord m i 0).
have Hi : (i < l_dim L)%coq_nat by apply/ssrnat.ltP.
case: Nat.ltb_spec => H1.
  by rewrite [(l_lin L <= i)%N]leqNgt (introT ssrnat.ltP H1) andbF.
have -> : (l_lin L <= i)%N by apply/ssrnat.leP.
rewrite andbT; case: Nat.ltb_spec => H2.
  case Eq: (l_quat L) => //=.
  rewrite /dir_add /= add0r /C03_Model.wrap /=.
  have -> : (i < l_lin L + l_circ L)%N.
    by apply/ssrnat.ltP; move: H2; rewrite /l_cw Eq -plusE; lia.
  by [].
have -> : (i < l_lin L + l_circ L)%N = false.
  apply/negP => /ssrnat.ltP; move: H2; rewrite /l_cw -plusE; case: (l_quat L); lia.
rewrite andbF.
case: Nat.leb_spec => // H3.
by move: Hi H2 H3; rewrite /l_dim; lia.
Qed.
End FirstSigmaPoint.
