(* C11_Regress.v — regression specifications: the transcriptions of the five
   operations as they were BEFORE the repairs 7c71916 (ParticleSet::operator+=),
   eeaa10f (ParticleSet::resize), a255301 (GaussianMixture::resize), 9b0609f
   (augmentWithNoise applied twice) and 28573a1 (augmentWithNoise on a
   ParticleSet), each with a witness, found by vm_compute over Z, that the
   invariant of C11 fails for it.  Not part of any property theorem: they record
   what a reintroduction of the defect looks like. *)
Require Import ZArith List Bool Arith Lia.
Require Import BFL.Ops BFL.ListOps BFL.C11_Model BFL.C11_Proofs.
Import ListNotations.

Section Old.
Variable S : SOps.
Variable junk : T S.
Local Notation mx := (mx S).
Local Notation gm := (gm S).
Local Notation pset := (pset S).

(* 7c71916^: operator+= never updated `components` *)
Definition ps_concat_old (rhs p : pset) : pset :=
  let r := ps_concat S junk rhs p in
  let g := base S r in
  mkPs S (mkGm S (components S (base S p)) (use_quat S g) (dcc S g) (dim S g) (dl S g) (dc S g) (dn S g) (dcov S g)
                 (mean_ S g) (cov_ S g) (weight_ S g)) (state_ S r).

(* eeaa10f^: `(this->dim_circular = dim_circular)` in the early-return test: an assignment,
   evaluated only when dim_linear matches, true iff the new value is non-zero *)
Definition ps_resize_old (c l ci : nat) (p : pset) : pset :=
  let g0 := base S p in
  let new_dim := l + ci * dcc S g0 in
  let g := if dl S g0 =? l
           then mkGm S (components S g0) (use_quat S g0) (dcc S g0) (dim S g0) (dl S g0) ci (dn S g0) (dcov S g0)
                     (mean_ S g0) (cov_ S g0) (weight_ S g0)
           else g0 in
  if (dl S g0 =? l) && negb (ci =? 0) && (components S g0 =? c) then mkPs S g (state_ S p)
  else
    let st := if (dim S g =? new_dim) && negb (components S g =? c)
              then e_cresize_cols S junk (state_ S p) c
              else e_resize S (state_ S p) new_dim c in
    mkPs S (gm_resize S junk c l ci g) st.

(* a255301^: the conservative branch did not compare dim_covariance, dim_noise was not reset *)
Definition gm_resize_old (c l ci : nat) (g : gm) : gm :=
  let new_dim := l + ci * dcc S g in
  let new_dcov := if use_quat S g then l + ci * (dcc S g - 1) else new_dim in
  if (dl S g =? l) && (dc S g =? ci) && (components S g =? c) then g
  else if (dim S g =? new_dim) && negb (components S g =? c) then
    mkGm S c (use_quat S g) (dcc S g) new_dim l ci (dn S g) new_dcov
         (e_cresize_cols S junk (mean_ S g) c) (e_cresize_cols S junk (cov_ S g) (dcov S g * c))
         (e_cresize_vec S junk (weight_ S g) c)
  else
    mkGm S c (use_quat S g) (dcc S g) new_dim l ci (dn S g) new_dcov
         (e_resize S (mean_ S g) new_dim c) (e_resize S (cov_ S g) new_dcov (new_dcov * c))
         (e_resize S (weight_ S g) c 1).

(* 9b0609f^: dim_noise overwritten, old block size = size without any noise *)
Definition gm_augment_old (q : mx) (g : gm) : bool * gm :=
  if negb (mrows S q =? mcols S q) then (false, g)
  else
    let dn' := mrows S q in
    let dim' := dim S g + dn' in
    let dcov' := dcov S g + dn' in
    let m1 := e_cresize_rows S (mean_ S g) dim' in
    let m2 := e_set_block S m1 (mrows S m1 - dn') 0 (e_zero S dn' (components S g)) in
    let c1 := e_cresize_like S (cov_ S g) (e_zero S dcov' (dcov' * components S g)) in
    let dim_old := if use_quat S g then dl S g + dc S g * (dcc S g - 1) else dl S g + dc S g in
    let c2 := relocate S (components S g) dim_old dcov' c1 in
    let c3 := place_noise S (components S g) dim_old dn' dcov' q c2 in
    (true, mkGm S (components S g) (use_quat S g) (dcc S g) dim' (dl S g) (dc S g) dn' dcov' m2 c3 (weight_ S g)).

(* seeded C11-r5 (not a repair of /repo: a recorded breaking change): a hand-written move assignment
   that takes every descriptor and the storage of the source but forgets dim_noise *)
Definition gm_move_assign_without_dn (tgt src : gm) : gm :=
  mkGm S (components S src) (use_quat S src) (dcc S src) (dim S src) (dl S src) (dc S src) (dn S tgt) (dcov S src)
       (mean_ S src) (cov_ S src) (weight_ S src).

(* 28573a1^: augmentWithNoise was not virtual; a ParticleSet kept its state_ *)
Definition ps_augment_old (q : mx) (p : pset) : bool * pset :=
  let r := gm_augment S q (base S p) in (fst r, mkPs S (snd r) (state_ S p)).
End Old.

Local Notation Z0j := (0%Z : T ZOps).
Definition q11 : C11_Model.mx ZOps := mk ZOps 1 1 (fun _ _ => 9%Z).
Definition q22 : C11_Model.mx ZOps := mk ZOps 2 2 (fun i j => (20 + Z.of_nat (2 * j + i))%Z).

Ltac refute_gm := let H := fresh "H" in intro H; apply gm_consistentb_iff in H; vm_compute in H; discriminate H.
Ltac refute_ps := let H := fresh "H" in intro H; apply ps_consistentb_iff in H; vm_compute in H; discriminate H.

(* a(3;2) += b(2;2): 3 components reported, 5 stored *)
Lemma ps_concat_old_refuted :
  exists a b : C11_Model.pset ZOps,
    Consistent_ps ZOps a /\ concat_ok ZOps b a /\ ~ Consistent_ps ZOps (ps_concat_old ZOps Z0j b a).
Proof.
  exists (ps_ctor ZOps 3 2 0 false), (ps_ctor ZOps 2 2 0 false).
  split; [apply ps_ctor_consistent|]. split; [split; [apply ps_ctor_consistent|split; reflexivity]|]. refute_ps.
Qed.

(* (3;2,1) -> resize(3;2,0): dim = 3 with a 2-row state *)
Lemma ps_resize_old_refuted :
  exists (p : C11_Model.pset ZOps) c l ci,
    Consistent_ps ZOps p /\ ~ Consistent_ps ZOps (ps_resize_old ZOps Z0j c l ci p).
Proof.
  exists (ps_ctor ZOps 3 2 1 false), 3, 2, 0. split; [apply ps_ctor_consistent|]. refute_ps.
Qed.

(* dim_noise survives a resize *)
Lemma gm_resize_old_noise_refuted :
  exists (g : C11_Model.gm ZOps) c l ci,
    Consistent ZOps g /\ ~ Consistent ZOps (gm_resize_old ZOps Z0j c l ci g).
Proof.
  exists (snd (gm_augment ZOps q11 (gm_ctor ZOps 2 2 0 false))), 3, 2, 0.
  split; [apply gm_augment_consistent; apply gm_ctor_consistent|]. refute_gm.
Qed.

(* (2;4,0,quat) -> (3;0,1): same dim, other covariance size, conservative branch *)
Lemma gm_resize_old_quat_refuted :
  exists (g : C11_Model.gm ZOps) c l ci,
    Consistent ZOps g /\ ~ Consistent ZOps (gm_resize_old ZOps Z0j c l ci g).
Proof.
  exists (gm_ctor ZOps 2 4 0 true), 3, 0, 1. split; [apply gm_ctor_consistent|]. refute_gm.
Qed.

(* second augmentation: descriptors wrong, and the covariance of component 1 scrambled *)
Lemma gm_augment_old_twice_refuted :
  exists (g : C11_Model.gm ZOps) q1 q2,
    Consistent ZOps g /\ 1 <= components ZOps g /\ mrows ZOps q1 = mcols ZOps q1 /\ mrows ZOps q2 = mcols ZOps q2
    /\ let g1 := snd (gm_augment_old ZOps q1 g) in
       let g2 := snd (gm_augment_old ZOps q2 g1) in
       Consistent ZOps g1 /\ ~ Consistent ZOps g2
       /\ gm_cov ZOps g2 1 <> blockdiag ZOps (blockdiag ZOps (gm_cov ZOps g 1) q1) q2.
Proof.
  exists (gm_fill ZOps 1%Z (gm_ctor ZOps 2 2 0 false)), q11, q22.
  split; [apply gm_fill_consistent; apply gm_ctor_consistent|]. split; [vm_compute; lia|].
  split; [reflexivity|]. split; [reflexivity|]. cbv zeta.
  split; [apply gm_consistentb_iff; vm_compute; reflexivity|]. split; [refute_gm|].
  vm_compute. intro H. discriminate H.
Qed.

(* PS(2;2) + Q(1x1): dim = 3 with a 2-row state; a later resize(3;3) keeps it short *)
Lemma ps_augment_old_refuted :
  exists (p : C11_Model.pset ZOps) q,
    Consistent_ps ZOps p /\ mrows ZOps q = mcols ZOps q
    /\ ~ Consistent_ps ZOps (snd (ps_augment_old ZOps q p))
    /\ ~ Consistent_ps ZOps (ps_resize ZOps Z0j 3 3 0 (snd (ps_augment_old ZOps q p))).
Proof.
  exists (ps_ctor ZOps 2 2 0 false), q11. split; [apply ps_ctor_consistent|]. split; [reflexivity|].
  split; refute_ps.
Qed.

(* g augmented, then g = GaussianMixture(3, 2, 1, true): the target keeps its own dim_noise = 1 with the
   un-augmented storage of the temporary; and h = augmented(belief): dim_noise = 0 with augmented storage *)
Lemma gm_move_assign_without_dn_refuted :
  exists tgt src : C11_Model.gm ZOps,
    Consistent ZOps tgt /\ Consistent ZOps src
    /\ ~ Consistent ZOps (gm_move_assign_without_dn ZOps tgt src)
    /\ ~ Consistent ZOps (gm_move_assign_without_dn ZOps src tgt).
Proof.
  exists (snd (gm_augment ZOps q11 (gm_ctor ZOps 2 1 1 false))), (gm_ctor ZOps 3 2 1 true).
  split; [apply gm_augment_consistent; apply gm_ctor_consistent|]. split; [apply gm_ctor_consistent|].
  split; refute_gm.
Qed.
