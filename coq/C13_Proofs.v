(* C13_Proofs.v — lemmas about the skip state machine (plain Coq, no axioms). *)
Require Import List Bool.
Require Import BFL.C13_Model.
Import ListNotations.
Local Open Scope bool_scope.

(* the value of the exogenous flag as the prediction's rule reads it:
   an absent exogenous model counts as "skipped" *)
Definition exo_or_true (f : flags) : bool := match f_exo f with Some e => e | None => true end.

(* ---- closed form of one command (all four layers unfolded) ---- *)
Definition after (w : name) (b : bool) (f : flags) : res * flags :=
  match w with
  | NPrediction => (Ok true, mkFlags b (f_inner f) b (option_map (fun _ => b) (f_exo f)) (f_corr f))
  | NState => (Ok true, mkFlags (b && exo_or_true f) (f_inner f) b (f_exo f) (f_corr f))
  | NExogenous =>
      match f_exo f with
      | None => (Ok false, f)
      | Some _ => (Ok true, mkFlags (f_state f && b) (f_inner f) (f_state f) (Some b) (f_corr f))
      end
  | NCorrection => (Ok true, mkFlags (f_pred f) (f_inner f) (f_state f) (f_exo f) b)
  | NAll => (Ok true, mkFlags b (f_inner f) b (option_map (fun _ => b) (f_exo f)) b)
  | NOther => (Ok false, f)
  end.

Lemma filter_skip_after w b f : filter_skip w b f = after w b f.
Proof.
destruct f as [p i s [e|] c]; destruct w; destruct b; try reflexivity;
  cbv; destruct s; reflexivity.
Qed.

(* ---- return values, exceptions ---- *)
Definition known (w : name) : bool :=
  match w with NPrediction | NState | NCorrection | NAll => true | _ => false end.

Lemma known_true_nothrow w b f : known w = true -> fst (filter_skip w b f) = Ok true.
Proof. rewrite filter_skip_after; destruct w; simpl; try discriminate; reflexivity. Qed.

Lemma exogenous_with_model w b f e : w = NExogenous -> f_exo f = Some e ->
  fst (filter_skip w b f) = Ok true.
Proof. intros -> H; rewrite filter_skip_after; simpl; rewrite H; reflexivity. Qed.

Lemma exogenous_without_model b f : f_exo f = None ->
  filter_skip NExogenous b f = (Ok false, f).
Proof. intros H; rewrite filter_skip_after; simpl; rewrite H; reflexivity. Qed.

(* presence of an exogenous model is preserved by every command word *)
Lemma run_keeps_exo cs : forall f, have_exo f = true -> exists e, f_exo (snd (run cs f)) = Some e.
Proof.
induction cs as [|[w s] cs IH]; intros f Hf; simpl.
- unfold have_exo in Hf; destruct (f_exo f) as [e|]; [exists e; reflexivity|discriminate].
- apply IH; rewrite filter_skip_after; unfold have_exo in *;
    destruct f as [p i st [e|] c]; try discriminate; destruct w; reflexivity.
Qed.

(* 'exogenous' answers true at any point of any command word, whichever way the exogenous model was supplied *)
Lemma exogenous_supplied_true (a : assembly) b cs : exo_supplied a = true ->
  fst (filter_skip NExogenous b (snd (run cs (init_of a)))) = Ok true.
Proof.
intros Ha; rewrite filter_skip_after; simpl.
assert (Hh : have_exo (init_of a) = true) by (destruct a as [[|]|]; [reflexivity|discriminate Ha|reflexivity]).
destruct (run_keeps_exo cs (init_of a) Hh) as [e ->]; reflexivity.
Qed.

Lemma exogenous_supplied_via_state_model b cs :
  fst (filter_skip NExogenous b (snd (run cs (init_of (ViaStateModel true))))) = Ok true.
Proof. exact (exogenous_supplied_true (ViaStateModel true) b cs eq_refl). Qed.

Lemma unknown_false_unchanged b f : filter_skip NOther b f = (Ok false, f).
Proof. reflexivity. Qed.

Lemma one_never_throws w b f : fst (filter_skip w b f) <> Throws.
Proof.
rewrite filter_skip_after; destruct w; simpl; try discriminate.
destruct (f_exo f); discriminate.
Qed.

Lemma run_never_throws cs : forall f, ~ In Throws (fst (run cs f)).
Proof.
induction cs as [|c cs IH]; intros f; simpl; [tauto|].
intros [H|H]; [exact (one_never_throws _ _ _ H)|exact (IH _ H)].
Qed.

Lemma run_length cs : forall f, length (fst (run cs f)) = length cs.
Proof. induction cs as [|c cs IH]; intros f; simpl; [reflexivity|rewrite IH; reflexivity]. Qed.

(* every result of a word of known names is "true" *)
Lemma run_known_all_true cs : forall f,
  forallb (fun c => known (fst c)) cs = true -> Forall (fun r => r = Ok true) (fst (run cs f)).
Proof.
induction cs as [|c cs IH]; intros f H; simpl; [constructor|].
simpl in H; apply andb_true_iff in H; destruct H as [H1 H2].
constructor; [apply known_true_nothrow; exact H1|apply IH; exact H2].
Qed.

(* ---- the theorem above rests on the three guards: remove any one of them and some command throws ---- *)
Lemma each_guard_is_needed :
  fst (filter_skip_g (mkGuards false true true) NPrediction true (init false)) = Throws /\
  fst (filter_skip_g (mkGuards true false true) NState true (init false)) = Throws /\
  fst (filter_skip_g (mkGuards true true false) NExogenous true (init false)) = Throws.
Proof. repeat split. Qed.

(* with an exogenous model attached the guards are never exercised *)
Lemma guards_irrelevant_with_model G w b f e : f_exo f = Some e ->
  filter_skip_g G w b f = filter_skip w b f.
Proof.
destruct f as [p i s x c]; simpl; intros ->; destruct G as [[|] [|] [|]]; destruct w; reflexivity.
Qed.

(* ---- the flags after a word ---- *)
Definition inv (f : flags) : Prop := f_pred f = f_state f && exo_or_true f.

Lemma inv_init have : inv (init have).
Proof. destruct have; reflexivity. Qed.

Lemma inv_step w b f : inv f -> inv (snd (filter_skip w b f)).
Proof.
unfold inv; rewrite filter_skip_after.
destruct f as [p i s [e|] c]; destruct w; simpl; unfold exo_or_true; simpl; intros H; try exact H;
  destruct b; destruct s; try destruct e; try reflexivity; try exact H.
Qed.

Lemma final_cons c cs f : final (c :: cs) f = final cs (snd (filter_skip (fst c) (snd c) f)).
Proof. reflexivity. Qed.

Lemma final_app a : forall b f, final (a ++ b) f = final b (final a f).
Proof.
induction a as [|c a IH]; intros b f; [reflexivity|].
simpl app; rewrite !final_cons; apply IH.
Qed.

Lemma final_one w b f : final [(w, b)] f = snd (after w b f).
Proof. rewrite <- filter_skip_after; reflexivity. Qed.

Lemma final_two w1 b1 w2 b2 f :
  final [(w1, b1); (w2, b2)] f = snd (after w2 b2 (snd (after w1 b1 f))).
Proof. rewrite <- !filter_skip_after; reflexivity. Qed.

Lemma last_status_cons names d c cs :
  last_status names d (c :: cs) = last_status names (if mem_name (fst c) names then snd c else d) cs.
Proof. reflexivity. Qed.

Definition exo_after (f0 : flags) (cs : list cmd) : option bool :=
  match f_exo f0 with
  | Some e => Some (last_status exo_names e cs)
  | None => None
  end.

Lemma step_fields w b f :
  let f1 := snd (filter_skip w b f) in
  f_state f1 = (if mem_name w state_names then b else f_state f) /\
  f_exo f1 = match f_exo f with
             | Some e => Some (if mem_name w exo_names then b else e)
             | None => None
             end /\
  f_corr f1 = (if mem_name w corr_names then b else f_corr f) /\
  f_inner f1 = f_inner f.
Proof.
cbv zeta; rewrite filter_skip_after.
destruct f as [p i s [e|] c]; destruct w; simpl; repeat split; reflexivity.
Qed.

Lemma run_flags cs : forall f, inv f ->
  let f' := final cs f in
  f_state f' = last_status state_names (f_state f) cs /\
  f_exo f' = exo_after f cs /\
  f_corr f' = last_status corr_names (f_corr f) cs /\
  f_inner f' = f_inner f /\
  inv f'.
Proof.
induction cs as [|[w b] cs IH]; intros f Hi.
- simpl; unfold final, exo_after; simpl; destruct (f_exo f); repeat split; exact Hi.
- change (final ((w, b) :: cs) f) with (final cs (snd (filter_skip w b f))).
  destruct (IH _ (inv_step w b f Hi)) as (Hs & He & Hc & Hn & Hv).
  destruct (step_fields w b f) as (Ss & Se & Sc & Sn).
  cbv zeta; rewrite Hs, He, Hc, Hn, Ss, Sc, Sn; rewrite !last_status_cons; unfold exo_after.
  rewrite Se; simpl fst; simpl snd.
  destruct (f_exo f); repeat split; exact Hv.
Qed.

(* the derived rule, from a freshly constructed filter *)
Lemma flags_match_commands have cs :
  let f := final cs (init have) in
  f_state f = last_status state_names false cs /\
  f_exo f = (if have then Some (last_status exo_names false cs) else None) /\
  f_corr f = last_status corr_names false cs /\
  f_pred f = f_state f && exo_or_true f /\
  f_inner f = false.
Proof.
destruct (run_flags cs (init have) (inv_init have)) as (Hs & He & Hc & Hn & Hv).
cbv zeta; repeat split; try assumption.
rewrite He; destruct have; reflexivity.
Qed.

(* what is_skipping() of the prediction step reports, in terms of the commands alone *)
Lemma pred_reported have cs :
  f_pred (final cs (init have)) =
  last_status state_names false cs && (if have then last_status exo_names false cs else true).
Proof.
destruct (flags_match_commands have cs) as (Hs & He & _ & Hp & _).
rewrite Hp, Hs; unfold exo_or_true; rewrite He; destruct have; reflexivity.
Qed.

(* presence of the exogenous model never changes *)
Lemma have_exo_final have cs : have_exo (final cs (init have)) = have.
Proof.
destruct (flags_match_commands have cs) as (_ & He & _).
unfold have_exo; rewrite He; destruct have; reflexivity.
Qed.

(* ---- skipped step = identity ---- *)
Section Steps.
Variable B : Type.
Variable pstep : kind -> prop_mode -> B -> B -> B.
Variable cstep : kind -> B -> B -> B.
Variable same_shape : B -> B -> bool.
Variable gpf_sliced : B -> B -> B.

Lemma predict_skipped k f prev old : f_pred f = true -> predict B pstep same_shape gpf_sliced k f prev old = prev.
Proof. unfold predict; intros ->; reflexivity. Qed.

Lemma correct_skipped k f pred old : f_corr f = true -> correct B cstep k f pred old = pred.
Proof. unfold correct; intros ->; reflexivity. Qed.

(* Gaussian steps test the state model's flag themselves: on genuine Gaussian mixtures the
   assignment is a whole-object one, for any shape of the output object *)
Lemma predict_state_skipped_gaussian k f prev old : k = KF \/ k = UKF -> f_state f = true ->
  predict B pstep same_shape gpf_sliced k f prev old = prev.
Proof.
unfold predict, predict_step; intros Hk ->; destruct (f_pred f); simpl; [reflexivity|].
destruct Hk as [-> | ->]; reflexivity.
Qed.

(* inside a Gaussian-particle prediction the assignment is sliced: identity only on an output
   object of the input's shape *)
Lemma predict_state_skipped_gpf f prev old : f_state f = true -> same_shape prev old = true ->
  predict B pstep same_shape gpf_sliced GPF f prev old = prev.
Proof.
unfold predict, predict_step, gpf_inner_identity; intros -> ->.
destruct (f_pred f); simpl; [reflexivity|]; destruct (f_inner f); reflexivity.
Qed.

(* ... and what the code leaves otherwise (f_pred off, state model skipped, other shape) *)
Lemma predict_state_skipped_gpf_other_shape f prev old :
  f_pred f = false -> f_state f = true -> same_shape prev old = false ->
  predict B pstep same_shape gpf_sliced GPF f prev old = gpf_sliced prev old.
Proof.
unfold predict, predict_step, gpf_inner_identity; intros -> -> ->; simpl.
destruct (f_inner f); reflexivity.
Qed.

(* after "prediction on" or "all on" the prediction is the identity, whatever came before;
   likewise the correction after "correction on" or "all on" *)
Lemma predict_identity_after_on have cs w k prev old : w = NPrediction \/ w = NAll ->
  predict B pstep same_shape gpf_sliced k (final (cs ++ [(w, true)]) (init have)) prev old = prev.
Proof.
intros Hw; apply predict_skipped; rewrite final_app, final_one.
destruct Hw as [-> | ->]; reflexivity.
Qed.

Lemma correct_identity_after_on have cs w k pred old : w = NCorrection \/ w = NAll ->
  correct B cstep k (final (cs ++ [(w, true)]) (init have)) pred old = pred.
Proof.
intros Hw; apply correct_skipped; rewrite final_app, final_one.
destruct Hw as [-> | ->]; reflexivity.
Qed.

(* and, by the derived rule, whenever the commands say so *)
Lemma predict_identity_by_rule (have : bool) cs k prev old :
  last_status state_names false cs && (if have then last_status exo_names false cs else true) = true ->
  predict B pstep same_shape gpf_sliced k (final cs (init have)) prev old = prev.
Proof. intros H; apply predict_skipped; rewrite pred_reported; exact H. Qed.

Lemma correct_identity_by_rule have cs k pred old :
  last_status corr_names false cs = true ->
  correct B cstep k (final cs (init have)) pred old = pred.
Proof.
intros H; apply correct_skipped.
destruct (flags_match_commands have cs) as (_ & _ & Hc & _); rewrite Hc; exact H.
Qed.

(* ---- reversibility ---- *)
Definition all_off (f : flags) : Prop :=
  f_pred f = false /\ f_state f = false /\ exo_or_true f = negb (have_exo f) /\ f_corr f = false.
(* exo_or_true f = negb (have_exo f): the exogenous flag is off when there is such a model *)

Lemma all_off_is_init have cs : all_off (final cs (init have)) -> final cs (init have) = init have.
Proof.
destruct (flags_match_commands have cs) as (_ & He & _ & _ & Hn).
intros (Hp & Hs & Hx & Hc); revert He Hn Hp Hs Hx Hc.
destruct (final cs (init have)) as [p i s e c]; simpl; unfold exo_or_true, have_exo; simpl.
intros -> -> -> -> Hx ->; destruct have; simpl in *; [rewrite Hx|]; reflexivity.
Qed.

Lemma back_to_init_after_all_off have cs : final (cs ++ [(NAll, false)]) (init have) = init have.
Proof.
rewrite final_app, final_one; simpl.
destruct (flags_match_commands have cs) as (_ & He & _ & _ & Hn).
rewrite He, Hn; destruct have; reflexivity.
Qed.

Lemma back_to_init_after_both_off have cs :
  final (cs ++ [(NPrediction, false); (NCorrection, false)]) (init have) = init have.
Proof.
rewrite final_app, final_two; simpl.
destruct (flags_match_commands have cs) as (_ & He & _ & _ & Hn).
rewrite He, Hn; destruct have; reflexivity.
Qed.

(* the never-skipped filter runs the full step *)
Lemma never_skipped_predict have k prev old :
  predict B pstep same_shape gpf_sliced k (init have) prev old = pstep k (if have then MFull else MStateOnly) prev old.
Proof. destruct have; destruct k; reflexivity. Qed.

Lemma never_skipped_correct have k pred old :
  correct B cstep k (init have) pred old = cstep k pred old.
Proof. reflexivity. Qed.

(* extensional equality of the step functions with those of a never-skipped filter *)
Lemma reversible have cs k : all_off (final cs (init have)) ->
  (forall prev old, predict B pstep same_shape gpf_sliced k (final cs (init have)) prev old = predict B pstep same_shape gpf_sliced k (init have) prev old) /\
  (forall pred old, correct B cstep k (final cs (init have)) pred old = correct B cstep k (init have) pred old).
Proof. intros H; rewrite (all_off_is_init have cs H); split; reflexivity. Qed.

Lemma reversible_all_off have cs k :
  (forall prev old, predict B pstep same_shape gpf_sliced k (final (cs ++ [(NAll, false)]) (init have)) prev old =
                    pstep k (if have then MFull else MStateOnly) prev old) /\
  (forall pred old, correct B cstep k (final (cs ++ [(NAll, false)]) (init have)) pred old = cstep k pred old).
Proof.
rewrite back_to_init_after_all_off; split; intros; [apply never_skipped_predict|reflexivity].
Qed.

(* ---- which computations a filter driven by skip commands can ever perform ---- *)
Lemma reachable_prop_mode have cs :
  let f := final cs (init have) in
  f_pred f = false ->
  prop_mode_of f = MFull \/ prop_mode_of f = MStateOnly \/ (prop_mode_of f = MExoOnly /\ f_state f = true).
Proof.
destruct (flags_match_commands have cs) as (_ & _ & _ & Hp & _).
cbv zeta; revert Hp; destruct (final cs (init have)) as [p i s [e|] c];
  unfold exo_or_true, prop_mode_of, have_exo, exo_model; simpl; intros -> H;
  destruct s; try destruct e; simpl in *; try discriminate; tauto.
Qed.

Lemma reachable_predict have cs k prev old :
  let f := final cs (init have) in
  predict B pstep same_shape gpf_sliced k f prev old = prev \/
  predict B pstep same_shape gpf_sliced k f prev old = pstep k MFull prev old \/
  predict B pstep same_shape gpf_sliced k f prev old = pstep k MStateOnly prev old \/
  (k = Boot /\ predict B pstep same_shape gpf_sliced k f prev old = pstep k MExoOnly prev old) \/
  (k = GPF /\ same_shape prev old = false /\ predict B pstep same_shape gpf_sliced k f prev old = gpf_sliced prev old).
Proof.
cbv zeta.
destruct (flags_match_commands have cs) as (_ & _ & _ & _ & Hn).
pose proof (reachable_prop_mode have cs) as Hm; cbv zeta in Hm.
unfold predict, predict_step, gpf_inner_identity; rewrite Hn.
destruct (f_pred (final cs (init have))); simpl; [left; reflexivity|].
destruct (same_shape prev old) eqn:Hsh;
destruct (Hm eq_refl) as [-> | [-> | [-> Hs]]]; rewrite ?Hs;
  destruct k; simpl; destruct (f_state (final cs (init have))); tauto.
Qed.

(* ---- per-step reversibility: each step depends on its own flags only ---- *)
Lemma predict_ext k f g prev old :
  f_pred f = f_pred g -> f_inner f = f_inner g -> f_state f = f_state g -> f_exo f = f_exo g ->
  predict B pstep same_shape gpf_sliced k f prev old = predict B pstep same_shape gpf_sliced k g prev old.
Proof.
destruct f as [p i s e c], g as [p' i' s' e' c']; simpl; intros -> -> -> ->; reflexivity.
Qed.

(* the prediction part switched off again (state off, exogenous off if there is such a model):
   predict is the never-skipped predict, WHATEVER the correction's flag is *)
Lemma predict_restored have cs k :
  last_status state_names false cs = false ->
  (have = true -> last_status exo_names false cs = false) ->
  forall prev old,
    predict B pstep same_shape gpf_sliced k (final cs (init have)) prev old =
    predict B pstep same_shape gpf_sliced k (init have) prev old.
Proof.
intros Hs He prev old.
destruct (flags_match_commands have cs) as (Fs & Fe & _ & Fp & Fn).
apply predict_ext.
- rewrite Fp, Fs, Hs; reflexivity.
- rewrite Fn; destruct have; reflexivity.
- rewrite Fs, Hs; destruct have; reflexivity.
- rewrite Fe; destruct have; [rewrite (He eq_refl)|]; reflexivity.
Qed.

(* dual: the correction switched off again: correct is the never-skipped correct, whatever
   the prediction, state and exogenous flags are *)
Lemma correct_restored have cs k :
  last_status corr_names false cs = false ->
  forall pred old,
    correct B cstep k (final cs (init have)) pred old = correct B cstep k (init have) pred old.
Proof.
intros Hc pred old.
destruct (flags_match_commands have cs) as (_ & _ & Fc & _).
unfold correct; rewrite Fc, Hc; destruct have; reflexivity.
Qed.
End Steps.

(* ---- the measurement path ---- *)
Lemma final_m_cons o ops st : final_m (o :: ops) st = final_m ops (next o st).
Proof. reflexivity. Qed.

(* the flags after a word of operations are those after its skip commands alone *)
Lemma final_m_flags ops : forall st, ms_flags (final_m ops st) = final (skips_of ops) (ms_flags st).
Proof.
induction ops as [|o ops IH]; intros st; [reflexivity|].
rewrite final_m_cons, IH; destruct o; reflexivity.
Qed.

(* the cursor of the measurement source counts the freeze calls, whatever the skip commands were *)
Lemma final_m_cursor ops : forall st, ms_cursor (final_m ops st) = ms_cursor st + freezes_of ops.
Proof.
induction ops as [|o ops IH]; intros st; [simpl; rewrite <- plus_n_O; reflexivity|].
rewrite final_m_cons, IH; destruct o; unfold freezes_of; simpl; try reflexivity.
rewrite <- plus_n_Sm; reflexivity.
Qed.

Lemma skips_of_calls ops : skips_of (calls_of ops) = [].
Proof. induction ops as [|o ops IH]; [reflexivity|]; destruct o; simpl; exact IH. Qed.

Lemma freezes_of_calls ops : freezes_of (calls_of ops) = freezes_of ops.
Proof.
unfold freezes_of; induction ops as [|o ops IH]; [reflexivity|]; destruct o; simpl; rewrite ?IH; reflexivity.
Qed.

(* a freeze issued while the correction is skipped still advances the source *)
Lemma freeze_not_gated st : ms_cursor (next OpFreeze st) = S (ms_cursor st) /\ ms_flags (next OpFreeze st) = ms_flags st.
Proof. split; reflexivity. Qed.

(* the never-skipped twin (same calls, no skip commands) has the same cursor at the end of every word *)
Lemma twin_same_cursor ops st : ms_cursor (final_m ops st) = ms_cursor (final_m (calls_of ops) st).
Proof. rewrite !final_m_cursor, freezes_of_calls; reflexivity. Qed.

Lemma twin_flags ops st : ms_flags (final_m (calls_of ops) st) = ms_flags st.
Proof. rewrite final_m_flags, skips_of_calls; reflexivity. Qed.

(* reversibility with the measurement state: once everything is switched off again the WHOLE machine state
   (flags and measurement cursor) is that of the twin *)
Lemma reversible_m have ops : all_off (final (skips_of ops) (init have)) ->
  final_m ops (m_init have) = final_m (calls_of ops) (m_init have).
Proof.
intros H.
pose proof (final_m_flags ops (m_init have)) as Hf; simpl in Hf; rewrite (all_off_is_init have _ H) in Hf.
pose proof (twin_flags ops (m_init have)) as Ht; simpl in Ht.
pose proof (twin_same_cursor ops (m_init have)) as Hc.
destruct (final_m ops (m_init have)) as [f c], (final_m (calls_of ops) (m_init have)) as [f' c']; simpl in *.
rewrite Hf, Ht, Hc; reflexivity.
Qed.

Section Measured.
Variable B : Type.
Variable cstepm : kind -> nat -> B -> B -> B.

(* the correction switched off again: correct() uses the measurement of the LAST freeze call, including
   the calls issued while it was skipped -- exactly what the never-skipped twin computes *)
Lemma correct_m_restored have ops k :
  last_status corr_names false (skips_of ops) = false ->
  forall pred old,
    correct_m B cstepm k (final_m ops (m_init have)) pred old = cstepm k (freezes_of ops) pred old /\
    correct_m B cstepm k (final_m ops (m_init have)) pred old =
    correct_m B cstepm k (final_m (calls_of ops) (m_init have)) pred old.
Proof.
intros Hc pred old.
assert (E1 : correct_m B cstepm k (final_m ops (m_init have)) pred old = cstepm k (freezes_of ops) pred old).
{ unfold correct_m, correct; rewrite final_m_flags, final_m_cursor; simpl.
  destruct (flags_match_commands have (skips_of ops)) as (_ & _ & Fc & _); rewrite Fc, Hc; reflexivity. }
split; [exact E1|rewrite E1].
unfold correct_m, correct; rewrite twin_flags, final_m_cursor, freezes_of_calls; simpl.
destruct have; reflexivity.
Qed.

(* while skipped: the input, whatever has been frozen *)
Lemma correct_m_skipped k st pred old : f_corr (ms_flags st) = true -> correct_m B cstepm k st pred old = pred.
Proof. unfold correct_m, correct; intros ->; reflexivity. Qed.
End Measured.

(* ---- the observable run used by the correspondence check is the same machine ---- *)
Lemma run_ops_length k ops : forall st, length (run_ops k ops st) = length ops.
Proof. induction ops as [|o ops IH]; intros st; simpl; [reflexivity|rewrite IH; reflexivity]. Qed.
