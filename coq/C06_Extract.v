(* C06_Extract.v — executable entry point of the C06 model: the trace of SIS
   states after every step of a history.  A particle's state is a list of
   scalars; the events (flags, likelihood, prediction closure, offset) are built
   by the OCaml driver.  ExtrOcamlBasic only. *)
Require Import ZArith List.
Require Import BFL.Ops BFL.C07_Model BFL.C06_Model BFL.C13_Model BFL.C06_Cmd.
Require Import Extraction ExtrOcamlBasic.
Import ListNotations.

Definition c06_trace (S : SOps) (Nf : nat) (st : @sis_state S (list (T S)) nat) (evs : list (@event S (list (T S))))
  : list (@sis_state S (list (T S)) nat) := sis_trace Nf st evs.

Definition c06_trace_full (S : SOps) (Nf : nat) (st : @sis_state S (list (T S)) nat) (evs : list (@event S (list (T S))))
  : list (@sset S (list (T S)) nat * bool * @sis_state S (list (T S)) nat) := sis_trace_full Nf st evs.

(* the command-level entry point the driver runs: raw skip commands, steps and resets (C06_Cmd.v); the flags every step
   runs under are computed here, by the dispatch of C13_Model, from the commands *)
Definition c06_cmd_trace_full (S : SOps) (Nf : nat) (cs : @cstate S (list (T S)) nat) (its : list (@item S (list (T S)) nat))
  : list (option (list res * @sset S (list (T S)) nat * bool) * @cstate S (list (T S)) nat) := cmd_trace_full Nf cs its.
(* the flags of a freshly constructed filter, with or without exogenous model *)
Definition c06_init_flags (have : bool) : flags := init have.

(* the quantities the resampling decision is taken on, per state *)
Definition c06_neff (S : SOps) (lw : list (T S)) : T S := neff S lw.
Definition c06_lse (S : SOps) (lw : list (T S)) : T S := lse S lw.
(* parents, cumulative weights and comb of a resampling call (near-boundary rule of the comparison) *)
Definition c06_parents (S : SOps) (lw : list (T S)) (u1 : T S) : list nat := res_parents S lw u1.
Definition c06_csw (S : SOps) (lw : list (T S)) : list (T S) := csw S lw.
Definition c06_comb (S : SOps) (N : nat) (u1 : T S) : list (T S) := map (comb S N u1) (seq 0 N).

Extraction "C06_model.ml" c06_trace c06_trace_full c06_cmd_trace_full c06_init_flags c06_neff c06_lse c06_parents c06_csw c06_comb.
