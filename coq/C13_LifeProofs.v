(* C13_LifeProofs.v — moves of the step objects change nothing the skip property speaks about. *)
Require Import List Bool.
Require Import BFL.C13_Model BFL.C13_Proofs BFL.C13_Life.
Import ListNotations.
Local Open Scope bool_scope.

Lemma move_flags_id f : move_flags f = f.
Proof. destruct f; reflexivity. Qed.

Lemma move_state_id st : move_state st = st.
Proof. destruct st as [f n]; unfold move_state, move_state_g; simpl; fold (move_flags f); rewrite move_flags_id; reflexivity. Qed.

Lemma lnext_move st : lnext LMove st = st.
Proof. exact (move_state_id st). Qed.

Lemma lfinal_cons o ops st : lfinal (o :: ops) st = lfinal ops (lnext o st).
Proof. reflexivity. Qed.

(* the machine state after a word with moves is the state after the word without them *)
Lemma lfinal_erase ops : forall st, lfinal ops st = final_m (erase ops) st.
Proof.
induction ops as [|o r IH]; intros st; [reflexivity|].
rewrite lfinal_cons; destruct o as [o|].
- simpl erase; rewrite final_m_cons; apply IH.
- rewrite lnext_move; simpl erase; apply IH.
Qed.

(* every observation at a position that is not a move (answers and reported flags of the skip commands,
   outcomes of predict / correct, freezes) is the observation of the word without the moves *)
Lemma kept_run_lops k ops : forall st, kept (run_lops k ops st) = run_ops k (erase ops) st.
Proof.
induction ops as [|o r IH]; intros st; [reflexivity|].
destruct o as [o|].
- change (kept (run_lops k (LOp o :: r) st)) with (observe k o st :: kept (run_lops k r (next o st))).
  rewrite IH; reflexivity.
- change (kept (run_lops k (LMove :: r) st)) with (kept (run_lops k r (lnext LMove st))).
  rewrite lnext_move; simpl erase; apply IH.
Qed.

Lemma run_lops_app k a : forall b st, run_lops k (a ++ b) st = run_lops k a st ++ run_lops k b (lfinal a st).
Proof.
induction a as [|o r IH]; intros b st; [reflexivity|].
change (run_lops k ((o :: r) ++ b) st) with (lobserve k o st :: run_lops k (r ++ b) (lnext o st)).
rewrite IH; reflexivity.
Qed.

(* what the objects obtained by a move report: the flags the step objects had, i.e. those of the commands so far *)
Lemma run_lops_move k a b st :
  run_lops k (a ++ LMove :: b) st =
  run_lops k a st ++ LMoved (ms_flags (final_m (erase a) st)) :: run_lops k b (final_m (erase a) st).
Proof.
rewrite run_lops_app, <- lfinal_erase.
change (run_lops k (LMove :: b) (lfinal a st)) with
  (LMoved (ms_flags (move_state (lfinal a st))) :: run_lops k b (lnext LMove (lfinal a st))).
rewrite lnext_move, move_state_id; reflexivity.
Qed.

Lemma erase_app a b : erase (a ++ b) = erase a ++ erase b.
Proof. induction a as [|[o|] r IH]; simpl; [reflexivity| rewrite IH; reflexivity | exact IH]. Qed.

Lemma erase_lift ops : erase (lift ops) = ops.
Proof. induction ops as [|o r IH]; simpl; [reflexivity | rewrite IH; reflexivity]. Qed.

Lemma erase_insert_move n ops : erase (insert_move n ops) = erase ops.
Proof.
unfold insert_move; rewrite erase_app; simpl erase; rewrite <- erase_app, firstn_skipn; reflexivity.
Qed.

(* a move inserted at ANY position of ANY word (which may already contain moves) *)
Lemma insert_move_unobservable k n ops st :
  kept (run_lops k (insert_move n ops) st) = kept (run_lops k ops st) /\
  lfinal (insert_move n ops) st = lfinal ops st.
Proof. rewrite !kept_run_lops, !lfinal_erase, erase_insert_move; split; reflexivity. Qed.

(* the flags after a word with moves, from a freshly constructed filter, follow the last-command rule *)
Lemma lfinal_flags have ops :
  ms_flags (lfinal ops (m_init have)) = final (skips_of (erase ops)) (init have).
Proof. rewrite lfinal_erase, final_m_flags; reflexivity. Qed.

Lemma moved_report_by_rule k have a b :
  exists f, run_lops k (a ++ LMove :: b) (m_init have) =
            run_lops k a (m_init have) ++ LMoved f :: run_lops k b (lfinal a (m_init have)) /\
  let cs := skips_of (erase a) in
  f_state f = last_status state_names false cs /\
  f_exo f = (if have then Some (last_status exo_names false cs) else None) /\
  f_corr f = last_status corr_names false cs /\
  f_pred f = last_status state_names false cs && (if have then last_status exo_names false cs else true) /\
  f_inner f = false.
Proof.
exists (ms_flags (final_m (erase a) (m_init have))); split.
- rewrite run_lops_move, lfinal_erase; reflexivity.
- rewrite final_m_flags; simpl ms_flags.
  destruct (flags_match_commands have (skips_of (erase a))) as (Hs & He & Hc & _ & Hi).
  repeat split; try assumption.
  apply pred_reported.
Qed.

Section Steps.
Variable B : Type.
Variable pstep : kind -> prop_mode -> B -> B -> B.
Variable cstep : kind -> B -> B -> B.
Variable same_shape : B -> B -> bool.
Variable gpf_sliced : B -> B -> B.

(* the identity clause on objects obtained through any number of moves at any positions *)
Lemma predict_identity_with_moves (have : bool) (ops : list lop) k prev old :
  let cs := skips_of (erase ops) in
  last_status state_names false cs && (if have then last_status exo_names false cs else true) = true ->
  predict B pstep same_shape gpf_sliced k (ms_flags (lfinal ops (m_init have))) prev old = prev.
Proof. intros cs H; rewrite lfinal_flags; apply predict_identity_by_rule; exact H. Qed.

Lemma correct_identity_with_moves (have : bool) (ops : list lop) k pred old :
  last_status corr_names false (skips_of (erase ops)) = true ->
  correct B cstep k (ms_flags (lfinal ops (m_init have))) pred old = pred.
Proof. intros H; rewrite lfinal_flags; apply correct_identity_by_rule; exact H. Qed.

(* both step functions of the moved objects are those of the objects never moved *)
Lemma steps_with_moves ops st k :
  (forall prev old, predict B pstep same_shape gpf_sliced k (ms_flags (lfinal ops st)) prev old =
                    predict B pstep same_shape gpf_sliced k (ms_flags (final_m (erase ops) st)) prev old) /\
  (forall pred old, correct B cstep k (ms_flags (lfinal ops st)) pred old =
                    correct B cstep k (ms_flags (final_m (erase ops) st)) pred old).
Proof. rewrite lfinal_erase; split; reflexivity. Qed.
End Steps.

(* ---- the correction move constructors as they were before 4c35858: the statement is false of them ---- *)
Lemma old_move_refuted :
  exists (ops : list lop) (k : kind) (have : bool),
    last_status corr_names false (skips_of (erase ops)) = true /\
    run_lops_g movers_before k (ops ++ [LOp (OpCorrect false)]) (m_init have) =
      [LObs (ObsSkip (Ok true) (mkFlags false false false None true)); LMoved (init false); LObs (ObsStep (OCorrected KF 0))] /\
    run_lops k (ops ++ [LOp (OpCorrect false)]) (m_init have) =
      [LObs (ObsSkip (Ok true) (mkFlags false false false None true)); LMoved (mkFlags false false false None true); LObs (ObsStep OInput)].
Proof. exists [LOp (OpSkip NCorrection true); LMove], KF, false; repeat split. Qed.

(* a move that takes both base-class subobjects from the source is the identity on the flags, and only such a move is *)
Lemma move_identity_iff M : (forall f, move_flags_g M f = f) <-> M = movers_now.
Proof.
split.
- intros H; destruct M as [p c].
  generalize (H (mkFlags true false false None true)); unfold move_flags_g; simpl.
  destruct p, c; intros E; try discriminate E; reflexivity.
- intros ->; exact move_flags_id.
Qed.
