(* C19_Regress.v — regression specification, NOT part of any property theorem.
   The transcription of directional_mean as it was before /repo commit
   "fix: directional_mean of a single sample returns its principal value"
   (one column returned AS IS), and the proof that this old code violates three
   literal clauses of C19.  If the shortcut is reintroduced, the correspondence
   check differs on one-column inputs and the oracle reports
   C19:mean:single-column:not-arg-of-resultant / :shift-changes-result. *)
Require Import ZArith Reals Lra Lia List.
Require Import BFL.Ops BFL.C19_ROps BFL.C19_Model BFL.C19_Proofs.
Import ListNotations.
Local Open Scope R_scope.

Section Prefix.
Variable S : SOps.
(* pre-fix: cols == 1 ? a.col(0) : arg(exp(j a) * w) *)
Definition dir_mean_prefix (cols : nat) (a : list (list (T S))) (w : list (T S)) : list (T S) :=
  if Nat.eqb cols 1 then map (fun row => nth 0 row (s0 S)) a
  else map (fun row => mean_row S row w) a.
End Prefix.

Lemma prefix_single_column a w : dir_mean_prefix ROps 1 a w = map (fun row => nth 0 row 0) a.
Proof. reflexivity. Qed.

(* away from one column the old and the new code agree *)
Lemma prefix_general cols a w : cols <> 1%nat -> dir_mean_prefix ROps cols a w = dir_mean ROps cols a w.
Proof.
  intros Hc. unfold dir_mean_prefix, dir_mean. destruct (Nat.eqb_spec cols 1); [contradiction | reflexivity].
Qed.

(* (i) not the argument of the resultant (not even for a positive weight), (ii) follows 2 pi shifts,
   (iii) ignores the weight *)
Lemma C19_mean_single_column_literal_refuted :
  (exists a w, 0 < w /\ dir_mean_prefix ROps 1 [[a]] [w] <> [mean_row ROps [a] [w]]) /\
  (exists a w, 0 < w /\ dir_mean_prefix ROps 1 [[a + 2 * IZR 1 * PI]] [w] <> dir_mean_prefix ROps 1 [[a]] [w]) /\
  (exists a w, w < 0 /\ ~ cong2pi (mean_row ROps [a] [w]) (nth 0 (dir_mean_prefix ROps 1 [[a]] [w]) 0)).
Proof.
  pose proof PI_RGT_0 as Hp. repeat split.
  - exists (3 * PI), 1. split; [lra|]. rewrite prefix_single_column. cbn [map nth].
    assert (E0 : mean_row ROps [3 * PI] [1] = wrap ROps (3 * PI)).
    { apply (mean_row_all_equal (3 * PI) 1 [1]). simpl. lra. }
    destruct wrap_concrete as [E _]. intros H. injection H as H'. pose proof (eq_trans H' (eq_trans E0 E)) as H2. lra.
  - exists 0, 1. split; [lra|]. rewrite !prefix_single_column. cbn [map nth]. intros H. injection H. lra.
  - exists 0, (-1). split; [lra|]. rewrite prefix_single_column, mean_row_R. cbn [map nth wsumf].
    rewrite sin_0, cos_0. replace (0 * -1 + 0) with 0 by ring. replace (1 * -1 + 0) with (-1) by ring.
    assert (E : atan2 0 (-1) = PI).
    { unfold atan2. destruct (total_order_T (-1) 0) as [[H|H]|H]; try lra.
      destruct (Rle_dec 0 0); [|lra]. replace (0 / -1) with 0 by (field; lra). rewrite atan_0. lra. }
    rewrite E. apply not_cong_half_turn.
Qed.

(* the repaired code satisfies the first two clauses exactly (C19_Proofs.single_column_positive,
   mean_single_column_shift) *)
Print Assumptions C19_mean_single_column_literal_refuted.
