(* Properties_C13.v — property C13: skip commands are safe, reversible and turn
   the skipped step into the identity.  Statements only; each is closed by a
   lemma of C13_Proofs.  They hold for ALL command words (lists of
   name x on/off), with and without an exogenous model, for the four step
   configurations (KF, UKF, bootstrap, Gaussian-particle), for arbitrary step
   bodies pstep / cstep and arbitrary beliefs. *)
Require Import List Bool.
Require Import BFL.Ops BFL.C02_Model BFL.C13_Model BFL.C13_Proofs BFL.C13_Link BFL.C13_Life BFL.C13_LifeProofs.
Import ListNotations.
Local Open Scope bool_scope.

(* 'prediction', 'state', 'correction', 'all' return true and do not throw,
   from ANY flag state, with or without exogenous model *)
Theorem C13_known_names_true_nothrow (w : name) (b : bool) (f : flags) :
  known w = true -> fst (filter_skip w b f) = Ok true.
Proof. exact (known_true_nothrow w b f). Qed.

(* no command word ever throws *)
Theorem C13_never_throws (cs : list cmd) (f : flags) : ~ In Throws (fst (run cs f)).
Proof. exact (run_never_throws cs f). Qed.

(* ... and that rests on each of the three tests of have_exogenous_model() placed in front of the partial
   accessor exogenous_model() (StateModel.cpp:20, Prediction::skip "state" and "exogenous" branches):
   the same dispatch definitions with any one of them removed throw on a filter without exogenous model *)
Theorem C13_each_guard_is_needed :
  fst (filter_skip_g (mkGuards false true true) NPrediction true (init false)) = Throws /\
  fst (filter_skip_g (mkGuards true false true) NState true (init false)) = Throws /\
  fst (filter_skip_g (mkGuards true true false) NExogenous true (init false)) = Throws.
Proof. exact each_guard_is_needed. Qed.

(* every answer to a word made of the four known names is true *)
Theorem C13_known_word_all_true (cs : list cmd) (f : flags) :
  forallb (fun c => known (fst c)) cs = true -> Forall (fun r => r = Ok true) (fst (run cs f)).
Proof. exact (run_known_all_true cs f). Qed.

(* 'exogenous' returns true when such a model exists ... *)
Theorem C13_exogenous_with_model_true (b : bool) (f : flags) (e : bool) :
  f_exo f = Some e -> fst (filter_skip NExogenous b f) = Ok true.
Proof. exact (exogenous_with_model NExogenous b f e eq_refl). Qed.

(* at any point of any command word, when the model was attached with StateModel::add_exogenous_model *)
Theorem C13_exogenous_true_after_any_word (b : bool) (cs : list cmd) :
  fst (filter_skip NExogenous b (snd (run cs (init_of (ViaStateModel true))))) = Ok true.
Proof. exact (exogenous_supplied_via_state_model b cs). Qed.

(* on every filter configuration with an exogenous model, however it was supplied (add_exogenous_model or
   the DrawParticles(state_model, exogenous_model) constructor), at any point of any command word *)
Theorem C13_exogenous_supplied_true (a : assembly) (b : bool) (cs : list cmd) :
  exo_supplied a = true -> fst (filter_skip NExogenous b (snd (run cs (init_of a)))) = Ok true.
Proof. exact (exogenous_supplied_true a b cs). Qed.

(* ... and false, changing nothing, when it does not *)
Theorem C13_exogenous_without_model_false_unchanged (b : bool) (f : flags) :
  f_exo f = None -> filter_skip NExogenous b f = (Ok false, f).
Proof. exact (exogenous_without_model b f). Qed.

(* an unknown name returns false and changes nothing *)
Theorem C13_unknown_false_unchanged (b : bool) (f : flags) : filter_skip NOther b f = (Ok false, f).
Proof. exact (unknown_false_unchanged b f). Qed.

(* the derived rule the code implements, from a freshly constructed filter:
   state flag   = status of the last command among prediction/state/all,
   exo flag     = status of the last command among prediction/exogenous/all (if there is such a model),
   correction   = status of the last command among correction/all,
   prediction's is_skipping() = state flag && (exo flag, or true without exogenous model),
   the Gaussian prediction wrapped by a Gaussian-particle prediction is never touched *)
Theorem C13_flags_match_commands (have : bool) (cs : list cmd) :
  let f := final cs (init have) in
  f_state f = last_status state_names false cs /\
  f_exo f = (if have then Some (last_status exo_names false cs) else None) /\
  f_corr f = last_status corr_names false cs /\
  f_pred f = f_state f && exo_or_true f /\
  f_inner f = false.
Proof. exact (flags_match_commands have cs). Qed.

Theorem C13_prediction_reported (have : bool) (cs : list cmd) :
  f_pred (final cs (init have)) =
  last_status state_names false cs && (if have then last_status exo_names false cs else true).
Proof. exact (pred_reported have cs). Qed.

Section Steps.
Variable B : Type.
Variable pstep : kind -> prop_mode -> B -> B -> B.
Variable cstep : kind -> B -> B -> B.
Variable same_shape : B -> B -> bool.      (* has the output object handed in the shape of the input *)
Variable gpf_sliced : B -> B -> B.         (* what GPFPrediction's sliced assignment leaves when it has not *)

(* a skipped step returns its input (the whole object), for every configuration *)
Theorem C13_skipped_prediction_is_identity (k : kind) (f : flags) (prev old : B) :
  f_pred f = true -> predict B pstep same_shape gpf_sliced k f prev old = prev.
Proof. exact (predict_skipped B pstep same_shape gpf_sliced k f prev old). Qed.

Theorem C13_skipped_correction_is_identity (k : kind) (f : flags) (pred old : B) :
  f_corr f = true -> correct B cstep k f pred old = pred.
Proof. exact (correct_skipped B cstep k f pred old). Qed.

(* after 'prediction on' / 'all on' (resp. 'correction on' / 'all on'), whatever came before *)
Theorem C13_identity_after_prediction_on (have : bool) (cs : list cmd) (w : name) (k : kind) (prev old : B) :
  w = NPrediction \/ w = NAll ->
  predict B pstep same_shape gpf_sliced k (final (cs ++ [(w, true)]) (init have)) prev old = prev.
Proof. exact (predict_identity_after_on B pstep same_shape gpf_sliced have cs w k prev old). Qed.

Theorem C13_identity_after_correction_on (have : bool) (cs : list cmd) (w : name) (k : kind) (pred old : B) :
  w = NCorrection \/ w = NAll ->
  correct B cstep k (final (cs ++ [(w, true)]) (init have)) pred old = pred.
Proof. exact (correct_identity_after_on B cstep have cs w k pred old). Qed.

(* whenever the derived rule says "skipping" *)
Theorem C13_identity_by_rule (have : bool) (cs : list cmd) (k : kind) (prev old : B) :
  last_status state_names false cs && (if have then last_status exo_names false cs else true) = true ->
  predict B pstep same_shape gpf_sliced k (final cs (init have)) prev old = prev.
Proof. exact (predict_identity_by_rule B pstep same_shape gpf_sliced have cs k prev old). Qed.

Theorem C13_correction_identity_by_rule (have : bool) (cs : list cmd) (k : kind) (pred old : B) :
  last_status corr_names false cs = true ->
  correct B cstep k (final cs (init have)) pred old = pred.
Proof. exact (correct_identity_by_rule B cstep have cs k pred old). Qed.

(* KF and UKF steps are the identity as soon as the state model is skipped, even while is_skipping()
   is false (predictStep's own test; whole-object assignment: any shape of the output object) *)
Theorem C13_state_skipped_gaussian_identity (k : kind) (f : flags) (prev old : B) :
  k = KF \/ k = UKF -> f_state f = true -> predict B pstep same_shape gpf_sliced k f prev old = prev.
Proof. exact (predict_state_skipped_gaussian B pstep same_shape gpf_sliced k f prev old). Qed.

(* PARTIAL for the Gaussian-particle prediction: identity only under the premise that the output
   object has the input's shape (GPFPrediction's sliced assignment; what is missing is the case of
   another shape, where the code leaves an inconsistent object -- next theorem).  Not needed by the
   property: there the prediction is not "skipped" (is_skipping() is false). *)
Theorem C13_state_skipped_gpf_identity_partial (f : flags) (prev old : B) :
  f_state f = true -> same_shape prev old = true -> predict B pstep same_shape gpf_sliced GPF f prev old = prev.
Proof. exact (predict_state_skipped_gpf B pstep same_shape gpf_sliced f prev old). Qed.

Theorem C13_state_skipped_gpf_other_shape (f : flags) (prev old : B) :
  f_pred f = false -> f_state f = true -> same_shape prev old = false ->
  predict B pstep same_shape gpf_sliced GPF f prev old = gpf_sliced prev old.
Proof. exact (predict_state_skipped_gpf_other_shape B pstep same_shape gpf_sliced f prev old). Qed.

(* per-step reversibility: with the state part (and the exogenous part, if any) switched off again
   the prediction is that of a never-skipped filter WHATEVER the correction's flag is, and dually *)
Theorem C13_prediction_restored (have : bool) (cs : list cmd) (k : kind) :
  last_status state_names false cs = false ->
  (have = true -> last_status exo_names false cs = false) ->
  forall prev old,
    predict B pstep same_shape gpf_sliced k (final cs (init have)) prev old =
    predict B pstep same_shape gpf_sliced k (init have) prev old.
Proof. exact (predict_restored B pstep same_shape gpf_sliced have cs k). Qed.

Theorem C13_correction_restored (have : bool) (cs : list cmd) (k : kind) :
  last_status corr_names false cs = false ->
  forall pred old, correct B cstep k (final cs (init have)) pred old = correct B cstep k (init have) pred old.
Proof. exact (correct_restored B cstep have cs k). Qed.

(* reversibility: once everything is off again the flags are those of a fresh
   filter, hence both step functions are (extensionally) those of a never-skipped filter *)
Theorem C13_reversible (have : bool) (cs : list cmd) (k : kind) :
  all_off (final cs (init have)) ->
  (forall prev old, predict B pstep same_shape gpf_sliced k (final cs (init have)) prev old = predict B pstep same_shape gpf_sliced k (init have) prev old) /\
  (forall pred old, correct B cstep k (final cs (init have)) pred old = correct B cstep k (init have) pred old).
Proof. exact (reversible B pstep cstep same_shape gpf_sliced have cs k). Qed.

Theorem C13_all_off_restores_fresh_state (have : bool) (cs : list cmd) :
  final (cs ++ [(NAll, false)]) (init have) = init have.
Proof. exact (back_to_init_after_all_off have cs). Qed.

Theorem C13_both_off_restores_fresh_state (have : bool) (cs : list cmd) :
  final (cs ++ [(NPrediction, false); (NCorrection, false)]) (init have) = init have.
Proof. exact (back_to_init_after_both_off have cs). Qed.

Theorem C13_reversible_all_off (have : bool) (cs : list cmd) (k : kind) :
  (forall prev old, predict B pstep same_shape gpf_sliced k (final (cs ++ [(NAll, false)]) (init have)) prev old =
                    pstep k (if have then MFull else MStateOnly) prev old) /\
  (forall pred old, correct B cstep k (final (cs ++ [(NAll, false)]) (init have)) pred old = cstep k pred old).
Proof. exact (reversible_all_off B pstep cstep same_shape gpf_sliced have cs k). Qed.

(* the only computations a filter driven by skip commands can perform in its
   prediction: identity, full step, state model alone, and (bootstrap only) exogenous part alone;
   the branch of LinearStateModel::propagate that writes nothing is never reached *)
Theorem C13_reachable_predictions (have : bool) (cs : list cmd) (k : kind) (prev old : B) :
  let f := final cs (init have) in
  predict B pstep same_shape gpf_sliced k f prev old = prev \/
  predict B pstep same_shape gpf_sliced k f prev old = pstep k MFull prev old \/
  predict B pstep same_shape gpf_sliced k f prev old = pstep k MStateOnly prev old \/
  (k = Boot /\ predict B pstep same_shape gpf_sliced k f prev old = pstep k MExoOnly prev old) \/
  (k = GPF /\ same_shape prev old = false /\ predict B pstep same_shape gpf_sliced k f prev old = gpf_sliced prev old).
Proof. exact (reachable_predict B pstep same_shape gpf_sliced have cs k prev old). Qed.
End Steps.

(* ---- the measurement path ----
   freeze_measurements is not gated by the skip flag: every call advances the measurement source,
   also while the correction is skipped *)
Theorem C13_freeze_not_gated (st : mstate) :
  ms_cursor (next OpFreeze st) = S (ms_cursor st) /\ ms_flags (next OpFreeze st) = ms_flags st.
Proof. exact (freeze_not_gated st). Qed.

(* after ANY word of operations (skip commands, freeze, predict, correct) the cursor of the measurement
   source is the number of freeze calls, and the flags are those after the skip commands alone *)
Theorem C13_measurement_cursor (ops : list op) (st : mstate) :
  ms_cursor (final_m ops st) = ms_cursor st + freezes_of ops /\
  ms_flags (final_m ops st) = final (skips_of ops) (ms_flags st).
Proof. exact (conj (final_m_cursor ops st) (final_m_flags ops st)). Qed.

(* reversibility extended to the measurement state: once everything is switched off again the whole
   machine state (flags AND measurement cursor) equals that of a never-skipped twin that received the
   same freeze / predict / correct calls *)
Theorem C13_reversible_with_measurements (have : bool) (ops : list op) :
  all_off (final (skips_of ops) (init have)) ->
  final_m ops (m_init have) = final_m (calls_of ops) (m_init have).
Proof. exact (reversible_m have ops). Qed.

(* per step: with the correction switched off again, correct() uses the measurement frozen by the LAST
   freeze call (those issued during the skip included) -- exactly what the twin computes *)
Theorem C13_correction_restored_with_measurements (B : Type) (cstepm : kind -> nat -> B -> B -> B)
  (have : bool) (ops : list op) (k : kind) :
  last_status corr_names false (skips_of ops) = false ->
  forall pred old,
    correct_m B cstepm k (final_m ops (m_init have)) pred old = cstepm k (freezes_of ops) pred old /\
    correct_m B cstepm k (final_m ops (m_init have)) pred old =
    correct_m B cstepm k (final_m (calls_of ops) (m_init have)) pred old.
Proof. exact (correct_m_restored B cstepm have ops k). Qed.

(* the propagate modes of this model are the branches of C02's model of
   LinearStateModel::propagate (for every arithmetic instance): MFull is F x + u, MStateOnly is F x, ... *)
Theorem C13_modes_are_linear_propagate (O : MatOps) (n k : nat) (F : M O n n) (exo : option (M O n k -> M O n k))
  (p i ss se c : bool) (cur old : M O n k) :
  lin_propagate F exo ss se cur old = interp_mode O F exo (prop_mode_of (flags_of exo p i ss se c)) cur old.
Proof. exact (lin_propagate_is_mode O F exo p i ss se c cur old). Qed.

(* ---- object lifetimes: however the step objects were obtained (C13_Life) ----
   LMove replaces the prediction and correction step objects by the objects moved from them (move construction or
   move assignment).  The move as the code performs it (base-class subobject taken from the source, models moved as
   pointers) keeps every flag: *)
Theorem C13_move_keeps_every_flag (st : mstate) : lnext LMove st = st /\ move_flags (ms_flags st) = ms_flags st.
Proof. exact (conj (lnext_move st) (move_flags_id (ms_flags st))). Qed.

(* ... and only a move that takes both base-class subobjects from the source does *)
Theorem C13_move_identity_iff (M : movers) : (forall f, move_flags_g M f = f) <-> M = movers_now.
Proof. exact (move_identity_iff M). Qed.

(* any number of moves at any positions of any word of operations, from any state: every observation that is not
   a move (answers of the skip commands and the skipping state reported after them, outcome of every predict / correct,
   freezes) and the final state are those of the word without the moves *)
Theorem C13_moves_unobservable (k : kind) (ops : list lop) (st : mstate) :
  kept (run_lops k ops st) = run_ops k (erase ops) st /\ lfinal ops st = final_m (erase ops) st.
Proof. exact (conj (kept_run_lops k ops st) (lfinal_erase ops st)). Qed.

(* one more move inserted at any position of any word (which may contain moves already) *)
Theorem C13_move_at_any_position (k : kind) (n : nat) (ops : list lop) (st : mstate) :
  kept (run_lops k (insert_move n ops) st) = kept (run_lops k ops st) /\
  lfinal (insert_move n ops) st = lfinal ops st.
Proof. exact (insert_move_unobservable k n ops st). Qed.

(* the skipping state reported by the objects obtained by a move matches the commands given so far *)
Theorem C13_moved_objects_report_commands (k : kind) (have : bool) (a b : list lop) :
  exists f, run_lops k (a ++ LMove :: b) (m_init have) =
            run_lops k a (m_init have) ++ LMoved f :: run_lops k b (lfinal a (m_init have)) /\
  let cs := skips_of (erase a) in
  f_state f = last_status state_names false cs /\
  f_exo f = (if have then Some (last_status exo_names false cs) else None) /\
  f_corr f = last_status corr_names false cs /\
  f_pred f = last_status state_names false cs && (if have then last_status exo_names false cs else true) /\
  f_inner f = false.
Proof. exact (moved_report_by_rule k have a b). Qed.

(* the identity clause on objects obtained through moves *)
Theorem C13_identity_with_moves (B : Type) (pstep : kind -> prop_mode -> B -> B -> B) (cstep : kind -> B -> B -> B)
  (same_shape : B -> B -> bool) (gpf_sliced : B -> B -> B) (have : bool) (ops : list lop) (k : kind) (x old : B) :
  let cs := skips_of (erase ops) in
  (last_status state_names false cs && (if have then last_status exo_names false cs else true) = true ->
   predict B pstep same_shape gpf_sliced k (ms_flags (lfinal ops (m_init have))) x old = x) /\
  (last_status corr_names false cs = true ->
   correct B cstep k (ms_flags (lfinal ops (m_init have))) x old = x).
Proof.
exact (conj (predict_identity_with_moves B pstep same_shape gpf_sliced have ops k x old)
            (correct_identity_with_moves B cstep have ops k x old)).
Qed.

(* restoring: the step functions of the moved objects are those of objects never moved (hence, with
   C13_reversible / C13_prediction_restored / C13_correction_restored, of a never-skipped filter once switched off) *)
Theorem C13_steps_with_moves (B : Type) (pstep : kind -> prop_mode -> B -> B -> B) (cstep : kind -> B -> B -> B)
  (same_shape : B -> B -> bool) (gpf_sliced : B -> B -> B) (ops : list lop) (st : mstate) (k : kind) :
  (forall prev old, predict B pstep same_shape gpf_sliced k (ms_flags (lfinal ops st)) prev old =
                    predict B pstep same_shape gpf_sliced k (ms_flags (final_m (erase ops) st)) prev old) /\
  (forall x old, correct B cstep k (ms_flags (lfinal ops st)) x old =
                 correct B cstep k (ms_flags (final_m (erase ops) st)) x old).
Proof. exact (steps_with_moves B pstep cstep same_shape gpf_sliced ops st k). Qed.

(* the correction move constructors as they were before "fix: KF, UKF and SUKF correction move constructors carry the
   skip state of the base class" (instance movers_before of the same definitions): correction on; move; correct runs the
   correction *)
Theorem C13_move_before_fix_refuted :
  exists (ops : list lop) (k : kind) (have : bool),
    last_status corr_names false (skips_of (erase ops)) = true /\
    run_lops_g movers_before k (ops ++ [LOp (OpCorrect false)]) (m_init have) =
      [LObs (ObsSkip (Ok true) (mkFlags false false false None true)); LMoved (init false); LObs (ObsStep (OCorrected KF 0))] /\
    run_lops k (ops ++ [LOp (OpCorrect false)]) (m_init have) =
      [LObs (ObsSkip (Ok true) (mkFlags false false false None true)); LMoved (mkFlags false false false None true); LObs (ObsStep OInput)].
Proof. exact old_move_refuted. Qed.

Example C13_word_with_moves :
  run_lops GPF [LMove; LOp (OpSkip NAll true); LOp OpFreeze; LMove; LOp (OpPredict true); LOp (OpCorrect false);
                LOp (OpSkip NCorrection false); LMove; LOp (OpCorrect false)] (m_init true)
  = [LMoved (init true); LObs (ObsSkip (Ok true) (mkFlags true false true (Some true) true)); LObs (ObsFreeze 1);
     LMoved (mkFlags true false true (Some true) true); LObs (ObsStep OInput); LObs (ObsStep OInput);
     LObs (ObsSkip (Ok true) (mkFlags true false true (Some true) false)); LMoved (mkFlags true false true (Some true) false);
     LObs (ObsStep (OCorrected GPF 1))].
Proof. reflexivity. Qed.

(* non-vacuity: concrete words, by computation on the very functions that are extracted *)
Example C13_word_without_exo :
  run [(NPrediction, true); (NExogenous, true); (NOther, true); (NState, false); (NAll, false)] (init false)
  = ([Ok true; Ok false; Ok false; Ok true; Ok true], init false).
Proof. reflexivity. Qed.

Example C13_word_with_exo :
  let f := final [(NState, true); (NCorrection, true)] (init true) in
  f_pred f = false /\ f_state f = true /\ f_exo f = Some false /\ f_corr f = true /\
  obs_predict KF f true = OInput /\ obs_predict Boot f false = ORan Boot MExoOnly /\ obs_correct UKF (mkM f 3) true = OInput /\
  obs_predict GPF f false = OInput /\ obs_predict GPF f true = OSliced /\
  all_off (final [(NState, true); (NCorrection, true); (NPrediction, false); (NCorrection, false)] (init true)).
Proof. repeat split. Qed.

(* skip on; freeze; skip off; correct: the correction uses the measurement frozen DURING the skip *)
Example C13_freeze_during_skip :
  run_ops KF [OpFreeze; OpSkip NCorrection true; OpFreeze; OpCorrect false; OpSkip NCorrection false; OpCorrect false] (m_init false)
  = [ObsFreeze 1; ObsSkip (Ok true) (mkFlags false false false None true); ObsFreeze 2; ObsStep OInput;
     ObsSkip (Ok true) (init false); ObsStep (OCorrected KF 2)].
Proof. reflexivity. Qed.

(* 'prediction on; state off' with an exogenous model leaves the exogenous part
   skipped: is_skipping() is false, the step is the state model alone *)
Example C13_prediction_on_state_off :
  let f := final [(NPrediction, true); (NState, false)] (init true) in
  f_pred f = false /\ f_exo f = Some true /\ obs_predict KF f false = ORan KF MStateOnly /\ ~ all_off f.
Proof. repeat split; intros (_ & _ & H & _); discriminate H. Qed.

Print Assumptions C13_known_names_true_nothrow.
Print Assumptions C13_never_throws.
Print Assumptions C13_each_guard_is_needed.
Print Assumptions C13_known_word_all_true.
Print Assumptions C13_exogenous_with_model_true.
Print Assumptions C13_exogenous_true_after_any_word.
Print Assumptions C13_exogenous_supplied_true.
Print Assumptions C13_exogenous_without_model_false_unchanged.
Print Assumptions C13_unknown_false_unchanged.
Print Assumptions C13_flags_match_commands.
Print Assumptions C13_prediction_reported.
Print Assumptions C13_skipped_prediction_is_identity.
Print Assumptions C13_skipped_correction_is_identity.
Print Assumptions C13_identity_after_prediction_on.
Print Assumptions C13_identity_after_correction_on.
Print Assumptions C13_identity_by_rule.
Print Assumptions C13_correction_identity_by_rule.
Print Assumptions C13_state_skipped_gaussian_identity.
Print Assumptions C13_state_skipped_gpf_identity_partial.
Print Assumptions C13_state_skipped_gpf_other_shape.
Print Assumptions C13_prediction_restored.
Print Assumptions C13_correction_restored.
Print Assumptions C13_reversible.
Print Assumptions C13_all_off_restores_fresh_state.
Print Assumptions C13_both_off_restores_fresh_state.
Print Assumptions C13_reversible_all_off.
Print Assumptions C13_reachable_predictions.
Print Assumptions C13_modes_are_linear_propagate.
Print Assumptions C13_freeze_not_gated.
Print Assumptions C13_measurement_cursor.
Print Assumptions C13_reversible_with_measurements.
Print Assumptions C13_correction_restored_with_measurements.
Print Assumptions C13_move_keeps_every_flag.
Print Assumptions C13_move_identity_iff.
Print Assumptions C13_moves_unobservable.
Print Assumptions C13_move_at_any_position.
Print Assumptions C13_moved_objects_report_commands.
Print Assumptions C13_identity_with_moves.
Print Assumptions C13_steps_with_moves.
Print Assumptions C13_move_before_fix_refuted.
