(* Properties_C07.v — property C07: resampling is a faithful low-variance
   selection with uniform output weights.  Statements only; each is closed by a
   lemma of C07_Proofs.  `ROpsE e` is the real-number instance of the scalar
   interface whose exponential is an arbitrary non-negative function e (so that
   weights that are exactly zero, i.e. log-weights of -infinity, are covered);
   `ROps = ROpsE exp`.  All statements hold for every N >= 1, every weight
   vector w_i = e(lw_i) >= 0 of sum 1 and every offset 0 < u1 < 1/N. *)
Require Import Reals ZArith QArith List Permutation Lra Lia.
Require Import BFL.Ops BFL.ListOps BFL.C07_Model BFL.C07_ROps BFL.C07_Proofs BFL.C07_Partition BFL.C07_Rounding.
Import ListNotations.
Local Open Scope R_scope.

(* ---- structure of the carried-pointer loop, at every arithmetic (also IEEE doubles) ---- *)

(* the inner while loop always ends because its guard fails; fuel N is never exhausted *)
Theorem C07_advance_fuel (S : SOps) c N u idx :
  keep_going S c N u (advance S N c N u idx) = false /\
  forall k, advance S (N + k) c N u idx = advance S N c N u idx.
Proof. exact (advance_fuel_statement S c N u idx). Qed.

(* as many outputs, weights and parents as inputs *)
Theorem C07_length (S : SOps) {P} (ps : list P) lw u1 : ps <> [] ->
  let '(out, w, par) := @resample S P ps lw u1 in
  length out = length lw /\ length w = length lw /\ length par = length lw.
Proof. exact (resample_lengths S ps lw u1). Qed.

(* every output is an exact copy (state, mean, covariance = the payload) of the parent it reports *)
Theorem C07_copy (S : SOps) {P} (ps : list P) lw u1 d j :
  ps <> [] -> (j < length lw)%nat -> length ps = length lw ->
  let '(out, w, par) := @resample S P ps lw u1 in
  nth j out d = nth (nth j par 0%nat) ps d.
Proof. exact (resample_copy S ps lw u1 d j). Qed.

(* the same per member, for the loop body written as the three assignments of Resampling.cpp:88-90
   (resample3 is what the correspondence check runs for the plain variant; it equals resample on particle records) *)
Theorem C07_copy_members (S : SOps) {A B C} (ps : list (particle A B C)) lw u1 d j :
  ps <> [] -> (j < length lw)%nat -> length ps = length lw ->
  let '(out, w, par) := @resample3 S A B C ps lw u1 in
  p_state (nth j out d) = p_state (nth (nth j par 0%nat) ps d) /\
  p_mean (nth j out d) = p_mean (nth (nth j par 0%nat) ps d) /\
  p_cov (nth j out d) = p_cov (nth (nth j par 0%nat) ps d).
Proof. exact (resample3_copy S ps lw u1 d j). Qed.

Theorem C07_parents_sorted (S : SOps) lw u1 a b : (a <= b < length lw)%nat ->
  (nth a (res_parents S lw u1) 0 <= nth b (res_parents S lw u1) 0)%nat.
Proof. exact (parents_sorted_statement S lw u1 a b). Qed.

Theorem C07_parents_in_range (S : SOps) lw u1 j : (j < length lw)%nat ->
  (nth j (res_parents S lw u1) 0 < length lw)%nat.
Proof. exact (parents_in_range_statement S lw u1 j). Qed.

(* ---- over the reals ---- *)

Theorem C07_uniform_weights {P} (ps : list P) (lw : list R) u1 :
  snd (fst (@resample ROps P ps lw u1)) = repeat (- ln (INR (length lw))) (length lw).
Proof. exact (uniform_weights_statement ps lw u1). Qed.

(* the parent of output t is the index p with c_{p-1} < u_t <= c_p (c = cumulative weights) *)
Theorem C07_selection_interval (e : R -> R) (lw : list R) (u1 : R) :
  (forall x, 0 <= e x) -> (0 < length lw)%nat -> sumR (map e lw) = 1 -> 0 < u1 -> u1 * INR (length lw) < 1 ->
  forall t, (t < length lw)%nat ->
  let p := nth t (res_parents (ROpsE e) lw u1) 0%nat in
  (p < length lw)%nat /\
  psum (map e lw) p < u1 + INR t / INR (length lw) <= psum (map e lw) (Datatypes.S p).
Proof. exact (selection_interval_statement e lw u1). Qed.

(* every particle is replicated a number of times that differs from N w_i by less than one *)
Theorem C07_count_bound (e : R -> R) (lw : list R) (u1 : R) :
  (forall x, 0 <= e x) -> (0 < length lw)%nat -> sumR (map e lw) = 1 -> 0 < u1 -> u1 * INR (length lw) < 1 ->
  forall i, (i < length lw)%nat ->
  Rabs (INR (count_occ Nat.eq_dec (res_parents (ROpsE e) lw u1) i) - INR (length lw) * e (nth i lw 0)) < 1.
Proof. exact (count_bound_statement e lw u1). Qed.

(* the same for the library's weights w_i = exp(lw_i) *)
Corollary C07_count_bound_exp (lw : list R) (u1 : R) :
  (0 < length lw)%nat -> sumR (map exp lw) = 1 -> 0 < u1 -> u1 * INR (length lw) < 1 ->
  forall i, (i < length lw)%nat ->
  Rabs (INR (count_occ Nat.eq_dec (res_parents ROps lw u1) i) - INR (length lw) * exp (nth i lw 0)) < 1.
Proof. exact (count_bound_statement exp lw u1 exp_nonneg). Qed.

Theorem C07_zero_weight_not_selected (e : R -> R) (lw : list R) (u1 : R) :
  (forall x, 0 <= e x) -> (0 < length lw)%nat -> sumR (map e lw) = 1 -> 0 < u1 -> u1 * INR (length lw) < 1 ->
  forall i, (i < length lw)%nat -> e (nth i lw 0) = 0 -> ~ In i (res_parents (ROpsE e) lw u1).
Proof. exact (zero_weight_statement e lw u1). Qed.

Theorem C07_heavy_selected (e : R -> R) (lw : list R) (u1 : R) :
  (forall x, 0 <= e x) -> (0 < length lw)%nat -> sumR (map e lw) = 1 -> 0 < u1 -> u1 * INR (length lw) < 1 ->
  forall i, (i < length lw)%nat -> / INR (length lw) <= e (nth i lw 0) -> In i (res_parents (ROpsE e) lw u1).
Proof. exact (heavy_statement e lw u1). Qed.

(* boundary of the premise 0 < u1: the draw range is [0, 1/N) but the comparison u_j > csw pairs
   with intervals (a, b]; for u1 = 0, N = 2, w = (1/2, 1/2) the counts are (2, 0) *)
Theorem C07_u1_zero_boundary_refuted :
  exists (lw : list R) (u1 : R),
    length lw = 2%nat /\ sumR (map exp lw) = 1 /\ u1 = 0 /\ u1 * INR (length lw) < 1 /\
    res_parents ROps lw u1 = [0; 0]%nat /\
    ~ Rabs (INR (count_occ Nat.eq_dec (res_parents ROps lw u1) 0%nat) - INR (length lw) * exp (nth 0 lw 0)) < 1.
Proof. exact u1_zero_boundary. Qed.

Theorem C07_neff_formula (e : R -> R) (lw : list R) :
  neff (ROpsE e) lw = 1 / sumR (map (fun x => e x * e x) lw).
Proof. exact (neff_formula e lw). Qed.

Theorem C07_neff_range (e : R -> R) (lw : list R) :
  (forall x, 0 <= e x) -> lw <> [] -> sumR (map e lw) = 1 -> 1 <= neff (ROpsE e) lw <= INR (length lw).
Proof. intro H. exact (neff_range e H lw). Qed.

(* utils::log_sum_exp = ln sum exp; subtracting it normalises *)
Theorem C07_lse_spec (l : list R) : l <> [] -> lse ROps l = ln (sumR (map exp l)).
Proof. exact (lse_spec l). Qed.

Theorem C07_lse_normalises (l : list R) : l <> [] ->
  sumR (map exp (lse_normalise ROps l)) = 1 /\ lse ROps (lse_normalise ROps l) = 0.
Proof. exact (fun H => conj (lse_normalise_sum l H) (lse_normalised_zero l H)). Qed.

(* ---- "up to rounding of the cumulative weights" ----
   The loop of Resampling::resample run on ANY list c of cumulative weights (in particular the doubles the running sum
   csw(i) = csw(i-1) + exp(w(i)) produces, read as reals), only required to be non-negative and non-decreasing.
   Its last entry is free: it may fall short of the last comb point (then only the guard idx < N-1 stops the pointer
   and the surplus goes to the last particle) or exceed 1.  clamp c = c with every entry cut at 1 and the last set to 1.
   Particle i is selected a number of times that differs from N (clamp c_i - clamp c_{i-1}) by less than one. *)
Theorem C07_count_bound_cumulative (e : R -> R) (c : list R) (u1 : R) :
  let N := length c in
  (0 < N)%nat -> chain 0 c -> 0 < u1 -> u1 * INR N < 1 ->
  forall i, (i < N)%nat ->
  Rabs (INR (count_occ Nat.eq_dec (res_loop (ROpsE e) c N u1 N 0 0) i)
        - INR N * (nth i (clamp c) 0 - match i with O => 0 | Datatypes.S i' => nth i' (clamp c) 0 end)) < 1.
Proof. exact (count_bound_cumulative e c u1). Qed.

(* hence: if every computed cumulative weight is within delta of the exact one (weights w >= 0 of sum 1), every
   particle is replicated a number of times within 1 + 2 N delta of N w_i  (delta = 0: C07_count_bound) *)
Theorem C07_count_bound_rounded (e : R -> R) (w c : list R) (u1 delta : R) :
  let N := length c in
  (0 < N)%nat -> length w = N -> (forall x, In x w -> 0 <= x) -> sumR w = 1 ->
  chain 0 c -> 0 < u1 -> u1 * INR N < 1 ->
  (forall i, (i < N)%nat -> Rabs (nth i c 0 - psum w (Datatypes.S i)) <= delta) ->
  forall i, (i < N)%nat ->
  Rabs (INR (count_occ Nat.eq_dec (res_loop (ROpsE e) c N u1 N 0 0) i) - INR N * nth i w 0) < 1 + 2 * INR N * delta.
Proof. exact (count_bound_rounded e w c u1 delta). Qed.

(* ---- prior-mixing variant ---- *)

(* num_prior_particles = floor(N ratio); at least one particle is resampled.  This is the floor of the REAL product;
   the library (and the extracted model run on doubles) floors the rounded DOUBLE product: N = 10, ratio = 0.7 gives
   10 * 0.7 = 7.000000000000001 -> 7 in doubles although the double nearest to 0.7 is below 7/10 (exact floor 6).
   Both sides of the correspondence agree on 7 (generated case class ratio 0.7, N 10). *)
Theorem C07p_num_prior (e : R -> R) N (ratio : R) : (0 < N)%nat -> 0 <= ratio < 1 ->
  INR (num_prior (ROpsE e) N ratio) <= INR N * ratio < INR (num_prior (ROpsE e) N ratio) + 1
  /\ (num_prior (ROpsE e) N ratio < N)%nat.
Proof. exact (num_prior_spec e N ratio). Qed.

(* the sorted indices are a permutation of 0..N-1 and the floor(ratio N) discarded particles
   (the first ones) all have weight <= every kept one *)
Theorem C07p_partition (e : R -> R) (lw : list R) (ratio : R) :
  let N := length lw in
  let np := num_prior (ROpsE e) N ratio in
  let srt := sort_idx (ROpsE e) (map e lw) in
  Permutation srt (seq 0 N) /\
  forall a b, (a < np)%nat -> (np <= b < N)%nat ->
    e (nth (nth a srt 0%nat) lw 0) <= e (nth (nth b srt 0%nat) lw 0).
Proof. exact (partition_statement e lw ratio). Qed.

(* parents: -1 on the left; on the right the original index of a kept particle *)
Theorem C07p_parents (e : R -> R) {P} (init : nat -> list P) (ratio : R) (ps : list P) (lw : list R) (u1 : R) :
  length lw = length ps -> (0 < length ps)%nat ->
  length (init (num_prior (ROpsE e) (length ps) ratio)) = num_prior (ROpsE e) (length ps) ratio ->
  let N := length ps in
  let np := num_prior (ROpsE e) N ratio in
  let srt := sort_idx (ROpsE e) (map e lw) in
  let par := snd (@resample_prior (ROpsE e) P init ratio ps lw u1) in
  length par = N /\
  (forall j, (j < np)%nat -> nth j par 0%Z = (-1)%Z) /\
  (forall j, (np <= j < N)%nat ->
     exists b, (np <= b < N)%nat /\ nth j par 0%Z = Z.of_nat (nth b srt 0%nat) /\ (nth b srt 0 < N)%nat).
Proof. exact (prior_parents_statement e init ratio ps lw u1). Qed.

(* every resampled particle is an exact copy of the input particle its parent names
   (false before /repo commit d9796b9: C07_Regress.C07p_old_parent_is_source_refuted) *)
Theorem C07p_copy (S : SOps) {P} (init : nat -> list P) ratio (ps : list P) lw u1 :
  length lw = length ps -> (0 < length ps)%nat ->
  length (init (num_prior S (length ps) ratio)) = num_prior S (length ps) ratio ->
  forall j d, (j < length ps - num_prior S (length ps) ratio)%nat ->
  nth (num_prior S (length ps) ratio + j) (pparts (fst (@resample_prior S P init ratio ps lw u1))) d
  = nth (Z.to_nat (nth (num_prior S (length ps) ratio + j) (snd (@resample_prior S P init ratio ps lw u1)) 0%Z)) ps d.
Proof. exact (prior_copy S init ratio ps lw u1). Qed.

(* ... member by member when the particles are (state, mean, covariance) records *)
Theorem C07p_copy_members (S : SOps) {A B C} (init : nat -> list (particle A B C)) ratio (ps : list (particle A B C)) lw u1 :
  length lw = length ps -> (0 < length ps)%nat ->
  length (init (num_prior S (length ps) ratio)) = num_prior S (length ps) ratio ->
  forall j d, (j < length ps - num_prior S (length ps) ratio)%nat ->
  let o := nth (num_prior S (length ps) ratio + j) (pparts (fst (@resample_prior S _ init ratio ps lw u1))) d in
  let p := nth (Z.to_nat (nth (num_prior S (length ps) ratio + j) (snd (@resample_prior S _ init ratio ps lw u1)) 0%Z)) ps d in
  p_state o = p_state p /\ p_mean o = p_mean p /\ p_cov o = p_cov p.
Proof. exact (prior_copy_members S init ratio ps lw u1). Qed.

(* the reported parent of resampled particle j, exactly: the original index found at position
   num_prior + (position selected among the kept ones) of the sorted order *)
Theorem C07p_parent_exact (S : SOps) {P} (init : nat -> list P) ratio (ps : list P) lw u1 :
  length lw = length ps -> (0 < length ps)%nat ->
  length (init (num_prior S (length ps) ratio)) = num_prior S (length ps) ratio ->
  forall j, (j < length ps - num_prior S (length ps) ratio)%nat ->
  nth (num_prior S (length ps) ratio + j) (snd (@resample_prior S P init ratio ps lw u1)) 0%Z
  = Z.of_nat (nth (num_prior S (length ps) ratio + nth j (rpar S ratio ps lw u1) 0%nat) (sort_idx S (map (sexp S) lw)) 0%nat)
  /\ (num_prior S (length ps) ratio + nth j (rpar S ratio ps lw u1) 0 < length ps)%nat
  /\ (nth (num_prior S (length ps) ratio + nth j (rpar S ratio ps lw u1) 0%nat) (sort_idx S (map (sexp S) lw)) 0 < length ps)%nat.
Proof. exact (prior_parents_right S init ratio ps lw u1). Qed.

(* the first num_prior particles of the returned set are exactly what the initialiser produced *)
Theorem C07p_fresh_left (S : SOps) {P} (init : nat -> list P) ratio (ps : list P) lw u1 :
  length (init (num_prior S (length ps) ratio)) = num_prior S (length ps) ratio ->
  firstn (num_prior S (length ps) ratio) (pparts (fst (@resample_prior S P init ratio ps lw u1)))
  = init (num_prior S (length ps) ratio).
Proof. exact (prior_fresh_left S init ratio ps lw u1). Qed.

Theorem C07p_uniform (S : SOps) {P} (init : nat -> list P) ratio (ps : list P) lw u1 :
  length lw = length ps -> (0 < length ps)%nat ->
  length (init (num_prior S (length ps) ratio)) = num_prior S (length ps) ratio ->
  plw (fst (@resample_prior S P init ratio ps lw u1)) = repeat (log_uniform S (length ps)) (length ps).
Proof. exact (prior_uniform S init ratio ps lw u1). Qed.

(* the returned set reports N components and stores N particles, N weights, N parents
   (false before /repo commit 7c71916, where operator+= left the component count of the left operand) *)
Theorem C07p_reports_N (S : SOps) {P} (init : nat -> list P) ratio (ps : list P) lw u1 :
  length lw = length ps -> (0 < length ps)%nat ->
  length (init (num_prior S (length ps) ratio)) = num_prior S (length ps) ratio ->
  let r := fst (@resample_prior S P init ratio ps lw u1) in
  pcount r = length ps /\ length (pparts r) = length ps /\ length (plw r) = length ps /\
  length (snd (@resample_prior S P init ratio ps lw u1)) = length ps.
Proof. exact (prior_reports_N S init ratio ps lw u1). Qed.

(* the resampled part obeys the count bound with respect to the renormalised kept weights
   (tmp_lw = kept log-weights minus their log-sum-exp; rpar = positions selected among the kept ones) *)
Theorem C07p_count_bound {P} (ratio : R) (ps : list P) (lw : list R) (u1 : R) :
  let tl : list R := tmp_lw ROps ratio ps lw in
  (0 < length tl)%nat -> 0 < u1 -> u1 * INR (length tl) < 1 ->
  (sumR (map exp tl) = 1) /\
  (forall i, (i < length tl)%nat ->
   Rabs (INR (count_occ Nat.eq_dec (rpar ROps ratio ps lw u1) i) - INR (length tl) * exp (nth i tl 0)) < 1).
Proof. exact (prior_count_bound ratio ps lw u1). Qed.

(* ---- the partition of the prior variant as a relation (exact ties at the split included) ----
   replaced_set = the first floor(ratio N) indices of the model's sorted order (never copied: replaced by prior draws),
   survivor_set = the remaining ones (tmp_particles, resampled); both are built from the functions the extracted
   model runs (sort_idx, num_prior). *)

(* for EVERY input: floor(ratio N) particles are replaced; replaced + survivors enumerate 0..N-1 without duplicates;
   every replaced particle's weight is <= every survivor's weight; hence a particle strictly heavier than some
   survivor is a survivor, and one strictly lighter than some replaced particle is replaced *)
Theorem C07p_partition_relational (e : R -> R) (lw : list R) (ratio : R) :
  (0 < length lw)%nat -> 0 <= ratio < 1 ->
  let N := length lw in
  let k := num_prior (ROpsE e) N ratio in
  let Rs := replaced_set (ROpsE e) ratio lw in
  let Ks := survivor_set (ROpsE e) ratio lw in
  let w := fun i => e (nth i lw 0) in
  (INR k <= INR N * ratio < INR k + 1) /\ (k < N)%nat /\
  length Rs = k /\ length Ks = (N - k)%nat /\
  Permutation (Rs ++ Ks) (seq 0 N) /\ NoDup (Rs ++ Ks) /\
  (forall r s, In r Rs -> In s Ks -> w r <= w s) /\
  (forall i, (i < N)%nat -> (exists s, In s Ks /\ w s < w i) -> In i Ks /\ ~ In i Rs) /\
  (forall i, (i < N)%nat -> (exists r, In r Rs /\ w i < w r) -> In i Rs /\ ~ In i Ks).
Proof. exact (partition_relational_R e lw ratio). Qed.

(* the same at every arithmetic whose <= is total and transitive (what std::sort requires of its comparison;
   true of the reals and of doubles without NaN): the structural part does not depend on the reals *)
Theorem C07p_partition_total_order (S : SOps) (ratio : T S) (lw : list (T S)) :
  (forall a b : T S, sleb S a b = true \/ sleb S b a = true) ->
  (forall a b c : T S, sleb S a b = true -> sleb S b c = true -> sleb S a c = true) ->
  let N := length lw in
  let k := num_prior S N ratio in
  let Rs := replaced_set S ratio lw in
  let Ks := survivor_set S ratio lw in
  length Rs = k /\ length Ks = (N - k)%nat /\
  Permutation (Rs ++ Ks) (seq 0 N) /\ NoDup (Rs ++ Ks) /\
  (forall r s, In r Rs -> In s Ks -> sleb S (wt S lw r) (wt S lw s) = true).
Proof. intros H1 H2. exact (partition_g S H1 H2 ratio lw). Qed.

(* ANY admissible choice among exact ties (R', K': a duplicate-free split of 0..N-1 with floor(ratio N) replaced
   particles, none heavier than a survivor) replaces every particle lighter than the (k+1)-th smallest weight t and
   keeps every particle heavier than t: only the particles tied at t are free.  This is the clause the oracle of
   props/C07.py decides on the implementation's output (partition_clause). *)
Theorem C07p_ties_any_choice (e : R -> R) (lw : list R) (ratio : R) (R' K' : list nat) :
  (0 < length lw)%nat -> 0 <= ratio < 1 ->
  let N := length lw in
  let k := num_prior (ROpsE e) N ratio in
  let w := fun i => e (nth i lw 0) in
  let t := w (nth k (sort_idx (ROpsE e) (map e lw)) 0%nat) in
  Permutation (R' ++ K') (seq 0 N) -> length R' = k ->
  (forall r s, In r R' -> In s K' -> w r <= w s) ->
  forall i, (i < N)%nat ->
    (w i < t -> In i R' /\ ~ In i K') /\ (t < w i -> In i K' /\ ~ In i R').
Proof. exact (admissible_forced_R e lw ratio R' K'). Qed.

(* every parent the prior variant reports for a resampled particle is a survivor, never a replaced particle *)
Theorem C07p_parents_survive (S : SOps) {P} (init : nat -> list P) ratio (ps : list P) lw u1 :
  length lw = length ps -> (0 < length ps)%nat ->
  length (init (num_prior S (length ps) ratio)) = num_prior S (length ps) ratio ->
  forall j, (j < length ps - num_prior S (length ps) ratio)%nat ->
  exists p, nth (num_prior S (length ps) ratio + j) (snd (@resample_prior S P init ratio ps lw u1)) 0%Z = Z.of_nat p
            /\ In p (survivor_set S ratio lw) /\ ~ In p (replaced_set S ratio lw).
Proof. exact (parents_survive S init ratio ps lw u1). Qed.

(* ---- the hypotheses are satisfiable; the executable model on exact rationals ---- *)

Example C07_hypotheses_satisfiable :
  let lw := [ln (3 / 4); ln (/ 4)] in let u1 := / 4 in
  (0 < length lw)%nat /\ sumR (map exp lw) = 1 /\ 0 < u1 /\ u1 * INR (length lw) < 1 /\
  exp (nth 0 lw 0) <> exp (nth 1 lw 0).
Proof.
  simpl. rewrite !exp_ln by lra. repeat split; try lra; auto.
Qed.

(* QOps has sexp = identity: the list below is the weight vector itself.
   N = 4, w = (1/2, 0, 1/8, 3/8), u1 = 1/5: comb 1/5, 9/20, 7/10, 19/20 -> parents 0 0 3 3;
   and the u1 = 0 boundary witness w = (1/2, 1/2): parents 0 0. *)
(* "up to rounding of the cumulative weights": when the weights sum to less than the last comb point the guard
   idx < N-1 hands the surplus to the LAST particle, even if its weight is zero (sum 99/100, u1 = 33/100, u_2 = 299/300),
   and at the excluded boundary u1 = 0 a zero-weight FIRST particle is selected *)
Example C07_rounding_surplus_Q :
  res_parents QOps [1#2; 49#100; 0]%Q (33#100)%Q = [0; 1; 2]%nat /\
  res_parents QOps [0; 1]%Q 0%Q = [0; 1]%nat.
Proof. vm_compute. split; reflexivity. Qed.

Example C07_concrete_Q :
  res_parents QOps [1#2; 0; 1#8; 3#8]%Q (1#5)%Q = [0; 0; 3; 3]%nat /\
  res_parents QOps [1#2; 1#2]%Q 0%Q = [0; 0]%nat /\
  fst (fst (resample [10; 11; 12; 13]%nat ([1#2; 0; 1#8; 3#8]%Q : list (T QOps)) (1#5)%Q)) = [10; 10; 13; 13]%nat.
Proof. vm_compute. repeat split. Qed.

(* cumulative weights that fall short of the last comb point (sum 99/100, last weight 0: the situation of
   C07_rounding_surplus_Q): the hypotheses of C07_count_bound_cumulative hold, the clamped list ends in 1 *)
Example C07_cumulative_hypotheses_satisfiable :
  let c := [/ 2; 99 / 100; 99 / 100] in let u1 := 33 / 100 in
  chain 0 c /\ clamp c = [/ 2; 99 / 100; 1] /\ 0 < u1 /\ u1 * INR (length c) < 1.
Proof.
  simpl. repeat split; try lra.
  unfold Rmin. destruct (Rle_dec (/ 2) 1); [|lra]. destruct (Rle_dec (99 / 100) 1); [reflexivity | lra].
Qed.

(* exact ties STRADDLING the split (QOps: sexp = identity, the lists are the weights; N = 8, ratio 1/4: 2 replaced).
   a) six particles tied at 1/10 followed by two heavier ones: two of the tied are replaced, both heavy ones survive;
   b) four exact zeros first, the heavy particles at the highest indices: two zeros replaced, all heavy ones survive,
      and resampling the survivors (weights 0 0 1/10 2/10 3/10 4/10, u1 = 1/12) selects 4 5 6 6 7 7;
   c) the same weights with the heavy ones first. *)
Example C07p_ties_straddle_Q :
  let r := (1#4)%Q in
  let a := [1#10; 1#10; 1#10; 1#10; 1#10; 1#10; 2#10; 2#10]%Q in
  let b := [0; 0; 0; 0; 1#10; 2#10; 3#10; 4#10]%Q in
  let c := [4#10; 3#10; 2#10; 1#10; 0; 0; 0; 0]%Q in
  num_prior QOps 8 r = 2%nat /\
  replaced_set QOps r a = [0; 1]%nat /\ survivor_set QOps r a = [2; 3; 4; 5; 6; 7]%nat /\
  replaced_set QOps r b = [0; 1]%nat /\ survivor_set QOps r b = [2; 3; 4; 5; 6; 7]%nat /\
  map (fun p => nth p (survivor_set QOps r b) 0%nat)
      (res_parents QOps (map (fun i => nth i b 0%Q) (survivor_set QOps r b)) (1#12)%Q) = [4; 5; 6; 6; 7; 7]%nat /\
  replaced_set QOps r c = [4; 5]%nat /\ survivor_set QOps r c = [6; 7; 3; 2; 1; 0]%nat.
Proof. vm_compute. repeat split; reflexivity. Qed.

Print Assumptions C07_advance_fuel.
Print Assumptions C07_length.
Print Assumptions C07_copy.
Print Assumptions C07_copy_members.
Print Assumptions C07_parents_sorted.
Print Assumptions C07_parents_in_range.
Print Assumptions C07_uniform_weights.
Print Assumptions C07_selection_interval.
Print Assumptions C07_count_bound.
Print Assumptions C07_count_bound_exp.
Print Assumptions C07_zero_weight_not_selected.
Print Assumptions C07_heavy_selected.
Print Assumptions C07_u1_zero_boundary_refuted.
Print Assumptions C07_neff_formula.
Print Assumptions C07_neff_range.
Print Assumptions C07_lse_spec.
Print Assumptions C07_lse_normalises.
Print Assumptions C07_count_bound_cumulative.
Print Assumptions C07_count_bound_rounded.
Print Assumptions C07p_num_prior.
Print Assumptions C07p_partition.
Print Assumptions C07p_parents.
Print Assumptions C07p_copy.
Print Assumptions C07p_copy_members.
Print Assumptions C07p_parent_exact.
Print Assumptions C07p_fresh_left.
Print Assumptions C07p_uniform.
Print Assumptions C07p_reports_N.
Print Assumptions C07p_count_bound.
Print Assumptions C07p_partition_relational.
Print Assumptions C07p_partition_total_order.
Print Assumptions C07p_ties_any_choice.
Print Assumptions C07p_parents_survive.
