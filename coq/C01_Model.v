(* C01_Model.v — model of KFCorrection::correctStep / getLikelihood
   (KFCorrection.cpp:31-118) over a LinearMeasurementModel
   (LinearMeasurementModel.cpp:17-29).  Polymorphic in the arithmetic.
   The validity-flag prefix of correctStep is in C12_Model. *)
Require Import ZArith List.
Require Import BFL.Ops BFL.Density.
Import ListNotations.

Section KF.
Variable O : MatOps.
Notation S := (sc O).

(* one Gaussian component at algorithm level (C11 ties this view to the
   concatenated Eigen storage) *)
Record gcomp (n : nat) := mkGcomp { gmean : M O n 1; gcov : M O n n }.
Arguments mkGcomp {n}. Arguments gmean {n}. Arguments gcov {n}.

(* LinearMeasurementModel::predictedMeasure: H * cur_states (column i) *)
Definition lin_predicted {m n} (H : M O m n) (x : M O n 1) : M O m 1 := mmul H x.
(* LinearMeasurementModel::innovation: -(pred.colwise() - meas.col(0)) *)
Definition lin_innovation {m} (pred y : M O m 1) : M O m 1 := mopp (msub pred y).

(* body of the per-component loop, KFCorrection.cpp:101-117 *)
Definition kf_correct_comp {n m} (P : M O n n) (x : M O n 1) (H : M O m n) (R : M O m m)
           (nu : M O m 1) : M O n 1 * M O n n * M O m m :=
  let Py := madd (mmul (mmul H P) (mtr H)) R in
  let K := mmul (mmul P (mtr H)) (minv Py) in
  (madd x (mmul K nu), msub P (mmul (mmul K Py) (mtr K)), Py).

Record kf_out (n m : nat) := mkKfOut {
  ko_comp : gcomp n;            (* corrected mean and covariance *)
  ko_innov : M O m 1;           (* innovations_.col(i) *)
  ko_Py : M O m m               (* meas_covariances_.covariance(i) *)
}.
Arguments mkKfOut {n m}. Arguments ko_comp {n m}. Arguments ko_innov {n m}. Arguments ko_Py {n m}.

Definition kf_correct_one {n m} (H : M O m n) (R : M O m m) (y : M O m 1) (c : gcomp n)
  : kf_out n m :=
  let nu := lin_innovation (lin_predicted H (gmean c)) y in
  let '(x', P', Py) := kf_correct_comp (gcov c) (gmean c) H R nu in
  mkKfOut (mkGcomp x' P') nu Py.

(* the whole mixture: components are processed independently, in order *)
Definition kf_correct {n m} (H : M O m n) (R : M O m m) (y : M O m 1) (cs : list (gcomp n))
  : list (kf_out n m) := map (kf_correct_one H R y) cs.

(* KFCorrection::getLikelihood, entry i *)
Definition kf_likelihood {n m} (o : kf_out n m) : T S :=
  density (ko_innov o) (mzero m 1) (ko_Py o).

(* spec-level posterior used by the violation search: information form *)
Definition info_posterior {n m} (H : M O m n) (R : M O m m) (y : M O m 1) (c : gcomp n)
  : gcomp n :=
  let Pi := minv (gcov c) in
  let Ri := minv R in
  let Pp := minv (madd Pi (mmul (mmul (mtr H) Ri) H)) in
  mkGcomp (mmul Pp (madd (mmul Pi (gmean c)) (mmul (mmul (mtr H) Ri) y))) Pp.
End KF.
Arguments mkGcomp {_ n}. Arguments gmean {_ n}. Arguments gcov {_ n}.
Arguments mkKfOut {_ n m}. Arguments ko_comp {_ n m}. Arguments ko_innov {_ n m}. Arguments ko_Py {_ n m}.
Arguments kf_correct_comp {_ n m}. Arguments kf_correct_one {_ n m}. Arguments kf_correct {_ n m}.
Arguments kf_likelihood {_ n m}. Arguments info_posterior {_ n m}.
Arguments lin_predicted {_ m n}. Arguments lin_innovation {_ m}.
