(* C04_Model.v — model of the unscented Kalman steps:
     UKFPrediction ctor weights / predictStep   (UKFPrediction.cpp:15-38, 78-101)
     GaussianPrediction::predict                (GaussianPrediction.cpp:18-24)
     AdditiveStateModel::getInputDescription    (AdditiveStateModel.cpp:22-28)
     UKFCorrection ctor weights / correctStep / getLikelihood (UKFCorrection.cpp:16-47, 71-167)
   on top of the unscented-transform model C03_Model; the Kalman steps they are
   compared with are C01_Model (kf_correct_one, kf_likelihood) and C02_Model
   (kf_predict_cov).  Polymorphic in the arithmetic.  Output objects are
   in-out: the correction writes mean(i) / covariance(i) of an existing object. *)
Require Import ZArith List Bool Arith.
Require Import BFL.Ops BFL.Density BFL.C01_Model BFL.C03_Model.
Import ListNotations.
Local Open Scope bool_scope.

Section UKF.
Variable O : MatOps.
Notation S := (sc O).
Notation t := (T (sc O)).

(* a Gaussian mixture at algorithm level: layout, components, weights *)
Record mixture (d dc : nat) := mkMix {
  mx_layout : layout;
  mx_comps : list (M O d 1 * M O dc dc);
  mx_weights : list t
}.
Arguments mkMix {d dc}. Arguments mx_layout {d dc}. Arguments mx_comps {d dc}. Arguments mx_weights {d dc}.

(* the mixture a transform hands back: layout of the function's output
   description, uniform weights *)
Definition mix_of_result (Lout : layout) {p pc dx} (r : ut_result O p pc dx) : mixture p pc :=
  mkMix Lout (map (fun u => (uc_mean u, uc_cov u)) (ur_comps r)) (ur_weights r).

(* F * cur_states, column by column (LinearStateModel::propagate without exogenous
   input, LinearMeasurementModel::predictedMeasure, and the harness models) *)
Definition linear_cols {d p} (A : M O p d) (X : list (M O d 1)) : list (M O p 1) :=
  map (fun x => mmul A x) X.

(* AdditiveStateModel::getInputDescription: state description + noise rows *)
Definition additive_input_description (Lstate : layout) (q : nat) : layout := l_add_noise Lstate q.

(* ------------------------------------------------------------------ *)
(* prediction                                                          *)
(* additive constructor: weights from getInputDescription().noiseless_description();
   predictStep: pred = UT(prev, w, additive model); skip flags: GaussianPrediction::skip_
   and StateModel::is_skipping both hand back the previous belief *)
Definition ukf_predict_additive {n} (Lstate : layout) (alpha beta kappa : t) (skip_pred skip_state : bool)
           (propagate : list (M O n 1) -> list (M O n 1)) (Q : M O n n) (q : nat)
           (prev : mixture n n) : mixture n n :=
  if skip_pred || skip_state then prev
  else
    let w := ut_weights_of (l_noiseless (additive_input_description Lstate q)) alpha beta kappa in
    mix_of_result (l_noiseless Lstate)
      (ut_additive_state (mx_layout prev) (l_noiseless Lstate) n n w (mx_comps prev) propagate Q).

(* generic constructor: weights from getInputDescription() (noise rows included);
   predictStep: the previous belief is augmented with the process noise statistics *)
Definition ukf_predict_generic {n q} (Ldesc Lstate : layout) (alpha beta kappa : t) (skip_pred skip_state : bool)
           (motion : list (M O (n + q) 1) -> list (M O n 1)) (Q : M O q q)
           (prev : mixture n n) : mixture n n :=
  if skip_pred || skip_state then prev
  else
    let w := ut_weights_of Ldesc alpha beta kappa in
    mix_of_result (l_noiseless Lstate)
      (ut_state (l_add_noise (mx_layout prev) q) (l_noiseless Lstate) n n w
                (map (augment_comp Q) (mx_comps prev)) motion).

(* ------------------------------------------------------------------ *)
(* correction                                                          *)
(* member state kept for getLikelihood: innovations_ (columns) and predicted_meas_ covariances *)
Record ukf_state (m : nat) := mkUkfState { us_innov : list (M O m 1); us_Pyy : list (M O m m) }.
Arguments mkUkfState {m}. Arguments us_innov {m}. Arguments us_Pyy {m}.

(* the cross-covariance matrix as stored: component i in columns [pc*i, pc*(i+1)) *)
Definition cross_storage {dx pc} (crosses : list (M O dx pc)) : M O dx (pc * length crosses) :=
  mbuild dx (pc * length crosses)
         (fun r c => mget (nth (c / pc) crosses (mzero dx pc)) r (c mod pc)).

(* K = Pxy.middleCols(meas_cov_size * i, meas_cov_size) * Pyy_i^{-1} with
   meas_cov_size = predicted_meas_.dim_covariance: offset and width of the slice are the
   covariance size of the transformed (predicted-measurement) mixture.  The width is the
   type index pc of Pyy_i; the caller passes the same number as [meas_cov_size]. *)
Definition ukf_gain {dx pc k} (Pxy : M O dx (pc * k)) (meas_cov_size i : nat) (Pyy : M O pc pc) : M O dx pc :=
  mmul (mslice 0 (meas_cov_size * i) dx pc Pxy) (minv Pyy).

(* body of the component loop, UKFCorrection.cpp:153-166, as one C01 output record *)
Definition ukf_correct_comp {n m k} (Pxy : M O n (m * k)) (meas_cov_size i : nat)
           (xP : M O n 1 * M O n n) (Pyy : M O m m) (nu : M O m 1) : kf_out O n m :=
  let K := ukf_gain Pxy meas_cov_size i Pyy in
  mkKfOut (mkGcomp (madd (fst xP) (mmul K nu))
                   (msub (snd xP) (mmul (mmul K Pyy) (mtr K))))
          nu Pyy.

Definition ukf_correct_loop {n m} (meas_cov_size : nat) (pred : list (M O n 1 * M O n n))
           (r : ut_result O m m n) (nus : list (M O m 1)) : list (kf_out O n m) :=
  let Pxy := cross_storage (map (fun u => uc_cross u) (ur_comps r)) in
  map (fun q : nat * ((M O n 1 * M O n n) * (ut_comp O m m n * M O m 1)) =>
         ukf_correct_comp Pxy meas_cov_size (fst q) (fst (snd q)) (uc_cov (fst (snd (snd q)))) (snd (snd (snd q))))
      (combine (seq 0 (length pred)) (combine pred (combine (ur_comps r) nus))).

(* "corr.mean(i) = ..., corr.covariance(i) = ..." on an object that already holds [old] *)
Definition overwrite_prefix {A} (new old : list A) : list A := new ++ skipn (length new) old.

(* the tail of correctStep shared by both constructors: [ut] is the outcome of the
   transform through the measurement model (None: invalid).  correctStep starts by
   emptying innovations_ (no likelihood until this correction has used a measurement);
   [st_old] is kept as an argument only to show that nothing else of it survives. *)
Definition ukf_correct_finish {n m} (meas_cov_size : nat) (y : M O m 1)
           (innovation : list (M O m 1) -> M O m 1 -> option (list (M O m 1)))
           (ut : option (ut_result O m m n))
           (pred corr_old : mixture n n) (st_old : ukf_state m)
  : mixture n n * ukf_state m * list (kf_out O n m) :=
  match ut with
  | None => (pred, mkUkfState [] [], [])      (* predicted_meas_ was overwritten by the default mixture *)
  | Some r =>
      let Pyy := map (fun u => uc_cov u) (ur_comps r) in
      match innovation (map (fun u => uc_mean u) (ur_comps r)) y with
      | None => (pred, mkUkfState [] Pyy, [])
      | Some nus =>
          let outs := ukf_correct_loop meas_cov_size (mx_comps pred) r nus in
          (mkMix (mx_layout corr_old)
                 (overwrite_prefix (map (fun o => (gmean (ko_comp o), gcov (ko_comp o))) outs) (mx_comps corr_old))
                 (mx_weights corr_old),
           mkUkfState nus Pyy, outs)
      end
  end.

(* additive constructor: weights from getInputDescription().noiseless_description().
   predicted_meas_ is built from the linear / circular components of the measurement
   description (its noise components are dropped), so predicted_meas_.dim_covariance is
   l_dcov (l_noiseless Lmeas) *)
Definition ukf_correct_additive {n m} (Ldesc Lmeas : layout) (alpha beta kappa : t) (skip : bool)
           (measure : option (M O m 1))
           (predicted : list (M O n 1) -> option (list (M O m 1)))
           (innovation : list (M O m 1) -> M O m 1 -> option (list (M O m 1)))
           (R : M O m m) (pred corr_old : mixture n n) (st_old : ukf_state m)
  : mixture n n * ukf_state m * list (kf_out O n m) :=
  if skip then (pred, st_old, [])             (* GaussianCorrection::correct: correctStep is not entered *)
  else match measure with
  | None => (pred, mkUkfState [] (us_Pyy st_old), [])   (* correctStep starts with innovations_.resize(0, 0) *)
  | Some y =>
      let w := ut_weights_of (l_noiseless Ldesc) alpha beta kappa in
      ukf_correct_finish (l_dcov (l_noiseless Lmeas)) y innovation
        (ut_additive_meas (mx_layout pred) (l_noiseless Lmeas) m n w (mx_comps pred) predicted R)
        pred corr_old st_old
  end.

(* generic constructor: weights from getInputDescription(); the predicted belief is
   augmented with the measurement noise statistics *)
Definition ukf_correct_generic {n q m} (Ldesc Lmeas : layout) (alpha beta kappa : t) (skip : bool)
           (measure : option (M O m 1))
           (predicted : list (M O (n + q) 1) -> option (list (M O m 1)))
           (innovation : list (M O m 1) -> M O m 1 -> option (list (M O m 1)))
           (Rv : M O q q) (pred corr_old : mixture n n) (st_old : ukf_state m)
  : mixture n n * ukf_state m * list (kf_out O n m) :=
  if skip then (pred, st_old, [])             (* GaussianCorrection::correct: correctStep is not entered *)
  else match measure with
  | None => (pred, mkUkfState [] (us_Pyy st_old), [])   (* correctStep starts with innovations_.resize(0, 0) *)
  | Some y =>
      let w := ut_weights_of Ldesc alpha beta kappa in
      ukf_correct_finish (l_dcov (l_noiseless Lmeas)) y innovation
        (ut_meas (l_add_noise (mx_layout pred) q) (l_noiseless Lmeas) m n w
                 (map (augment_comp Rv) (mx_comps pred)) predicted)
        pred corr_old st_old
  end.

(* UKFCorrection::getLikelihood *)
Definition ukf_likelihood {m} (st : ukf_state m) : option (list t) :=
  match us_innov st with
  | [] => None
  | _ => Some (map (fun p => density (fst p) (mzero m 1) (snd p)) (combine (us_innov st) (us_Pyy st)))
  end.

(* LinearMeasurementModel::innovation on all columns *)
Definition lin_innovation_cols {m} (preds : list (M O m 1)) (y : M O m 1) : option (list (M O m 1)) :=
  Some (map (fun yp => lin_innovation yp y) preds).

(* ------------------------------------------------------------------ *)
(* the Kalman steps of the implementation, component by component (spec side) *)
Definition kf_predict_comp {n} (F Q : M O n n) (xP : M O n 1 * M O n n) : M O n 1 * M O n n :=
  (mmul F (fst xP), madd (mmul (mmul F (snd xP)) (mtr F)) Q).
End UKF.

Arguments mkMix {_ d dc}. Arguments mx_layout {_ d dc}. Arguments mx_comps {_ d dc}. Arguments mx_weights {_ d dc}.
Arguments mix_of_result {_} Lout {p pc dx}. Arguments linear_cols {_ d p}.
Arguments ukf_predict_additive {_ n}. Arguments ukf_predict_generic {_ n q}.
Arguments mkUkfState {_ m}. Arguments us_innov {_ m}. Arguments us_Pyy {_ m}.
Arguments cross_storage {_ dx pc}. Arguments ukf_gain {_ dx pc k}. Arguments ukf_correct_comp {_ n m k}.
Arguments ukf_correct_loop {_ n m}. Arguments overwrite_prefix {A}. Arguments ukf_correct_finish {_ n m}.
Arguments ukf_correct_additive {_ n m}. Arguments ukf_correct_generic {_ n q m}.
Arguments ukf_likelihood {_ m}. Arguments lin_innovation_cols {_ m}. Arguments kf_predict_comp {_ n}.
