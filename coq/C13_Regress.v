(* C13_Regress.v — the transcription of the skip dispatch as it was BEFORE
   "fix: skip commands no longer throw when no exogenous model is attached"
   (snapshot 00682bb), kept so that a reintroduction of the defect is
   recognised.  Not used by any property theorem. *)
Require Import List Bool.
Require Import BFL.C13_Model.
Import ListNotations.
Local Open Scope bool_scope.

(* StateModel::skip called exogenous_model() unconditionally *)
Definition sm_skip_old (w : name) (b : bool) (f : flags) : res * flags :=
  match w with
  | NState => (Ok true, set_state b f)
  | NExogenous =>
      match exo_model f with
      | None => (Throws, f)
      | Some e => (Ok true, set_exo (snd (exo_skip w b e)) f)
      end
  | _ => (Ok false, f)
  end.

Definition pred_skip_old (w : name) (b : bool) (f : flags) : res * flags :=
  match w with
  | NPrediction =>
      bind (sm_skip_old NState b (set_pred b f)) (fun _ f2 =>
      bind (sm_skip_old NExogenous b f2) (fun _ f3 => (Ok true, f3)))
  | NState =>
      bind (sm_skip_old NState b f) (fun _ f1 =>
        match exo_model f1 with
        | None => (Throws, f1)
        | Some e => (Ok true, set_pred (f_state f1 && e) f1)
        end)
  | NExogenous =>
      bind (sm_skip_old NExogenous b f) (fun _ f1 =>
        match exo_model f1 with
        | None => (Throws, f1)
        | Some e => (Ok true, set_pred (f_state f1 && e) f1)
        end)
  | _ => (Ok false, f)
  end.

Definition filter_skip_old (w : name) (b : bool) (f : flags) : res * flags :=
  match w with
  | NPrediction | NState | NExogenous => pred_skip_old w b f
  | NCorrection => corr_skip b f
  | NAll =>
      bind (pred_skip_old NPrediction b f) (fun r1 f1 =>
      bind (corr_skip b f1) (fun r2 f2 => (Ok (true && r1 && r2), f2)))
  | NOther => (Ok false, f)
  end.

(* without exogenous model every prediction-related command threw, leaving the
   flags half updated ("prediction on": prediction and state flags set) *)
Lemma old_known_names_nothrow_refuted :
  filter_skip_old NPrediction true (init false) = (Throws, mkFlags true false true None false) /\
  fst (filter_skip_old NState true (init false)) = Throws /\
  fst (filter_skip_old NAll false (init false)) = Throws /\
  fst (filter_skip_old NExogenous true (init false)) = Throws.
Proof. repeat split. Qed.

(* with an exogenous model the old and the repaired dispatch agree *)
Lemma old_agrees_with_model w b f e : f_exo f = Some e -> filter_skip_old w b f = filter_skip w b f.
Proof. destruct f as [p i s x c]; simpl; intros ->; destruct w; reflexivity. Qed.

(* ---- DrawParticles(state_model, exogenous_model) as it was before
   "fix: DrawParticles attaches the exogenous model it is constructed with": the constructor only stored the
   model in a member nothing reads, so the state model stayed without exogenous model. ---- *)
Definition init_of_old (a : assembly) : flags :=
  match a with
  | ViaStateModel have => init have
  | ViaDrawParticlesCtor => init false
  end.

(* "'exogenous' returns true on every configuration with an exogenous model" was false of that code:
   the command answered false, changed nothing, and propagate ignored the model *)
Lemma old_exogenous_supplied_true_refuted :
  exists (a : assembly) (b : bool),
    exo_supplied a = true /\ filter_skip NExogenous b (init_of_old a) = (Ok false, init_of_old a) /\
    prop_mode_of (init_of_old a) = MStateOnly.
Proof. exists ViaDrawParticlesCtor, true; repeat split. Qed.

