(* C13_Regress.v — the transcription of the skip dispatch as it was BEFORE
   "fix: skip commands no longer throw when no exogenous model is attached"
   (snapshot 00682bb), kept so that a reintroduction of the defect is
   recognised.  Not used by any property theorem. *)
Require Import List Bool.
Require Import BFL.C13_Model.
Import ListNotations.
Local Open Scope bool_scope.

(* The snapshot had none of the three tests of have_exogenous_model() in front of the partial
   accessor exogenous_model(): it is the instance "no guards" of the very definitions the
   property theorems are about (C13_Model.filter_skip_g). *)
Definition guards_snapshot := mkGuards false false false.
Definition sm_skip_old := sm_skip_g guards_snapshot.
Definition pred_skip_old := pred_skip_g guards_snapshot.
Definition filter_skip_old := filter_skip_g guards_snapshot.

(* without exogenous model every prediction-related command threw, leaving the
   flags half updated ("prediction on": prediction and state flags set) *)
Lemma old_known_names_nothrow_refuted :
  filter_skip_old NPrediction true (init false) = (Throws, mkFlags true false true None false) /\
  fst (filter_skip_old NState true (init false)) = Throws /\
  fst (filter_skip_old NAll false (init false)) = Throws /\
  fst (filter_skip_old NExogenous true (init false)) = Throws.
Proof. repeat split. Qed.

(* with an exogenous model the old and the repaired dispatch agree *)
Lemma old_agrees_with_model w b f e : f_exo f = Some e -> filter_skip_old w b f = filter_skip w b f.
Proof. destruct f as [p i s x c]; simpl; intros ->; destruct w; reflexivity. Qed.

(* the snapshot transcribed literally (StateModel::skip and the two branches of Prediction::skip
   calling exogenous_model() unconditionally) is that instance *)
Lemma old_instance_unfolded w b f :
  sm_skip_old w b f =
  match w with
  | NState => (Ok true, set_state b f)
  | NExogenous =>
      match exo_model f with
      | None => (Throws, f)
      | Some e => (Ok true, set_exo (snd (exo_skip w b e)) f)
      end
  | _ => (Ok false, f)
  end.
Proof. destruct w; reflexivity. Qed.

(* ---- DrawParticles(state_model, exogenous_model) as it was before
   "fix: DrawParticles attaches the exogenous model it is constructed with": the constructor only stored the
   model in a member nothing reads, so the state model stayed without exogenous model. ---- *)
Definition init_of_old (a : assembly) : flags :=
  match a with
  | ViaStateModel have => init have
  | ViaDrawParticlesCtor => init false
  end.

(* "'exogenous' returns true on every configuration with an exogenous model" was false of that code:
   the command answered false, changed nothing, and propagate ignored the model *)
Lemma old_exogenous_supplied_true_refuted :
  exists (a : assembly) (b : bool),
    exo_supplied a = true /\ filter_skip NExogenous b (init_of_old a) = (Ok false, init_of_old a) /\
    prop_mode_of (init_of_old a) = MStateOnly.
Proof. exists ViaDrawParticlesCtor, true; repeat split. Qed.

