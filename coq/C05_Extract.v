(* C05_Extract.v — executable entry points of the C05 model at the list instance,
   for the correspondence check.  ExtrOcamlBasic only.  The matrix square-root
   oracle (Eigen's SVD factor) is an argument: the driver supplies the factor
   the implementation used and the plug-in checks its contract A A^T = P. *)
Require Import ZArith List.
Require Import BFL.Ops BFL.ListOps BFL.Density BFL.C05_Model.
Require Import Extraction ExtrOcamlBasic.
Import ListNotations.

Definition c05_O (S : SOps) (sq : nat -> lmx S -> lmx S) : MatOps := ListMat S sq (fun _ A => A).

(* UTWeight(n, alpha, beta, kappa): (wm0, wmi, wc0, wci, c) *)
Definition c05_weights (S : SOps) (n : nat) (alpha beta kappa : T S)
  : T S * T S * T S * T S * T S :=
  let O := c05_O S (fun _ A => A) in
  let w := @ut_weights O n alpha beta kappa in (wm0 w, wmi w, wc0 w, wci w, utc w).

Definition c05_mix (S : SOps) (sq : nat -> lmx S -> lmx S) (n : nat)
           (g : list (lmx S * lmx S) * list (T S)) : mixture (c05_O S sq) n :=
  @mkMix (c05_O S sq) n (fst g) (snd g).

(* SUKFCorrection::correct followed by getLikelihood().  reduced = the constructor
   flag; R is what the measurement model returns (s x s if reduced, m x m otherwise);
   nl = number of leading linear rows of the state (the other n - nl rows are angles),
   ml = the same for the measurement description.
   Result: the output mixture (components, weights) and, if the step went through,
   per component (innovation, Y, likelihood). *)
Definition c05_sukf (S : SOps) (sq : nat -> lmx S -> lmx S) (n nl m ml s : nat)
           (kind : nat) (H G G2 b g y : lmx S) (reduced : bool) (R : lmx S)
           (alpha beta kappa : T S)
           (pred corr_prev : list (lmx S * lmx S) * list (T S))
  : (list (lmx S * lmx S) * list (T S)) * option (list (lmx S * lmx S * T S)) :=
  let O := c05_O S sq in
  let w := @ut_weights O n alpha beta kappa in
  let h := @h_family O n m kind H G G2 b g in
  let nz : noise O s m := if reduced then @NoiseReduced O s m R else @NoiseFull O s m R in
  let r := @sukf_correct O n m s nl ml w h y nz (c05_mix S sq n pred) (c05_mix S sq n corr_prev) in
  let lik := @sukf_likelihood O n m s nz (snd r) in
  ((mix_comps (fst r), mix_weights (fst r)),
   match snd r, lik with
   | Some outs, Some ls =>
       Some (map (fun ol : sukf_out O n m * T S => (so_innov (fst ol), so_Y (fst ol), snd ol))
                 (combine outs ls))
   | _, _ => None
   end).

(* spec: the standard additive unscented correction with the full noise covariance;
   per component (mean, covariance, innovation, Pyy, likelihood) *)
Definition c05_ukf (S : SOps) (sq : nat -> lmx S -> lmx S) (n nl m ml : nat)
           (kind : nat) (H G G2 b g y : lmx S) (Rfull : lmx S)
           (alpha beta kappa : T S) (pred : list (lmx S * lmx S))
  : list (lmx S * lmx S * lmx S * lmx S * T S) :=
  let O := c05_O S sq in
  let w := @ut_weights O n alpha beta kappa in
  let h := @h_family O n m kind H G G2 b g in
  map (fun c : lmx S * lmx S =>
         let o := @ukf_correct_comp_lay O n m nl ml w h y Rfull (fst c) (snd c) in
         (uo_mean o, uo_cov o, uo_innov o, uo_Pyy o, @ukf_likelihood_comp O n m o))
      pred.

Extraction "C05_model.ml" c05_weights c05_sukf c05_ukf.
