(* C18_Model.v — Gallina transcription of the quaternion utilities of
   src/BayesFilters/include/BayesFilters/utils.h (lines 98-284):
   quaternion_to_rotation_vector, rotation_vector_to_quaternion,
   sum_quaternion_rotation_vector, diff_quaternion, mean_quaternion,
   written against the scalar interface SOps.  A quaternion is (w, x, y, z)
   with w the real part; matrices of columns are lists.  No proofs here. *)
Require Import ZArith List.
Require Import BFL.Ops.
Import ListNotations.

Section Quaternion.
Variable S : SOps.
Notation t := (T S).

Record quat := mkQ { qw : t; qx : t; qy : t; qz : t }.
Record vec3 := mkV { vx : t; vy : t; vz : t }.

Definition add := sadd S.
Definition mul := smul S.

(* the literal 1e-4 of the code *)
Definition cutoff : t := srat S 1 10000.
Definition two : t := s2 S.

(* Eigen's norm(): sqrt of the sum of squares *)
Definition norm3 (v : vec3) : t :=
  ssqrt S (add (add (mul (vx v) (vx v)) (mul (vy v) (vy v))) (mul (vz v) (vz v))).

Definition vzero : vec3 := mkV (s0 S) (s0 S) (s0 S).
Definition qvec (q : quat) : vec3 := mkV (qx q) (qy q) (qz q).
(* (c * v) / n, the shape of both conversion formulas *)
Definition vscale_div (c : t) (v : vec3) (n : t) : vec3 :=
  mkV (sdiv S (mul c (vx v)) n) (sdiv S (mul c (vy v)) n) (sdiv S (mul c (vz v)) n).

(* utils.h:98-119, one column *)
Definition q_to_rv (q : quat) : vec3 :=
  let n := norm3 (qvec q) in
  if sltb S cutoff n then
    if sltb S (qw q) (s0 S)
    then vscale_div (mul (sopp S two) (sacos S (sopp S (qw q)))) (qvec q) n
    else vscale_div (mul two (sacos S (qw q))) (qvec q) n
  else vzero.

(* utils.h:138-158, one column *)
Definition rv_to_q (r : vec3) : quat :=
  let n := norm3 r in
  if sltb S cutoff n then
    let v := vscale_div (ssin S (sdiv S n two)) r n in
    mkQ (scos S (sdiv S n two)) (vx v) (vy v) (vz v)
  else mkQ (s1 S) (s0 S) (s0 S) (s0 S).

(* Eigen::Quaternion product (Hamilton) and conjugate *)
Definition sub := ssub S.
Definition qmul (a b : quat) : quat :=
  mkQ (sub (sub (sub (mul (qw a) (qw b)) (mul (qx a) (qx b))) (mul (qy a) (qy b))) (mul (qz a) (qz b)))
      (sub (add (add (mul (qw a) (qx b)) (mul (qx a) (qw b))) (mul (qy a) (qz b))) (mul (qz a) (qy b)))
      (sub (add (add (mul (qw a) (qy b)) (mul (qy a) (qw b))) (mul (qz a) (qx b))) (mul (qx a) (qz b)))
      (sub (add (add (mul (qw a) (qz b)) (mul (qz a) (qw b))) (mul (qx a) (qy b))) (mul (qy a) (qx b))).
Definition qconj (q : quat) : quat := mkQ (qw q) (sopp S (qx q)) (sopp S (qy q)) (sopp S (qz q)).

(* utils.h:182-202: column i is exp(r_i / 2) * q  (left / global-frame convention) *)
Definition qsum_one (q : quat) (r : vec3) : quat := qmul (rv_to_q r) q.
Definition qsum (q : quat) (rs : list vec3) : list quat := map (qsum_one q) rs.

(* utils.h:225-246: column i is 2 log(q_i * conj(q)) *)
Definition qdiff_one (ql qr : quat) : vec3 := q_to_rv (qmul ql (qconj qr)).
Definition qdiff (qls : list quat) (qr : quat) : list vec3 := map (fun ql => qdiff_one ql qr) qls.

(* utils.h:269-284: M = sum_i w_i q_i q_i^T as rows of a 4 x 4 matrix, accumulated from zero;
   the loop runs over weight.rows() *)
Definition qcomp (q : quat) (i : nat) : t :=
  match i with 0 => qw q | 1 => qx q | 2 => qy q | _ => qz q end.
Definition mat4 : Type := nat -> nat -> t.
Definition outer_acc (M : mat4) (wq : t * quat) : mat4 :=
  fun i j => add (M i j) (mul (mul (fst wq) (qcomp (snd wq) i)) (qcomp (snd wq) j)).
Definition outer_sum (w : list t) (qs : list quat) : mat4 :=
  fold_left outer_acc (combine w qs) (fun _ _ => s0 S).
Definition mat4_rows (M : mat4) : list (list t) :=
  map (fun i => map (fun j => M i j) [0; 1; 2; 3]%nat) [0; 1; 2; 3]%nat.

(* eig : the eigen-solver oracle: SelfAdjointEigenSolver of the accumulated matrix, maxCoeff on its
   eigenvalues (the FIRST index attaining the largest eigenvalue, the solver sorts them increasingly) and
   that column of eigenvectors().  (Until /repo commit "fix: mean_quaternion uses the self-adjoint eigen
   solver" the general EigenSolver was used, its info() unchecked, and the real part of a possibly complex
   eigenvector column was returned: not a unit vector on a repeated largest eigenvalue; the two inputs that
   showed it are corpus cases of props/C18.py.)  Which unit eigenvector of a repeated largest eigenvalue is
   returned is below the resolution of the contract used in the proofs; the zero matrix (weights 1/2, -1/2 on
   equal inputs, as in test_QuaternionUtils) gives (1, 0, 0, 0) in the library and in the driver's oracle. *)
Definition qmean (eig : list (list t) -> quat) (w : list t) (qs : list quat) : quat :=
  eig (mat4_rows (outer_sum w qs)).

End Quaternion.

Arguments mkQ {S} _ _ _ _.
Arguments mkV {S} _ _ _.
Arguments qw {S} _.
Arguments qx {S} _.
Arguments qy {S} _.
Arguments qz {S} _.
Arguments vx {S} _.
Arguments vy {S} _.
Arguments vz {S} _.
