(* C08_LDLT.v — the contract of C08_Model.ldlt_sqrt (the pivoted LDL^T square root used by
   GPFCorrection::sampleFromProposal) PROVED: over any realFieldType with a square-root function
   such that 0 <= x -> sq x * sq x = x, for a symmetric positive definite P the result A of
   ldlt_sqrt satisfies A *m A^T = P
     - at the MathComp instance (MxMat), which discharges the premise "L L^T = P" of the
       Mahalanobis theorems of Properties_C08.v, and
     - at the executed list instance (ListMat at the scalars of the field), for P represented by a
       well-formed list matrix (toM / wf of ListOpsCorrect.v).
   The pivoting (ldlt_perm: first largest |diagonal entry| of the ORIGINAL matrix at every step)
   is the executed one; nothing is assumed about it - it is proved to produce a permutation, and
   the factorisation is proved for every permutation.   Axiom-free. *)
Require Import ZArith List.
Require Import BFL.Ops BFL.ListOps BFL.C08_Model BFL.C08_LDLTDef.
From mathcomp Require Import all_ssreflect all_algebra.
From mathcomp Require Import ring.
Require Import BFL.MxOps BFL.LinAlg BFL.ListOpsCorrect.
Set Implicit Arguments.
Unset Strict Implicit.
Unset Printing Implicit Defensive.
Import Order.Theory GRing.Theory Num.Theory.
Local Open Scope ring_scope.

(* ------------------------------------------------------------------ *)
(* 1. The mathematics: the recurrences of the (unpivoted) LDL^T factorisation of a symmetric
      positive definite B have positive d_j and satisfy sum_k l_ik l_ck d_k = B_ic.
      Proof by induction over the Schur complements S^(j)_ic = B_ic - sum_{k<j} l_ik l_ck d_k,
      which stay positive definite on the vectors supported on the indices >= j. *)
Section Core.
Variable F : realFieldType.
Variable n : nat.
Variables (B l : nat -> nat -> F) (d : nat -> F).

Definition qfn (S : nat -> nat -> F) (x : nat -> F) : F :=
  \sum_(i < n) \sum_(c < n) x i * S i c * x c.
Definition schur (j i c : nat) : F := B i c - \sum_(k < j) l i k * l c k * d k.

Lemma schurS j i c : schur j.+1 i c = schur j i c - l i j * l c j * d j.
Proof. by rewrite /schur big_ord_recr /= opprD addrA. Qed.

Lemma qfn_rank1 (S : nat -> nat -> F) (u x : nat -> F) (e : F) :
  qfn (fun i c => S i c - u i * u c * e) x = qfn S x - e * (\sum_(c < n) u c * x c) ^+ 2.
Proof.
set t := \sum_(c < n) u c * x c.
rewrite /qfn.
have -> : \sum_(i < n) \sum_(c < n) x i * (S i c - u i * u c * e) * x c
        = \sum_(i < n) (\sum_(c < n) x i * S i c * x c - e * (u i * x i) * t).
  apply: eq_bigr => i _; rewrite /t mulr_sumr -sumrB; apply: eq_bigr => c _; ring.
rewrite sumrB; congr (_ - _).
rewrite -mulr_suml -mulr_sumr expr2 mulrA; congr (_ * _ * _).
Qed.

Lemma sum_delta (j : nat) (g : nat -> F) : (j < n)%N ->
  \sum_(i < n) (i == j :> nat)%:R * g i = g j.
Proof.
move=> jn; rewrite (bigD1 (Ordinal jn)) //= eqxx mul1r big1 ?addr0 // => i ij.
have -> : (i == j :> nat) = false by apply/negbTE; move: ij; rewrite -(inj_eq val_inj).
by rewrite mul0r.
Qed.

(* completing the square: shifting x along e_j *)
Lemma qfn_shift (S : nat -> nat -> F) (x : nat -> F) (j : nat) (t : F) : (j < n)%N ->
  qfn S (fun i => x i - t * (i == j :> nat)%:R) =
  qfn S x - t * (\sum_(c < n) S j c * x c) - t * (\sum_(i < n) x i * S i j) + t ^+ 2 * S j j.
Proof.
move=> jn; rewrite /qfn.
have -> : \sum_(i < n) \sum_(c < n) (x i - t * (i == j :> nat)%:R) * S i c * (x c - t * (c == j :> nat)%:R)
  = \sum_(i < n) (\sum_(c < n) x i * S i c * x c - t * (x i * S i j)
                  - (i == j :> nat)%:R * (t * (\sum_(c < n) S i c * x c) - t ^+ 2 * S i j)).
  apply: eq_bigr => i _.
  have -> : \sum_(c < n) (x i - t * (i == j :> nat)%:R) * S i c * (x c - t * (c == j :> nat)%:R)
    = \sum_(c < n) ((x i - t * (i == j :> nat)%:R) * S i c * x c
                    - (c == j :> nat)%:R * (t * ((x i - t * (i == j :> nat)%:R) * S i c))).
    by apply: eq_bigr => c _; ring.
  rewrite sumrB (sum_delta (fun c => t * ((x i - t * (i == j :> nat)%:R) * S i c)) jn).
  have -> : \sum_(c < n) (x i - t * (i == j :> nat)%:R) * S i c * x c
    = \sum_(c < n) x i * S i c * x c - (i == j :> nat)%:R * (t * \sum_(c < n) S i c * x c).
    rewrite !mulr_sumr -sumrB; apply: eq_bigr => c _; ring.
  ring.
rewrite !sumrB (sum_delta (fun i => t * (\sum_(c < n) S i c * x c) - t ^+ 2 * S i j) jn) -mulr_sumr.
move: (\sum_(i < n) \sum_(c < n) x i * S i c * x c) (\sum_(i < n) x i * S i j) (\sum_(c < n) S j c * x c) => a b c.
ring.
Qed.

Hypothesis Bsym : forall i c, (i < n)%N -> (c < n)%N -> B i c = B c i.
Hypothesis Bpd : forall x : nat -> F, (exists2 i, (i < n)%N & x i != 0) -> 0 < qfn B x.
Hypothesis Hd : forall j, (j < n)%N -> d j = schur j j j.
Hypothesis Hl : forall i j, (j < i)%N -> (i < n)%N -> d j != 0 -> l i j = schur j i j / d j.
Hypothesis Hl1 : forall j, (j < n)%N -> l j j = 1.
Hypothesis Hl0 : forall i j, (i < j)%N -> (j < n)%N -> l i j = 0.

Lemma schur_sym j i c : (i < n)%N -> (c < n)%N -> schur j i c = schur j c i.
Proof.
move=> ii cn; rewrite /schur (Bsym ii cn); congr (_ - _).
by apply: eq_bigr => k _; rewrite [l i k * _]mulrC.
Qed.

Definition ld_inv (j : nat) : Prop :=
  (forall k, (k < j)%N -> 0 < d k) /\
  (forall x : nat -> F, (forall i, (i < j)%N -> x i = 0) ->
     (exists2 i, (j <= i < n)%N & x i != 0) -> 0 < qfn (schur j) x).

Lemma ld_inv0 : ld_inv 0.
Proof.
split=> // x _ [i /andP[_ ii] xi].
have -> : qfn (schur 0) x = qfn B x.
  by apply: eq_bigr => a _; apply: eq_bigr => c _; rewrite /schur big_ord0 subr0.
by apply: Bpd; exists i.
Qed.

Lemma ld_inv_dpos j : (j < n)%N -> ld_inv j -> 0 < d j.
Proof.
move=> jn [_ pd].
have := pd (fun i => (i == j :> nat)%:R).
have -> : qfn (schur j) (fun i => (i == j :> nat)%:R) = d j.
  rewrite /qfn.
  have -> : \sum_(i < n) \sum_(c < n) (i == j :> nat)%:R * schur j i c * (c == j :> nat)%:R
          = \sum_(i < n) (i == j :> nat)%:R * schur j i j.
    apply: eq_bigr => i _.
    have -> : \sum_(c < n) (i == j :> nat)%:R * schur j i c * (c == j :> nat)%:R
            = \sum_(c < n) (c == j :> nat)%:R * ((i == j :> nat)%:R * schur j i c).
      by apply: eq_bigr => c _; rewrite mulrC.
    by rewrite (sum_delta (fun c => (i == j :> nat)%:R * schur j i c) jn).
  by rewrite (sum_delta (fun i => schur j i j) jn) Hd.
apply.
- by move=> i ij; rewrite ltn_eqF.
- by exists j; rewrite ?leqnn ?jn // eqxx oner_eq0.
Qed.

Lemma ld_inv_step j : (j < n)%N -> ld_inv j -> ld_inv j.+1.
Proof.
move=> jn inv; have dj := ld_inv_dpos jn inv.
have dj0 : d j != 0 by rewrite gt_eqF.
case: inv => dpos pd; split.
  by move=> k; rewrite ltnS leq_eqVlt => /orP[/eqP -> //|]; apply: dpos.
move=> x x0 [i0 /andP[ji0 i0n] xi0].
set t := \sum_(c < n) l c j * x c.
pose y := fun i => x i - t * (i == j :> nat)%:R.
have xj : x j = 0 by apply: x0.
(* column j of the Schur complement, on the support of x *)
have colj c : (c < n)%N -> schur j c j * x c = d j * (l c j * x c).
  move=> cn; case: (ltngtP c j) => [cj|jc|->].
  - by rewrite x0 ?mulr0 // ltnS ltnW.
  - by rewrite (Hl jc cn dj0) mulrA [d j * _]mulrC divfK.
  - by rewrite xj !mulr0.
have s1 : \sum_(c < n) schur j j c * x c = d j * t.
  rewrite /t mulr_sumr; apply: eq_bigr => c _.
  by rewrite (schur_sym _ jn (ltn_ord c)) colj.
have s2 : \sum_(i < n) x i * schur j i j = d j * t.
  rewrite /t mulr_sumr; apply: eq_bigr => c _.
  by rewrite mulrC colj.
have E : qfn (schur j.+1) x = qfn (schur j) y.
  have -> : qfn (schur j.+1) x = qfn (fun i c => schur j i c - l i j * l c j * d j) x.
    by apply: eq_bigr => a _; apply: eq_bigr => c _; rewrite schurS.
  rewrite qfn_rank1 -/t /y qfn_shift // s1 s2 -(Hd jn); ring.
rewrite E; apply: pd.
- by move=> i ij; rewrite /y x0 ?ltnS 1?ltnW // ltn_eqF // mulr0 subr0.
- exists i0; first by rewrite (ltnW ji0).
  by rewrite /y gtn_eqF // mulr0 subr0.
Qed.

Lemma ld_inv_all j : (j <= n)%N -> ld_inv j.
Proof.
elim: j => [_|j IH jn]; first exact: ld_inv0.
by apply: ld_inv_step => //; apply: IH; apply: ltnW.
Qed.

Theorem ld_dpos j : (j < n)%N -> 0 < d j.
Proof. by move=> jn; apply: ld_inv_dpos => //; apply: ld_inv_all; apply: ltnW. Qed.

(* L D L^T = B, entry by entry *)
Lemma ld_prod_le i c : (c <= i)%N -> (i < n)%N ->
  \sum_(k < n) l i k * l c k * d k = B i c.
Proof.
move=> ci ii; have cn : (c < n)%N by apply: leq_ltn_trans ii.
have dc0 : d c != 0 by rewrite gt_eqF // ld_dpos.
rewrite -(big_mkord xpredT (fun k => l i k * l c k * d k)).
rewrite (big_cat_nat _ _ _ (leq0n c.+1) cn) /=.
rewrite [X in _ + X]big_nat_cond [X in _ + X]big1 ?addr0; last first.
  by move=> k /andP[/andP[ck kn] _]; rewrite (Hl0 ck kn) mulr0 mul0r.
rewrite big_nat_recr //= big_mkord (Hl1 cn) mulr1.
move: ci; rewrite leq_eqVlt => /orP[/eqP E|ci].
  by rewrite -E (Hl1 cn) mul1r (Hd cn) /schur addrC subrK.
by rewrite (Hl ci ii dc0) divfK // /schur addrC subrK.
Qed.

Theorem ld_prod i c : (i < n)%N -> (c < n)%N ->
  \sum_(k < n) l i k * l c k * d k = B i c.
Proof.
move=> ii cn; case: (leqP c i) => [ci|/ltnW ic]; first exact: ld_prod_le.
rewrite (Bsym ii cn) -(ld_prod_le ic cn); apply: eq_bigr => k _.
by rewrite [l i k * _]mulrC.
Qed.

End Core.

(* ------------------------------------------------------------------ *)
(* 2. The list code: the columns / pivots accumulated by the fold satisfy the recurrences. *)
Section ListLevel.
Variable F : realFieldType.
Variable tr : Transc F.
Notation S := (FOps tr).
Variables (sq eg : nat -> lmx S -> lmx S).
Let O := ListMat S sq eg.

Lemma nat_ltbE a b : Nat.ltb a b = (a < b)%N.
Proof. by apply/idP/idP => [/Nat.ltb_lt/ssrnat.ltP|/ssrnat.ltP/Nat.ltb_lt]. Qed.
Lemma nat_lebE a b : Nat.leb a b = (a <= b)%N.
Proof. by apply/idP/idP => [/Nat.leb_le/ssrnat.leP|/ssrnat.leP/Nat.leb_le]. Qed.
Lemma nat_eqbE a b : Nat.eqb a b = (a == b).
Proof. by apply/idP/idP => [/Nat.eqb_eq -> //|/eqP ->]; apply/Nat.eqb_eq. Qed.

Lemma seq_iota a m : List.seq a m = iota a m.
Proof. by elim: m a => //= m IH a; rewrite IH. Qed.

Lemma lnth_nth (A : Type) (s : list A) i d : List.nth i s d = nth d s i.
Proof. by elim: s i => [|x s IH] [|i] //=. Qed.

Lemma fold_sub (A : Type) (f : A -> F) (s : list A) (b : F) :
  List.fold_left (fun a k => a - f k) s b = b - \sum_(k <- s) f k.
Proof.
elim: s b => [|x s IH] b /=; first by rewrite big_nil subr0.
by rewrite IH big_cons opprD addrA.
Qed.

Lemma sum_seq (f : nat -> F) j : \sum_(k <- List.seq 0 j) f k = \sum_(k < j) f k.
Proof. by rewrite seq_iota -[j in iota 0 j]subn0 -/(index_iota 0 j) big_mkord. Qed.

Lemma lnth_map_seq (A : Type) (f : nat -> A) m i d : (i < m)%N ->
  List.nth i (List.map f (List.seq 0 m)) d = f i.
Proof. exact: nth_seq_map. Qed.

Variable n : nat.
Variable B : nat -> nat -> F.

Notation st j := (ld_state O n B j).

Lemma ld_stateS j : st j.+1 = ld_step O n B (st j) j.
Proof. by rewrite /ld_state List.seq_S List.fold_left_app. Qed.

Lemma ld_state_fst j :
  fst (st j.+1) = (fst (st j) ++ [:: ld_col O n B (fst (st j)) (snd (st j)) j])%list.
Proof. by rewrite ld_stateS /ld_step; case: (st j). Qed.

Lemma ld_state_snd j :
  snd (st j.+1) = (snd (st j) ++ [:: ld_acc O B (fst (st j)) (snd (st j)) j j])%list.
Proof. by rewrite ld_stateS /ld_step; case: (st j). Qed.

Lemma ld_state_len j : length (fst (st j)) = j /\ length (snd (st j)) = j.
Proof.
elim: j => [|j [IH1 IH2]] //.
by rewrite ld_state_fst ld_state_snd !List.app_length IH1 IH2 /= !Nat.add_1_r.
Qed.

(* what was written at step k stays *)
Lemma ld_col_stable k j : (k < j)%N ->
  List.nth k (fst (st j)) nil = ld_col O n B (fst (st k)) (snd (st k)) k.
Proof.
elim: j => // j IH; rewrite ltnS leq_eqVlt => /orP[/eqP ->|kj].
  rewrite ld_state_fst List.app_nth2 (ld_state_len j).1 //.
  by rewrite Nat.sub_diag.
by rewrite ld_state_fst List.app_nth1 ?IH // (ld_state_len j).1; exact/ssrnat.ltP.
Qed.

Lemma ld_d_stable k j : (k < j)%N ->
  List.nth k (snd (st j)) 0 = ld_acc O B (fst (st k)) (snd (st k)) k k.
Proof.
elim: j => // j IH; rewrite ltnS leq_eqVlt => /orP[/eqP ->|kj].
  rewrite ld_state_snd List.app_nth2 (ld_state_len j).2 //.
  by rewrite Nat.sub_diag.
by rewrite ld_state_snd List.app_nth1 ?IH // (ld_state_len j).2; exact/ssrnat.ltP.
Qed.

(* the final factor *)
Definition ldl (i k : nat) : F := ld_lij O (fst (st n)) i k.
Definition ldd (k : nat) : F := List.nth k (snd (st n)) 0.

Lemma lij_stable i k j : (k < j)%N -> (j <= n)%N -> ld_lij O (fst (st j)) i k = ldl i k.
Proof.
move=> kj jn; rewrite /ldl /ld_lij ld_col_stable // ld_col_stable //.
exact: leq_trans jn.
Qed.

Lemma dd_stable k j : (k < j)%N -> (j <= n)%N -> List.nth k (snd (st j)) 0 = ldd k.
Proof.
move=> kj jn; rewrite /ldd ld_d_stable // ld_d_stable //.
exact: leq_trans jn.
Qed.

Lemma ld_accE j i : (j <= n)%N ->
  ld_acc O B (fst (st j)) (snd (st j)) j i = schur B ldl ldd j i j.
Proof.
move=> jn; rewrite /ld_acc /schur.
rewrite (fold_sub (fun k => ld_lij O (fst (st j)) i k * ld_lij O (fst (st j)) j k * List.nth k (snd (st j)) 0)).
rewrite sum_seq; congr (_ - _); apply: eq_bigr => k _.
by rewrite !lij_stable // dd_stable.
Qed.

Lemma lddE j : (j < n)%N -> ldd j = schur B ldl ldd j j j.
Proof. by move=> jn; rewrite /ldd ld_d_stable // ld_accE // ltnW. Qed.

Lemma ldlE i j : (i < n)%N -> (j < n)%N ->
  ldl i j = if (i < j)%N then 0 else if i == j then 1
            else if 0 < `|ldd j| then schur B ldl ldd j i j / ldd j else schur B ldl ldd j i j.
Proof.
move=> ii jn; rewrite /ldl /ld_lij ld_col_stable // /ld_col lnth_map_seq //.
rewrite !ld_accE ?(ltnW jn) // -lddE //.
rewrite nat_ltbE nat_eqbE.
have -> : sabs8 O (ldd j) = `|ldd j|.
  by rewrite /sabs8 /=; case: ltrgt0P => // ->; rewrite oppr0.
by [].
Qed.

End ListLevel.

(* ------------------------------------------------------------------ *)
(* 3. The pivoting produces a permutation (whatever the comparisons say). *)
Section Pivoting.
Variable O : MatOps.

Definition tau (k b i : nat) : nat := if Nat.eqb i k then b else if Nat.eqb i b then k else i.

Lemma tauE k b i : tau k b i = if i == k then b else if i == b then k else i.
Proof. by rewrite /tau !nat_eqbE. Qed.

Lemma tauK k b : involutive (tau k b).
Proof.
move=> i; rewrite !tauE.
case: (eqVneq i k) => [->|ik].
  by case: (eqVneq b k) => [->|bk] //; rewrite eqxx.
case: (eqVneq i b) => [->|ib]; first by rewrite eqxx.
by rewrite (negbTE ik) (negbTE ib).
Qed.

Lemma tau_lt k b m i : (k < m)%N -> (b < m)%N -> (i < m)%N -> (tau k b i < m)%N.
Proof. by move=> km bm im; rewrite tauE; case: eqP => // _; case: eqP. Qed.

Lemma map_tau_perm k b m : (k < m)%N -> (b < m)%N -> perm_eq [seq tau k b i | i <- iota 0 m] (iota 0 m).
Proof.
move=> km bm; apply: uniq_perm.
- by rewrite map_inj_uniq ?iota_uniq //; apply: (can_inj (tauK k b)).
- exact: iota_uniq.
- move=> x; rewrite mem_iota /= add0n; apply/mapP/idP => [[y]|xm].
    by rewrite mem_iota /= add0n => ym ->; apply: tau_lt.
  by exists (tau k b x); rewrite ?tauK // mem_iota /= add0n tau_lt.
Qed.

Lemma swap_posE k b (p : seq nat) : swap_pos k b p = [seq nth 0%N p (tau k b i) | i <- iota 0 (size p)].
Proof.
rewrite /swap_pos -seq_iota; apply: eq_map => i.
by rewrite lnth_nth.
Qed.

Lemma swap_pos_perm k b (p : seq nat) : (k < size p)%N -> (b < size p)%N -> perm_eq (swap_pos k b p) p.
Proof.
move=> kp bp; rewrite swap_posE.
have -> : [seq nth 0%N p (tau k b i) | i <- iota 0 (size p)] = [seq nth 0%N p i | i <- [seq tau k b i | i <- iota 0 (size p)]].
  by rewrite -map_comp.
have E : p = [seq nth 0%N p i | i <- iota 0 (size p)] by rewrite -/(mkseq _ _) mkseq_nth.
rewrite [X in perm_eq _ X]E.
by apply: perm_map; apply: map_tau_perm.
Qed.

Lemma argmax_from_lt d rest j best bestv m :
  (best < m)%N -> (j + size rest <= m)%N -> (argmax_from O d rest j best bestv < m)%N.
Proof.
elim: rest j best bestv => [|p rest IH] j best bestv bm jm //=.
have jlt : (j < m)%N by apply: leq_trans jm; rewrite -addn1 leq_add2l.
have jm' : (j.+1 + size rest <= m)%N by rewrite addSnnS.
by case: ifP => _; apply: IH.
Qed.

Lemma ldlt_perm_fold n d (s p : seq nat) :
  all (fun k => k < n)%N s -> perm_eq p (iota 0 n) ->
  perm_eq (List.fold_left (fun perm k =>
             swap_pos k (argmax_from O d (List.skipn k.+1 perm) k.+1 k (sabs8 O (d (List.nth k perm 0%N)))) perm) s p)
          (iota 0 n).
Proof.
elim: s p => [|k s IH] p //= /andP[kn sn] pp.
apply: IH => //.
have sp : size p = n by rewrite (perm_size pp) size_iota.
apply: perm_trans pp; apply: swap_pos_perm; rewrite sp //.
apply: argmax_from_lt => //.
have -> : size (List.skipn k.+1 p) = (n - k.+1)%N.
  change (size (List.skipn k.+1 p)) with (length (List.skipn k.+1 p)).
  rewrite List.skipn_length; change (length p) with (size p).
  by rewrite sp minusE.
by rewrite subnKC.
Qed.

Lemma ldlt_perm_perm n d : perm_eq (ldlt_perm O n d) (iota 0 n).
Proof.
rewrite /ldlt_perm seq_iota; apply: ldlt_perm_fold => //.
by apply/allP => k; rewrite mem_iota add0n.
Qed.

Lemma index_ofE r (p : seq nat) i : index_of r p i = (i + index r p)%N.
Proof.
elim: p i => [|x p IH] i /=; first by rewrite addn0.
rewrite nat_eqbE; case: eqP => _; first by rewrite addn0.
by rewrite IH addSnnS.
Qed.

End Pivoting.

(* ------------------------------------------------------------------ *)
(* 4. Assembly: the entries of ldlt_sqrt. *)
Section Assemble.
Variable F : realFieldType.
Variable tr : Transc F.
Notation S := (FOps tr).
Variables (sq eg : nat -> lmx S -> lmx S).
Let O := ListMat S sq eg.
Hypothesis sqrt_ok : forall x : F, 0 <= x -> t_sqrt tr x * t_sqrt tr x = x.
Variable n : nat.
Variable a : nat -> nat -> F.
Hypothesis asym : forall i j, (i < n)%N -> (j < n)%N -> a i j = a j i.
Hypothesis apd : forall x : nat -> F, (exists2 i, (i < n)%N & x i != 0) -> 0 < qfn n a x.

Let perm := ldlt_perm O n (fun i => a i i).
Let pi_ (i : nat) : nat := nth 0%N perm i.
Let sg (r : nat) : nat := index r perm.
Let B := ld_B O a perm.

Let pperm : perm_eq perm (iota 0 n). Proof. exact: ldlt_perm_perm. Qed.
Let psize : size perm = n. Proof. by rewrite (perm_size pperm) size_iota. Qed.
Let puniq : uniq perm. Proof. by rewrite (perm_uniq pperm) iota_uniq. Qed.
Let pmem r : (r \in perm) = (r < n)%N. Proof. by rewrite (perm_mem pperm) mem_iota add0n. Qed.

Let pi_lt i : (i < n)%N -> (pi_ i < n)%N.
Proof. by move=> ii; rewrite -pmem mem_nth // psize. Qed.
Let sg_lt r : (r < n)%N -> (sg r < n)%N.
Proof. by move=> rn; rewrite -psize index_mem pmem. Qed.
Let pi_sg r : (r < n)%N -> pi_ (sg r) = r.
Proof. by move=> rn; rewrite /pi_ /sg nth_index // pmem. Qed.
Let sg_pi i : (i < n)%N -> sg (pi_ i) = i.
Proof. by move=> ii; rewrite /sg /pi_ index_uniq // psize. Qed.

Lemma ld_BE i j : (i < n)%N -> (j < n)%N -> B i j = a (pi_ i) (pi_ j).
Proof.
move=> ii jn; rewrite /B /ld_B !lnth_nth -/(pi_ i) -/(pi_ j).
by case: ifP => // _; apply: asym; apply: pi_lt.
Qed.

(* sums over the pivoted order *)
Lemma sum_pi (f : nat -> F) : \sum_(i < n) f (pi_ i) = \sum_(r < n) f r.
Proof.
transitivity (\sum_(r <- perm) f r).
  by rewrite (big_nth 0%N) psize big_mkord.
by rewrite (perm_big _ pperm) /= -[n in iota 0 n]subn0 -/(index_iota 0 n) big_mkord.
Qed.

Lemma B_sym i j : (i < n)%N -> (j < n)%N -> B i j = B j i.
Proof. by move=> ii jn; rewrite !ld_BE // asym // pi_lt. Qed.

Lemma B_pd (x : nat -> F) : (exists2 i, (i < n)%N & x i != 0) -> 0 < qfn n B x.
Proof.
case=> i0 i0n xi0.
pose x' r := x (sg r).
have -> : qfn n B x = qfn n a x'.
  rewrite /qfn -(sum_pi (fun r => \sum_(c < n) x' r * a r c * x' c)).
  apply: eq_bigr => i _.
  rewrite -(sum_pi (fun c => x' (pi_ i) * a (pi_ i) c * x' c)).
  apply: eq_bigr => c _.
  by rewrite ld_BE // /x' !sg_pi.
apply: apd; exists (pi_ i0); first exact: pi_lt.
by rewrite /x' sg_pi.
Qed.

Notation l := (ldl sq eg n B).
Notation d := (ldd sq eg n B).

Lemma ld_Hl i j : (j < i)%N -> (i < n)%N -> d j != 0 -> l i j = schur B l d j i j / d j.
Proof.
move=> ji ii dj; have jn := ltn_trans ji ii.
rewrite ldlE // ltnNge (ltnW ji) /= gtn_eqF //.
by rewrite normr_gt0 dj.
Qed.

Lemma ld_Hl1 j : (j < n)%N -> l j j = 1.
Proof. by move=> jn; rewrite ldlE // ltnn eqxx. Qed.

Lemma ld_Hl0 i j : (i < j)%N -> (j < n)%N -> l i j = 0.
Proof. by move=> ij jn; rewrite ldlE ?ij // (ltn_trans ij jn). Qed.

Lemma ld_d_pos j : (j < n)%N -> 0 < d j.
Proof.
apply: (@ld_dpos F n B l d B_sym B_pd) => //.
- by move=> k kn; apply: lddE.
- exact: ld_Hl.
Qed.

Lemma ld_LDL i c : (i < n)%N -> (c < n)%N -> \sum_(k < n) l i k * l c k * d k = B i c.
Proof.
apply: (@ld_prod F n B l d B_sym B_pd) => //.
- by move=> k kn; apply: lddE.
- exact: ld_Hl.
- exact: ld_Hl1.
- exact: ld_Hl0.
Qed.

Lemma ld_entriesE r c : ld_entries O n a r c = l (sg r) c * t_sqrt tr (d c).
Proof. by rewrite /ld_entries /ldl /ldd /sg index_ofE add0n. Qed.

Theorem ld_entries_contract r s : (r < n)%N -> (s < n)%N ->
  \sum_(c < n) ld_entries O n a r c * ld_entries O n a s c = a r s.
Proof.
move=> rn sn.
have -> : \sum_(c < n) ld_entries O n a r c * ld_entries O n a s c
        = \sum_(c < n) l (sg r) c * l (sg s) c * d c.
  apply: eq_bigr => c _; rewrite !ld_entriesE.
  rewrite mulrACA sqrt_ok //; apply: ltW; exact: ld_d_pos.
by rewrite ld_LDL ?sg_lt // ld_BE ?sg_lt // !pi_sg.
Qed.

End Assemble.

(* ------------------------------------------------------------------ *)
(* 5. The contract of ldlt_sqrt at the two instances. *)
Section Contract.
Variable F : realFieldType.
Variable tr : Transc F.
Notation S := (FOps tr).
Hypothesis sqrt_ok : forall x : F, 0 <= x -> t_sqrt tr x * t_sqrt tr x = x.
Variable n : nat.

(* quadratic forms: LinAlg.qf on row vectors vs. the double sum over an entry function *)
Lemma qf_qfn (A : 'M[F]_n) (a : nat -> nat -> F) (x : nat -> F) :
  (forall i j : 'I_n, a i j = A i j) -> qf A (\row_i x i) = qfn n a x.
Proof.
move=> aA; rewrite /qf /qfn mxE exchange_big /=.
apply: eq_bigr => c _; rewrite !mxE mulr_suml; apply: eq_bigr => i _.
by rewrite !mxE aA.
Qed.

Lemma spd_entries (A : 'M[F]_n) (a : nat -> nat -> F) :
  (forall i j : 'I_n, a i j = A i j) -> spd A ->
  (forall i j, (i < n)%N -> (j < n)%N -> a i j = a j i) /\
  (forall x : nat -> F, (exists2 i, (i < n)%N & x i != 0) -> 0 < qfn n a x).
Proof.
move=> aA [sA pA]; split.
  move=> i j ii jn; rewrite (aA (Ordinal ii) (Ordinal jn)) (aA (Ordinal jn) (Ordinal ii)).
  by rewrite -[in LHS]sA mxE.
move=> x [i ii xi]; rewrite -(qf_qfn x aA); apply: pA.
apply/eqP => /rowP /(_ (Ordinal ii)); rewrite !mxE /= => x0.
by rewrite x0 eqxx in xi.
Qed.

Lemma entries_contract_mx (A : 'M[F]_n) (a e : nat -> nat -> F) :
  (forall i j : 'I_n, a i j = A i j) ->
  (forall r s, (r < n)%N -> (s < n)%N -> \sum_(c < n) e r c * e s c = a r s) ->
  mx_build n n e *m (mx_build n n e)^T = A.
Proof.
move=> aA H; apply/matrixP => r s; rewrite mxE -aA -H //.
by apply: eq_bigr => c _; rewrite !mxE.
Qed.

(* the executed list instance *)
Section ListInstance.
Variables (sq eg : nat -> lmx S -> lmx S).
Let O := ListMat S sq eg.

Theorem ldlt_sqrt_list_wf (lP : lmx S) : wf n n (@ldlt_sqrt O n lP).
Proof. by rewrite ldlt_sqrtE; apply: lbuild_wf. Qed.

Theorem ldlt_sqrt_list_correct (lP : lmx S) :
  spd (toM n n lP) ->
  toM n n (@ldlt_sqrt O n lP) *m (toM n n (@ldlt_sqrt O n lP))^T = toM n n lP.
Proof.
move=> sP; rewrite ldlt_sqrtE.
change (@mbuild O n n) with (lbuild S n n); rewrite toM_lbuild.
have aA : forall i j : 'I_n, (fun i j : nat => @mget O n n lP i j) i j = toM n n lP i j.
  by move=> i j; rewrite (toM_lget tr).
case: (spd_entries aA sP) => asym apd.
apply: (entries_contract_mx aA) => r s rn sn.
exact: (ld_entries_contract sq eg sqrt_ok asym apd).
Qed.

Theorem ldlt_sqrt_list_contract (lP : lmx S) :
  spd (toM n n lP) ->
  wf n n (@ldlt_sqrt O n lP) /\
  toM n n (@ldlt_sqrt O n lP) *m (toM n n (@ldlt_sqrt O n lP))^T = toM n n lP.
Proof. by move=> sP; split; [exact: ldlt_sqrt_list_wf | exact: ldlt_sqrt_list_correct]. Qed.

End ListInstance.

(* the MathComp instance (the one the Mahalanobis theorems are stated at) *)
Section MxInstance.
Variable sqm : forall n, 'M[F]_n -> 'M[F]_n.
Variable egm : forall n, 'M[F]_n -> 'M[F]_(n,1).
Let OM := MxMat tr sqm egm.

Theorem ldlt_sqrt_mx_correct (P : 'M[F]_n) :
  spd P -> (ldlt_sqrt (O:=OM) P : 'M[F]_n) *m (ldlt_sqrt (O:=OM) P : 'M[F]_n)^T = P.
Proof.
move=> sP; rewrite ldlt_sqrtE.
change (@mbuild OM n n) with (@mx_build F n n).
have aA : forall i j : 'I_n, (fun i j : nat => @mget OM n n P i j) i j = P i j.
  by move=> i j; rewrite /= mx_get_ord.
case: (spd_entries aA sP) => asym apd.
apply: (entries_contract_mx aA) => r s rn sn.
change (ld_entries OM n (fun i j : nat => @mget OM n n P i j))
  with (ld_entries (ListMat S (fun _ X => X) (fun _ X => X)) n (fun i j : nat => @mget OM n n P i j)).
exact: (ld_entries_contract (fun _ X => X) (fun _ X => X) sqrt_ok asym apd).
Qed.

End MxInstance.
End Contract.

Print Assumptions ldlt_sqrt_list_correct.
Print Assumptions ldlt_sqrt_mx_correct.

(* ------------------------------------------------------------------ *)
(* 6. Consequences: the Mahalanobis identities of C08_Proofs without the premise "L L^T = P". *)
Require Import BFL.Density BFL.C01_Model BFL.C08_Struct BFL.C08_Proofs.

Section Unconditional.
Variable F : realFieldType.
Variable tr : Transc F.
Variable sq : forall n, 'M[F]_n -> 'M[F]_n.
Variable eg : forall n, 'M[F]_n -> 'M[F]_(n,1).
Let O := MxMat tr sq eg.
Variable n : nat.
Hypothesis sqrt_ok : forall x : F, 0 <= x -> t_sqrt tr x * t_sqrt tr x = x.

Lemma msqrt_contract_proved (P : 'M[F]_n) : spd P -> msqrt_contract tr sq eg P.
Proof. by move=> sP; rewrite /msqrt_contract; apply: ldlt_sqrt_mx_correct. Qed.

Lemma mahalanobis_unconditional (m z : M O n 1) (P : M O n n) :
  spd (P : 'M[F]_n) ->
  quadform (O:=O) (msub (sample_from_proposal m P z) m) (minv P) = quadform (O:=O) z (mid n)
  /\ quadform (O:=O) z (mid n) = \sum_i (z : 'cV[F]_n) i 0 ^+ 2.
Proof. by move=> sP; apply: mahalanobis_full => //; apply: msqrt_contract_proved. Qed.

Lemma kf_wrapped_mahalanobis_unconditional (m : nat) (H : M O m n) (R : M O m m) (y : M O m 1)
  (spdR : spd (R : 'M[F]_m)) lik trans (zs : list (M O n 1)) (pred old : pset O n) (i : nat) d :
  fst (lik (gpf_drawn (kf_corr_gstep true H R y) zs pred old)) = true ->
  length old = length pred ->
  List.Forall (fun p : particle O n => spd (pcov p : 'M[F]_n)) pred ->
  (i < length pred)%coq_nat ->
  let p := List.nth i (cr_particles (gpf_correct (kf_corr_gstep true H R y) lik trans zs pred old)) d in
  spd (pcov p : 'M[F]_n) /\
  quadform (O:=O) (msub (pstate p) (pmean p)) (minv (pcov p)) =
  quadform (O:=O) (List.nth i zs (mzero n 1)) (mid n).
Proof.
move=> Hv Hl Hspd Hi p.
have sp : spd (pcov (List.nth i pred (dparticle O n)) : 'M[F]_n).
  by move/List.Forall_forall: Hspd; apply; exact: List.nth_In.
have sC := @kf_corrected_spd F tr sq eg n m H R y spdR (pbelief (List.nth i pred (dparticle O n))) sp.
have cP : msqrt_contract tr sq eg (pcov p).
  rewrite /p (@correct_particle O n _ lik trans zs pred old Hv i d Hi) /= (kf_belief_at H R y Hl Hi).
  exact: msqrt_contract_proved.
exact: (@kf_wrapped_mahalanobis F tr sq eg n m H R y spdR lik trans zs pred old i d Hv Hl Hspd Hi cP).
Qed.

End Unconditional.
Print Assumptions kf_wrapped_mahalanobis_unconditional.

(* ------------------------------------------------------------------ *)
(* 7. Non-vacuity: the premises hold together on a concrete matrix that needs the pivot swap
      (the larger diagonal entry is the second one), over any real closed field with sqrt := Num.sqrt. *)
Section Example.
Variable K : rcfType.
Definition ex_tr : Transc K := @mkTransc K Num.sqrt id id id id id (fun a _ => a) 0 0.
Definition ex_P : lmxF K := [:: [:: 1; 1]; [:: 1; 1 + 1 + 1]].

Lemma ex_sqrt_ok : forall x : K, 0 <= x -> t_sqrt ex_tr x * t_sqrt ex_tr x = x.
Proof. by move=> x x0; rewrite /= -expr2 sqr_sqrtr. Qed.

Lemma ex_wf : wf 2 2 ex_P.
Proof. by split=> //; repeat constructor. Qed.

Lemma ex_spd : spd (toM 2 2 ex_P).
Proof.
split.
  apply/matrixP => i j; rewrite !mxE.
  by case: i => [[|[|i]] //= _]; case: j => [[|[|j]] //= _].
move=> x x0.
set a := x 0 0; set b := x 0 1.
have -> : qf (toM 2 2 ex_P) x = (a + b) ^+ 2 + (1 + 1) * b ^+ 2.
  rewrite /qf mxE !big_ord_recl big_ord0 !mxE !big_ord_recl !big_ord0 !mxE /=.
  have -> : lift ord0 ord0 = 1 :> 'I_2 by apply: val_inj.
  rewrite -/a -/b; ring.
have [b0|b0] := eqVneq b 0.
  have a0 : a != 0.
    apply: contra_neq x0 => a0; apply/rowP => j; rewrite mxE.
    by case: j => [[|[|j]] //= jj]; [rewrite -[RHS]a0 | rewrite -[RHS]b0]; congr (x _ _); apply: val_inj.
  by rewrite b0 addr0 expr0n mulr0 addr0 exprn_even_gt0.
apply: ltr_paddl; first exact: sqr_ge0.
by rewrite mulr_gt0 ?addr_gt0 ?ltr01 // exprn_even_gt0.
Qed.

End Example.
