(* C12_GPFInst.v — the GPF skeleton of C12_Model instantiated with the numerical
   routines of C08_Model (GPFCorrection over particle lists), and the proof that
   this instance IS C08's gpf_correct: for every wrapped Gaussian step, every
   likelihood model (valid or not), every transition density and every draw.
   The fault skeleton and C08's algebraic model are one definition.  No axioms. *)
Require Import ZArith List Bool Arith Lia.
Require Import BFL.Ops BFL.Density BFL.C01_Model BFL.C08_Model.
Require BFL.C12_Model BFL.C12_Proofs.
Import ListNotations.

Section GPFInst.
Variable O : MatOps.
Variable n : nat.
Notation S := (sc O).
Notation pset := (C08_Model.pset O n).

(* the data of the skeleton: G = the particle list as the wrapped correction sees and
   leaves it (beliefs + the weights and positions already in the object), St = positions *)
Definition iG := pset.
Definition iSt := list (M O n 1).

(* gaussian_correction_->correct(pred, corr): beliefs of the first |pred| components are
   written, positions and weights of the output object are not *)
Definition i_gc (gc : gstep O n) (pred out : iG) (st : unit) : C12_Model.result iG unit :=
  C12_Model.mkRes
    (map (fun i => let b := belief_at (gc (gm_of pred) (gm_of out)) i in
                   let o := nth i out (dparticle O n) in
                   mkParticle (pstate o) (gmean b) (gcov b) (plw o))
         (seq 0 (length pred)))
    tt [].

(* sampleFromProposal for i < components, the draws zs being the random numbers *)
Definition i_sample (zs : list (M O n 1)) (g : iG) (_ : iSt) : iSt * list (M O n 1) :=
  (map (fun i => let p := nth i g (dparticle O n) in
                 sample_from_proposal (pmean p) (pcov p) (nth i zs (mzero n 1)))
       (seq 0 (length g)), zs).

(* GPFCorrection.cpp:119-129 *)
Definition i_wupd (trans : list (M O n 1) -> list (M O n 1) -> list (T S))
           (pred : iG * iSt) (ls : list (T S)) (corr : iG * iSt) : iG :=
  let xs := snd corr in
  let ts := trans (map pstate (fst pred)) xs in
  map (fun i => let c := nth i (fst corr) (dparticle O n) in
                let x := nth i xs (mzero n 1) in
                mkParticle x (pmean c) (pcov c)
                  (gpf_weight S (plw (nth i (fst pred) (dparticle O n)))
                              (nth i ls (s0 S)) (nth i ts (s0 S))
                              (evaluate_proposal x (pmean c) (pcov c))))
      (seq 0 (length (fst pred))).

Definition i_gpf_step (gc : gstep O n) (lik : list (M O n 1) -> bool * list (T S))
           (trans : list (M O n 1) -> list (M O n 1) -> list (T S)) (zs : list (M O n 1))
           (pred corr_old : pset) :=
  @C12_Model.gpf_step iG iSt unit unit unit unit unit (list (T S)) (list (M O n 1))
     (fun _ => tt) (fun _ _ => []) [] unit i_sample (i_wupd trans) (i_gc gc)
     (C12_Model.LCustom lik) (C12_Model.mkMM true None (fun _ => None) (fun _ _ => None) (false, tt))
     (pred, map pstate pred) (corr_old, map pstate corr_old)
     (C12_Model.mkGpfSt (C12_Model.mkPfSt false []) tt zs).

Lemma nth_map_seq {A} (f : nat -> A) k i d : i < k -> nth i (map f (seq 0 k)) d = f i.
Proof.
  intros Hi. rewrite (nth_indep _ d (f 0)) by (rewrite map_length, seq_length; exact Hi).
  rewrite map_nth. now rewrite seq_nth.
Qed.

Lemma i_gc_length gc pred out st : length (C12_Model.r_out (i_gc gc pred out st)) = length pred.
Proof. simpl. now rewrite map_length, seq_length. Qed.

(* the positions drawn by the skeleton instance are C08's gpf_drawn *)
Lemma i_states_are_gpf_drawn gc zs pred corr_old s :
  fst (i_sample zs (C12_Model.r_out (i_gc gc pred corr_old tt)) s) = gpf_drawn gc zs pred corr_old.
Proof.
  unfold i_sample. cbn [fst]. rewrite i_gc_length. unfold gpf_drawn, gpf_beliefs.
  apply map_ext_in. intros i Hi. apply in_seq in Hi.
  unfold i_gc. cbn [C12_Model.r_out].
  rewrite !nth_map_seq by lia. reflexivity.
Qed.

(* the instance of the skeleton is C08's gpf_correct: particles, validity flag and likelihood *)
Theorem gpf_skeleton_is_C08 gc lik trans zs pred corr_old :
  let r := i_gpf_step gc lik trans zs pred corr_old in
  let c := gpf_correct gc lik trans zs pred corr_old in
  fst (C12_Model.r_out r) = cr_particles c /\
  C12_Model.pf_get_lik (C12_Model.g_pf (C12_Model.r_st r)) = (cr_valid c, cr_lik c).
Proof.
  intros r c. unfold r, i_gpf_step.
  match goal with |- context [C12_Model.gpf_step ?a ?b ?z ?smp ?w ?g ?lm ?mm ?p ?o ?st] =>
    destruct (C12_Proofs.gpf_step_spec _ _ _ _ _ _ _ _ _ a b z _ smp w g lm mm p o st) as [E1 E2] end.
  rewrite E1, E2. clear E1 E2.
  unfold C12_Proofs.gpf_states. cbn [fst snd C12_Model.g_inner C12_Model.g_rng].
  rewrite i_states_are_gpf_drawn.
  unfold C12_Model.lik_eval. cbn [fst snd].
  unfold c, gpf_correct. cbv zeta.
  destruct (lik (gpf_drawn gc zs pred corr_old)) as [valid ls]. cbn [fst snd].
  destruct valid; cbn [negb fst snd]; [|split; reflexivity].
  simpl cr_particles; simpl cr_valid; simpl cr_lik.
  split; [|reflexivity].
  unfold i_wupd. cbn [fst snd].
  apply map_ext_in. intros i Hi. apply in_seq in Hi.
  unfold gpf_beliefs, i_gc. cbn [C12_Model.r_out].
  rewrite !nth_map_seq by lia. reflexivity.
Qed.

(* hence: an invalid likelihood hands back the predicted particle list, whatever gc, trans, zs *)
Corollary C08_gpf_correct_identity_on_invalid_likelihood (gc : gstep O n) (lik : list (M O n 1) -> bool * list (T S))
          (trans : list (M O n 1) -> list (M O n 1) -> list (T S)) (zs : list (M O n 1)) (pred corr_old : pset) :
  fst (lik (gpf_drawn gc zs pred corr_old)) = false ->
  cr_particles (gpf_correct gc lik trans zs pred corr_old) = pred /\
  cr_valid (gpf_correct gc lik trans zs pred corr_old) = false.
Proof.
  intros E. unfold gpf_correct. destruct (lik _) as [v ls]. simpl in E. subst v. simpl. auto.
Qed.
End GPFInst.
