(* C03_RFun.v — the C03 model at a matrix instance over Coq's reals (World B with matrices).
   RF sq eg is a MatOps whose scalars are C19's ROps and whose matrices are functions
   nat -> nat -> R read through their declared dimensions (out of range: 0, as in every
   instance); sq / eg are the square-root and eigenvector oracles, left abstract.  minv / mdet
   are not used by any function of C03_Model and are dummies here.
   This file: the instance, finite sums, and what the structural model functions (wsum, wouter,
   affine_cols, add_mean, sigma_comp, offsets, out_mean, chunk) compute entry by entry.
   Axioms: the four standard axioms of Coq's Reals (no other; no functional extensionality is
   used: every statement is about entries). *)
Require Import ZArith Reals Lra Lia List Bool Arith.
Require Import BFL.Ops BFL.C03_Model BFL.C19_ROps.
Import ListNotations.
Local Open Scope R_scope.

Definition fmx : Type := nat -> nat -> R.
Definition inb (m n i j : nat) : bool := (i <? m)%nat && (j <? n)%nat.
Definition fget (m n : nat) (A : fmx) (i j : nat) : R := if inb m n i j then A i j else 0.
Definition fbuild (m n : nat) (f : nat -> nat -> R) : fmx := fun i j => if inb m n i j then f i j else 0.
Fixpoint rsum (n : nat) (f : nat -> R) : R :=
  match n with O => 0 | Datatypes.S k => rsum k f + f k end.

Definition RF (sq eg : nat -> fmx -> fmx) : MatOps :=
  mkMatOps ROps (fun _ _ => fmx)
    fbuild
    fget
    (fun _ _ => fun _ _ => 0)
    (fun n => fbuild n n (fun i j => if Nat.eqb i j then 1 else 0))
    (fun m n A B => fbuild m n (fun i j => A i j + B i j))
    (fun m n A B => fbuild m n (fun i j => A i j - B i j))
    (fun m n A => fbuild m n (fun i j => - A i j))
    (fun m n c A => fbuild m n (fun i j => c * A i j))
    (fun m n p A B => fbuild m p (fun i j => rsum n (fun k => A i k * B k j)))
    (fun m n A => fbuild n m (fun i j => A j i))
    (fun m n1 n2 A B => fbuild m (n1 + n2) (fun i j => if (j <? n1)%nat then A i j else B i (j - n1)%nat))
    (fun m1 m2 n A B => fbuild (m1 + m2) n (fun i j => if (i <? m1)%nat then A i j else B (i - m1)%nat j))
    (fun _ A => A) (fun _ _ => 0)
    sq eg.

(* ------------------------------------------------------------------ finite sums *)
Lemma rsum_ext n f g : (forall k, (k < n)%nat -> f k = g k) -> rsum n f = rsum n g.
Proof.
  induction n as [|n IH]; intros H; simpl; [reflexivity|].
  rewrite IH, (H n) by (intros; try apply H; lia). reflexivity.
Qed.
Lemma rsum_0 n : rsum n (fun _ => 0) = 0.
Proof. induction n; simpl; [reflexivity|]. rewrite IHn. lra. Qed.
Lemma rsum_plus n f g : rsum n (fun k => f k + g k) = rsum n f + rsum n g.
Proof. induction n; simpl; [lra|]. rewrite IHn. lra. Qed.
Lemma rsum_scal n c f : rsum n (fun k => c * f k) = c * rsum n f.
Proof. induction n; simpl; [lra|]. rewrite IHn. lra. Qed.
Lemma rsum_scal_r n c f : rsum n (fun k => f k * c) = rsum n f * c.
Proof. induction n; simpl; [lra|]. rewrite IHn. lra. Qed.
Lemma rsum_opp n f : rsum n (fun k => - f k) = - rsum n f.
Proof. induction n; simpl; [lra|]. rewrite IHn. lra. Qed.
Lemma rsum_swap n m (f : nat -> nat -> R) :
  rsum n (fun i => rsum m (fun j => f i j)) = rsum m (fun j => rsum n (fun i => f i j)).
Proof.
  induction n as [|n IH]; simpl; [now rewrite rsum_0|].
  rewrite IH, <- rsum_plus. reflexivity.
Qed.
Lemma rsum_const n c : rsum n (fun _ => c) = INR n * c.
Proof. induction n as [|n IH]; [simpl; lra|]. rewrite S_INR. simpl rsum. rewrite IH. lra. Qed.
Lemma rsum_nonneg n f : (forall k, (k < n)%nat -> 0 <= f k) -> 0 <= rsum n f.
Proof.
  induction n as [|n IH]; intros H; simpl; [lra|].
  assert (0 <= rsum n f) by (apply IH; intros; apply H; lia). assert (0 <= f n) by (apply H; lia). lra.
Qed.
Lemma rsum_le n f g : (forall k, (k < n)%nat -> f k <= g k) -> rsum n f <= rsum n g.
Proof.
  induction n as [|n IH]; intros H; simpl; [lra|].
  assert (rsum n f <= rsum n g) by (apply IH; intros; apply H; lia). assert (f n <= g n) by (apply H; lia). lra.
Qed.
Lemma rsum_term_le n f k : (forall j, (j < n)%nat -> 0 <= f j) -> (k < n)%nat -> f k <= rsum n f.
Proof.
  induction n as [|n IH]; intros H Hk; [lia|]. simpl.
  assert (0 <= rsum n f) by (apply rsum_nonneg; intros; apply H; lia). assert (0 <= f n) by (apply H; lia).
  destruct (Nat.eq_dec k n) as [->|Hne]; [lra|].
  assert (f k <= rsum n f) by (apply IH; [intros; apply H; lia | lia]). lra.
Qed.

(* sums over lists *)
Fixpoint lsumR {A} (g : A -> R) (l : list A) : R :=
  match l with [] => 0 | x :: l' => g x + lsumR g l' end.
Lemma lsumR_app {A} (g : A -> R) l1 l2 : lsumR g (l1 ++ l2) = lsumR g l1 + lsumR g l2.
Proof. induction l1; simpl; [lra|]. rewrite IHl1. lra. Qed.
Lemma lsumR_map {A B} (g : B -> R) (f : A -> B) l : lsumR g (map f l) = lsumR (fun x => g (f x)) l.
Proof. induction l; simpl; [reflexivity|]. now rewrite IHl. Qed.
Lemma lsumR_ext {A} (g h : A -> R) l : (forall x, In x l -> g x = h x) -> lsumR g l = lsumR h l.
Proof.
  induction l as [|x l IH]; intros H; simpl; [reflexivity|].
  rewrite (H x), IH by (try (now left); intros; apply H; now right). reflexivity.
Qed.
Lemma lsumR_seq {A} (g : A -> R) (f : nat -> A) n : lsumR g (map f (seq 0 n)) = rsum n (fun k => g (f k)).
Proof.
  induction n as [|n IH]; [reflexivity|].
  rewrite seq_S, map_app, lsumR_app, IH. simpl. lra.
Qed.
Lemma combine_map_r {A B C} (g : B -> C) (ws : list A) l :
  combine ws (map g l) = map (fun p => (fst p, g (snd p))) (combine ws l).
Proof. revert l. induction ws as [|w ws IH]; intros [|x l]; simpl; try reflexivity. now rewrite IH. Qed.
Lemma combine_map2 {A B C} (f : A -> B) (g : A -> C) l :
  combine (map f l) (map g l) = map (fun x => (f x, g x)) l.
Proof. induction l; simpl; [reflexivity|]. now rewrite IHl. Qed.
Lemma combine_app_len {A B} (a1 a2 : list A) (b1 b2 : list B) : length a1 = length b1 ->
  combine (a1 ++ a2) (b1 ++ b2) = combine a1 b1 ++ combine a2 b2.
Proof.
  revert b1. induction a1 as [|x a IH]; intros [|y b] H; simpl in *; try discriminate; [reflexivity|].
  f_equal. apply IH. now injection H.
Qed.
Lemma combine_repeat_map {A B} (w : A) (h : nat -> B) n :
  combine (repeat w n) (map h (seq 0 n)) = map (fun k => (w, h k)) (seq 0 n).
Proof.
  assert (G : forall a, combine (repeat w n) (map h (seq a n)) = map (fun k => (w, h k)) (seq a n)).
  { induction n as [|n IH]; intros a; simpl; [reflexivity|]. now rewrite IH. }
  apply G.
Qed.

(* the symmetric sigma set: one central element, n "plus" elements, n "minus" elements, weights
   w0, wi ... wi *)
Lemma sym_sum {B} (G : R * B -> R) (w0 wi : R) (x0 : B) (g1 g2 : nat -> B) n :
  lsumR G (combine (w0 :: repeat wi (2 * n)) (x0 :: (map g1 (seq 0 n) ++ map g2 (seq 0 n)))) =
  G (w0, x0) + rsum n (fun k => G (wi, g1 k)) + rsum n (fun k => G (wi, g2 k)).
Proof.
  simpl combine. simpl lsumR.
  replace (n + (n + 0))%nat with (n + n)%nat by lia.
  rewrite repeat_app, combine_app_len by (now rewrite repeat_length, map_length, seq_length).
  rewrite !combine_repeat_map, lsumR_app, !lsumR_seq. lra.
Qed.

(* ------------------------------------------------------------------ entries of the structural functions *)
Section Entries.
Variables sq eg : nat -> fmx -> fmx.
Notation O := (RF sq eg).

Lemma inb_true m n i j : (i < m)%nat -> (j < n)%nat -> inb m n i j = true.
Proof. intros Hi Hj. unfold inb. now rewrite (proj2 (Nat.ltb_lt _ _) Hi), (proj2 (Nat.ltb_lt _ _) Hj). Qed.

Lemma get_build m n f i j : (i < m)%nat -> (j < n)%nat -> @mget O m n (@mbuild O m n f) i j = f i j.
Proof. intros Hi Hj. simpl. unfold fget, fbuild. now rewrite inb_true. Qed.

Lemma colget_build r f i : (i < r)%nat -> colget (O:=O) (@mbuild O r 1 f) i = f i 0%nat.
Proof. intros Hi. unfold colget. apply get_build; [assumption | lia]. Qed.

Lemma fget_add m n (A B : fmx) i j :
  fget m n (@madd O m n A B) i j = fget m n A i j + fget m n B i j.
Proof. simpl. unfold fget, fbuild. destruct (inb m n i j); lra. Qed.

(* accumulation loops acc += g p *)
Lemma fold_add_get {A} m n (g : A -> fmx) (l : list A) (a : fmx) i j :
  fget m n (fold_left (fun acc p => @madd O m n acc (g p)) l a) i j =
  fget m n a i j + lsumR (fun p => fget m n (g p) i j) l.
Proof.
  revert a. induction l as [|x l IH]; intros a; cbn [fold_left lsumR]; [lra|].
  rewrite IH, fget_add. lra.
Qed.

(* Y * w, row i *)
Lemma wsum_get r ws (xs : list fmx) i : (i < r)%nat ->
  colget (O:=O) (wsum (O:=O) (r:=r) ws xs) i = lsumR (fun p => fst p * snd p i 0%nat) (combine ws xs).
Proof.
  intros Hi. unfold colget, wsum. change (@mget O r 1) with (fget r 1).
  rewrite fold_add_get. simpl. unfold fget at 1. rewrite inb_true by lia.
  rewrite Rplus_0_l. apply lsumR_ext. intros p _. unfold fget, fbuild. rewrite inb_true by lia. reflexivity.
Qed.

(* U diag(w) V^T, entry (i, j) *)
Lemma wouter_get a b ws (us vs : list fmx) i j : (i < a)%nat -> (j < b)%nat ->
  @mget O a b (wouter (O:=O) (a:=a) (b:=b) ws us vs) i j =
  lsumR (fun p => fst p * (fst (snd p) i 0%nat * snd (snd p) j 0%nat)) (combine ws (combine us vs)).
Proof.
  intros Hi Hj. unfold wouter. change (@mget O a b) with (fget a b).
  rewrite fold_add_get. simpl. unfold fget at 1. rewrite inb_true by assumption.
  rewrite Rplus_0_l. apply lsumR_ext. intros [w [u v]] _. unfold fget, fbuild. rewrite !inb_true by (assumption || lia).
  simpl. ring.
Qed.

(* one column through x -> A x + b *)
Lemma affine_get d p (Am b x : fmx) i : (i < p)%nat ->
  colget (O:=O) (@madd O p 1 (@mmul O p d 1 Am x) b) i =
  rsum d (fun j => Am i j * x j 0%nat) + b i 0%nat.
Proof.
  intros Hi. unfold colget. simpl. unfold fget, fbuild. rewrite !inb_true by lia. reflexivity.
Qed.

(* a column of the scaled square-root factor *)
Lemma pert_get dc s (A : fmx) k i : (i < dc)%nat -> (k < dc)%nat ->
  colget (O:=O) (@mcol O dc dc k (@mscale O dc dc s A)) i = s * A i k.
Proof.
  intros Hi Hk. unfold colget, mcol. rewrite get_build by lia. simpl. unfold fget, fbuild.
  rewrite !inb_true by assumption. reflexivity.
Qed.
End Entries.

(* ------------------------------------------------------------------ lists of blocks *)
Lemma chunk_concatR {A} (b : nat) (ls : list (list A)) (i : nat) :
  (forall l, In l ls -> length l = b) -> (i < length ls)%nat ->
  chunk b i (concat ls) = nth i ls [].
Proof.
  unfold chunk. revert i. induction ls as [|l ls IH]; intros i Hl Hi; simpl in *; [lia|].
  assert (Ll : length l = b) by (apply Hl; now left).
  destruct i as [|i].
  - rewrite Nat.mul_0_r. simpl. rewrite firstn_app, Ll, Nat.sub_diag. simpl. rewrite app_nil_r.
    rewrite <- Ll. apply firstn_all.
  - replace (b * Datatypes.S i)%nat with (length l + b * i)%nat by (rewrite Ll; lia).
    rewrite skipn_app. replace (length l + b * i - length l)%nat with (b * i)%nat by lia.
    rewrite (skipn_all2 l) by lia. simpl. apply IH; [intros; apply Hl; now right | lia].
Qed.

Lemma chunk_mapR {A B} (f : A -> B) b i l : chunk b i (map f l) = map f (chunk b i l).
Proof. unfold chunk. now rewrite skipn_map, firstn_map. Qed.

Lemma map_indexedR {A B} (h : nat -> A -> B) (l : list A) (d : A) (e : B) i : (i < length l)%nat ->
  nth i (map (fun ic : nat * A => h (fst ic) (snd ic)) (combine (seq 0 (length l)) l)) e = h i (nth i l d).
Proof.
  assert (G : forall a i, (i < length l)%nat ->
     nth i (map (fun ic : nat * A => h (fst ic) (snd ic)) (combine (seq a (length l)) l)) e = h (a + i)%nat (nth i l d)).
  { induction l as [|x l IH]; intros a j Hj; simpl in *; [lia|].
    destruct j as [|j]; [now rewrite Nat.add_0_r|].
    rewrite IH by lia. f_equal. lia. }
  intros Hi. now rewrite G.
Qed.
