(* C11_Extract.v — executable entry points of the C11 container model
   (scalars left abstract: the driver supplies IEEE doubles and junk = NaN).
   ExtrOcamlBasic only. *)
Require Import ZArith List.
Require Import BFL.Ops BFL.C11_Model.
Require Import Extraction ExtrOcamlBasic.

Extraction "C11_model.ml"
  mk get gm_ctor gauss_ctor ps_ctor gm_apply gauss_apply ps_apply gop_defined gaussop_defined pop_defined
  gm_run gauss_run ps_run gm_augment ps_augment
  gm_mean gm_cov gm_weight gm_mean_el gm_cov_el gauss_mean gauss_cov gauss_weight gauss_mean_el gauss_cov_el
  ps_state ps_state_el gm_consistentb ps_consistentb ps_concat_defined ps_concat_self_defined
  gm_augment_defined gm_augment_self_defined
  slot_get gm_kstep gauss_kstep ps_kstep gm_krun gauss_krun ps_krun gm_eval gauss_eval ps_eval
  gm_pool0 gauss_pool0 ps_pool0
  gm_state_mean gm_noise_mean gm_state_cov gm_noise_cov ps_state_part ps_noise_part
  gm_fill_el gm_fill_blk ps_fill_el ps_fill_blk.
