(* C12_Extract.v — executable entry points of the C12 model: the symbolic
   instance (C12_Sym) of every skeleton, and the KF skeleton at the numerical
   list instance (C12_KFInst over ListMat).  ExtrOcamlBasic only. *)
Require Import ZArith List.
Require Import BFL.Ops BFL.ListOps BFL.Density BFL.C01_Model BFL.C12_Model BFL.C12_Sym BFL.C12_KFInst.
Require Import Extraction ExtrOcamlBasic.
Import ListNotations.

Definition c12_O (S : SOps) : MatOps := ListMat S (fun _ A => A) (fun _ A => A).

(* KFCorrection under a fault pattern, in numbers: predicted components, the
   components already in the output object, its weights (never written).
   Returns the output components, the weights, getLikelihood and the call log. *)
Definition c12_kf_num (S : SOps) (n m : nat) (H R y : lmx S) (bits : list bool)
           (pred out : list (lmx S * lmx S)) (pw ow : list (T S))
  : list (lmx S * lmx S) * list (T S) * option (list (T S)) * list site :=
  let mk := map (fun p : lmx S * lmx S => @mkGcomp (c12_O S) n (fst p) (snd p)) in
  let r := @c_kf_step (c12_O S) n m (list (T S)) H
             (inject (pat_of bits) (@lin_mm (c12_O S) n m H R y))
             (mk pred, pw) (mk out, ow) (mkKfSt None []) in
  (map (fun c => (gmean c, gcov c)) (fst (r_out r)), snd (r_out r),
   @c_kf_get_lik (c12_O S) m (r_st r), r_log r).

Extraction "C12_model.ml" run_kf_steps run_ukf_steps run_sukf_steps run_gl_steps run_boot_steps run_gpf_steps run_sis_steps c12_kf_num.
