Require Import ZArith QArith List.
Require Import BFL.Ops BFL.ListOps BFL.C01_Model BFL.C03_Model BFL.C04_Model.
From mathcomp Require Import all_ssreflect all_algebra.
Require Import BFL.MxOps BFL.LinAlg BFL.C04_Proofs.

Theorem C04_predict_skip (O : MatOps) n (L : layout) a b k sp ss f (Q : M O n n) q prev :
  sp || ss -> ukf_predict_additive L a b k sp ss f Q q prev = prev.
Proof. exact: ukf_predict_additive_skip. Qed.
Print Assumptions C04_predict_skip.
