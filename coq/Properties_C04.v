(* Properties_C04.v — property C04: on linear-Gaussian models the unscented Kalman
   prediction and correction return the mean, covariance and measurement likelihood
   of the Kalman prediction and correction, for both constructors (noise declared
   additive / noise entering through the model with the belief augmented by the
   noise statistics), every component, every (alpha, beta, kappa) with
   c = n + lambda <> 0.  Statements only; each is closed by a lemma of C04_Proofs
   (corollaries of C03's affine exactness).  F is an arbitrary realFieldType; the
   square-root oracles enter through per-instance premises about the values they
   returned in the step at hand (sqrt c * sqrt c = c; sq P *m (sq P)^T = P for each
   covariance the transform factorises — the augmented blockdiag(P, Q) for the generic
   constructors).  plain_layout L n: n linear rows, no circular component, no noise rows
   (C04 quantifies over linear models).  The measurement description needs m linear and
   no circular components; its noise components are irrelevant: the slice of the stored
   cross-covariance is taken by predicted_meas_.dim_covariance (offset and width). *)
Require Import ZArith QArith List.
Require Import BFL.Ops BFL.ListOps BFL.Density BFL.C01_Model BFL.C02_Model BFL.C03_Model BFL.C04_Model.
From mathcomp Require Import all_ssreflect all_algebra.
Require Import BFL.MxOps BFL.LinAlg BFL.C03_Proofs BFL.C04_Proofs BFL.C04_Seq.
Require Import BFL.ListOpsCorrect BFL.C02_Transport BFL.C04_Transport.
Import GRing.Theory Num.Theory.
Local Open Scope ring_scope.

Section C04.
Variable F : realFieldType.
Variable tr : Transc F.
Variable sq : forall n, 'M[F]_n -> 'M[F]_n.
Variable eg : forall n, 'M[F]_n -> 'M[F]_(n,1).
Let O := MxMat tr sq eg.
(* x' = F x + w, noise additive: every component (F m, F P F^T + Q), same count and
   order; the predicted mixture is a fresh one (layout of the state description,
   uniform weights) *)
Theorem C04_predict_additive (n : nat) (alpha beta kappa : F) (prev : mixture O n n)
        (Lstate : layout) (Ft Q : 'M[F]_n) (q : nat) :
  plain_layout (mx_layout prev) n -> l_lin Lstate = n -> l_circ Lstate = 0%N ->
  let w := ut_weights (O:=O) n alpha beta kappa in
  w_c w != 0 -> t_sqrt tr (w_c w) * t_sqrt tr (w_c w) = w_c w ->
  (forall mc, In mc (mx_comps prev) -> sq n mc.2 *m (sq n mc.2)^T = mc.2) ->
  ukf_predict_additive (O:=O) Lstate alpha beta kappa false false (linear_cols (O:=O) Ft) Q q prev =
  mkMix (O:=O) (l_noiseless Lstate) (List.map (kf_predict_comp (O:=O) Ft Q) (mx_comps prev))
        (repeat (1 / (length (mx_comps prev))%:R) (length (mx_comps prev))).
Proof. by move=> *; exact: ukf_predict_additive_linear. Qed.

(* x' = F x + B w, belief augmented with the noise statistics Qw: the Kalman
   prediction with Q = B Qw B^T *)
Theorem C04_predict_augmented (n q : nat) (alpha beta kappa : F) (prev : mixture O n n)
        (Ldesc Lstate : layout) (Ft : 'M[F]_n) (B : 'M[F]_(n,q)) (Qw : 'M[F]_q) :
  plain_layout (mx_layout prev) n -> l_lin Lstate = n -> l_circ Lstate = 0%N ->
  l_dcov Ldesc = (n + q)%N ->
  let w := ut_weights (O:=O) (n + q) alpha beta kappa in
  w_c w != 0 -> t_sqrt tr (w_c w) * t_sqrt tr (w_c w) = w_c w ->
  (forall mc, In mc (mx_comps prev) ->
     sq (n + q) (block_mx mc.2 0 0 Qw) *m (sq (n + q) (block_mx mc.2 0 0 Qw))^T = block_mx mc.2 0 0 Qw) ->
  ukf_predict_generic (O:=O) Ldesc Lstate alpha beta kappa false false
                      (linear_cols (O:=O) (row_mx Ft B)) Qw prev =
  mkMix (O:=O) (l_noiseless Lstate)
        (List.map (kf_predict_comp (O:=O) Ft (B *m Qw *m B^T)) (mx_comps prev))
        (repeat (1 / (length (mx_comps prev))%:R) (length (mx_comps prev))).
Proof. by move=> *; exact: ukf_predict_generic_linear. Qed.

(* the Kalman prediction of one component referred to above is C02's *)
Theorem C04_kf_predict_is_C02 (n : nat) (Ft Q : 'M[F]_n) (xP : 'cV[F]_n * 'M[F]_n) :
  kf_predict_comp (O:=O) Ft Q xP = (Ft *m xP.1, kf_predict_cov (O:=O) Ft Q xP.2).
Proof. exact: kf_predict_comp_C02. Qed.

(* ... its mean is C02's LinearStateModel::propagate on the one-column matrix *)
Theorem C04_kf_predict_mean_is_C02 (n : nat) (Ft : 'M[F]_n) (c x old : 'cV[F]_n) :
  lin_propagate (O:=O) Ft None false false x old = Ft *m x /\
  lin_propagate (O:=O) Ft (Some (affine_exo (O:=O) (0 : 'M[F]_n) c)) false false x old = Ft *m x + c.
Proof. by split; [exact: kf_predict_mean_C02 | exact: kf_predict_mean_exo_C02]. Qed.

(* x' = F x + c + w with a constant exogenous input c: the Kalman prediction with that
   input (F m + c, F P F^T + Q) *)
Theorem C04_predict_additive_exogenous (n : nat) (alpha beta kappa : F) (prev : mixture O n n)
        (Lstate : layout) (Ft Q : 'M[F]_n) (c : 'cV[F]_n) (q : nat) :
  plain_layout (mx_layout prev) n -> l_lin Lstate = n -> l_circ Lstate = 0%N ->
  let w := ut_weights (O:=O) n alpha beta kappa in
  w_c w != 0 -> t_sqrt tr (w_c w) * t_sqrt tr (w_c w) = w_c w ->
  (forall mc, In mc (mx_comps prev) -> sq n mc.2 *m (sq n mc.2)^T = mc.2) ->
  ukf_predict_additive (O:=O) Lstate alpha beta kappa false false (affine_cols (O:=O) Ft c) Q q prev =
  mkMix (O:=O) (l_noiseless Lstate)
        (List.map (fun xP => (Ft *m xP.1 + c, kf_predict_cov (O:=O) Ft Q xP.2)) (mx_comps prev))
        (repeat (1 / (length (mx_comps prev))%:R) (length (mx_comps prev))).
Proof. by move=> *; exact: ukf_predict_additive_affine. Qed.

(* y = H x + v, noise additive: the whole outcome of correctStep — corrected
   components written over the first entries of the output object (its other
   components, layout and weights untouched), innovations and innovation
   covariances kept for the likelihood — is that of C01's Kalman correction *)
Theorem C04_correct_additive (n m : nat) (alpha beta kappa : F) (H : 'M[F]_(m,n)) (y : 'cV[F]_m)
        (pred old : mixture O n n) (st : ukf_state O m) (Lmeas Ldesc : layout) (R : 'M[F]_m) :
  plain_layout (mx_layout pred) n -> l_lin Lmeas = m -> l_circ Lmeas = 0%N ->
  l_lin Ldesc = n -> l_circ Ldesc = 0%N ->
  let w := ut_weights (O:=O) n alpha beta kappa in
  w_c w != 0 -> t_sqrt tr (w_c w) * t_sqrt tr (w_c w) = w_c w ->
  (forall mc, In mc (mx_comps pred) -> sq n mc.2 *m (sq n mc.2)^T = mc.2) ->
  ukf_correct_additive (O:=O) Ldesc Lmeas alpha beta kappa false (Some y)
                       (fun X => Some (linear_cols (O:=O) H X)) (lin_innovation_cols (O:=O))
                       R pred old st =
  kf_result H y pred old R.
Proof. by move=> *; exact: ukf_correct_additive_linear. Qed.

(* y = H x + D v, belief augmented with the noise statistics Rv: the Kalman
   correction with R = D Rv D^T *)
Theorem C04_correct_augmented (n q m : nat) (alpha beta kappa : F) (H : 'M[F]_(m,n)) (y : 'cV[F]_m)
        (pred old : mixture O n n) (st : ukf_state O m) (Lmeas Ldesc : layout)
        (D : 'M[F]_(m,q)) (Rv : 'M[F]_q) :
  plain_layout (mx_layout pred) n -> l_lin Lmeas = m -> l_circ Lmeas = 0%N ->
  l_dcov Ldesc = (n + q)%N ->
  let w := ut_weights (O:=O) (n + q) alpha beta kappa in
  w_c w != 0 -> t_sqrt tr (w_c w) * t_sqrt tr (w_c w) = w_c w ->
  (forall mc, In mc (mx_comps pred) ->
     sq (n + q) (block_mx mc.2 0 0 Rv) *m (sq (n + q) (block_mx mc.2 0 0 Rv))^T = block_mx mc.2 0 0 Rv) ->
  ukf_correct_generic (O:=O) Ldesc Lmeas alpha beta kappa false (Some y)
                      (fun X => Some (linear_cols (O:=O) (row_mx H D) X)) (lin_innovation_cols (O:=O))
                      Rv pred old st =
  kf_result H y pred old (D *m Rv *m D^T).
Proof. by move=> *; exact: ukf_correct_generic_linear. Qed.

(* getLikelihood afterwards: the Kalman likelihoods N(y; H m_i, H P_i H^T + R) of C01 *)
Theorem C04_likelihood_additive (n m : nat) (alpha beta kappa : F) (H : 'M[F]_(m,n)) (y : 'cV[F]_m)
        (pred old : mixture O n n) (st : ukf_state O m) (Lmeas Ldesc : layout) (R : 'M[F]_m) :
  plain_layout (mx_layout pred) n -> l_lin Lmeas = m -> l_circ Lmeas = 0%N ->
  l_lin Ldesc = n -> l_circ Ldesc = 0%N ->
  let w := ut_weights (O:=O) n alpha beta kappa in
  w_c w != 0 -> t_sqrt tr (w_c w) * t_sqrt tr (w_c w) = w_c w ->
  (forall mc, In mc (mx_comps pred) -> sq n mc.2 *m (sq n mc.2)^T = mc.2) -> mx_comps pred <> [::] ->
  ukf_likelihood (O:=O)
    (ukf_correct_additive (O:=O) Ldesc Lmeas alpha beta kappa false (Some y)
       (fun X => Some (linear_cols (O:=O) H X)) (lin_innovation_cols (O:=O)) R pred old st).1.2 =
  Some (List.map (kf_likelihood (O:=O))
          (kf_correct (O:=O) H R y (List.map (fun xP => mkGcomp (O:=O) xP.1 xP.2) (mx_comps pred)))).
Proof. by move=> *; exact: ukf_likelihood_additive_linear. Qed.

Theorem C04_likelihood_augmented (n q m : nat) (alpha beta kappa : F) (H : 'M[F]_(m,n)) (y : 'cV[F]_m)
        (pred old : mixture O n n) (st : ukf_state O m) (Lmeas Ldesc : layout)
        (D : 'M[F]_(m,q)) (Rv : 'M[F]_q) :
  plain_layout (mx_layout pred) n -> l_lin Lmeas = m -> l_circ Lmeas = 0%N ->
  l_dcov Ldesc = (n + q)%N ->
  let w := ut_weights (O:=O) (n + q) alpha beta kappa in
  w_c w != 0 -> t_sqrt tr (w_c w) * t_sqrt tr (w_c w) = w_c w ->
  (forall mc, In mc (mx_comps pred) ->
     sq (n + q) (block_mx mc.2 0 0 Rv) *m (sq (n + q) (block_mx mc.2 0 0 Rv))^T = block_mx mc.2 0 0 Rv) -> mx_comps pred <> [::] ->
  ukf_likelihood (O:=O)
    (ukf_correct_generic (O:=O) Ldesc Lmeas alpha beta kappa false (Some y)
       (fun X => Some (linear_cols (O:=O) (row_mx H D) X)) (lin_innovation_cols (O:=O)) Rv pred old st).1.2 =
  Some (List.map (kf_likelihood (O:=O))
          (kf_correct (O:=O) H (D *m Rv *m D^T) y
                      (List.map (fun xP => mkGcomp (O:=O) xP.1 xP.2) (mx_comps pred)))).
Proof. by move=> *; exact: ukf_likelihood_generic_linear. Qed.

(* the innovation covariance both filters invert is invertible when R is SPD (P only PSD) *)
Theorem C04_innovation_cov_invertible (n m : nat) (H : 'M[F]_(m,n)) (R : 'M[F]_m) (P : 'M[F]_n) :
  psd P -> spd R -> H *m P *m H^T + R \in unitmx.
Proof. exact: ukf_Pyy_unit. Qed.
End C04.

(* early-return paths, every arithmetic instance, every model: skip flags hand back the
   previous belief; a skipped correction leaves belief and kept state alone; a correction
   without measurement hands back the predicted belief and reports no likelihood *)
Theorem C04_skip_is_identity (O : MatOps) n q (L Ld : layout) a b k sp ss f g (Q : M O n n) (Qw : M O q q) qn
        (prev : mixture O n n) :
  sp || ss ->
  ukf_predict_additive L a b k sp ss f Q qn prev = prev /\
  ukf_predict_generic Ld L a b k sp ss g Qw prev = prev.
Proof. exact: ukf_skip_identity. Qed.

Theorem C04_no_measurement_is_identity (O : MatOps) n q m (Ld Lm : layout) a b k (skip : bool) (y : option (M O m 1))
        f f' g (R : M O m m) (Rv : M O q q) (pred old : mixture O n n) st :
  let ra := ukf_correct_additive Ld Lm a b k skip y f g R pred old st in
  let rg := ukf_correct_generic Ld Lm a b k skip y f' g Rv pred old st in
  (skip -> ra = (pred, st, [::]) /\ rg = (pred, st, [::])) /\
  (~~ skip -> y = None ->
   [/\ ra.1.1 = pred, rg.1.1 = pred, ukf_likelihood ra.1.2 = None & ukf_likelihood rg.1.2 = None]).
Proof. exact: ukf_idle_identity. Qed.

(* a predicted measurement or an innovation that cannot be evaluated: the predicted belief
   is handed back and no likelihood is reported afterwards (whatever was kept before) *)
Theorem C04_unusable_measurement_is_identity (O : MatOps) n m ms (y : M O m 1) g
        (ut : option (ut_result O m m n)) (pred old : mixture O n n) st :
  (ut = None \/ exists r, ut = Some r /\ g (List.map (fun u => uc_mean u) (ur_comps r)) y = None) ->
  let res := ukf_correct_finish ms y g ut pred old st in
  [/\ res.1.1 = pred, res.2 = [::] & ukf_likelihood res.1.2 = None].
Proof. exact: ukf_correct_finish_unusable. Qed.

(* several calls on ONE UKFCorrection object, the model (H, R, y, sizes of the belief, even linearity)
   changing freely between them: what a call that is not skipped hands back (output object,
   per-component outcomes) and what getLikelihood reports afterwards do not depend on the state
   st / st' an earlier call left in the object; with a measurement, not even the state it keeps does.
   Every arithmetic instance, every model.  (UKFPrediction keeps only its weights: the prediction
   models above have no state argument.) *)
Theorem C04_correct_history_independent (O : MatOps) n q m (Ld Lm : layout) a b k (y : option (M O m 1)) f f' g
        (R : M O m m) (Rv : M O q q) (pred old : mixture O n n) (st st' : ukf_state O m) :
  let ra := ukf_correct_additive Ld Lm a b k false y f g R pred old in
  let rg := ukf_correct_generic Ld Lm a b k false y f' g Rv pred old in
  [/\ (ra st).1.1 = (ra st').1.1, (ra st).2 = (ra st').2 &
      ukf_likelihood (ra st).1.2 = ukf_likelihood (ra st').1.2] /\
  [/\ (rg st).1.1 = (rg st').1.1, (rg st).2 = (rg st').2 &
      ukf_likelihood (rg st).1.2 = ukf_likelihood (rg st').1.2] /\
  (y <> None -> ra st = ra st' /\ rg st = rg st').
Proof. exact: ukf_correct_history_independent. Qed.

(* ... hence a sequence of non-skipped calls on one object (run_calls threads the kept state from call
   to call and records output object, outcomes and likelihood of each) returns, call by call, what a
   fresh object returns for that call *)
Theorem C04_unskipped_calls_are_fresh_calls (O : MatOps) n m (calls : list (ccall O n m)) (st : ukf_state O m) :
  (forall c, In c calls ->
     (exists Ld Lm a b k y f g R pred old, c = @additive_call O n m Ld Lm a b k y f g R pred old) \/
     (exists q Ld Lm a b k y f g Rv pred old, c = @generic_call O n q m Ld Lm a b k y f g Rv pred old)) ->
  run_calls calls st = List.map (@fresh_call O n m) calls.
Proof. exact: run_unskipped_calls_fresh. Qed.

(* transport: the Kalman prediction used as the spec side of the prediction half, executed at the
   LIST instance, represents the MathComp one on well-formed inputs (any realFieldType) *)
Theorem C04_transport_kf_predict (F : realFieldType) (tr : Transc F) sq eg (n : nat)
        lF (Fm : 'M[F]_n) lQ (Q : 'M[F]_n) lx (x : 'cV[F]_n) lP (P : 'M[F]_n) :
  let OL := ListMat (FOps tr) (fun _ X => X) (fun _ X => X) in
  let OM := MxMat tr sq eg in
  repr lF Fm -> repr lQ Q -> repr lx x -> repr lP P ->
  repr (@kf_predict_comp OL n lF lQ (lx, lP)).1 (@kf_predict_comp OM n Fm Q (x, P)).1 /\
  repr (@kf_predict_comp OL n lF lQ (lx, lP)).2 (@kf_predict_comp OM n Fm Q (x, P)).2.
Proof. by move=> OL OM; exact: kf_predict_comp_transport. Qed.

(* non-vacuity: the layout premises are those of the layouts the entry points build *)
Example C04_layout_premises (n q m mq : nat) :
  plain_layout (mkLayout n 0 false 0) n /\ l_lin (mkLayout m 0 false mq) = m /\ l_circ (mkLayout m 0 false mq) = 0%N /\
  l_dcov (mkLayout n 0 false q) = (n + q)%N /\ l_lin (mkLayout n 0 false m) = n.
Proof. by []. Qed.

(* ... and the executable instance of the same model, over exact rationals with an exact
   square-root oracle (P = A A^T, A = [[2,0],[1,1]]; alpha = 1, kappa = 2, n = 2: c = 4,
   sqrt c = 2), returns the Kalman correction of C01 for y = [1 2] x + v, R = 1/2, y = 3 *)
Definition QsqOps4 : SOps :=
  {| T := Q; s0 := s0 QOps; s1 := s1 QOps; sadd := sadd QOps; ssub := ssub QOps; smul := smul QOps; sdiv := sdiv QOps;
     sopp := sopp QOps; sleb := sleb QOps; sltb := sltb QOps; sofZ := sofZ QOps;
     ssqrt := fun x => if Qeq_bool x (4#1) then (2#1) else x;
     sexp := sexp QOps; sln := sln QOps; scos := scos QOps; ssin := ssin QOps; sacos := sacos QOps;
     satan2 := satan2 QOps; spi := spi QOps; stiny := stiny QOps |}.
Definition QM4 := ListMat QsqOps4 (fun _ _ => [:: [:: 2#1; 0#1]; [:: 1#1; 1#1]]%Q) (fun _ A => A).
Example C04_concrete_Q :
  let L := mkLayout 2 0 false 0 in
  let P := [:: [:: 4#1; 2#1]; [:: 2#1; 2#1]]%Q in
  let x := [:: [:: 1#1]; [:: -1#1]]%Q in
  let Hm := [:: [:: 1#1; 2#1]]%Q in
  let Rm := [:: [:: 1#2]]%Q in
  let ym := [:: [:: 3#1]]%Q in
  let pred := @mkMix QM4 2 2 L [:: (x, P)] [:: 1#1]%Q in
  let old := @mkMix QM4 2 2 L [:: (ym ++ ym, P)] [:: 1#8]%Q in
  let res := @ukf_correct_additive QM4 2 1 (mkLayout 2 0 false 1) (mkLayout 1 0 false 0) (1#1)%Q (2#1)%Q (2#1)%Q false
               (Some ym) (fun X => Some (@linear_cols QM4 2 1 Hm X)) (@lin_innovation_cols QM4 1) Rm pred old
               (@mkUkfState QM4 1 [::] [::]) in
  let kf := @kf_correct_one QM4 2 1 Hm Rm ym (@mkGcomp QM4 2 x P) in
  match mx_comps res.1.1 with
  | [:: (xc, Pc)] => qmx_eqb xc (gmean (ko_comp kf)) && qmx_eqb Pc (gcov (ko_comp kf))
                     && qmx_eqb xc [:: [:: 105#41]; [:: 7#41]]%Q
  | _ => false
  end = true.
Proof. vm_compute. reflexivity. Qed.

(* ... and two calls on one object, the measurement model changing in between (H, R, y): each call
   returns the Kalman correction for the model it saw (second call: y = [2 -1] x + v, R = 1, y = 1) *)
Example C04_concrete_sequence_Q :
  let L := mkLayout 2 0 false 0 in
  let P := [:: [:: 4#1; 2#1]; [:: 2#1; 2#1]]%Q in
  let x := [:: [:: 1#1]; [:: -1#1]]%Q in
  let H1 := [:: [:: 1#1; 2#1]]%Q in let R1 := [:: [:: 1#2]]%Q in let y1 := [:: [:: 3#1]]%Q in
  let H2 := [:: [:: 2#1; -1#1]]%Q in let R2 := [:: [:: 1#1]]%Q in let y2 := [:: [:: 1#1]]%Q in
  let pred := @mkMix QM4 2 2 L [:: (x, P)] [:: 1#1]%Q in
  let old := @mkMix QM4 2 2 L [:: (y1 ++ y1, P)] [:: 1#8]%Q in
  let call Hm Rm ym := @additive_call QM4 2 1 (mkLayout 2 0 false 1) (mkLayout 1 0 false 0) (1#1)%Q (2#1)%Q (2#1)%Q
                         (Some ym) (fun X => Some (@linear_cols QM4 2 1 Hm X)) (@lin_innovation_cols QM4 1) Rm pred old in
  let kf Hm Rm ym := ko_comp (@kf_correct_one QM4 2 1 Hm Rm ym (@mkGcomp QM4 2 x P)) in
  match List.map (fun r => mx_comps r.1.1) (run_calls [:: call H1 R1 y1; call H2 R2 y2] (@mkUkfState QM4 1 [::] [::])) with
  | [:: [:: (x1, P1)]; [:: (x2, P2)]] =>
      qmx_eqb x1 (gmean (kf H1 R1 y1)) && qmx_eqb P1 (gcov (kf H1 R1 y1)) &&
      qmx_eqb x2 (gmean (kf H2 R2 y2)) && qmx_eqb P2 (gcov (kf H2 R2 y2)) && ~~ qmx_eqb x1 x2
  | _ => false
  end = true.
Proof. vm_compute. reflexivity. Qed.

Print Assumptions C04_predict_additive.
Print Assumptions C04_predict_augmented.
Print Assumptions C04_kf_predict_is_C02.
Print Assumptions C04_kf_predict_mean_is_C02.
Print Assumptions C04_predict_additive_exogenous.
Print Assumptions C04_correct_additive.
Print Assumptions C04_correct_augmented.
Print Assumptions C04_likelihood_additive.
Print Assumptions C04_likelihood_augmented.
Print Assumptions C04_innovation_cov_invertible.
Print Assumptions C04_skip_is_identity.
Print Assumptions C04_no_measurement_is_identity.
Print Assumptions C04_unusable_measurement_is_identity.
Print Assumptions C04_correct_history_independent.
Print Assumptions C04_unskipped_calls_are_fresh_calls.
Print Assumptions C04_transport_kf_predict.
