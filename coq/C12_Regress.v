(* C12_Regress.v — REGRESSION FILE, not part of any property theorem.

   The transcription of KFCorrection / UKFCorrection / SUKFCorrection::correctStep
   and of the additive measurement overload of unscented_transform as they were
   BEFORE the repairs
     201e1b4  "Gaussian corrections report no likelihood after a correction that
               could not use the measurement"   (innovations_ not cleared on entry)
     49d7ed0  "additive measurement unscented transform returns before
               post-processing a failed evaluation"
   together with the witnesses that refuted, on that transcription, the statement
   "after a correction that could not use the measurement getLikelihood reports
   failure".  Kept so that a reintroduction of the defect is recognised: the
   implementation would then agree with THIS model and disagree with C12_Model. *)
Require Import List Bool Arith.
Require Import BFL.C12_Model BFL.C12_Proofs BFL.C12_Sym BFL.C12_ProofsSym.
Import ListNotations.
Local Open Scope bool_scope.

Section OldSkeleton.
Variables G Y X YP NU RC PY PM PXY LK : Type.
Notation mmodel := (mmodel Y X YP NU RC).
Variable kf_px : G -> X.
Variable kf_upd : G -> NU -> RC -> G -> G * PY.
Variable sigma_of : G -> X.
Variable ut_moments : G -> YP -> PM * PXY.
Variable pm_default : PM.
Variable pxy_empty : PXY.
Variable pm_add_noise : PM -> RC -> PM.
Variable ukf_augment : G -> RC -> G.
Variable pm_mean : PM -> YP.
Variable ukf_upd : G -> PM -> PXY -> NU -> G -> G.
Variable sukf_pred_mean : YP -> YP.
Variable sukf_upd : G -> X -> YP -> NU -> RC -> G -> G * YP.
Notation kf_state := (kf_state NU PY).
Notation ukf_state := (ukf_state NU PM).
Notation sukf_state := (sukf_state YP NU).
Notation ut_base := (ut_base sigma_of ut_moments pm_default pxy_empty).
Notation ut_generic := (ut_generic sigma_of ut_moments pm_default pxy_empty).

Definition old_kf_step (mm : mmodel) (pred out : G) (st : kf_state) : result G kf_state :=
  match mm_measure mm with
  | None => mkRes pred st [Measure]                                   (* :53-57 *)
  | Some y =>
    match mm_predicted mm (kf_px pred) with
    | None => mkRes pred st [Measure; Predicted]                      (* :64-68 *)
    | Some yp =>
      match mm_innovation mm yp y with
      | None => mkRes pred st [Measure; Predicted; Innovation]        (* :75-79 *)
      | Some nu =>
        let '(okR, R) := mm_noisecov mm in
        if okR then
          let '(g, py) := kf_upd pred nu R out in
          mkRes g (mkKfSt (Some nu) py) [Measure; Predicted; Innovation; NoiseCov]
        else mkRes pred st [Measure; Predicted; Innovation; NoiseCov] (* :85-89 *)
      end
    end
  end.


(* AdditiveMeasurementModel overload (:285-314): getNoiseCovarianceMatrix is
   called and the output post-processed whether or not the evaluation was
   valid; its flag is ignored *)
Definition old_ut_additive (mm : mmodel) (input : G) : bool * PM * PXY * list site :=
  let '(valid, pm, pxy) := ut_base mm input in
  (valid, pm_add_noise pm (snd (mm_noisecov mm)), pxy, [Predicted; NoiseCov]).


Definition old_ukf_step (additive : bool) (mm : mmodel) (pred out : G) (st : ukf_state) : result G ukf_state :=
  match mm_measure mm with
  | None => mkRes pred st [Measure]                                   (* :74-78 *)
  | Some y =>
    (* predicted_meas_ is assigned from the transform's result even when invalid (:98, :102) *)
    let '(valid, pm, pxy, l) :=
      if additive then old_ut_additive mm pred
      else let '(v, pm, pxy, l) := ut_generic mm (ukf_augment pred (snd (mm_noisecov mm))) in
           (v, pm, pxy, NoiseCov :: l)                                 (* :92 flag ignored *)
    in
    if valid then
      match mm_innovation mm (pm_mean pm) y with
      | None => mkRes pred (mkUkfSt (u_innov st) pm) (Measure :: l ++ [Innovation])   (* :121-125 *)
      | Some nu => mkRes (ukf_upd pred pm pxy nu out) (mkUkfSt (Some nu) pm) (Measure :: l ++ [Innovation])
      end
    else mkRes pred (mkUkfSt (u_innov st) pm) (Measure :: l)          (* :105-109 *)
  end.


Definition old_sukf_step (sub_ok : bool) (ncalls : nat) (mm : mmodel) (pred out : G) (st : sukf_state)
  : result G sukf_state :=
  match mm_measure mm, sub_ok with
  | Some y, true =>
    let sp := sigma_of pred in
    match mm_predicted mm sp with
    | None => mkRes pred st [Measure; Predicted]                      (* :104-108 *)
    | Some yp =>
      (* :111 propagated_sigma_points_ is overwritten before the innovation is known *)
      match mm_innovation mm (sukf_pred_mean yp) y with
      | None => mkRes pred (mkSukfSt (s_innov st) (Some yp)) [Measure; Predicted; Innovation]  (* :129-133 *)
      | Some nu =>
        let '(g, yp') := sukf_upd pred sp yp nu (snd (mm_noisecov mm)) out in
        mkRes g (mkSukfSt (Some nu) (Some yp')) ([Measure; Predicted; Innovation] ++ repeat NoiseCov ncalls)
      end
    end
  | _, _ => mkRes pred st [Measure]                                   (* :88-94 *)
  end.


(* on the old transcription a failed correction left every member as it was *)
Lemma old_kf_members_untouched (p : pattern) (mm : mmodel) pred out st :
  fails_any p sites4 = true ->
  r_out (old_kf_step (inject p mm) pred out st) = pred /\ r_st (old_kf_step (inject p mm) pred out st) = st.
Proof.
  rewrite fails4. unfold old_kf_step, inject; simpl.
  destruct (p Measure); simpl; [auto|].
  destruct (mm_measure mm); simpl; [|auto].
  destruct (p Predicted); simpl; [auto|].
  destruct (mm_predicted mm (kf_px pred)); simpl; [|auto].
  destruct (p Innovation); simpl; [auto|].
  destruct (mm_innovation mm y0 y); simpl; [|auto].
  destruct (p NoiseCov); simpl; [auto|discriminate].
Qed.
End OldSkeleton.

(* the old transcription at the symbolic instance *)
Definition old_run_kf (pats : list (list bool)) : list obs :=
  gauss_run _ (fun p k => old_kf_step _ _ _ _ _ _ _ (ap1 FKfPx) s_kf_upd (inject p (smm k)))
            (fun _ _ st => (s_kf_get_lik st, [])) pats 0 (leaf IOutG) kf_st0.
Definition old_run_ukf (additive : bool) (pats : list (list bool)) : list obs :=
  gauss_run _ (fun p k => old_ukf_step _ _ _ _ _ _ _ _ (ap1 FSigma) s_ut_moments (leaf FPmDefault) (leaf FPxyEmpty)
                                       (ap2 FPmAddNoise) (ap2 FAugment) (ap1 FPmMean) s_ukf_upd additive (inject p (smm k)))
            (fun _ _ st => (s_ukf_get_lik st, [])) pats 0 (leaf IOutG) ukf_st0.
Definition old_run_sukf (sub_ok : bool) (ncalls lcalls : nat) (pats : list (list bool)) : list obs :=
  gauss_run _ (fun p k => old_sukf_step _ _ _ _ _ _ (ap1 FSigma) (ap1 FSukfMean) s_sukf_upd sub_ok ncalls (inject p (smm k)))
            (fun p k st => s_sukf_get_lik lcalls (inject p (smm k)) st) pats 0 (leaf IOutG) sukf_st0.

(* KFCorrection: good step, then measure() fails: step 0's likelihood is still reported as valid *)
Lemma old_kf_stale_likelihood_refuted :
  exists o0 o1, old_run_kf [good6; bad Measure] = [o0; o1] /\
    fails_any (pat_of (bad Measure)) sites4 = true /\
    o_g o1 = leaf (IPredG 1) /\ fst (o_lik o1) = true /\ o_lik o1 = o_lik o0.
Proof. do 2 eexists. split; [vm_compute; reflexivity|]. repeat split. Qed.

(* UKFCorrection (generic): step 0's innovations against the default-constructed predicted_meas_ *)
Lemma old_ukf_stale_likelihood_refuted :
  exists o0 o1 nu0, old_run_ukf false [good6; bad Predicted] = [o0; o1] /\
    fails_any (pat_of (bad Predicted)) sites3 = true /\
    o_g o1 = leaf (IPredG 1) /\
    o_lik o1 = (true, ap2 FUkfLik nu0 (leaf FPmDefault)) /\
    (exists pm0, snd (o_lik o0) = ap2 FUkfLik nu0 pm0).
Proof. do 3 eexists. split; [vm_compute; reflexivity|]. repeat split. eexists; reflexivity. Qed.

(* additive: the noise covariance was fetched and added to the default-constructed output after the failure *)
Lemma old_ukf_additive_postprocesses_failed_transform :
  exists o0 o1 nu0, old_run_ukf true [good6; bad Predicted] = [o0; o1] /\
    o_g o1 = leaf (IPredG 1) /\
    o_lik o1 = (true, ap2 FUkfLik nu0 (ap2 FPmAddNoise (leaf FPmDefault) (leaf IR))) /\
    o_log o1 = [Measure; Predicted; NoiseCov].
Proof. do 3 eexists. split; [vm_compute; reflexivity|]. repeat split. Qed.

(* SUKFCorrection: step 0's innovations next to step 1's raw propagated sigma points *)
Lemma old_sukf_stale_likelihood_refuted ncalls lcalls :
  exists o0 o1 nu0, old_run_sukf true ncalls lcalls [good6; bad Innovation] = [o0; o1] /\
    fails_any (pat_of (bad Innovation)) sites3 = true /\
    o_g o1 = leaf (IPredG 1) /\
    o_lik o1 = (true, Node FSukfLik [nu0; ap1 FH (ap1 FSigma (leaf (IPredG 1))); leaf IR]) /\
    (exists yp0, snd (o_lik o0) = Node FSukfLik [nu0; yp0; leaf IR]).
Proof. do 3 eexists. split; [vm_compute; reflexivity|]. repeat split. eexists; reflexivity. Qed.
