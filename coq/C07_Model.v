(* C07_Model.v — model of Resampling::resample / Resampling::neff
   (Resampling.cpp:60-100), utils::log_sum_exp (utils.h:71-77),
   ResamplingWithPrior::resample / sort_indices (ResamplingWithPrior.cpp:54-117)
   and the concatenation ParticleSet::operator+= (ParticleSet.cpp:54-75) at
   algorithm level (a particle is an opaque payload P = (state, mean,
   covariance); the storage-level view of the concatenation belongs to C11).
   Polymorphic in the scalar arithmetic; no proofs here.  The random offset u1
   drawn from the seeded mt19937_64 is an input. *)
Require Import ZArith List Bool.
Require Import BFL.Ops.
Import ListNotations.

Section C07.
Variable S : SOps.
Notation T := (T S).

(* ---------- Resampling::resample ---------- *)

(* csw(0) = exp(w(0)); csw(i) = csw(i-1) + exp(w(i)), in this order *)
Fixpoint csw_from (acc : T) (l : list T) : list T :=
  match l with
  | [] => []
  | x :: r => let a := sadd S acc (sexp S x) in a :: csw_from a r
  end.
Definition csw (lw : list T) : list T :=
  match lw with
  | [] => []
  | x :: r => sexp S x :: csw_from (sexp S x) r
  end.

(* u_j = u_1 + static_cast<double>(j)/num_particles *)
Definition comb (N : nat) (u1 : T) (j : nat) : T :=
  sadd S u1 (sdiv S (sofnat S j) (sofnat S N)).

(* the guard of the inner while: u_j > csw(idx_csw) && idx_csw < (num_particles - 1) *)
Definition keep_going (c : list T) (N : nat) (uj : T) (idx : nat) : bool :=
  sltb S (nth idx c (s0 S)) uj && (idx <? N - 1)%nat.

(* the inner while loop with explicit fuel (C07_Proofs.advance_fuel: N is enough) *)
Fixpoint advance (fuel : nat) (c : list T) (N : nat) (uj : T) (idx : nat) : nat :=
  match fuel with
  | O => idx
  | Datatypes.S f => if keep_going c N uj idx then advance f c N uj (Datatypes.S idx) else idx
  end.

(* the outer for loop: k iterations left, current j, carried pointer idx *)
Fixpoint res_loop (c : list T) (N : nat) (u1 : T) (k j idx : nat) : list nat :=
  match k with
  | O => []
  | Datatypes.S k' =>
      let idx' := advance N c N (comb N u1 j) idx in
      idx' :: res_loop c N u1 k' (Datatypes.S j) idx'
  end.

Definition res_parents (lw : list T) (u1 : T) : list nat :=
  let N := length lw in res_loop (csw lw) N u1 N 0 0.

(* -std::log(num_particles) *)
Definition log_uniform (N : nat) : T := sopp S (sln S (sofnat S N)).

(* outputs: copies (state, mean, covariance of the selected input), weights, parents.
   N = cor_particles.weight().rows(); an empty input is outside the domain (csw(0)). *)
Definition resample {P : Type} (ps : list P) (lw : list T) (u1 : T)
  : list P * list T * list nat :=
  let N := length lw in
  let par := res_parents lw u1 in
  (match ps with [] => [] | d :: _ => map (fun i => nth i ps d) par end,
   map (fun _ => log_uniform N) par,
   par).

(* The same loop body with the particle spelled out as its three members, as Resampling.cpp:88-90 assigns them
   (state(j), mean(j), covariance(j) each taken from idx_csw).  C07_Proofs.resample3_eq: it is `resample` on
   particle records; this is the entry point the correspondence check runs for the plain variant. *)
Record particle (A B C : Type) := mkParticle { p_state : A; p_mean : B; p_cov : C }.
Arguments mkParticle {A B C}. Arguments p_state {A B C}. Arguments p_mean {A B C}. Arguments p_cov {A B C}.

Definition copy_members {A B C} (ps : list (particle A B C)) (d : particle A B C) (idx : nat) : particle A B C :=
  mkParticle (p_state (nth idx ps d))      (* res_particles.state(j) = cor_particles.state(idx_csw) *)
             (p_mean (nth idx ps d))       (* res_particles.mean(j) = cor_particles.mean(idx_csw) *)
             (p_cov (nth idx ps d)).       (* res_particles.covariance(j) = cor_particles.covariance(idx_csw) *)

Definition resample3 {A B C} (ps : list (particle A B C)) (lw : list T) (u1 : T)
  : list (particle A B C) * list T * list nat :=
  let N := length lw in
  let par := res_parents lw u1 in
  (match ps with [] => [] | d :: _ => map (copy_members ps d) par end,
   map (fun _ => log_uniform N) par,
   par).

(* ---------- Resampling::neff ---------- *)
Definition neff (lw : list T) : T :=
  sdiv S (s1 S) (ssum S (map (fun x => let e := sexp S x in smul S e e) lw)).

(* ---------- utils::log_sum_exp (non-empty vector) ---------- *)
Definition lse (l : list T) : T :=
  match l with
  | [] => s0 S
  | x0 :: r =>
      let mx := smaxl S x0 r in
      sadd S mx (sln S (ssum S (map (fun a => sexp S (ssub S a mx)) l)))
  end.
Definition lse_normalise (l : list T) : list T := let z := lse l in map (fun x => ssub S x z) l.

(* ---------- ParticleSet at algorithm level ---------- *)
(* pcount is the `components` field, pparts the stored columns, plw weight_ *)
Record pset (P : Type) := mkPset { pcount : nat; pparts : list P; plw : list T }.
Arguments mkPset {P}. Arguments pcount {P}. Arguments pparts {P}. Arguments plw {P}.

(* ParticleSet::operator+= / operator+ *)
Definition pconcat {P} (a b : pset P) : pset P :=
  mkPset (pcount a + pcount b) (pparts a ++ pparts b) (plw a ++ plw b).

(* ---------- ResamplingWithPrior ---------- *)

(* sort_indices: indices sorted by increasing key.  std::sort leaves the order
   of equal keys unspecified; this is a stable insertion sort, the check
   compares through the keys when they tie. *)
Fixpoint ins (x : T * nat) (l : list (T * nat)) : list (T * nat) :=
  match l with
  | [] => [x]
  | h :: t => if sleb S (fst x) (fst h) then x :: l else h :: ins x t
  end.
Definition sort_pairs (keys : list T) : list (T * nat) :=
  fold_right ins [] (combine keys (seq 0 (length keys))).
Definition sort_idx (keys : list T) : list nat := map snd (sort_pairs keys).

(* static_cast<int>(std::floor(x)) for 0 <= x, searched downwards from n *)
Fixpoint floor_upto (n : nat) (x : T) : nat :=
  match n with
  | O => O
  | Datatypes.S k => if sleb S (sofnat S (Datatypes.S k)) x then Datatypes.S k else floor_upto k x
  end.

Definition num_prior (N : nat) (ratio : T) : nat := floor_upto N (smul S (sofnat S N) ratio).

(* init n: the payloads of a fresh n-particle set after init_model_->initialize (oracle).
   Returns the merged set and res_parents (-1 = no parent). *)
Definition resample_prior {P : Type} (init : nat -> list P) (ratio : T)
           (ps : list P) (lw : list T) (u1 : T) : pset P * list Z :=
  let N := length ps in                                   (* cor_particles.state().cols() *)
  let np := num_prior N ratio in
  let nr := (N - np)%nat in
  let srt := sort_idx (map (sexp S) lw) in                (* sorted_indices *)
  let kept := skipn np srt in                             (* j >= num_prior_particles *)
  let tmp_ps := match ps with [] => [] | d :: _ => map (fun i => nth i ps d) kept end in
  let tmp_lw := lse_normalise (map (fun i => nth i lw (s0 S)) kept) in
  let '(rps, rlw, rpar) := resample tmp_ps tmp_lw u1 in
  let left := mkPset np (init np) (repeat (sdiv S (s1 S) (sofnat S np)) np) in
  let right := mkPset nr rps rlw in
  let merged := pconcat left right in
  (mkPset (pcount merged) (pparts merged) (map (fun _ => log_uniform N) (plw merged)),
   (* res_parents_right(k) = sorted_indices[res_parents_right(k) + num_prior_particles] *)
   repeat (-1)%Z np ++ map (fun p => Z.of_nat (nth (p + np) srt 0%nat)) rpar).

End C07.
Arguments mkPset {_ P}. Arguments pcount {_ P}. Arguments pparts {_ P}. Arguments plw {_ P}.
Arguments resample {_ P}. Arguments resample3 {_ A B C}.
Arguments mkParticle {A B C}. Arguments p_state {A B C}. Arguments p_mean {A B C}. Arguments p_cov {A B C}.
Arguments copy_members {A B C}. Arguments resample_prior {_ P}. Arguments pconcat {_ P}.
