(* C07_Rounding.v — "... differs from N times its weight by less than one UP TO
   ROUNDING OF THE CUMULATIVE WEIGHTS".

   The carried-pointer loop of Resampling::resample (model: res_loop) is run on an
   ARBITRARY list c of cumulative weights — in particular the doubles the running
   sum csw(i) = csw(i-1) + exp(w(i)) really produces, read as real numbers — that
   is only required to be non-decreasing and non-negative (true of a running sum of
   non-negative terms under any monotone rounding).  Nothing is assumed about its
   last entry: it may fall short of the last comb point (then only the guard
   idx < N-1 stops the pointer and the surplus goes to the last particle) or
   exceed 1.

   clamp c := c with every entry cut at 1 and the last one set to 1.
   - res_loop_clamp : the loop cannot tell c from clamp c (all comb points are < 1);
   - count_bound_cumulative : particle i is selected a number of times that differs
     from N (ĉ_i - ĉ_{i-1}) by less than one, ĉ = clamp c;
   - count_bound_rounded : if every c_i is within delta of the exact cumulative
     weight C_i = w_0 + ... + w_i (sum 1) then |count_i - N w_i| < 1 + 2 N delta.
   The comb points u_j = u1 + j/N are exact here (the property's wording is about
   the cumulative weights only). *)
Require Import Reals ZArith List Bool Lia Lra.
Require Import BFL.Ops BFL.C07_Model BFL.C07_ROps BFL.C07_Proofs.
Import ListNotations.
Local Open Scope R_scope.

(* acc <= l_0 <= l_1 <= ... *)
Fixpoint chain (acc : R) (l : list R) : Prop :=
  match l with [] => True | y :: r => acc <= y /\ chain y r end.

(* every entry cut at 1, the last one set to 1 *)
Fixpoint clamp (l : list R) : list R :=
  match l with
  | [] => []
  | x :: r => match r with [] => [1] | _ :: _ => Rmin x 1 :: clamp r end
  end.

(* successive differences, starting from prev *)
Fixpoint diffs_from (prev : R) (l : list R) : list R :=
  match l with [] => [] | y :: r => (y - prev) :: diffs_from y r end.

Lemma clamp_length l : length (clamp l) = length l.
Proof. induction l as [|x r IH]; [reflexivity|]. destruct r; [reflexivity|]. simpl in *. rewrite IH. reflexivity. Qed.

Lemma clamp_nth l i : (i < length l)%nat ->
  nth i (clamp l) 0 = if (i =? length l - 1)%nat then 1 else Rmin (nth i l 0) 1.
Proof.
  revert i; induction l as [|x r IH]; intros i H; [simpl in H; lia|].
  destruct r as [|y r'].
  - simpl in H. assert (i = 0)%nat by lia. subst. reflexivity.
  - change (clamp (x :: y :: r')) with (Rmin x 1 :: clamp (y :: r')).
    destruct i.
    + reflexivity.
    + simpl nth. rewrite IH by (simpl in *; lia).
      replace (Datatypes.S i =? length (x :: y :: r') - 1)%nat with (i =? length (y :: r') - 1)%nat; [reflexivity|].
      simpl length. destruct (Nat.eqb_spec i (Datatypes.S (length r') - 1)), (Nat.eqb_spec (Datatypes.S i) (Datatypes.S (Datatypes.S (length r')) - 1)); auto; lia.
Qed.

Lemma clamp_chain l a a' : chain a l -> a' <= a -> a' <= 1 -> chain a' (clamp l).
Proof.
  revert a a'; induction l as [|x r IH]; intros a a' Hc H1 H2; [exact I|].
  destruct Hc as [Hax Hc]. destruct r as [|y r'].
  - simpl. split; [exact H2 | exact I].
  - change (clamp (x :: y :: r')) with (Rmin x 1 :: clamp (y :: r')). split.
    + apply Rmin_glb; lra.
    + apply (IH x); [exact Hc | apply Rmin_l | apply Rmin_r].
Qed.

Lemma clamp_last l : l <> [] -> nth (length l - 1) (clamp l) 0 = 1.
Proof.
  intro H. rewrite clamp_nth by (destruct l; [congruence | simpl; lia]). rewrite Nat.eqb_refl. reflexivity.
Qed.

(* ---- the loop cannot tell c from clamp c ---- *)
Section Loop.
Variable e : R -> R.
Notation SE := (ROpsE e).

Lemma keep_going_clamp c N uj idx : length c = N -> uj < 1 ->
  keep_going SE (clamp c) N uj idx = keep_going SE c N uj idx.
Proof.
  intros HN Hu. unfold keep_going. destruct (idx <? N - 1)%nat eqn:G; [|rewrite !andb_false_r; reflexivity].
  apply Nat.ltb_lt in G. rewrite !andb_true_r. change (s0 SE) with 0. rewrite clamp_nth by lia.
  replace (idx =? length c - 1)%nat with false by (symmetry; apply Nat.eqb_neq; lia).
  change (Rltb (Rmin (nth idx c 0) 1) uj = Rltb (nth idx c 0) uj).
  destruct (Rltb (nth idx c 0) uj) eqn:E.
  - apply Rltb_true in E. apply Rltb_true. eapply Rle_lt_trans; [apply Rmin_l | exact E].
  - apply Rltb_false in E. apply Rltb_false. apply Rmin_glb; lra.
Qed.

Lemma advance_clamp f c N uj idx : length c = N -> uj < 1 ->
  advance SE f (clamp c) N uj idx = advance SE f c N uj idx.
Proof.
  intros HN Hu. revert idx; induction f; intro idx; simpl; [reflexivity|].
  rewrite keep_going_clamp by assumption. destruct (keep_going SE c N uj idx); [apply IHf | reflexivity].
Qed.

Lemma comb_lt_1 N (u1 : R) j : (0 < N)%nat -> u1 * INR N < 1 -> (j < N)%nat -> comb SE N u1 j < 1.
Proof.
  intros HN Hu Hj. rewrite comb_R. assert (HNR : 0 < INR N) by (apply lt_0_INR; exact HN).
  assert (INR j + 1 <= INR N) by (rewrite <- S_INR; apply le_INR; lia).
  apply Rmult_lt_reg_r with (INR N); auto.
  replace ((u1 + INR j / INR N) * INR N) with (u1 * INR N + INR j) by (field; lra). lra.
Qed.

Lemma res_loop_clamp c N u1 k j idx : length c = N -> (0 < N)%nat -> u1 * INR N < 1 -> (j + k <= N)%nat ->
  res_loop SE (clamp c) N u1 k j idx = res_loop SE c N u1 k j idx.
Proof.
  intros HN Hp Hu. revert j idx; induction k; intros j idx Hjk; [reflexivity|]. simpl.
  rewrite advance_clamp by (auto; apply comb_lt_1; auto; lia).
  f_equal. apply IHk. lia.
Qed.

End Loop.

(* the loop does not depend on which exponential the instance carries *)
Lemma advance_indep e e' f (c : list R) N (uj : R) i :
  advance (ROpsE e) f c N uj i = advance (ROpsE e') f c N uj i.
Proof.
  revert i; induction f; intro i; [reflexivity|]. cbn [advance].
  change (keep_going (ROpsE e) c N uj i) with (keep_going (ROpsE e') c N uj i).
  destruct (keep_going (ROpsE e') c N uj i); [apply IHf | reflexivity].
Qed.

Lemma res_loop_indep e e' (c : list R) N (u1 : R) k j idx :
  res_loop (ROpsE e) c N u1 k j idx = res_loop (ROpsE e') c N u1 k j idx.
Proof.
  revert j idx; induction k; intros j idx; [reflexivity|]. cbn [res_loop].
  change (comb (ROpsE e) N u1 j) with (comb (ROpsE e') N u1 j).
  rewrite (advance_indep e e'), IHk. reflexivity.
Qed.

(* ---- a chain starting at >= 0 is the cumulative-weight list of its differences (weights |d| = d) ---- *)
Notation SA := (ROpsE Rabs).

Lemma csw_from_diffs acc l : chain acc l -> csw_from SA acc (diffs_from acc l) = l.
Proof.
  revert acc; induction l as [|y r IH]; intros acc Hc; [reflexivity|]. destruct Hc as [H1 H2].
  simpl. change (sexp SA (y - acc)) with (Rabs (y - acc)). change (sadd SA acc (Rabs (y - acc))) with (acc + Rabs (y - acc)).
  rewrite Rabs_right by lra. replace (acc + (y - acc)) with y by lra. f_equal. apply IH. exact H2.
Qed.

Lemma csw_diffs l : chain 0 l -> csw SA (diffs_from 0 l) = l.
Proof.
  destruct l as [|y r]; intro Hc; [reflexivity|]. destruct Hc as [H1 H2]. simpl.
  change (sexp SA (y - 0)) with (Rabs (y - 0)). rewrite Rabs_right by lra. replace (y - 0) with y by lra.
  f_equal. apply csw_from_diffs. exact H2.
Qed.

Lemma diffs_length a l : length (diffs_from a l) = length l.
Proof. revert a; induction l; intro a0; simpl; auto. Qed.

Lemma Rabs_nonneg_fun : forall x, 0 <= Rabs x. Proof. exact Rabs_pos. Qed.

(* ---- the count bound for arbitrary (rounded) cumulative weights ---- *)
Theorem count_bound_cumulative (e : R -> R) (c : list R) (u1 : R) :
  let N := length c in
  (0 < N)%nat -> chain 0 c -> 0 < u1 -> u1 * INR N < 1 ->
  forall i, (i < N)%nat ->
  Rabs (INR (count_occ Nat.eq_dec (res_loop (ROpsE e) c N u1 N 0 0) i)
        - INR N * (nth i (clamp c) 0 - match i with O => 0 | Datatypes.S i' => nth i' (clamp c) 0 end)) < 1.
Proof.
  intros N Npos Hch Hu0 Hu1 i Hi.
  set (ch := clamp c). set (lw := diffs_from 0 ch).
  assert (Hchc : chain 0 ch) by (apply (clamp_chain c 0 0); auto; lra).
  assert (Lch : length ch = N) by apply clamp_length.
  assert (Llw : length lw = N) by (unfold lw; rewrite diffs_length; exact Lch).
  assert (Ecs : csw SA lw = ch) by (apply csw_diffs; exact Hchc).
  (* the weights |d_i| sum to the last cumulative weight, 1 *)
  assert (Hsum : sumR (map Rabs lw) = 1).
  { rewrite <- (psum_all (map Rabs lw) N) by (rewrite map_length; lia).
    replace N with (Datatypes.S (N - 1)) at 1 by lia.
    rewrite <- (csw_nth Rabs lw (N - 1)) by lia. rewrite Ecs. unfold ch, N. apply clamp_last.
    intro E0. unfold N in Npos. rewrite E0 in Npos. simpl in Npos. lia. }
  pose proof (count_bound_statement Rabs lw u1 Rabs_nonneg_fun) as CB.
  rewrite Llw in CB. specialize (CB Npos Hsum Hu0 Hu1 i Hi).
  (* the parents: res_parents on lw = the loop on ch = the loop on c *)
  assert (Epar : res_parents SA lw u1 = res_loop (ROpsE e) c N u1 N 0 0).
  { change (res_parents SA lw u1) with (res_loop SA (csw SA lw) (length lw) u1 (length lw) 0 0).
    rewrite Llw, Ecs. unfold ch.
    rewrite (res_loop_clamp Rabs c N u1 N 0 0 eq_refl Npos Hu1) by lia. apply res_loop_indep. }
  rewrite Epar in CB.
  (* the weight of i is the difference of consecutive clamped cumulative weights *)
  assert (Ew : Rabs (nth i lw 0) = nth i ch 0 - match i with O => 0 | Datatypes.S i' => nth i' ch 0 end).
  { assert (St : psum (map Rabs lw) (Datatypes.S i) = psum (map Rabs lw) i + Rabs (nth i lw 0)).
    { rewrite psum_step by (rewrite map_length; lia). f_equal.
      rewrite (nth_indep _ 0 (Rabs 0)) by (rewrite map_length; lia). apply map_nth. }
    rewrite <- (csw_nth Rabs lw i) in St by lia. rewrite Ecs in St.
    destruct i as [|i'].
    - change (psum (map Rabs lw) 0) with 0 in St. change (T SA) with R in St. lra.
    - rewrite <- (csw_nth Rabs lw i') in St by lia. rewrite Ecs in St. change (T SA) with R in St. lra. }
  rewrite Ew in CB. exact CB.
Qed.

(* ---- ... hence within 1 + 2 N delta of N w_i when c is within delta of the exact cumulative weights ---- *)
Lemma Rabs_le_both x a : Rabs x <= a <-> - a <= x <= a.
Proof. unfold Rabs. destruct (Rcase_abs x); split; intros; lra. Qed.

Lemma clamp_close (c : list R) (C : nat -> R) (delta : R) i :
  (i < length c)%nat -> C i <= 1 -> C (length c - 1)%nat = 1 ->
  Rabs (nth i c 0 - C i) <= delta -> Rabs (nth i (clamp c) 0 - C i) <= delta.
Proof.
  intros Hi HC1 HCl Hd. rewrite clamp_nth by exact Hi.
  destruct (Nat.eqb_spec i (length c - 1)) as [->|Hne].
  - rewrite HCl. rewrite Rminus_diag_eq by reflexivity. rewrite Rabs_R0.
    eapply Rle_trans; [apply Rabs_pos | exact Hd].
  - unfold Rmin. destruct (Rle_dec (nth i c 0) 1) as [L|L]; [exact Hd|].
    apply Rnot_le_lt in L. apply Rabs_le_both in Hd.
    apply Rabs_le_both. lra.
Qed.

Theorem count_bound_rounded (e : R -> R) (w c : list R) (u1 delta : R) :
  let N := length c in
  (0 < N)%nat -> length w = N -> (forall x, In x w -> 0 <= x) -> sumR w = 1 ->
  chain 0 c -> 0 < u1 -> u1 * INR N < 1 ->
  (forall i, (i < N)%nat -> Rabs (nth i c 0 - psum w (Datatypes.S i)) <= delta) ->
  forall i, (i < N)%nat ->
  Rabs (INR (count_occ Nat.eq_dec (res_loop (ROpsE e) c N u1 N 0 0) i) - INR N * nth i w 0) < 1 + 2 * INR N * delta.
Proof.
  intros N Npos Lw Wn Ws Hch Hu0 Hu1 Hd i Hi.
  pose proof (count_bound_cumulative e c u1 Npos Hch Hu0 Hu1 i Hi) as CB. fold N in CB.
  assert (HNR : 0 < INR N) by (apply lt_0_INR; exact Npos).
  set (C := fun t => psum w (Datatypes.S t)).
  assert (HC1 : forall t, C t <= 1).
  { intro t. unfold C. rewrite <- Ws. destruct (le_lt_dec (length w) (Datatypes.S t)).
    - rewrite psum_all by lia. lra.
    - rewrite <- (psum_all w (length w)) by lia. apply psum_mono; [exact Wn | lia]. }
  assert (HCl : C (length c - 1)%nat = 1).
  { unfold C. fold N. replace (Datatypes.S (N - 1)) with N by lia. rewrite psum_all by lia. exact Ws. }
  assert (Hcl : forall t, (t < N)%nat -> Rabs (nth t (clamp c) 0 - C t) <= delta).
  { intros t Ht. apply clamp_close; [exact Ht | apply HC1 | exact HCl | exact (Hd t Ht)]. }
  assert (Hstep : nth i w 0 = C i - match i with O => 0 | Datatypes.S i' => C i' end).
  { unfold C. rewrite psum_step by lia. destruct i; simpl; lra. }
  pose proof (Hcl i Hi) as D1. apply Rabs_le_both in D1.
  assert (D2 : Rabs (match i with O => 0 | Datatypes.S i' => nth i' (clamp c) 0 end
                     - match i with O => 0 | Datatypes.S i' => C i' end) <= delta).
  { destruct i as [|i'].
    - rewrite Rminus_diag_eq by reflexivity. rewrite Rabs_R0. pose proof (Hcl 0%nat Hi) as D0.
      eapply Rle_trans; [apply Rabs_pos | exact D0].
    - apply Hcl. lia. }
  apply Rabs_le_both in D2. apply Rabs_def2 in CB. rewrite Hstep.
  apply Rabs_def1; nra.
Qed.
