(* C20_Proofs.v — proofs about the ownership machine of C20_Model.v.
   Plain lists / nat / Z; no axioms.

   Ownership is stated with multiplicities: cnt x l = number of occurrences
   of x in l.  "every live location is referenced by exactly one live
   container and no container references a freed location" is the single
   equation  cnt x (refs pool) = cnt x (keys heap)  together with
   cnt x (keys heap) <= 1;  the readable forms are derived below. *)
Require Import ZArith List Bool Arith Lia Permutation.
Require Import BFL.C20_Model.
Import ListNotations.

(* ------------------------------------------------------------------ counting *)

Fixpoint cnt (x : nat) (l : list nat) : nat :=
  match l with
  | [] => 0
  | y :: r => (if Nat.eqb y x then 1 else 0) + cnt x r
  end.

Lemma cnt_app x a b : cnt x (a ++ b) = cnt x a + cnt x b.
Proof. induction a; simpl; lia. Qed.

Lemma cnt_count_occ x l : cnt x l = count_occ Nat.eq_dec l x.
Proof.
  induction l as [|y r IH]; simpl; auto.
  destruct (Nat.eq_dec y x) as [e|ne].
  - subst. rewrite Nat.eqb_refl. lia.
  - apply Nat.eqb_neq in ne. rewrite ne. lia.
Qed.

Lemma cnt_In x l : In x l <-> 1 <= cnt x l.
Proof. rewrite cnt_count_occ. rewrite (count_occ_In Nat.eq_dec). lia. Qed.

Lemma cnt_perm a b : (forall x, cnt x a = cnt x b) -> Permutation a b.
Proof.
  intro H. apply (Permutation_count_occ Nat.eq_dec). intro x.
  rewrite <- !cnt_count_occ. apply H.
Qed.

Lemma cnt_nodup l : (forall x, cnt x l <= 1) -> NoDup l.
Proof.
  intro H. apply (NoDup_count_occ Nat.eq_dec). intro x. rewrite <- cnt_count_occ. apply H.
Qed.

(* ------------------------------------------------------------------ heap *)

Definition keys (h : heap) : list loc := map fst h.
Definition olist (p : option loc) : list loc := match p with Some l => [l] | None => [] end.
Definition srefs (s : slot) : list loc := match s with Live (Some l) => [l] | _ => [] end.
Definition refs (p : list slot) : list loc := flat_map srefs p.

Lemma hget_cnt l h : hget l h <> None <-> 1 <= cnt l (keys h).
Proof.
  induction h as [|[k c] r IH]; simpl.
  - split; [congruence | lia].
  - destruct (Nat.eqb k l); simpl.
    + split; [lia | congruence].
    + rewrite IH. lia.
Qed.

Lemma hget_none_cnt l h : hget l h = None <-> cnt l (keys h) = 0.
Proof.
  pose proof (hget_cnt l h). destruct (hget l h).
  - split; [intro; discriminate|]. intro. assert (1 <= cnt l (keys h)) by (apply H; congruence). lia.
  - split; auto. intros _. destruct (cnt l (keys h)) eqn:E; auto.
    exfalso. assert (@None cell <> None) by (apply H; lia). congruence.
Qed.

Lemma cnt_keys_hrem x l h : cnt x (keys (hrem l h)) = if Nat.eqb l x then 0 else cnt x (keys h).
Proof.
  induction h as [|[k c] r IH]; simpl.
  - destruct (Nat.eqb l x); auto.
  - destruct (Nat.eqb_spec k l) as [e|ne]; simpl.
    + subst. rewrite IH. destruct (Nat.eqb_spec l x); lia.
    + rewrite IH. destruct (Nat.eqb_spec l x); destruct (Nat.eqb_spec k x); subst; try lia; congruence.
Qed.

Lemma hget_hrem_other x l h : l <> x -> hget x (hrem l h) = hget x h.
Proof.
  intro ne. induction h as [|[k c] r IH]; simpl; auto.
  destruct (Nat.eqb_spec k l) as [e|n1]; simpl.
  - subst. destruct (Nat.eqb_spec l x); [congruence|]. auto.
  - rewrite IH. auto.
Qed.

Lemma keys_hset l c h : keys (hset l c h) = keys h.
Proof.
  induction h as [|[k c0] r IH]; simpl; auto.
  destruct (Nat.eqb k l); simpl; congruence.
Qed.

Lemma hget_hset_same l c h : hget l h <> None -> hget l (hset l c h) = Some c.
Proof.
  induction h as [|[k c0] r IH]; simpl; [congruence|].
  destruct (Nat.eqb_spec k l) as [e|ne]; simpl.
  - subst. rewrite Nat.eqb_refl. auto.
  - apply Nat.eqb_neq in ne. rewrite ne. auto.
Qed.

Lemma hget_hset_other x l c h : l <> x -> hget x (hset l c h) = hget x h.
Proof.
  intro ne. induction h as [|[k c0] r IH]; simpl; auto.
  destruct (Nat.eqb_spec k l) as [e|n1]; simpl.
  - subst. apply Nat.eqb_neq in ne. rewrite ne. auto.
  - rewrite IH. auto.
Qed.

(* ------------------------------------------------------------------ pool *)

Lemma length_upd {A} d (v : A) l : length (upd d v l) = length l.
Proof. revert d; induction l; destruct d; simpl; auto. Qed.

Lemma nth_upd {A} e d (v dflt : A) l :
  nth e (upd d v l) dflt = if Nat.eqb d e && Nat.ltb d (length l) then v else nth e l dflt.
Proof.
  revert e d; induction l as [|a r IH]; intros e d; simpl.
  - destruct d, e; simpl; auto; rewrite andb_false_r; auto.
  - destruct d, e; simpl; auto. rewrite IH. reflexivity.
Qed.

Lemma nth_upd_same {A} d (v dflt : A) l : d < length l -> nth d (upd d v l) dflt = v.
Proof. intro H. rewrite nth_upd, Nat.eqb_refl. apply Nat.ltb_lt in H. rewrite H. auto. Qed.

Lemma nth_upd_other {A} e d (v dflt : A) l : d <> e -> nth e (upd d v l) dflt = nth e l dflt.
Proof. intro H. rewrite nth_upd. apply Nat.eqb_neq in H. rewrite H. auto. Qed.

Lemma upd_same {A} d (dflt : A) l : upd d (nth d l dflt) l = l.
Proof. revert d; induction l; destruct d; simpl; auto. f_equal. auto. Qed.

Lemma map_upd {A B} (f : A -> B) d v l : map f (upd d v l) = upd d (f v) (map f l).
Proof. revert d; induction l; destruct d; simpl; auto. f_equal. auto. Qed.

Lemma cnt_refs_upd x d s p :
  d < length p ->
  cnt x (refs (upd d s p)) + cnt x (srefs (nth d p Dead)) = cnt x (refs p) + cnt x (srefs s).
Proof.
  revert d; induction p as [|a r IH]; intros d H; simpl in *; [lia|].
  destruct d; simpl; rewrite !cnt_app.
  - lia.
  - specialize (IH d ltac:(lia)). fold (refs r) in *. fold (refs (upd d s r)). lia.
Qed.

Lemma cnt_refs_nth d l p : nth d p Dead = Live (Some l) -> 1 <= cnt l (refs p).
Proof.
  revert d; induction p as [|a r IH]; intros d H; simpl in *.
  - destruct d; discriminate.
  - rewrite cnt_app. destruct d.
    + subst. simpl. rewrite Nat.eqb_refl. lia.
    + specialize (IH d H). fold (refs r). lia.
Qed.

Lemma cnt_refs_two d e l p :
  d <> e -> nth d p Dead = Live (Some l) -> nth e p Dead = Live (Some l) -> 2 <= cnt l (refs p).
Proof.
  revert d e; induction p as [|a r IH]; intros d e ne Hd He; simpl in *.
  - destruct d; discriminate.
  - rewrite cnt_app. fold (refs r). destruct d, e; try congruence.
    + subst. simpl. rewrite Nat.eqb_refl. pose proof (cnt_refs_nth _ _ _ He). lia.
    + subst. simpl. rewrite Nat.eqb_refl. pose proof (cnt_refs_nth _ _ _ Hd). lia.
    + assert (d <> e) by lia. specialize (IH d e H Hd He). lia.
Qed.

Lemma cnt_refs_ex l p : 1 <= cnt l (refs p) -> exists d, nth d p Dead = Live (Some l).
Proof.
  induction p as [|a r IH]; simpl; [lia|].
  rewrite cnt_app. fold (refs r). intro H.
  destruct a as [|[k|]]; simpl in H.
  - destruct (IH ltac:(lia)) as [d Hd]. exists (S d). auto.
  - destruct (Nat.eqb_spec k l).
    + subst. exists 0. auto.
    + destruct (IH ltac:(lia)) as [d Hd]. exists (S d). auto.
  - destruct (IH ltac:(lia)) as [d Hd]. exists (S d). auto.
Qed.

Lemma nth_live_lt d (p : list slot) c : nth d p Dead = Live c -> d < length p.
Proof.
  intro H. destruct (Nat.lt_ge_cases d (length p)); auto.
  rewrite nth_overflow in H by lia. discriminate.
Qed.

Lemma refs_repeat_dead n : refs (repeat Dead n) = [].
Proof. induction n; simpl; auto. Qed.

(* ------------------------------------------------------------------ invariant *)

(* X: locations owned by temporaries of type `any` in the middle of a member function *)
Record invx (X : list loc) (st : state) : Prop := {
  ix_own : forall x, cnt x (refs (st_pool st)) + cnt x X = cnt x (keys (st_heap st));
  ix_log : forall x, cnt x (st_alog st) = cnt x (st_dlog st) + cnt x (keys (st_heap st));
  ix_once : forall x, cnt x (st_alog st) <= 1;
  ix_fresh : forall x, st_next st <= x -> cnt x (st_alog st) = 0;
  ix_nofault : st_faults st = []
}.

Definition inv (st : state) : Prop := invx [] st.

Lemma inv_init n : inv (init n).
Proof.
  constructor; simpl; intros; auto. rewrite refs_repeat_dead. auto.
Qed.

Lemma ix_key1 X st x : invx X st -> cnt x (keys (st_heap st)) <= 1.
Proof. intros [_ Hl Ho _ _]. specialize (Hl x). specialize (Ho x). lia. Qed.

Lemma ix_key_lt X st x : invx X st -> 1 <= cnt x (keys (st_heap st)) -> x < st_next st.
Proof.
  intros [_ Hl _ Hf _] H. destruct (Nat.lt_ge_cases x (st_next st)); auto.
  specialize (Hf x H0). specialize (Hl x). lia.
Qed.

(* no container references a freed location *)
Lemma inv_owned X st d l : invx X st -> pget d st = Live (Some l) -> exists c, hget l (st_heap st) = Some c.
Proof.
  intros I H. unfold pget in H. apply cnt_refs_nth in H.
  pose proof (ix_own _ _ I l).
  destruct (hget l (st_heap st)) eqn:E; eauto.
  apply hget_none_cnt in E. lia.
Qed.

(* a location is referenced by at most one container *)
Lemma inv_unique X st d e l : invx X st -> pget d st = Live (Some l) -> pget e st = Live (Some l) -> d = e.
Proof.
  intros I Hd He. destruct (Nat.eq_dec d e); auto. exfalso.
  pose proof (cnt_refs_two _ _ _ _ n Hd He).
  pose proof (ix_own _ _ I l). pose proof (ix_key1 _ _ l I). lia.
Qed.

(* every live location is referenced by a container (or a temporary) *)
Lemma inv_no_orphan st l c : inv st -> hget l (st_heap st) = Some c -> exists d, pget d st = Live (Some l).
Proof.
  intros I H. apply cnt_refs_ex.
  pose proof (ix_own _ _ I l). simpl in H0.
  assert (hget l (st_heap st) <> None) by congruence. apply hget_cnt in H1. lia.
Qed.

Lemma inv_owned_lt X st d l : invx X st -> pget d st = Live (Some l) -> l < st_next st.
Proof.
  intros I H. destruct (inv_owned _ _ _ _ I H) as [c Hc].
  apply (ix_key_lt _ _ _ I). apply hget_cnt. congruence.
Qed.

(* ------------------------------------------------------------------ views *)

Lemma nth_views e st : nth e (views st) VDead = view_of e st.
Proof.
  unfold views, view_of, pget. change VDead with (vslot (st_heap st) Dead). apply map_nth.
Qed.

Lemma length_views st : length (views st) = length (st_pool st).
Proof. unfold views. apply map_length. Qed.

Lemma views_ext st' vs :
  length (st_pool st') = length vs -> (forall e, view_of e st' = nth e vs VDead) -> views st' = vs.
Proof.
  intros Hl H. apply (nth_ext _ _ VDead VDead).
  - rewrite length_views. auto.
  - intros e _. rewrite nth_views. auto.
Qed.

Lemma vslot_frame h h' s : (forall l, s = Live (Some l) -> hget l h' = hget l h) -> vslot h' s = vslot h s.
Proof. destruct s as [|[l|]]; simpl; auto. intro H. rewrite (H l eq_refl). auto. Qed.

Lemma vlive_view d st : vlive (view_of d st) = is_live d st.
Proof.
  unfold view_of, is_live. destruct (pget d st) as [|[l|]]; simpl; auto.
  destruct (hget l (st_heap st)) as [[t v]|]; auto.
Qed.

Lemma vfree_views d st : vfree d (views st) = is_free d st.
Proof. unfold vfree, is_free, vget. rewrite nth_views, length_views, vlive_view. auto. Qed.

(* ------------------------------------------------------------------ primitives *)

Ltac eqb_cases :=
  repeat match goal with
         | |- context [Nat.eqb ?a ?b] => destruct (Nat.eqb_spec a b); subst
         | H : context [Nat.eqb ?a ?b] |- _ => destruct (Nat.eqb_spec a b); subst
         end.

Lemma alloc_ok X st c : invx X st -> invx (st_next st :: X) (snd (alloc c st)).
Proof.
  intros I. pose proof (ix_fresh _ _ I) as Hf.
  constructor; simpl; try intro x.
  - pose proof (ix_own _ _ I x). lia.
  - pose proof (ix_log _ _ I x). lia.
  - pose proof (ix_once _ _ I x). destruct (Nat.eqb_spec (st_next st) x); [|lia].
    subst. rewrite (Hf (st_next st)); lia.
  - intro H. destruct (Nat.eqb_spec (st_next st) x); [lia|]. apply Hf. lia.
  - apply (ix_nofault _ _ I).
Qed.

Lemma delete_eq X st l : invx (l :: X) st ->
  delete_content (Some l) st =
  mkSt (hrem l (st_heap st)) (st_next st) (st_alog st) (l :: st_dlog st) (st_pool st) (st_faults st).
Proof.
  intro I. unfold delete_content.
  destruct (hget l (st_heap st)) eqn:E; auto.
  apply hget_none_cnt in E. pose proof (ix_own _ _ I l). simpl in H. rewrite Nat.eqb_refl in H. lia.
Qed.

Lemma delete_ok X st l : invx (l :: X) st -> invx X (delete_content (Some l) st).
Proof.
  intro I. rewrite (delete_eq _ _ _ I).
  pose proof (ix_key1 _ _ l I) as K1.
  pose proof (ix_own _ _ I l) as Ol. simpl in Ol. rewrite Nat.eqb_refl in Ol.
  constructor; simpl; try intro x.
  - rewrite cnt_keys_hrem. pose proof (ix_own _ _ I x) as Ox. simpl in Ox.
    destruct (Nat.eqb_spec l x); subst; lia.
  - rewrite cnt_keys_hrem. pose proof (ix_log _ _ I x).
    destruct (Nat.eqb_spec l x); subst; lia.
  - apply (ix_once _ _ I).
  - apply (ix_fresh _ _ I).
  - apply (ix_nofault _ _ I).
Qed.

Lemma delete_opt_ok X st p : invx (olist p ++ X) st -> invx X (delete_content p st).
Proof. destruct p; simpl; auto. apply delete_ok. Qed.

Lemma pset_ok X st d s :
  d < length (st_pool st) -> invx (srefs s ++ X) st -> invx (srefs (pget d st) ++ X) (pset d s st).
Proof.
  intros Hd I. constructor; simpl; try apply I.
  intro x. pose proof (cnt_refs_upd x d s _ Hd). pose proof (ix_own _ _ I x).
  rewrite cnt_app in *. unfold pget. lia.
Qed.

(* a location owned by a temporary is not referenced by any container *)
Lemma temp_not_in_pool X st l e : invx (l :: X) st -> pget e st <> Live (Some l).
Proof.
  intros I H. apply cnt_refs_nth in H. pose proof (ix_own _ _ I l). pose proof (ix_key1 _ _ l I).
  simpl in H0. rewrite Nat.eqb_refl in H0. lia.
Qed.

Lemma is_live_lt d st : is_live d st = true -> d < length (st_pool st).
Proof.
  unfold is_live, pget. intro H. destruct (nth d (st_pool st) Dead) eqn:E; [discriminate|].
  eapply nth_live_lt; eauto.
Qed.

Lemma is_live_content d st : is_live d st = true -> pget d st = Live (content d st).
Proof. unfold is_live, content. destruct (pget d st); auto; discriminate. Qed.

Lemma is_free_lt d st : is_free d st = true -> d < length (st_pool st) /\ pget d st = Dead.
Proof.
  unfold is_free, is_live. intro H. apply andb_prop in H. destruct H as [H1 H2].
  apply Nat.ltb_lt in H1. split; auto. destruct (pget d st); auto; discriminate.
Qed.

Lemma srefs_live c : srefs (Live c) = olist c.
Proof. destruct c; auto. Qed.

(* ------------------------------------------------------------------ views through the primitives *)

Lemma view_pset e d s st :
  view_of e (pset d s st) =
  if Nat.eqb d e && Nat.ltb d (length (st_pool st)) then vslot (st_heap st) s else view_of e st.
Proof.
  unfold view_of, pget, pset; simpl. rewrite nth_upd.
  destruct (Nat.eqb d e && Nat.ltb d (length (st_pool st))); auto.
Qed.

Lemma view_alloc X e c st : invx X st -> view_of e (snd (alloc c st)) = view_of e st.
Proof.
  intro I. unfold view_of, pget; simpl. apply vslot_frame. intros l H.
  pose proof (inv_owned_lt _ _ _ _ I H). simpl.
  destruct (Nat.eqb_spec (st_next st) l); auto. lia.
Qed.

Lemma view_delete X e l st : invx (l :: X) st -> view_of e (delete_content (Some l) st) = view_of e st.
Proof.
  intro I. rewrite (delete_eq _ _ _ I). unfold view_of, pget; simpl. apply vslot_frame. intros l' H.
  apply hget_hrem_other. intro; subst. eapply temp_not_in_pool; eauto.
Qed.

Lemma view_delete_opt X e p st : invx (olist p ++ X) st -> view_of e (delete_content p st) = view_of e st.
Proof. destruct p; simpl; auto. apply view_delete. Qed.

Lemma pool_delete p st : st_pool (delete_content p st) = st_pool st.
Proof. destruct p; simpl; auto. destruct (hget l (st_heap st)); auto. Qed.

Lemma clone_some l c st : hget l (st_heap st) = Some c -> clone (Some l) st = (Some (st_next st), snd (alloc c st)).
Proof. intro H. unfold clone. rewrite H. reflexivity. Qed.

Lemma view_holds d l t v st : pget d st = Live (Some l) -> hget l (st_heap st) = Some (t, v) -> view_of d st = VHolds t v.
Proof. intros H1 H2. unfold view_of. rewrite H1. simpl. rewrite H2. auto. Qed.

Lemma view_empty d st : pget d st = Live None -> view_of d st = VEmpty.
Proof. intros H. unfold view_of. rewrite H. auto. Qed.

Lemma pset_comm d e a b st : d <> e -> pset d a (pset e b st) = pset e b (pset d a st).
Proof.
  intro ne. unfold pset; simpl. f_equal.
  generalize (st_pool st) as p. clear st. revert e ne.
  induction d; intros e ne p; destruct p, e; simpl; auto; try congruence.
  f_equal. apply IHd. lia.
Qed.

(* ------------------------------------------------------------------ the member functions *)

Ltac views_goal :=
  apply views_ext; [ simpl; rewrite ?pool_delete; simpl; rewrite ?length_upd, ?length_views; auto | intro e ].

Lemma default_ok st d : inv st -> is_free d st = true ->
  inv (m_default d st) /\ views (m_default d st) = upd d VEmpty (views st).
Proof.
  intros I F. destruct (is_free_lt _ _ F) as [Hlt Hd]. unfold m_default. split.
  - pose proof (pset_ok [] st d (Live None) Hlt I) as H. rewrite Hd in H. exact H.
  - views_goal. rewrite view_pset, nth_upd, nth_views, length_views. auto.
Qed.

Lemma value_ctor_ok st d t v : inv st -> is_free d st = true ->
  inv (m_value_ctor d t v st) /\ views (m_value_ctor d t v st) = upd d (VHolds t v) (views st).
Proof.
  intros I F. destruct (is_free_lt _ _ F) as [Hlt Hd]. unfold m_value_ctor.
  change (alloc (t, v) st) with (st_next st, snd (alloc (t, v) st)). cbv iota beta.
  pose proof (alloc_ok [] st (t, v) I) as I1. split.
  - pose proof (pset_ok [] (snd (alloc (t, v) st)) d (Live (Some (st_next st))) Hlt I1) as H.
    unfold pget in H; simpl in H. unfold pget in Hd. rewrite Hd in H. exact H.
  - views_goal. rewrite view_pset, nth_upd, nth_views, length_views. simpl. rewrite Nat.eqb_refl.
    rewrite (view_alloc _ _ _ _ I). auto.
Qed.

Lemma copy_ctor_ok st d s : inv st -> is_free d st = true -> is_live s st = true ->
  inv (m_copy_ctor d s st) /\ views (m_copy_ctor d s st) = upd d (view_of s st) (views st).
Proof.
  intros I F L. destruct (is_free_lt _ _ F) as [Hlt Hd]. pose proof (is_live_content _ _ L) as Hs.
  unfold m_copy_ctor. destruct (content s st) as [ls|] eqn:Cs.
  - destruct (inv_owned _ _ _ _ I Hs) as [[t v] Hc]. rewrite (clone_some _ _ _ Hc).
    pose proof (alloc_ok [] st (t, v) I) as I1. split.
    + pose proof (pset_ok [] (snd (alloc (t, v) st)) d (Live (Some (st_next st))) Hlt I1) as H.
      unfold pget in H; simpl in H. unfold pget in Hd. rewrite Hd in H. exact H.
    + views_goal. rewrite view_pset, nth_upd, nth_views, length_views. simpl. rewrite Nat.eqb_refl.
      rewrite (view_alloc _ _ _ _ I). rewrite (view_holds _ _ _ _ _ Hs Hc). auto.
  - simpl. split.
    + pose proof (pset_ok [] st d (Live None) Hlt I) as H. rewrite Hd in H. exact H.
    + views_goal. rewrite view_pset, nth_upd, nth_views, length_views. rewrite (view_empty _ _ Hs). auto.
Qed.
