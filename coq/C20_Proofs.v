(* C20_Proofs.v — proofs about the ownership machine of C20_Model.v.
   Plain lists / nat / Z; no axioms.

   Ownership is stated with multiplicities: cnt x l = number of occurrences
   of x in l.  "every live location is referenced by exactly one live
   container and no container references a freed location" is the single
   equation  cnt x (refs pool) = cnt x (keys heap)  together with
   cnt x (keys heap) <= 1;  the readable forms are derived below. *)
Require Import ZArith List Bool Arith Lia Permutation.
Require Import BFL.C20_Model.
Import ListNotations.

(* ------------------------------------------------------------------ counting *)

Fixpoint cnt (x : nat) (l : list nat) : nat :=
  match l with
  | [] => 0
  | y :: r => (if Nat.eqb y x then 1 else 0) + cnt x r
  end.

Lemma cnt_app x a b : cnt x (a ++ b) = cnt x a + cnt x b.
Proof. induction a; simpl; lia. Qed.

Lemma cnt_count_occ x l : cnt x l = count_occ Nat.eq_dec l x.
Proof.
  induction l as [|y r IH]; simpl; auto.
  destruct (Nat.eq_dec y x) as [e|ne].
  - subst. rewrite Nat.eqb_refl. lia.
  - apply Nat.eqb_neq in ne. rewrite ne. lia.
Qed.

Lemma cnt_In x l : In x l <-> 1 <= cnt x l.
Proof. rewrite cnt_count_occ. rewrite (count_occ_In Nat.eq_dec). lia. Qed.

Lemma cnt_perm a b : (forall x, cnt x a = cnt x b) -> Permutation a b.
Proof.
  intro H. apply (Permutation_count_occ Nat.eq_dec). intro x.
  rewrite <- !cnt_count_occ. apply H.
Qed.

Lemma cnt_nodup l : (forall x, cnt x l <= 1) -> NoDup l.
Proof.
  intro H. apply (NoDup_count_occ Nat.eq_dec). intro x. rewrite <- cnt_count_occ. apply H.
Qed.

(* ------------------------------------------------------------------ heap *)

Definition keys (h : heap) : list loc := map fst h.
Definition olist (p : option loc) : list loc := match p with Some l => [l] | None => [] end.
Definition srefs (s : slot) : list loc := match s with Live (Some l) => [l] | _ => [] end.
Definition refs (p : list slot) : list loc := flat_map srefs p.

Lemma hget_cnt l h : hget l h <> None <-> 1 <= cnt l (keys h).
Proof.
  induction h as [|[k c] r IH]; simpl.
  - split; [congruence | lia].
  - destruct (Nat.eqb k l); simpl.
    + split; [lia | congruence].
    + rewrite IH. lia.
Qed.

Lemma hget_none_cnt l h : hget l h = None <-> cnt l (keys h) = 0.
Proof.
  pose proof (hget_cnt l h). destruct (hget l h).
  - split; [intro; discriminate|]. intro. assert (1 <= cnt l (keys h)) by (apply H; congruence). lia.
  - split; auto. intros _. destruct (cnt l (keys h)) eqn:E; auto.
    exfalso. assert (@None cell <> None) by (apply H; lia). congruence.
Qed.

Lemma cnt_keys_hrem x l h : cnt x (keys (hrem l h)) = if Nat.eqb l x then 0 else cnt x (keys h).
Proof.
  induction h as [|[k c] r IH]; simpl.
  - destruct (Nat.eqb l x); auto.
  - destruct (Nat.eqb_spec k l) as [e|ne]; simpl.
    + subst. rewrite IH. destruct (Nat.eqb_spec l x); lia.
    + rewrite IH. destruct (Nat.eqb_spec l x); destruct (Nat.eqb_spec k x); subst; try lia; congruence.
Qed.

Lemma hget_hrem_other x l h : l <> x -> hget x (hrem l h) = hget x h.
Proof.
  intro ne. induction h as [|[k c] r IH]; simpl; auto.
  destruct (Nat.eqb_spec k l) as [e|n1]; simpl.
  - subst. destruct (Nat.eqb_spec l x); [congruence|]. auto.
  - rewrite IH. auto.
Qed.

Lemma keys_hset l c h : keys (hset l c h) = keys h.
Proof.
  induction h as [|[k c0] r IH]; simpl; auto.
  destruct (Nat.eqb k l); simpl; congruence.
Qed.

Lemma hget_hset_same l c h : hget l h <> None -> hget l (hset l c h) = Some c.
Proof.
  induction h as [|[k c0] r IH]; simpl; [congruence|].
  destruct (Nat.eqb_spec k l) as [e|ne]; simpl.
  - subst. rewrite Nat.eqb_refl. auto.
  - apply Nat.eqb_neq in ne. rewrite ne. auto.
Qed.

Lemma hget_hset_other x l c h : l <> x -> hget x (hset l c h) = hget x h.
Proof.
  intro ne. induction h as [|[k c0] r IH]; simpl; auto.
  destruct (Nat.eqb_spec k l) as [e|n1]; simpl.
  - subst. apply Nat.eqb_neq in ne. rewrite ne. auto.
  - rewrite IH. auto.
Qed.

(* ------------------------------------------------------------------ pool *)

Lemma length_upd {A} d (v : A) l : length (upd d v l) = length l.
Proof. revert d; induction l; destruct d; simpl; auto. Qed.

Lemma nth_upd {A} e d (v dflt : A) l :
  nth e (upd d v l) dflt = if Nat.eqb d e && Nat.ltb d (length l) then v else nth e l dflt.
Proof.
  revert e d; induction l as [|a r IH]; intros e d; simpl.
  - destruct d, e; simpl; auto; rewrite andb_false_r; auto.
  - destruct d, e; simpl; auto. rewrite IH. reflexivity.
Qed.

Lemma nth_upd_same {A} d (v dflt : A) l : d < length l -> nth d (upd d v l) dflt = v.
Proof. intro H. rewrite nth_upd, Nat.eqb_refl. apply Nat.ltb_lt in H. rewrite H. auto. Qed.

Lemma nth_upd_other {A} e d (v dflt : A) l : d <> e -> nth e (upd d v l) dflt = nth e l dflt.
Proof. intro H. rewrite nth_upd. apply Nat.eqb_neq in H. rewrite H. auto. Qed.

Lemma upd_same {A} d (dflt : A) l : upd d (nth d l dflt) l = l.
Proof. revert d; induction l; destruct d; simpl; auto. f_equal. auto. Qed.

Lemma map_upd {A B} (f : A -> B) d v l : map f (upd d v l) = upd d (f v) (map f l).
Proof. revert d; induction l; destruct d; simpl; auto. f_equal. auto. Qed.

Lemma cnt_refs_upd x d s p :
  d < length p ->
  cnt x (refs (upd d s p)) + cnt x (srefs (nth d p Dead)) = cnt x (refs p) + cnt x (srefs s).
Proof.
  revert d; induction p as [|a r IH]; intros d H; simpl in *; [lia|].
  destruct d; simpl; rewrite !cnt_app.
  - lia.
  - specialize (IH d ltac:(lia)). fold (refs r) in *. fold (refs (upd d s r)). lia.
Qed.

Lemma cnt_refs_nth d l p : nth d p Dead = Live (Some l) -> 1 <= cnt l (refs p).
Proof.
  revert d; induction p as [|a r IH]; intros d H; simpl in *.
  - destruct d; discriminate.
  - rewrite cnt_app. destruct d.
    + subst. simpl. rewrite Nat.eqb_refl. lia.
    + specialize (IH d H). fold (refs r). lia.
Qed.

Lemma cnt_refs_two d e l p :
  d <> e -> nth d p Dead = Live (Some l) -> nth e p Dead = Live (Some l) -> 2 <= cnt l (refs p).
Proof.
  revert d e; induction p as [|a r IH]; intros d e ne Hd He; simpl in *.
  - destruct d; discriminate.
  - rewrite cnt_app. fold (refs r). destruct d, e; try congruence.
    + subst. simpl. rewrite Nat.eqb_refl. pose proof (cnt_refs_nth _ _ _ He). lia.
    + subst. simpl. rewrite Nat.eqb_refl. pose proof (cnt_refs_nth _ _ _ Hd). lia.
    + assert (d <> e) by lia. specialize (IH d e H Hd He). lia.
Qed.

Lemma cnt_refs_ex l p : 1 <= cnt l (refs p) -> exists d, nth d p Dead = Live (Some l).
Proof.
  induction p as [|a r IH]; simpl; [lia|].
  rewrite cnt_app. fold (refs r). intro H.
  destruct a as [|[k|]]; simpl in H.
  - destruct (IH ltac:(lia)) as [d Hd]. exists (S d). auto.
  - destruct (Nat.eqb_spec k l).
    + subst. exists 0. auto.
    + destruct (IH ltac:(lia)) as [d Hd]. exists (S d). auto.
  - destruct (IH ltac:(lia)) as [d Hd]. exists (S d). auto.
Qed.

Lemma nth_live_lt d (p : list slot) c : nth d p Dead = Live c -> d < length p.
Proof.
  intro H. destruct (Nat.lt_ge_cases d (length p)); auto.
  rewrite nth_overflow in H by lia. discriminate.
Qed.

Lemma refs_repeat_dead n : refs (repeat Dead n) = [].
Proof. induction n; simpl; auto. Qed.
