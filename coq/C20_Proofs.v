(* C20_Proofs.v — proofs about the ownership machine of C20_Model.v.
   Plain lists / nat / Z; no axioms.

   Ownership is stated with multiplicities: cnt x l = number of occurrences
   of x in l.  "every live location is referenced by exactly one live
   container and no container references a freed location" is the single
   equation  cnt x (refs pool) = cnt x (keys heap)  together with
   cnt x (keys heap) <= 1;  the readable forms are derived below. *)
Require Import ZArith List Bool Arith Lia Permutation.
Require Import BFL.C20_Model.
Import ListNotations.

(* ------------------------------------------------------------------ counting *)

Fixpoint cnt (x : nat) (l : list nat) : nat :=
  match l with
  | [] => 0
  | y :: r => (if Nat.eqb y x then 1 else 0) + cnt x r
  end.

Lemma cnt_app x a b : cnt x (a ++ b) = cnt x a + cnt x b.
Proof. induction a; simpl; lia. Qed.

Lemma cnt_count_occ x l : cnt x l = count_occ Nat.eq_dec l x.
Proof.
  induction l as [|y r IH]; simpl; auto.
  destruct (Nat.eq_dec y x) as [e|ne].
  - subst. rewrite Nat.eqb_refl. lia.
  - apply Nat.eqb_neq in ne. rewrite ne. lia.
Qed.

Lemma cnt_In x l : In x l <-> 1 <= cnt x l.
Proof. rewrite cnt_count_occ. rewrite (count_occ_In Nat.eq_dec). lia. Qed.

Lemma cnt_perm a b : (forall x, cnt x a = cnt x b) -> Permutation a b.
Proof.
  intro H. apply (Permutation_count_occ Nat.eq_dec). intro x.
  rewrite <- !cnt_count_occ. apply H.
Qed.

Lemma cnt_nodup l : (forall x, cnt x l <= 1) -> NoDup l.
Proof.
  intro H. apply (NoDup_count_occ Nat.eq_dec). intro x. rewrite <- cnt_count_occ. apply H.
Qed.

(* ------------------------------------------------------------------ heap *)

Definition keys (h : heap) : list loc := map fst h.
Definition olist (p : option loc) : list loc := match p with Some l => [l] | None => [] end.
Definition srefs (s : slot) : list loc := match s with Live (Some l) => [l] | _ => [] end.
Definition refs (p : list slot) : list loc := flat_map srefs p.

Lemma hget_cnt l h : hget l h <> None <-> 1 <= cnt l (keys h).
Proof.
  induction h as [|[k c] r IH]; simpl.
  - split; [congruence | lia].
  - destruct (Nat.eqb k l); simpl.
    + split; [lia | congruence].
    + rewrite IH. lia.
Qed.

Lemma hget_none_cnt l h : hget l h = None <-> cnt l (keys h) = 0.
Proof.
  pose proof (hget_cnt l h). destruct (hget l h).
  - split; [intro; discriminate|]. intro. assert (1 <= cnt l (keys h)) by (apply H; congruence). lia.
  - split; auto. intros _. destruct (cnt l (keys h)) eqn:E; auto.
    exfalso. assert (@None cell <> None) by (apply H; lia). congruence.
Qed.

Lemma cnt_keys_hrem x l h : cnt x (keys (hrem l h)) = if Nat.eqb l x then 0 else cnt x (keys h).
Proof.
  induction h as [|[k c] r IH]; simpl.
  - destruct (Nat.eqb l x); auto.
  - destruct (Nat.eqb_spec k l) as [e|ne]; simpl.
    + subst. rewrite IH. destruct (Nat.eqb_spec l x); lia.
    + rewrite IH. destruct (Nat.eqb_spec l x); destruct (Nat.eqb_spec k x); subst; try lia; congruence.
Qed.

Lemma hget_hrem_other x l h : l <> x -> hget x (hrem l h) = hget x h.
Proof.
  intro ne. induction h as [|[k c] r IH]; simpl; auto.
  destruct (Nat.eqb_spec k l) as [e|n1]; simpl.
  - subst. destruct (Nat.eqb_spec l x); [congruence|]. auto.
  - rewrite IH. auto.
Qed.

Lemma keys_hset l c h : keys (hset l c h) = keys h.
Proof.
  induction h as [|[k c0] r IH]; simpl; auto.
  destruct (Nat.eqb k l); simpl; congruence.
Qed.

Lemma hget_hset_same l c h : hget l h <> None -> hget l (hset l c h) = Some c.
Proof.
  induction h as [|[k c0] r IH]; simpl; [congruence|].
  destruct (Nat.eqb_spec k l) as [e|ne]; simpl.
  - subst. rewrite Nat.eqb_refl. auto.
  - apply Nat.eqb_neq in ne. rewrite ne. auto.
Qed.

Lemma hget_hset_other x l c h : l <> x -> hget x (hset l c h) = hget x h.
Proof.
  intro ne. induction h as [|[k c0] r IH]; simpl; auto.
  destruct (Nat.eqb_spec k l) as [e|n1]; simpl.
  - subst. apply Nat.eqb_neq in ne. rewrite ne. auto.
  - rewrite IH. auto.
Qed.

(* ------------------------------------------------------------------ pool *)

Lemma length_upd {A} d (v : A) l : length (upd d v l) = length l.
Proof. revert d; induction l; destruct d; simpl; auto. Qed.

Lemma nth_upd {A} e d (v dflt : A) l :
  nth e (upd d v l) dflt = if Nat.eqb d e && Nat.ltb d (length l) then v else nth e l dflt.
Proof.
  revert e d; induction l as [|a r IH]; intros e d; simpl.
  - destruct d, e; simpl; auto; rewrite andb_false_r; auto.
  - destruct d, e; simpl; auto. rewrite IH. reflexivity.
Qed.

Lemma nth_upd_same {A} d (v dflt : A) l : d < length l -> nth d (upd d v l) dflt = v.
Proof. intro H. rewrite nth_upd, Nat.eqb_refl. apply Nat.ltb_lt in H. rewrite H. auto. Qed.

Lemma nth_upd_other {A} e d (v dflt : A) l : d <> e -> nth e (upd d v l) dflt = nth e l dflt.
Proof. intro H. rewrite nth_upd. apply Nat.eqb_neq in H. rewrite H. auto. Qed.

Lemma upd_same {A} d (dflt : A) l : upd d (nth d l dflt) l = l.
Proof. revert d; induction l; destruct d; simpl; auto. f_equal. auto. Qed.

Lemma map_upd {A B} (f : A -> B) d v l : map f (upd d v l) = upd d (f v) (map f l).
Proof. revert d; induction l; destruct d; simpl; auto. f_equal. auto. Qed.

Lemma cnt_refs_upd x d s p :
  d < length p ->
  cnt x (refs (upd d s p)) + cnt x (srefs (nth d p Dead)) = cnt x (refs p) + cnt x (srefs s).
Proof.
  revert d; induction p as [|a r IH]; intros d H; simpl in *; [lia|].
  destruct d; simpl; rewrite !cnt_app.
  - lia.
  - specialize (IH d ltac:(lia)). fold (refs r) in *. fold (refs (upd d s r)). lia.
Qed.

Lemma cnt_refs_nth d l p : nth d p Dead = Live (Some l) -> 1 <= cnt l (refs p).
Proof.
  revert d; induction p as [|a r IH]; intros d H; simpl in *.
  - destruct d; discriminate.
  - rewrite cnt_app. destruct d.
    + subst. simpl. rewrite Nat.eqb_refl. lia.
    + specialize (IH d H). fold (refs r). lia.
Qed.

Lemma cnt_refs_two d e l p :
  d <> e -> nth d p Dead = Live (Some l) -> nth e p Dead = Live (Some l) -> 2 <= cnt l (refs p).
Proof.
  revert d e; induction p as [|a r IH]; intros d e ne Hd He; simpl in *.
  - destruct d; discriminate.
  - rewrite cnt_app. fold (refs r). destruct d, e; try congruence.
    + subst. simpl. rewrite Nat.eqb_refl. pose proof (cnt_refs_nth _ _ _ He). lia.
    + subst. simpl. rewrite Nat.eqb_refl. pose proof (cnt_refs_nth _ _ _ Hd). lia.
    + assert (d <> e) by lia. specialize (IH d e H Hd He). lia.
Qed.

Lemma cnt_refs_ex l p : 1 <= cnt l (refs p) -> exists d, nth d p Dead = Live (Some l).
Proof.
  induction p as [|a r IH]; simpl; [lia|].
  rewrite cnt_app. fold (refs r). intro H.
  destruct a as [|[k|]]; simpl in H.
  - destruct (IH ltac:(lia)) as [d Hd]. exists (S d). auto.
  - destruct (Nat.eqb_spec k l).
    + subst. exists 0. auto.
    + destruct (IH ltac:(lia)) as [d Hd]. exists (S d). auto.
  - destruct (IH ltac:(lia)) as [d Hd]. exists (S d). auto.
Qed.

Lemma nth_live_lt d (p : list slot) c : nth d p Dead = Live c -> d < length p.
Proof.
  intro H. destruct (Nat.lt_ge_cases d (length p)); auto.
  rewrite nth_overflow in H by lia. discriminate.
Qed.

Lemma refs_repeat_dead n : refs (repeat Dead n) = [].
Proof. induction n; simpl; auto. Qed.

(* ------------------------------------------------------------------ invariant *)

(* X: locations owned by temporaries of type `any` in the middle of a member function *)
Record invx (X : list loc) (st : state) : Prop := {
  ix_own : forall x, cnt x (refs (st_pool st)) + cnt x X = cnt x (keys (st_heap st));
  ix_log : forall x, cnt x (st_alog st) = cnt x (st_dlog st) + cnt x (keys (st_heap st));
  ix_once : forall x, cnt x (st_alog st) <= 1;
  ix_fresh : forall x, st_next st <= x -> cnt x (st_alog st) = 0;
  ix_nofault : st_faults st = []
}.

Definition inv (st : state) : Prop := invx [] st.

Lemma inv_init n : inv (init n).
Proof.
  constructor; simpl; intros; auto. rewrite refs_repeat_dead. auto.
Qed.

Lemma ix_key1 X st x : invx X st -> cnt x (keys (st_heap st)) <= 1.
Proof. intros [_ Hl Ho _ _]. specialize (Hl x). specialize (Ho x). lia. Qed.

Lemma ix_key_lt X st x : invx X st -> 1 <= cnt x (keys (st_heap st)) -> x < st_next st.
Proof.
  intros [_ Hl _ Hf _] H. destruct (Nat.lt_ge_cases x (st_next st)); auto.
  specialize (Hf x H0). specialize (Hl x). lia.
Qed.

(* no container references a freed location *)
Lemma inv_owned X st d l : invx X st -> pget d st = Live (Some l) -> exists c, hget l (st_heap st) = Some c.
Proof.
  intros I H. unfold pget in H. apply cnt_refs_nth in H.
  pose proof (ix_own _ _ I l).
  destruct (hget l (st_heap st)) eqn:E; eauto.
  apply hget_none_cnt in E. lia.
Qed.

(* a location is referenced by at most one container *)
Lemma inv_unique X st d e l : invx X st -> pget d st = Live (Some l) -> pget e st = Live (Some l) -> d = e.
Proof.
  intros I Hd He. destruct (Nat.eq_dec d e); auto. exfalso.
  pose proof (cnt_refs_two _ _ _ _ n Hd He).
  pose proof (ix_own _ _ I l). pose proof (ix_key1 _ _ l I). lia.
Qed.

(* every live location is referenced by a container (or a temporary) *)
Lemma inv_no_orphan st l c : inv st -> hget l (st_heap st) = Some c -> exists d, pget d st = Live (Some l).
Proof.
  intros I H. apply cnt_refs_ex.
  pose proof (ix_own _ _ I l). simpl in H0.
  assert (hget l (st_heap st) <> None) by congruence. apply hget_cnt in H1. lia.
Qed.

Lemma inv_owned_lt X st d l : invx X st -> pget d st = Live (Some l) -> l < st_next st.
Proof.
  intros I H. destruct (inv_owned _ _ _ _ I H) as [c Hc].
  apply (ix_key_lt _ _ _ I). apply hget_cnt. congruence.
Qed.

(* ------------------------------------------------------------------ views *)

Lemma nth_views e st : nth e (views st) VDead = view_of e st.
Proof.
  unfold views, view_of, pget. change VDead with (vslot (st_heap st) Dead). apply map_nth.
Qed.

Lemma length_views st : length (views st) = length (st_pool st).
Proof. unfold views. apply map_length. Qed.

Lemma views_ext st' vs :
  length (st_pool st') = length vs -> (forall e, view_of e st' = nth e vs VDead) -> views st' = vs.
Proof.
  intros Hl H. apply (nth_ext _ _ VDead VDead).
  - rewrite length_views. auto.
  - intros e _. rewrite nth_views. auto.
Qed.

Lemma vslot_frame h h' s : (forall l, s = Live (Some l) -> hget l h' = hget l h) -> vslot h' s = vslot h s.
Proof. destruct s as [|[l|]]; simpl; auto. intro H. rewrite (H l eq_refl). auto. Qed.

Lemma vlive_view d st : vlive (view_of d st) = is_live d st.
Proof.
  unfold view_of, is_live. destruct (pget d st) as [|[l|]]; simpl; auto.
  destruct (hget l (st_heap st)) as [[t v]|]; auto.
Qed.

Lemma vfree_views d st : vfree d (views st) = is_free d st.
Proof. unfold vfree, is_free, vget. rewrite nth_views, length_views, vlive_view. auto. Qed.

(* ------------------------------------------------------------------ primitives *)

Ltac eqb_cases :=
  repeat match goal with
         | |- context [Nat.eqb ?a ?b] => destruct (Nat.eqb_spec a b); subst
         | H : context [Nat.eqb ?a ?b] |- _ => destruct (Nat.eqb_spec a b); subst
         end.

Lemma alloc_ok X st mv c : invx X st -> invx (st_next st :: X) (snd (alloc mv c st)).
Proof.
  intros I. pose proof (ix_fresh _ _ I) as Hf.
  constructor; simpl; try intro x.
  - pose proof (ix_own _ _ I x). lia.
  - pose proof (ix_log _ _ I x). lia.
  - pose proof (ix_once _ _ I x). destruct (Nat.eqb_spec (st_next st) x); [|lia].
    subst. rewrite (Hf (st_next st)); lia.
  - intro H. destruct (Nat.eqb_spec (st_next st) x); [lia|]. apply Hf. lia.
  - apply (ix_nofault _ _ I).
Qed.

Lemma delete_eq X st l : invx (l :: X) st ->
  delete_content (Some l) st =
  mkSt (hrem l (st_heap st)) (st_next st) (st_alog st) (l :: st_dlog st) (st_pool st) (st_faults st) (st_ctors st).
Proof.
  intro I. unfold delete_content.
  destruct (hget l (st_heap st)) eqn:E; auto.
  apply hget_none_cnt in E. pose proof (ix_own _ _ I l). simpl in H. rewrite Nat.eqb_refl in H. lia.
Qed.

Lemma delete_ok X st l : invx (l :: X) st -> invx X (delete_content (Some l) st).
Proof.
  intro I. rewrite (delete_eq _ _ _ I).
  pose proof (ix_key1 _ _ l I) as K1.
  pose proof (ix_own _ _ I l) as Ol. simpl in Ol. rewrite Nat.eqb_refl in Ol.
  constructor; simpl; try intro x.
  - rewrite cnt_keys_hrem. pose proof (ix_own _ _ I x) as Ox. simpl in Ox.
    destruct (Nat.eqb_spec l x); subst; lia.
  - rewrite cnt_keys_hrem. pose proof (ix_log _ _ I x).
    destruct (Nat.eqb_spec l x); subst; lia.
  - apply (ix_once _ _ I).
  - apply (ix_fresh _ _ I).
  - apply (ix_nofault _ _ I).
Qed.

Lemma delete_opt_ok X st p : invx (olist p ++ X) st -> invx X (delete_content p st).
Proof. destruct p; simpl; auto. apply delete_ok. Qed.

Lemma pset_ok X st d s :
  d < length (st_pool st) -> invx (srefs s ++ X) st -> invx (srefs (pget d st) ++ X) (pset d s st).
Proof.
  intros Hd I. constructor; simpl; try apply I.
  intro x. pose proof (cnt_refs_upd x d s _ Hd). pose proof (ix_own _ _ I x).
  rewrite cnt_app in *. unfold pget. lia.
Qed.

(* a location owned by a temporary is not referenced by any container *)
Lemma temp_not_in_pool X st l e : invx (l :: X) st -> pget e st <> Live (Some l).
Proof.
  intros I H. apply cnt_refs_nth in H. pose proof (ix_own _ _ I l). pose proof (ix_key1 _ _ l I).
  simpl in H0. rewrite Nat.eqb_refl in H0. lia.
Qed.

Lemma is_live_lt d st : is_live d st = true -> d < length (st_pool st).
Proof.
  unfold is_live, pget. intro H. destruct (nth d (st_pool st) Dead) eqn:E; [discriminate|].
  eapply nth_live_lt; eauto.
Qed.

Lemma is_live_content d st : is_live d st = true -> pget d st = Live (content d st).
Proof. unfold is_live, content. destruct (pget d st); auto; discriminate. Qed.

Lemma is_free_lt d st : is_free d st = true -> d < length (st_pool st) /\ pget d st = Dead.
Proof.
  unfold is_free, is_live. intro H. apply andb_prop in H. destruct H as [H1 H2].
  apply Nat.ltb_lt in H1. split; auto. destruct (pget d st); auto; discriminate.
Qed.

Lemma srefs_live c : srefs (Live c) = olist c.
Proof. destruct c; auto. Qed.

(* ------------------------------------------------------------------ views through the primitives *)

Lemma view_pset e d s st :
  view_of e (pset d s st) =
  if Nat.eqb d e && Nat.ltb d (length (st_pool st)) then vslot (st_heap st) s else view_of e st.
Proof.
  unfold view_of, pget, pset; simpl. rewrite nth_upd.
  destruct (Nat.eqb d e && Nat.ltb d (length (st_pool st))); auto.
Qed.

Lemma view_alloc X e mv c st : invx X st -> view_of e (snd (alloc mv c st)) = view_of e st.
Proof.
  intro I. unfold view_of, pget; simpl. apply vslot_frame. intros l H.
  pose proof (inv_owned_lt _ _ _ _ I H). simpl.
  destruct (Nat.eqb_spec (st_next st) l); auto. lia.
Qed.

Lemma view_delete X e l st : invx (l :: X) st -> view_of e (delete_content (Some l) st) = view_of e st.
Proof.
  intro I. rewrite (delete_eq _ _ _ I). unfold view_of, pget; simpl. apply vslot_frame. intros l' H.
  apply hget_hrem_other. intro; subst. eapply temp_not_in_pool; eauto.
Qed.

Lemma view_delete_opt X e p st : invx (olist p ++ X) st -> view_of e (delete_content p st) = view_of e st.
Proof. destruct p; simpl; auto. apply view_delete. Qed.

Lemma pool_delete p st : st_pool (delete_content p st) = st_pool st.
Proof. destruct p; simpl; auto. destruct (hget l (st_heap st)); auto. Qed.

Lemma clone_some l c st : hget l (st_heap st) = Some c -> clone (Some l) st = (Some (st_next st), snd (alloc false c st)).
Proof. intro H. unfold clone. rewrite H. reflexivity. Qed.

Lemma view_holds d l t v st : pget d st = Live (Some l) -> hget l (st_heap st) = Some (t, v) -> view_of d st = VHolds t v.
Proof. intros H1 H2. unfold view_of. rewrite H1. simpl. rewrite H2. auto. Qed.

Lemma view_empty d st : pget d st = Live None -> view_of d st = VEmpty.
Proof. intros H. unfold view_of. rewrite H. auto. Qed.

Lemma pset_comm d e a b st : d <> e -> pset d a (pset e b st) = pset e b (pset d a st).
Proof.
  intro ne. unfold pset; simpl. f_equal.
  generalize (st_pool st) as p. clear st. revert e ne.
  induction d; intros e ne p; destruct p, e; simpl; auto; try congruence.
  f_equal. apply IHd. lia.
Qed.

(* ------------------------------------------------------------------ the member functions *)

Ltac views_goal :=
  apply views_ext; [ simpl; rewrite ?pool_delete; simpl; rewrite ?length_upd, ?length_views; auto | intro e ].

Lemma default_ok st d : inv st -> is_free d st = true ->
  inv (m_default d st) /\ views (m_default d st) = upd d VEmpty (views st).
Proof.
  intros I F. destruct (is_free_lt _ _ F) as [Hlt Hd]. unfold m_default. split.
  - pose proof (pset_ok [] st d (Live None) Hlt I) as H. rewrite Hd in H. exact H.
  - views_goal. rewrite view_pset, nth_upd, nth_views, length_views. auto.
Qed.

Lemma value_ctor_ok st mv d t v : inv st -> is_free d st = true ->
  inv (m_value_ctor mv d t v st) /\ views (m_value_ctor mv d t v st) = upd d (VHolds t (Some v)) (views st).
Proof.
  intros I F. destruct (is_free_lt _ _ F) as [Hlt Hd]. unfold m_value_ctor.
  change (alloc mv (t, Some v) st) with (st_next st, snd (alloc mv (t, Some v) st)). cbv iota beta.
  pose proof (alloc_ok [] st mv (t, Some v) I) as I1. split.
  - pose proof (pset_ok [] (snd (alloc mv (t, Some v) st)) d (Live (Some (st_next st))) Hlt I1) as H.
    unfold pget in H; simpl in H. unfold pget in Hd. rewrite Hd in H. exact H.
  - views_goal. rewrite view_pset, (view_alloc _ _ _ _ _ I), nth_upd, nth_views, length_views. simpl.
    rewrite Nat.eqb_refl. auto.
Qed.

Lemma copy_ctor_ok st d s : inv st -> is_free d st = true -> is_live s st = true ->
  inv (m_copy_ctor d s st) /\ views (m_copy_ctor d s st) = upd d (view_of s st) (views st).
Proof.
  intros I F L. destruct (is_free_lt _ _ F) as [Hlt Hd]. pose proof (is_live_content _ _ L) as Hs.
  unfold m_copy_ctor. destruct (content s st) as [ls|] eqn:Cs.
  - destruct (inv_owned _ _ _ _ I Hs) as [[t v] Hc]. rewrite (clone_some _ _ _ Hc).
    pose proof (alloc_ok [] st false (t, v) I) as I1. split.
    + pose proof (pset_ok [] (snd (alloc false (t, v) st)) d (Live (Some (st_next st))) Hlt I1) as H.
      unfold pget in H; simpl in H. unfold pget in Hd. rewrite Hd in H. exact H.
    + views_goal. rewrite view_pset, (view_alloc _ _ _ _ _ I), nth_upd, nth_views, length_views. simpl.
      rewrite Nat.eqb_refl. rewrite (view_holds _ _ _ _ _ Hs Hc). auto.
  - simpl. split.
    + pose proof (pset_ok [] st d (Live None) Hlt I) as H. rewrite Hd in H. exact H.
    + views_goal. rewrite view_pset, nth_upd, nth_views, length_views. rewrite (view_empty _ _ Hs). auto.
Qed.

Lemma view_live d st : is_live d st = true -> view_of d st = vslot (st_heap st) (Live (content d st)).
Proof. intro L. unfold view_of. rewrite (is_live_content _ _ L). auto. Qed.

Lemma swap_inv X st a b : invx X st -> is_live a st = true -> is_live b st = true -> invx X (m_swap a b st).
Proof.
  intros I La Lb. pose proof (is_live_lt _ _ La) as Ha. pose proof (is_live_lt _ _ Lb) as Hb.
  pose proof (is_live_content _ _ La) as Ca. pose proof (is_live_content _ _ Lb) as Cb.
  unfold m_swap, set_content. constructor; simpl; try apply I.
  intro x. rewrite <- (ix_own _ _ I x). f_equal.
  assert (Hb' : b < length (upd a (Live (content b st)) (st_pool st))) by (rewrite length_upd; auto).
  pose proof (cnt_refs_upd x b (Live (content a st)) _ Hb') as E1.
  pose proof (cnt_refs_upd x a (Live (content b st)) _ Ha) as E2.
  unfold pget in Ca, Cb. rewrite Ca in E2. rewrite nth_upd in E1.
  destruct (Nat.eqb_spec a b) as [e|ne]; cbn [andb] in E1.
  - subst b. apply Nat.ltb_lt in Ha. rewrite Ha in E1. lia.
  - rewrite Cb in E1. lia.
Qed.

Lemma swap_ok st d s : inv st -> is_live d st = true -> is_live s st = true ->
  inv (m_swap d s st) /\ views (m_swap d s st) = upd s (view_of d st) (upd d (view_of s st) (views st)).
Proof.
  intros I Ld Ls. split; [apply swap_inv; auto|].
  pose proof (is_live_content _ _ Ld) as Cd. pose proof (is_live_content _ _ Ls) as Cs.
  unfold m_swap, set_content. views_goal.
  rewrite !view_pset, !nth_upd, nth_views, !length_upd, length_views. simpl. rewrite length_upd.
  rewrite (view_live _ _ Ld), (view_live _ _ Ls). reflexivity.
Qed.

Lemma move_ctor_ok st d s : inv st -> is_free d st = true -> is_live s st = true ->
  inv (m_move_ctor d s st) /\
  views (m_move_ctor d s st) = upd s VEmpty (upd d (view_of s st) (views st)).
Proof.
  intros I F L. destruct (is_free_lt _ _ F) as [Hlt Hd]. pose proof (is_live_content _ _ L) as Hs.
  pose proof (is_live_lt _ _ L) as Hls.
  assert (ne : s <> d) by (intro; subst; rewrite Hd in Hs; discriminate).
  unfold m_move_ctor, set_content. split.
  - rewrite pset_comm by auto.
    pose proof (pset_ok [] st s (Live None) Hls I) as I1. rewrite Hs, srefs_live in I1.
    assert (Hlt' : d < length (st_pool (pset s (Live None) st))) by (simpl; rewrite length_upd; auto).
    pose proof (pset_ok [] _ d (Live (content s st)) Hlt') as I2. rewrite srefs_live in I2. specialize (I2 I1).
    unfold pget in I2 at 1. simpl in I2. rewrite nth_upd_other in I2 by auto. unfold pget in Hd. rewrite Hd in I2.
    exact I2.
  - views_goal. rewrite !view_pset, !nth_upd, nth_views, !length_upd, length_views. simpl. rewrite length_upd.
    rewrite (view_live _ _ L). reflexivity.
Qed.

Lemma copy_assign_ok st d s : inv st -> is_live d st = true -> is_live s st = true ->
  inv (m_copy_assign d s st) /\ views (m_copy_assign d s st) = upd d (view_of s st) (views st).
Proof.
  intros I Ld Ls. pose proof (is_live_lt _ _ Ld) as Hlt.
  pose proof (is_live_content _ _ Ld) as Cd. pose proof (is_live_content _ _ Ls) as Cs.
  unfold m_copy_assign, set_content. destruct (content s st) as [ls|] eqn:Es.
  - destruct (inv_owned _ _ _ _ I Cs) as [[t v] Hc]. rewrite (clone_some _ _ _ Hc).
    pose proof (alloc_ok [] st false (t, v) I) as I1.
    set (st1 := snd (alloc false (t, v) st)) in *.
    assert (Cd1 : pget d st1 = Live (content d st1)) by exact Cd.
    pose proof (pset_ok [] st1 d (Live (Some (st_next st))) Hlt I1) as I2.
    rewrite Cd1, srefs_live in I2. split.
    + apply (delete_opt_ok [] _ _ I2).
    + views_goal. rewrite (view_delete_opt [] _ _ _ I2), view_pset. unfold st1 at 3.
      rewrite (view_alloc _ _ _ _ _ I), nth_upd, nth_views, length_views. simpl. rewrite Nat.eqb_refl.
      rewrite (view_holds _ _ _ _ _ Cs Hc). auto.
  - simpl.
    pose proof (pset_ok [] st d (Live None) Hlt I) as I2. rewrite Cd, srefs_live in I2. split.
    + apply (delete_opt_ok [] _ _ I2).
    + views_goal. rewrite (view_delete_opt [] _ _ _ I2), view_pset, nth_upd, nth_views, length_views.
      rewrite (view_empty _ _ Cs). auto.
Qed.

Lemma is_live_swap e a b st : is_live e (m_swap a b st) = is_live e st \/ is_live e (m_swap a b st) = true.
Proof.
  unfold m_swap, set_content, is_live, pget, pset; simpl. rewrite !nth_upd.
  destruct (Nat.eqb b e && _); auto. destruct (Nat.eqb a e && _); auto.
Qed.

Lemma move_assign_self st d : m_move_assign d d st = st.
Proof. unfold m_move_assign. rewrite Nat.eqb_refl. auto. Qed.

Lemma move_assign_ok st d s : inv st -> is_live d st = true -> is_live s st = true -> d <> s ->
  inv (m_move_assign d s st) /\
  views (m_move_assign d s st) = upd s VEmpty (upd d (view_of s st) (views st)).
Proof.
  intros I Ld Ls ne. pose proof (is_live_lt _ _ Ls) as Hlt.
  unfold m_move_assign. apply Nat.eqb_neq in ne. rewrite ne. apply Nat.eqb_neq in ne.
  destruct (swap_ok st s d I Ls Ld) as [I1 V1].
  set (st1 := m_swap s d st) in *.
  assert (Ls1 : is_live s st1 = true) by (destruct (is_live_swap s s d st) as [E|E]; fold st1 in E; congruence).
  assert (Hlt1 : s < length (st_pool st1)) by (apply is_live_lt; auto).
  pose proof (pset_ok [] st1 s (Live None) Hlt1 I1) as I2.
  rewrite (is_live_content _ _ Ls1), srefs_live in I2. unfold set_content. split.
  - apply (delete_opt_ok [] _ _ I2).
  - views_goal.
    rewrite (view_delete_opt [] _ _ _ I2), view_pset. rewrite <- nth_views, V1. simpl.
    rewrite !nth_upd, !length_upd, nth_views, length_views.
    assert (Hb : (s <? length (st_pool st)) = true) by (apply Nat.ltb_lt; auto).
    assert (Hbd : (d <? length (st_pool st)) = true) by (apply Nat.ltb_lt, is_live_lt; auto).
    rewrite ?Hb, ?Hbd, ?andb_true_r.
    destruct (Nat.eqb_spec s e); simpl; auto.
Qed.

Lemma value_assign_ok st mv d t v : inv st -> is_live d st = true ->
  inv (m_value_assign mv d t v st) /\ views (m_value_assign mv d t v st) = upd d (VHolds t (Some v)) (views st).
Proof.
  intros I Ld. pose proof (is_live_lt _ _ Ld) as Hlt. pose proof (is_live_content _ _ Ld) as Cd.
  unfold m_value_assign, set_content.
  change (alloc mv (t, Some v) st) with (st_next st, snd (alloc mv (t, Some v) st)). cbv iota beta.
  pose proof (alloc_ok [] st mv (t, Some v) I) as I1.
  set (st1 := snd (alloc mv (t, Some v) st)) in *.
  assert (Cd1 : pget d st1 = Live (content d st1)) by exact Cd.
  pose proof (pset_ok [] st1 d (Live (Some (st_next st))) Hlt I1) as I2.
  rewrite Cd1, srefs_live in I2. split.
  - apply (delete_opt_ok [] _ _ I2).
  - views_goal. rewrite (view_delete_opt [] _ _ _ I2), view_pset. unfold st1 at 3.
    rewrite (view_alloc _ _ _ _ _ I), nth_upd, nth_views, length_views. simpl. rewrite Nat.eqb_refl. auto.
Qed.

Lemma reset_ok st d : inv st -> is_live d st = true ->
  inv (m_reset d st) /\ views (m_reset d st) = upd d VEmpty (views st).
Proof.
  intros I Ld. pose proof (is_live_lt _ _ Ld) as Hlt. pose proof (is_live_content _ _ Ld) as Cd.
  unfold m_reset, set_content.
  pose proof (pset_ok [] st d (Live None) Hlt I) as I2. rewrite Cd, srefs_live in I2. split.
  - apply (delete_opt_ok [] _ _ I2).
  - views_goal. rewrite (view_delete_opt [] _ _ _ I2), view_pset, nth_upd, nth_views, length_views. auto.
Qed.

(* ~any(): the destructor runs on the object, then the object is gone *)
Lemma destroy_ok st d : inv st -> is_live d st = true ->
  inv (m_destroy d st) /\ views (m_destroy d st) = upd d VDead (views st).
Proof.
  intros I Ld. pose proof (is_live_lt _ _ Ld) as Hlt. pose proof (is_live_content _ _ Ld) as Cd.
  unfold m_destroy.
  (* same state as: remove the object from the pool first, then delete what it owned *)
  assert (E : pset d Dead (delete_content (content d st) st) = delete_content (content d st) (pset d Dead st)).
  { destruct (content d st); simpl; auto. destruct (hget l (st_heap st)); reflexivity. }
  rewrite E.
  pose proof (pset_ok [] st d Dead Hlt I) as I2. rewrite Cd, srefs_live in I2. split.
  - apply (delete_opt_ok [] _ _ I2).
  - views_goal. rewrite (view_delete_opt [] _ _ _ I2), view_pset, nth_upd, nth_views, length_views. auto.
Qed.

(* assignment to the held object through a pointer / reference obtained from any_cast *)
Lemma write_ok st d l t (v0 v : hval) : inv st -> pget d st = Live (Some l) -> hget l (st_heap st) = Some (t, v0) ->
  inv (write_at l t v st) /\ views (write_at l t v st) = upd d (VHolds t v) (views st).
Proof.
  intros I Hd Hl. split.
  - constructor; simpl; try apply I; intro x; rewrite keys_hset; apply I.
  - views_goal. unfold view_of, pget, write_at; simpl.
    rewrite nth_upd, nth_views, length_views.
    destruct (Nat.eqb_spec d e) as [E|E]; simpl.
    + subst e. unfold pget in Hd. rewrite Hd. pose proof (nth_live_lt _ _ _ Hd) as Hlt.
      apply Nat.ltb_lt in Hlt. rewrite Hlt. simpl. rewrite hget_hset_same by congruence. auto.
    + unfold view_of, pget. apply vslot_frame. intros l' Hl'. apply hget_hset_other.
      intro; subst l'. apply E. eapply inv_unique; eauto.
Qed.

(* ------------------------------------------------------------------ queries and casts *)

Lemma has_value_spec d st : is_live d st = true ->
  m_has_value d st = match view_of d st with VEmpty => false | _ => true end.
Proof.
  intro L. unfold m_has_value. rewrite (view_live _ _ L). destruct (content d st) as [l|]; simpl; auto.
  destruct (hget l (st_heap st)) as [[t v]|]; auto.
Qed.

Lemma type_spec d st : is_live d st = true ->
  match m_type d st with TVoid => RType None | TTag t => RType (Some t) | TBad l => RFault (UseAfterFree l) end =
  match view_of d st with VHolds t _ => RType (Some t) | VDangling l => RFault (UseAfterFree l) | _ => RType None end.
Proof.
  intro L. unfold m_type. rewrite (view_live _ _ L). destruct (content d st) as [l|]; simpl; auto.
  destruct (hget l (st_heap st)) as [[t v]|]; auto.
Qed.

Lemma cast_ptr_spec d t st : read_ptr (any_cast_ptr d t st) st = spec_cast_ptr (view_of d st) t.
Proof.
  unfold any_cast_ptr, m_type, content, view_of. destruct (pget d st) as [|[l|]]; simpl; auto.
  destruct (hget l (st_heap st)) as [[t' v]|] eqn:E; simpl; auto.
  destruct (Nat.eqb t' t); simpl; auto. rewrite E. auto.
Qed.

Lemma cast_val_spec d t st : is_live d st = true ->
  read_val (any_cast_ref d t st) st = spec_cast_val (view_of d st) t.
Proof.
  intro L. unfold any_cast_ref, any_cast_ptr, m_type, content, view_of, is_live in *.
  destruct (pget d st) as [|[l|]]; simpl; auto; try discriminate.
  destruct (hget l (st_heap st)) as [[t' v]|] eqn:E; simpl; auto.
  destruct (Nat.eqb t' t); simpl; auto. rewrite E. auto.
Qed.

Inductive cast_case (st : state) (d : cid) (t : tag) : Prop :=
| CC_miss : any_cast_ptr d t st = PNull -> spec_holds (view_of d st) t = false ->
            (forall l, view_of d st <> VDangling l) -> cast_case st d t
| CC_hit l v0 : any_cast_ptr d t st = PTo l -> pget d st = Live (Some l) ->
            hget l (st_heap st) = Some (t, v0) -> view_of d st = VHolds t v0 -> cast_case st d t.

Lemma cast_cases st d t : inv st -> cast_case st d t.
Proof.
  intro I. destruct (pget d st) as [|[l|]] eqn:P.
  - apply CC_miss; unfold any_cast_ptr, view_of; rewrite P; simpl; auto; discriminate.
  - destruct (inv_owned _ _ _ _ I P) as [[t' v0] Hc].
    destruct (Nat.eqb_spec t' t) as [E|E].
    + subst t'. apply (CC_hit _ _ _ l v0); auto.
      * unfold any_cast_ptr, m_type, content. rewrite P, Hc, Nat.eqb_refl. auto.
      * apply (view_holds _ _ _ _ _ P Hc).
    + apply Nat.eqb_neq in E.
      apply CC_miss; unfold any_cast_ptr, m_type, content, view_of; rewrite P; simpl; rewrite Hc; simpl; try rewrite E; auto; discriminate.
  - apply CC_miss; unfold any_cast_ptr, m_type, content, view_of; rewrite P; simpl; auto; discriminate.
Qed.

Lemma spec_set_miss x t v : spec_holds x t = false -> spec_set x t v = x.
Proof. destruct x; simpl; auto. intro H. rewrite H. auto. Qed.

Lemma upd_views_same d st : upd d (view_of d st) (views st) = views st.
Proof. rewrite <- nth_views. apply upd_same. Qed.

(* ------------------------------------------------------------------ the step function refines the value-level specification *)

Lemma inv_note X e st : invx X st -> invx X (note_ctor e st).
Proof. intros [A B C D E]. constructor; simpl; auto. Qed.

Lemma views_note e st : views (note_ctor e st) = views st.
Proof. reflexivity. Qed.

Lemma read_val_copy_spec d t st : inv st -> is_live d st = true ->
  inv (fst (read_val_copy t (any_cast_ref d t st) st)) /\
  views (fst (read_val_copy t (any_cast_ref d t st) st)) = views st /\
  snd (read_val_copy t (any_cast_ref d t st) st) = spec_cast_val (view_of d st) t.
Proof.
  intros I L. unfold read_val_copy. rewrite (cast_val_spec d t st L).
  destruct (spec_cast_val (view_of d st) t); simpl; auto.
  split; [apply inv_note; auto | auto].
Qed.

Lemma holds_type_spec s tx st : is_live s st = true -> holds_type s tx st = spec_holds (view_of s st) tx.
Proof.
  intro L. unfold holds_type, m_type. rewrite (view_live _ _ L).
  destruct (content s st) as [l|]; simpl; auto.
  destruct (hget l (st_heap st)) as [[t v]|]; auto.
Qed.

(* writing any cell value (also the moved-from mark) to the holder owned by d *)
Theorem step_refines_spec st o : inv st ->
  inv (fst (step o st)) /\
  views (fst (step o st)) = fst (spec_step o (views st)) /\
  snd (step o st) = snd (spec_step o (views st)).
Proof.
  intro I.
  destruct o; simpl; unfold vget; rewrite ?vfree_views, ?nth_views, ?vlive_view.
  - (* ODefault *) destruct (is_free d st) eqn:F; simpl; auto. destruct (default_ok _ _ I F); auto.
  - (* OValue *) destruct (is_free d st) eqn:F; simpl; auto. destruct (value_ctor_ok _ mv _ t v I F); auto.
  - (* OCopyCtor *) destruct (is_free d st) eqn:F; simpl; auto. destruct (is_live s st) eqn:L; simpl; auto.
    destruct (copy_ctor_ok _ _ _ I F L); auto.
  - (* OMoveCtor *) destruct (is_free d st) eqn:F; simpl; auto. destruct (is_live s st) eqn:L; simpl; auto.
    destruct (move_ctor_ok _ _ _ I F L); auto.
  - (* OCopyAssign *) destruct (is_live d st) eqn:Ld; simpl; auto. destruct (is_live s st) eqn:L; simpl; auto.
    destruct (copy_assign_ok _ _ _ I Ld L); auto.
  - (* OMoveAssign *) destruct (is_live d st) eqn:Ld; simpl; auto. destruct (is_live s st) eqn:L; simpl; auto.
    destruct (Nat.eqb_spec d s) as [E|E].
    + subst. rewrite move_assign_self. auto.
    + destruct (move_assign_ok _ _ _ I Ld L E); auto.
  - (* OValueAssign *) destruct (is_live d st) eqn:Ld; simpl; auto. destruct (value_assign_ok _ mv _ t v I Ld); auto.
  - (* OReset *) destruct (is_live d st) eqn:Ld; simpl; auto. destruct (reset_ok _ _ I Ld); auto.
  - (* OSwap *) destruct (is_live d st) eqn:Ld; simpl; auto. destruct (is_live s st) eqn:L; simpl; auto.
    destruct (swap_ok _ _ _ I Ld L); auto.
  - (* ODestroy *) destruct (is_live d st) eqn:Ld; simpl; auto. destruct (destroy_ok _ _ I Ld); auto.
  - (* OHasValue *) destruct (is_live d st) eqn:Ld; simpl; auto. rewrite has_value_spec by auto. auto.
  - (* OType *) destruct (is_live d st) eqn:Ld; simpl; auto. rewrite type_spec by auto. auto.
  - (* OCastPtr *) rewrite cast_ptr_spec. auto.
  - (* OCastCPtr *) unfold any_cast_cptr. rewrite cast_ptr_spec. auto.
  - (* OCastVal *) destruct (is_live d st) eqn:Ld; simpl; auto. apply read_val_copy_spec; auto.
  - (* OCastRef *) destruct (is_live d st) eqn:Ld; simpl; auto. rewrite cast_val_spec by auto. auto.
  - (* OCastCVal *) destruct (is_live d st) eqn:Ld; simpl; auto. unfold any_cast_cref. apply read_val_copy_spec; auto.
  - (* OCastRVal *) destruct (is_live d st) eqn:Ld; simpl; auto. unfold any_cast_rval. apply read_val_copy_spec; auto.
  - (* OSetPtr *) destruct (cast_cases st d t I) as [P H N|l v0 P Hp Hl Hv]; rewrite P; simpl.
    + destruct (view_of d st) eqn:V; simpl in H; try rewrite H; simpl;
        try (exfalso; eapply N; eauto; fail); rewrite <- V, upd_views_same; auto.
    + rewrite Hv. simpl. rewrite Nat.eqb_refl. destruct (write_ok _ _ _ _ _ (Some v) I Hp Hl); auto.
  - (* OSetRef *) destruct (is_live d st) eqn:Ld; simpl; auto. unfold any_cast_ref.
    destruct (cast_cases st d t I) as [P H N|l v0 P Hp Hl Hv]; rewrite P; simpl.
    + destruct (view_of d st) eqn:V; simpl in H; try rewrite H; simpl;
        try (exfalso; eapply N; eauto; fail); rewrite <- V, upd_views_same; auto.
    + rewrite Hv. simpl. rewrite Nat.eqb_refl. destruct (write_ok _ _ _ _ _ (Some v) I Hp Hl); auto.
  - (* OCastPtrCq *) unfold any_cast_ptr_cq. rewrite cast_ptr_spec. auto.
  - (* OCastRefCq *) destruct (is_live d st) eqn:Ld; simpl; auto.
    change (any_cast_ref_cq d t st) with (any_cast_ref d t st). rewrite cast_val_spec by auto. auto.
  - (* OCastXVal *) destruct (is_live d st) eqn:Ld; simpl; auto. unfold any_cast_rval, any_cast_ref.
    destruct (cast_cases st d t I) as [P H N|l x0 P Hp Hl Hv]; rewrite P; simpl.
    + destruct (view_of d st) eqn:V; simpl in H; try rewrite H; simpl; auto.
      exfalso; eapply N; eauto.
    + rewrite Hl, Hv. simpl. rewrite Nat.eqb_refl.
      destruct (write_ok _ _ _ _ _ (if mvt then None else x0) I Hp Hl) as [I1 V1].
      destruct asg; simpl; auto. split; [apply inv_note; auto | auto].
  - (* OValueThrow *) destruct (is_free d st); auto.
  - (* OValueAssignThrow *) destruct (is_live d st); auto.
  - (* OCopyCtorArmed *) destruct (is_free d st) eqn:F; simpl; auto. destruct (is_live s st) eqn:L; simpl; auto.
    rewrite holds_type_spec by auto. destruct (spec_holds (view_of s st) tx); simpl; auto.
    destruct (copy_ctor_ok _ _ _ I F L); auto.
  - (* OCopyAssignArmed *) destruct (is_live d st) eqn:Ld; simpl; auto. destruct (is_live s st) eqn:L; simpl; auto.
    rewrite holds_type_spec by auto. destruct (spec_holds (view_of s st) tx); simpl; auto.
    destruct (copy_assign_ok _ _ _ I Ld L); auto.
Qed.

(* ------------------------------------------------------------------ all operation words *)

Lemma run_refines_spec w st : inv st ->
  inv (fst (run w st)) /\
  views (fst (run w st)) = fst (spec_run w (views st)) /\
  snd (run w st) = snd (spec_run w (views st)).
Proof.
  revert st; induction w as [|o w IH]; intros st I; simpl; auto.
  destruct (step_refines_spec st o I) as [I1 [V1 R1]].
  destruct (step o st) as [st1 r] eqn:E1. destruct (spec_step o (views st)) as [vs1 r'] eqn:E2.
  simpl in *. subst. specialize (IH st1 I1). destruct IH as [I2 [V2 R2]].
  destruct (run w st1) as [st2 rs]. destruct (spec_run w (views st1)) as [vs2 rs']. simpl in *.
  subst. auto.
Qed.

Lemma exec_inv n w : inv (exec w (init n)).
Proof. unfold exec. apply run_refines_spec, inv_init. Qed.

(* ------------------------------------------------------------------ consequences of the invariant *)

Lemma inv_dlog_once st x : inv st -> cnt x (st_dlog st) <= 1.
Proof. intro I. pose proof (ix_log _ _ I x). pose proof (ix_once _ _ I x). lia. Qed.

Lemma inv_keys_nodup st : inv st -> NoDup (keys (st_heap st)).
Proof. intro I. apply cnt_nodup. intro x. apply (ix_key1 _ _ x I). Qed.

(* a location referenced by a container has not been deleted *)
Lemma inv_owned_not_deleted st d l : inv st -> pget d st = Live (Some l) -> ~ In l (st_dlog st).
Proof.
  intros I H Hin. apply cnt_In in Hin.
  destruct (inv_owned _ _ _ _ I H) as [c Hc].
  assert (1 <= cnt l (keys (st_heap st))) by (apply hget_cnt; congruence).
  pose proof (ix_log _ _ I l). pose proof (ix_once _ _ I l). lia.
Qed.

Lemma inv_no_dangling st d l : inv st -> view_of d st <> VDangling l.
Proof.
  intros I H. unfold view_of in H. destruct (pget d st) as [|[l'|]] eqn:P; simpl in H; try discriminate.
  destruct (inv_owned _ _ _ _ I P) as [[t v] Hc]. rewrite Hc in H. discriminate.
Qed.

Lemma spec_no_fault o vs f :
  (forall d l, nth d vs VDead <> VDangling l) -> snd (spec_step o vs) <> RFault f.
Proof.
  intro N.
  destruct o; simpl; unfold vget, spec_cast_ptr, spec_cast_val;
    repeat match goal with
           | |- context [if ?b then _ else _] => destruct b; simpl
           | |- context [match nth ?d vs VDead with _ => _ end] =>
               let V := fresh "V" in destruct (nth d vs VDead) eqn:V; simpl; try (exfalso; eapply N; eauto; fail)
           end; try discriminate.
Qed.

Lemma step_no_fault st o f : inv st -> snd (step o st) <> RFault f.
Proof.
  intro I. destruct (step_refines_spec st o I) as [_ [_ R]]. rewrite R.
  apply spec_no_fault. intros d l. rewrite nth_views. apply inv_no_dangling; auto.
Qed.

Lemma run_no_fault w st f : inv st -> ~ In (RFault f) (snd (run w st)).
Proof.
  revert st; induction w as [|o w IH]; intros st I; simpl; auto.
  pose proof (step_no_fault st o f I) as N.
  destruct (step_refines_spec st o I) as [I1 _].
  destruct (step o st) as [st1 r]. simpl in *. specialize (IH st1 I1).
  destruct (run w st1) as [st2 rs]. simpl in *. intros [H|H]; auto.
Qed.

(* ------------------------------------------------------------------ no leak *)

Lemma view_dead_iff d st : view_of d st = VDead <-> pget d st = Dead.
Proof.
  unfold view_of. destruct (pget d st) as [|[l|]]; simpl; split; auto; try discriminate.
  destruct (hget l (st_heap st)) as [[t v]|]; discriminate.
Qed.

Lemma refs_all_dead p : (forall d, nth d p Dead = Dead) -> refs p = [].
Proof.
  induction p as [|a r IH]; intro H; simpl; auto.
  pose proof (H 0) as H0. simpl in H0. subst a. simpl. apply IH. intro d. apply (H (S d)).
Qed.

Lemma cnt_all_zero l : (forall x, cnt x l = 0) -> l = [].
Proof. destruct l as [|y r]; auto. intro H. specialize (H y). simpl in H. rewrite Nat.eqb_refl in H. lia. Qed.

Lemma destroy_fold ds st : inv st ->
  let st' := fold_left (fun s d => fst (step (ODestroy d) s)) ds st in
  inv st' /\ (forall d, In d ds -> view_of d st' = VDead) /\ (forall d, view_of d st = VDead -> view_of d st' = VDead).
Proof.
  revert st; induction ds as [|d ds IH]; intros st I; cbn [fold_left In].
  - split; [auto | split; [intros d [] | auto]].
  - destruct (step_refines_spec st (ODestroy d) I) as [I1 [V1 _]].
    set (st1 := fst (step (ODestroy d) st)) in *.
    assert (Hd : view_of d st1 = VDead).
    { rewrite <- nth_views, V1. simpl. unfold vget. rewrite nth_views.
      destruct (vlive (view_of d st)) eqn:L; simpl.
      - rewrite nth_upd, Nat.eqb_refl. simpl. destruct (d <? length (views st)) eqn:E; auto.
        rewrite nth_overflow; auto. apply Nat.ltb_ge in E. auto.
      - rewrite nth_views. destruct (view_of d st); auto; discriminate. }
    assert (Hk : forall e, view_of e st = VDead -> view_of e st1 = VDead).
    { intros e He. rewrite <- nth_views, V1. simpl. unfold vget. rewrite nth_views.
      destruct (vlive (view_of d st)); simpl; rewrite ?nth_upd, nth_views; auto.
      destruct (Nat.eqb d e && _); auto. }
    destruct (IH st1 I1) as [I2 [A B]]. split; [exact I2 | split].
    + intros e [E|E]; auto. subst. auto.
    + auto.
Qed.

Theorem destroy_all_no_leak st : inv st ->
  let st' := destroy_all st in
  inv st' /\ st_heap st' = [] /\ Permutation (st_dlog st') (st_alog st') /\ NoDup (st_dlog st') /\
  (forall d, pget d st' = Dead).
Proof.
  intro I. unfold destroy_all.
  destruct (destroy_fold (seq 0 (length (st_pool st))) st I) as [I' [A _]].
  set (st' := fold_left _ _ st) in *. simpl.
  assert (L : length (st_pool st') = length (st_pool st)).
  { unfold st'. generalize (seq 0 (length (st_pool st))). intro ds. generalize st.
    induction ds as [|d ds IH]; intro s0; simpl; auto. rewrite IH.
    simpl. destruct (is_live d s0); simpl; auto. unfold m_destroy. simpl. rewrite length_upd, pool_delete. auto. }
  assert (D : forall d, pget d st' = Dead).
  { intro d. destruct (Nat.lt_ge_cases d (length (st_pool st))).
    - apply view_dead_iff, A, in_seq. lia.
    - unfold pget. apply nth_overflow. lia. }
  assert (R : refs (st_pool st') = []) by (apply refs_all_dead; exact D).
  assert (K : keys (st_heap st') = []).
  { apply cnt_all_zero. intro x. rewrite <- (ix_own _ _ I' x). rewrite R. auto. }
  split; [exact I' | split; [| split; [| split; [| exact D]]]].
  - destruct (st_heap st'); auto; discriminate.
  - apply cnt_perm. intro x. rewrite (ix_log _ _ I' x), K. simpl. lia.
  - apply cnt_nodup. intro x. apply inv_dlog_once; auto.
Qed.

(* ------------------------------------------------------------------ REGRESSION-SPEC REMARK (not a property theorem)
   m_move_assign_nocheck is the body operator=(any&&) would have without its
   `this == &rhs` test.  It is NOT extracted, NOT run and NOT part of Properties_C20.v;
   the lemma only records what the test is there for (the library with the test removed is
   mutation M5 of the check: it is caught by C20:self-assign-not-harmless:mas). *)

Lemma move_assign_nocheck_self_releases st d : is_live d st = true ->
  view_of d (m_move_assign_nocheck d d st) = VEmpty.
Proof.
  intro L. pose proof (is_live_lt _ _ L) as Hlt. apply view_empty.
  unfold m_move_assign_nocheck, pget. rewrite pool_delete. unfold set_content, m_swap, set_content. simpl.
  apply nth_upd_same. rewrite !length_upd. auto.
Qed.

(* ------------------------------------------------------------------ instance counters *)

Definition tagtest (t : tag) (h : heap) (l : loc) : bool :=
  match hget l h with Some (t', _) => Nat.eqb t' t | None => false end.
Definition tc (t : tag) (h : heap) (ls : list loc) : nat := length (filter (tagtest t h) ls).

Lemma tc_perm t h a b : Permutation a b -> tc t h a = tc t h b.
Proof.
  unfold tc. induction 1; simpl; auto.
  - destruct (tagtest t h x); simpl; auto.
  - destruct (tagtest t h x), (tagtest t h y); simpl; auto.
  - congruence.
Qed.

Lemma tc_cons_other t k c r ls : ~ In k ls -> tc t ((k, c) :: r) ls = tc t r ls.
Proof.
  intro H. unfold tc. f_equal. apply filter_ext_in. intros l Hl.
  unfold tagtest. simpl. destruct (Nat.eqb_spec k l); auto. subst. contradiction.
Qed.

Lemma tc_keys t h : NoDup (keys h) -> tc t h (keys h) = live_count t (mkSt h 0 [] [] [] [] []).
Proof.
  unfold live_count; simpl. induction h as [|[k [t' v]] r IH]; intro N; simpl; auto.
  inversion N; subst.
  change (tc t ((k, (t', v)) :: r) (k :: keys r))
    with (length (if tagtest t ((k, (t', v)) :: r) k then k :: filter (tagtest t ((k, (t', v)) :: r)) (keys r)
                  else filter (tagtest t ((k, (t', v)) :: r)) (keys r))).
  assert (E : tagtest t ((k, (t', v)) :: r) k = Nat.eqb t' t) by (unfold tagtest; simpl; rewrite Nat.eqb_refl; auto).
  rewrite E. pose proof (tc_cons_other t k (t', v) r (keys r) H1) as T. unfold tc in T, IH.
  destruct (Nat.eqb t' t); cbn [length]; [f_equal|]; (etransitivity; [exact T | apply IH; auto]).
Qed.

Lemma tc_refs t h p : tc t h (refs p) = spec_count t (map (vslot h) p).
Proof.
  unfold tc, spec_count. induction p as [|a r IH]; simpl; auto.
  destruct a as [|[l|]]; simpl; auto.
  unfold tagtest at 1. destruct (hget l h) as [[t' v]|]; simpl; auto.
  destruct (Nat.eqb t' t); simpl; auto.
Qed.

(* the number of live holders of type t = the number of containers that hold a t *)
Theorem live_count_spec t st : inv st -> live_count t st = spec_count t (views st).
Proof.
  intro I. unfold views. rewrite <- tc_refs.
  assert (P : Permutation (refs (st_pool st)) (keys (st_heap st))).
  { apply cnt_perm. intro x. pose proof (ix_own _ _ I x). simpl in H. lia. }
  rewrite (tc_perm _ _ _ _ P), tc_keys by (apply inv_keys_nodup; auto). reflexivity.
Qed.

(* ------------------------------------------------------------------ the property clauses *)

Lemma views_init n : views (init n) = repeat VDead n.
Proof. unfold views; simpl. induction n; simpl; congruence. Qed.

Lemma c20_ownership n w :
  let st := exec w (init n) in
  (forall l c, hget l (st_heap st) = Some c ->
     exists d, pget d st = Live (Some l) /\ forall e, pget e st = Live (Some l) -> e = d) /\
  (forall d l, pget d st = Live (Some l) ->
     (exists c, hget l (st_heap st) = Some c) /\ ~ In l (st_dlog st)) /\
  NoDup (keys (st_heap st)).
Proof.
  pose proof (exec_inv n w) as I. simpl. split; [|split].
  - intros l c H. destruct (inv_no_orphan _ _ _ I H) as [d Hd]. exists d. split; auto.
    intros e He. eapply inv_unique; eauto.
  - intros d l H. split; [eapply inv_owned; eauto | eapply inv_owned_not_deleted; eauto].
  - apply inv_keys_nodup; auto.
Qed.

Lemma c20_inv_inductive :
  (forall n, inv (init n)) /\ (forall o st, inv st -> inv (fst (step o st))).
Proof. split; [apply inv_init | intros o st I; apply (step_refines_spec st o I)]. Qed.

Lemma c20_no_double_free n w :
  let st := exec w (init n) in
  NoDup (st_dlog st) /\
  (forall l, In l (st_dlog st) -> hget l (st_heap st) = None) /\
  (forall l, ~ In (DoubleFree l) (st_faults st)).
Proof.
  pose proof (exec_inv n w) as I. simpl. split; [|split].
  - apply cnt_nodup. intro x. apply inv_dlog_once; auto.
  - intros l H. apply cnt_In in H. apply hget_none_cnt.
    pose proof (ix_log _ _ I l). pose proof (ix_once _ _ I l). lia.
  - intros l H. rewrite (ix_nofault _ _ I) in H. destruct H.
Qed.

Lemma c20_no_use_after_free n w :
  let st := exec w (init n) in
  st_faults st = [] /\
  (forall f, ~ In (RFault f) (snd (run w (init n)))) /\
  (forall d l, view_of d st <> VDangling l).
Proof.
  pose proof (exec_inv n w) as I. simpl. split; [|split].
  - apply (ix_nofault _ _ I).
  - intro f. apply run_no_fault, inv_init.
  - intros d l. apply inv_no_dangling; auto.
Qed.

Lemma c20_no_leak n w :
  let st := destroy_all (exec w (init n)) in
  st_heap st = [] /\ Permutation (st_dlog st) (st_alog st) /\ NoDup (st_dlog st) /\ st_faults st = [].
Proof.
  destruct (destroy_all_no_leak _ (exec_inv n w)) as [I [H [P [N _]]]]. simpl.
  repeat split; auto. apply (ix_nofault _ _ I).
Qed.

Lemma c20_value_semantics n w :
  views (exec w (init n)) = fst (spec_run w (repeat VDead n)) /\
  snd (run w (init n)) = snd (spec_run w (repeat VDead n)) /\
  (forall t, live_count t (exec w (init n)) = spec_count t (fst (spec_run w (repeat VDead n)))).
Proof.
  destruct (run_refines_spec w (init n) (inv_init n)) as [I [V R]]. rewrite views_init in *.
  unfold exec. split; [|split]; auto. intro t. rewrite <- V. apply live_count_spec; auto.
Qed.

Lemma view_holds_inv d t v st : view_of d st = VHolds t v ->
  exists l, pget d st = Live (Some l) /\ hget l (st_heap st) = Some (t, v).
Proof.
  unfold view_of. destruct (pget d st) as [|[l|]]; simpl; try discriminate.
  destruct (hget l (st_heap st)) as [[t' v']|] eqn:E; try discriminate.
  intro H; inversion H; subst. eauto.
Qed.

Lemma view_live_true d st : vlive (view_of d st) = true -> is_live d st = true.
Proof. rewrite vlive_view. auto. Qed.

Lemma c20_cast_ok st d t x : view_of d st = VHolds t x ->
  step (OCastPtr d t) st = (st, RPtr (Some x)) /\ step (OCastCPtr d t) st = (st, RPtr (Some x)) /\
  step (OCastPtrCq d t) st = (st, RPtr (Some x)) /\
  step (OCastRef d t) st = (st, RVal x) /\ step (OCastRefCq d t) st = (st, RVal x) /\
  step (OCastVal d t) st = (note_ctor (t, false) st, RVal x) /\
  step (OCastCVal d t) st = (note_ctor (t, false) st, RVal x) /\
  step (OCastRVal d t) st = (note_ctor (t, false) st, RVal x).
Proof.
  intro V. assert (L : is_live d st = true) by (apply view_live_true; rewrite V; auto).
  simpl. unfold any_cast_cptr, any_cast_cref, any_cast_rval, any_cast_ptr_cq, read_val_copy.
  change (any_cast_ref_cq d t st) with (any_cast_ref d t st).
  rewrite L, cast_ptr_spec, cast_val_spec, V by auto. simpl. rewrite Nat.eqb_refl. repeat split; auto.
Qed.

Lemma c20_cast_wrong_type st d t x t' v' : view_of d st = VHolds t x -> t' <> t ->
  step (OCastPtr d t') st = (st, RPtr None) /\ step (OCastCPtr d t') st = (st, RPtr None) /\
  step (OCastPtrCq d t') st = (st, RPtr None) /\
  step (OCastVal d t') st = (st, RThrow) /\ step (OCastRef d t') st = (st, RThrow) /\
  step (OCastCVal d t') st = (st, RThrow) /\ step (OCastRVal d t') st = (st, RThrow) /\
  step (OCastRefCq d t') st = (st, RThrow) /\
  (forall asg mvt, step (OCastXVal asg d t' mvt) st = (st, RThrow)) /\
  step (OSetPtr d t' v') st = (st, RBool false) /\ step (OSetRef d t' v') st = (st, RThrow).
Proof.
  intros V ne. assert (L : is_live d st = true) by (apply view_live_true; rewrite V; auto).
  assert (E : Nat.eqb t t' = false) by (apply Nat.eqb_neq; auto).
  destruct (view_holds_inv _ _ _ _ V) as [l [P H]].
  assert (C : any_cast_ptr d t' st = PNull).
  { unfold any_cast_ptr, m_type, content. rewrite P, H, E. auto. }
  simpl. unfold any_cast_cptr, any_cast_cref, any_cast_rval, any_cast_ref_cq, any_cast_ptr_cq, any_cast_ref, read_val_copy.
  rewrite L, C. simpl. repeat split; auto.
Qed.

Lemma c20_empty_type_void st d t : view_of d st = VEmpty ->
  step (OType d) st = (st, RType None) /\ step (OHasValue d) st = (st, RBool false) /\
  step (OCastPtr d t) st = (st, RPtr None) /\ step (OCastCPtr d t) st = (st, RPtr None) /\
  step (OCastPtrCq d t) st = (st, RPtr None) /\
  step (OCastVal d t) st = (st, RThrow) /\ step (OCastRef d t) st = (st, RThrow) /\
  step (OCastCVal d t) st = (st, RThrow) /\ step (OCastRVal d t) st = (st, RThrow) /\
  step (OCastRefCq d t) st = (st, RThrow) /\
  (forall asg mvt, step (OCastXVal asg d t mvt) st = (st, RThrow)).
Proof.
  intro V. assert (L : is_live d st = true) by (apply view_live_true; rewrite V; auto).
  assert (C : any_cast_ptr d t st = PNull).
  { unfold view_of in V. unfold any_cast_ptr, m_type, content.
    destruct (pget d st) as [|[l|]]; simpl in V; try discriminate; auto.
    destruct (hget l (st_heap st)) as [[t' x]|]; discriminate. }
  simpl. unfold any_cast_cptr, any_cast_cref, any_cast_rval, any_cast_ref_cq, any_cast_ptr_cq, any_cast_ref, read_val_copy.
  rewrite L, C, has_value_spec, type_spec, V by auto. simpl. repeat split; auto.
Qed.

(* a null operand (no container at the index) for the pointer forms *)
Lemma c20_cast_null_operand st d t : view_of d st = VDead ->
  step (OCastPtr d t) st = (st, RPtr None) /\ step (OCastCPtr d t) st = (st, RPtr None) /\
  step (OCastPtrCq d t) st = (st, RPtr None).
Proof.
  intro V. simpl. unfold any_cast_cptr, any_cast_ptr_cq. rewrite cast_ptr_spec, V. auto.
Qed.

Lemma view_step e o st : inv st -> view_of e (fst (step o st)) = nth e (fst (spec_step o (views st))) VDead.
Proof. intro I. destruct (step_refines_spec st o I) as [_ [V _]]. rewrite <- V, nth_views. auto. Qed.

Lemma spec_set_frame vs d e t v : d <> e ->
  nth e (fst (spec_step (OSetPtr d t v) vs)) VDead = nth e vs VDead /\
  nth e (fst (spec_step (OSetRef d t v) vs)) VDead = nth e vs VDead.
Proof.
  intro ne. simpl. unfold vget. split.
  - destruct (nth d vs VDead); simpl; auto; apply nth_upd_other; auto.
  - destruct (vlive (nth d vs VDead)); simpl; auto.
    destruct (nth d vs VDead); simpl; auto; apply nth_upd_other; auto.
Qed.

(* writing through a cast of one container changes no other container *)
Lemma c20_write_frame st d e t v : inv st -> d <> e ->
  view_of e (fst (step (OSetPtr d t v) st)) = view_of e st /\
  view_of e (fst (step (OSetRef d t v) st)) = view_of e st.
Proof.
  intros I ne. rewrite !view_step by auto. destruct (spec_set_frame (views st) d e t v ne) as [A B].
  rewrite A, B, nth_views. auto.
Qed.

Lemma distinct_holders st d s l : inv st -> d <> s -> is_live d st = true -> is_live s st = true ->
  content s st = Some l -> content d st <> Some l.
Proof.
  intros I ne Ld Ls Hs Hd. apply ne. apply (inv_unique _ _ _ _ l I).
  - rewrite (is_live_content _ _ Ld), Hd. auto.
  - rewrite (is_live_content _ _ Ls), Hs. auto.
Qed.

Lemma copy_then_write st1 d s x : inv st1 -> d <> s -> view_of d st1 = x -> view_of s st1 = x ->
  forall t v,
    view_of s (fst (step (OSetPtr d t v) st1)) = x /\
    view_of s (fst (step (OSetRef d t v) st1)) = x /\
    view_of d (fst (step (OSetPtr s t v) st1)) = x /\
    view_of d (fst (step (OSetRef s t v) st1)) = x.
Proof.
  intros I ne Vd Vs t v.
  destruct (c20_write_frame st1 d s t v I ne) as [A B].
  destruct (c20_write_frame st1 s d t v I (not_eq_sym ne)) as [C D].
  rewrite A, B, C, D. auto.
Qed.

Lemma free_live_ne st d s : is_free d st = true -> is_live s st = true -> d <> s.
Proof.
  intros F L E. subst. unfold is_free in F. rewrite L in F. rewrite andb_false_r in F. discriminate.
Qed.

Lemma c20_copy_ctor_independent st d s : inv st -> is_free d st = true -> is_live s st = true ->
  let st1 := fst (step (OCopyCtor d s) st) in
  view_of d st1 = view_of s st /\ view_of s st1 = view_of s st /\
  (forall l, content s st1 = Some l -> content d st1 <> Some l) /\
  forall t v,
    view_of s (fst (step (OSetPtr d t v) st1)) = view_of s st /\
    view_of s (fst (step (OSetRef d t v) st1)) = view_of s st /\
    view_of d (fst (step (OSetPtr s t v) st1)) = view_of s st /\
    view_of d (fst (step (OSetRef s t v) st1)) = view_of s st.
Proof.
  intros I F L st1. pose proof (free_live_ne _ _ _ F L) as ne.
  destruct (is_free_lt _ _ F) as [Hlt _].
  destruct (step_refines_spec st (OCopyCtor d s) I) as [I1 _]. fold st1 in I1.
  assert (Vd : view_of d st1 = view_of s st).
  { unfold st1. rewrite view_step by auto. simpl. unfold vget.
    rewrite vfree_views, nth_views, vlive_view, F, L. simpl. apply nth_upd_same. rewrite length_views; auto. }
  assert (Vs : view_of s st1 = view_of s st).
  { unfold st1. rewrite view_step by auto. simpl. unfold vget.
    rewrite vfree_views, nth_views, vlive_view, F, L. simpl. rewrite nth_upd_other, nth_views; auto. }
  split; [auto | split; [auto | split]].
  - intros l Hl. apply (distinct_holders st1 d s l I1 ne); auto.
    + apply view_live_true. rewrite Vd, vlive_view; auto.
    + apply view_live_true. rewrite Vs, vlive_view; auto.
  - apply copy_then_write; auto.
Qed.

Lemma c20_copy_assign_independent st d s : inv st -> is_live d st = true -> is_live s st = true -> d <> s ->
  let st1 := fst (step (OCopyAssign d s) st) in
  view_of d st1 = view_of s st /\ view_of s st1 = view_of s st /\
  (forall l, content s st1 = Some l -> content d st1 <> Some l) /\
  forall t v,
    view_of s (fst (step (OSetPtr d t v) st1)) = view_of s st /\
    view_of s (fst (step (OSetRef d t v) st1)) = view_of s st /\
    view_of d (fst (step (OSetPtr s t v) st1)) = view_of s st /\
    view_of d (fst (step (OSetRef s t v) st1)) = view_of s st.
Proof.
  intros I Ld L ne st1. pose proof (is_live_lt _ _ Ld) as Hlt.
  destruct (step_refines_spec st (OCopyAssign d s) I) as [I1 _]. fold st1 in I1.
  assert (Vd : view_of d st1 = view_of s st).
  { unfold st1. rewrite view_step by auto. simpl. unfold vget.
    rewrite !nth_views, !vlive_view, Ld, L. simpl. apply nth_upd_same. rewrite length_views; auto. }
  assert (Vs : view_of s st1 = view_of s st).
  { unfold st1. rewrite view_step by auto. simpl. unfold vget.
    rewrite !nth_views, !vlive_view, Ld, L. simpl. rewrite nth_upd_other, nth_views; auto. }
  split; [auto | split; [auto | split]].
  - intros l Hl. apply (distinct_holders st1 d s l I1 ne); auto.
    + apply view_live_true. rewrite Vd, vlive_view; auto.
    + apply view_live_true. rewrite Vs, vlive_view; auto.
  - apply copy_then_write; auto.
Qed.

Lemma c20_moved_from_empty_ctor st d s : inv st -> is_free d st = true -> is_live s st = true ->
  let st1 := fst (step (OMoveCtor d s) st) in
  view_of s st1 = VEmpty /\ view_of d st1 = view_of s st /\
  st_alog st1 = st_alog st /\ st_dlog st1 = st_dlog st /\ st_heap st1 = st_heap st.
Proof.
  intros I F L st1. pose proof (free_live_ne _ _ _ F L) as ne.
  destruct (is_free_lt _ _ F) as [Hlt _]. pose proof (is_live_lt _ _ L) as Hls.
  split; [|split].
  - unfold st1. rewrite view_step by auto. simpl. unfold vget.
    rewrite vfree_views, nth_views, vlive_view, F, L. simpl. apply nth_upd_same. rewrite length_upd, length_views; auto.
  - unfold st1. rewrite view_step by auto. simpl. unfold vget.
    rewrite vfree_views, nth_views, vlive_view, F, L. simpl.
    rewrite nth_upd_other by auto. apply nth_upd_same. rewrite length_views; auto.
  - unfold st1. simpl. rewrite F, L. simpl. auto.
Qed.

Lemma c20_moved_from_empty_assign st d s : inv st -> is_live d st = true -> is_live s st = true -> d <> s ->
  let st1 := fst (step (OMoveAssign d s) st) in
  view_of s st1 = VEmpty /\ view_of d st1 = view_of s st /\ st_alog st1 = st_alog st.
Proof.
  intros I Ld L ne st1. pose proof (is_live_lt _ _ Ld) as Hlt. pose proof (is_live_lt _ _ L) as Hls.
  assert (E : Nat.eqb d s = false) by (apply Nat.eqb_neq; auto).
  split; [|split].
  - unfold st1. rewrite view_step by auto. simpl. unfold vget.
    rewrite !nth_views, !vlive_view, Ld, L, E. simpl. apply nth_upd_same. rewrite length_upd, length_views; auto.
  - unfold st1. rewrite view_step by auto. simpl. unfold vget.
    rewrite !nth_views, !vlive_view, Ld, L, E. simpl.
    rewrite nth_upd_other by auto. apply nth_upd_same. rewrite length_views; auto.
  - unfold st1. simpl. rewrite Ld, L. simpl. unfold m_move_assign. rewrite E.
    destruct (content s (m_swap s d st)); simpl; auto.
    destruct (hget _ _); auto.
Qed.

Lemma c20_self_assign_harmless st d : inv st -> is_live d st = true ->
  (inv (fst (step (OCopyAssign d d) st)) /\ views (fst (step (OCopyAssign d d) st)) = views st /\
   snd (step (OCopyAssign d d) st) = RUnit) /\
  step (OMoveAssign d d) st = (st, RUnit) /\
  (forall b, views (fst (step (OSwap b d d) st)) = views st).
Proof.
  intros I L. split; [|split].
  - destruct (step_refines_spec st (OCopyAssign d d) I) as [I1 [V R]]. split; [auto|split].
    + rewrite V. simpl. unfold vget. rewrite nth_views, vlive_view, L. simpl. apply upd_views_same.
    + simpl. rewrite L. auto.
  - simpl. rewrite L. simpl. rewrite move_assign_self. auto.
  - intro b. destruct (step_refines_spec st (OSwap b d d) I) as [_ [V _]]. rewrite V. simpl. unfold vget.
    rewrite nth_views, vlive_view, L. simpl.
    rewrite upd_views_same. apply upd_views_same.
Qed.

(* ------------------------------------------------------------------ the rvalue-reference cast the library uses *)

Lemma ctors_delete p st : st_ctors (delete_content p st) = st_ctors st.
Proof. destruct p; simpl; auto. destruct (hget l (st_heap st)); auto. Qed.

(* T x = any_cast<T&&>(std::move(a)) on a container holding a T: the caller receives the
   value; the container still has a value of the same type (has_value, type unchanged), now
   moved-from when T's move takes the value away; no other container changes; nothing is
   allocated or destroyed; asking again yields a moved-from object, not the value. *)
Lemma c20_xval st asg d t x mvt : inv st -> view_of d st = VHolds t x ->
  let st1 := fst (step (OCastXVal asg d t mvt) st) in
  snd (step (OCastXVal asg d t mvt) st) = RVal x /\
  inv st1 /\
  view_of d st1 = VHolds t (if mvt then None else x) /\
  (forall e, e <> d -> view_of e st1 = view_of e st) /\
  step (OHasValue d) st1 = (st1, RBool true) /\ step (OType d) st1 = (st1, RType (Some t)) /\
  (mvt = true -> forall asg' mvt', snd (step (OCastXVal asg' d t mvt') st1) = RVal None) /\
  st_alog st1 = st_alog st /\ st_dlog st1 = st_dlog st /\
  st_ctors st1 = (if asg then st_ctors st else (t, true) :: st_ctors st).
Proof.
  intros I V st1.
  assert (L : is_live d st = true) by (apply view_live_true; rewrite V; auto).
  assert (Hlt : d < length (views st)) by (rewrite length_views; apply is_live_lt; auto).
  destruct (step_refines_spec st (OCastXVal asg d t mvt) I) as [I1 [V1 R1]]. fold st1 in I1, V1.
  assert (S1 : spec_step (OCastXVal asg d t mvt) (views st) =
               (upd d (VHolds t (if mvt then None else x)) (views st), RVal x)).
  { simpl. unfold vget. rewrite nth_views, V. simpl. rewrite Nat.eqb_refl. auto. }
  rewrite S1 in V1, R1. simpl in V1, R1.
  assert (Vd : view_of d st1 = VHolds t (if mvt then None else x)).
  { rewrite <- nth_views, V1. apply nth_upd_same; auto. }
  assert (L1 : is_live d st1 = true) by (apply view_live_true; rewrite Vd; auto).
  split; [exact R1 | split; [exact I1 | split; [exact Vd | split; [| split; [| split; [| split]]]]]].
  - intros e ne. rewrite <- nth_views, V1, nth_upd_other, nth_views; auto.
  - simpl. rewrite L1, has_value_spec, Vd; auto.
  - simpl. rewrite L1, type_spec, Vd; auto.
  - intros M asg' mvt'. subst mvt.
    destruct (step_refines_spec st1 (OCastXVal asg' d t mvt') I1) as [_ [_ R2]]. rewrite R2.
    simpl. unfold vget. rewrite nth_views, Vd. simpl. rewrite Nat.eqb_refl. auto.
  - destruct (view_holds_inv _ _ _ _ V) as [l [P H]].
    assert (C : any_cast_ptr d t st = PTo l).
    { unfold any_cast_ptr, m_type, content. rewrite P, H, Nat.eqb_refl. auto. }
    unfold st1. simpl. unfold any_cast_rval, any_cast_ref. rewrite L, C, H. destruct asg; simpl; auto.
Qed.

(* ------------------------------------------------------------------ constructions of held-type objects *)

(* value construction / assignment performs exactly one construction of the held type: a move
   for the rvalue form, a copy otherwise; copy construction / assignment from a non-empty
   container performs one copy; moves, swap, reset and the destructor perform none *)
Lemma c20_constructions st :
  (forall mv d t v, is_free d st = true ->
     st_ctors (fst (step (OValue mv d t v) st)) = (t, mv) :: st_ctors st) /\
  (forall mv d t v, is_live d st = true ->
     st_ctors (fst (step (OValueAssign mv d t v) st)) = (t, mv) :: st_ctors st) /\
  (forall d s, st_ctors (fst (step (OMoveCtor d s) st)) = st_ctors st) /\
  (forall d s, st_ctors (fst (step (OMoveAssign d s) st)) = st_ctors st) /\
  (forall b d s, st_ctors (fst (step (OSwap b d s) st)) = st_ctors st) /\
  (forall d, st_ctors (fst (step (OReset d) st)) = st_ctors st) /\
  (forall d, st_ctors (fst (step (ODestroy d) st)) = st_ctors st) /\
  (forall d s t x, is_free d st = true -> view_of s st = VHolds t x ->
     st_ctors (fst (step (OCopyCtor d s) st)) = (t, false) :: st_ctors st) /\
  (forall d s t x, is_live d st = true -> view_of s st = VHolds t x ->
     st_ctors (fst (step (OCopyAssign d s) st)) = (t, false) :: st_ctors st) /\
  (forall d s, view_of s st = VEmpty ->
     st_ctors (fst (step (OCopyCtor d s) st)) = st_ctors st /\
     st_ctors (fst (step (OCopyAssign d s) st)) = st_ctors st).
Proof.
  repeat split.
  - intros mv d t v F. simpl. rewrite F. reflexivity.
  - intros mv d t v L. simpl. rewrite L. simpl. unfold m_value_assign. simpl. rewrite ctors_delete. reflexivity.
  - intros d s. simpl. destruct (is_free d st && is_live s st); reflexivity.
  - intros d s. simpl. destruct (is_live d st && is_live s st); simpl; auto.
    unfold m_move_assign. destruct (Nat.eqb d s); auto. rewrite ctors_delete. reflexivity.
  - intros b d s. simpl. destruct (is_live d st && is_live s st); reflexivity.
  - intros d. simpl. destruct (is_live d st); simpl; auto. unfold m_reset. rewrite ctors_delete. reflexivity.
  - intros d. simpl. destruct (is_live d st); simpl; auto. unfold m_destroy. simpl. rewrite ctors_delete. reflexivity.
  - intros d s t x F V. assert (L : is_live s st = true) by (apply view_live_true; rewrite V; auto).
    destruct (view_holds_inv _ _ _ _ V) as [l [P H]].
    simpl. rewrite F, L. simpl. unfold m_copy_ctor, content. rewrite P. rewrite (clone_some _ _ _ H). reflexivity.
  - intros d s t x Ld V. assert (L : is_live s st = true) by (apply view_live_true; rewrite V; auto).
    destruct (view_holds_inv _ _ _ _ V) as [l [P H]].
    simpl. rewrite Ld, L. simpl. unfold m_copy_assign. unfold content at 1. rewrite P. rewrite (clone_some _ _ _ H).
    rewrite ctors_delete. reflexivity.
  - unfold view_of in H. simpl. destruct (is_free d st && is_live s st); simpl; auto.
    unfold m_copy_ctor, content. destruct (pget s st) as [|[l|]]; simpl in *; try discriminate; auto.
    destruct (hget l (st_heap st)) as [[t' x]|]; discriminate.
  - unfold view_of in H. simpl. destruct (is_live d st && is_live s st); simpl; auto.
    unfold m_copy_assign. unfold content at 1. destruct (pget s st) as [|[l|]]; simpl in *; try discriminate.
    + destruct (hget l (st_heap st)) as [[t' x]|]; discriminate.
    + rewrite ctors_delete. reflexivity.
Qed.

(* ------------------------------------------------------------------ a throwing copy constructor *)

(* strong guarantee: the state (values, heap, logs) is exactly what it was *)
Lemma c20_strong_guarantee st :
  (forall d t v, is_free d st = true -> step (OValueThrow d t v) st = (st, RExn)) /\
  (forall d t v, is_live d st = true -> step (OValueAssignThrow d t v) st = (st, RExn)) /\
  (forall d s tx x, is_free d st = true -> view_of s st = VHolds tx x ->
     step (OCopyCtorArmed d s tx) st = (st, RExn)) /\
  (forall d s tx x, is_live d st = true -> view_of s st = VHolds tx x ->
     step (OCopyAssignArmed d s tx) st = (st, RExn)).
Proof.
  repeat split.
  - intros d t v F. simpl. rewrite F. auto.
  - intros d t v L. simpl. rewrite L. auto.
  - intros d s tx x F V. assert (L : is_live s st = true) by (apply view_live_true; rewrite V; auto).
    simpl. rewrite F, L, holds_type_spec, V by auto. simpl. rewrite Nat.eqb_refl. auto.
  - intros d s tx x Ld V. assert (L : is_live s st = true) by (apply view_live_true; rewrite V; auto).
    simpl. rewrite Ld, L, holds_type_spec, V by auto. simpl. rewrite Nat.eqb_refl. auto.
Qed.
