(* Properties_C17.v — property C17: estimate extraction and its sliding window
   return the advertised statistic.  Statements only; each is closed by a lemma
   of C17_Proofs.  Part I (history buffer, dispatch, cache coherence, the
   history as a trace of the recent calls) holds for EVERY scalar record S and
   every operation sequence: no axioms.  Part II (what mean / mode / map and
   the window weights are) is over Coq's reals: the 4 standard axioms of Reals. *)
Require Import ZArith QArith List Lia Bool.
Require Import BFL.Ops BFL.ListOps BFL.C19_Model BFL.C17_Model BFL.C17_Proofs.
Require Import Reals.
Require Import BFL.C19_ROps.
Import ListNotations.

(* ================================================================== *)
(* Part I — all operation sequences, any arithmetic                   *)
(* ================================================================== *)
Section C17_history.
Variable A : Type.

(* |buf| <= window and 2 <= window <= 30 after ANY sequence of add / set / decrease / increase / clear *)
Theorem C17_hist_inv (ops : list (hop A)) :
  let h := hrun (hist_init A) ops in
  (length (buf h) <= window h /\ 2 <= window h <= 30)%nat.
Proof. exact (hreachable_inv A ops). Qed.

(* the window after a request is the request clamped to [2,30] (the early return included) *)
Theorem C17_window_clamped (ops : list (hop A)) (w : Z) :
  let h := hrun (hist_init A) ops in
  window (hist_set_size w h) = clamp_window w /\ (2 <= clamp_window w <= 30)%nat /\
  ((2 <= w <= 30)%Z -> clamp_window w = Z.to_nat w).
Proof. exact (conj (set_size_window A w _ (hreachable_inv A ops)) (conj (clamp_window_range w) (clamp_window_id w))). Qed.

(* shrinking keeps exactly the most recent window' estimates (fix 3576481); nothing else is touched *)
Theorem C17_shrink_keeps_recent (ops : list (hop A)) (w : Z) :
  let h := hrun (hist_init A) ops in
  buf (hist_set_size w h) = firstn (window (hist_set_size w h)) (buf h).
Proof. exact (set_size_buf A w _ (hreachable_inv A ops)). Qed.

(* the same for any buffer satisfying the invariant *)
Theorem C17_shrink_keeps_recent_inv (h : hist A) (w : Z) : hinv h ->
  buf (hist_set_size w h) = firstn (clamp_window w) (buf h).
Proof. intros Hi. rewrite <- (set_size_window A w h Hi). exact (set_size_buf A w h Hi). Qed.

(* a window that does not get smaller loses nothing *)
Theorem C17_grow_keeps_all (h : hist A) (w : Z) : hinv h -> (window h <= clamp_window w)%nat ->
  buf (hist_set_size w h) = buf h.
Proof. exact (set_size_grow A w h). Qed.

(* addElement: push to the front, drop the oldest when full; the window is untouched *)
Theorem C17_add_pushes_front (h : hist A) (x : A) : hinv h ->
  buf (hist_add x h) = firstn (window h) (x :: buf h) /\ window (hist_add x h) = window h /\
  length (buf (hist_add x h)) = Nat.min (S (length (buf h))) (window h).
Proof. intros Hi. exact (conj (add_buf A x h Hi) (conj (add_window A x h) (add_length A x h Hi))). Qed.

Theorem C17_clear_empties (h : hist A) : buf (hist_clear h) = [] /\ window (hist_clear h) = window h.
Proof. split; reflexivity. Qed.

Theorem C17_decrease_increase (h : hist A) : hinv h ->
  window (hist_decrease h) = Nat.max 2 (window h - 1) /\ window (hist_increase h) = Nat.min 30 (window h + 1).
Proof. intros Hi. exact (conj (decrease_window A h Hi) (increase_window A h Hi)). Qed.
End C17_history.

Section C17_machine.
Variable S : SOps.
Variables lin circ : nat.
Notation init := (est_init S).
Notation run := (run S lin circ).
Notation step := (step S lin circ).

(* the invariant for every sequence of extract/2, extract/5, setMethod, setMobileAverageWindowSize, clear *)
Theorem C17_est_hist_inv (ops : list (op S)) :
  let h := hb (run init ops) in
  (length (buf h) <= window h /\ 2 <= window h <= 30)%nat.
Proof. exact (proj1 (reachable_inv S lin circ ops)). Qed.

(* the cached weight vectors are never stale: each is the weight vector of its own length *)
Theorem C17_cache_coherent (ops : list (op S)) :
  let st := run init ops in
  smw st = sm_weights S (length (smw st)) /\ wmw st = wm_weights S (length (wmw st)) /\
  emw st = em_weights S (length (emw st)).
Proof. exact (proj2 (reachable_inv S lin circ ops)). Qed.

(* what one operation does to the buffer, and that the invariant is kept *)
Theorem C17_step_history (ops : list (op S)) (o : op S) :
  let st := run init ops in
  hb (fst (step st o)) = hist_after S lin circ st o /\
  meth (fst (step st o)) = match o with OSetMethod m => m | _ => meth st end.
Proof.
  exact (conj (proj1 (step_hist S lin circ _ o (reachable_inv S lin circ ops)))
              (step_meth S lin circ _ o (reachable_inv S lin circ ops))).
Qed.

(* every extract returns either the base statistic, or the average of the stored estimates with the
   weights of THEIR CURRENT NUMBER (window changes and a filling buffer included), or "unavailable" *)
Theorem C17_extract_value (ops : list (op S)) (o : op S) :
  match o with OExtract2 _ _ | OExtract5 _ _ _ _ _ => True | _ => False end ->
  let st := run init ops in
  let r := step st o in
  match meth_win (meth st), pushed S lin circ st o with
  | Some v, Some e =>
      fst (snd r) = true /\ hb (fst r) = hist_add e (hb st) /\
      snd (snd r) = mean S lin circ (buf (hb (fst r))) (win_weights S v (length (buf (hb (fst r)))))
  | Some _, None => fst (snd r) = false /\ fst r = st
  | None, _ =>
      fst r = st /\
      match o, meth_stat (meth st) with
      | OExtract2 ps lw, Smean | OExtract5 ps lw _ _ _, Smean => snd r = (true, mean S lin circ ps lw)
      | OExtract2 ps lw, Smode | OExtract5 ps lw _ _ _, Smode => snd r = (true, mode S ps lw)
      | OExtract5 ps _ plw lik Tm, Smap => snd r = (true, map_est S ps plw lik Tm)
      | _, _ => fst (snd r) = false
      end
  end.
Proof. intros Ho. exact (extract_value S lin circ _ o (reachable_inv S lin circ ops) Ho). Qed.

(* the map variants without the extra arguments: no estimate, nothing changes *)
Theorem C17_map_without_args_unavailable (st : est S) ps lw : is_map (meth st) = true ->
  extract2 S lin circ st ps lw = (st, (false, repeat (s0 S) (lin + circ))).
Proof. exact (extract2_map_unavailable S lin circ st ps lw). Qed.

Theorem C17_extract5_nonmap_delegates (st : est S) ps lw plw lik Tm : is_map (meth st) = false ->
  extract5 S lin circ st ps lw plw lik Tm = extract2 S lin circ st ps lw.
Proof. exact (extract5_nonmap S lin circ st ps lw plw lik Tm). Qed.

(* setMobileAverageWindowSize: refused (false, nothing changes) for w <= 0, otherwise the window becomes the request
   clamped to [2,30], the most recent estimates are kept, method and caches are untouched *)
Theorem C17_set_window_spec (ops : list (op S)) (w : Z) :
  let st := run init ops in
  let r := set_window S w st in
  if (0 <? w)%Z then
    snd r = true /\ window (hb (fst r)) = clamp_window w /\
    buf (hb (fst r)) = firstn (clamp_window w) (buf (hb st)) /\
    meth (fst r) = meth st /\ smw (fst r) = smw st /\ wmw (fst r) = wmw st /\ emw (fst r) = emw st
  else r = (st, false).
Proof. exact (set_window_spec S lin circ ops w). Qed.

(* move construction / move assignment: the target IS the source state (so everything above transfers);
   the moved-from object has window 0, outside [2,30]: using it is out of scope *)
Theorem C17_move_target_is_source (st : est S) : fst (est_move S st) = st.
Proof. exact (est_move_target S st). Qed.

Theorem C17_moved_from_out_of_scope (st : est S) :
  window (hb (snd (est_move S st))) = 0%nat /\ ~ hinv (hb (snd (est_move S st))).
Proof. exact (est_moved_from S st). Qed.

(* the stored estimates are the most recent pushed base estimates (ghost trace since the last clear) *)
Theorem C17_history_is_recent_calls (ops : list (op S)) :
  let r := trace S lin circ init ops [] in
  fst r = run init ops /\
  buf (hb (fst r)) = firstn (length (buf (hb (fst r)))) (snd r).
Proof. exact (reachable_prefix S lin circ ops). Qed.

(* how many are stored *)
Theorem C17_stored_count (ops : list (op S)) (o : op S) :
  let st := run init ops in
  length (buf (hb (fst (step st o)))) =
  match o with
  | OClear => 0%nat
  | OSetWindow w => if (0 <? w)%Z then Nat.min (length (buf (hb st))) (clamp_window w) else length (buf (hb st))
  | _ => match pushed S lin circ st o with
         | Some _ => Nat.min (Datatypes.S (length (buf (hb st)))) (window (hb st))
         | None => length (buf (hb st))
         end
  end.
Proof. exact (step_stored S lin circ _ o (reachable_inv S lin circ ops)). Qed.

(* with the window left alone since the buffer was last empty: the most recent min(calls, window) calls *)
Theorem C17_stored_fixed_window (pre post : list (op S)) :
  let st := run init pre in
  buf (hb st) = [] -> Forall (quiet S) post ->
  let r := trace S lin circ st post [] in
  window (hb (fst r)) = window (hb st) /\
  buf (hb (fst r)) = firstn (Nat.min (length (snd r)) (window (hb st))) (snd r).
Proof. exact (stored_fixed_window S lin circ pre post). Qed.
End C17_machine.

(* "min(calls since the last clear, window)" is NOT the stored count once the window has been changed:
   three calls, shrink to 2, grow to 5 leaves 2 stored with 3 calls and window 5.  (Not a defect: the
   estimates dropped by the shrink cannot come back; the property's count is for an unchanged window.) *)
Theorem C17_min_calls_window_refuted :
  exists ops : list (op QOps),
    let r := trace QOps 1 0 (est_init QOps) ops [] in
    length (buf (hb (fst r))) <> Nat.min (length (snd r)) (window (hb (fst r))).
Proof. exact min_calls_window_refuted. Qed.

(* non-vacuity: a concrete run over exact rationals (mode statistic: no transcendental function involved).
   window 5 -> 3 extracts -> shrink to 2 keeps the two most recent -> one more extract *)
Example C17_concrete_run :
  let ops := [@OSetMethod QOps Msmode; @OExtract2 QOps [[1%Q]; [7%Q]] [0%Q; 1%Q]; @OExtract2 QOps [[2%Q]] [0%Q];
              @OExtract2 QOps [[3%Q]; [9%Q]] [1%Q; 0%Q]; OSetWindow 2; @OExtract2 QOps [[4%Q]] [0%Q]] in
  let st := run QOps 1 0 (est_init QOps) ops in
  (window (hb st) =? 2)%nat && qmx_eqb (buf (hb st)) [[4%Q]; [3%Q]] && (length (smw st) =? 2)%nat = true.
Proof. vm_compute. reflexivity. Qed.

(* ================================================================== *)
(* Part II — the statistics, over the reals                           *)
(* ================================================================== *)
Local Open Scope R_scope.
Section C17_real.
Variables lin circ : nat.
Notation meanR := (mean ROps lin circ).

(* linear rows: sum_i exp(lw_i) x_i.  For normalised weights this is the weighted average
   sum_i w_i x_i / sum_i w_i, and a coordinate that is the same for every particle is returned unchanged *)
Theorem C17_mean_linear ps lw r : (r < lin)%nat ->
  nth r (meanR ps lw) 0 = rdot (prow ROps r ps) (map exp lw) /\
  (rsum (map exp lw) = 1 ->
     nth r (meanR ps lw) 0 = rdot (prow ROps r ps) (map exp lw) / rsum (map exp lw) /\
     (forall c, length lw = length ps -> Forall (fun p => nth r p 0 = c) ps -> nth r (meanR ps lw) 0 = c)).
Proof.
  intros Hr. exact (conj (mean_linear lin circ ps lw r Hr) (fun Hs => conj (mean_linear_normalised lin circ ps lw r Hr Hs)
    (fun c Hl Hc => mean_linear_const lin circ ps lw r c Hr Hl Hs Hc))).
Qed.

Theorem C17_mean_linear_in_hull ps lw r lo hi : (r < lin)%nat -> length lw = length ps ->
  rsum (map exp lw) = 1 -> Forall (fun p => lo <= nth r p 0 <= hi) ps ->
  lo <= nth r (meanR ps lw) 0 <= hi.
Proof. exact (mean_linear_between lin circ ps lw r lo hi). Qed.

(* circular rows: the circular (directional) mean — argument of the weighted resultant; a single particle wrapped *)
Theorem C17_mean_circular ps lw r : (lin <= r < lin + circ)%nat ->
  nth r (meanR ps lw) 0 =
  if Nat.eqb (length ps) 1 then atan2 (sin (nth r (nth 0 ps []) 0)) (cos (nth r (nth 0 ps []) 0))
  else atan2 (rdot (map sin (prow ROps r ps)) (map exp lw)) (rdot (map cos (prow ROps r ps)) (map exp lw)).
Proof. exact (mean_circular lin circ ps lw r). Qed.

(* circular rows live on the circle: EVERY circular output of mean lies in (-PI, PI], also with one particle,
   whose angle is then returned as its principal value (congruent modulo 2 PI); /repo dee9c81 *)
Theorem C17_mean_circular_on_circle ps lw r : (lin <= r < lin + circ)%nat ->
  let x := nth r (meanR ps lw) 0 in
  - PI < x <= PI /\
  (forall p, ps = [p] -> x = atan2 (sin (nth r p 0)) (cos (nth r p 0)) /\
                         exists k : Z, x = nth r p 0 + 2 * IZR k * PI).
Proof. exact (mean_circular_on_circle lin circ ps lw r). Qed.

Theorem C17_mean_size ps lw : length (meanR ps lw) = (lin + circ)%nat.
Proof. exact (mean_length lin circ ps lw). Qed.
End C17_real.

(* atan2 of the two sums IS the direction of the resultant *)
Theorem C17_circular_mean_is_resultant_direction (a w : list R) :
  let C := rdot (map cos a) w in let Sn := rdot (map sin a) w in
  (C <> 0 \/ Sn <> 0) ->
  let th := atan2 Sn C in
  - PI < th <= PI /\ C = sqrt (C² + Sn²) * cos th /\ Sn = sqrt (C² + Sn²) * sin th.
Proof. exact (circular_mean_is_resultant_direction a w). Qed.

(* mode: the first particle of largest weight *)
Theorem C17_mode_is_max (ps : list (list R)) (lw : list R) : lw <> [] ->
  let i := argmax ROps lw in
  mode ROps ps lw = nth i ps [] /\ (i < length lw)%nat /\
  (forall j, (j < length lw)%nat -> nth j lw 0 <= nth i lw 0) /\
  (forall j, (j < i)%nat -> nth j lw 0 < nth i lw 0).
Proof. exact (mode_spec ps lw). Qed.

(* map: the first maximiser of the coded score ... *)
Theorem C17_map_is_argmax (ps : list (list R)) (plw lik : list R) (Tm : list (list R)) : lik <> [] -> Tm <> [] ->
  let vals := map_values ROps plw lik Tm in
  let i := argmax ROps vals in
  map_est ROps ps plw lik Tm = nth i ps [] /\ (i < length vals)%nat /\
  (forall j, (j < length vals)%nat -> nth j vals 0 <= nth i vals 0) /\
  (forall j, (j < i)%nat -> nth j vals 0 < nth i vals 0).
Proof. exact (map_spec ps plw lik Tm). Qed.

(* ... and the coded score is log((lik_i + eps) * sum_j (T_ij + eps) exp(plw_j)), so the returned particle maximises
   likelihood x weight-averaged transition density (up to the epsilon terms) *)
Theorem C17_map_score_meaning (ps : list (list R)) (plw lik : list R) (Tm : list (list R)) :
  length lik = length Tm -> lik <> [] -> plw <> [] ->
  Forall (fun l => 0 <= l) lik ->
  Forall (fun row => Forall (fun x => 0 <= x) row /\ row <> []) Tm ->
  let i := argmax ROps (map_values ROps plw lik Tm) in
  (i < length lik)%nat /\ map_est ROps ps plw lik Tm = nth i ps [] /\
  (forall j, (j < length lik)%nat ->
     nth j (map_values ROps plw lik Tm) 0 = ln (map_product plw (nth j lik 0) (nth j Tm []))) /\
  (forall j, (j < length lik)%nat ->
     map_product plw (nth j lik 0) (nth j Tm []) <= map_product plw (nth i lik 0) (nth i Tm [])).
Proof. exact (map_maximises_product ps plw lik Tm). Qed.

(* the window weights: positive, sum one, non-increasing with age, for every number n >= 1 of stored estimates *)
Theorem C17_window_weights (v : wvariant) (n : nat) : (1 <= n)%nat ->
  let W := map exp (win_weights ROps v n) in
  length W = n /\ (forall i, (i < n)%nat -> 0 < nth i W 0) /\ rsum W = 1 /\
  (forall i j, (i <= j)%nat -> (j < n)%nat -> nth j W 0 <= nth i W 0).
Proof. exact (win_weights_ok v n). Qed.

(* closed forms: 1/n;  (n-i)/sum_k (n-k);  exp(-i/n)/sum_k exp(-k/n) *)
Theorem C17_window_weights_closed_form (n i : nat) : (1 <= n)%nat -> (i < n)%nat ->
  nth i (map exp (win_weights ROps Wsimple n)) 0 = / INR n /\
  nth i (map exp (win_weights ROps Wweighted n)) 0 = INR (n - i) / rsum (map (fun k => INR (n - k)) (seq 0 n)) /\
  nth i (map exp (win_weights ROps Wexponential n)) 0
    = exp (- (INR i / INR n)) / rsum (map (fun k => exp (- (INR k / INR n))) (seq 0 n)).
Proof.
  intros Hn Hi. exact (conj (proj2 (sm_ok n Hn) i Hi) (conj (proj2 (wm_ok n Hn) i Hi) (proj2 (em_ok n Hn) i Hi))).
Qed.

(* the windowed estimate after ANY operation sequence: the convex combination, with those weights, of the
   stored estimates = the new base estimate followed by the most recent old ones (linear rows); the
   directional mean with those weights on circular rows *)
Theorem C17_windowed_is_convex_combination (lin circ : nat) (ops : list (op ROps)) v s ps lw plw lik Tm :
  let st := run ROps lin circ (est_init ROps) ops in
  let e := base_est ROps lin circ s ps lw plw lik Tm in
  let r := windowed ROps lin circ v s st ps lw plw lik Tm in
  let H := buf (hb (fst r)) in
  let n := length H in
  let W := map exp (win_weights ROps v n) in
  H = firstn (window (hb st)) (e :: buf (hb st)) /\
  n = Nat.min (Datatypes.S (length (buf (hb st)))) (window (hb st)) /\
  (1 <= n)%nat /\
  weights_ok n W /\
  (v = Wsimple -> forall i, (i < n)%nat -> nth i W 0 = / INR n) /\
  (forall k, (k < lin)%nat -> nth k (snd r) 0 = rdot (prow ROps k H) W) /\
  (forall k, (lin <= k < lin + circ)%nat ->
     nth k (snd r) 0 = if Nat.eqb n 1 then atan2 (sin (nth k (nth 0 H []) 0)) (cos (nth k (nth 0 H []) 0))
                       else atan2 (rdot (map sin (prow ROps k H)) W) (rdot (map cos (prow ROps k H)) W)).
Proof. exact (windowed_convex lin circ v s _ ps lw plw lik Tm (reachable_inv ROps lin circ ops)). Qed.

(* end to end: an extract call with a windowed method on a state reached by ANY operation sequence *)
Theorem C17_windowed_extract_end_to_end (lin circ : nat) (ops : list (op ROps)) (o : op ROps) v e :
  let st := run ROps lin circ (est_init ROps) ops in
  match o with OExtract2 _ _ | OExtract5 _ _ _ _ _ => True | _ => False end ->
  meth_win (meth st) = Some v -> pushed ROps lin circ st o = Some e ->
  let r := step ROps lin circ st o in
  let H := buf (hb (fst r)) in
  let n := length H in
  let W := map exp (win_weights ROps v n) in
  fst (snd r) = true /\
  H = firstn (window (hb st)) (e :: buf (hb st)) /\
  n = Nat.min (Datatypes.S (length (buf (hb st)))) (window (hb st)) /\ (1 <= n)%nat /\
  weights_ok n W /\
  (v = Wsimple -> forall i, (i < n)%nat -> nth i W 0 = / INR n) /\
  (forall k, (k < lin)%nat -> nth k (snd (snd r)) 0 = rdot (prow ROps k H) W) /\
  (forall k, (lin <= k < lin + circ)%nat ->
     nth k (snd (snd r)) 0 = if Nat.eqb n 1 then atan2 (sin (nth k (nth 0 H []) 0)) (cos (nth k (nth 0 H []) 0))
                             else atan2 (rdot (map sin (prow ROps k H)) W) (rdot (map cos (prow ROps k H)) W)).
Proof. exact (extract_windowed_rows lin circ ops o v e). Qed.

(* EVERY windowed circular output lies in (-PI, PI], also with exactly one stored estimate (first windowed call
   after construction / clear), which is then returned as its principal value *)
Theorem C17_windowed_circular_on_circle (lin circ : nat) (ops : list (op ROps)) (o : op ROps) v e :
  let st := run ROps lin circ (est_init ROps) ops in
  match o with OExtract2 _ _ | OExtract5 _ _ _ _ _ => True | _ => False end ->
  meth_win (meth st) = Some v -> pushed ROps lin circ st o = Some e ->
  let r := step ROps lin circ st o in
  let n := length (buf (hb (fst r))) in
  forall k, (lin <= k < lin + circ)%nat ->
    - PI < nth k (snd (snd r)) 0 <= PI /\
    (n = 1%nat -> nth k (snd (snd r)) 0 = atan2 (sin (nth k e 0)) (cos (nth k e 0)) /\
                  exists z : Z, nth k (snd (snd r)) 0 = nth k e 0 + 2 * IZR z * PI).
Proof. exact (windowed_circular_on_circle lin circ ops o v e). Qed.

(* the weighted variant in closed form: 2(n-i)/(n(n+1)) *)
Theorem C17_weighted_closed_form (n i : nat) : (1 <= n)%nat -> (i < n)%nat ->
  nth i (map exp (win_weights ROps Wweighted n)) 0 = 2 * INR (n - i) / (INR n * (INR n + 1)).
Proof. exact (wm_closed_form n i). Qed.

(* a convex combination stays between the extremes of what it combines *)
Theorem C17_convex_combination_in_hull n w xs lo hi : weights_ok n w -> length xs = n ->
  Forall (fun x => lo <= x <= hi) xs -> lo <= rdot xs w <= hi.
Proof. exact (weights_ok_between n w xs lo hi). Qed.

(* non-vacuity of the real-valued statements *)
Example C17_weights_example : weights_ok 3 (map exp (win_weights ROps Wweighted 3)).
Proof. apply win_weights_ok. lia. Qed.

Print Assumptions C17_hist_inv.
Print Assumptions C17_window_clamped.
Print Assumptions C17_shrink_keeps_recent.
Print Assumptions C17_shrink_keeps_recent_inv.
Print Assumptions C17_grow_keeps_all.
Print Assumptions C17_add_pushes_front.
Print Assumptions C17_clear_empties.
Print Assumptions C17_decrease_increase.
Print Assumptions C17_est_hist_inv.
Print Assumptions C17_cache_coherent.
Print Assumptions C17_step_history.
Print Assumptions C17_extract_value.
Print Assumptions C17_map_without_args_unavailable.
Print Assumptions C17_extract5_nonmap_delegates.
Print Assumptions C17_set_window_spec.
Print Assumptions C17_move_target_is_source.
Print Assumptions C17_moved_from_out_of_scope.
Print Assumptions C17_history_is_recent_calls.
Print Assumptions C17_stored_count.
Print Assumptions C17_stored_fixed_window.
Print Assumptions C17_min_calls_window_refuted.
Print Assumptions C17_mean_linear.
Print Assumptions C17_mean_linear_in_hull.
Print Assumptions C17_mean_circular.
Print Assumptions C17_mean_circular_on_circle.
Print Assumptions C17_mean_size.
Print Assumptions C17_circular_mean_is_resultant_direction.
Print Assumptions C17_mode_is_max.
Print Assumptions C17_map_is_argmax.
Print Assumptions C17_map_score_meaning.
Print Assumptions C17_window_weights.
Print Assumptions C17_window_weights_closed_form.
Print Assumptions C17_windowed_is_convex_combination.
Print Assumptions C17_windowed_extract_end_to_end.
Print Assumptions C17_windowed_circular_on_circle.
Print Assumptions C17_weighted_closed_form.
Print Assumptions C17_convex_combination_in_hull.
