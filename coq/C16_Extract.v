(* C16_Extract.v — executable entry points of the C16 model at the list
   instance, for the correspondence check.  ExtrOcamlBasic only.  The LDLT
   factor oracle [sq] is an argument: the driver passes the factor observed on
   the implementation (its contract L L^T = Q is checked by the plug-in). *)
Require Import ZArith List.
Require Import BFL.Ops BFL.ListOps BFL.Density BFL.C16_Model.
Require Import Extraction ExtrOcamlBasic.
Import ListNotations.

Section E.
Variable S : SOps.
Variable sq : nat -> lmx S -> lmx S.
Definition c16_O : MatOps := ListMat S sq (fun _ A => A).
Notation O := c16_O.

Definition c16_wna_F (d : Dim) (Ts : T S) : lmx S := @wna_F O d Ts.
Definition c16_wna_Q (d : Dim) (Ts q : T S) : lmx S := @wna_Q O d Ts q.
Definition c16_wna_sqrtQ (d : Dim) (Ts q : T S) : lmx S := @wna_sqrtQ O d Ts q.
Definition c16_wna_noise (d : Dim) (Ts q : T S) (num : nat) (zs : list (T S)) : lmx S * list (T S) :=
  @wna_noise_sample O d Ts q num zs.
Definition c16_wna_motion (d : Dim) (Ts q : T S) (c : nat) (X : lmx S) (zs : list (T S)) : lmx S * list (T S) :=
  @wna_motion O d Ts q c X zs.
Definition c16_wna_tp (d : Dim) (Ts q : T S) (c : nat) (prev cur : lmx S) : list (T S) :=
  @wna_transition_probability O d Ts q c prev cur.
(* spec: N(cur_j; F prev_j, Q) evaluated pair by pair with the shared density *)
Definition c16_spec_tp (d : Dim) (Ts q : T S) (c : nat) (prev cur : lmx S) : list (T S) :=
  map (fun j => @density O (dim_n d) (@mcol O (dim_n d) c j cur)
                         (@mmul O (dim_n d) (dim_n d) 1 (@wna_F O d Ts) (@mcol O (dim_n d) c j prev))
                         (@wna_Q O d Ts q))
      (seq 0 c).
(* L L^T, for the contract check *)
Definition c16_LLt (n : nat) (L : lmx S) : lmx S := @mmul O n n n L (@mtr O n n L).

Definition c16_lti_state (fr fc qr qc : nat) (F Q : lmx S) : lti_err + (lmx S * lmx S) :=
  @lti_state_ctor O fr fc qr qc F Q.
Definition c16_lti_meas (hr hc rr rc : nat) (H R : lmx S) : meas_err + (lmx S * lmx S) :=
  @lti_meas_ctor O hr hc rr rc H R.
Definition c16_linear_model (n : nat) (idxs : list nat) (rr rc : nat) (R : lmx S)
  : meas_err + (lmx S * lmx S * lmx S) := @linear_model_ctor O n idxs rr rc R.
Definition c16_noise (d : nat) (L : lmx S) (num : nat) (zs : list (T S)) : lmx S * list (T S) :=
  @noise_sample O d L num zs.

(* SimulatedStateModel over a WhiteNoiseAcceleration *)
Definition c16_sim_ctor (d : Dim) (Ts q : T S) (x0 : lmx S) (len : nat) (zs : list (T S))
  : sim_err + @sim_state O (dim_n d) :=
  @sim_ctor O (dim_n d) (fun x z => @wna_motion O d Ts q 1 x z) x0 len zs.
Definition c16_sim_target (n : nat) (st : @sim_state O n) : list (lmx S) := sim_target st.
Definition c16_sim_run (n : nat) (st : @sim_state O n) (ops : list sim_op)
  : list (bool * option (lmx S)) := fst (@sim_run O n st ops).

(* SimulatedLinearSensor over it *)
Definition c16_sensor_run (n m : nat) (H LR : lmx S) (st : @sim_state O n) (zs : list (T S)) (ops : list sens_op)
  : list (bool * option (lmx S)) :=
  fst (@sensor_run O n m H LR (@mkSens O n m st zs None) ops).

(* (input_description_, measurement_description_) of a SimulatedLinearSensor over a state model
   with [lin] linear components, R having [nr] rows *)
Definition c16_sensor_descs (m n : nat) (H : lmx S) (lin circ nr : nat) : vdesc * vdesc :=
  @sensor_descriptions O m n H (mkDesc lin circ 0) nr.

(* SimulatedStateModel over a user-defined additive linear model (an LTIStateModel with transition
   matrix F whose getNoiseSample serves given columns: the draws [zs], factor = identity) *)
Definition c16_lti_sim_ctor (n : nat) (F : lmx S) (x0 : lmx S) (len : nat) (zs : list (T S))
  : sim_err + @sim_state O n :=
  @sim_ctor O n (fun x z => @additive_motion O n 1 F (@mid O n) x z) x0 len zs.

(* on a particle set with [r] state rows (4: the grid_initialize of the theorems, C16_grid_rows) *)
Definition c16_grid (xinf xsup yinf ysup : T S) (nx ny r np : nat) (st w : lmx S) : option (lmx S * lmx S) :=
  @grid_initialize_rows O xinf xsup yinf ysup nx ny r np st w.
End E.

Extraction "C16_model.ml" c16_wna_F c16_wna_Q c16_wna_sqrtQ c16_wna_noise c16_wna_motion c16_wna_tp c16_spec_tp
  c16_LLt c16_lti_state c16_lti_meas c16_linear_model c16_noise c16_sim_ctor c16_sim_target c16_sim_run
  c16_sensor_run c16_sensor_descs c16_lti_sim_ctor desc_total c16_grid.
