(* Properties_C09.v — property C09: filter lifecycle (ordered epochs, honoured
   commands, guaranteed termination) under ALL interleavings of the controller
   commands with the filtering thread, all command sequences of any length and
   all run_condition() answers.  Statements only; each is closed by a lemma of
   C09_Proofs (C09_Regress for the regression witness).

   Traces are newest-first: in  c_trace c = post ++ e :: suf  the events of
   [post] happened AFTER e, those of [suf] BEFORE.  [reachable], [step],
   [run_word], [finish], [all_good] are the definitions of C09_Model.v that are
   extracted and run against the library. *)
Require Import List Bool Arith.
Require Import BFL.C09_Model BFL.C09_Proofs BFL.C09_Progress BFL.C09_Regress.
Import ListNotations.

(* no filtering step executes before run is first requested *)
Theorem C09_no_step_before_run c post k suf :
  reachable c -> c_trace c = post ++ EStep k :: suf -> In (ECmd Run) suf.
Proof. exact (no_step_before_run c post k suf). Qed.

(* every epoch is EInit, EStep 0, EStep 1, ...: each thread event is preceded (among
   the thread events) by the one the grammar (EInit (EStep 0)(EStep 1)...)* [EExit] prescribes;
   the step number is the value of filtering_step_ when the step starts *)
Theorem C09_epochs c post e suf :
  reachable c -> c_trace c = post ++ e :: suf -> pred_ok e (last_thr suf).
Proof. exact (epochs c post e suf). Qed.

(* after reset or reboot at most one further filtering step precedes the next
   initialisation or the exit: any stretch [seg] of the trace after the command that
   contains no EInit / EExit contains at most one EStep *)
Theorem C09_reset_honoured c post seg k suf :
  reachable c -> c_trace c = post ++ seg ++ ECmd k :: suf -> (k = Reset \/ k = Reboot) ->
  no_init_exit seg -> count_steps seg <= 1.
Proof. exact (reset_honoured c post seg k suf). Qed.

(* ... and it IS honoured by a new epoch: with reset_ up (which is what a pending reset/reboot
   means inside an epoch, second statement), teardown not requested, the thread left alone with
   run_condition() = true enters initialization_step() again - or, if run_ is down (reboot),
   blocks waiting for run - within 17 own moves, starting at most one further step.  [in_loop] is
   every program point except "blocked in the wait" and the exit path *)
Theorem C09_reset_reaches_new_epoch c :
  c_rst c = true -> c_td c = false -> c_mid c = false -> in_loop (c_pc c) = true ->
  exists c' k, run_until_init 20 c 0 = (c', k)
  /\ run_moves c (repeat (MThread true) k) = Some c' /\ k <= honour_bound
  /\ exists post, c_trace c' = post ++ c_trace c /\ count_steps post <= 1
     /\ ((c_pc c' = PInitBody /\ exists post', post = EInit :: post')
         \/ (c_run c = false /\ c_pc c' = PSleep /\ c_woken c' = false /\ count_init_step post <= 1))
     /\ (c_run c = true -> c_pc c' = PInitBody).
Proof. exact (reset_progress c). Qed.

Theorem C09_pending_reset_is_visible c :
  reachable c -> pend (c_trace c) <> None -> inep (c_pc c) = true -> c_rst c = true.
Proof. exact (pending_reset_flag c). Qed.

(* after reboot, as long as neither run nor teardown is requested, the thread performs at
   most ONE more initialisation-or-step in total (the one it was already committed to) *)
Theorem C09_reboot_waits_for_run c post seg suf :
  reachable c -> c_trace c = post ++ seg ++ ECmd Reboot :: suf ->
  no_run_teardown seg -> count_init_step seg <= 1.
Proof. exact (reboot_waits_for_run c post seg suf). Qed.

(* once teardown has been requested at most one further step starts
   (indeed at most one further initialisation-or-step) *)
Theorem C09_teardown_one_step c post seg suf :
  reachable c -> c_trace c = post ++ seg ++ ECmd Teardown :: suf ->
  count_init_step seg <= 1 /\ count_steps seg <= 1.
Proof. exact (teardown_one_step c post seg suf). Qed.

(* after the thread's final store (EExit): no thread event; run_ is false unless run was
   requested after it; every is_running() that answered true was preceded by such a run *)
Theorem C09_exited_quiescent c post suf :
  reachable c -> c_trace c = post ++ EExit :: suf ->
  (forall e, In e post -> is_thread_event e = false)
  /\ (c_run c = true -> In (ECmd Run) post)
  /\ (forall post2 post1, post = post2 ++ EQRun true :: post1 -> In (ECmd Run) post1).
Proof. exact (exited_quiescent c post suf). Qed.

(* the thread ends only because teardown was requested or run_condition() answered false:
   in particular reset() and reboot() never terminate it *)
Theorem C09_exit_only_by_teardown_or_condition c post suf :
  reachable c -> c_trace c = post ++ EExit :: suf ->
  In (ECmd Teardown) suf \/ last_rc suf = Some false.
Proof. exact (exit_cause_ok c post suf). Qed.

Theorem C09_exit_recorded_iff_final_store_done c :
  reachable c -> (In EExit (c_trace c) <-> (c_pc c = PDone \/ c_pc c = PExited)).
Proof. exact (exited_pc c). Qed.

(* bounded exit (a): from ANY reachable configuration in which teardown has been
   requested, under ANY continuation [ms] (controller commands, run_condition answers):
   the thread is never disabled before it has exited (if the controller is between the
   two stores of reboot() it can always finish that call), makes at most dist <= 15 moves
   of its own, has exited once it made that many, and starts at most one step *)
Theorem C09_bounded_exit c ms c' :
  reachable c -> c_td c = true -> run_moves c ms = Some c' ->
  (c_pc c' <> PExited -> forall b,
     (c_mid c' = false -> exists c'', step c' (MThread b) = Some c'')
     /\ (c_mid c' = true -> exists c'', step c' MRebootEnd = Some c'' /\ c_mid c'' = false))
  /\ thread_moves ms <= dist (c_pc c) /\ dist (c_pc c) <= exit_bound
  /\ (dist (c_pc c) <= thread_moves ms -> c_pc c' = PExited)
  /\ (exists post, c_trace c' = post ++ c_trace c /\ count_steps post <= 1).
Proof. exact (bounded_exit_teardown c ms c'). Qed.

(* bounded exit (b): the thread is past the wait (distb defined) and run_condition
   answers false from now on: at most 10 own moves, at most one step, never disabled *)
Theorem C09_bounded_exit_run_condition_false c ms c' d :
  distb (c_pc c) = Some d -> forallb rc_false ms = true -> run_moves c ms = Some c' ->
  (c_pc c' <> PExited -> exists c'', step c' (MThread false) = Some c'')
  /\ thread_moves ms <= d /\ d <= exit_bound_rc
  /\ (d <= thread_moves ms -> c_pc c' = PExited)
  /\ (exists post, c_trace c' = post ++ c_trace c /\ count_steps post <= 1).
Proof. exact (bounded_exit_rc_false c ms c' d). Qed.

(* bounded exit (b'): at ANY program point, if run_ is up and the continuation contains no
   reboot() and only false run_condition answers: exit within dist2 <= 13 own moves, never
   disabled, no step from the points where (b) does not apply, at most one more initialisation *)
Theorem C09_bounded_exit_run_condition_false_running c ms c' :
  reachable c -> c_run c = true -> c_mid c = false ->
  forallb quiet_rc ms = true -> run_moves c ms = Some c' ->
  (c_pc c' <> PExited -> exists c'', step c' (MThread false) = Some c'')
  /\ thread_moves ms <= dist2 (c_pc c) /\ dist2 (c_pc c) <= exit_bound_running
  /\ (dist2 (c_pc c) <= thread_moves ms -> c_pc c' = PExited)
  /\ exists post, c_trace c' = post ++ c_trace c
       /\ count_steps post <= may_step (c_pc c) /\ count_inits post <= may_init (c_pc c).
Proof. exact (bounded_exit_running c ms c'). Qed.

(* ... and with run_ DOWN the carve-out is genuine: the thread parks in the wait and, without
   run()/reboot()/teardown() (or a spurious wake-up), never moves again; wait() is never enabled *)
Theorem C09_bounded_exit_not_running_refuted :
  reachable init /\ c_run init = false /\ c_td init = false /\ distb (c_pc init) = None
  /\ run_moves init (repeat (MThread false) 4) = Some asleep0
  /\ forall ms c'', forallb no_wake ms = true -> run_moves asleep0 ms = Some c'' ->
       c_pc c'' <> PExited /\ (forall b, step c'' (MThread b) = None) /\ step c'' (MCmd Wait) = None.
Proof. exact not_running_sleeps. Qed.

(* the answers of step_number() and is_running() against the history *)
Theorem C09_query_answers c post e suf :
  reachable c -> c_trace c = post ++ e :: suf ->
  match e with
  | EQStep k => qstep_ok k suf = true
  | EQRun false => can_be_false suf = true
  | EQRun true => runreq suf = true /\ rae suf <> Some false
  | _ => True
  end.
Proof. exact (query_answers c post e suf). Qed.

(* commands issued before boot(): every valuation of the three flags is reachable with the thread
   still at its first point *)
Theorem C09_preboot_valuations_reachable r s t :
  exists ks c, run_moves init ks = Some c /\ c_pc c = PTop /\ c_mid c = false
               /\ c_run c = r /\ c_rst c = s /\ c_td c = t
               /\ forallb (fun m => match m with MCmd _ | MRebootEnd => true | _ => false end) ks = true.
Proof. exact (preboot_valuations r s t). Qed.

(* the executable step function generates exactly [reachable] *)
Theorem C09_step_generates_reachable c :
  reachable c <-> exists ms, run_moves init ms = Some c.
Proof. exact (reachable_iff_run c). Qed.

(* ... and agrees, move by move, with the rule-per-action relational presentation *)
Theorem C09_relational_semantics_agree c m c' :
  (sstep c m c' <-> step c m = Some c') /\ (reachable_rel c <-> reachable c).
Proof. exact (conj (sstep_iff_step c m c') (reachable_rel_iff c)). Qed.

(* the word semantics run against the library stays inside [reachable] *)
Theorem C09_schedule_words_reachable w :
  reachable (run_word init w) /\ reachable (finish (run_word init w)).
Proof. split; [|apply finish_reachable]; apply run_word_reachable; constructor. Qed.

(* the end-of-word protocol (teardown wherever the word stopped, thread released with
   run_condition = true, wait) always ends with the thread exited and wait() enabled *)
Theorem C09_every_word_ends_exited w :
  c_pc (finish (run_word init w)) = PExited
  /\ exists tr, c_trace (finish (run_word init w)) = ECmd Wait :: tr.
Proof. apply finish_exits; [apply run_word_reachable; constructor | apply run_word_ws; split; reflexivity]. Qed.

(* the extracted trace monitors hold on every prefix of every reachable history *)
Theorem C09_monitors_hold c : reachable c -> all_good (c_trace c) = true.
Proof. exact (reachable_all_good c). Qed.

(* regression witness for the transcription before commit 5346d85 (plain store,
   no notify): teardown requested, thread blocked for ever, wait never enabled *)
Theorem C09_teardown_hang_refuted :
  exists c, reachable_old c /\ c_td c = true /\ c_pc c <> PExited
    /\ forall ms c', forallb (fun m => negb (wakes m)) ms = true -> run_moves_old c ms = Some c' ->
         c_pc c' <> PExited /\ (forall b, step_old c' (MThread b) = None) /\ step_old c' (MCmd Wait) = None.
Proof. exact teardown_hang. Qed.

(* witness for the order of the two stores of reboot() (checked against the source text by
   props/C09.py): with run_ = false BEFORE reset_ = true the thread can terminate on a reboot
   although teardown was never requested and run_condition() last answered true *)
Theorem C09_reboot_store_order_refuted :
  exists c, run_moves_swapped init swapped_schedule = Some c
    /\ c_trace c = [EExit; ECmd Reboot; ERc true; ERc false; EInit; ECmd Run]
    /\ c_td c = false.
Proof. exact reboot_store_order_matters. Qed.

(* non-vacuity: a concrete schedule — run; two steps; reset inside step 1; the epoch is
   re-initialised; reboot inside the next step; the thread goes back to sleep; teardown *)
Definition ex_word : list token :=
  [KCmd Run; TT; TT; TT; TT; TT; TT; TT; KCmd Reset; TT; TT; TT; TT; TT; TT; TT; TT; TT;
   KCmd IsRunning; KCmd Reboot; TT; TT; TT; TT; TT; TT; KCmd StepNumber].

Example C09_concrete_schedule :
  history (run_word init ex_word) =
    [ECmd Run; EInit; ERc true; EStep 0; ERc true; EStep 1; ECmd Reset; ERc true; ERc true; EInit;
     ERc true; EStep 0; EQRun true; ECmd Reboot; ERc true; ERc true; EQStep 0]
  /\ c_pc (run_word init ex_word) = PSleep
  /\ history (finish (run_word init ex_word)) =
    history (run_word init ex_word) ++ [ECmd Teardown; EInit; ERc true; ERc true; EExit; ECmd Wait]
  /\ all_good (c_trace (finish (run_word init ex_word))) = true.
Proof. vm_compute. repeat split; reflexivity. Qed.

(* reboot() is two stores: the configuration between them is reachable, and a thread that
   evaluates its unlocked loop condition there (run_ still true, reset_ already true) goes on *)
Example C09_reboot_between_stores :
  exists c, run_moves init [MCmd Run; MCmd Reboot] = Some c
            /\ c_mid c = true /\ c_run c = true /\ c_rst c = true
            /\ step c (MCmd Run) = None /\ step c (MCmd Teardown) = None.
Proof. eexists. vm_compute. repeat split; reflexivity. Qed.

(* the premises of the bounded-exit theorems are satisfiable: teardown requested while a
   step is in progress (13 configurations deep), and run_condition turning false there *)
Example C09_bounded_exit_premises :
  let c := run_word init [KCmd Run; TT; TT; TT; TT; TT; KCmd Teardown] in
  reachable c /\ c_td c = true /\ c_pc c = PStepBody /\ dist (c_pc c) = 11 /\ distb (c_pc c) = Some 7.
Proof. split; [apply run_word_reachable; constructor | vm_compute; repeat split; reflexivity]. Qed.

Print Assumptions C09_no_step_before_run.
Print Assumptions C09_epochs.
Print Assumptions C09_reset_honoured.
Print Assumptions C09_reset_reaches_new_epoch.
Print Assumptions C09_pending_reset_is_visible.
Print Assumptions C09_reboot_waits_for_run.
Print Assumptions C09_teardown_one_step.
Print Assumptions C09_exited_quiescent.
Print Assumptions C09_exit_only_by_teardown_or_condition.
Print Assumptions C09_exit_recorded_iff_final_store_done.
Print Assumptions C09_bounded_exit.
Print Assumptions C09_bounded_exit_run_condition_false.
Print Assumptions C09_bounded_exit_run_condition_false_running.
Print Assumptions C09_bounded_exit_not_running_refuted.
Print Assumptions C09_query_answers.
Print Assumptions C09_preboot_valuations_reachable.
Print Assumptions C09_step_generates_reachable.
Print Assumptions C09_relational_semantics_agree.
Print Assumptions C09_schedule_words_reachable.
Print Assumptions C09_every_word_ends_exited.
Print Assumptions C09_monitors_hold.
Print Assumptions C09_teardown_hang_refuted.
Print Assumptions C09_reboot_store_order_refuted.
