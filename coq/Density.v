(* Density.v — model of utils::multivariate_gaussian_log_density / _density
   (utils.h:296-312, 399-403), one evaluation point (column) at a time; the
   batch versions are a map over the columns (the C++ loop over diff.col(i)). *)
Require Import ZArith List.
Require Import BFL.Ops.
Import ListNotations.

Section D.
Variable O : MatOps.
Notation S := (sc O).

Definition quadform {d} (delta : M O d 1) (Sinv : M O d d) : T S :=
  mget (mmul (mmul (mtr delta) Sinv) delta) 0 0.

(* values(i) = -0.5 * (rows * log(2 pi) + log(det) + diff_i^T inv(cov) diff_i) *)
Definition log_density {d} (x mean : M O d 1) (cov : M O d d) : T S :=
  let delta := msub x mean in
  smul S (sopp S (shalf S))
       (sadd S (sadd S (smul S (sofnat S d) (sln S (smul S (s2 S) (spi S))))
                       (sln S (mdet cov)))
               (quadform delta (minv cov))).

Definition density {d} (x mean : M O d 1) (cov : M O d d) : T S :=
  sexp S (log_density x mean cov).

Definition log_density_batch {d} (xs : list (M O d 1)) (mean : M O d 1) (cov : M O d d) :=
  map (fun x => log_density x mean cov) xs.
Definition density_batch {d} (xs : list (M O d 1)) (mean : M O d 1) (cov : M O d d) :=
  map (fun x => density x mean cov) xs.
End D.
Arguments quadform {_ d} delta Sinv.
Arguments log_density {_ d} x mean cov.
Arguments density {_ d} x mean cov.
