(* C02_Extract.v — executable entry points of the C02 model at the list
   instance, for the correspondence check.  ExtrOcamlBasic only. *)
Require Import ZArith List.
Require Import BFL.Ops BFL.ListOps BFL.C02_Model.
Require Import Extraction ExtrOcamlBasic.
Import ListNotations.

Definition c02_O (S : SOps) : MatOps := ListMat S (fun _ A => A) (fun _ A => A).

(* the harness' exogenous model u(X) = B X + c 1^T, or none *)
Definition c02_exo (S : SOps) (n k : nat) (e : option (lmx S * lmx S))
  : option (M (c02_O S) n k -> M (c02_O S) n k) :=
  match e with
  | Some (B, c) => Some (@affine_exo (c02_O S) n k B c)
  | None => None
  end.

Definition c02_mix (S : SOps) (n k : nat) (g : lmx S * list (lmx S) * list (T S)) : gmix (c02_O S) n k :=
  @mkGmix (c02_O S) n k (fst (fst g)) (snd (fst g)) (snd g).

(* GaussianPrediction::predict with the three skip flags as given *)
Definition c02_run (S : SOps) (n k : nat) (F Q : lmx S) (e : option (lmx S * lmx S))
           (sp ss se : bool) (prev old : lmx S * list (lmx S) * list (T S))
  : lmx S * list (lmx S) * list (T S) :=
  let r := @gaussian_predict (c02_O S) n k F Q (c02_exo S n k e) sp ss se (c02_mix S n k prev) (c02_mix S n k old) in
  (gm_means r, gm_covs r, gm_weights r).

(* LinearStateModel::propagate alone *)
Definition c02_propagate (S : SOps) (n k : nat) (F : lmx S) (e : option (lmx S * lmx S))
           (ss se : bool) (cur old : lmx S) : lmx S :=
  @lin_propagate (c02_O S) n k F (c02_exo S n k e) ss se cur old.

(* spec, component by component: (F m_i + u_i, F P_i F^T + Q) with u_i = B m_i + c *)
Definition c02_spec (S : SOps) (n k : nat) (F Q : lmx S) (e : option (lmx S * lmx S))
           (means : lmx S) (covs : list (lmx S)) : list (lmx S * lmx S) :=
  map (fun ip : nat * lmx S =>
         let x := @mcol (c02_O S) n k (fst ip) means in
         let u := match e with
                  | Some (B, c) => @madd (c02_O S) n 1 (@mmul (c02_O S) n n 1 B x) c
                  | None => @mzero (c02_O S) n 1
                  end in
         (@spec_mean (c02_O S) n F u x, @kf_predict_cov (c02_O S) n F Q (snd ip)))
      (combine (seq 0 (length covs)) covs).

Extraction "C02_model.ml" c02_run c02_propagate c02_spec.
