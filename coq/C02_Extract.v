(* C02_Extract.v — extraction of the executable entry points of the C02 model
   (defined in C02_Entry.v at the list instance), for the correspondence
   check.  ExtrOcamlBasic only. *)
Require Import ZArith List.
Require Import BFL.Ops BFL.ListOps BFL.C02_Model BFL.C02_Entry.
Require Import Extraction ExtrOcamlBasic.

Extraction "C02_model.ml" c02_run c02_propagate c02_spec c02_seq gl_dim gl_dim_cov.
