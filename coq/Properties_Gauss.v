(* Properties_Gauss.v — the numerical routines of the executable list instance
   (Gauss-Jordan inverse / determinant / solve, ListOps.v) compute the MathComp
   inverse / determinant on well-formed invertible inputs, over the scalars of
   any realFieldType; consequently the Gaussian density (Density.v) and the whole
   Kalman correction model (C01_Model.v) executed at the list instance are the
   density / model the theorems are about.  Statements only; each is closed by a
   lemma of ListGauss.v / C01_Transport.v (non-vacuity Examples live there:
   gauss_premises_satisfiable, gauss_concrete_Q, kf_transport_premises_satisfiable). *)
Require Import ZArith List.
Require Import BFL.Ops BFL.ListOps BFL.Density BFL.C01_Model.
From mathcomp Require Import all_ssreflect all_algebra.
Require Import BFL.MxOps BFL.LinAlg BFL.ListOpsCorrect BFL.ListGauss BFL.C02_Transport BFL.C01_Transport.
Import GRing.Theory.
Local Open Scope ring_scope.

Section Gauss.
Variable F : realFieldType.
Variable tr : Transc F.
Variable sq : forall n, 'M[F]_n -> 'M[F]_n.
Variable eg : forall n, 'M[F]_n -> 'M[F]_(n,1).
Let S := FOps tr.
Let OL := ListMat S (fun _ X => X) (fun _ X => X).
Let OM := MxMat tr sq eg.
Notation repr m n l A := (@C02_Transport.repr F m n l A) (only parsing).

(* [A | B]  ~>  [1 | A^-1 B], accumulated scalar = det A *)
Theorem Gauss_reduction_correct n q (lA lB : lmxF F) :
  wf n n lA -> wf n q lB -> toM n n lA \in unitmx ->
  [/\ wf n (n + q) (gauss_jordan S n (lhcat S lA lB)).1,
      toM n (n + q) (gauss_jordan S n (lhcat S lA lB)).1
        = row_mx 1%:M (invmx (toM n n lA) *m toM n q lB) &
      (gauss_jordan S n (lhcat S lA lB)).2 = \det (toM n n lA)].
Proof. exact: gauss_jordan_correct. Qed.

Theorem Gauss_linv_correct n (A : lmxF F) :
  wf n n A -> toM n n A \in unitmx ->
  wf n n (linv S n A) /\ toM n n (linv S n A) = invmx (toM n n A).
Proof. exact: linv_correct. Qed.

Theorem Gauss_ldet_correct n (A : lmxF F) :
  wf n n A -> toM n n A \in unitmx ->
  ldet S n A = \det (toM n n A).
Proof. exact: ldet_correct. Qed.

Theorem Gauss_lsolve_correct n q (A B : lmxF F) :
  wf n n A -> toM n n A \in unitmx -> wf n q B ->
  wf n q (lsolve S n A B) /\ toM n q (lsolve S n A B) = invmx (toM n n A) *m toM n q B.
Proof. by move=> wA uA; exact: lsolve_correct. Qed.

(* the interface fields minv / mdet of the executed instance *)
Theorem Gauss_minv_represents n l (A : 'M[F]_n) :
  repr n n l A -> A \in unitmx -> repr n n (@minv OL n l) (@minv OM n A).
Proof. exact: repr_minv. Qed.

Theorem Gauss_mdet_represents n l (A : 'M[F]_n) :
  repr n n l A -> A \in unitmx -> @mdet OL n l = @mdet OM n A.
Proof. exact: repr_mdet. Qed.

(* Density.v *)
Theorem Density_log_density_executed_is_theorem_model
        d lx (x : 'cV[F]_d) lmu (mu : 'cV[F]_d) lc (cov : 'M[F]_d) :
  repr d 1 lx x -> repr d 1 lmu mu -> repr d d lc cov -> cov \in unitmx ->
  @log_density OL d lx lmu lc = @log_density OM d x mu cov.
Proof. exact: log_density_transport. Qed.

Theorem Density_density_executed_is_theorem_model
        d lx (x : 'cV[F]_d) lmu (mu : 'cV[F]_d) lc (cov : 'M[F]_d) :
  repr d 1 lx x -> repr d 1 lmu mu -> repr d d lc cov -> cov \in unitmx ->
  @density OL d lx lmu lc = @density OM d x mu cov.
Proof. exact: density_transport. Qed.

Theorem Density_log_density_batch_executed_is_theorem_model
        d ls (xs : list 'cV[F]_d) lmu (mu : 'cV[F]_d) lc (cov : 'M[F]_d) :
  List.Forall2 (fun l x => repr d 1 l x) ls xs ->
  repr d 1 lmu mu -> repr d d lc cov -> cov \in unitmx ->
  @log_density_batch OL d ls lmu lc = @log_density_batch OM d xs mu cov.
Proof. exact: log_density_batch_transport. Qed.

(* C01_Model.v: the Kalman correction, whole mixture, every number of components *)
Theorem C01_executed_model_is_theorem_model n m
        lH (H : 'M[F]_(m,n)) lR (R : 'M[F]_m) ly (y : 'cV[F]_m)
        (csl : list (gcomp OL n)) (csm : list (gcomp OM n)) :
  repr m n lH H -> repr m m lR R -> repr m 1 ly y -> spd R ->
  List.Forall2 (fun (cl : gcomp OL n) (cm : gcomp OM n) => repr n 1 (gmean cl) (gmean cm : 'cV[F]_n) /\
                             repr n n (gcov cl) (gcov cm : 'M[F]_n)) csl csm ->
  List.Forall (fun c : gcomp OM n => spd (gcov c : 'M[F]_n)) csm ->
  List.Forall2 (fun (ol : kf_out OL n m) (om : kf_out OM n m) =>
      [/\ repr n 1 (gmean (ko_comp ol)) (gmean (ko_comp om) : 'cV[F]_n) /\
          repr n n (gcov (ko_comp ol)) (gcov (ko_comp om) : 'M[F]_n),
          repr m 1 (ko_innov ol) (ko_innov om : 'cV[F]_m) &
          repr m m (ko_Py ol) (ko_Py om : 'M[F]_m)])
    (@kf_correct OL n m lH lR ly csl) (@kf_correct OM n m H R y csm).
Proof. by move=> rH rR ry sR; exact: (kf_correct_transport rH rR ry sR). Qed.

Theorem C01_executed_likelihood_is_theorem_likelihood n m
        lH (H : 'M[F]_(m,n)) lR (R : 'M[F]_m) ly (y : 'cV[F]_m)
        (csl : list (gcomp OL n)) (csm : list (gcomp OM n)) :
  repr m n lH H -> repr m m lR R -> repr m 1 ly y -> spd R ->
  List.Forall2 (fun (cl : gcomp OL n) (cm : gcomp OM n) => repr n 1 (gmean cl) (gmean cm : 'cV[F]_n) /\
                             repr n n (gcov cl) (gcov cm : 'M[F]_n)) csl csm ->
  List.Forall (fun c : gcomp OM n => spd (gcov c : 'M[F]_n)) csm ->
  List.map (@kf_likelihood OL n m) (@kf_correct OL n m lH lR ly csl) =
  List.map (@kf_likelihood OM n m) (@kf_correct OM n m H R y csm).
Proof. by move=> rH rR ry sR; exact: (kf_likelihoods_transport rH rR ry sR). Qed.

Theorem C01_executed_info_posterior_is_theorem_info_posterior n m
        lH (H : 'M[F]_(m,n)) lR (R : 'M[F]_m) ly (y : 'cV[F]_m)
        (cl : gcomp OL n) (cm : gcomp OM n) :
  repr m n lH H -> repr m m lR R -> repr m 1 ly y -> spd R ->
  repr n 1 (gmean cl) (gmean cm : 'cV[F]_n) /\ repr n n (gcov cl) (gcov cm : 'M[F]_n) ->
  spd (gcov cm : 'M[F]_n) ->
  repr n 1 (gmean (@info_posterior OL n m lH lR ly cl))
           (gmean (@info_posterior OM n m H R y cm) : 'cV[F]_n) /\
  repr n n (gcov (@info_posterior OL n m lH lR ly cl))
           (gcov (@info_posterior OM n m H R y cm) : 'M[F]_n).
Proof. by move=> rH rR ry sR; exact: (info_posterior_transport rH rR ry sR). Qed.

End Gauss.

Print Assumptions Gauss_reduction_correct.
Print Assumptions Gauss_linv_correct.
Print Assumptions Gauss_ldet_correct.
Print Assumptions Gauss_lsolve_correct.
Print Assumptions Gauss_minv_represents.
Print Assumptions Gauss_mdet_represents.
Print Assumptions Density_log_density_executed_is_theorem_model.
Print Assumptions Density_density_executed_is_theorem_model.
Print Assumptions Density_log_density_batch_executed_is_theorem_model.
Print Assumptions C01_executed_model_is_theorem_model.
Print Assumptions C01_executed_likelihood_is_theorem_likelihood.
Print Assumptions C01_executed_info_posterior_is_theorem_info_posterior.
