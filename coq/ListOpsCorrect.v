(* ListOpsCorrect.v — transport lemmas between the two instances of MatOps.
   The executable list instance (ListOps.v) instantiated at the scalars of a
   realFieldType computes, on well-formed inputs, the same matrices as the
   MathComp instance (MxOps.v), operation by operation, for the structural
   operations.  This turns "the list instance is trusted to implement the
   interface" into "proved, up to rounding" for those operations; the
   numerical routines (Gauss-Jordan inverse / determinant) are not covered
   here — they are checked at run time against the implementation. *)
Require Import ZArith List.
Require Import BFL.Ops BFL.ListOps.
From mathcomp Require Import all_ssreflect all_algebra.
Require Import BFL.MxOps.
Set Implicit Arguments.
Unset Strict Implicit.
Unset Printing Implicit Defensive.
Import GRing.Theory.
Local Open Scope ring_scope.

Section Transport.
Variable F : realFieldType.
Variable tr : Transc F.
Let S := FOps tr.

Definition lmxF := list (list F).

(* interpretation of a list matrix *)
Definition toM m n (l : lmxF) : 'M[F]_(m,n) :=
  \matrix_(i, j) List.nth (j : nat) (List.nth (i : nat) l nil) 0.

(* well-formed: m rows of n entries *)
Definition wf m n (l : lmxF) : Prop :=
  length l = m /\ List.Forall (fun r => length r = n) l.

Lemma toM_lget m n (l : lmxF) (i : 'I_m) (j : 'I_n) : toM m n l i j = lget S l i j.
Proof. by rewrite mxE. Qed.

Lemma nth_seq_map (A : Type) (f : nat -> A) (k n : nat) d :
  (k < n)%N -> List.nth k (List.map f (List.seq 0 n)) d = f k.
Proof.
move=> /ltP kn.
rewrite (List.nth_indep _ d (f 0%N)); last by rewrite List.map_length List.seq_length.
by rewrite List.map_nth List.seq_nth.
Qed.

Lemma lbuild_wf m n f : wf m n (lbuild S m n f).
Proof.
split; first by rewrite /lbuild List.map_length List.seq_length.
apply/List.Forall_forall => r /List.in_map_iff [i [<- _]].
by rewrite List.map_length List.seq_length.
Qed.

Lemma toM_lbuild m n f : toM m n (lbuild S m n f) = mx_build m n f.
Proof.
apply/matrixP => i j; rewrite !mxE /lbuild.
rewrite (nth_seq_map (fun i => List.map (fun j => f i j) (List.seq 0 n)) nil (ltn_ord i)).
by rewrite (nth_seq_map (fun j => f i j) 0 (ltn_ord j)).
Qed.

Lemma lget_lbuild m n f i j : (i < m)%N -> (j < n)%N -> lget S (lbuild S m n f) i j = f i j.
Proof.
move=> im jn; rewrite /lget /lbuild.
by rewrite (nth_seq_map (fun i => List.map (fun j => f i j) (List.seq 0 n)) nil im) (nth_seq_map (fun j => f i j) _ jn).
Qed.

(* element-wise operations *)
Lemma nth_zipw (f : F -> F -> F) (a b : list F) k :
  (k < length a)%coq_nat -> (k < length b)%coq_nat ->
  List.nth k (zipw S f a b) 0 = f (List.nth k a 0) (List.nth k b 0).
Proof.
elim: a b k => [|x a IH] [|y b] [|k] //=; try (by move=> /ltP); try (by move=> _ /ltP).
by move=> ka kb; apply: IH; apply/ltP; [move/ltP: ka | move/ltP: kb].
Qed.

Lemma length_zipw f (a b : list F) : length (zipw S f a b) = minn (length a) (length b).
Proof. by elim: a b => [|x a IH] [|y b] //=; rewrite IH minnSS. Qed.

Lemma nth_zipw2 f (A B : lmxF) i :
  (i < length A)%coq_nat -> (i < length B)%coq_nat ->
  List.nth i (zipw2 S f A B) nil = zipw S f (List.nth i A nil) (List.nth i B nil).
Proof.
elim: A B i => [|x A IH] [|y B] [|i] //=; try (by move=> /ltP); try (by move=> _ /ltP).
by move=> ka kb; apply: IH; apply/ltP; [move/ltP: ka | move/ltP: kb].
Qed.

Lemma wf_nth_row m n (l : lmxF) (i : nat) : wf m n l -> (i < m)%N -> length (List.nth i l nil) = n.
Proof.
case=> lm /List.Forall_forall H im; apply: H; apply: List.nth_In.
by rewrite lm; apply/ltP.
Qed.

Lemma toM_zipw2 m n f (A B : lmxF) : wf m n A -> wf m n B ->
  toM m n (zipw2 S f A B) = \matrix_(i, j) f (toM m n A i j) (toM m n B i j).
Proof.
move=> wA wB; apply/matrixP => i j; rewrite !mxE.
have lA : (i < length A)%coq_nat by case: wA => -> _; apply/ltP.
have lB : (i < length B)%coq_nat by case: wB => -> _; apply/ltP.
rewrite nth_zipw2 // nth_zipw //.
- by rewrite (wf_nth_row wA (ltn_ord i)); apply/ltP.
- by rewrite (wf_nth_row wB (ltn_ord i)); apply/ltP.
Qed.

Lemma toM_madd m n (A B : lmxF) : wf m n A -> wf m n B ->
  toM m n (@madd (ListMat S (fun _ X => X) (fun _ X => X)) m n A B) = toM m n A + toM m n B.
Proof. by move=> wA wB; rewrite /= toM_zipw2 //; apply/matrixP => i j; rewrite !mxE. Qed.

Lemma toM_msub m n (A B : lmxF) : wf m n A -> wf m n B ->
  toM m n (@msub (ListMat S (fun _ X => X) (fun _ X => X)) m n A B) = toM m n A - toM m n B.
Proof. by move=> wA wB; rewrite /= toM_zipw2 //; apply/matrixP => i j; rewrite !mxE. Qed.

(* transpose *)
Lemma toM_ltr m n (A : lmxF) : toM n m (ltr S m n A) = (toM m n A)^T.
Proof.
by rewrite /ltr toM_lbuild; apply/matrixP => i j; rewrite !mxE.
Qed.

Lemma ltr_wf m n (A : lmxF) : wf n m (ltr S m n A).
Proof. exact: lbuild_wf. Qed.

(* identity and zero *)
Lemma toM_lid n : toM n n (lid S n) = 1%:M.
Proof.
rewrite /lid toM_lbuild; apply/matrixP => i j; rewrite !mxE -(inj_eq val_inj) /=.
by case: (Nat.eqb_spec i j) => [->|/eqP/negbTE ->] //; rewrite eqxx.
Qed.

(* matrix product *)
Lemma ldot_sum (r c : list F) n a : length r = n -> length c = n ->
  List.fold_left (fun acc p => sadd S acc (smul S (fst p) (snd p))) (List.combine r c) a =
  a + \sum_(k < n) List.nth (k : nat) r 0 * List.nth (k : nat) c 0.
Proof.
elim: r c n a => [|x r IH] [|y c] [|n] a //= lr lc.
- by rewrite big_ord0 addr0.
- rewrite (IH c n) ?big_ord_recl /= ?addrA //; [by case: lr | by case: lc].
Qed.

Lemma toM_lmul m n p (A B : lmxF) : wf m n A -> wf n p B ->
  toM m p (lmul S m n p A B) = toM m n A *m toM n p B.
Proof.
move=> wA wB; apply/matrixP => i j; rewrite !mxE /lmul.
have lA : length A = m by case: wA.
rewrite List.firstn_all2 ?lA //.
rewrite (List.nth_indep _ nil (List.map (fun c => ldot S nil c) (ltr S n p B))); last first.
  by rewrite List.map_length lA; apply/ltP.
rewrite (List.map_nth (fun r => List.map (fun c => ldot S r c) (ltr S n p B)) A nil i).
rewrite (List.nth_indep _ 0 (ldot S (List.nth i A nil) nil)); last first.
  by rewrite List.map_length; case: (ltr_wf n p B) => -> _; apply/ltP.
rewrite (List.map_nth (fun c => ldot S (List.nth i A nil) c) (ltr S n p B) nil j).
rewrite /ldot (@ldot_sum _ _ n) ?add0r.
- apply: eq_bigr => k _; rewrite !mxE; congr (_ * _).
  by rewrite /ltr -/(lget S _ j k) lget_lbuild.
- exact: (wf_nth_row wA).
- by apply: (wf_nth_row (ltr_wf n p B)).
Qed.

Lemma lmul_wf m n p (A B : lmxF) : length A = m -> wf m p (lmul S m n p A B).
Proof.
move=> lA; split.
- by rewrite /lmul List.map_length List.firstn_all2 ?lA.
- apply/List.Forall_forall => r /List.in_map_iff [r0 [<- _]].
  by rewrite List.map_length; case: (ltr_wf n p B).
Qed.

(* unary element-wise operations *)
Lemma toM_map m n (f : F -> F) (A : lmxF) : wf m n A -> f 0 = 0 ->
  toM m n (List.map (List.map f) A) = \matrix_(i, j) f (toM m n A i j).
Proof.
move=> wA f0; apply/matrixP => i j; rewrite !mxE.
have -> : (nil : list F) = List.map f nil by [].
by rewrite List.map_nth -[in LHS]f0 List.map_nth.
Qed.

Lemma toM_mopp m n (A : lmxF) : wf m n A ->
  toM m n (@mopp (ListMat S (fun _ X => X) (fun _ X => X)) m n A) = - toM m n A.
Proof. by move=> wA; rewrite /= toM_map ?oppr0 //; apply/matrixP => i j; rewrite !mxE. Qed.

Lemma toM_mscale m n c (A : lmxF) : wf m n A ->
  toM m n (@mscale (ListMat S (fun _ X => X) (fun _ X => X)) m n c A) = c *: toM m n A.
Proof. by move=> wA; rewrite /= toM_map ?mulr0 //; apply/matrixP => i j; rewrite !mxE. Qed.

Lemma toM_mzero m n :
  toM m n (@mzero (ListMat S (fun _ X => X) (fun _ X => X)) m n) = 0.
Proof. by rewrite /= toM_lbuild; apply/matrixP => i j; rewrite !mxE. Qed.

(* vertical concatenation *)
Lemma toM_lvcat m1 m2 n (A B : lmxF) : wf m1 n A -> wf m2 n B ->
  toM (m1 + m2) n (lvcat S A B) = col_mx (toM m1 n A) (toM m2 n B).
Proof.
move=> [lA _] _; apply/matrixP => i j; rewrite !mxE /lvcat.
case: (splitP i) => [k ik|k ik]; rewrite !mxE ik.
- by rewrite List.app_nth1 // lA; apply/ltP.
- rewrite List.app_nth2 lA; last by apply/leP; rewrite leq_addr.
  by have -> : (m1 + k - m1)%coq_nat = k by rewrite -[LHS]/((m1 + k) - m1)%N addKn.
Qed.

(* horizontal concatenation *)
Lemma toM_lhcat m n1 n2 (A B : lmxF) : wf m n1 A -> wf m n2 B ->
  toM m (n1 + n2) (lhcat S A B) = row_mx (toM m n1 A) (toM m n2 B).
Proof.
move=> wA wB; apply/matrixP => i j; rewrite !mxE /lhcat.
have lA : length A = m by case: wA.
have lB : length B = m by case: wB.
rewrite (List.nth_indep _ nil ((fun p => fst p ++ snd p)%list (nil, nil))); last first.
  by rewrite List.map_length List.combine_length lA lB Nat.min_id; apply/ltP.
rewrite (List.map_nth (fun p => (fst p ++ snd p)%list)) List.combine_nth ?lA ?lB //=.
have rA := wf_nth_row wA (ltn_ord i).
case: (splitP j) => [k jk|k jk]; rewrite !mxE jk.
- by rewrite List.app_nth1 // rA; apply/ltP.
- rewrite List.app_nth2 rA; last by apply/leP; rewrite leq_addr.
  by have -> : (n1 + k - n1)%coq_nat = k by rewrite -[LHS]/((n1 + k) - n1)%N addKn.
Qed.

(* well-formedness is preserved *)
Lemma zipw2_wf m n f (A B : lmxF) : wf m n A -> wf m n B -> wf m n (zipw2 S f A B).
Proof.
move=> [lA fA] [lB fB]; split.
- elim: A B m lA lB {fA fB} => [|x A IH] [|y B] [|m] //= [lA] [lB]; congr _.+1; exact: (IH B m).
- apply/List.Forall_forall => r inr.
  have [i [il <-]] : exists i, (i < length (zipw2 S f A B))%coq_nat /\ List.nth i (zipw2 S f A B) nil = r.
    by case: (List.In_nth _ _ nil inr) => i [il E]; exists i.
  have lz : length (zipw2 S f A B) = m.
    elim: A B m lA lB {fA fB il inr} => [|x A IH] [|y B] [|m] //= [lA] [lB]; congr _.+1; exact: (IH B m).
  have im : (i < m)%N by apply/ltP; rewrite -lz.
  rewrite nth_zipw2 ?lA ?lB; try exact/ltP.
  rewrite length_zipw (@wf_nth_row m n A i) // ?(@wf_nth_row m n B i) //; exact: minnn.
Qed.

Lemma map_wf m n (f : F -> F) (A : lmxF) : wf m n A -> wf m n (List.map (List.map f) A).
Proof.
move=> [lA fA]; split; first by rewrite List.map_length.
apply/List.Forall_forall => r /List.in_map_iff [r0 [<- inr0]].
by rewrite List.map_length; move/List.Forall_forall: fA; apply.
Qed.

Lemma lvcat_wf m1 m2 n (A B : lmxF) : wf m1 n A -> wf m2 n B -> wf (m1 + m2) n (lvcat S A B).
Proof.
move=> [lA fA] [lB fB]; split; first by rewrite /lvcat List.app_length lA lB.
by apply/List.Forall_app.
Qed.

Lemma toM_wf_ext m n (A : lmxF) : wf m n A -> lbuild S m n (fun i j => lget S A i j) = A.
Proof.
move=> [lA fA]; rewrite /lbuild /lget.
apply: (@List.nth_ext _ _ _ nil nil); first by rewrite List.map_length List.seq_length.
move=> i; rewrite List.map_length List.seq_length => /ltP im.
rewrite (nth_seq_map (fun i => List.map (fun j => List.nth j (List.nth i A nil) 0) (List.seq 0 n)) nil im).
have rn : length (List.nth i A nil) = n by apply: (@wf_nth_row m n A i) => //; split.
apply: (@List.nth_ext _ _ _ 0 0); first by rewrite List.map_length List.seq_length.
move=> j; rewrite List.map_length List.seq_length => /ltP jn.
by rewrite (nth_seq_map (fun j => List.nth j (List.nth i A nil) 0) 0 jn).
Qed.

End Transport.

Print Assumptions toM_lmul.
Print Assumptions toM_madd.
Print Assumptions toM_lhcat.
