(* C08_LDLTDef.v — the body of C08_Model.ldlt_sqrt (the pivoted LDL^T square root of
   GPFCorrection::sampleFromProposal) cut into named pieces, so that it can be reasoned
   about: ldlt_sqrt A = mbuild n n (ld_entries n (mget A)) (ldlt_sqrtE, below; the pieces are
   the local definitions of ldlt_sqrt, verbatim).  No new model: C08_LDLT.v proves the
   contract of ldlt_sqrt through this equation. *)
Require Import ZArith List Bool.
Require Import BFL.Ops BFL.C08_Model.
Import ListNotations.

Section Entries.
Variable O : MatOps.
Notation S := (sc O).

Definition ld_lij (cols : list (list (T S))) (i k : nat) : T S := nth i (nth k cols []) (s0 S).

(* B i j - sum_{k<j} l_ik l_jk d_k, accumulated in the order of the code *)
Definition ld_acc (B : nat -> nat -> T S) (cols : list (list (T S))) (ds : list (T S)) (j i : nat) : T S :=
  fold_left (fun a k => ssub S a (smul S (smul S (ld_lij cols i k) (ld_lij cols j k)) (nth k ds (s0 S))))
            (seq 0 j) (B i j).

Definition ld_col (n : nat) (B : nat -> nat -> T S) cols ds (j : nat) : list (T S) :=
  let dj := ld_acc B cols ds j j in
  map (fun i => if Nat.ltb i j then s0 S else if Nat.eqb i j then s1 S
                else if sltb S (s0 S) (sabs8 O dj) then sdiv S (ld_acc B cols ds j i) dj else ld_acc B cols ds j i)
      (seq 0 n).

Definition ld_step (n : nat) (B : nat -> nat -> T S) (st : list (list (T S)) * list (T S)) (j : nat) :=
  let '(cols, ds) := st in
  (cols ++ [ld_col n B cols ds j], ds ++ [ld_acc B cols ds j j]).

(* P A P^T read from the lower triangle of A *)
Definition ld_B (a : nat -> nat -> T S) (perm : list nat) (i j : nat) : T S :=
  let pi := nth i perm 0 in let pj := nth j perm 0 in
  if Nat.leb pj pi then a pi pj else a pj pi.

Definition ld_state (n : nat) (B : nat -> nat -> T S) (j : nat) := fold_left (ld_step n B) (seq 0 j) ([], []).

Definition ld_entries (n : nat) (a : nat -> nat -> T S) (r c : nat) : T S :=
  let perm := ldlt_perm O n (fun i => a i i) in
  let st := ld_state n (ld_B a perm) n in
  smul S (ld_lij (fst st) (index_of r perm 0) c) (ssqrt S (nth c (snd st) (s0 S))).

Lemma ldlt_sqrtE n (A : M O n n) :
  ldlt_sqrt A = mbuild n n (ld_entries n (fun i j => mget A i j)).
Proof.
unfold ldlt_sqrt, ld_entries, ld_state.
set (perm := ldlt_perm O n (fun i => mget A i i)).
match goal with |- (let '(cols, ds) := fold_left ?f _ _ in _) = _ =>
  replace f with (ld_step n (ld_B (fun i j => mget A i j) perm)) by reflexivity end.
destruct (fold_left (ld_step n (ld_B (fun i j : nat => mget A i j) perm)) (seq 0 n) ([], [])) as [cols ds].
reflexivity.
Qed.

End Entries.
