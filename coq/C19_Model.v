(* C19_Model.v — Gallina transcription of
   src/BayesFilters/src/directional_statistics.cpp (directional_add,
   directional_sub, directional_mean), written against the scalar interface
   SOps.  Matrices are lists of rows.  No proofs here.

   C++ (HEAD):
     directional_add(a, b)  = (complex(0,1) * (a.colwise() + b)).array().exp().arg()
     directional_sub(a, b)  = directional_add(a, -b)
     directional_mean(a, w) = a.cols() == 1 ? directional_add(a.col(0), 0)
                            : ((complex(0,1) * a).array().exp().matrix() * w).array().arg()
   std::exp(complex(re, im)) = (exp(re) cos(im), exp(re) sin(im));
   std::arg(z) = atan2(imag z, real z). *)
Require Import ZArith List.
Require Import BFL.Ops.
Import ListNotations.

Section Directional.
Variable S : SOps.
Notation t := (T S).

(* complex numbers as (real, imaginary) *)
Definition cplx : Type := (t * t)%type.
(* complex(0,1) * x for a real x *)
Definition cj_times (x : t) : cplx := (s0 S, x).
(* std::exp on a complex number *)
Definition cexp (z : cplx) : cplx :=
  (smul S (sexp S (fst z)) (scos S (snd z)), smul S (sexp S (fst z)) (ssin S (snd z))).
(* std::arg *)
Definition carg (z : cplx) : t := satan2 S (snd z) (fst z).
(* complex * real, complex + complex *)
Definition cscale (z : cplx) (w : t) : cplx := (smul S (fst z) w, smul S (snd z) w).
Definition cadd (u v : cplx) : cplx := (sadd S (fst u) (fst v), sadd S (snd u) (snd v)).

(* x |-> arg(exp(j x)) *)
Definition wrap (x : t) : t := carg (cexp (cj_times x)).

(* a : rows x cols (list of rows), b : rows.  (a.colwise() + b) then wrap entry-wise *)
Definition dir_add (a : list (list t)) (b : list t) : list (list t) :=
  map (fun rb => map (fun x => wrap (sadd S x (snd rb))) (fst rb)) (combine a b).

Definition dir_sub (a : list (list t)) (b : list t) : list (list t) :=
  dir_add a (map (sopp S) b).

(* one row of exp(j a) * w : sum_k exp(j a_k) * w_k *)
Definition resultant (row w : list t) : cplx :=
  fold_left (fun acc aw => cadd acc (cscale (cexp (cj_times (fst aw))) (snd aw)))
            (combine row w) (s0 S, s0 S).

Definition mean_row (row w : list t) : t := carg (resultant row w).

(* cols is a.cols(); one column only: that column, wrapped (directional_add(a.col(0), 0)) *)
Definition dir_mean (cols : nat) (a : list (list t)) (w : list t) : list t :=
  if Nat.eqb cols 1 then map (fun row => wrap (sadd S (nth 0 row (s0 S)) (s0 S))) a
  else map (fun row => mean_row row w) a.

End Directional.
