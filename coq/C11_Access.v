(* C11_Access.v — the accessors of the belief containers, read AND write, tied to the
   storage model and to the algorithm-level view (list of components):
     - the storage is exactly the concatenation of the components' accessor views
       (means, covariance blocks, weights, particle states): the view determines the storage;
     - the non-const overloads (writes through the returned reference): what is written is
       read back, every other cell of every accessor is unchanged, the invariant is kept;
     - filling a container cell by cell through the element accessors, or component by
       component through the block accessors, gives the same object as filling it through
       the whole-matrix accessors (gm_fill);
     - the state part and the noise part of every component after ANY number of noise
       augmentations.
   Plain lists and lia; no axioms. *)
Require Import ZArith List Bool Arith Lia.
Require Import BFL.Ops BFL.C11_Model BFL.C11_Proofs.
Import ListNotations.

Lemma fold_left_ext_in {X Y} (f g : X -> Y -> X) (l : list Y) (x : X) :
  (forall y a, In a l -> f y a = g y a) -> fold_left f l x = fold_left g l x.
Proof.
  revert x. induction l as [|a r IH]; simpl; intros x H; auto.
  rewrite H by auto. apply IH. intros. apply H. auto.
Qed.

Lemma linear_index R r c k : r < R -> (c * R + r = k <-> (r = k mod R /\ c = k / R)).
Proof.
  intros Hr. assert (R <> 0) by lia.
  pose proof (Nat.div_mod k R H) as E. pose proof (Nat.mod_upper_bound k R H) as U.
  split.
  - intros Ek. assert (c = k / R /\ r = k mod R) as [-> ->]; [|auto].
    apply (divmod_inj R); auto. lia.
  - intros [-> ->]. lia.
Qed.

Section C11.
Variable S : SOps.
Variable junk : T S.
Local Notation A := (T S).
Local Notation zero := (s0 S).
Local Notation mx := (mx S).
Local Notation gm := (gm S).
Local Notation pset := (pset S).
Local Notation mk := (mk S).
Local Notation get := (get S).
Local Notation shape := (shape S).
Local Notation Consistent := (Consistent S).
Local Notation Consistent_ps := (Consistent_ps S).

(* ------------------------------------------------------------ the view determines the storage *)
(* the columns of a well-formed matrix *)
Lemma mdata_columns m r c : shape m r c ->
  mdata S m = map (fun j => map (fun i => get m i j) (seq 0 r)) (seq 0 c).
Proof.
  intros (R & C & W). rewrite <- (mk_get_id S m W) at 1. rewrite R, C. reflexivity.
Qed.

Lemma concat_map_singleton {X Y} (f : X -> Y) l : concat (map (fun x => [f x]) l) = map f l.
Proof. induction l; simpl; auto. f_equal. auto. Qed.

(* means / particle states: one column per component *)
Lemma mean_is_concatenation g : Consistent g ->
  mdata S (mean_ S g) = concat (map (fun i => mdata S (gm_mean S g i)) (seq 0 (components S g))).
Proof.
  intros (_ & _ & _ & H4 & _). pose proof H4 as (R & C & W). rewrite (mdata_columns _ _ _ H4).
  unfold gm_mean, e_col, C11_Model.mk. simpl. rewrite R. rewrite concat_map_singleton. reflexivity.
Qed.

Lemma state_is_concatenation p : Consistent_ps p ->
  mdata S (state_ S p) = concat (map (fun i => mdata S (ps_state S p i)) (seq 0 (components S (base S p)))).
Proof.
  intros [_ H]. pose proof H as (R & C & W). rewrite (mdata_columns _ _ _ H).
  unfold ps_state, e_col, C11_Model.mk. simpl. rewrite R. rewrite concat_map_singleton. reflexivity.
Qed.

Lemma weight_is_the_list g : Consistent g ->
  mdata S (weight_ S g) = [map (fun i => gm_weight S g i) (seq 0 (components S g))].
Proof.
  intros (_ & _ & _ & _ & _ & H6). rewrite (mdata_columns _ _ _ H6). reflexivity.
Qed.

(* covariances: dcov columns per component, component after component *)
Lemma seq_offset a v : seq a v = map (fun k => a + k) (seq 0 v).
Proof.
  revert a. induction v as [|v IH]; intros a; simpl; [reflexivity|].
  rewrite Nat.add_0_r. f_equal. rewrite <- (seq_shift v 0), map_map, IH. apply map_ext. intros k. lia.
Qed.

Lemma seq_blocks v n : seq 0 (v * n) = concat (map (fun i => map (fun k => v * i + k) (seq 0 v)) (seq 0 n)).
Proof.
  induction n as [|n IH].
  - rewrite Nat.mul_0_r. reflexivity.
  - rewrite seq_S, map_app, concat_app, <- IH. simpl. rewrite app_nil_r.
    replace (v * Datatypes.S n) with (v * n + v) by lia. rewrite seq_app. f_equal. apply seq_offset.
Qed.

Lemma cov_is_concatenation g : Consistent g ->
  mdata S (cov_ S g) = concat (map (fun i => mdata S (gm_cov S g i)) (seq 0 (components S g))).
Proof.
  intros (_ & _ & _ & _ & H5 & _). pose proof H5 as (R & C & W). rewrite (mdata_columns _ _ _ H5).
  rewrite seq_blocks, concat_map, map_map. f_equal. apply map_ext. intros i.
  unfold gm_cov, e_middle_cols, C11_Model.mk. simpl. rewrite R, map_map. reflexivity.
Qed.

(* the algorithm-level view of a particle set: (particle state, mean, covariance, weight) per component *)
Definition ps_comps (p : pset) : list (mx * mx * mx * A) :=
  map (fun i => (ps_state S p i, gm_mean S (base S p) i, gm_cov S (base S p) i, gm_weight S (base S p) i))
      (seq 0 (components S (base S p))).

Lemma ps_comps_length p : length (ps_comps p) = components S (base S p).
Proof. unfold ps_comps. rewrite map_length, seq_length. reflexivity. Qed.

Lemma ps_comps_nth p i d : i < components S (base S p) ->
  nth i (ps_comps p) d = (ps_state S p i, gm_mean S (base S p) i, gm_cov S (base S p) i, gm_weight S (base S p) i).
Proof. intros H. unfold ps_comps. rewrite nth_map_seq by exact H. reflexivity. Qed.

(* ------------------------------------------------------------ writes through the non-const overloads *)
Lemma gm_with_eta g : gm_with S g (mean_ S g) (cov_ S g) (weight_ S g) = g.
Proof. destruct g; reflexivity. Qed.

Definition same_layout (g g' : gm) : Prop :=
  components S g' = components S g /\ use_quat S g' = use_quat S g /\ dcc S g' = dcc S g /\ dim S g' = dim S g
  /\ dl S g' = dl S g /\ dc S g' = dc S g /\ dn S g' = dn S g /\ dcov S g' = dcov S g.

Lemma same_layout_with g m c w : same_layout g (gm_with S g m c w).
Proof. unfold same_layout, gm_with; simpl. auto 10. Qed.

(* mean(i, j) = x *)
Lemma gm_set_mean_el_spec g i j x : Consistent g -> i < components S g -> j < dim S g ->
  let g' := gm_set_mean_el S g i j x in
  Consistent g' /\ same_layout g g' /\ cov_ S g' = cov_ S g /\ weight_ S g' = weight_ S g
  /\ gm_mean_el S g' i j = x /\ get (gm_mean S g' i) j 0 = x
  /\ (forall i' j', i' < components S g -> j' < dim S g -> (i' <> i \/ j' <> j) ->
        gm_mean_el S g' i' j' = gm_mean_el S g i' j')
  /\ (forall i', i' < components S g -> i' <> i -> gm_mean S g' i' = gm_mean S g i').
Proof.
  intros HC Hi Hj. pose proof HC as (_ & _ & _ & (R4 & C4 & W4) & _). cbv zeta.
  split; [apply gm_set_mean_el_consistent; exact HC|]. split; [apply same_layout_with|].
  split; [reflexivity|]. split; [reflexivity|].
  unfold gm_mean_el, gm_mean, gm_set_mean_el, gm_with, e_col; simpl.
  assert (Rs : mrows S (e_set S (mean_ S g) j i x) = dim S g) by (unfold e_set; simpl; exact R4).
  split; [rewrite get_e_set by lia; rewrite !Nat.eqb_refl; reflexivity|].
  split; [rewrite ?Rs, get_mk by lia; rewrite get_e_set by lia; rewrite !Nat.eqb_refl; reflexivity|].
  split.
  - intros i' j' Hi' Hj' NE. rewrite get_e_set by lia.
    destruct (Nat.eqb_spec j' j); destruct (Nat.eqb_spec i' i); simpl; try reflexivity. lia.
  - intros i' Hi' NE. rewrite ?Rs, ?R4. apply mk_ext. intros r c Hr Hc. rewrite get_e_set by lia.
    destruct (Nat.eqb_spec i' i); [contradiction|]. rewrite andb_false_r. reflexivity.
Qed.

(* covariance(i, j, k) = x *)
Lemma gm_set_cov_el_spec g i j k x : Consistent g -> i < components S g -> j < dcov S g -> k < dcov S g ->
  let g' := gm_set_cov_el S g i j k x in
  Consistent g' /\ same_layout g g' /\ mean_ S g' = mean_ S g /\ weight_ S g' = weight_ S g
  /\ gm_cov_el S g' i j k = x /\ get (gm_cov S g' i) j k = x
  /\ (forall i' j' k', i' < components S g -> j' < dcov S g -> k' < dcov S g -> (i' <> i \/ j' <> j \/ k' <> k) ->
        gm_cov_el S g' i' j' k' = gm_cov_el S g i' j' k')
  /\ (forall i', i' < components S g -> i' <> i -> gm_cov S g' i' = gm_cov S g i').
Proof.
  intros HC Hi Hj Hk. pose proof HC as (_ & _ & _ & _ & (R5 & C5 & W5) & _). cbv zeta.
  split; [apply gm_set_cov_el_consistent; exact HC|]. split; [apply same_layout_with|].
  split; [reflexivity|]. split; [reflexivity|].
  unfold gm_cov_el, gm_cov, gm_set_cov_el, gm_with, e_middle_cols; simpl.
  assert (Rs : mrows S (e_set S (cov_ S g) j (dcov S g * i + k) x) = dcov S g) by (unfold e_set; simpl; exact R5).
  assert (In1 : dcov S g * i + k < mcols S (cov_ S g)) by (rewrite C5; nia).
  split; [rewrite get_e_set by lia; rewrite !Nat.eqb_refl; reflexivity|].
  split; [rewrite ?Rs, get_mk by lia; rewrite get_e_set by lia; rewrite !Nat.eqb_refl; reflexivity|].
  split.
  - intros i' j' k' Hi' Hj' Hk' NE.
    assert (dcov S g * i' + k' < mcols S (cov_ S g)) by (rewrite C5; nia).
    rewrite get_e_set by lia.
    destruct (Nat.eqb_spec j' j); destruct (Nat.eqb_spec (dcov S g * i' + k') (dcov S g * i + k)) as [E|E]; simpl; try reflexivity.
    exfalso. rewrite !(Nat.mul_comm (dcov S g)) in E. apply divmod_inj in E; lia.
  - intros i' Hi' NE. rewrite ?Rs, ?R5. apply mk_ext. intros r c Hr Hc.
    assert (dcov S g * i' + c < mcols S (cov_ S g)) by (rewrite C5; nia).
    rewrite get_e_set by lia.
    destruct (Nat.eqb_spec (dcov S g * i' + c) (dcov S g * i + k)) as [E|E]; [|rewrite andb_false_r; reflexivity].
    exfalso. rewrite !(Nat.mul_comm (dcov S g)) in E. apply divmod_inj in E; lia.
Qed.

(* weight(i) = x *)
Lemma gm_set_weight_spec g i x : Consistent g -> i < components S g ->
  let g' := gm_set_weight S g i x in
  Consistent g' /\ same_layout g g' /\ mean_ S g' = mean_ S g /\ cov_ S g' = cov_ S g
  /\ gm_weight S g' i = x
  /\ (forall i', i' < components S g -> i' <> i -> gm_weight S g' i' = gm_weight S g i').
Proof.
  intros HC Hi. pose proof HC as (_ & _ & _ & _ & _ & (R6 & C6 & W6)). cbv zeta.
  split; [apply gm_set_weight_consistent; exact HC|]. split; [apply same_layout_with|].
  split; [reflexivity|]. split; [reflexivity|].
  unfold gm_weight, gm_set_weight, gm_with; simpl.
  split; [rewrite get_e_set by lia; rewrite !Nat.eqb_refl; reflexivity|].
  intros i' Hi' NE. rewrite get_e_set by lia. destruct (Nat.eqb_spec i' i); [contradiction|reflexivity].
Qed.

(* state(i, j) = x *)
Lemma ps_set_state_el_spec p i j x : Consistent_ps p -> i < components S (base S p) -> j < dim S (base S p) ->
  let p' := ps_set_state_el S p i j x in
  Consistent_ps p' /\ base S p' = base S p
  /\ ps_state_el S p' i j = x /\ get (ps_state S p' i) j 0 = x
  /\ (forall i' j', i' < components S (base S p) -> j' < dim S (base S p) -> (i' <> i \/ j' <> j) ->
        ps_state_el S p' i' j' = ps_state_el S p i' j')
  /\ (forall i', i' < components S (base S p) -> i' <> i -> ps_state S p' i' = ps_state S p i').
Proof.
  intros [HC Hs] Hi Hj. pose proof Hs as (Rs & Cs & Ws). cbv zeta.
  split; [split; simpl; [exact HC|apply shape_e_set; exact Hs]|]. split; [reflexivity|].
  unfold ps_state_el, ps_state, ps_set_state_el, e_col; simpl.
  assert (Rs' : mrows S (e_set S (state_ S p) j i x) = dim S (base S p)) by (unfold e_set; simpl; exact Rs).
  split; [rewrite get_e_set by lia; rewrite !Nat.eqb_refl; reflexivity|].
  split; [rewrite ?Rs', get_mk by lia; rewrite get_e_set by lia; rewrite !Nat.eqb_refl; reflexivity|].
  split.
  - intros i' j' Hi' Hj' NE. rewrite get_e_set by lia.
    destruct (Nat.eqb_spec j' j); destruct (Nat.eqb_spec i' i); simpl; try reflexivity. lia.
  - intros i' Hi' NE. rewrite ?Rs', ?Rs. apply mk_ext. intros r c Hr Hc. rewrite get_e_set by lia.
    destruct (Nat.eqb_spec i' i); [contradiction|]. rewrite andb_false_r. reflexivity.
Qed.

(* mean(i) = v, covariance(i) = m, state(i) = v for a value of the block's shape *)
Lemma gm_set_mean_spec g i v : Consistent g -> i < components S g -> shape v (dim S g) 1 ->
  let g' := gm_set_mean S g i v in
  Consistent g' /\ same_layout g g' /\ cov_ S g' = cov_ S g /\ weight_ S g' = weight_ S g
  /\ gm_mean S g' i = v
  /\ (forall i', i' < components S g -> i' <> i -> gm_mean S g' i' = gm_mean S g i').
Proof.
  intros HC Hi Hv. pose proof HC as (_ & _ & _ & (R4 & C4 & W4) & _). pose proof Hv as (Rv & Cv & Wv). cbv zeta.
  split; [apply gm_set_mean_consistent; exact HC|]. split; [apply same_layout_with|].
  split; [reflexivity|]. split; [reflexivity|].
  unfold gm_mean, gm_set_mean, gm_with, e_col; simpl.
  assert (Rs : mrows S (e_set_block S (mean_ S g) 0 i v) = dim S g) by (unfold e_set_block; simpl; exact R4).
  split.
  - rewrite ?Rs, ?R4, ?R5. apply (mx_ext S _ _ (dim S g) 1); [apply shape_mk|exact Hv|].
    intros r c Hr Hc. rewrite get_mk by lia. rewrite get_e_set_block by lia. rewrite Rv, Cv.
    replace c with 0 by lia. bprune. f_equal; lia.
  - intros i' Hi' NE. rewrite ?Rs, ?R4. apply mk_ext. intros r c Hr Hc. rewrite get_e_set_block by lia.
    rewrite Rv, Cv. bprune; reflexivity.
Qed.

Lemma gm_set_cov_spec g i m : Consistent g -> i < components S g -> shape m (dcov S g) (dcov S g) ->
  let g' := gm_set_cov S g i m in
  Consistent g' /\ same_layout g g' /\ mean_ S g' = mean_ S g /\ weight_ S g' = weight_ S g
  /\ gm_cov S g' i = m
  /\ (forall i', i' < components S g -> i' <> i -> gm_cov S g' i' = gm_cov S g i').
Proof.
  intros HC Hi Hm. pose proof HC as (_ & _ & _ & _ & (R5 & C5 & W5) & _). pose proof Hm as (Rm & Cm & Wm). cbv zeta.
  split; [apply gm_set_cov_consistent; exact HC|]. split; [apply same_layout_with|].
  split; [reflexivity|]. split; [reflexivity|].
  unfold gm_cov, gm_set_cov, gm_with, e_middle_cols; simpl.
  assert (Rs : mrows S (e_set_block S (cov_ S g) 0 (dcov S g * i) m) = dcov S g) by (unfold e_set_block; simpl; exact R5).
  split.
  - rewrite ?Rs, ?R4, ?R5. apply (mx_ext S _ _ (dcov S g) (dcov S g)); [apply shape_mk|exact Hm|].
    intros r c Hr Hc. rewrite get_mk by lia.
    assert (dcov S g * i + c < mcols S (cov_ S g)) by (rewrite C5; nia).
    rewrite get_e_set_block by lia. rewrite Rm, Cm. bprune. f_equal; lia.
  - intros i' Hi' NE. rewrite ?Rs, ?R5. apply mk_ext. intros r c Hr Hc.
    assert (dcov S g * i' + c < mcols S (cov_ S g)) by (rewrite C5; nia).
    rewrite get_e_set_block by lia. rewrite Rm, Cm.
    assert (OUT : dcov S g * i' + c < dcov S g * i \/ dcov S g * i + dcov S g <= dcov S g * i' + c) by nia.
    bprune; reflexivity.
Qed.

Lemma ps_set_state_spec p i v : Consistent_ps p -> i < components S (base S p) -> shape v (dim S (base S p)) 1 ->
  let p' := ps_set_state S p i v in
  Consistent_ps p' /\ base S p' = base S p /\ ps_state S p' i = v
  /\ (forall i', i' < components S (base S p) -> i' <> i -> ps_state S p' i' = ps_state S p i').
Proof.
  intros [HC Hs] Hi Hv. pose proof Hs as (Rs & Cs & Ws). pose proof Hv as (Rv & Cv & Wv). cbv zeta.
  split; [split; simpl; [exact HC|apply shape_e_set_block; exact Hs]|]. split; [reflexivity|].
  unfold ps_state, ps_set_state, e_col; simpl.
  assert (Rs' : mrows S (e_set_block S (state_ S p) 0 i v) = dim S (base S p)) by (unfold e_set_block; simpl; exact Rs).
  split.
  - rewrite ?Rs', ?Rs. apply (mx_ext S _ _ (dim S (base S p)) 1); [apply shape_mk|exact Hv|].
    intros r c Hr Hc. rewrite get_mk by lia. rewrite get_e_set_block by lia. rewrite Rv, Cv.
    replace c with 0 by lia. bprune. f_equal; lia.
  - intros i' Hi' NE. rewrite ?Rs', ?Rs. apply mk_ext. intros r c Hr Hc. rewrite get_e_set_block by lia.
    rewrite Rv, Cv. bprune; reflexivity.
Qed.

(* ------------------------------------------------------------ filling through the accessors = filling the storage *)
(* column-major loop of element writes *)
Lemma fold_e_set_linear m R C (val : nat -> A) : shape m R C ->
  fold_left (fun m t => e_set S m (t mod R) (t / R) (val t)) (seq 0 (R * C)) m = mk R C (fun r c => val (c * R + r)).
Proof.
  intros Sh.
  assert (H : shape (fold_left (fun m t => e_set S m (t mod R) (t / R) (val t)) (seq 0 (R * C)) m) R C
          /\ forall r c, r < R -> c < C ->
               get (fold_left (fun m t => e_set S m (t mod R) (t / R) (val t)) (seq 0 (R * C)) m) r c =
               if c * R + r <? R * C then val (c * R + r) else get m r c).
  { apply (fold_seq_inv (fun m t => e_set S m (t mod R) (t / R) (val t))
             (fun k m' => shape m' R C /\ forall r c, r < R -> c < C ->
                            get m' r c = if c * R + r <? k then val (c * R + r) else get m r c)).
    - split; [exact Sh|]. intros. reflexivity.
    - intros k y Hk [Shy Hy]. split; [apply shape_e_set; exact Shy|].
      intros r c Hr Hc. destruct Shy as (Ry & Cy & _). rewrite get_e_set by lia. rewrite Hy by assumption.
      destruct (Nat.eq_dec (c * R + r) k) as [E|NE].
      + apply (linear_index R r c k Hr) in E as E'. destruct E' as [E1 E2]. rewrite <- E1, <- E2, !Nat.eqb_refl. simpl.
        destruct (Nat.ltb_spec (c * R + r) (Datatypes.S k)); [rewrite E; reflexivity|lia].
      + assert (F : (r =? k mod R) && (c =? k / R) = false).
        { destruct (Nat.eqb_spec r (k mod R)); destruct (Nat.eqb_spec c (k / R)); simpl; try reflexivity.
          exfalso. apply NE. apply (linear_index R r c k Hr). auto. }
        rewrite F. destruct (Nat.ltb_spec (c * R + r) k); destruct (Nat.ltb_spec (c * R + r) (Datatypes.S k)); try reflexivity; lia. }
  destruct H as [Sh' Hg]. apply (mx_ext S _ _ R C); [exact Sh'|apply shape_mk|].
  intros r c Hr Hc. rewrite Hg by assumption. rewrite get_mk by assumption.
  destruct (Nat.ltb_spec (c * R + r) (R * C)); [reflexivity|nia].
Qed.

Lemma fold_e_set_vector w n (val : nat -> A) : shape w n 1 ->
  fold_left (fun w i => e_set S w i 0 (val i)) (seq 0 n) w = mk n 1 (fun r _ => val r).
Proof.
  intros Sh.
  assert (H : shape (fold_left (fun w i => e_set S w i 0 (val i)) (seq 0 n) w) n 1
          /\ forall r, r < n -> get (fold_left (fun w i => e_set S w i 0 (val i)) (seq 0 n) w) r 0 =
                                if r <? n then val r else get w r 0).
  { apply (fold_seq_inv (fun w i => e_set S w i 0 (val i))
             (fun k m' => shape m' n 1 /\ forall r, r < n -> get m' r 0 = if r <? k then val r else get w r 0)).
    - split; [exact Sh|]. intros. reflexivity.
    - intros k y Hk [Shy Hy]. split; [apply shape_e_set; exact Shy|].
      intros r Hr. destruct Shy as (Ry & Cy & _). rewrite get_e_set by lia. rewrite Hy by assumption.
      destruct (Nat.eqb_spec r k) as [->|NE]; simpl.
      + destruct (Nat.ltb_spec k (Datatypes.S k)); [reflexivity|lia].
      + destruct (Nat.ltb_spec r k); destruct (Nat.ltb_spec r (Datatypes.S k)); try reflexivity; lia. }
  destruct H as [Sh' Hg]. apply (mx_ext S _ _ n 1); [exact Sh'|apply shape_mk|].
  intros r c Hr Hc. replace c with 0 by lia. rewrite Hg by assumption. rewrite get_mk by lia.
  destruct (Nat.ltb_spec r n); [reflexivity|lia].
Qed.

(* a loop of writes to one field of the record is a loop on that field *)
Lemma fold_on_mean {Y} (f : gm -> Y -> gm) (h : mx -> Y -> mx) (l : list Y) g :
  (forall g y, f g y = gm_with S g (h (mean_ S g) y) (cov_ S g) (weight_ S g)) ->
  fold_left f l g = gm_with S g (fold_left h l (mean_ S g)) (cov_ S g) (weight_ S g).
Proof.
  intros H. revert g. induction l as [|y r IH]; intros g; simpl; [symmetry; apply gm_with_eta|].
  rewrite IH, H. reflexivity.
Qed.

Lemma fold_on_cov {Y} (f : gm -> Y -> gm) (h : nat -> mx -> Y -> mx) (l : list Y) g :
  (forall g y, f g y = gm_with S g (mean_ S g) (h (dcov S g) (cov_ S g) y) (weight_ S g)) ->
  fold_left f l g = gm_with S g (mean_ S g) (fold_left (h (dcov S g)) l (cov_ S g)) (weight_ S g).
Proof.
  intros H. revert g. induction l as [|y r IH]; intros g; simpl; [symmetry; apply gm_with_eta|].
  rewrite IH, H. reflexivity.
Qed.

Lemma fold_on_weight {Y} (f : gm -> Y -> gm) (h : mx -> Y -> mx) (l : list Y) g :
  (forall g y, f g y = gm_with S g (mean_ S g) (cov_ S g) (h (weight_ S g) y)) ->
  fold_left f l g = gm_with S g (mean_ S g) (cov_ S g) (fold_left h l (weight_ S g)).
Proof.
  intros H. revert g. induction l as [|y r IH]; intros g; simpl; [symmetry; apply gm_with_eta|].
  rewrite IH, H. reflexivity.
Qed.

Lemma e_fill_as_mk m r c b : shape m r c -> e_fill S m b = mk r c (fun i j => sofZ S (b + Z.of_nat (j * r + i))%Z).
Proof. intros (R & C & _). unfold e_fill. rewrite R, C. reflexivity. Qed.

Theorem gm_fill_el_is_fill b g : Consistent g -> gm_fill_el S b g = gm_fill S b g.
Proof.
  intros HC. pose proof HC as (_ & _ & _ & H4 & H5 & H6).
  pose proof H4 as (R4 & C4 & W4). pose proof H5 as (R5 & C5 & W5). pose proof H6 as (R6 & C6 & W6).
  unfold gm_fill_el, gm_fill.
  set (d := dim S g). set (v := dcov S g). set (n := components S g).
  rewrite (fold_on_weight _ (fun w i => e_set S w i 0 (sofZ S (b + Z.of_nat (d * n) + Z.of_nat (v * (v * n)) + Z.of_nat i))))
    by (intros; reflexivity).
  rewrite (fold_on_cov _ (fun dv m t => e_set S m (t mod v) (dv * (t / v / v) + t / v mod v) (sofZ S (b + Z.of_nat (d * n) + Z.of_nat t))))
    by (intros; reflexivity).
  rewrite (fold_on_mean _ (fun m t => e_set S m (t mod d) (t / d) (sofZ S (b + Z.of_nat t)))) by (intros; reflexivity).
  cbn [mean_ cov_ weight_ dcov gm_with]. fold v.
  rewrite (fold_e_set_linear _ d n) by exact H4.
  rewrite (fold_left_ext_in _ (fun m t => e_set S m (t mod v) (t / v) (sofZ S (b + Z.of_nat (d * n) + Z.of_nat t)))).
  2:{ intros y t Ht. apply in_seq in Ht. f_equal.
      assert (v <> 0) by (intro E; rewrite E in Ht; simpl in Ht; lia).
      symmetry. apply Nat.div_mod. exact H. }
  rewrite (fold_e_set_linear _ v (v * n)) by exact H5.
  rewrite (fold_e_set_vector _ n) by exact H6.
  rewrite (e_fill_as_mk _ _ _ _ H4), (e_fill_as_mk _ _ _ _ H5), (e_fill_as_mk _ _ _ _ H6).
  rewrite R4, C4, R5, C5. unfold gm_with. cbn [components use_quat dcc dim dl dc dn dcov mean_ cov_ weight_].
  fold d v n. f_equal; try (apply mk_ext; intros i j Hi Hj; do 2 f_equal; lia).
Qed.

(* column / block writes *)
Lemma fold_e_set_block_cols m R C (val : nat -> A) : shape m R C ->
  fold_left (fun m i => e_set_block S m 0 i (mk R 1 (fun r _ => val (i * R + r)))) (seq 0 C) m
  = mk R C (fun r c => val (c * R + r)).
Proof.
  intros Sh.
  assert (H : shape (fold_left (fun m i => e_set_block S m 0 i (mk R 1 (fun r _ => val (i * R + r)))) (seq 0 C) m) R C
          /\ forall r c, r < R -> c < C ->
               get (fold_left (fun m i => e_set_block S m 0 i (mk R 1 (fun r _ => val (i * R + r)))) (seq 0 C) m) r c =
               if c <? C then val (c * R + r) else get m r c).
  { apply (fold_seq_inv (fun m i => e_set_block S m 0 i (mk R 1 (fun r _ => val (i * R + r))))
             (fun k m' => shape m' R C /\ forall r c, r < R -> c < C ->
                            get m' r c = if c <? k then val (c * R + r) else get m r c)).
    - split; [exact Sh|]. intros. reflexivity.
    - intros k y Hk [Shy Hy]. split; [apply shape_e_set_block; exact Shy|].
      intros r c Hr Hc. destruct Shy as (Ry & Cy & _). rewrite get_e_set_block by lia. rewrite Hy by assumption.
      change (mrows S (mk R 1 (fun r0 _ => val (k * R + r0)))) with R.
      change (mcols S (mk R 1 (fun r0 _ => val (k * R + r0)))) with 1.
      destruct (Nat.eq_dec c k) as [->|NE].
      + bprune. rewrite get_mk by lia. f_equal. lia.
      + bprune; reflexivity. }
  destruct H as [Sh' Hg]. apply (mx_ext S _ _ R C); [exact Sh'|apply shape_mk|].
  intros r c Hr Hc. rewrite Hg by assumption. rewrite get_mk by assumption.
  destruct (Nat.ltb_spec c C); [reflexivity|lia].
Qed.

Lemma fold_e_set_block_blocks m v n (val : nat -> A) : shape m v (v * n) ->
  fold_left (fun m i => e_set_block S m 0 (v * i) (mk v v (fun r k => val ((i * v + k) * v + r)))) (seq 0 n) m
  = mk v (v * n) (fun r c => val (c * v + r)).
Proof.
  intros Sh.
  assert (H : shape (fold_left (fun m i => e_set_block S m 0 (v * i) (mk v v (fun r k => val ((i * v + k) * v + r)))) (seq 0 n) m) v (v * n)
          /\ forall r c, r < v -> c < v * n ->
               get (fold_left (fun m i => e_set_block S m 0 (v * i) (mk v v (fun r k => val ((i * v + k) * v + r)))) (seq 0 n) m) r c =
               if c <? v * n then val (c * v + r) else get m r c).
  { apply (fold_seq_inv (fun m i => e_set_block S m 0 (v * i) (mk v v (fun r k => val ((i * v + k) * v + r))))
             (fun k m' => shape m' v (v * n) /\ forall r c, r < v -> c < v * n ->
                            get m' r c = if c <? v * k then val (c * v + r) else get m r c)).
    - split; [exact Sh|]. intros. rewrite Nat.mul_0_r. reflexivity.
    - intros k y Hk [Shy Hy]. split; [apply shape_e_set_block; exact Shy|].
      intros r c Hr Hc. destruct Shy as (Ry & Cy & _). rewrite get_e_set_block by lia. rewrite Hy by assumption.
      change (mrows S (mk v v (fun r0 k0 => val ((k * v + k0) * v + r0)))) with v.
      change (mcols S (mk v v (fun r0 k0 => val ((k * v + k0) * v + r0)))) with v.
      replace (v * Datatypes.S k) with (v * k + v) by lia.
      destruct (le_lt_dec (v * k) c) as [L|L]; [destruct (le_lt_dec (v * k + v) c) as [L'|L']|].
      + bprune; reflexivity.
      + bprune. rewrite get_mk by lia. f_equal. nia.
      + bprune; reflexivity. }
  destruct H as [Sh' Hg]. apply (mx_ext S _ _ v (v * n)); [exact Sh'|apply shape_mk|].
  intros r c Hr Hc. rewrite Hg by assumption. rewrite get_mk by assumption.
  destruct (Nat.ltb_spec c (v * n)); [reflexivity|lia].
Qed.

(* a loop that writes the three fields of component i, for every i, is three loops *)
Lemma fold_on_all (hm hw : mx -> nat -> mx) (hc : nat -> mx -> nat -> mx) (l : list nat) g :
  fold_left (fun g i => gm_with S g (hm (mean_ S g) i) (hc (dcov S g) (cov_ S g) i) (hw (weight_ S g) i)) l g
  = gm_with S g (fold_left hm l (mean_ S g)) (fold_left (hc (dcov S g)) l (cov_ S g)) (fold_left hw l (weight_ S g)).
Proof.
  revert g. induction l as [|y r IH]; intros g; simpl; [symmetry; apply gm_with_eta|].
  rewrite IH. reflexivity.
Qed.

Theorem gm_fill_blk_is_fill b g : Consistent g -> gm_fill_blk S b g = gm_fill S b g.
Proof.
  intros HC. pose proof HC as (_ & _ & _ & H4 & H5 & H6).
  pose proof H4 as (R4 & C4 & W4). pose proof H5 as (R5 & C5 & W5). pose proof H6 as (R6 & C6 & W6).
  unfold gm_fill_blk, gm_fill.
  set (d := dim S g). set (v := dcov S g). set (n := components S g).
  rewrite (fold_left_ext_in _
     (fun g i => gm_with S g
        ((fun m i => e_set_block S m 0 i (mk d 1 (fun r _ => sofZ S (b + Z.of_nat (i * d + r))))) (mean_ S g) i)
        ((fun dv m i => e_set_block S m 0 (dv * i) (mk v v (fun r k => sofZ S (b + Z.of_nat (d * n) + Z.of_nat ((i * v + k) * v + r))))) (dcov S g) (cov_ S g) i)
        ((fun w i => e_set S w i 0 (sofZ S (b + Z.of_nat (d * n) + Z.of_nat (v * (v * n)) + Z.of_nat i))) (weight_ S g) i)))
    by (intros; reflexivity).
  rewrite (fold_on_all
     (fun m i => e_set_block S m 0 i (mk d 1 (fun r _ => sofZ S (b + Z.of_nat (i * d + r)))))
     (fun w i => e_set S w i 0 (sofZ S (b + Z.of_nat (d * n) + Z.of_nat (v * (v * n)) + Z.of_nat i)))
     (fun dv m i => e_set_block S m 0 (dv * i) (mk v v (fun r k => sofZ S (b + Z.of_nat (d * n) + Z.of_nat ((i * v + k) * v + r)))))).
  fold v.
  rewrite (fold_e_set_block_cols _ d n (fun t => sofZ S (b + Z.of_nat t))) by exact H4.
  rewrite (fold_e_set_block_blocks _ v n (fun t => sofZ S (b + Z.of_nat (d * n) + Z.of_nat t))) by exact H5.
  rewrite (fold_e_set_vector _ n) by exact H6.
  rewrite (e_fill_as_mk _ _ _ _ H4), (e_fill_as_mk _ _ _ _ H5), (e_fill_as_mk _ _ _ _ H6).
  rewrite R4, C4, R5, C5. unfold gm_with. cbn [components use_quat dcc dim dl dc dn dcov mean_ cov_ weight_].
  fold d v n. f_equal; try (apply mk_ext; intros i j Hi Hj; do 2 f_equal; lia).
Qed.

(* particle sets: the particle states as well *)
Lemma fold_on_state {Y} (f : pset -> Y -> pset) (h : mx -> Y -> mx) (l : list Y) p :
  (forall p y, f p y = mkPs S (base S p) (h (state_ S p) y)) ->
  fold_left f l p = mkPs S (base S p) (fold_left h l (state_ S p)).
Proof.
  intros H. revert p. induction l as [|y r IH]; intros p; simpl; [destruct p; reflexivity|].
  rewrite IH, H. reflexivity.
Qed.

Theorem ps_fill_el_is_fill b p : Consistent_ps p -> ps_fill_el S b p = ps_fill S b p.
Proof.
  intros [HC Hs]. pose proof HC as (_ & _ & _ & (R4 & C4 & W4) & (R5 & C5 & W5) & (R6 & C6 & W6)).
  pose proof Hs as (Rs & Cs & Ws).
  unfold ps_fill_el, ps_fill. rewrite (gm_fill_el_is_fill b _ HC).
  cbn [gm_fill dim dcov components mean_ cov_ weight_].
  set (d := dim S (base S p)). set (v := dcov S (base S p)). set (n := components S (base S p)).
  rewrite (fold_on_state _ (fun m t => e_set S m (t mod d) (t / d) (sofZ S (b + Z.of_nat (d * n + v * (v * n) + n) + Z.of_nat t))))
    by (intros; reflexivity).
  cbn [base state_]. rewrite (fold_e_set_linear _ d n) by exact Hs.
  rewrite (e_fill_as_mk _ _ _ _ Hs). f_equal.
  unfold e_fill; cbn [mrows mcols C11_Model.mk]. rewrite R4, C4, R5, C5, R6. fold d v n. reflexivity.
Qed.

Theorem ps_fill_blk_is_fill b p : Consistent_ps p -> ps_fill_blk S b p = ps_fill S b p.
Proof.
  intros [HC Hs]. pose proof HC as (_ & _ & _ & (R4 & C4 & W4) & (R5 & C5 & W5) & (R6 & C6 & W6)).
  pose proof Hs as (Rs & Cs & Ws).
  unfold ps_fill_blk, ps_fill. rewrite (gm_fill_blk_is_fill b _ HC).
  cbn [gm_fill dim dcov components mean_ cov_ weight_].
  set (d := dim S (base S p)). set (v := dcov S (base S p)). set (n := components S (base S p)).
  rewrite (fold_on_state _ (fun m i => e_set_block S m 0 i (mk d 1 (fun r _ => sofZ S (b + Z.of_nat (d * n + v * (v * n) + n) + Z.of_nat (i * d + r))))))
    by (intros; reflexivity).
  cbn [base state_].
  rewrite (fold_e_set_block_cols _ d n (fun t => sofZ S (b + Z.of_nat (d * n + v * (v * n) + n) + Z.of_nat t))) by exact Hs.
  rewrite (e_fill_as_mk _ _ _ _ Hs). f_equal.
  unfold e_fill; cbn [mrows mcols C11_Model.mk]. rewrite R4, C4, R5, C5, R6. fold d v n. reflexivity.
Qed.

(* ------------------------------------------------------------ state part and noise part, any number of augmentations *)
Local Notation vcat := (vcat S).
Local Notation blockdiag := (blockdiag S).

Lemma rows_from_vcat m z a : a <= mrows S m ->
  e_rows_from S (vcat m z) a = vcat (e_rows_from S m a) z.
Proof.
  intros Ha. unfold e_rows_from, C11_Proofs.vcat. cbn [mrows mcols C11_Model.mk].
  replace (mrows S m + mrows S z - a) with (mrows S m - a + mrows S z) by lia.
  apply mk_ext. intros i j Hi Hj. rewrite get_mk by lia.
  destruct (Nat.ltb_spec (a + i) (mrows S m)); destruct (Nat.ltb_spec i (mrows S m - a)); try lia.
  - rewrite get_mk by lia. reflexivity.
  - f_equal. lia.
Qed.

Lemma rows_upto_vcat m z a : a <= mrows S m -> e_rows_upto S (vcat m z) a = e_rows_upto S m a.
Proof.
  intros Ha. unfold e_rows_upto, C11_Proofs.vcat. cbn [mrows mcols C11_Model.mk].
  apply mk_ext. intros i j Hi Hj. rewrite get_mk by lia.
  destruct (Nat.ltb_spec i (mrows S m)); [reflexivity|lia].
Qed.

Lemma block_br_blockdiag P q a n : mrows S P = a + n -> mcols S P = a + n -> mrows S q = mcols S q ->
  e_block S (blockdiag P q) a a (n + mrows S q) (n + mrows S q) = blockdiag (e_block S P a a n n) q.
Proof.
  intros RP CP Hq. unfold e_block, C11_Proofs.blockdiag. cbn [mrows mcols C11_Model.mk]. rewrite <- Hq.
  apply mk_ext. intros i j Hi Hj. rewrite get_mk by lia. rewrite RP, CP.
  destruct (Nat.ltb_spec (a + i) (a + n)); destruct (Nat.ltb_spec i n); try lia;
  destruct (Nat.ltb_spec (a + j) (a + n)); destruct (Nat.ltb_spec j n); try lia; try reflexivity.
  - rewrite get_mk by lia. reflexivity.
  - f_equal; lia.
Qed.

Lemma block_tl_blockdiag P q h w : h <= mrows S P -> w <= mcols S P ->
  e_block S (blockdiag P q) 0 0 h w = e_block S P 0 0 h w.
Proof.
  intros Hh Hw. unfold e_block, C11_Proofs.blockdiag.
  apply mk_ext. intros i j Hi Hj. cbn [Nat.add]. rewrite get_mk by lia.
  destruct (Nat.ltb_spec i (mrows S P)); [|lia]. destruct (Nat.ltb_spec j (mcols S P)); [reflexivity|lia].
Qed.

(* one augmentation, in terms of the parts *)
Lemma gm_augment_parts q g : Consistent g -> 1 <= components S g -> mrows S q = mcols S q ->
  let g' := snd (gm_augment S q g) in
  forall i, i < components S g ->
    gm_state_mean S g' i = gm_state_mean S g i
    /\ gm_noise_mean S g' i = vcat (gm_noise_mean S g i) (e_zero S (mrows S q) 1)
    /\ gm_state_cov S g' i = gm_state_cov S g i
    /\ gm_noise_cov S g' i = blockdiag (gm_noise_cov S g i) q.
Proof.
  intros HC Hc Hq. cbv zeta. intros i Hi.
  destruct (gm_augment_content S q g HC Hc Hq) as (_ & _ & _ & _ & _ & _ & En & Ed & Ev & Hcomp).
  destruct (Hcomp i Hi) as (Em & Ec & _).
  destruct (gm_accessors S g i HC Hi) as (_ & (Rm & _ & _) & (Rc & Cc & _) & _).
  pose proof HC as (H1 & H2 & H3 & _).
  assert (Ldn : dn S g <= dim S g) by lia.
  assert (Lvn : dn S g <= dcov S g) by lia.
  unfold gm_state_mean, gm_noise_mean, gm_state_cov, gm_noise_cov. rewrite Em, Ec, En, Ed, Ev.
  replace (dim S g + mrows S q - (dn S g + mrows S q)) with (dim S g - dn S g) by lia.
  replace (dcov S g + mrows S q - (dn S g + mrows S q)) with (dcov S g - dn S g) by lia.
  split; [apply rows_upto_vcat; lia|]. split; [apply rows_from_vcat; lia|].
  split; [apply block_tl_blockdiag; lia|]. apply block_br_blockdiag; auto; lia.
Qed.

Definition gm_augment_all (qs : list mx) (g : gm) : gm := fold_left (fun g q => snd (gm_augment S q g)) qs g.
Definition all_square (qs : list mx) : Prop := Forall (fun q => mrows S q = mcols S q) qs.
Definition add_zero_rows (m q : mx) : mx := vcat m (e_zero S (mrows S q) 1).

(* it is the history GAugment q1; ...; GAugment qk *)
Lemma gm_augment_all_is_run qs g : 1 <= components S g ->
  gm_run S junk (map (GAugment S) qs) g = Some (gm_augment_all qs g).
Proof.
  revert g. induction qs as [|q r IH]; intros g Hc; [reflexivity|].
  change (gm_run S junk (map (GAugment S) (q :: r)) g)
    with (if gm_augment_defined S q g then gm_run S junk (map (GAugment S) r) (snd (gm_augment S q g)) else None).
  rewrite (gm_augment_defined_ok S q g Hc). apply IH. rewrite gm_augment_components. exact Hc.
Qed.

Theorem gm_augment_all_content qs g : Consistent g -> 1 <= components S g -> all_square qs ->
  let g' := gm_augment_all qs g in
  let R := list_sum (map (mrows S) qs) in
  Consistent g' /\ components S g' = components S g /\ dl S g' = dl S g /\ dc S g' = dc S g
  /\ use_quat S g' = use_quat S g /\ dcc S g' = dcc S g
  /\ dn S g' = dn S g + R /\ dim S g' = dim S g + R /\ dcov S g' = dcov S g + R
  /\ forall i, i < components S g ->
       gm_mean S g' i = fold_left add_zero_rows qs (gm_mean S g i)
       /\ gm_cov S g' i = fold_left blockdiag qs (gm_cov S g i)
       /\ gm_weight S g' i = gm_weight S g i
       /\ gm_state_mean S g' i = gm_state_mean S g i
       /\ gm_noise_mean S g' i = fold_left add_zero_rows qs (gm_noise_mean S g i)
       /\ gm_state_cov S g' i = gm_state_cov S g i
       /\ gm_noise_cov S g' i = fold_left blockdiag qs (gm_noise_cov S g i).
Proof.
  revert g. induction qs as [|q r IH]; intros g HC Hc Hq; cbv zeta.
  - simpl. rewrite !Nat.add_0_r. split; [exact HC|]. do 8 (split; [reflexivity|]). intros i Hi. repeat split.
  - inversion Hq as [|? ? Hq1 Hqr]; subst.
    destruct (gm_augment_content S q g HC Hc Hq1) as (_ & E1 & E2 & E3 & E4 & E5 & En & Ed & Ev & Hcomp).
    pose proof (gm_augment_consistent S q g HC) as HC1.
    assert (Hc1 : 1 <= components S (snd (gm_augment S q g))) by (rewrite E1; exact Hc).
    specialize (IH _ HC1 Hc1 Hqr). cbv zeta in IH.
    destruct IH as (I0 & I1 & I2 & I3 & I4 & I5 & In & Id & Iv & Icomp).
    unfold gm_augment_all in *. simpl fold_left. simpl map. simpl list_sum.
    split; [exact I0|]. split; [congruence|]. split; [congruence|]. split; [congruence|].
    split; [congruence|]. split; [congruence|]. split; [lia|]. split; [lia|]. split; [lia|].
    intros i Hi. assert (Hi1 : i < components S (snd (gm_augment S q g))) by (rewrite E1; exact Hi).
    destruct (Icomp i Hi1) as (J1 & J2 & J3 & J4 & J5 & J6 & J7).
    destruct (Hcomp i Hi) as (K1 & K2 & K3).
    destruct (gm_augment_parts q g HC Hc Hq1 i Hi) as (P1 & P2 & P3 & P4).
    rewrite J1, J2, J3, J4, J5, J6, J7, K1, K2, K3, P1, P2, P3, P4. unfold add_zero_rows at 2 4. auto 10.
Qed.

(* after augmentations of a noise-free mixture the noise part of every mean is zero *)
Lemma add_zero_rows_zero qs m : mcols S m = 1 -> (forall r, r < mrows S m -> get m r 0 = zero) ->
  let m' := fold_left add_zero_rows qs m in
  mcols S m' = 1 /\ forall r, r < mrows S m' -> get m' r 0 = zero.
Proof.
  revert m. induction qs as [|q r IH]; intros m Hc Hz; cbv zeta; simpl; [auto|].
  apply IH; [exact Hc|]. intros x Hx. unfold add_zero_rows, C11_Proofs.vcat in *. cbn [mrows mcols C11_Model.mk] in *.
  change (mrows S (e_zero S (mrows S q) 1)) with (mrows S q) in *.
  rewrite get_mk by lia. destruct (Nat.ltb_spec x (mrows S m)); [apply Hz; exact H|]. apply get_e_zero; lia.
Qed.

Theorem gm_noise_mean_zero qs g i : Consistent g -> 1 <= components S g -> all_square qs -> dn S g = 0 ->
  i < components S g ->
  forall r, r < dn S (gm_augment_all qs g) -> get (gm_noise_mean S (gm_augment_all qs g) i) r 0 = zero.
Proof.
  intros HC Hc Hq Hn Hi r Hr.
  destruct (gm_augment_all_content qs g HC Hc Hq) as (HC' & E1 & _ & _ & _ & _ & En & Ed & _ & Hcomp).
  destruct (Hcomp i Hi) as (_ & _ & _ & _ & EN & _).
  pose proof HC' as (H1 & _ & _ & (R4 & _) & _).
  assert (RowsN : mrows S (gm_noise_mean S (gm_augment_all qs g) i) = dn S (gm_augment_all qs g)).
  { unfold gm_noise_mean, e_rows_from, gm_mean, e_col. cbn [mrows C11_Model.mk]. rewrite R4. lia. }
  rewrite EN in *.
  apply (add_zero_rows_zero qs (gm_noise_mean S g i)); [reflexivity| |lia].
  intros x Hx. exfalso. unfold gm_noise_mean, e_rows_from, gm_mean, e_col in Hx. cbn [mrows C11_Model.mk] in Hx.
  pose proof HC as (G1 & _ & _ & (G4 & _) & _). rewrite G4 in Hx. lia.
Qed.

(* particle sets: the particles' own state and noise parts *)
Lemma ps_augment_parts q p : Consistent_ps p -> 1 <= components S (base S p) -> mrows S q = mcols S q ->
  let p' := snd (ps_augment S q p) in
  forall i, i < components S (base S p) ->
    ps_state_part S p' i = ps_state_part S p i
    /\ ps_noise_part S p' i = vcat (ps_noise_part S p i) (e_zero S (mrows S q) 1).
Proof.
  intros HP Hc Hq. cbv zeta. intros i Hi.
  destruct (ps_augment_content S q p HP Hc Hq) as (_ & Eb & Hst).
  destruct HP as [HC Hs].
  destruct (gm_augment_content S q (base S p) HC Hc Hq) as (_ & _ & _ & _ & _ & _ & En & Ed & _ & _).
  destruct (ps_accessors S p i (conj HC Hs) Hi) as (_ & (Rm & _ & _) & _).
  pose proof HC as (H1 & _).
  unfold ps_state_part, ps_noise_part. rewrite (Hst i Hi), Eb, En, Ed.
  replace (dim S (base S p) + mrows S q - (dn S (base S p) + mrows S q)) with (dim S (base S p) - dn S (base S p)) by lia.
  split; [apply rows_upto_vcat; lia|apply rows_from_vcat; lia].
Qed.

End C11.
