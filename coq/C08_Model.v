(* C08_Model.v — model of the Gaussian particle filter steps:
     GPFPrediction::predictStep                    (GPFPrediction.cpp:46-60)
     GPFCorrection::correctStep                    (GPFCorrection.cpp:98-130)
     GPFCorrection::sampleFromProposal             (GPFCorrection.cpp:133-149)
     GPFCorrection::evaluateProposal               (GPFCorrection.cpp:152-162)
     GaussianLikelihood::likelihood                (GaussianLikelihood.cpp:27-77)
     WhiteNoiseAcceleration::getTransitionProbability (WhiteNoiseAcceleration.cpp:216-220)
   Polymorphic in the arithmetic (MatOps).  No proofs here.

   A ParticleSet is a GaussianMixture (mean_, covariance_, weight_) plus the
   matrix of positions state_.  At algorithm level it is a list of particles
   (C11 ties this view to the concatenated storage).  The wrapped Gaussian step
   only sees the GaussianMixture part: it is an arbitrary function
       gstep : mixture read -> previous content of the mixture written -> mixture written
   (KF steps overwrite mean(i)/covariance(i) only; UT-based steps assign a fresh
   mixture; a step that cannot use its measurement copies its input).
   The standard-normal draws are inputs ([zs], one n-vector per particle, in the
   order in which gaussian_random_sample_ is called).

   Shape: as in the library, the object read and the object written have the same
   number of components N; loops run over i < pred_particles.components and index
   the arrays (nth with a default models an out-of-range read; every theorem
   carries the in-range guard). *)
Require Import ZArith List Bool.
Require Import BFL.Ops BFL.Density BFL.C01_Model BFL.C05_Model.
Import ListNotations.

(* w_k = w_{k-1} + log(l + eps) + log(t + eps) - log(q + eps), eps = numeric_limits<double>::min()
   (GPFCorrection.cpp:125-129); scalar code, also instantiated at Coq's R *)
Definition gpf_weight (S : SOps) (lw l t q : T S) : T S :=
  ssub S (sadd S (sadd S lw (sln S (sadd S l (stiny S)))) (sln S (sadd S t (stiny S))))
       (sln S (sadd S q (stiny S))).

(* ---- lifetime of the random source, the validity flag and the likelihood model (World C)
   GPFCorrection's constructors build gaussian_random_sample_ as a closure
   [&]{ return distribution_(generator_); } over the members of the object being
   constructed (GPFCorrection.cpp:36-42) and initialise valid_likelihood_ to false
   (GPFCorrection.h).  HEAD (after the fix commits d193577 and 57c1b76): the move
   constructor and the move assignment bind a NEW closure over the destination's own
   members, move (= copy) the generator state, copy valid_likelihood_, and transfer all
   three models, likelihood_model_ included (GPFCorrection.cpp:45-80).
   [fixed = false] is the transcription of the code BEFORE those commits, kept for the
   regression section of Properties_C08.v: valid_likelihood_ was never initialised, both
   move operations moved the closure verbatim (it kept reading the generator of the
   object it was built in), and the move assignment left likelihood_model_ behind.
   Objects are identified by a number; a generator state is (seed, draws consumed);
   a likelihood model is identified by a number, None = null pointer. *)
Record rs_obj := mkRsObj {
  rs_id : nat;
  rs_alive : bool;
  rs_target : nat;              (* the object whose generator_ / distribution_ the closure reads *)
  rs_valid : option bool;       (* valid_likelihood_; None = indeterminate (never written) *)
  rs_lik : option nat;          (* likelihood_model_ *)
  rs_gen : nat * nat            (* generator_: seed, number of draws consumed *)
}.
Inductive rs_op :=
| RsConstruct (id seed lik : nat)        (* GPFCorrection(lik, gc, sm, seed) *)
| RsMove (dst src : nat)                 (* GPFCorrection dst(std::move(src)) *)
| RsMoveAssign (dst src : nat)           (* dst = std::move(src) *)
| RsCorrect (id : nat) (valid : bool)    (* correct(): writes valid_likelihood_ *)
| RsDraw (id : nat)                      (* one call of gaussian_random_sample_() of object id *)
| RsDestroy (id : nat).                  (* ~GPFCorrection() *)

Definition rs_find (st : list rs_obj) (id : nat) : option rs_obj :=
  find (fun o => Nat.eqb (rs_id o) id) st.
(* in-place update of object id (the update keeps rs_id) *)
Definition rs_upd (st : list rs_obj) (id : nat) (f : rs_obj -> rs_obj) : list rs_obj :=
  map (fun o => if Nat.eqb (rs_id o) id then f o else o) st.
Definition rs_moved_from (o : rs_obj) : rs_obj :=      (* unique_ptr members are null after a move *)
  mkRsObj (rs_id o) (rs_alive o) (rs_target o) (rs_valid o) None (rs_gen o).

Definition rs_step (fixed : bool) (st : list rs_obj) (op : rs_op) : list rs_obj :=
  match op with
  | RsConstruct id seed k =>
      mkRsObj id true id (if fixed then Some false else None) (Some k) (seed, 0) :: st
  | RsMove dst src =>
      match rs_find st src with
      | Some o => mkRsObj dst true (if fixed then dst else rs_target o) (rs_valid o) (rs_lik o) (rs_gen o)
                  :: rs_upd st src rs_moved_from
      | None => st
      end
  | RsMoveAssign dst src =>
      match rs_find st src with
      | Some o =>
          rs_upd (rs_upd st dst (fun d => mkRsObj (rs_id d) (rs_alive d) (if fixed then rs_id d else rs_target o) (rs_valid o)
                                                  (if fixed then rs_lik o else rs_lik d) (rs_gen o)))
                 src (fun s => if fixed then rs_moved_from s else s)
      | None => st
      end
  | RsCorrect id v =>
      rs_upd st id (fun o => mkRsObj (rs_id o) (rs_alive o) (rs_target o) (Some v) (rs_lik o) (rs_gen o))
  | RsDraw id =>
      match rs_find st id with
      | Some o => rs_upd st (rs_target o)
                    (fun t => mkRsObj (rs_id t) (rs_alive t) (rs_target t) (rs_valid t) (rs_lik t) (fst (rs_gen t), Datatypes.S (snd (rs_gen t))))
      | None => st
      end
  | RsDestroy id =>
      rs_upd st id (fun o => mkRsObj (rs_id o) false (rs_target o) (rs_valid o) (rs_lik o) (rs_gen o))
  end.
Definition rs_run (fixed : bool) (ops : list rs_op) : list rs_obj := fold_left (rs_step fixed) ops [].

(* the generator an object's proposal draws come from: Some id, or None when the
   closure dangles (undefined behaviour) *)
Definition rs_draw_source (st : list rs_obj) (id : nat) : option nat :=
  match rs_find st id with
  | Some o => match rs_find st (rs_target o) with
              | Some t => if rs_alive t then Some (rs_id t) else None
              | None => None
              end
  | None => None
  end.
(* what getLikelihood() reports as validity *)
Definition rs_reported_valid (st : list rs_obj) (id : nat) : option bool :=
  match rs_find st id with Some o => rs_valid o | None => None end.

Section GPF.
Variable O : MatOps.
Notation S := (sc O).

Record particle (n : nat) := mkParticle {
  pstate : M O n 1;      (* ParticleSet::state(i) *)
  pmean : M O n 1;       (* GaussianMixture::mean(i) *)
  pcov : M O n n;        (* GaussianMixture::covariance(i) *)
  plw : T S              (* GaussianMixture::weight(i), a log-weight *)
}.
Arguments mkParticle {n}. Arguments pstate {n}. Arguments pmean {n}. Arguments pcov {n}. Arguments plw {n}.

Definition pset n := list (particle n).

(* the GaussianMixture part, as seen by a wrapped Gaussian step *)
Definition gmixture n := list (gcomp O n * T S).
Definition gstep n := gmixture n -> gmixture n -> gmixture n.
Definition pbelief {n} (p : particle n) : gcomp O n := mkGcomp (pmean p) (pcov p).
Definition gm_of {n} (ps : pset n) : gmixture n := map (fun p => (pbelief p, plw p)) ps.

Definition dgcomp n : gcomp O n := mkGcomp (mzero n 1) (mzero n n).
Definition dparticle n : particle n := mkParticle (mzero n 1) (mzero n 1) (mzero n n) (s0 S).
Definition belief_at {n} (g : gmixture n) (i : nat) : gcomp O n := fst (nth i g (dgcomp n, s0 S)).

(* ---- GPFPrediction::predictStep ------------------------------------------
   gaussian_prediction_->predict(prev, pred);   pred seen as a GaussianMixture
   pred.weight() = prev.weight();  pred.state() = prev.state();               *)
Definition gpf_predict {n} (gp : gstep n) (prev pred_old : pset n) : pset n :=
  let g := gp (gm_of prev) (gm_of pred_old) in
  map (fun i => let b := belief_at g i in
                let p := nth i prev (dparticle n) in
                mkParticle (pstate p) (gmean b) (gcov b) (plw p))
      (seq 0 (length prev)).

(* PFPrediction::predict (PFPrediction.cpp:18-24) *)
Definition pf_predict {n} (skip : bool) (gp : gstep n) (prev pred_old : pset n) : pset n :=
  if skip then prev else gpf_predict gp prev pred_old.

(* ---- GPFCorrection ------------------------------------------------------- *)
(* The square root used by sampleFromProposal (GPFCorrection.cpp:137-140):
     LDLT<MatrixXd> chol_ldlt(covariance);
     sqrt_P = (transpositionsP() * I)^T * matrixL() * vectorD().cwiseSqrt().asDiagonal()
   with Eigen's pivoting rule transcribed (Eigen/src/Cholesky/LDLT.h, ldlt_inplace<Lower>::unblocked):
   at step k the first largest |diagonal entry| among positions >= k of the symmetrically
   permuted matrix is swapped into position k; the factorisation is left-looking, so the
   diagonal entries compared are those of the ORIGINAL matrix; only the lower triangle is read;
   a column whose pivot is exactly 0 is not scaled.  Written against mget / mbuild, so it
   exists at every instance.  Its contract (L L^T = P for symmetric positive definite P) is a
   premise of the theorems that need it and is checked at run time on both sides. *)
Definition sabs8 (x : T S) : T S := if sltb S x (s0 S) then sopp S x else x.

Fixpoint argmax_from (d : nat -> T S) (rest : list nat) (j best : nat) (bestv : T S) : nat :=
  match rest with
  | [] => best
  | p :: rest' => let v := sabs8 (d p) in
                  if sltb S bestv v then argmax_from d rest' (Datatypes.S j) j v
                  else argmax_from d rest' (Datatypes.S j) best bestv
  end.
Definition swap_pos (k b : nat) (perm : list nat) : list nat :=
  map (fun idx => nth (if Nat.eqb idx k then b else if Nat.eqb idx b then k else idx) perm 0)
      (seq 0 (length perm)).
Definition ldlt_perm (n : nat) (d : nat -> T S) : list nat :=
  fold_left (fun perm k =>
               let b := argmax_from d (skipn (Datatypes.S k) perm) (Datatypes.S k) k (sabs8 (d (nth k perm 0))) in
               swap_pos k b perm)
            (seq 0 n) (seq 0 n).
Fixpoint index_of (r : nat) (perm : list nat) (i : nat) : nat :=
  match perm with
  | [] => i
  | p :: rest => if Nat.eqb p r then i else index_of r rest (Datatypes.S i)
  end.

Definition ldlt_sqrt {n} (A : M O n n) : M O n n :=
  let perm := ldlt_perm n (fun i => mget A i i) in
  (* B = P A P^T, read from the lower triangle of A *)
  let B i j := let pi := nth i perm 0 in let pj := nth j perm 0 in
               if Nat.leb pj pi then mget A pi pj else mget A pj pi in
  let lij (cols : list (list (T S))) i k := nth i (nth k cols []) (s0 S) in
  let step (st : list (list (T S)) * list (T S)) (j : nat) :=
    let '(cols, ds) := st in
    let acc i := fold_left (fun a k => ssub S a (smul S (smul S (lij cols i k) (lij cols j k)) (nth k ds (s0 S))))
                           (seq 0 j) (B i j) in
    let dj := acc j in
    let col := map (fun i => if Nat.ltb i j then s0 S else if Nat.eqb i j then s1 S
                             else if sltb S (s0 S) (sabs8 dj) then sdiv S (acc i) dj else acc i)
                   (seq 0 n) in
    (cols ++ [col], ds ++ [dj]) in
  let '(cols, ds) := fold_left step (seq 0 n) ([], []) in
  mbuild n n (fun r c => smul S (lij cols (index_of r perm 0) c) (ssqrt S (nth c ds (s0 S)))).

(* sampleFromProposal: mean + sqrt_P * rand_vectors *)
Definition sample_from_proposal {n} (m : M O n 1) (P : M O n n) (z : M O n 1) : M O n 1 :=
  madd m (mmul (ldlt_sqrt P) z).

(* evaluateProposal: multivariate_gaussian_density(state, mean, covariance).coeff(0) *)
Definition evaluate_proposal {n} (x m : M O n 1) (P : M O n n) : T S := density x m P.

Record corr_result (n : nat) := mkCorr {
  cr_particles : pset n;       (* corr_particles on return *)
  cr_valid : bool;             (* valid_likelihood_ *)
  cr_lik : list (T S)          (* likelihood_ *)
}.
Arguments mkCorr {n}. Arguments cr_particles {n}. Arguments cr_valid {n}. Arguments cr_lik {n}.

(* the corrected beliefs and the drawn positions, i < pred_particles.components *)
Definition gpf_beliefs {n} (gc : gstep n) (pred corr_old : pset n) : list (gcomp O n) :=
  let g := gc (gm_of pred) (gm_of corr_old) in
  map (fun i => belief_at g i) (seq 0 (length pred)).

Definition gpf_drawn {n} (gc : gstep n) (zs : list (M O n 1)) (pred corr_old : pset n)
  : list (M O n 1) :=
  let bs := gpf_beliefs gc pred corr_old in
  map (fun i => let b := nth i bs (dgcomp n) in
                sample_from_proposal (gmean b) (gcov b) (nth i zs (mzero n 1)))
      (seq 0 (length pred)).

(* correctStep.  lik = LikelihoodModel::likelihood(measurement model, positions);
   trans = StateModel::getTransitionProbability(previous positions, positions). *)
Definition gpf_correct {n} (gc : gstep n)
           (lik : list (M O n 1) -> bool * list (T S))
           (trans : list (M O n 1) -> list (M O n 1) -> list (T S))
           (zs : list (M O n 1)) (pred corr_old : pset n) : corr_result n :=
  let bs := gpf_beliefs gc pred corr_old in
  let xs := gpf_drawn gc zs pred corr_old in
  let '(valid, ls) := lik xs in
  if negb valid then mkCorr pred false ls                    (* corr_particles = pred_particles *)
  else
    let ts := trans (map pstate pred) xs in
    mkCorr
      (map (fun i => let b := nth i bs (dgcomp n) in
                     let x := nth i xs (mzero n 1) in
                     mkParticle x (gmean b) (gcov b)
                       (gpf_weight S (plw (nth i pred (dparticle n)))
                                   (nth i ls (s0 S)) (nth i ts (s0 S))
                                   (evaluate_proposal x (gmean b) (gcov b))))
           (seq 0 (length pred)))
      true ls.

(* ---- the models plugged in by the correspondence check -------------------- *)
(* GaussianLikelihood::likelihood (GaussianLikelihood.cpp:27-77) over a measurement model
   with measurement function h and noise covariance R that serves y.  The four flags are the
   validities returned by measure(), predictedMeasure(), innovation() and
   getNoiseCovarianceMatrix(), tested in this order; each failure returns
   (false, VectorXd::Zero(1)).  The innovation of the shipped models is y - h(x), column-wise. *)
Definition gauss_lik_h {n m} (scale : T S) (v_meas v_pred v_innov v_cov : bool)
           (h : M O n 1 -> M O m 1) (R : M O m m) (y : M O m 1) (xs : list (M O n 1))
  : bool * list (T S) :=
  if negb v_meas then (false, [s0 S])
  else if negb v_pred then (false, [s0 S])
  else if negb v_innov then (false, [s0 S])
  else if negb v_cov then (false, [s0 S])
  else (true, map (fun x => smul S scale (density (lin_innovation (h x) y) (mzero m 1) R)) xs).

(* ... over a linear measurement model (H, R) *)
Definition gauss_lik {n m} (scale : T S) (meas_valid : bool) (H : M O m n) (R : M O m m)
           (y : M O m 1) (xs : list (M O n 1)) : bool * list (T S) :=
  gauss_lik_h scale meas_valid true true true (lin_predicted H) R y xs.

(* a likelihood model whose validity is scripted by the harness *)
Definition scripted_lik {n} (ok : bool) (inner : list (M O n 1) -> bool * list (T S))
           (xs : list (M O n 1)) : bool * list (T S) :=
  if ok then inner xs else (false, [s0 S]).

(* WhiteNoiseAcceleration::getTransitionProbability and the harness LTI model:
   density of cur_i - F prev_i around 0 with covariance Q, pair by pair *)
Definition lin_trans {n} (F Q : M O n n) (prevs curs : list (M O n 1)) : list (T S) :=
  map (fun pc => density (msub (snd pc) (mmul F (fst pc))) (mzero n 1) Q) (combine prevs curs).

(* a non-Gaussian transition density of the harness: 1 / (1 + |cur_i - A prev_i|^2) *)
Definition cauchy_trans {n} (A : M O n n) (prevs curs : list (M O n 1)) : list (T S) :=
  map (fun pc => let d := msub (snd pc) (mmul A (fst pc)) in
                 sdiv S (s1 S) (sadd S (s1 S) (quadform d (mid n))))
      (combine prevs curs).

(* wrapped Gaussian steps.  KFCorrection::correctStep (C01's kf_correct) writes
   mean(i), covariance(i) of the output and leaves its weights; with an unusable
   measurement it copies its input (C12). *)
Definition kf_corr_gstep {n m} (meas_valid : bool) (H : M O m n) (R : M O m m) (y : M O m 1)
  : gstep n :=
  fun pred old =>
    if meas_valid
    then combine (map (fun o => ko_comp o) (kf_correct H R y (map fst pred))) (map snd old)
    else pred.

(* UKFCorrection (additive measurement model) and SUKFCorrection as wrapped steps, built from
   C05's per-component models over an arbitrary measurement function h: they write mean(i),
   covariance(i) of the output and leave its weights; when they cannot use the measurement
   (or are told to skip) they copy their input. *)
Definition ukf_corr_gstep {n m} (usable : bool) (w : utw O) (h : M O n 1 -> M O m 1) (R : M O m m)
           (y : M O m 1) : gstep n :=
  fun pred old =>
    if usable
    then combine (map (fun c : gcomp O n => let o := C05_Model.ukf_correct_comp n w h y R (gmean c) (gcov c) in
                                            mkGcomp (uo_mean o) (uo_cov o)) (map fst pred))
                 (map snd old)
    else pred.
Definition sukf_corr_gstep {n m} (usable : bool) (w : utw O) (h : M O n 1 -> M O m 1) (R : M O m m)
           (y : M O m 1) : gstep n :=
  fun pred old =>
    if usable
    then combine (map (fun c : gcomp O n => let o := sukf_correct_comp n w h y (NoiseReduced (s:=m) R) (gmean c) (gcov c) in
                                            mkGcomp (so_mean o) (so_cov o)) (map fst pred))
                 (map snd old)
    else pred.
(* a Gaussian step that is skipping (GaussianPrediction::skip_ / GaussianCorrection::skip_):
   the output mixture becomes a copy of the input mixture *)
Definition copy_gstep {n} : gstep n := fun a _ => a.

(* KFPrediction::predictStep over an LTI state model without exogenous input,
   component by component (C02 models the general step): mean F m, covariance
   F P F^T + Q; weights of the output are not written *)
Definition kf_pred_comp {n} (F Q : M O n n) (c : gcomp O n) : gcomp O n :=
  mkGcomp (mmul F (gmean c)) (madd (mmul (mmul F (gcov c)) (mtr F)) Q).
Definition kf_pred_gstep {n} (F Q : M O n n) : gstep n :=
  fun prev old => combine (map (kf_pred_comp F Q) (map fst prev)) (map snd old).

(* ---- histories ------------------------------------------------------------
   The filter keeps two buffers: predict(corr_buf -> pred_buf), then
   correct(pred_buf -> corr_buf).  One step of a history carries the wrapped
   steps, the likelihood / transition models and the draws of that step. *)
Record step_in (n : nat) := mkStepIn {
  si_gp : gstep n;
  si_gc : gstep n;
  si_lik : list (M O n 1) -> bool * list (T S);
  si_trans : list (M O n 1) -> list (M O n 1) -> list (T S);
  si_zs : list (M O n 1)
}.
Arguments mkStepIn {n}. Arguments si_gp {n}. Arguments si_gc {n}. Arguments si_lik {n}.
Arguments si_trans {n}. Arguments si_zs {n}.

Record fstate (n : nat) := mkFstate {
  fs_pred : pset n;            (* pred_particle_ buffer *)
  fs_corr : pset n;            (* cor_particle_ buffer *)
  fs_valid : bool;             (* valid_likelihood_ of the last correction *)
  fs_lik : list (T S)          (* likelihood_ of the last correction *)
}.
Arguments mkFstate {n}. Arguments fs_pred {n}. Arguments fs_corr {n}. Arguments fs_valid {n}. Arguments fs_lik {n}.

Definition gpf_step {n} (st : fstate n) (s : step_in n) : fstate n :=
  let pred := gpf_predict (si_gp s) (fs_corr st) (fs_pred st) in
  let r := gpf_correct (si_gc s) (si_lik s) (si_trans s) (si_zs s) pred (fs_corr st) in
  mkFstate pred (cr_particles r) (cr_valid r) (cr_lik r).

Definition gpf_run {n} (st : fstate n) (h : list (step_in n)) : fstate n :=
  fold_left gpf_step h st.

(* PFPrediction::predict / PFCorrection::correct with their skip flags: a skipped prediction
   copies the previous set, a skipped correction copies the predicted set and leaves
   valid_likelihood_ / likelihood_ as they were *)
Definition pf_step {n} (st : fstate n) (ssk : step_in n * (bool * bool)) : fstate n :=
  let '(s, (skip_p, skip_c)) := ssk in
  let pred := pf_predict skip_p (si_gp s) (fs_corr st) (fs_pred st) in
  if skip_c then mkFstate pred pred (fs_valid st) (fs_lik st)
  else let r := gpf_correct (si_gc s) (si_lik s) (si_trans s) (si_zs s) pred (fs_corr st) in
       mkFstate pred (cr_particles r) (cr_valid r) (cr_lik r).
Fixpoint pf_trace {n} (st : fstate n) (h : list (step_in n * (bool * bool))) : list (fstate n) :=
  match h with
  | [] => []
  | s :: h' => let st' := pf_step st s in st' :: pf_trace st' h'
  end.

(* every intermediate state of a history, in order (for the correspondence check) *)
Fixpoint gpf_trace {n} (st : fstate n) (h : list (step_in n)) : list (fstate n) :=
  match h with
  | [] => []
  | s :: h' => let st' := gpf_step st s in st' :: gpf_trace st' h'
  end.

(* ---- time-varying histories ---------------------------------------------------
   Everything a model may report differently at each call is an operand OF THE STEP: the state
   model of the wrapped prediction (F_k, Q_k), the measurement model (its size m_k, H_k, R_k)
   and its reading y_k, the scale factor of the likelihood model, the transition model of the
   correction (Ft_k, Qt_k), the draws.  A step_in is built from the operands of that step only
   (here for the linear-Gaussian family with Kalman steps as wrapped steps); GPFPrediction,
   GPFCorrection, GaussianLikelihood and the wrapped steps keep NO derived quantity from one
   call to the next, so the model has nowhere to keep one either. *)
Record tv_ops (n : nat) := mkTvOps {
  tv_m : nat;
  tv_F : M O n n; tv_Q : M O n n;
  tv_H : M O tv_m n; tv_R : M O tv_m tv_m; tv_y : M O tv_m 1;
  tv_scale : T S;
  tv_Ft : M O n n; tv_Qt : M O n n;
  tv_zs : list (M O n 1)
}.
Arguments tv_m {n}. Arguments tv_F {n}. Arguments tv_Q {n}. Arguments tv_H {n}. Arguments tv_R {n}.
Arguments tv_y {n}. Arguments tv_scale {n}. Arguments tv_Ft {n}. Arguments tv_Qt {n}. Arguments tv_zs {n}.

Definition tv_step_in {n} (p : tv_ops n) : step_in n :=
  mkStepIn (kf_pred_gstep (tv_F p) (tv_Q p))
           (kf_corr_gstep true (tv_H p) (tv_R p) (tv_y p))
           (gauss_lik (tv_scale p) true (tv_H p) (tv_R p) (tv_y p))
           (lin_trans (tv_Ft p) (tv_Qt p))
           (tv_zs p).

Definition tv_run {n} (st : fstate n) (ps : list (tv_ops n)) : fstate n :=
  gpf_run st (map tv_step_in ps).

End GPF.

Arguments mkParticle {_ n}. Arguments pstate {_ n}. Arguments pmean {_ n}. Arguments pcov {_ n}. Arguments plw {_ n}.
Arguments mkCorr {_ n}. Arguments cr_particles {_ n}. Arguments cr_valid {_ n}. Arguments cr_lik {_ n}.
Arguments pbelief {_ n}. Arguments gm_of {_ n}. Arguments belief_at {_ n}.
Arguments gpf_predict {_ n}. Arguments pf_predict {_ n}.
Arguments sample_from_proposal {_ n}. Arguments evaluate_proposal {_ n}.
Arguments gpf_beliefs {_ n}. Arguments gpf_drawn {_ n}. Arguments gpf_correct {_ n}.
Arguments gauss_lik {_ n m}. Arguments gauss_lik_h {_ n m}. Arguments ldlt_sqrt {_ n}. Arguments pf_step {_ n}. Arguments pf_trace {_ n}.
Arguments ukf_corr_gstep {_ n m}. Arguments sukf_corr_gstep {_ n m}. Arguments copy_gstep {_ n}. Arguments scripted_lik {_ n}. Arguments lin_trans {_ n}. Arguments cauchy_trans {_ n}.
Arguments kf_corr_gstep {_ n m}. Arguments kf_pred_comp {_ n}. Arguments kf_pred_gstep {_ n}.
Arguments mkStepIn {_ n}. Arguments si_gp {_ n}. Arguments si_gc {_ n}. Arguments si_lik {_ n}.
Arguments si_trans {_ n}. Arguments si_zs {_ n}.
Arguments mkFstate {_ n}. Arguments fs_pred {_ n}. Arguments fs_corr {_ n}. Arguments fs_valid {_ n}. Arguments fs_lik {_ n}.
Arguments gpf_step {_ n}. Arguments gpf_run {_ n}. Arguments gpf_trace {_ n}.
Arguments mkTvOps {_ n}. Arguments tv_m {_ n}. Arguments tv_F {_ n}. Arguments tv_Q {_ n}. Arguments tv_H {_ n}. Arguments tv_R {_ n}.
Arguments tv_y {_ n}. Arguments tv_scale {_ n}. Arguments tv_Ft {_ n}. Arguments tv_Qt {_ n}. Arguments tv_zs {_ n}.
Arguments tv_step_in {_ n}. Arguments tv_run {_ n}.
