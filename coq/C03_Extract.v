(* C03_Extract.v — executable entry points of the C03 model at the list
   instance, for the correspondence check.  ExtrOcamlBasic only.  The two
   matrix oracles (square-root factor, dominant eigenvector) are arguments:
   the driver supplies them and checks their contracts at run time. *)
Require Import ZArith List.
Require Import BFL.Ops BFL.ListOps BFL.C03_Model.
Require Import Extraction ExtrOcamlBasic.
Import ListNotations.

Definition c03_O (S : SOps) (sq eg : nat -> lmx S -> lmx S) : MatOps := ListMat S sq eg.

Definition c03_dims (L : layout) : nat * nat * nat := (l_dim L, l_dcov L, l_dx L).

(* UTWeight(dof, alpha, beta, kappa) *)
Definition c03_weights (S : SOps) (n : nat) (alpha beta kappa : T S)
  : list (T S) * list (T S) * T S :=
  let O := c03_O S (fun _ A => A) (fun _ A => A) in
  let w := @ut_weights O n alpha beta kappa in (w_mean w, w_cov w, w_c w).

(* the input mixture, after the given sequence of augmentWithNoise calls *)
Fixpoint c03_input (S : SOps) (sq eg : nat -> lmx S -> lmx S) (L : layout) (augs : list (nat * lmx S))
           (comps : list (lmx S * lmx S)) : layout * list (lmx S * lmx S) :=
  let O := c03_O S sq eg in
  match augs with
  | [] => (L, comps)
  | (q, Q) :: rest =>
      c03_input S sq eg (l_add_noise L q) rest (map (@augment_comp O (l_dim L) (l_dcov L) q Q) comps)
  end.

(* non-zero means written on the noise rows after the augmentation (one q x 1 column per
   component; the empty list leaves the zeros of augmentWithNoise) *)
Definition c03_noise_means (S : SOps) (sq eg : nat -> lmx S -> lmx S) (L' : layout) (q : nat)
           (nms : list (lmx S)) (cs : list (lmx S * lmx S)) : list (lmx S * lmx S) :=
  let O := c03_O S sq eg in
  match nms with
  | [] => cs
  | _ => map (fun p => @set_noise_rows O (l_dim L') (l_dcov L') q (fst p) (snd p)) (combine nms cs)
  end.

(* sigma_point(state, c) *)
Definition c03_sigma (S : SOps) (sq eg : nat -> lmx S -> lmx S) (L : layout) (aug : list (nat * lmx S))
           (nms : list (lmx S)) (c : T S) (comps : list (lmx S * lmx S)) : list (lmx S) :=
  let O := c03_O S sq eg in
  let '(L', cs0) := c03_input S sq eg L aug comps in
  let cs := c03_noise_means S sq eg L' (l_noise L') nms cs0 in
  @sigma_points O L' (l_dim L') (l_dcov L') c cs.

(* unscented_transform: overload 0 FunctionEvaluation, 1 StateModel, 2 AdditiveStateModel,
   3 MeasurementModel, 4 AdditiveMeasurementModel; f = Some (A, b): x -> A x + b on every
   column (with quad = Some (G, g): x -> A x + b + g o (G x) o (G x)), None: the evaluation
   fails; N the additive noise covariance (overloads 2, 4) *)
Definition c03_ut (S : SOps) (sq eg : nat -> lmx S -> lmx S) (L Lout : layout) (aug : list (nat * lmx S))
           (nms : list (lmx S))
           (wn : nat) (alpha beta kappa : T S) (comps : list (lmx S * lmx S))
           (f : option (lmx S * lmx S)) (quad : option (lmx S * lmx S)) (overload : nat) (N : lmx S)
  : option (list (lmx S * lmx S * lmx S) * list (T S)) :=
  let O := c03_O S sq eg in
  let '(L', cs0) := c03_input S sq eg L aug comps in
  let cs := c03_noise_means S sq eg L' (l_noise L') nms cs0 in
  let d := l_dim L' in let dc := l_dcov L' in let dx := l_dx L' in
  let p := l_dim Lout in let pc := l_dcov Lout in
  let w := @ut_weights O wn alpha beta kappa in
  let ev (A b : lmx S) (X : list (M O d 1)) : list (M O p 1) :=
    match quad with
    | Some (G, g) => @quadratic_cols O d p A G b g X
    | None => @affine_cols O d p A b X
    end in
  let fo : list (M O d 1) -> option (list (M O p 1)) :=
    fun X => match f with Some (A, b) => Some (ev A b X) | None => None end in
  let ft : list (M O d 1) -> list (M O p 1) :=
    fun X => match f with Some (A, b) => ev A b X | None => [] end in
  let r : option (ut_result O p pc dx) :=
    match overload with
    | 0 => @ut_generic O L' Lout d dc p pc dx w cs fo
    | 1 => Some (@ut_state O L' Lout d dc p pc dx w cs ft)
    | 2 => Some (@ut_additive_state O L' Lout d dc p pc dx w cs ft N)
    | 3 => @ut_meas O L' Lout d dc p pc dx w cs fo
    | _ => @ut_additive_meas O L' Lout d dc p pc dx w cs fo N
    end in
  match r with
  | None => None
  | Some r => Some (map (fun u => (uc_mean u, uc_cov u, uc_cross u)) (ur_comps r), ur_weights r)
  end.

Extraction "C03_model.ml" c03_dims c03_weights c03_sigma c03_ut.
