(* Properties_C11.v — property C11: belief containers keep their declared shape
   consistent with their storage.  Statements only; each is closed by a lemma
   of C11_Proofs.  All hold for every scalar record S, every value `junk` of an
   uninitialised cell, every layout and every operation sequence of any length.

   DEFINEDNESS.  The model functions are total; the C++ is not.  Histories are
   therefore quantified through gm_run / gauss_run / ps_run, which execute an
   operation only if gop_defined / gaussop_defined / pop_defined holds:
   augmentWithNoise with a square matrix needs components >= 1 (the loop bound
   `components - 1` is unsigned: GaussianMixture g(0,2); g.augmentWithNoise(I)
   asserts / segfaults); `+=` and `+` need a DISTINCT right operand of equal dim
   and dim_covariance (otherwise an Eigen assertion, undefined with NDEBUG);
   the aliased calls p += p (PConcatSelf) and g.augmentWithNoise(g.covariance())
   (G/N/PAugmentSelf: the argument refers to storage that is reallocated before
   it is read) are defined only when nothing is reallocated.  Such operations are
   outside the property: the check reports a failure of the library only where the
   model says DEFINED; where the model says undefined it stops comparing that
   sequence and only counts whether the library failed or accepted. *)
Require Import ZArith QArith List Bool Arith.
Require Import BFL.Ops BFL.ListOps BFL.C11_Model BFL.C11_Proofs BFL.C11_Access.
Import ListNotations.
Local Open Scope nat_scope.

Section C11.
Variable S : SOps.
Variable junk : T S.

(* constructors (all overloads delegate to the 4-argument one) *)
Theorem C11_ctor_consistent c l ci q :
  Consistent S (gm_ctor S c l ci q) /\ Gaussian_ok S (gauss_ctor S l ci q) /\ Consistent_ps S (ps_ctor S c l ci q).
Proof. exact (conj (gm_ctor_consistent S c l ci q) (conj (conj (gm_ctor_consistent S 1 l ci q) eq_refl) (ps_ctor_consistent S c l ci q))). Qed.

(* new mixtures start with uniform weights 1/components *)
Theorem C11_ctor_uniform_weights c l ci q i : i < c ->
  gm_weight S (gm_ctor S c l ci q) i = sdiv S (s1 S) (sofnat S c).
Proof. exact (gm_ctor_uniform S c l ci q i). Qed.

(* every operation that is defined preserves the invariant (the premise marks where the
   transcription is faithful; the proof does not need it) ... *)
Theorem C11_inv o g : Consistent S g -> gop_defined S o g = true -> Consistent S (gm_apply S junk o g).
Proof. exact (fun H _ => gm_apply_consistent S junk o g H). Qed.

(* ... hence it holds after every operation sequence along which the C++ is defined *)
Theorem C11_reachable ops c l ci q g' :
  gm_run S junk ops (gm_ctor S c l ci q) = Some g' -> Consistent S g'.
Proof. exact (gm_run_consistent S junk ops _ g' (gm_ctor_consistent S c l ci q)). Qed.

(* a Gaussian stays a consistent mixture; it stays a ONE-component object as long as it is not
   resized to another component count through a GaussianMixture& (NResizeBase c, c <> 1) *)
Theorem C11_gauss_reachable ops l ci q g' :
  gauss_run S junk ops (gauss_ctor S l ci q) = Some g' ->
  Consistent S g' /\ (forallb (gaussop_single S) ops = true -> Gaussian_ok S g').
Proof.
  exact (fun R => conj (gauss_run_consistent S junk ops _ g' (gm_ctor_consistent S 1 l ci q) R)
                       (fun Hs => gauss_run_ok S junk ops _ g' (conj (gm_ctor_consistent S 1 l ci q) eq_refl) Hs R)).
Qed.

(* particle sets: including the state storage, including noise augmentation and concatenation *)
Theorem C11_pset_inv o p : Consistent_ps S p -> pop_defined S junk o p = true -> Consistent_ps S (ps_apply S junk o p).
Proof. exact (fun H _ => ps_apply_consistent S junk o p H). Qed.

Theorem C11_pset_reachable ops c l ci q p' :
  ps_run S junk ops (ps_ctor S c l ci q) = Some p' -> Consistent_ps S p'.
Proof. exact (ps_run_consistent S junk ops _ p' (ps_ctor_consistent S c l ci q)). Qed.

(* POOLS OF OBJECTS.  Several objects live side by side (gm_pool0: built by constructor calls of any
   layouts); a sequence mixes the single-object operations on any of them (KOn) with the special member
   functions: copy construction / copy assignment from another object or from itself (KCopy), move
   construction / move assignment (KMove; the moved-from source is not available afterwards until it is
   the target of a construction or assignment) and construction / assignment from a temporary (KTemp):
   X(...), f(x) for a function returning a modified copy by value, a + b.  Every object of the pool,
   whatever it was before and whatever it was assigned from, satisfies the invariant ... *)
Theorem C11_pool_reachable ks ls p' : gm_krun S junk ks (gm_pool0 S ls) = Some p' ->
  length p' = length ls /\ forall i g b, nth_error p' i = Some (g, b) -> Consistent S g.
Proof.
  exact (fun R => let H := gm_krun_consistent S junk ks _ p' (pool0_all _ _ ls (gm_fresh_consistent S)) R in
                  conj (eq_trans (proj2 H) (map_length _ ls)) (proj1 H)).
Qed.

Theorem C11_gauss_pool_reachable ks ls p' : gauss_krun S junk ks (gauss_pool0 S ls) = Some p' ->
  length p' = length ls /\ (forall i g b, nth_error p' i = Some (g, b) -> Consistent S g)
  /\ (forallb (kop_all (gaussop_single S)) ks = true -> forall i g b, nth_error p' i = Some (g, b) -> Gaussian_ok S g).
Proof.
  exact (fun R => let H := gauss_krun_consistent S junk ks _ p' (pool0_all _ _ ls (fun f => proj1 (gauss_fresh_ok S f))) R in
                  conj (eq_trans (proj2 H) (map_length _ ls))
                       (conj (proj1 H) (fun Hs => proj1 (gauss_krun_ok S junk ks _ p' (pool0_all _ _ ls (gauss_fresh_ok S)) Hs R)))).
Qed.

Theorem C11_pset_pool_reachable ks ls p' : ps_krun S junk ks (ps_pool0 S ls) = Some p' ->
  length p' = length ls /\ forall i x b, nth_error p' i = Some (x, b) -> Consistent_ps S x.
Proof.
  exact (fun R => let H := ps_krun_consistent S junk ks _ p' (pool0_all _ _ ls (ps_fresh_consistent S)) R in
                  conj (eq_trans (proj2 H) (map_length _ ls)) (proj1 H)).
Qed.

(* ... and a copy IS the source: after `X n(s)` / `t = s` (also t = s itself: self-assignment) the target
   reports exactly the source's descriptors and data, and no other object (in particular the source)
   changes.  Stated for mixtures (Gaussians are mixtures: gauss_kstep has the same clauses) and particle sets. *)
Theorem C11_copy_exact t s :
  (forall p p' g, slot_get p s = Some g -> gm_kstep S junk (KCopy t s) p = Some p' ->
     slot_get p' t = Some g /\ (forall i, i <> t -> nth_error p' i = nth_error p i))
  /\ (forall p p' g, slot_get p s = Some g -> gauss_kstep S junk (KCopy t s) p = Some p' ->
     slot_get p' t = Some g /\ (forall i, i <> t -> nth_error p' i = nth_error p i))
  /\ (forall p p' x, slot_get p s = Some x -> ps_kstep S junk (KCopy t s) p = Some p' ->
     slot_get p' t = Some x /\ (forall i, i <> t -> nth_error p' i = nth_error p i)).
Proof.
  exact (conj (fun p p' g => kstep_copy_exact _ _ _ _ _ _ _ _ _ (gm_copy_id S) t s p p' g)
        (conj (fun p p' g => kstep_copy_exact _ _ _ _ _ _ _ _ _ (gm_copy_id S) t s p p' g)
              (fun p p' x => kstep_copy_exact _ _ _ _ _ _ _ _ _ (ps_copy_id S) t s p p' x))).
Qed.

(* move construction / move assignment (`X n(std::move(s))`, `t = std::move(s)`): the target is the
   source's value; the source is moved-from (no longer available: valid but unspecified in C++, so
   nothing is claimed about it and the check does not look at it); third objects do not change *)
Theorem C11_move_exact t s :
  (forall p p' g, slot_get p s = Some g -> gm_kstep S junk (KMove t s) p = Some p' ->
     slot_get p' t = Some g /\ (t <> s -> slot_get p' s = None)
     /\ (forall i, i <> t -> i <> s -> nth_error p' i = nth_error p i))
  /\ (forall p p' g, slot_get p s = Some g -> gauss_kstep S junk (KMove t s) p = Some p' ->
     slot_get p' t = Some g /\ (t <> s -> slot_get p' s = None)
     /\ (forall i, i <> t -> i <> s -> nth_error p' i = nth_error p i))
  /\ (forall p p' x, slot_get p s = Some x -> ps_kstep S junk (KMove t s) p = Some p' ->
     slot_get p' t = Some x /\ (t <> s -> slot_get p' s = None)
     /\ (forall i, i <> t -> i <> s -> nth_error p' i = nth_error p i)).
Proof.
  exact (conj (fun p p' g => kstep_move_exact _ _ _ _ _ _ _ _ _ (gm_copy_id S) t s p p' g)
        (conj (fun p p' g => kstep_move_exact _ _ _ _ _ _ _ _ _ (gm_copy_id S) t s p p' g)
              (fun p p' x => kstep_move_exact _ _ _ _ _ _ _ _ _ (ps_copy_id S) t s p p' x))).
Qed.

(* construction / assignment from a temporary: the target is the value of the expression, whatever the
   target was before; nothing else changes *)
Theorem C11_temporary_exact t :
  (forall e p p', gm_kstep S junk (KTemp t e) p = Some p' ->
     (exists g, gm_eval S junk p e = Some g /\ slot_get p' t = Some g) /\ (forall i, i <> t -> nth_error p' i = nth_error p i))
  /\ (forall e p p', gauss_kstep S junk (KTemp t e) p = Some p' ->
     (exists g, gauss_eval S junk p e = Some g /\ slot_get p' t = Some g) /\ (forall i, i <> t -> nth_error p' i = nth_error p i))
  /\ (forall e p p', ps_kstep S junk (KTemp t e) p = Some p' ->
     (exists x, ps_eval S junk p e = Some x /\ slot_get p' t = Some x) /\ (forall i, i <> t -> nth_error p' i = nth_error p i)).
Proof.
  exact (conj (fun e p p' => kstep_temp_exact _ _ _ _ _ _ _ _ _ t e p p')
        (conj (fun e p p' => kstep_temp_exact _ _ _ _ _ _ _ _ _ t e p p')
              (fun e p p' => kstep_temp_exact _ _ _ _ _ _ _ _ _ t e p p'))).
Qed.

(* in particular `t = f(s)` for a function returning a resized / augmented / ... copy of the named object s
   by value (s = t: assignment between an object and a modified copy of itself) gives exactly the
   object the operation gives on s (so C11_augment_content, C11_resize_components_preserves, ... describe it),
   and `t = a + b` gives the concatenation of a and b (C11_concat_content) *)
Theorem C11_assign_function_result t s :
  (forall o p p' g, slot_get p s = Some g -> gm_kstep S junk (KTemp t (EOp o (ESlot s))) p = Some p' ->
     gop_defined S o g = true /\ slot_get p' t = Some (gm_apply S junk o g)
     /\ (forall i, i <> t -> nth_error p' i = nth_error p i))
  /\ (forall o p p' g, slot_get p s = Some g -> gauss_kstep S junk (KTemp t (EOp o (ESlot s))) p = Some p' ->
     gaussop_defined S o g = true /\ slot_get p' t = Some (gauss_apply S junk o g)
     /\ (forall i, i <> t -> nth_error p' i = nth_error p i))
  /\ (forall o p p' x, slot_get p s = Some x -> ps_kstep S junk (KTemp t (EOp o (ESlot s))) p = Some p' ->
     pop_defined S junk o x = true /\ slot_get p' t = Some (ps_apply S junk o x)
     /\ (forall i, i <> t -> nth_error p' i = nth_error p i)).
Proof.
  exact (conj (fun o p p' g => kstep_temp_op_slot _ _ _ _ _ _ _ _ _ (gm_copy_id S) t s o p p' g)
        (conj (fun o p p' g => kstep_temp_op_slot _ _ _ _ _ _ _ _ _ (gm_copy_id S) t s o p p' g)
              (fun o p p' x => kstep_temp_op_slot _ _ _ _ _ _ _ _ _ (ps_copy_id S) t s o p p' x))).
Qed.

Theorem C11_assign_sum t a b p p' x y : slot_get p a = Some x -> slot_get p b = Some y ->
  ps_kstep S junk (KTemp t (EBin (ESlot a) (ESlot b))) p = Some p' ->
  ps_concat_defined S junk y x = true /\ slot_get p' t = Some (ps_concat S junk y x)
  /\ (forall i, i <> t -> nth_error p' i = nth_error p i).
Proof.
  rewrite <- (ps_plus_is_concat S junk x y).
  exact (kstep_temp_bin_slots _ _ _ _ _ _ _ _ _ (ps_copy_id S) t a b p p' x y).
Qed.

(* a pool of one object on which only single-object operations run is the history of C11_reachable *)
Theorem C11_pool_single_history ops c l ci q :
  gm_krun S junk (map (KOn 0) ops) (gm_pool0 S [(c, l, ci, q)]) =
  match gm_run S junk ops (gm_ctor S c l ci q) with Some g => Some [(g, true)] | None => None end.
Proof. exact (krun_single _ _ _ _ _ _ _ _ _ ops (gm_ctor S c l ci q)). Qed.

(* copy construction / assignment (and "move": no move constructor exists) reproduce every field.
   DEFINITIONAL: gm_copy is the member-wise copy, so this is the eta-rule of the record; the
   content of the clause is on the correspondence side (the harness copies real objects). *)
Theorem C11_copy_is_identity g p : gm_copy S g = g /\ ps_copy S p = p.
Proof. exact (conj (gm_copy_id S g) (ps_copy_id S p)). Qed.

(* the invariant is the executable check the driver prints after every step *)
Theorem C11_invariant_executable g p :
  (gm_consistentb S g = true <-> Consistent S g) /\ (ps_consistentb S p = true <-> Consistent_ps S p).
Proof. exact (conj (gm_consistentb_iff S g) (ps_consistentb_iff S p)). Qed.

(* accessors of a consistent container are in range (that part is the theorem: no Eigen assertion,
   correct shapes) and address exactly component i's block (those cell equations are DEFINITIONAL:
   the accessors are transcribed as mean_.col(i), covariance_.middleCols(dcov*i, dcov), ... and
   close by unfolding; what ties them to the code is the harness, which calls every overload) *)
Theorem C11_accessors g i : Consistent S g -> i < components S g ->
  (i < mcols S (mean_ S g) /\ dcov S g * i + dcov S g <= mcols S (cov_ S g) /\ i < mrows S (weight_ S g))
  /\ shape S (gm_mean S g i) (dim S g) 1 /\ shape S (gm_cov S g i) (dcov S g) (dcov S g)
  /\ (forall r, r < dim S g ->
        get S (gm_mean S g i) r 0 = get S (mean_ S g) r i /\ gm_mean_el S g i r = get S (mean_ S g) r i)
  /\ (forall r k, r < dcov S g -> k < dcov S g ->
        get S (gm_cov S g i) r k = get S (cov_ S g) r (dcov S g * i + k)
        /\ gm_cov_el S g i r k = get S (cov_ S g) r (dcov S g * i + k))
  /\ gm_weight S g i = get S (weight_ S g) i 0.
Proof. exact (gm_accessors S g i). Qed.

Theorem C11_pset_accessors p i : Consistent_ps S p -> i < components S (base S p) ->
  i < mcols S (state_ S p) /\ shape S (ps_state S p i) (dim S (base S p)) 1
  /\ (forall r, r < dim S (base S p) ->
        get S (ps_state S p i) r 0 = get S (state_ S p) r i /\ ps_state_el S p i r = get S (state_ S p) r i).
Proof. exact (ps_accessors S p i). Qed.

(* Gaussian::mean() / mean(i) / weight() are component 0 by definition; Gaussian::covariance()
   returns the WHOLE storage, which is component 0's block only because components = 1 *)
Theorem C11_gauss_accessors g : Gaussian_ok S g ->
  gauss_mean S g = gm_mean S g 0 /\ gauss_weight S g = gm_weight S g 0
  /\ (forall i, gauss_mean_el S g i = gm_mean_el S g 0 i)
  /\ (forall i j, gauss_cov_el S g i j = gm_cov_el S g 0 i j)
  /\ gauss_cov S g = gm_cov S g 0.
Proof. exact (gauss_accessors S g). Qed.

(* the blocks of distinct components are disjoint and cover the covariance storage *)
Theorem C11_storage_is_concatenation_of_blocks g c : Consistent S g -> c < mcols S (cov_ S g) ->
  exists i k, i < components S g /\ k < dcov S g /\ c = dcov S g * i + k
              /\ (forall i' k', k' < dcov S g -> c = dcov S g * i' + k' -> i' = i /\ k' = k).
Proof. exact (cov_column_owner S g c). Qed.

(* the list-of-components view used by the algorithm-level models of C01-C08 *)
Theorem C11_components_view g i d : i < components S g ->
  length (gm_comps S g) = components S g
  /\ nth i (gm_comps S g) d = (gm_mean S g i, gm_cov S g i, gm_weight S g i).
Proof. exact (fun H => conj (gm_comps_length S g) (gm_comps_nth S g i d H)). Qed.

(* ... and of a particle set: (particle state, mean, covariance, weight) of every component *)
Theorem C11_pset_components_view p i d : i < components S (base S p) ->
  length (ps_comps S p) = components S (base S p)
  /\ nth i (ps_comps S p) d = (ps_state S p i, gm_mean S (base S p) i, gm_cov S (base S p) i, gm_weight S (base S p) i).
Proof. exact (fun H => conj (ps_comps_length S p) (ps_comps_nth S p i d H)). Qed.

(* the view determines the storage: the backing matrices are exactly the concatenation, component after
   component, of what the per-component accessors return (no cell outside every component's block) *)
Theorem C11_view_determines_storage g p : Consistent S g -> Consistent_ps S p ->
  mdata S (mean_ S g) = concat (map (fun i => mdata S (gm_mean S g i)) (seq 0 (components S g)))
  /\ mdata S (cov_ S g) = concat (map (fun i => mdata S (gm_cov S g i)) (seq 0 (components S g)))
  /\ mdata S (weight_ S g) = [map (fun i => gm_weight S g i) (seq 0 (components S g))]
  /\ mdata S (state_ S p) = concat (map (fun i => mdata S (ps_state S p i)) (seq 0 (components S (base S p)))).
Proof.
  exact (fun Hg Hp => conj (mean_is_concatenation S g Hg) (conj (cov_is_concatenation S g Hg)
                      (conj (weight_is_the_list S g Hg) (state_is_concatenation S p Hp)))).
Qed.

(* THE NON-CONST OVERLOADS return references to the same cells as the const ones: what is written through
   mean(i, j) / covariance(i, j, k) / weight(i) / state(i, j) is what every overload reads back for that cell,
   every other cell of every accessor and every descriptor is unchanged, the invariant is kept *)
Theorem C11_write_mean_el g i j x : Consistent S g -> i < components S g -> j < dim S g ->
  let g' := gm_set_mean_el S g i j x in
  Consistent S g' /\ same_layout S g g' /\ cov_ S g' = cov_ S g /\ weight_ S g' = weight_ S g
  /\ gm_mean_el S g' i j = x /\ get S (gm_mean S g' i) j 0 = x
  /\ (forall i' j', i' < components S g -> j' < dim S g -> (i' <> i \/ j' <> j) ->
        gm_mean_el S g' i' j' = gm_mean_el S g i' j')
  /\ (forall i', i' < components S g -> i' <> i -> gm_mean S g' i' = gm_mean S g i').
Proof. exact (gm_set_mean_el_spec S g i j x). Qed.

Theorem C11_write_cov_el g i j k x : Consistent S g -> i < components S g -> j < dcov S g -> k < dcov S g ->
  let g' := gm_set_cov_el S g i j k x in
  Consistent S g' /\ same_layout S g g' /\ mean_ S g' = mean_ S g /\ weight_ S g' = weight_ S g
  /\ gm_cov_el S g' i j k = x /\ get S (gm_cov S g' i) j k = x
  /\ (forall i' j' k', i' < components S g -> j' < dcov S g -> k' < dcov S g -> (i' <> i \/ j' <> j \/ k' <> k) ->
        gm_cov_el S g' i' j' k' = gm_cov_el S g i' j' k')
  /\ (forall i', i' < components S g -> i' <> i -> gm_cov S g' i' = gm_cov S g i').
Proof. exact (gm_set_cov_el_spec S g i j k x). Qed.

Theorem C11_write_weight g i x : Consistent S g -> i < components S g ->
  let g' := gm_set_weight S g i x in
  Consistent S g' /\ same_layout S g g' /\ mean_ S g' = mean_ S g /\ cov_ S g' = cov_ S g
  /\ gm_weight S g' i = x
  /\ (forall i', i' < components S g -> i' <> i -> gm_weight S g' i' = gm_weight S g i').
Proof. exact (gm_set_weight_spec S g i x). Qed.

Theorem C11_write_state_el p i j x : Consistent_ps S p -> i < components S (base S p) -> j < dim S (base S p) ->
  let p' := ps_set_state_el S p i j x in
  Consistent_ps S p' /\ base S p' = base S p
  /\ ps_state_el S p' i j = x /\ get S (ps_state S p' i) j 0 = x
  /\ (forall i' j', i' < components S (base S p) -> j' < dim S (base S p) -> (i' <> i \/ j' <> j) ->
        ps_state_el S p' i' j' = ps_state_el S p i' j')
  /\ (forall i', i' < components S (base S p) -> i' <> i -> ps_state S p' i' = ps_state S p i').
Proof. exact (ps_set_state_el_spec S p i j x). Qed.

(* ... and block-wise: mean(i) = v, covariance(i) = m, state(i) = v *)
Theorem C11_write_blocks g p i v m : Consistent S g -> Consistent_ps S p ->
  (i < components S g -> shape S v (dim S g) 1 ->
     let g' := gm_set_mean S g i v in
     Consistent S g' /\ same_layout S g g' /\ cov_ S g' = cov_ S g /\ weight_ S g' = weight_ S g /\ gm_mean S g' i = v
     /\ (forall i', i' < components S g -> i' <> i -> gm_mean S g' i' = gm_mean S g i'))
  /\ (i < components S g -> shape S m (dcov S g) (dcov S g) ->
     let g' := gm_set_cov S g i m in
     Consistent S g' /\ same_layout S g g' /\ mean_ S g' = mean_ S g /\ weight_ S g' = weight_ S g /\ gm_cov S g' i = m
     /\ (forall i', i' < components S g -> i' <> i -> gm_cov S g' i' = gm_cov S g i'))
  /\ (i < components S (base S p) -> shape S v (dim S (base S p)) 1 ->
     let p' := ps_set_state S p i v in
     Consistent_ps S p' /\ base S p' = base S p /\ ps_state S p' i = v
     /\ (forall i', i' < components S (base S p) -> i' <> i -> ps_state S p' i' = ps_state S p i')).
Proof.
  exact (fun Hg Hp => conj (gm_set_mean_spec S g i v Hg) (conj (gm_set_cov_spec S g i m Hg) (ps_set_state_spec S p i v Hp))).
Qed.

(* filling a container cell by cell through the element accessors of every component (GFillEl), or component
   by component through the block accessors (GFillBlk), gives the object that filling the backing matrices
   through the whole-matrix accessors gives (GFill): the three families of accessors address the same storage *)
Theorem C11_fill_through_accessors b g p : Consistent S g -> Consistent_ps S p ->
  gm_fill_el S b g = gm_fill S b g /\ gm_fill_blk S b g = gm_fill S b g
  /\ ps_fill_el S b p = ps_fill S b p /\ ps_fill_blk S b p = ps_fill S b p.
Proof.
  exact (fun Hg Hp => conj (gm_fill_el_is_fill S b g Hg) (conj (gm_fill_blk_is_fill S b g Hg)
                      (conj (ps_fill_el_is_fill S b p Hp) (ps_fill_blk_is_fill S b p Hp)))).
Qed.

(* changing only the number of components preserves the surviving components; the cells of new
   components are unspecified (junk: Eigen's conservativeResize does not initialise them).
   "Only the number of components" means: same linear and circular sizes AND no noise part
   (dn = 0).  resize(c, dl, dc) of an AUGMENTED mixture describes the noise-free layout: it also
   shrinks dim and dim_covariance, takes the full-resize branch and does not preserve anything
   (C11_resize_components_preserves_with_noise_refuted) - outside this clause of the property. *)
Theorem C11_resize_components_preserves c g : Consistent S g -> dn S g = 0 ->
  let g' := gm_resize S junk c (dl S g) (dc S g) g in
  components S g' = c /\ dim S g' = dim S g /\ dcov S g' = dcov S g /\ dl S g' = dl S g /\ dc S g' = dc S g
  /\ dn S g' = 0 /\ use_quat S g' = use_quat S g /\ dcc S g' = dcc S g
  /\ (forall i, i < c -> i < components S g ->
        gm_mean S g' i = gm_mean S g i /\ gm_cov S g' i = gm_cov S g i /\ gm_weight S g' i = gm_weight S g i)
  /\ (forall i r, components S g <= i -> i < c -> r < dim S g -> get S (mean_ S g') r i = junk).
Proof. exact (gm_resize_only_components S junk c g). Qed.

Theorem C11_pset_resize_components_preserves c p : Consistent_ps S p -> dn S (base S p) = 0 ->
  let p' := ps_resize S junk c (dl S (base S p)) (dc S (base S p)) p in
  base S p' = gm_resize S junk c (dl S (base S p)) (dc S (base S p)) (base S p)
  /\ (forall i, i < c -> i < components S (base S p) -> ps_state S p' i = ps_state S p i).
Proof. exact (ps_resize_only_components S junk c p). Qed.

(* noise augmentation: [m_i; 0] and blockdiag(P_i, Q) for every component, weights kept *)
Theorem C11_augment_content q g : Consistent S g -> 1 <= components S g -> mrows S q = mcols S q ->
  let g' := snd (gm_augment S q g) in
  fst (gm_augment S q g) = true
  /\ components S g' = components S g /\ dl S g' = dl S g /\ dc S g' = dc S g
  /\ use_quat S g' = use_quat S g /\ dcc S g' = dcc S g
  /\ dn S g' = dn S g + mrows S q /\ dim S g' = dim S g + mrows S q /\ dcov S g' = dcov S g + mrows S q
  /\ forall i, i < components S g ->
       gm_mean S g' i = vcat S (gm_mean S g i) (e_zero S (mrows S q) 1)
       /\ gm_cov S g' i = blockdiag S (gm_cov S g i) q
       /\ gm_weight S g' i = gm_weight S g i.
Proof. exact (gm_augment_content S q g). Qed.

(* a non-square noise covariance is refused and nothing changes *)
Theorem C11_augment_nonsquare q g : mrows S q <> mcols S q -> gm_augment S q g = (false, g).
Proof. exact (gm_augment_nonsquare S q g). Qed.

(* also when applied to an already augmented mixture *)
Theorem C11_augment_twice_content q1 q2 g :
  Consistent S g -> 1 <= components S g -> mrows S q1 = mcols S q1 -> mrows S q2 = mcols S q2 ->
  let g2 := snd (gm_augment S q2 (snd (gm_augment S q1 g))) in
  dn S g2 = dn S g + mrows S q1 + mrows S q2
  /\ forall i, i < components S g ->
       gm_mean S g2 i = vcat S (vcat S (gm_mean S g i) (e_zero S (mrows S q1) 1)) (e_zero S (mrows S q2) 1)
       /\ gm_cov S g2 i = blockdiag S (blockdiag S (gm_cov S g i) q1) q2.
Proof. exact (gm_augment_twice_content S q1 q2 g). Qed.

(* ANY number of augmentations (the history GAugment q1; ...; GAugment qk), and the parts the algorithms address
   through the descriptors: state part = the first dim - dim_noise rows / the top-left block of that size, noise
   part = mean(i).tail(dim_noise) / covariance(i).bottomRightCorner(dim_noise, dim_noise).  The state parts
   never change; every augmentation appends zero rows to the noise mean and Q, block-diagonally, to the noise
   covariance *)
Theorem C11_augment_repeated_content qs g : Consistent S g -> 1 <= components S g -> all_square S qs ->
  let g' := gm_augment_all S qs g in
  let R := list_sum (map (mrows S) qs) in
  gm_run S junk (map (GAugment S) qs) g = Some g'
  /\ Consistent S g' /\ components S g' = components S g /\ dl S g' = dl S g /\ dc S g' = dc S g
  /\ use_quat S g' = use_quat S g /\ dcc S g' = dcc S g
  /\ dn S g' = dn S g + R /\ dim S g' = dim S g + R /\ dcov S g' = dcov S g + R
  /\ forall i, i < components S g ->
       gm_mean S g' i = fold_left (add_zero_rows S) qs (gm_mean S g i)
       /\ gm_cov S g' i = fold_left (blockdiag S) qs (gm_cov S g i)
       /\ gm_weight S g' i = gm_weight S g i
       /\ gm_state_mean S g' i = gm_state_mean S g i
       /\ gm_noise_mean S g' i = fold_left (add_zero_rows S) qs (gm_noise_mean S g i)
       /\ gm_state_cov S g' i = gm_state_cov S g i
       /\ gm_noise_cov S g' i = fold_left (blockdiag S) qs (gm_noise_cov S g i).
Proof. exact (fun HC Hc Hq => conj (gm_augment_all_is_run S junk qs g Hc) (gm_augment_all_content S qs g HC Hc Hq)). Qed.

(* in particular the noise part of every mean of a mixture that started without noise is zero *)
Theorem C11_noise_mean_zero qs g i : Consistent S g -> 1 <= components S g -> all_square S qs -> dn S g = 0 ->
  i < components S g ->
  forall r, r < dn S (gm_augment_all S qs g) -> get S (gm_noise_mean S (gm_augment_all S qs g) i) r 0 = s0 S.
Proof. exact (gm_noise_mean_zero S qs g i). Qed.

(* the particles' own state and noise parts *)
Theorem C11_pset_augment_parts q p : Consistent_ps S p -> 1 <= components S (base S p) -> mrows S q = mcols S q ->
  let p' := snd (ps_augment S q p) in
  forall i, i < components S (base S p) ->
    ps_state_part S p' i = ps_state_part S p i
    /\ ps_noise_part S p' i = vcat S (ps_noise_part S p i) (e_zero S (mrows S q) 1).
Proof. exact (ps_augment_parts S q p). Qed.

(* a particle set: the Gaussian part as above, particle states become [x_i; 0] *)
Theorem C11_pset_augment_content q p : Consistent_ps S p -> 1 <= components S (base S p) -> mrows S q = mcols S q ->
  let p' := snd (ps_augment S q p) in
  fst (ps_augment S q p) = true /\ base S p' = snd (gm_augment S q (base S p))
  /\ forall i, i < components S (base S p) -> ps_state S p' i = vcat S (ps_state S p i) (e_zero S (mrows S q) 1).
Proof. exact (ps_augment_content S q p). Qed.

(* concatenation: the components of both operands in order, layout descriptors of the left operand *)
Theorem C11_concat_content rhs p : Consistent_ps S p -> concat_ok S rhs p ->
  let p' := ps_concat S junk rhs p in
  let g := base S p in let r := base S rhs in let g' := base S p' in
  components S g' = components S g + components S r
  /\ dim S g' = dim S g /\ dcov S g' = dcov S g /\ dl S g' = dl S g /\ dc S g' = dc S g /\ dn S g' = dn S g
  /\ use_quat S g' = use_quat S g /\ dcc S g' = dcc S g
  /\ (forall i, i < components S g ->
        gm_mean S g' i = gm_mean S g i /\ gm_cov S g' i = gm_cov S g i
        /\ gm_weight S g' i = gm_weight S g i /\ ps_state S p' i = ps_state S p i)
  /\ (forall i, i < components S r ->
        gm_mean S g' (components S g + i) = gm_mean S r i /\ gm_cov S g' (components S g + i) = gm_cov S r i
        /\ gm_weight S g' (components S g + i) = gm_weight S r i
        /\ ps_state S p' (components S g + i) = ps_state S rhs i).
Proof. exact (ps_concat_content S junk rhs p). Qed.

Theorem C11_plus_is_concat lhs rhs : ps_plus S junk lhs rhs = ps_concat S junk rhs lhs.
Proof. exact (ps_plus_is_concat S junk lhs rhs). Qed.

(* for a right operand that is a DISTINCT object (the model passes it by value), the premise of
   C11_concat_content is exactly "no Eigen assertion in operator+=" ... *)
Theorem C11_concat_defined_iff rhs p : Consistent_ps S p -> Consistent_ps S rhs -> 1 <= components S (base S rhs) ->
  (ps_concat_defined S junk rhs p = true <-> concat_ok S rhs p).
Proof. exact (fun Hp Hr Hn => conj (ps_concat_defined_needs S junk rhs p Hp Hr Hn) (ps_concat_defined_ok S junk rhs p Hp)). Qed.

(* ... whereas the aliased call p += p (the operand is enlarged by the first conservativeResize
   before it is read) is defined only for an empty set *)
Theorem C11_concat_self_defined_iff p : Consistent_ps S p ->
  (ps_concat_self_defined S junk p = true <-> components S (base S p) = 0).
Proof. exact (ps_concat_self_defined_iff S junk p). Qed.

End C11.

(* what is NOT true of the code (witnesses over Z, replayed on the library by the corpus cases) *)
Theorem C11_resize_components_preserves_with_noise_refuted :
  exists (g : gm ZOps) (c i r : nat),
    Consistent ZOps g /\ dn ZOps g = 1 /\ i < c /\ i < components ZOps g /\ r < dl ZOps g + dc ZOps g * dcc ZOps g
    /\ gm_mean_el ZOps (gm_resize ZOps 0%Z c (dl ZOps g) (dc ZOps g) g) i r <> gm_mean_el ZOps g i r.
Proof. exact gm_resize_with_noise_refuted. Qed.

Theorem C11_gauss_base_resize_refuted :
  exists (g : gm ZOps) (c l ci : nat),
    Gaussian_ok ZOps g /\ Consistent ZOps (gauss_apply ZOps 0%Z (NResizeBase ZOps c l ci) g)
    /\ ~ Gaussian_ok ZOps (gauss_apply ZOps 0%Z (NResizeBase ZOps c l ci) g)
    /\ gauss_cov ZOps (gauss_apply ZOps 0%Z (NResizeBase ZOps c l ci) g)
        <> gm_cov ZOps (gauss_apply ZOps 0%Z (NResizeBase ZOps c l ci) g) 0.
Proof. exact gauss_base_resize_refuted. Qed.

(* non-vacuity: a concrete run over exact rationals.  A 3-component mixture (1 linear, 1 circular
   Euler state) filled with 1..21, augmented with Q = (9), then again with a 2x2 Q, then only its
   number of components changed (noise counted as linear): the invariant holds at each step and component 1 is
   [m;0;0;0], blockdiag(blockdiag(P1, 9), Q2). *)
Definition QJ : Q := (-1 # 1)%Q.
Example C11_concrete_Q :
  let g0 := gm_fill QOps 1%Z (gm_ctor QOps 3 1 1 false) in
  let q1 := mk QOps 1 1 (fun _ _ => 9%Q) in
  let q2 := mk QOps 2 2 (fun i j => inject_Z (20 + Z.of_nat (2 * j + i))) in
  let g1 := snd (gm_augment QOps q1 g0) in
  let g2 := snd (gm_augment QOps q2 g1) in
  let g3 := gm_resize QOps QJ 2 (dl QOps g2 + dn QOps g2) (dc QOps g2) g2 in
  gm_consistentb QOps g0 && gm_consistentb QOps g1 && gm_consistentb QOps g2 && gm_consistentb QOps g3
  && (dim QOps g2 =? 5) && (dn QOps g2 =? 3) && (dn QOps g3 =? 0) && (dim QOps g3 =? 5)
  && qmx_eqb (mdata QOps (gm_mean QOps g2 1)) [[3; 4; 0; 0; 0]]%Q
  && qmx_eqb (mdata QOps (gm_cov QOps g2 1))
             [[11; 12; 0; 0; 0]; [13; 14; 0; 0; 0]; [0; 0; 9; 0; 0]; [0; 0; 0; 20; 21]; [0; 0; 0; 22; 23]]%Q
  && qmx_eqb (mdata QOps (gm_cov QOps g3 1)) (mdata QOps (gm_cov QOps g2 1))
  = true.
Proof. vm_compute. reflexivity. Qed.

(* ... and a particle set: (2; 2 linear) filled, augmented, then `+=` an equal-sized set *)
Example C11_concrete_pset_Q :
  let p0 := ps_fill QOps 1%Z (ps_ctor QOps 2 2 0 false) in
  let p1 := snd (ps_augment QOps (mk QOps 1 1 (fun _ _ => 9%Q)) p0) in
  let r := ps_fill QOps 100%Z (ps_ctor QOps 1 3 0 false) in
  let p2 := ps_concat QOps QJ r p1 in
  ps_consistentb QOps p1 && ps_consistentb QOps p2 && ps_concat_defined QOps QJ r p1
  && (components QOps (base QOps p2) =? 3)
  && qmx_eqb (mdata QOps (state_ QOps p2)) [[15; 16; 0]; [17; 18; 0]; [113; 114; 115]]%Q
  = true.
Proof. vm_compute. reflexivity. Qed.

(* ... and guarded runs: a defined history ends in Some consistent object; the histories on which the
   C++ is undefined are rejected: square augmentation of a 0-component mixture, x += x, += of a set of
   another size, augmentation of a single Gaussian with its own covariance() *)
Example C11_runs_Q :
  let q1 := mk QOps 1 1 (fun _ _ => 9%Q) in
  let r3 := ps_fill QOps 100%Z (ps_ctor QOps 1 3 0 false) in
  (match gm_run QOps QJ [GFill QOps 1%Z; GAugment QOps q1; GAugmentSelf QOps; GResize QOps 2 2 1]
                (gm_ctor QOps 3 1 1 false) with Some g => gm_consistentb QOps g && (components QOps g =? 2) | None => false end)
  && (match gm_run QOps QJ [GAugment QOps q1] (gm_ctor QOps 0 2 0 false) with None => true | Some _ => false end)
  && (match gm_run QOps QJ [GFill QOps 1%Z; GAugmentSelf QOps] (gm_ctor QOps 1 2 0 false) with None => true | Some _ => false end)
  && (match ps_run QOps QJ [PFill QOps 1%Z; PConcatSelf QOps] (ps_ctor QOps 2 2 0 false) with None => true | Some _ => false end)
  && (match ps_run QOps QJ [PConcat QOps r3] (ps_ctor QOps 2 2 0 false) with None => true | Some _ => false end)
  && (match ps_run QOps QJ [PConcatSelf QOps; PAugment QOps q1] (ps_ctor QOps 0 2 0 false) with None => true | Some _ => false end)
  && (match ps_run QOps QJ [PAugment QOps q1; PConcat QOps r3; PPlus QOps r3] (ps_ctor QOps 2 2 0 false)
      with Some p => ps_consistentb QOps p && (components QOps (base QOps p) =? 4) | None => false end)
  = true.
Proof. vm_compute. reflexivity. Qed.

(* ... and pools: a mixture filled and augmented, copied into a slot of another layout, moved on into a third
   one (the source is then unavailable: looking at it is outside the premises), a slot re-initialised from a
   temporary of a quaternion layout, an object assigned an augmented copy of ITSELF, a self-assignment; and
   r = a + b for two augmented particle sets a, b and an unrelated r (descriptors and data of the sum) *)
Example C11_pool_runs_Q :
  let q1 := mk QOps 1 1 (fun _ _ => 9%Q) in
  let gl := [(2, 1, 1, false); (1, 3, 0, false); (4, 0, 2, true)] in
  (match gm_krun QOps QJ [KOn 0 (GFill QOps 1%Z); KOn 0 (GAugment QOps q1); KCopy 1 0; KMove 2 1;
                          KTemp 1 (EFresh (3, 2, 1, true)); KTemp 0 (EOp (GAugment QOps q1) (ESlot 0)); KCopy 2 2]
                 (gm_pool0 QOps gl) with
   | Some p => forallb (fun s => gm_consistentb QOps (fst s)) p
               && (match slot_get p 0 with Some g => (dn QOps g =? 2) && (dim QOps g =? 4) | None => false end)
               && (match slot_get p 1 with Some g => (dn QOps g =? 0) && (components QOps g =? 3) && (dcov QOps g =? 5) | None => false end)
               && (match slot_get p 2 with
                   | Some g => (dn QOps g =? 1) && (components QOps g =? 2) && qmx_eqb (mdata QOps (gm_mean QOps g 1)) [[3; 4; 0]]%Q
                   | None => false end)
   | None => false end)
  && (match gm_krun QOps QJ [KMove 1 0; KLook 0] (gm_pool0 QOps gl) with None => true | Some _ => false end)
  && (match gm_krun QOps QJ [KMove 1 0; KCopy 0 1; KLook 0] (gm_pool0 QOps gl) with Some _ => true | None => false end)
  && (match ps_krun QOps QJ [KOn 0 (PFill QOps 1%Z); KOn 1 (PFill QOps 100%Z); KOn 0 (PAugment QOps q1); KOn 1 (PAugment QOps q1);
                             KTemp 2 (EBin (ESlot 0) (ESlot 1))]
                 (ps_pool0 QOps [(2, 2, 0, false); (1, 2, 0, false); (1, 1, 0, false)]) with
      | Some p => forallb (fun s => ps_consistentb QOps (fst s)) p
                  && (match slot_get p 2 with
                      | Some x => (components QOps (base QOps x) =? 3) && (dn QOps (base QOps x) =? 1) && (dim QOps (base QOps x) =? 3)
                                  && qmx_eqb (mdata QOps (state_ QOps x)) [[15; 16; 0]; [17; 18; 0]; [107; 108; 0]]%Q
                      | None => false end)
      | None => false end)
  = true.
Proof. vm_compute. reflexivity. Qed.

Print Assumptions C11_ctor_consistent.
Print Assumptions C11_ctor_uniform_weights.
Print Assumptions C11_inv.
Print Assumptions C11_reachable.
Print Assumptions C11_gauss_reachable.
Print Assumptions C11_pset_inv.
Print Assumptions C11_pset_reachable.
Print Assumptions C11_pool_reachable.
Print Assumptions C11_gauss_pool_reachable.
Print Assumptions C11_pset_pool_reachable.
Print Assumptions C11_copy_exact.
Print Assumptions C11_move_exact.
Print Assumptions C11_temporary_exact.
Print Assumptions C11_assign_function_result.
Print Assumptions C11_assign_sum.
Print Assumptions C11_pool_single_history.
Print Assumptions C11_copy_is_identity.
Print Assumptions C11_invariant_executable.
Print Assumptions C11_accessors.
Print Assumptions C11_pset_accessors.
Print Assumptions C11_gauss_accessors.
Print Assumptions C11_storage_is_concatenation_of_blocks.
Print Assumptions C11_components_view.
Print Assumptions C11_pset_components_view.
Print Assumptions C11_view_determines_storage.
Print Assumptions C11_write_mean_el.
Print Assumptions C11_write_cov_el.
Print Assumptions C11_write_weight.
Print Assumptions C11_write_state_el.
Print Assumptions C11_write_blocks.
Print Assumptions C11_fill_through_accessors.
Print Assumptions C11_resize_components_preserves.
Print Assumptions C11_pset_resize_components_preserves.
Print Assumptions C11_augment_content.
Print Assumptions C11_augment_nonsquare.
Print Assumptions C11_augment_twice_content.
Print Assumptions C11_augment_repeated_content.
Print Assumptions C11_noise_mean_zero.
Print Assumptions C11_pset_augment_parts.
Print Assumptions C11_pset_augment_content.
Print Assumptions C11_concat_content.
Print Assumptions C11_plus_is_concat.
Print Assumptions C11_concat_defined_iff.
Print Assumptions C11_concat_self_defined_iff.
Print Assumptions C11_resize_components_preserves_with_noise_refuted.
Print Assumptions C11_gauss_base_resize_refuted.
