(* C10_Regress_PreFix.v — FROZEN snapshot (not regenerated): the access table that props/C10_translate.py
   produced for /repo at e410e18^ (49d7ed0), i.e. before the skip flags were repaired by e410e18
   (bool skip_ -> bfl::SkipFlag).  Regression spec: on that table the checker reports exactly the six
   skip_ flags.  Not part of any property theorem. *)
Require Import List String.
Import ListNotations.
Require Import BFL.C10_Model BFL.C10_Proofs.
Local Open Scope string_scope.

Definition prefix_table : table := [
  mkEntry "(construction)" Ctl PreFork [
      mkAcc (Named "BootstrapCorrection::likelihood_") Wr (Plain) "construction";
      mkAcc (Named "BootstrapCorrection::likelihood_model_") Wr (Plain) "construction";
      mkAcc (Named "BootstrapCorrection::measurement_model_") Wr (Plain) "construction";
      mkAcc (Named "BootstrapCorrection::valid_likelihood_") Wr (Plain) "construction";
      mkAcc (Named "DrawParticles::state_model_") Wr (Plain) "construction";
      mkAcc (Named "ExogenousModel::skip_") Wr (Plain) "construction";
      mkAcc (Named "FilteringAlgorithm::cv_run_") Wr (Plain) "construction";
      mkAcc (Named "FilteringAlgorithm::filtering_step_") Wr (Plain) "construction";
      mkAcc (Named "FilteringAlgorithm::filtering_thread_") Wr (Plain) "construction";
      mkAcc (Named "FilteringAlgorithm::mtx_run_") Wr (Plain) "construction";
      mkAcc (Named "FilteringAlgorithm::reset_") Wr (Plain) "construction";
      mkAcc (Named "FilteringAlgorithm::run_") Wr (Plain) "construction";
      mkAcc (Named "FilteringAlgorithm::teardown_") Wr (Plain) "construction";
      mkAcc (Named "GPFCorrection::gaussian_correction_") Wr (Plain) "construction";
      mkAcc (Named "GPFCorrection::gaussian_random_sample_") Wr (Plain) "construction";
      mkAcc (Named "GPFCorrection::likelihood_") Wr (Plain) "construction";
      mkAcc (Named "GPFCorrection::likelihood_model_") Wr (Plain) "construction";
      mkAcc (Named "GPFCorrection::state_model_") Wr (Plain) "construction";
      mkAcc (Named "GPFCorrection::valid_likelihood_") Wr (Plain) "construction";
      mkAcc (Named "GPFPrediction::gaussian_prediction_") Wr (Plain) "construction";
      mkAcc (Named "GaussianCorrection::skip_") Wr (Plain) "construction";
      mkAcc (Named "GaussianFilter::correction_") Wr (Plain) "construction";
      mkAcc (Named "GaussianFilter::prediction_") Wr (Plain) "construction";
      mkAcc (Named "GaussianPrediction::skip_") Wr (Plain) "construction";
      mkAcc (Named "KFCorrection::innovations_") Wr (Plain) "construction";
      mkAcc (Named "KFCorrection::meas_covariances_") Wr (Plain) "construction";
      mkAcc (Named "KFCorrection::measurement_model_") Wr (Plain) "construction";
      mkAcc (Named "KFPrediction::state_model_") Wr (Plain) "construction";
      mkAcc (Named "LTIStateModel::F_") Wr (Plain) "construction";
      mkAcc (Named "LTIStateModel::Q_") Wr (Plain) "construction";
      mkAcc (Named "PFCorrection::skip_") Wr (Plain) "construction";
      mkAcc (Named "PFPrediction::skip_") Wr (Plain) "construction";
      mkAcc (Named "ParticleFilter::correction_") Wr (Plain) "construction";
      mkAcc (Named "ParticleFilter::initialization_") Wr (Plain) "construction";
      mkAcc (Named "ParticleFilter::prediction_") Wr (Plain) "construction";
      mkAcc (Named "ParticleFilter::resampling_") Wr (Plain) "construction";
      mkAcc (Named "SIS::cor_particle_") Wr (Plain) "construction";
      mkAcc (Named "SIS::num_particle_") Wr (Plain) "construction";
      mkAcc (Named "SIS::pred_particle_") Wr (Plain) "construction";
      mkAcc (Named "SUKFCorrection::innovations_") Wr (Plain) "construction";
      mkAcc (Named "SUKFCorrection::measurement_model_") Wr (Plain) "construction";
      mkAcc (Named "SUKFCorrection::measurement_sub_size_") Wr (Plain) "construction";
      mkAcc (Named "SUKFCorrection::propagated_sigma_points_") Wr (Plain) "construction";
      mkAcc (Named "SUKFCorrection::use_reduced_noise_covariance_matrix_") Wr (Plain) "construction";
      mkAcc (Named "SUKFCorrection::ut_weight_") Wr (Plain) "construction";
      mkAcc (Named "StateModel::exogenous_model_") Wr (Plain) "construction";
      mkAcc (Named "StateModel::skip_") Wr (Plain) "construction";
      mkAcc (Named "UKFCorrection::additive_measurement_model_") Wr (Plain) "construction";
      mkAcc (Named "UKFCorrection::innovations_") Wr (Plain) "construction";
      mkAcc (Named "UKFCorrection::measurement_model_") Wr (Plain) "construction";
      mkAcc (Named "UKFCorrection::predicted_meas_") Wr (Plain) "construction";
      mkAcc (Named "UKFCorrection::type_") Wr (Plain) "construction";
      mkAcc (Named "UKFCorrection::update_weights_online_") Wr (Plain) "construction";
      mkAcc (Named "UKFCorrection::ut_alpha_") Wr (Plain) "construction";
      mkAcc (Named "UKFCorrection::ut_beta_") Wr (Plain) "construction";
      mkAcc (Named "UKFCorrection::ut_kappa_") Wr (Plain) "construction";
      mkAcc (Named "UKFCorrection::ut_weight_") Wr (Plain) "construction";
      mkAcc (Named "UKFPrediction::add_state_model_") Wr (Plain) "construction";
      mkAcc (Named "UKFPrediction::state_model_") Wr (Plain) "construction";
      mkAcc (Named "UKFPrediction::type_") Wr (Plain) "construction";
      mkAcc (Named "UKFPrediction::ut_weight_") Wr (Plain) "construction";
      mkAcc (Named "WhiteNoiseAcceleration::pimpl_") Wr (Plain) "construction"];
  mkEntry "DrawParticles::getStateModel" Ctl Concurrent [
      mkAcc (Named "DrawParticles::state_model_") Rd (Plain) "DrawParticles.cpp:48"];
  mkEntry "ExogenousModel::is_skipping" Ctl Concurrent [
      mkAcc (Named "ExogenousModel::skip_") Rd (Plain) "ExogenousModel.cpp:27"];
  mkEntry "ExogenousModel::skip" Ctl Concurrent [
      mkAcc (Named "ExogenousModel::skip_") Wr (Plain) "ExogenousModel.cpp:17"];
  mkEntry "FilteringAlgorithm::boot" Ctl Concurrent [
      mkAcc (Named "FilteringAlgorithm::filtering_thread_") Wr (Plain) "FilteringAlgorithm.cpp:37";
      mkAcc (Named "global::cerr") Wr (Atomic) "FilteringAlgorithm.cpp:41";
      mkAcc (Named "global::cerr") Wr (Atomic) "FilteringAlgorithm.cpp:42";
      mkAcc (Named "global::cerr") Wr (Atomic) "FilteringAlgorithm.cpp:43"];
  mkEntry "FilteringAlgorithm::is_running" Ctl Concurrent [
      mkAcc (Named "FilteringAlgorithm::run_") Rd (Atomic) "FilteringAlgorithm.cpp:118"];
  mkEntry "FilteringAlgorithm::reboot" Ctl Concurrent [
      mkAcc (Named "FilteringAlgorithm::mtx_run_") Wr (Atomic) "FilteringAlgorithm.cpp:93";
      mkAcc (Named "FilteringAlgorithm::reset_") Wr (Atomic) "FilteringAlgorithm.cpp:94";
      mkAcc (Named "FilteringAlgorithm::run_") Wr (Atomic) "FilteringAlgorithm.cpp:95";
      mkAcc (Named "FilteringAlgorithm::cv_run_") Wr (Atomic) "FilteringAlgorithm.cpp:96"];
  mkEntry "FilteringAlgorithm::reset" Ctl Concurrent [
      mkAcc (Named "FilteringAlgorithm::reset_") Wr (Atomic) "FilteringAlgorithm.cpp:87"];
  mkEntry "FilteringAlgorithm::run" Ctl Concurrent [
      mkAcc (Named "FilteringAlgorithm::mtx_run_") Wr (Atomic) "FilteringAlgorithm.cpp:53";
      mkAcc (Named "FilteringAlgorithm::run_") Wr (Atomic) "FilteringAlgorithm.cpp:54";
      mkAcc (Named "FilteringAlgorithm::cv_run_") Wr (Atomic) "FilteringAlgorithm.cpp:55"];
  mkEntry "FilteringAlgorithm::step_number" Ctl Concurrent [
      mkAcc (Named "FilteringAlgorithm::filtering_step_") Rd (Atomic) "FilteringAlgorithm.cpp:112"];
  mkEntry "FilteringAlgorithm::teardown" Ctl Concurrent [
      mkAcc (Named "FilteringAlgorithm::mtx_run_") Wr (Atomic) "FilteringAlgorithm.cpp:102";
      mkAcc (Named "FilteringAlgorithm::teardown_") Wr (Atomic) "FilteringAlgorithm.cpp:103";
      mkAcc (Named "FilteringAlgorithm::cv_run_") Wr (Atomic) "FilteringAlgorithm.cpp:104"];
  mkEntry "FilteringAlgorithm::wait" Ctl Concurrent [
      mkAcc (Named "FilteringAlgorithm::filtering_thread_") Rd (Plain) "FilteringAlgorithm.cpp:61";
      mkAcc (Named "FilteringAlgorithm::filtering_thread_") Wr (Plain) "FilteringAlgorithm.cpp:65";
      mkAcc (Named "global::cerr") Wr (Atomic) "FilteringAlgorithm.cpp:69";
      mkAcc (Named "global::cerr") Wr (Atomic) "FilteringAlgorithm.cpp:70";
      mkAcc (Named "global::cerr") Wr (Atomic) "FilteringAlgorithm.cpp:71";
      mkAcc (Named "global::cout") Wr (Atomic) "FilteringAlgorithm.cpp:77";
      mkAcc (Named "global::cout") Wr (Atomic) "FilteringAlgorithm.cpp:78"];
  mkEntry "GPFPrediction::getStateModel" Ctl Concurrent [
      mkAcc (Named "GPFPrediction::gaussian_prediction_") Rd (Plain) "GPFPrediction.cpp:42"];
  mkEntry "GaussianCorrection::skip" Ctl Concurrent [
      mkAcc (Named "GaussianCorrection::skip_") Wr (Plain) "GaussianCorrection.cpp:28"];
  mkEntry "GaussianFilter::skip" Ctl Concurrent [
      mkAcc (Named "GaussianFilter::prediction_") Rd (Plain) "GaussianFilter.cpp:24";
      mkAcc (Named "GaussianFilter::correction_") Rd (Plain) "GaussianFilter.cpp:27";
      mkAcc (Named "GaussianFilter::prediction_") Rd (Plain) "GaussianFilter.cpp:33";
      mkAcc (Named "GaussianFilter::correction_") Rd (Plain) "GaussianFilter.cpp:35"];
  mkEntry "GaussianPrediction::skip" Ctl Concurrent [
      mkAcc (Named "GaussianPrediction::skip_") Wr (Plain) "GaussianPrediction.cpp:31";
      mkAcc (Named "GaussianPrediction::skip_") Wr (Plain) "GaussianPrediction.cpp:42";
      mkAcc (Named "GaussianPrediction::skip_") Wr (Plain) "GaussianPrediction.cpp:51"];
  mkEntry "KFPrediction::getStateModel" Ctl Concurrent [
      mkAcc (Named "KFPrediction::state_model_") Rd (Plain) "KFPrediction.cpp:40"];
  mkEntry "PFCorrection::skip" Ctl Concurrent [
      mkAcc (Named "PFCorrection::skip_") Wr (Plain) "PFCorrection.cpp:26"];
  mkEntry "PFPrediction::skip" Ctl Concurrent [
      mkAcc (Named "PFPrediction::skip_") Wr (Plain) "PFPrediction.cpp:30";
      mkAcc (Named "PFPrediction::skip_") Wr (Plain) "PFPrediction.cpp:41";
      mkAcc (Named "PFPrediction::skip_") Wr (Plain) "PFPrediction.cpp:50"];
  mkEntry "ParticleFilter::skip" Ctl Concurrent [
      mkAcc (Named "ParticleFilter::prediction_") Rd (Plain) "ParticleFilter.cpp:33";
      mkAcc (Named "ParticleFilter::correction_") Rd (Plain) "ParticleFilter.cpp:36";
      mkAcc (Named "ParticleFilter::prediction_") Rd (Plain) "ParticleFilter.cpp:42";
      mkAcc (Named "ParticleFilter::correction_") Rd (Plain) "ParticleFilter.cpp:44"];
  mkEntry "StateModel::exogenous_model" Ctl Concurrent [
      mkAcc (Named "StateModel::exogenous_model_") Rd (Plain) "StateModel.cpp:57";
      mkAcc (Named "StateModel::exogenous_model_") Rd (Plain) "StateModel.cpp:58"];
  mkEntry "StateModel::have_exogenous_model" Ctl Concurrent [
      mkAcc (Named "StateModel::exogenous_model_") Rd (Plain) "StateModel.cpp:48"];
  mkEntry "StateModel::is_skipping" Ctl Concurrent [
      mkAcc (Named "StateModel::skip_") Rd (Plain) "StateModel.cpp:34"];
  mkEntry "StateModel::skip" Ctl Concurrent [
      mkAcc (Named "StateModel::skip_") Wr (Plain) "StateModel.cpp:17"];
  mkEntry "UKFPrediction::getStateModel" Ctl Concurrent [
      mkAcc (Named "UKFPrediction::type_") Rd (Plain) "UKFPrediction.cpp:71";
      mkAcc (Named "UKFPrediction::add_state_model_") Rd (Plain) "UKFPrediction.cpp:72";
      mkAcc (Named "UKFPrediction::state_model_") Rd (Plain) "UKFPrediction.cpp:74"];
  mkEntry "AdditiveStateModel::motion" Flt Concurrent [
      ];
  mkEntry "BootstrapCorrection::correctStep" Flt Concurrent [
      mkAcc (Named "BootstrapCorrection::valid_likelihood_") Wr (Plain) "BootstrapCorrection.cpp:52";
      mkAcc (Named "BootstrapCorrection::likelihood_") Wr (Plain) "BootstrapCorrection.cpp:52";
      mkAcc (Named "BootstrapCorrection::valid_likelihood_") Rd (Plain) "BootstrapCorrection.cpp:56";
      mkAcc (Named "BootstrapCorrection::likelihood_") Wr (Plain) "BootstrapCorrection.cpp:57"];
  mkEntry "BootstrapCorrection::getLikelihoodModel" Flt Concurrent [
      mkAcc (Named "BootstrapCorrection::likelihood_model_") Rd (Plain) "BootstrapCorrection.cpp:46"];
  mkEntry "BootstrapCorrection::getMeasurementModel" Flt Concurrent [
      mkAcc (Named "BootstrapCorrection::measurement_model_") Rd (Plain) "BootstrapCorrection.cpp:40"];
  mkEntry "DrawParticles::getStateModel" Flt Concurrent [
      mkAcc (Named "DrawParticles::state_model_") Rd (Plain) "DrawParticles.cpp:48"];
  mkEntry "DrawParticles::predictStep" Flt Concurrent [
      ];
  mkEntry "ExogenousModel::is_skipping" Flt Concurrent [
      mkAcc (Named "ExogenousModel::skip_") Rd (Plain) "ExogenousModel.cpp:27"];
  mkEntry "FilteringAlgorithm::filtering_recursion" Flt Concurrent [
      mkAcc (Named "global::bfl_verif_hook") Rd (Plain) "FilteringAlgorithm.cpp:126";
      mkAcc (Named "FilteringAlgorithm::reset_") Wr (Atomic) "FilteringAlgorithm.cpp:127";
      mkAcc (Named "FilteringAlgorithm::filtering_step_") Wr (Atomic) "FilteringAlgorithm.cpp:128";
      mkAcc (Named "FilteringAlgorithm::mtx_run_") Wr (Atomic) "FilteringAlgorithm.cpp:130";
      mkAcc (Named "global::bfl_verif_hook") Rd (Mutex "FilteringAlgorithm::mtx_run_") "FilteringAlgorithm.cpp:131";
      mkAcc (Named "FilteringAlgorithm::cv_run_") Wr (Atomic) "FilteringAlgorithm.cpp:132";
      mkAcc (Named "FilteringAlgorithm::run_") Rd (Atomic) "FilteringAlgorithm.cpp:132";
      mkAcc (Named "FilteringAlgorithm::teardown_") Rd (Atomic) "FilteringAlgorithm.cpp:132";
      mkAcc (Named "global::cerr") Wr (Atomic) "FilteringAlgorithm.cpp:139";
      mkAcc (Named "global::cerr") Wr (Atomic) "FilteringAlgorithm.cpp:140";
      mkAcc (Named "global::cerr") Wr (Atomic) "FilteringAlgorithm.cpp:141";
      mkAcc (Named "FilteringAlgorithm::teardown_") Wr (Atomic) "FilteringAlgorithm.cpp:142";
      mkAcc (Named "global::bfl_verif_hook") Rd (Plain) "FilteringAlgorithm.cpp:145";
      mkAcc (Named "FilteringAlgorithm::teardown_") Rd (Atomic) "FilteringAlgorithm.cpp:148";
      mkAcc (Named "FilteringAlgorithm::reset_") Rd (Atomic) "FilteringAlgorithm.cpp:148";
      mkAcc (Named "FilteringAlgorithm::filtering_step_") Wr (Atomic) "FilteringAlgorithm.cpp:152";
      mkAcc (Named "global::bfl_verif_hook") Rd (Plain) "FilteringAlgorithm.cpp:154";
      mkAcc (Named "FilteringAlgorithm::run_") Rd (Atomic) "FilteringAlgorithm.cpp:156";
      mkAcc (Named "FilteringAlgorithm::reset_") Rd (Atomic) "FilteringAlgorithm.cpp:156";
      mkAcc (Named "FilteringAlgorithm::teardown_") Rd (Atomic) "FilteringAlgorithm.cpp:156";
      mkAcc (Named "global::bfl_verif_hook") Rd (Plain) "FilteringAlgorithm.cpp:158";
      mkAcc (Named "FilteringAlgorithm::run_") Wr (Atomic) "FilteringAlgorithm.cpp:159";
      mkAcc (Named "global::bfl_verif_hook") Rd (Plain) "FilteringAlgorithm.cpp:160"];
  mkEntry "FilteringAlgorithm::step_number" Flt Concurrent [
      mkAcc (Named "FilteringAlgorithm::filtering_step_") Rd (Atomic) "FilteringAlgorithm.cpp:112"];
  mkEntry "GPFCorrection::correctStep" Flt Concurrent [
      mkAcc (Named "GPFCorrection::gaussian_correction_") Rd (Plain) "GPFCorrection.cpp:101";
      mkAcc (Named "GPFCorrection::valid_likelihood_") Wr (Plain) "GPFCorrection.cpp:110";
      mkAcc (Named "GPFCorrection::likelihood_") Wr (Plain) "GPFCorrection.cpp:110";
      mkAcc (Named "GPFCorrection::valid_likelihood_") Rd (Plain) "GPFCorrection.cpp:112";
      mkAcc (Named "GPFCorrection::state_model_") Rd (Plain) "GPFCorrection.cpp:120";
      mkAcc (Named "GPFCorrection::likelihood_") Wr (Plain) "GPFCorrection.cpp:128"];
  mkEntry "GPFCorrection::evaluateProposal" Flt Concurrent [
      ];
  mkEntry "GPFCorrection::getLikelihoodModel" Flt Concurrent [
      mkAcc (Named "GPFCorrection::likelihood_model_") Rd (Plain) "GPFCorrection.cpp:88"];
  mkEntry "GPFCorrection::getMeasurementModel" Flt Concurrent [
      mkAcc (Named "GPFCorrection::gaussian_correction_") Rd (Plain) "GPFCorrection.cpp:82"];
  mkEntry "GPFCorrection::sampleFromProposal" Flt Concurrent [
      mkAcc (Named "GPFCorrection::gaussian_random_sample_") Rd (Plain) "GPFCorrection.cpp:145"];
  mkEntry "GPFPrediction::predictStep" Flt Concurrent [
      mkAcc (Named "GPFPrediction::gaussian_prediction_") Rd (Plain) "GPFPrediction.cpp:49"];
  mkEntry "GaussianCorrection::correct" Flt Concurrent [
      mkAcc (Named "GaussianCorrection::skip_") Rd (Plain) "GaussianCorrection.cpp:19"];
  mkEntry "GaussianCorrection::freeze_measurements" Flt Concurrent [
      ];
  mkEntry "GaussianFilter::correction" Flt Concurrent [
      mkAcc (Named "GaussianFilter::correction_") Rd (Plain) "GaussianFilter.cpp:52"];
  mkEntry "GaussianFilter::prediction" Flt Concurrent [
      mkAcc (Named "GaussianFilter::prediction_") Rd (Plain) "GaussianFilter.cpp:46"];
  mkEntry "GaussianPrediction::predict" Flt Concurrent [
      mkAcc (Named "GaussianPrediction::skip_") Rd (Plain) "GaussianPrediction.cpp:20"];
  mkEntry "KFCorrection::correctStep" Flt Concurrent [
      mkAcc (Named "KFCorrection::innovations_") Wr (Plain) "KFCorrection.cpp:49";
      mkAcc (Named "KFCorrection::measurement_model_") Rd (Plain) "KFCorrection.cpp:54";
      mkAcc (Named "KFCorrection::measurement_model_") Rd (Plain) "KFCorrection.cpp:65";
      mkAcc (Named "KFCorrection::measurement_model_") Rd (Plain) "KFCorrection.cpp:76";
      mkAcc (Named "KFCorrection::measurement_model_") Rd (Plain) "KFCorrection.cpp:86";
      mkAcc (Named "KFCorrection::measurement_model_") Rd (Plain) "KFCorrection.cpp:94";
      mkAcc (Named "KFCorrection::innovations_") Wr (Plain) "KFCorrection.cpp:97";
      mkAcc (Named "KFCorrection::meas_covariances_") Wr (Plain) "KFCorrection.cpp:101";
      mkAcc (Named "KFCorrection::meas_covariances_") Wr (Plain) "KFCorrection.cpp:108";
      mkAcc (Named "KFCorrection::meas_covariances_") Wr (Plain) "KFCorrection.cpp:112";
      mkAcc (Named "KFCorrection::innovations_") Wr (Plain) "KFCorrection.cpp:116";
      mkAcc (Named "KFCorrection::meas_covariances_") Wr (Plain) "KFCorrection.cpp:120"];
  mkEntry "KFCorrection::getMeasurementModel" Flt Concurrent [
      mkAcc (Named "KFCorrection::measurement_model_") Rd (Plain) "KFCorrection.cpp:27"];
  mkEntry "KFPrediction::getStateModel" Flt Concurrent [
      mkAcc (Named "KFPrediction::state_model_") Rd (Plain) "KFPrediction.cpp:40"];
  mkEntry "KFPrediction::predictStep" Flt Concurrent [
      mkAcc (Named "KFPrediction::state_model_") Rd (Plain) "KFPrediction.cpp:59";
      mkAcc (Named "KFPrediction::state_model_") Rd (Plain) "KFPrediction.cpp:62"];
  mkEntry "LTIStateModel::getNoiseCovarianceMatrix" Flt Concurrent [
      mkAcc (Named "LTIStateModel::Q_") Rd (Plain) "LTIStateModel.cpp:58"];
  mkEntry "LTIStateModel::getStateTransitionMatrix" Flt Concurrent [
      mkAcc (Named "LTIStateModel::F_") Rd (Plain) "LTIStateModel.cpp:64"];
  mkEntry "LinearStateModel::propagate" Flt Concurrent [
      ];
  mkEntry "PFCorrection::correct" Flt Concurrent [
      mkAcc (Named "PFCorrection::skip_") Rd (Plain) "PFCorrection.cpp:17"];
  mkEntry "PFCorrection::freeze_measurements" Flt Concurrent [
      ];
  mkEntry "PFPrediction::predict" Flt Concurrent [
      mkAcc (Named "PFPrediction::skip_") Rd (Plain) "PFPrediction.cpp:19"];
  mkEntry "ParticleFilter::correction" Flt Concurrent [
      mkAcc (Named "ParticleFilter::correction_") Rd (Plain) "ParticleFilter.cpp:67"];
  mkEntry "ParticleFilter::initialization" Flt Concurrent [
      mkAcc (Named "ParticleFilter::initialization_") Rd (Plain) "ParticleFilter.cpp:55"];
  mkEntry "ParticleFilter::prediction" Flt Concurrent [
      mkAcc (Named "ParticleFilter::prediction_") Rd (Plain) "ParticleFilter.cpp:61"];
  mkEntry "ParticleFilter::resampling" Flt Concurrent [
      mkAcc (Named "ParticleFilter::resampling_") Rd (Plain) "ParticleFilter.cpp:73"];
  mkEntry "SIS::filtering_step" Flt Concurrent [
      mkAcc (Named "SIS::cor_particle_") Rd (Plain) "SIS.cpp:61";
      mkAcc (Named "SIS::pred_particle_") Wr (Plain) "SIS.cpp:61";
      mkAcc (Named "SIS::pred_particle_") Rd (Plain) "SIS.cpp:65";
      mkAcc (Named "SIS::cor_particle_") Wr (Plain) "SIS.cpp:65";
      mkAcc (Named "SIS::cor_particle_") Wr (Plain) "SIS.cpp:68";
      mkAcc (Named "SIS::cor_particle_") Wr (Plain) "SIS.cpp:71";
      mkAcc (Named "SIS::pred_particle_") Rd (Plain) "SIS.cpp:71";
      mkAcc (Named "SIS::cor_particle_") Wr (Plain) "SIS.cpp:75";
      mkAcc (Named "SIS::num_particle_") Rd (Plain) "SIS.cpp:75";
      mkAcc (Named "SIS::num_particle_") Rd (Plain) "SIS.cpp:77";
      mkAcc (Named "SIS::cor_particle_") Rd (Plain) "SIS.cpp:77";
      mkAcc (Named "SIS::num_particle_") Rd (Plain) "SIS.cpp:78";
      mkAcc (Named "SIS::cor_particle_") Rd (Plain) "SIS.cpp:80";
      mkAcc (Named "SIS::cor_particle_") Wr (Plain) "SIS.cpp:82"];
  mkEntry "SIS::initialization_step" Flt Concurrent [
      mkAcc (Named "SIS::pred_particle_") Wr (Plain) "SIS.cpp:54"];
  mkEntry "SIS::log" Flt Concurrent [
      mkAcc (Named "SIS::pred_particle_") Wr (Plain) "SIS.cpp:104";
      mkAcc (Named "SIS::pred_particle_") Wr (Plain) "SIS.cpp:104";
      mkAcc (Named "SIS::cor_particle_") Wr (Plain) "SIS.cpp:105";
      mkAcc (Named "SIS::cor_particle_") Wr (Plain) "SIS.cpp:105"];
  mkEntry "SIS::run_condition" Flt Concurrent [
      ];
  mkEntry "SUKFCorrection::correctStep" Flt Concurrent [
      mkAcc (Named "SUKFCorrection::innovations_") Wr (Plain) "SUKFCorrection.cpp:80";
      mkAcc (Named "SUKFCorrection::measurement_model_") Rd (Plain) "SUKFCorrection.cpp:85";
      mkAcc (Named "SUKFCorrection::measurement_model_") Rd (Plain) "SUKFCorrection.cpp:87";
      mkAcc (Named "SUKFCorrection::measurement_sub_size_") Rd (Plain) "SUKFCorrection.cpp:91";
      mkAcc (Named "SUKFCorrection::ut_weight_") Rd (Plain) "SUKFCorrection.cpp:100";
      mkAcc (Named "SUKFCorrection::measurement_model_") Rd (Plain) "SUKFCorrection.cpp:105";
      mkAcc (Named "SUKFCorrection::propagated_sigma_points_") Wr (Plain) "SUKFCorrection.cpp:114";
      mkAcc (Named "SUKFCorrection::propagated_sigma_points_") Wr (Plain) "SUKFCorrection.cpp:121";
      mkAcc (Named "SUKFCorrection::ut_weight_") Rd (Plain) "SUKFCorrection.cpp:124";
      mkAcc (Named "SUKFCorrection::measurement_model_") Rd (Plain) "SUKFCorrection.cpp:130";
      mkAcc (Named "SUKFCorrection::innovations_") Wr (Plain) "SUKFCorrection.cpp:139";
      mkAcc (Named "SUKFCorrection::ut_weight_") Wr (Plain) "SUKFCorrection.cpp:148";
      mkAcc (Named "SUKFCorrection::propagated_sigma_points_") Wr (Plain) "SUKFCorrection.cpp:153";
      mkAcc (Named "SUKFCorrection::measurement_sub_size_") Rd (Plain) "SUKFCorrection.cpp:166";
      mkAcc (Named "SUKFCorrection::measurement_sub_size_") Rd (Plain) "SUKFCorrection.cpp:168";
      mkAcc (Named "SUKFCorrection::measurement_sub_size_") Rd (Plain) "SUKFCorrection.cpp:169";
      mkAcc (Named "SUKFCorrection::measurement_sub_size_") Rd (Plain) "SUKFCorrection.cpp:171";
      mkAcc (Named "SUKFCorrection::innovations_") Wr (Plain) "SUKFCorrection.cpp:173";
      mkAcc (Named "SUKFCorrection::measurement_sub_size_") Rd (Plain) "SUKFCorrection.cpp:173"];
  mkEntry "SUKFCorrection::getMeasurementModel" Flt Concurrent [
      mkAcc (Named "SUKFCorrection::measurement_model_") Rd (Plain) "SUKFCorrection.cpp:44"];
  mkEntry "SUKFCorrection::getNoiseCovarianceMatrix" Flt Concurrent [
      mkAcc (Named "global::ignore") Wr (Plain) "SUKFCorrection.cpp:200";
      mkAcc (Named "SUKFCorrection::measurement_model_") Rd (Plain) "SUKFCorrection.cpp:200";
      mkAcc (Named "SUKFCorrection::use_reduced_noise_covariance_matrix_") Rd (Plain) "SUKFCorrection.cpp:202";
      mkAcc (Named "SUKFCorrection::measurement_sub_size_") Rd (Plain) "SUKFCorrection.cpp:205"];
  mkEntry "StateModel::exogenous_model" Flt Concurrent [
      mkAcc (Named "StateModel::exogenous_model_") Rd (Plain) "StateModel.cpp:57";
      mkAcc (Named "StateModel::exogenous_model_") Rd (Plain) "StateModel.cpp:58"];
  mkEntry "StateModel::getNoiseCovarianceMatrix" Flt Concurrent [
      ];
  mkEntry "StateModel::getNoiseSample" Flt Concurrent [
      ];
  mkEntry "StateModel::getTransitionProbability" Flt Concurrent [
      ];
  mkEntry "StateModel::have_exogenous_model" Flt Concurrent [
      mkAcc (Named "StateModel::exogenous_model_") Rd (Plain) "StateModel.cpp:48"];
  mkEntry "StateModel::is_skipping" Flt Concurrent [
      mkAcc (Named "StateModel::skip_") Rd (Plain) "StateModel.cpp:34"];
  mkEntry "UKFCorrection::correctStep" Flt Concurrent [
      mkAcc (Named "UKFCorrection::innovations_") Wr (Plain) "UKFCorrection.cpp:89";
      mkAcc (Named "UKFCorrection::type_") Rd (Plain) "UKFCorrection.cpp:111";
      mkAcc (Named "global::ignore") Wr (Plain) "UKFCorrection.cpp:117";
      mkAcc (Named "UKFCorrection::update_weights_online_") Rd (Plain) "UKFCorrection.cpp:120";
      mkAcc (Named "UKFCorrection::ut_weight_") Wr (Plain) "UKFCorrection.cpp:121";
      mkAcc (Named "UKFCorrection::measurement_model_") Rd (Plain) "UKFCorrection.cpp:121";
      mkAcc (Named "UKFCorrection::ut_alpha_") Rd (Plain) "UKFCorrection.cpp:121";
      mkAcc (Named "UKFCorrection::ut_beta_") Rd (Plain) "UKFCorrection.cpp:121";
      mkAcc (Named "UKFCorrection::ut_kappa_") Rd (Plain) "UKFCorrection.cpp:121";
      mkAcc (Named "UKFCorrection::predicted_meas_") Wr (Plain) "UKFCorrection.cpp:123";
      mkAcc (Named "UKFCorrection::ut_weight_") Rd (Plain) "UKFCorrection.cpp:123";
      mkAcc (Named "UKFCorrection::measurement_model_") Rd (Plain) "UKFCorrection.cpp:123";
      mkAcc (Named "UKFCorrection::type_") Rd (Plain) "UKFCorrection.cpp:125";
      mkAcc (Named "UKFCorrection::predicted_meas_") Wr (Plain) "UKFCorrection.cpp:127";
      mkAcc (Named "UKFCorrection::ut_weight_") Rd (Plain) "UKFCorrection.cpp:127";
      mkAcc (Named "UKFCorrection::additive_measurement_model_") Rd (Plain) "UKFCorrection.cpp:127";
      mkAcc (Named "UKFCorrection::predicted_meas_") Wr (Plain) "UKFCorrection.cpp:143";
      mkAcc (Named "UKFCorrection::innovations_") Wr (Plain) "UKFCorrection.cpp:153";
      mkAcc (Named "UKFCorrection::predicted_meas_") Wr (Plain) "UKFCorrection.cpp:160";
      mkAcc (Named "UKFCorrection::innovations_") Wr (Plain) "UKFCorrection.cpp:164";
      mkAcc (Named "UKFCorrection::predicted_meas_") Wr (Plain) "UKFCorrection.cpp:168"];
  mkEntry "UKFCorrection::getMeasurementModel" Flt Concurrent [
      mkAcc (Named "UKFCorrection::type_") Rd (Plain) "UKFCorrection.cpp:64";
      mkAcc (Named "UKFCorrection::additive_measurement_model_") Rd (Plain) "UKFCorrection.cpp:65";
      mkAcc (Named "UKFCorrection::measurement_model_") Rd (Plain) "UKFCorrection.cpp:67"];
  mkEntry "UKFPrediction::getStateModel" Flt Concurrent [
      mkAcc (Named "UKFPrediction::type_") Rd (Plain) "UKFPrediction.cpp:71";
      mkAcc (Named "UKFPrediction::add_state_model_") Rd (Plain) "UKFPrediction.cpp:72";
      mkAcc (Named "UKFPrediction::state_model_") Rd (Plain) "UKFPrediction.cpp:74"];
  mkEntry "UKFPrediction::predictStep" Flt Concurrent [
      mkAcc (Named "UKFPrediction::type_") Rd (Plain) "UKFPrediction.cpp:89";
      mkAcc (Named "UKFPrediction::state_model_") Rd (Plain) "UKFPrediction.cpp:93";
      mkAcc (Named "global::ignore") Wr (Plain) "UKFPrediction.cpp:95";
      mkAcc (Named "UKFPrediction::ut_weight_") Rd (Plain) "UKFPrediction.cpp:95";
      mkAcc (Named "UKFPrediction::state_model_") Rd (Plain) "UKFPrediction.cpp:95";
      mkAcc (Named "UKFPrediction::type_") Rd (Plain) "UKFPrediction.cpp:97";
      mkAcc (Named "global::ignore") Wr (Plain) "UKFPrediction.cpp:99";
      mkAcc (Named "UKFPrediction::ut_weight_") Rd (Plain) "UKFPrediction.cpp:99";
      mkAcc (Named "UKFPrediction::add_state_model_") Rd (Plain) "UKFPrediction.cpp:99"];
  mkEntry "WhiteNoiseAcceleration::getNoiseCovarianceMatrix" Flt Concurrent [
      mkAcc (Named "WhiteNoiseAcceleration::pimpl_") Rd (Plain) "WhiteNoiseAcceleration.cpp:206"];
  mkEntry "WhiteNoiseAcceleration::getNoiseSample" Flt Concurrent [
      mkAcc (Named "WhiteNoiseAcceleration::pimpl_") Rd (Plain) "WhiteNoiseAcceleration.cpp:196";
      mkAcc (Named "WhiteNoiseAcceleration::pimpl_") Rd (Plain) "WhiteNoiseAcceleration.cpp:198";
      mkAcc (Named "WhiteNoiseAcceleration::pimpl_") Rd (Plain) "WhiteNoiseAcceleration.cpp:200"];
  mkEntry "WhiteNoiseAcceleration::getStateTransitionMatrix" Flt Concurrent [
      mkAcc (Named "WhiteNoiseAcceleration::pimpl_") Rd (Plain) "WhiteNoiseAcceleration.cpp:212"];
  mkEntry "WhiteNoiseAcceleration::getTransitionProbability" Flt Concurrent [
      mkAcc (Named "WhiteNoiseAcceleration::pimpl_") Rd (Plain) "WhiteNoiseAcceleration.cpp:219"];
  mkEntry "(destruction)" Ctl PostJoin [
      mkAcc (Named "BootstrapCorrection::likelihood_") Wr (Plain) "destruction";
      mkAcc (Named "BootstrapCorrection::likelihood_model_") Wr (Plain) "destruction";
      mkAcc (Named "BootstrapCorrection::measurement_model_") Wr (Plain) "destruction";
      mkAcc (Named "BootstrapCorrection::valid_likelihood_") Wr (Plain) "destruction";
      mkAcc (Named "DrawParticles::state_model_") Wr (Plain) "destruction";
      mkAcc (Named "ExogenousModel::skip_") Wr (Plain) "destruction";
      mkAcc (Named "FilteringAlgorithm::cv_run_") Wr (Plain) "destruction";
      mkAcc (Named "FilteringAlgorithm::filtering_step_") Wr (Plain) "destruction";
      mkAcc (Named "FilteringAlgorithm::filtering_thread_") Wr (Plain) "destruction";
      mkAcc (Named "FilteringAlgorithm::mtx_run_") Wr (Plain) "destruction";
      mkAcc (Named "FilteringAlgorithm::reset_") Wr (Plain) "destruction";
      mkAcc (Named "FilteringAlgorithm::run_") Wr (Plain) "destruction";
      mkAcc (Named "FilteringAlgorithm::teardown_") Wr (Plain) "destruction";
      mkAcc (Named "GPFCorrection::gaussian_correction_") Wr (Plain) "destruction";
      mkAcc (Named "GPFCorrection::gaussian_random_sample_") Wr (Plain) "destruction";
      mkAcc (Named "GPFCorrection::likelihood_") Wr (Plain) "destruction";
      mkAcc (Named "GPFCorrection::likelihood_model_") Wr (Plain) "destruction";
      mkAcc (Named "GPFCorrection::state_model_") Wr (Plain) "destruction";
      mkAcc (Named "GPFCorrection::valid_likelihood_") Wr (Plain) "destruction";
      mkAcc (Named "GPFPrediction::gaussian_prediction_") Wr (Plain) "destruction";
      mkAcc (Named "GaussianCorrection::skip_") Wr (Plain) "destruction";
      mkAcc (Named "GaussianFilter::correction_") Wr (Plain) "destruction";
      mkAcc (Named "GaussianFilter::prediction_") Wr (Plain) "destruction";
      mkAcc (Named "GaussianPrediction::skip_") Wr (Plain) "destruction";
      mkAcc (Named "KFCorrection::innovations_") Wr (Plain) "destruction";
      mkAcc (Named "KFCorrection::meas_covariances_") Wr (Plain) "destruction";
      mkAcc (Named "KFCorrection::measurement_model_") Wr (Plain) "destruction";
      mkAcc (Named "KFPrediction::state_model_") Wr (Plain) "destruction";
      mkAcc (Named "LTIStateModel::F_") Wr (Plain) "destruction";
      mkAcc (Named "LTIStateModel::Q_") Wr (Plain) "destruction";
      mkAcc (Named "PFCorrection::skip_") Wr (Plain) "destruction";
      mkAcc (Named "PFPrediction::skip_") Wr (Plain) "destruction";
      mkAcc (Named "ParticleFilter::correction_") Wr (Plain) "destruction";
      mkAcc (Named "ParticleFilter::initialization_") Wr (Plain) "destruction";
      mkAcc (Named "ParticleFilter::prediction_") Wr (Plain) "destruction";
      mkAcc (Named "ParticleFilter::resampling_") Wr (Plain) "destruction";
      mkAcc (Named "SIS::cor_particle_") Wr (Plain) "destruction";
      mkAcc (Named "SIS::num_particle_") Wr (Plain) "destruction";
      mkAcc (Named "SIS::pred_particle_") Wr (Plain) "destruction";
      mkAcc (Named "SUKFCorrection::innovations_") Wr (Plain) "destruction";
      mkAcc (Named "SUKFCorrection::measurement_model_") Wr (Plain) "destruction";
      mkAcc (Named "SUKFCorrection::measurement_sub_size_") Wr (Plain) "destruction";
      mkAcc (Named "SUKFCorrection::propagated_sigma_points_") Wr (Plain) "destruction";
      mkAcc (Named "SUKFCorrection::use_reduced_noise_covariance_matrix_") Wr (Plain) "destruction";
      mkAcc (Named "SUKFCorrection::ut_weight_") Wr (Plain) "destruction";
      mkAcc (Named "StateModel::exogenous_model_") Wr (Plain) "destruction";
      mkAcc (Named "StateModel::skip_") Wr (Plain) "destruction";
      mkAcc (Named "UKFCorrection::additive_measurement_model_") Wr (Plain) "destruction";
      mkAcc (Named "UKFCorrection::innovations_") Wr (Plain) "destruction";
      mkAcc (Named "UKFCorrection::measurement_model_") Wr (Plain) "destruction";
      mkAcc (Named "UKFCorrection::predicted_meas_") Wr (Plain) "destruction";
      mkAcc (Named "UKFCorrection::type_") Wr (Plain) "destruction";
      mkAcc (Named "UKFCorrection::update_weights_online_") Wr (Plain) "destruction";
      mkAcc (Named "UKFCorrection::ut_alpha_") Wr (Plain) "destruction";
      mkAcc (Named "UKFCorrection::ut_beta_") Wr (Plain) "destruction";
      mkAcc (Named "UKFCorrection::ut_kappa_") Wr (Plain) "destruction";
      mkAcc (Named "UKFCorrection::ut_weight_") Wr (Plain) "destruction";
      mkAcc (Named "UKFPrediction::add_state_model_") Wr (Plain) "destruction";
      mkAcc (Named "UKFPrediction::state_model_") Wr (Plain) "destruction";
      mkAcc (Named "UKFPrediction::type_") Wr (Plain) "destruction";
      mkAcc (Named "UKFPrediction::ut_weight_") Wr (Plain) "destruction";
      mkAcc (Named "WhiteNoiseAcceleration::pimpl_") Wr (Plain) "destruction"]
].


Definition prefix_racy : list string :=
  [ "ExogenousModel::skip_"; "GaussianCorrection::skip_"; "GaussianPrediction::skip_";
    "PFCorrection::skip_"; "PFPrediction::skip_"; "StateModel::skip_" ].

Lemma prefix_table_offenders : same_set (racy_vars prefix_table) prefix_racy = true.
Proof. vm_compute. reflexivity. Qed.

(* every data race of every execution of the pre-fix table is on one of the six flags, and each
   reported pair is a race of some execution (offenders_realisable) *)
Lemma prefix_races_only_on_skip_flags tr i j o1 o2 :
  valid prefix_table tr -> race tr i j o1 o2 ->
  In (var_name (a_var (o_acc o1))) prefix_racy /\ In (var_name (a_var (o_acc o2))) prefix_racy.
Proof.
  intros V R. destruct (race_vars_confined _ _ _ _ _ _ V R) as [A B].
  split; apply (same_set_in _ _ prefix_table_offenders); assumption.
Qed.
