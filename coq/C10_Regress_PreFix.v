(* C10_Regress_PreFix.v — FROZEN snapshot (not regenerated on a run): the access table that props/C10_translate.py
   produces for the sources of /repo with the fix commit e410e18 (bool skip_ -> bfl::SkipFlag) reverted.
   Regression spec: on that table the checker reports exactly the six skip_ flags.
   Not part of any property theorem. *)
Require Import List String.
Import ListNotations.
Require Import BFL.C10_Model BFL.C10_Proofs.
Local Open Scope string_scope.

Definition prefix_table : table := [
  mkEntry "(construction)" Ctl PreFork [
      mkAcc (Named "BootstrapCorrection::likelihood_") Wr (Plain) "construction";
      mkAcc (Named "BootstrapCorrection::likelihood_model_") Wr (Plain) "construction";
      mkAcc (Named "BootstrapCorrection::measurement_model_") Wr (Plain) "construction";
      mkAcc (Named "BootstrapCorrection::valid_likelihood_") Wr (Plain) "construction";
      mkAcc (Named "DrawParticles::state_model_") Wr (Plain) "construction";
      mkAcc (Named "ExogenousModel::skip_") Wr (Plain) "construction";
      mkAcc (Named "FilteringAlgorithm::cv_run_") Wr (Plain) "construction";
      mkAcc (Named "FilteringAlgorithm::filtering_step_") Wr (Plain) "construction";
      mkAcc (Named "FilteringAlgorithm::filtering_thread_") Wr (Plain) "construction";
      mkAcc (Named "FilteringAlgorithm::mtx_run_") Wr (Plain) "construction";
      mkAcc (Named "FilteringAlgorithm::reset_") Wr (Plain) "construction";
      mkAcc (Named "FilteringAlgorithm::run_") Wr (Plain) "construction";
      mkAcc (Named "FilteringAlgorithm::teardown_") Wr (Plain) "construction";
      mkAcc (Named "GPFCorrection::distribution_") Wr (Plain) "construction";
      mkAcc (Named "GPFCorrection::gaussian_correction_") Wr (Plain) "construction";
      mkAcc (Named "GPFCorrection::gaussian_random_sample_") Wr (Plain) "construction";
      mkAcc (Named "GPFCorrection::generator_") Wr (Plain) "construction";
      mkAcc (Named "GPFCorrection::likelihood_") Wr (Plain) "construction";
      mkAcc (Named "GPFCorrection::likelihood_model_") Wr (Plain) "construction";
      mkAcc (Named "GPFCorrection::state_model_") Wr (Plain) "construction";
      mkAcc (Named "GPFCorrection::valid_likelihood_") Wr (Plain) "construction";
      mkAcc (Named "GPFPrediction::gaussian_prediction_") Wr (Plain) "construction";
      mkAcc (Named "GaussianCorrection::skip_") Wr (Plain) "construction";
      mkAcc (Named "GaussianFilter::correction_") Wr (Plain) "construction";
      mkAcc (Named "GaussianFilter::prediction_") Wr (Plain) "construction";
      mkAcc (Named "GaussianLikelihood::scale_factor_") Wr (Plain) "construction";
      mkAcc (Named "GaussianMixture::components") Wr (Plain) "construction";
      mkAcc (Named "GaussianMixture::covariance_") Wr (Plain) "construction";
      mkAcc (Named "GaussianMixture::dim") Wr (Plain) "construction";
      mkAcc (Named "GaussianMixture::dim_circular") Wr (Plain) "construction";
      mkAcc (Named "GaussianMixture::dim_circular_component") Wr (Plain) "construction";
      mkAcc (Named "GaussianMixture::dim_covariance") Wr (Plain) "construction";
      mkAcc (Named "GaussianMixture::dim_linear") Wr (Plain) "construction";
      mkAcc (Named "GaussianMixture::dim_noise") Wr (Plain) "construction";
      mkAcc (Named "GaussianMixture::mean_") Wr (Plain) "construction";
      mkAcc (Named "GaussianMixture::use_quaternion") Wr (Plain) "construction";
      mkAcc (Named "GaussianMixture::weight_") Wr (Plain) "construction";
      mkAcc (Named "GaussianPrediction::skip_") Wr (Plain) "construction";
      mkAcc (Named "ImplData::F_") Wr (Plain) "construction";
      mkAcc (Named "ImplData::Q_") Wr (Plain) "construction";
      mkAcc (Named "ImplData::distribution_") Wr (Plain) "construction";
      mkAcc (Named "ImplData::gauss_rnd_sample_") Wr (Plain) "construction";
      mkAcc (Named "ImplData::generator_") Wr (Plain) "construction";
      mkAcc (Named "ImplData::sqrt_Q_") Wr (Plain) "construction";
      mkAcc (Named "ImplData::state_description_") Wr (Plain) "construction";
      mkAcc (Named "InitSurveillanceAreaGrid::num_particle_x_") Wr (Plain) "construction";
      mkAcc (Named "InitSurveillanceAreaGrid::num_particle_y_") Wr (Plain) "construction";
      mkAcc (Named "InitSurveillanceAreaGrid::surv_x_inf_") Wr (Plain) "construction";
      mkAcc (Named "InitSurveillanceAreaGrid::surv_x_sup_") Wr (Plain) "construction";
      mkAcc (Named "InitSurveillanceAreaGrid::surv_y_inf_") Wr (Plain) "construction";
      mkAcc (Named "InitSurveillanceAreaGrid::surv_y_sup_") Wr (Plain) "construction";
      mkAcc (Named "KFCorrection::innovations_") Wr (Plain) "construction";
      mkAcc (Named "KFCorrection::meas_covariances_") Wr (Plain) "construction";
      mkAcc (Named "KFCorrection::measurement_model_") Wr (Plain) "construction";
      mkAcc (Named "KFPrediction::state_model_") Wr (Plain) "construction";
      mkAcc (Named "LTIMeasurementModel::H_") Wr (Plain) "construction";
      mkAcc (Named "LTIMeasurementModel::R_") Wr (Plain) "construction";
      mkAcc (Named "LTIStateModel::F_") Wr (Plain) "construction";
      mkAcc (Named "LTIStateModel::Q_") Wr (Plain) "construction";
      mkAcc (Named "LinearModel::distribution_") Wr (Plain) "construction";
      mkAcc (Named "LinearModel::gauss_rnd_sample_") Wr (Plain) "construction";
      mkAcc (Named "LinearModel::generator_") Wr (Plain) "construction";
      mkAcc (Named "LinearModel::sqrt_R_") Wr (Plain) "construction";
      mkAcc (Named "Logger::log_enabled_") Wr (Plain) "construction";
      mkAcc (Named "Logger::log_files_") Wr (Plain) "construction";
      mkAcc (Named "PFCorrection::skip_") Wr (Plain) "construction";
      mkAcc (Named "PFPrediction::skip_") Wr (Plain) "construction";
      mkAcc (Named "ParticleFilter::correction_") Wr (Plain) "construction";
      mkAcc (Named "ParticleFilter::initialization_") Wr (Plain) "construction";
      mkAcc (Named "ParticleFilter::prediction_") Wr (Plain) "construction";
      mkAcc (Named "ParticleFilter::resampling_") Wr (Plain) "construction";
      mkAcc (Named "ParticleSet::state_") Wr (Plain) "construction";
      mkAcc (Named "Resampling::generator_") Wr (Plain) "construction";
      mkAcc (Named "ResamplingWithPrior::init_model_") Wr (Plain) "construction";
      mkAcc (Named "ResamplingWithPrior::prior_ratio_") Wr (Plain) "construction";
      mkAcc (Named "SIS::cor_particle_") Wr (Plain) "construction";
      mkAcc (Named "SIS::num_particle_") Wr (Plain) "construction";
      mkAcc (Named "SIS::pred_particle_") Wr (Plain) "construction";
      mkAcc (Named "SUKFCorrection::innovations_") Wr (Plain) "construction";
      mkAcc (Named "SUKFCorrection::measurement_model_") Wr (Plain) "construction";
      mkAcc (Named "SUKFCorrection::measurement_sub_size_") Wr (Plain) "construction";
      mkAcc (Named "SUKFCorrection::propagated_sigma_points_") Wr (Plain) "construction";
      mkAcc (Named "SUKFCorrection::use_reduced_noise_covariance_matrix_") Wr (Plain) "construction";
      mkAcc (Named "SUKFCorrection::ut_weight_") Wr (Plain) "construction";
      mkAcc (Named "SimulatedLinearSensor::input_description_") Wr (Plain) "construction";
      mkAcc (Named "SimulatedLinearSensor::measurement_") Wr (Plain) "construction";
      mkAcc (Named "SimulatedLinearSensor::measurement_description_") Wr (Plain) "construction";
      mkAcc (Named "SimulatedLinearSensor::simulated_state_model_") Wr (Plain) "construction";
      mkAcc (Named "SimulatedStateModel::current_simulation_time_") Wr (Plain) "construction";
      mkAcc (Named "SimulatedStateModel::data_simulated_state_model_") Wr (Plain) "construction";
      mkAcc (Named "SimulatedStateModel::simulation_time_") Wr (Plain) "construction";
      mkAcc (Named "SimulatedStateModel::target_") Wr (Plain) "construction";
      mkAcc (Named "StateModel::exogenous_model_") Wr (Plain) "construction";
      mkAcc (Named "StateModel::skip_") Wr (Plain) "construction";
      mkAcc (Named "UKFCorrection::additive_measurement_model_") Wr (Plain) "construction";
      mkAcc (Named "UKFCorrection::innovations_") Wr (Plain) "construction";
      mkAcc (Named "UKFCorrection::measurement_model_") Wr (Plain) "construction";
      mkAcc (Named "UKFCorrection::predicted_meas_") Wr (Plain) "construction";
      mkAcc (Named "UKFCorrection::type_") Wr (Plain) "construction";
      mkAcc (Named "UKFCorrection::update_weights_online_") Wr (Plain) "construction";
      mkAcc (Named "UKFCorrection::ut_alpha_") Wr (Plain) "construction";
      mkAcc (Named "UKFCorrection::ut_beta_") Wr (Plain) "construction";
      mkAcc (Named "UKFCorrection::ut_kappa_") Wr (Plain) "construction";
      mkAcc (Named "UKFCorrection::ut_weight_") Wr (Plain) "construction";
      mkAcc (Named "UKFPrediction::add_state_model_") Wr (Plain) "construction";
      mkAcc (Named "UKFPrediction::state_model_") Wr (Plain) "construction";
      mkAcc (Named "UKFPrediction::type_") Wr (Plain) "construction";
      mkAcc (Named "UKFPrediction::ut_weight_") Wr (Plain) "construction";
      mkAcc (Named "UTWeight::c") Wr (Plain) "construction";
      mkAcc (Named "UTWeight::covariance") Wr (Plain) "construction";
      mkAcc (Named "UTWeight::mean") Wr (Plain) "construction";
      mkAcc (Named "VectorDescription::circular_components_") Wr (Plain) "construction";
      mkAcc (Named "VectorDescription::circular_type") Wr (Plain) "construction";
      mkAcc (Named "VectorDescription::linear_components_") Wr (Plain) "construction";
      mkAcc (Named "VectorDescription::noise_components_") Wr (Plain) "construction";
      mkAcc (Named "WhiteNoiseAcceleration::pimpl_") Wr (Plain) "construction";
      mkAcc (Named "any::content") Wr (Plain) "construction"];
  mkEntry "DrawParticles::getStateModel" Ctl Concurrent [
      mkAcc (Named "DrawParticles::state_model_") Rd (Plain) "DrawParticles.cpp:50"];
  mkEntry "ExogenousModel::is_skipping" Ctl Concurrent [
      mkAcc (Named "ExogenousModel::skip_") Rd (Plain) "ExogenousModel.cpp:27"];
  mkEntry "ExogenousModel::skip" Ctl Concurrent [
      mkAcc (Named "ExogenousModel::skip_") Wr (Plain) "ExogenousModel.cpp:17"];
  mkEntry "FilteringAlgorithm::boot" Ctl Concurrent [
      mkAcc (Named "FilteringAlgorithm::filtering_thread_") Wr (Plain) "FilteringAlgorithm.cpp:37";
      mkAcc (Named "global::cerr") Wr (Atomic) "FilteringAlgorithm.cpp:41";
      mkAcc (Named "global::cerr") Wr (Atomic) "FilteringAlgorithm.cpp:42";
      mkAcc (Named "global::cerr") Wr (Atomic) "FilteringAlgorithm.cpp:43"];
  mkEntry "FilteringAlgorithm::is_running" Ctl Concurrent [
      mkAcc (Named "FilteringAlgorithm::run_") Rd (Atomic) "FilteringAlgorithm.cpp:118"];
  mkEntry "FilteringAlgorithm::reboot" Ctl Concurrent [
      mkAcc (Named "FilteringAlgorithm::mtx_run_") Wr (Atomic) "FilteringAlgorithm.cpp:93";
      mkAcc (Named "FilteringAlgorithm::reset_") Wr (Atomic) "FilteringAlgorithm.cpp:94";
      mkAcc (Named "FilteringAlgorithm::run_") Wr (Atomic) "FilteringAlgorithm.cpp:95";
      mkAcc (Named "FilteringAlgorithm::cv_run_") Wr (Atomic) "FilteringAlgorithm.cpp:96"];
  mkEntry "FilteringAlgorithm::reset" Ctl Concurrent [
      mkAcc (Named "FilteringAlgorithm::reset_") Wr (Atomic) "FilteringAlgorithm.cpp:87"];
  mkEntry "FilteringAlgorithm::run" Ctl Concurrent [
      mkAcc (Named "FilteringAlgorithm::mtx_run_") Wr (Atomic) "FilteringAlgorithm.cpp:53";
      mkAcc (Named "FilteringAlgorithm::run_") Wr (Atomic) "FilteringAlgorithm.cpp:54";
      mkAcc (Named "FilteringAlgorithm::cv_run_") Wr (Atomic) "FilteringAlgorithm.cpp:55"];
  mkEntry "FilteringAlgorithm::step_number" Ctl Concurrent [
      mkAcc (Named "FilteringAlgorithm::filtering_step_") Rd (Atomic) "FilteringAlgorithm.cpp:112"];
  mkEntry "FilteringAlgorithm::teardown" Ctl Concurrent [
      mkAcc (Named "FilteringAlgorithm::mtx_run_") Wr (Atomic) "FilteringAlgorithm.cpp:102";
      mkAcc (Named "FilteringAlgorithm::teardown_") Wr (Atomic) "FilteringAlgorithm.cpp:103";
      mkAcc (Named "FilteringAlgorithm::cv_run_") Wr (Atomic) "FilteringAlgorithm.cpp:104"];
  mkEntry "FilteringAlgorithm::wait" Ctl Concurrent [
      mkAcc (Named "FilteringAlgorithm::filtering_thread_") Rd (Plain) "FilteringAlgorithm.cpp:61";
      mkAcc (Named "FilteringAlgorithm::filtering_thread_") Wr (Plain) "FilteringAlgorithm.cpp:65";
      mkAcc (Named "global::cerr") Wr (Atomic) "FilteringAlgorithm.cpp:69";
      mkAcc (Named "global::cerr") Wr (Atomic) "FilteringAlgorithm.cpp:70";
      mkAcc (Named "global::cerr") Wr (Atomic) "FilteringAlgorithm.cpp:71";
      mkAcc (Named "global::cout") Wr (Atomic) "FilteringAlgorithm.cpp:77";
      mkAcc (Named "global::cout") Wr (Atomic) "FilteringAlgorithm.cpp:78"];
  mkEntry "GPFPrediction::getStateModel" Ctl Concurrent [
      mkAcc (Named "GPFPrediction::gaussian_prediction_") Rd (Plain) "GPFPrediction.cpp:42"];
  mkEntry "GaussianCorrection::skip" Ctl Concurrent [
      mkAcc (Named "GaussianCorrection::skip_") Wr (Plain) "GaussianCorrection.cpp:28"];
  mkEntry "GaussianFilter::skip" Ctl Concurrent [
      mkAcc (Named "GaussianFilter::prediction_") Rd (Plain) "GaussianFilter.cpp:24";
      mkAcc (Named "GaussianFilter::correction_") Rd (Plain) "GaussianFilter.cpp:27";
      mkAcc (Named "GaussianFilter::prediction_") Rd (Plain) "GaussianFilter.cpp:33";
      mkAcc (Named "GaussianFilter::correction_") Rd (Plain) "GaussianFilter.cpp:35"];
  mkEntry "GaussianPrediction::skip" Ctl Concurrent [
      mkAcc (Named "GaussianPrediction::skip_") Wr (Plain) "GaussianPrediction.cpp:31";
      mkAcc (Named "GaussianPrediction::skip_") Wr (Plain) "GaussianPrediction.cpp:42";
      mkAcc (Named "GaussianPrediction::skip_") Wr (Plain) "GaussianPrediction.cpp:51"];
  mkEntry "KFPrediction::getStateModel" Ctl Concurrent [
      mkAcc (Named "KFPrediction::state_model_") Rd (Plain) "KFPrediction.cpp:40"];
  mkEntry "PFCorrection::skip" Ctl Concurrent [
      mkAcc (Named "PFCorrection::skip_") Wr (Plain) "PFCorrection.cpp:26"];
  mkEntry "PFPrediction::skip" Ctl Concurrent [
      mkAcc (Named "PFPrediction::skip_") Wr (Plain) "PFPrediction.cpp:30";
      mkAcc (Named "PFPrediction::skip_") Wr (Plain) "PFPrediction.cpp:41";
      mkAcc (Named "PFPrediction::skip_") Wr (Plain) "PFPrediction.cpp:50"];
  mkEntry "ParticleFilter::skip" Ctl Concurrent [
      mkAcc (Named "ParticleFilter::prediction_") Rd (Plain) "ParticleFilter.cpp:33";
      mkAcc (Named "ParticleFilter::correction_") Rd (Plain) "ParticleFilter.cpp:36";
      mkAcc (Named "ParticleFilter::prediction_") Rd (Plain) "ParticleFilter.cpp:42";
      mkAcc (Named "ParticleFilter::correction_") Rd (Plain) "ParticleFilter.cpp:44"];
  mkEntry "StateModel::exogenous_model" Ctl Concurrent [
      mkAcc (Named "StateModel::exogenous_model_") Rd (Plain) "StateModel.cpp:57";
      mkAcc (Named "StateModel::exogenous_model_") Rd (Plain) "StateModel.cpp:58"];
  mkEntry "StateModel::have_exogenous_model" Ctl Concurrent [
      mkAcc (Named "StateModel::exogenous_model_") Rd (Plain) "StateModel.cpp:48"];
  mkEntry "StateModel::is_skipping" Ctl Concurrent [
      mkAcc (Named "StateModel::skip_") Rd (Plain) "StateModel.cpp:34"];
  mkEntry "StateModel::skip" Ctl Concurrent [
      mkAcc (Named "StateModel::skip_") Wr (Plain) "StateModel.cpp:17"];
  mkEntry "UKFPrediction::getStateModel" Ctl Concurrent [
      mkAcc (Named "UKFPrediction::type_") Rd (Plain) "UKFPrediction.cpp:71";
      mkAcc (Named "UKFPrediction::add_state_model_") Rd (Plain) "UKFPrediction.cpp:72";
      mkAcc (Named "UKFPrediction::state_model_") Rd (Plain) "UKFPrediction.cpp:74"];
  mkEntry "(free)::any_cast" Flt Concurrent [
      mkAcc (Named "global::value") Rd (Plain) "any.h:424"];
  mkEntry "(free)::diff_quaternion" Flt Concurrent [
      ];
  mkEntry "(free)::directional_add" Flt Concurrent [
      ];
  mkEntry "(free)::directional_mean" Flt Concurrent [
      ];
  mkEntry "(free)::directional_sub" Flt Concurrent [
      ];
  mkEntry "(free)::log_sum_exp" Flt Concurrent [
      ];
  mkEntry "(free)::mean_quaternion" Flt Concurrent [
      ];
  mkEntry "(free)::multivariate_gaussian_density" Flt Concurrent [
      ];
  mkEntry "(free)::multivariate_gaussian_density_UVR" Flt Concurrent [
      ];
  mkEntry "(free)::multivariate_gaussian_log_density" Flt Concurrent [
      ];
  mkEntry "(free)::multivariate_gaussian_log_density_UVR" Flt Concurrent [
      ];
  mkEntry "(free)::quaternion_to_rotation_vector" Flt Concurrent [
      ];
  mkEntry "(free)::rotation_vector_to_quaternion" Flt Concurrent [
      ];
  mkEntry "(free)::sigma_point" Flt Concurrent [
      mkAcc (Named "GaussianMixture::dim") Wr (Plain) "sigma_point.cpp:86";
      mkAcc (Named "GaussianMixture::dim_covariance") Rd (Plain) "sigma_point.cpp:86";
      mkAcc (Named "GaussianMixture::components") Rd (Plain) "sigma_point.cpp:86";
      mkAcc (Named "GaussianMixture::components") Rd (Plain) "sigma_point.cpp:88";
      mkAcc (Named "GaussianMixture::dim_covariance") Rd (Plain) "sigma_point.cpp:94";
      mkAcc (Named "GaussianMixture::dim_covariance") Wr (Plain) "sigma_point.cpp:96";
      mkAcc (Named "GaussianMixture::dim_covariance") Rd (Plain) "sigma_point.cpp:96";
      mkAcc (Named "GaussianMixture::dim_covariance") Rd (Plain) "sigma_point.cpp:97";
      mkAcc (Named "GaussianMixture::dim_linear") Rd (Plain) "sigma_point.cpp:99";
      mkAcc (Named "GaussianMixture::dim_linear") Rd (Plain) "sigma_point.cpp:100";
      mkAcc (Named "GaussianMixture::dim_circular") Rd (Plain) "sigma_point.cpp:102";
      mkAcc (Named "GaussianMixture::use_quaternion") Rd (Plain) "sigma_point.cpp:104";
      mkAcc (Named "GaussianMixture::dim_circular") Rd (Plain) "sigma_point.cpp:105";
      mkAcc (Named "GaussianMixture::dim_linear") Rd (Plain) "sigma_point.cpp:108";
      mkAcc (Named "GaussianMixture::dim_linear") Rd (Plain) "sigma_point.cpp:111";
      mkAcc (Named "GaussianMixture::dim_covariance") Rd (Plain) "sigma_point.cpp:111";
      mkAcc (Named "GaussianMixture::dim_linear") Rd (Plain) "sigma_point.cpp:114";
      mkAcc (Named "GaussianMixture::dim_circular") Rd (Plain) "sigma_point.cpp:114";
      mkAcc (Named "GaussianMixture::dim_noise") Rd (Plain) "sigma_point.cpp:117";
      mkAcc (Named "GaussianMixture::dim_noise") Rd (Plain) "sigma_point.cpp:118"];
  mkEntry "(free)::sum_quaternion_rotation_vector" Flt Concurrent [
      ];
  mkEntry "(free)::unscented_transform" Flt Concurrent [
      mkAcc (Named "UTWeight::c") Rd (Plain) "sigma_point.cpp:133";
      mkAcc (Named "GaussianMixture::components") Rd (Plain) "sigma_point.cpp:149";
      mkAcc (Named "VectorDescription::circular_type") Rd (Plain) "sigma_point.cpp:149";
      mkAcc (Named "GaussianMixture::dim_covariance") Rd (Plain) "sigma_point.cpp:152";
      mkAcc (Named "GaussianMixture::dim_noise") Rd (Plain) "sigma_point.cpp:152";
      mkAcc (Named "GaussianMixture::components") Rd (Plain) "sigma_point.cpp:152";
      mkAcc (Named "GaussianMixture::dim_covariance") Rd (Plain) "sigma_point.cpp:155";
      mkAcc (Named "GaussianMixture::components") Rd (Plain) "sigma_point.cpp:156";
      mkAcc (Named "GaussianMixture::dim_linear") Rd (Plain) "sigma_point.cpp:162";
      mkAcc (Named "UTWeight::mean") Rd (Plain) "sigma_point.cpp:162";
      mkAcc (Named "GaussianMixture::dim_circular") Rd (Plain) "sigma_point.cpp:164";
      mkAcc (Named "GaussianMixture::use_quaternion") Rd (Plain) "sigma_point.cpp:166";
      mkAcc (Named "GaussianMixture::dim_circular") Rd (Plain) "sigma_point.cpp:167";
      mkAcc (Named "GaussianMixture::dim_linear") Rd (Plain) "sigma_point.cpp:168";
      mkAcc (Named "UTWeight::mean") Rd (Plain) "sigma_point.cpp:168";
      mkAcc (Named "GaussianMixture::dim_circular") Rd (Plain) "sigma_point.cpp:170";
      mkAcc (Named "UTWeight::mean") Rd (Plain) "sigma_point.cpp:170";
      mkAcc (Named "GaussianMixture::dim_covariance") Rd (Plain) "sigma_point.cpp:174";
      mkAcc (Named "GaussianMixture::dim_linear") Rd (Plain) "sigma_point.cpp:176";
      mkAcc (Named "GaussianMixture::dim_circular") Rd (Plain) "sigma_point.cpp:177";
      mkAcc (Named "GaussianMixture::use_quaternion") Rd (Plain) "sigma_point.cpp:179";
      mkAcc (Named "GaussianMixture::dim_circular") Rd (Plain) "sigma_point.cpp:180";
      mkAcc (Named "GaussianMixture::dim_linear") Rd (Plain) "sigma_point.cpp:181";
      mkAcc (Named "GaussianMixture::dim_circular") Rd (Plain) "sigma_point.cpp:183";
      mkAcc (Named "UTWeight::covariance") Rd (Plain) "sigma_point.cpp:185";
      mkAcc (Named "GaussianMixture::dim_covariance") Rd (Plain) "sigma_point.cpp:188";
      mkAcc (Named "GaussianMixture::dim_covariance") Rd (Plain) "sigma_point.cpp:189";
      mkAcc (Named "GaussianMixture::dim_noise") Rd (Plain) "sigma_point.cpp:189";
      mkAcc (Named "GaussianMixture::dim_linear") Rd (Plain) "sigma_point.cpp:190";
      mkAcc (Named "GaussianMixture::dim_circular") Rd (Plain) "sigma_point.cpp:191";
      mkAcc (Named "GaussianMixture::use_quaternion") Rd (Plain) "sigma_point.cpp:193";
      mkAcc (Named "GaussianMixture::dim_circular") Rd (Plain) "sigma_point.cpp:194";
      mkAcc (Named "GaussianMixture::dim_linear") Rd (Plain) "sigma_point.cpp:195";
      mkAcc (Named "GaussianMixture::dim_circular") Rd (Plain) "sigma_point.cpp:197";
      mkAcc (Named "GaussianMixture::dim_linear") Rd (Plain) "sigma_point.cpp:197";
      mkAcc (Named "UTWeight::covariance") Rd (Plain) "sigma_point.cpp:199";
      mkAcc (Named "global::ignore") Wr (Plain) "sigma_point.cpp:223";
      mkAcc (Named "global::ignore") Wr (Plain) "sigma_point.cpp:247";
      mkAcc (Named "GaussianMixture::components") Rd (Plain) "sigma_point.cpp:251";
      mkAcc (Named "global::ignore") Wr (Plain) "sigma_point.cpp:313";
      mkAcc (Named "GaussianMixture::components") Rd (Plain) "sigma_point.cpp:314"];
  mkEntry "AdditiveStateModel::motion" Flt Concurrent [
      ];
  mkEntry "BootstrapCorrection::correctStep" Flt Concurrent [
      mkAcc (Named "BootstrapCorrection::valid_likelihood_") Wr (Plain) "BootstrapCorrection.cpp:52";
      mkAcc (Named "BootstrapCorrection::likelihood_") Wr (Plain) "BootstrapCorrection.cpp:52";
      mkAcc (Named "ParticleSet::state_") Wr (Plain) "BootstrapCorrection.cpp:54";
      mkAcc (Named "GaussianMixture::components") Wr (Plain) "BootstrapCorrection.cpp:54";
      mkAcc (Named "GaussianMixture::use_quaternion") Wr (Plain) "BootstrapCorrection.cpp:54";
      mkAcc (Named "GaussianMixture::dim_circular_component") Wr (Plain) "BootstrapCorrection.cpp:54";
      mkAcc (Named "GaussianMixture::dim") Wr (Plain) "BootstrapCorrection.cpp:54";
      mkAcc (Named "GaussianMixture::dim_linear") Wr (Plain) "BootstrapCorrection.cpp:54";
      mkAcc (Named "GaussianMixture::dim_circular") Wr (Plain) "BootstrapCorrection.cpp:54";
      mkAcc (Named "GaussianMixture::dim_noise") Wr (Plain) "BootstrapCorrection.cpp:54";
      mkAcc (Named "GaussianMixture::dim_covariance") Wr (Plain) "BootstrapCorrection.cpp:54";
      mkAcc (Named "GaussianMixture::mean_") Wr (Plain) "BootstrapCorrection.cpp:54";
      mkAcc (Named "GaussianMixture::covariance_") Wr (Plain) "BootstrapCorrection.cpp:54";
      mkAcc (Named "GaussianMixture::weight_") Wr (Plain) "BootstrapCorrection.cpp:54";
      mkAcc (Named "BootstrapCorrection::valid_likelihood_") Rd (Plain) "BootstrapCorrection.cpp:56";
      mkAcc (Named "BootstrapCorrection::likelihood_") Wr (Plain) "BootstrapCorrection.cpp:57"];
  mkEntry "BootstrapCorrection::getLikelihoodModel" Flt Concurrent [
      mkAcc (Named "BootstrapCorrection::likelihood_model_") Rd (Plain) "BootstrapCorrection.cpp:46"];
  mkEntry "BootstrapCorrection::getMeasurementModel" Flt Concurrent [
      mkAcc (Named "BootstrapCorrection::measurement_model_") Rd (Plain) "BootstrapCorrection.cpp:40"];
  mkEntry "DrawParticles::getStateModel" Flt Concurrent [
      mkAcc (Named "DrawParticles::state_model_") Rd (Plain) "DrawParticles.cpp:50"];
  mkEntry "DrawParticles::predictStep" Flt Concurrent [
      ];
  mkEntry "ExogenousModel::is_skipping" Flt Concurrent [
      mkAcc (Named "ExogenousModel::skip_") Rd (Plain) "ExogenousModel.cpp:27"];
  mkEntry "FilteringAlgorithm::filtering_recursion" Flt Concurrent [
      mkAcc (Named "global::bfl_verif_hook") Rd (Plain) "FilteringAlgorithm.cpp:126";
      mkAcc (Named "FilteringAlgorithm::reset_") Wr (Atomic) "FilteringAlgorithm.cpp:127";
      mkAcc (Named "FilteringAlgorithm::filtering_step_") Wr (Atomic) "FilteringAlgorithm.cpp:128";
      mkAcc (Named "FilteringAlgorithm::mtx_run_") Wr (Atomic) "FilteringAlgorithm.cpp:130";
      mkAcc (Named "global::bfl_verif_hook") Rd (Mutex "FilteringAlgorithm::mtx_run_") "FilteringAlgorithm.cpp:131";
      mkAcc (Named "FilteringAlgorithm::cv_run_") Wr (Atomic) "FilteringAlgorithm.cpp:132";
      mkAcc (Named "FilteringAlgorithm::run_") Rd (Atomic) "FilteringAlgorithm.cpp:132";
      mkAcc (Named "FilteringAlgorithm::teardown_") Rd (Atomic) "FilteringAlgorithm.cpp:132";
      mkAcc (Named "global::cerr") Wr (Atomic) "FilteringAlgorithm.cpp:139";
      mkAcc (Named "global::cerr") Wr (Atomic) "FilteringAlgorithm.cpp:140";
      mkAcc (Named "global::cerr") Wr (Atomic) "FilteringAlgorithm.cpp:141";
      mkAcc (Named "FilteringAlgorithm::teardown_") Wr (Atomic) "FilteringAlgorithm.cpp:142";
      mkAcc (Named "global::bfl_verif_hook") Rd (Plain) "FilteringAlgorithm.cpp:145";
      mkAcc (Named "FilteringAlgorithm::teardown_") Rd (Atomic) "FilteringAlgorithm.cpp:148";
      mkAcc (Named "FilteringAlgorithm::reset_") Rd (Atomic) "FilteringAlgorithm.cpp:148";
      mkAcc (Named "FilteringAlgorithm::filtering_step_") Wr (Atomic) "FilteringAlgorithm.cpp:152";
      mkAcc (Named "global::bfl_verif_hook") Rd (Plain) "FilteringAlgorithm.cpp:154";
      mkAcc (Named "FilteringAlgorithm::run_") Rd (Atomic) "FilteringAlgorithm.cpp:156";
      mkAcc (Named "FilteringAlgorithm::reset_") Rd (Atomic) "FilteringAlgorithm.cpp:156";
      mkAcc (Named "FilteringAlgorithm::teardown_") Rd (Atomic) "FilteringAlgorithm.cpp:156";
      mkAcc (Named "global::bfl_verif_hook") Rd (Plain) "FilteringAlgorithm.cpp:158";
      mkAcc (Named "FilteringAlgorithm::run_") Wr (Atomic) "FilteringAlgorithm.cpp:159";
      mkAcc (Named "global::bfl_verif_hook") Rd (Plain) "FilteringAlgorithm.cpp:160"];
  mkEntry "FilteringAlgorithm::step_number" Flt Concurrent [
      mkAcc (Named "FilteringAlgorithm::filtering_step_") Rd (Atomic) "FilteringAlgorithm.cpp:112"];
  mkEntry "GPFCorrection::(closure) gaussian_random_sample_" Flt Concurrent [
      mkAcc (Named "GPFCorrection::distribution_") Wr (Plain) "GPFCorrection.cpp:72";
      mkAcc (Named "GPFCorrection::generator_") Wr (Plain) "GPFCorrection.cpp:72";
      mkAcc (Named "GPFCorrection::distribution_") Wr (Plain) "GPFCorrection.cpp:41";
      mkAcc (Named "GPFCorrection::generator_") Wr (Plain) "GPFCorrection.cpp:41";
      mkAcc (Named "GPFCorrection::distribution_") Wr (Plain) "GPFCorrection.cpp:52";
      mkAcc (Named "GPFCorrection::generator_") Wr (Plain) "GPFCorrection.cpp:52"];
  mkEntry "GPFCorrection::correctStep" Flt Concurrent [
      mkAcc (Named "GPFCorrection::gaussian_correction_") Rd (Plain) "GPFCorrection.cpp:103";
      mkAcc (Named "GaussianMixture::components") Rd (Plain) "GPFCorrection.cpp:106";
      mkAcc (Named "GPFCorrection::valid_likelihood_") Wr (Plain) "GPFCorrection.cpp:112";
      mkAcc (Named "GPFCorrection::likelihood_") Wr (Plain) "GPFCorrection.cpp:112";
      mkAcc (Named "GPFCorrection::valid_likelihood_") Rd (Plain) "GPFCorrection.cpp:114";
      mkAcc (Named "ParticleSet::state_") Wr (Plain) "GPFCorrection.cpp:116";
      mkAcc (Named "GaussianMixture::components") Wr (Plain) "GPFCorrection.cpp:116";
      mkAcc (Named "GaussianMixture::use_quaternion") Wr (Plain) "GPFCorrection.cpp:116";
      mkAcc (Named "GaussianMixture::dim_circular_component") Wr (Plain) "GPFCorrection.cpp:116";
      mkAcc (Named "GaussianMixture::dim") Wr (Plain) "GPFCorrection.cpp:116";
      mkAcc (Named "GaussianMixture::dim_linear") Wr (Plain) "GPFCorrection.cpp:116";
      mkAcc (Named "GaussianMixture::dim_circular") Wr (Plain) "GPFCorrection.cpp:116";
      mkAcc (Named "GaussianMixture::dim_noise") Wr (Plain) "GPFCorrection.cpp:116";
      mkAcc (Named "GaussianMixture::dim_covariance") Wr (Plain) "GPFCorrection.cpp:116";
      mkAcc (Named "GaussianMixture::mean_") Wr (Plain) "GPFCorrection.cpp:116";
      mkAcc (Named "GaussianMixture::covariance_") Wr (Plain) "GPFCorrection.cpp:116";
      mkAcc (Named "GaussianMixture::weight_") Wr (Plain) "GPFCorrection.cpp:116";
      mkAcc (Named "GPFCorrection::state_model_") Rd (Plain) "GPFCorrection.cpp:122";
      mkAcc (Named "GaussianMixture::components") Rd (Plain) "GPFCorrection.cpp:128";
      mkAcc (Named "GPFCorrection::likelihood_") Wr (Plain) "GPFCorrection.cpp:130"];
  mkEntry "GPFCorrection::evaluateProposal" Flt Concurrent [
      ];
  mkEntry "GPFCorrection::getLikelihoodModel" Flt Concurrent [
      mkAcc (Named "GPFCorrection::likelihood_model_") Rd (Plain) "GPFCorrection.cpp:90"];
  mkEntry "GPFCorrection::getMeasurementModel" Flt Concurrent [
      mkAcc (Named "GPFCorrection::gaussian_correction_") Rd (Plain) "GPFCorrection.cpp:84"];
  mkEntry "GPFCorrection::sampleFromProposal" Flt Concurrent [
      mkAcc (Named "GPFCorrection::gaussian_random_sample_") Rd (Plain) "GPFCorrection.cpp:147"];
  mkEntry "GPFPrediction::predictStep" Flt Concurrent [
      mkAcc (Named "GPFPrediction::gaussian_prediction_") Rd (Plain) "GPFPrediction.cpp:49"];
  mkEntry "Gaussian::covariance" Flt Concurrent [
      mkAcc (Named "GaussianMixture::covariance_") Wr (Plain) "Gaussian.cpp:67";
      mkAcc (Named "GaussianMixture::covariance_") Rd (Plain) "Gaussian.cpp:73";
      mkAcc (Named "GaussianMixture::covariance_") Wr (Plain) "Gaussian.cpp:80";
      mkAcc (Named "GaussianMixture::covariance_") Rd (Plain) "Gaussian.cpp:86"];
  mkEntry "Gaussian::mean" Flt Concurrent [
      mkAcc (Named "GaussianMixture::mean_") Wr (Plain) "Gaussian.cpp:43";
      mkAcc (Named "GaussianMixture::mean_") Rd (Plain) "Gaussian.cpp:49";
      mkAcc (Named "GaussianMixture::mean_") Wr (Plain) "Gaussian.cpp:55";
      mkAcc (Named "GaussianMixture::mean_") Rd (Plain) "Gaussian.cpp:61"];
  mkEntry "Gaussian::resize" Flt Concurrent [
      ];
  mkEntry "Gaussian::weight" Flt Concurrent [
      mkAcc (Named "GaussianMixture::weight_") Wr (Plain) "Gaussian.cpp:92";
      mkAcc (Named "GaussianMixture::weight_") Rd (Plain) "Gaussian.cpp:98"];
  mkEntry "GaussianCorrection::correct" Flt Concurrent [
      mkAcc (Named "GaussianCorrection::skip_") Rd (Plain) "GaussianCorrection.cpp:19";
      mkAcc (Named "GaussianMixture::components") Wr (Plain) "GaussianCorrection.cpp:22";
      mkAcc (Named "GaussianMixture::use_quaternion") Wr (Plain) "GaussianCorrection.cpp:22";
      mkAcc (Named "GaussianMixture::dim_circular_component") Wr (Plain) "GaussianCorrection.cpp:22";
      mkAcc (Named "GaussianMixture::dim") Wr (Plain) "GaussianCorrection.cpp:22";
      mkAcc (Named "GaussianMixture::dim_linear") Wr (Plain) "GaussianCorrection.cpp:22";
      mkAcc (Named "GaussianMixture::dim_circular") Wr (Plain) "GaussianCorrection.cpp:22";
      mkAcc (Named "GaussianMixture::dim_noise") Wr (Plain) "GaussianCorrection.cpp:22";
      mkAcc (Named "GaussianMixture::dim_covariance") Wr (Plain) "GaussianCorrection.cpp:22";
      mkAcc (Named "GaussianMixture::mean_") Wr (Plain) "GaussianCorrection.cpp:22";
      mkAcc (Named "GaussianMixture::covariance_") Wr (Plain) "GaussianCorrection.cpp:22";
      mkAcc (Named "GaussianMixture::weight_") Wr (Plain) "GaussianCorrection.cpp:22"];
  mkEntry "GaussianCorrection::freeze_measurements" Flt Concurrent [
      ];
  mkEntry "GaussianCorrection::getLikelihood" Flt Concurrent [
      ];
  mkEntry "GaussianFilter::correction" Flt Concurrent [
      mkAcc (Named "GaussianFilter::correction_") Rd (Plain) "GaussianFilter.cpp:52"];
  mkEntry "GaussianFilter::prediction" Flt Concurrent [
      mkAcc (Named "GaussianFilter::prediction_") Rd (Plain) "GaussianFilter.cpp:46"];
  mkEntry "GaussianLikelihood::likelihood" Flt Concurrent [
      mkAcc (Named "GaussianLikelihood::scale_factor_") Rd (Plain) "GaussianLikelihood.cpp:72"];
  mkEntry "GaussianMixture::augmentWithNoise" Flt Concurrent [
      mkAcc (Named "GaussianMixture::dim_covariance") Rd (Plain) "GaussianMixture.cpp:202";
      mkAcc (Named "GaussianMixture::dim_noise") Wr (Plain) "GaussianMixture.cpp:205";
      mkAcc (Named "GaussianMixture::dim") Wr (Plain) "GaussianMixture.cpp:206";
      mkAcc (Named "GaussianMixture::dim_covariance") Wr (Plain) "GaussianMixture.cpp:207";
      mkAcc (Named "GaussianMixture::mean_") Wr (Plain) "GaussianMixture.cpp:210";
      mkAcc (Named "GaussianMixture::dim") Rd (Plain) "GaussianMixture.cpp:210";
      mkAcc (Named "GaussianMixture::mean_") Wr (Plain) "GaussianMixture.cpp:211";
      mkAcc (Named "GaussianMixture::components") Rd (Plain) "GaussianMixture.cpp:211";
      mkAcc (Named "GaussianMixture::covariance_") Wr (Plain) "GaussianMixture.cpp:214";
      mkAcc (Named "GaussianMixture::dim_covariance") Rd (Plain) "GaussianMixture.cpp:214";
      mkAcc (Named "GaussianMixture::components") Rd (Plain) "GaussianMixture.cpp:214";
      mkAcc (Named "GaussianMixture::components") Rd (Plain) "GaussianMixture.cpp:222";
      mkAcc (Named "GaussianMixture::components") Rd (Plain) "GaussianMixture.cpp:224";
      mkAcc (Named "GaussianMixture::covariance_") Wr (Plain) "GaussianMixture.cpp:226";
      mkAcc (Named "GaussianMixture::dim_covariance") Rd (Plain) "GaussianMixture.cpp:226";
      mkAcc (Named "GaussianMixture::covariance_") Wr (Plain) "GaussianMixture.cpp:227";
      mkAcc (Named "GaussianMixture::components") Rd (Plain) "GaussianMixture.cpp:238";
      mkAcc (Named "GaussianMixture::covariance_") Wr (Plain) "GaussianMixture.cpp:241";
      mkAcc (Named "GaussianMixture::dim_covariance") Rd (Plain) "GaussianMixture.cpp:241";
      mkAcc (Named "GaussianMixture::covariance_") Wr (Plain) "GaussianMixture.cpp:244";
      mkAcc (Named "GaussianMixture::dim_covariance") Rd (Plain) "GaussianMixture.cpp:244"];
  mkEntry "GaussianMixture::covariance" Flt Concurrent [
      mkAcc (Named "GaussianMixture::covariance_") Wr (Plain) "GaussianMixture.cpp:133";
      mkAcc (Named "GaussianMixture::covariance_") Wr (Plain) "GaussianMixture.cpp:139";
      mkAcc (Named "GaussianMixture::dim_covariance") Rd (Plain) "GaussianMixture.cpp:139";
      mkAcc (Named "GaussianMixture::covariance_") Wr (Plain) "GaussianMixture.cpp:145";
      mkAcc (Named "GaussianMixture::dim_covariance") Rd (Plain) "GaussianMixture.cpp:145";
      mkAcc (Named "GaussianMixture::covariance_") Rd (Plain) "GaussianMixture.cpp:151";
      mkAcc (Named "GaussianMixture::covariance_") Rd (Plain) "GaussianMixture.cpp:157";
      mkAcc (Named "GaussianMixture::dim_covariance") Rd (Plain) "GaussianMixture.cpp:157";
      mkAcc (Named "GaussianMixture::covariance_") Rd (Plain) "GaussianMixture.cpp:163";
      mkAcc (Named "GaussianMixture::dim_covariance") Rd (Plain) "GaussianMixture.cpp:163"];
  mkEntry "GaussianMixture::mean" Flt Concurrent [
      mkAcc (Named "GaussianMixture::mean_") Wr (Plain) "GaussianMixture.cpp:97";
      mkAcc (Named "GaussianMixture::mean_") Wr (Plain) "GaussianMixture.cpp:103";
      mkAcc (Named "GaussianMixture::mean_") Wr (Plain) "GaussianMixture.cpp:109";
      mkAcc (Named "GaussianMixture::mean_") Rd (Plain) "GaussianMixture.cpp:115";
      mkAcc (Named "GaussianMixture::mean_") Rd (Plain) "GaussianMixture.cpp:121";
      mkAcc (Named "GaussianMixture::mean_") Rd (Plain) "GaussianMixture.cpp:127"];
  mkEntry "GaussianMixture::resize" Flt Concurrent [
      mkAcc (Named "GaussianMixture::dim_circular_component") Rd (Plain) "GaussianMixture.cpp:66";
      mkAcc (Named "GaussianMixture::use_quaternion") Rd (Plain) "GaussianMixture.cpp:67";
      mkAcc (Named "GaussianMixture::dim_circular_component") Rd (Plain) "GaussianMixture.cpp:67";
      mkAcc (Named "GaussianMixture::dim_linear") Rd (Plain) "GaussianMixture.cpp:69";
      mkAcc (Named "GaussianMixture::dim_circular") Rd (Plain) "GaussianMixture.cpp:69";
      mkAcc (Named "GaussianMixture::components") Rd (Plain) "GaussianMixture.cpp:69";
      mkAcc (Named "GaussianMixture::dim") Rd (Plain) "GaussianMixture.cpp:71";
      mkAcc (Named "GaussianMixture::dim_covariance") Rd (Plain) "GaussianMixture.cpp:71";
      mkAcc (Named "GaussianMixture::components") Rd (Plain) "GaussianMixture.cpp:71";
      mkAcc (Named "GaussianMixture::mean_") Wr (Plain) "GaussianMixture.cpp:73";
      mkAcc (Named "GaussianMixture::covariance_") Wr (Plain) "GaussianMixture.cpp:74";
      mkAcc (Named "GaussianMixture::dim_covariance") Rd (Plain) "GaussianMixture.cpp:74";
      mkAcc (Named "GaussianMixture::weight_") Wr (Plain) "GaussianMixture.cpp:75";
      mkAcc (Named "GaussianMixture::mean_") Wr (Plain) "GaussianMixture.cpp:81";
      mkAcc (Named "GaussianMixture::covariance_") Wr (Plain) "GaussianMixture.cpp:82";
      mkAcc (Named "GaussianMixture::weight_") Wr (Plain) "GaussianMixture.cpp:83";
      mkAcc (Named "GaussianMixture::components") Wr (Plain) "GaussianMixture.cpp:86";
      mkAcc (Named "GaussianMixture::dim") Wr (Plain) "GaussianMixture.cpp:87";
      mkAcc (Named "GaussianMixture::dim_covariance") Wr (Plain) "GaussianMixture.cpp:88";
      mkAcc (Named "GaussianMixture::dim_linear") Wr (Plain) "GaussianMixture.cpp:89";
      mkAcc (Named "GaussianMixture::dim_circular") Wr (Plain) "GaussianMixture.cpp:90";
      mkAcc (Named "GaussianMixture::dim_noise") Wr (Plain) "GaussianMixture.cpp:91"];
  mkEntry "GaussianMixture::weight" Flt Concurrent [
      mkAcc (Named "GaussianMixture::weight_") Wr (Plain) "GaussianMixture.cpp:169";
      mkAcc (Named "GaussianMixture::weight_") Wr (Plain) "GaussianMixture.cpp:175";
      mkAcc (Named "GaussianMixture::weight_") Rd (Plain) "GaussianMixture.cpp:181";
      mkAcc (Named "GaussianMixture::weight_") Rd (Plain) "GaussianMixture.cpp:187"];
  mkEntry "GaussianPrediction::predict" Flt Concurrent [
      mkAcc (Named "GaussianPrediction::skip_") Rd (Plain) "GaussianPrediction.cpp:20";
      mkAcc (Named "GaussianMixture::components") Wr (Plain) "GaussianPrediction.cpp:23";
      mkAcc (Named "GaussianMixture::use_quaternion") Wr (Plain) "GaussianPrediction.cpp:23";
      mkAcc (Named "GaussianMixture::dim_circular_component") Wr (Plain) "GaussianPrediction.cpp:23";
      mkAcc (Named "GaussianMixture::dim") Wr (Plain) "GaussianPrediction.cpp:23";
      mkAcc (Named "GaussianMixture::dim_linear") Wr (Plain) "GaussianPrediction.cpp:23";
      mkAcc (Named "GaussianMixture::dim_circular") Wr (Plain) "GaussianPrediction.cpp:23";
      mkAcc (Named "GaussianMixture::dim_noise") Wr (Plain) "GaussianPrediction.cpp:23";
      mkAcc (Named "GaussianMixture::dim_covariance") Wr (Plain) "GaussianPrediction.cpp:23";
      mkAcc (Named "GaussianMixture::mean_") Wr (Plain) "GaussianPrediction.cpp:23";
      mkAcc (Named "GaussianMixture::covariance_") Wr (Plain) "GaussianPrediction.cpp:23";
      mkAcc (Named "GaussianMixture::weight_") Wr (Plain) "GaussianPrediction.cpp:23"];
  mkEntry "ImplData::(closure) gauss_rnd_sample_" Flt Concurrent [
      mkAcc (Named "ImplData::distribution_") Wr (Plain) "WhiteNoiseAcceleration.cpp:34";
      mkAcc (Named "ImplData::generator_") Wr (Plain) "WhiteNoiseAcceleration.cpp:34"];
  mkEntry "InitSurveillanceAreaGrid::initialize" Flt Concurrent [
      mkAcc (Named "InitSurveillanceAreaGrid::num_particle_x_") Rd (Plain) "InitSurveillanceAreaGrid.cpp:47";
      mkAcc (Named "InitSurveillanceAreaGrid::num_particle_y_") Rd (Plain) "InitSurveillanceAreaGrid.cpp:47";
      mkAcc (Named "InitSurveillanceAreaGrid::surv_x_sup_") Rd (Plain) "InitSurveillanceAreaGrid.cpp:50";
      mkAcc (Named "InitSurveillanceAreaGrid::surv_x_inf_") Rd (Plain) "InitSurveillanceAreaGrid.cpp:50";
      mkAcc (Named "InitSurveillanceAreaGrid::surv_y_sup_") Rd (Plain) "InitSurveillanceAreaGrid.cpp:51";
      mkAcc (Named "InitSurveillanceAreaGrid::surv_y_inf_") Rd (Plain) "InitSurveillanceAreaGrid.cpp:51";
      mkAcc (Named "InitSurveillanceAreaGrid::num_particle_x_") Rd (Plain) "InitSurveillanceAreaGrid.cpp:53";
      mkAcc (Named "InitSurveillanceAreaGrid::num_particle_y_") Rd (Plain) "InitSurveillanceAreaGrid.cpp:54";
      mkAcc (Named "InitSurveillanceAreaGrid::num_particle_y_") Rd (Plain) "InitSurveillanceAreaGrid.cpp:55";
      mkAcc (Named "InitSurveillanceAreaGrid::num_particle_x_") Rd (Plain) "InitSurveillanceAreaGrid.cpp:55";
      mkAcc (Named "InitSurveillanceAreaGrid::surv_x_inf_") Rd (Plain) "InitSurveillanceAreaGrid.cpp:55";
      mkAcc (Named "InitSurveillanceAreaGrid::num_particle_y_") Rd (Plain) "InitSurveillanceAreaGrid.cpp:57";
      mkAcc (Named "InitSurveillanceAreaGrid::surv_y_inf_") Rd (Plain) "InitSurveillanceAreaGrid.cpp:57"];
  mkEntry "KFCorrection::correctStep" Flt Concurrent [
      mkAcc (Named "KFCorrection::innovations_") Wr (Plain) "KFCorrection.cpp:49";
      mkAcc (Named "KFCorrection::measurement_model_") Rd (Plain) "KFCorrection.cpp:54";
      mkAcc (Named "GaussianMixture::components") Wr (Plain) "KFCorrection.cpp:58";
      mkAcc (Named "GaussianMixture::use_quaternion") Wr (Plain) "KFCorrection.cpp:58";
      mkAcc (Named "GaussianMixture::dim_circular_component") Wr (Plain) "KFCorrection.cpp:58";
      mkAcc (Named "GaussianMixture::dim") Wr (Plain) "KFCorrection.cpp:58";
      mkAcc (Named "GaussianMixture::dim_linear") Wr (Plain) "KFCorrection.cpp:58";
      mkAcc (Named "GaussianMixture::dim_circular") Wr (Plain) "KFCorrection.cpp:58";
      mkAcc (Named "GaussianMixture::dim_noise") Wr (Plain) "KFCorrection.cpp:58";
      mkAcc (Named "GaussianMixture::dim_covariance") Wr (Plain) "KFCorrection.cpp:58";
      mkAcc (Named "GaussianMixture::mean_") Wr (Plain) "KFCorrection.cpp:58";
      mkAcc (Named "GaussianMixture::covariance_") Wr (Plain) "KFCorrection.cpp:58";
      mkAcc (Named "GaussianMixture::weight_") Wr (Plain) "KFCorrection.cpp:58";
      mkAcc (Named "KFCorrection::measurement_model_") Rd (Plain) "KFCorrection.cpp:65";
      mkAcc (Named "GaussianMixture::components") Wr (Plain) "KFCorrection.cpp:69";
      mkAcc (Named "GaussianMixture::use_quaternion") Wr (Plain) "KFCorrection.cpp:69";
      mkAcc (Named "GaussianMixture::dim_circular_component") Wr (Plain) "KFCorrection.cpp:69";
      mkAcc (Named "GaussianMixture::dim") Wr (Plain) "KFCorrection.cpp:69";
      mkAcc (Named "GaussianMixture::dim_linear") Wr (Plain) "KFCorrection.cpp:69";
      mkAcc (Named "GaussianMixture::dim_circular") Wr (Plain) "KFCorrection.cpp:69";
      mkAcc (Named "GaussianMixture::dim_noise") Wr (Plain) "KFCorrection.cpp:69";
      mkAcc (Named "GaussianMixture::dim_covariance") Wr (Plain) "KFCorrection.cpp:69";
      mkAcc (Named "GaussianMixture::mean_") Wr (Plain) "KFCorrection.cpp:69";
      mkAcc (Named "GaussianMixture::covariance_") Wr (Plain) "KFCorrection.cpp:69";
      mkAcc (Named "GaussianMixture::weight_") Wr (Plain) "KFCorrection.cpp:69";
      mkAcc (Named "KFCorrection::measurement_model_") Rd (Plain) "KFCorrection.cpp:76";
      mkAcc (Named "GaussianMixture::components") Wr (Plain) "KFCorrection.cpp:80";
      mkAcc (Named "GaussianMixture::use_quaternion") Wr (Plain) "KFCorrection.cpp:80";
      mkAcc (Named "GaussianMixture::dim_circular_component") Wr (Plain) "KFCorrection.cpp:80";
      mkAcc (Named "GaussianMixture::dim") Wr (Plain) "KFCorrection.cpp:80";
      mkAcc (Named "GaussianMixture::dim_linear") Wr (Plain) "KFCorrection.cpp:80";
      mkAcc (Named "GaussianMixture::dim_circular") Wr (Plain) "KFCorrection.cpp:80";
      mkAcc (Named "GaussianMixture::dim_noise") Wr (Plain) "KFCorrection.cpp:80";
      mkAcc (Named "GaussianMixture::dim_covariance") Wr (Plain) "KFCorrection.cpp:80";
      mkAcc (Named "GaussianMixture::mean_") Wr (Plain) "KFCorrection.cpp:80";
      mkAcc (Named "GaussianMixture::covariance_") Wr (Plain) "KFCorrection.cpp:80";
      mkAcc (Named "GaussianMixture::weight_") Wr (Plain) "KFCorrection.cpp:80";
      mkAcc (Named "KFCorrection::measurement_model_") Rd (Plain) "KFCorrection.cpp:86";
      mkAcc (Named "GaussianMixture::components") Wr (Plain) "KFCorrection.cpp:90";
      mkAcc (Named "GaussianMixture::use_quaternion") Wr (Plain) "KFCorrection.cpp:90";
      mkAcc (Named "GaussianMixture::dim_circular_component") Wr (Plain) "KFCorrection.cpp:90";
      mkAcc (Named "GaussianMixture::dim") Wr (Plain) "KFCorrection.cpp:90";
      mkAcc (Named "GaussianMixture::dim_linear") Wr (Plain) "KFCorrection.cpp:90";
      mkAcc (Named "GaussianMixture::dim_circular") Wr (Plain) "KFCorrection.cpp:90";
      mkAcc (Named "GaussianMixture::dim_noise") Wr (Plain) "KFCorrection.cpp:90";
      mkAcc (Named "GaussianMixture::dim_covariance") Wr (Plain) "KFCorrection.cpp:90";
      mkAcc (Named "GaussianMixture::mean_") Wr (Plain) "KFCorrection.cpp:90";
      mkAcc (Named "GaussianMixture::covariance_") Wr (Plain) "KFCorrection.cpp:90";
      mkAcc (Named "GaussianMixture::weight_") Wr (Plain) "KFCorrection.cpp:90";
      mkAcc (Named "KFCorrection::measurement_model_") Rd (Plain) "KFCorrection.cpp:94";
      mkAcc (Named "KFCorrection::innovations_") Wr (Plain) "KFCorrection.cpp:97";
      mkAcc (Named "KFCorrection::meas_covariances_") Wr (Plain) "KFCorrection.cpp:101";
      mkAcc (Named "GaussianMixture::components") Rd (Plain) "KFCorrection.cpp:101";
      mkAcc (Named "GaussianMixture::components") Rd (Plain) "KFCorrection.cpp:104";
      mkAcc (Named "KFCorrection::meas_covariances_") Wr (Plain) "KFCorrection.cpp:108";
      mkAcc (Named "KFCorrection::meas_covariances_") Wr (Plain) "KFCorrection.cpp:112";
      mkAcc (Named "KFCorrection::innovations_") Wr (Plain) "KFCorrection.cpp:116";
      mkAcc (Named "KFCorrection::meas_covariances_") Wr (Plain) "KFCorrection.cpp:120"];
  mkEntry "KFCorrection::getLikelihood" Flt Concurrent [
      mkAcc (Named "KFCorrection::innovations_") Rd (Plain) "KFCorrection.cpp:33";
      mkAcc (Named "KFCorrection::innovations_") Rd (Plain) "KFCorrection.cpp:36";
      mkAcc (Named "KFCorrection::innovations_") Wr (Plain) "KFCorrection.cpp:39";
      mkAcc (Named "KFCorrection::innovations_") Rd (Plain) "KFCorrection.cpp:39";
      mkAcc (Named "KFCorrection::meas_covariances_") Wr (Plain) "KFCorrection.cpp:39"];
  mkEntry "KFCorrection::getMeasurementModel" Flt Concurrent [
      mkAcc (Named "KFCorrection::measurement_model_") Rd (Plain) "KFCorrection.cpp:27"];
  mkEntry "KFPrediction::getStateModel" Flt Concurrent [
      mkAcc (Named "KFPrediction::state_model_") Rd (Plain) "KFPrediction.cpp:40"];
  mkEntry "KFPrediction::predictStep" Flt Concurrent [
      mkAcc (Named "GaussianMixture::components") Wr (Plain) "KFPrediction.cpp:48";
      mkAcc (Named "GaussianMixture::use_quaternion") Wr (Plain) "KFPrediction.cpp:48";
      mkAcc (Named "GaussianMixture::dim_circular_component") Wr (Plain) "KFPrediction.cpp:48";
      mkAcc (Named "GaussianMixture::dim") Wr (Plain) "KFPrediction.cpp:48";
      mkAcc (Named "GaussianMixture::dim_linear") Wr (Plain) "KFPrediction.cpp:48";
      mkAcc (Named "GaussianMixture::dim_circular") Wr (Plain) "KFPrediction.cpp:48";
      mkAcc (Named "GaussianMixture::dim_noise") Wr (Plain) "KFPrediction.cpp:48";
      mkAcc (Named "GaussianMixture::dim_covariance") Wr (Plain) "KFPrediction.cpp:48";
      mkAcc (Named "GaussianMixture::mean_") Wr (Plain) "KFPrediction.cpp:48";
      mkAcc (Named "GaussianMixture::covariance_") Wr (Plain) "KFPrediction.cpp:48";
      mkAcc (Named "GaussianMixture::weight_") Wr (Plain) "KFPrediction.cpp:48";
      mkAcc (Named "KFPrediction::state_model_") Rd (Plain) "KFPrediction.cpp:59";
      mkAcc (Named "GaussianMixture::components") Rd (Plain) "KFPrediction.cpp:61";
      mkAcc (Named "KFPrediction::state_model_") Rd (Plain) "KFPrediction.cpp:62"];
  mkEntry "LTIMeasurementModel::getMeasurementMatrix" Flt Concurrent [
      mkAcc (Named "LTIMeasurementModel::H_") Wr (Plain) "LTIMeasurementModel.cpp:40"];
  mkEntry "LTIMeasurementModel::getNoiseCovarianceMatrix" Flt Concurrent [
      mkAcc (Named "LTIMeasurementModel::R_") Wr (Plain) "LTIMeasurementModel.cpp:34"];
  mkEntry "LTIStateModel::getNoiseCovarianceMatrix" Flt Concurrent [
      mkAcc (Named "LTIStateModel::Q_") Rd (Plain) "LTIStateModel.cpp:58"];
  mkEntry "LTIStateModel::getStateTransitionMatrix" Flt Concurrent [
      mkAcc (Named "LTIStateModel::F_") Rd (Plain) "LTIStateModel.cpp:64"];
  mkEntry "LinearMeasurementModel::innovation" Flt Concurrent [
      ];
  mkEntry "LinearMeasurementModel::predictedMeasure" Flt Concurrent [
      ];
  mkEntry "LinearModel::(closure) gauss_rnd_sample_" Flt Concurrent [
      mkAcc (Named "LinearModel::distribution_") Wr (Plain) "LinearModel.cpp:29";
      mkAcc (Named "LinearModel::generator_") Wr (Plain) "LinearModel.cpp:29"];
  mkEntry "LinearModel::getMeasurementMatrix" Flt Concurrent [
      mkAcc (Named "LTIMeasurementModel::H_") Wr (Plain) "LinearModel.cpp:71"];
  mkEntry "LinearModel::getNoiseCovarianceMatrix" Flt Concurrent [
      mkAcc (Named "LTIMeasurementModel::R_") Wr (Plain) "LinearModel.cpp:65"];
  mkEntry "LinearModel::getNoiseSample" Flt Concurrent [
      mkAcc (Named "LinearModel::sqrt_R_") Rd (Plain) "LinearModel.cpp:53";
      mkAcc (Named "LinearModel::gauss_rnd_sample_") Wr (Plain) "LinearModel.cpp:55";
      mkAcc (Named "LinearModel::sqrt_R_") Rd (Plain) "LinearModel.cpp:57"];
  mkEntry "LinearStateModel::propagate" Flt Concurrent [
      ];
  mkEntry "Logger::log" Flt Concurrent [
      ];
  mkEntry "Logger::logger" Flt Concurrent [
      mkAcc (Named "Logger::log_enabled_") Rd (Plain) "Logger.h:44";
      mkAcc (Named "Logger::log_enabled_") Rd (Plain) "Logger.h:37";
      mkAcc (Named "Logger::log_files_") Wr (Plain) "Logger.h:38"];
  mkEntry "Logger::logger_helper" Flt Concurrent [
      mkAcc (Named "Logger::log_files_") Wr (Plain) "Logger.h:83";
      mkAcc (Named "Logger::log_files_") Wr (Plain) "Logger.h:89"];
  mkEntry "MeasurementModel::getInputDescription" Flt Concurrent [
      ];
  mkEntry "MeasurementModel::getMeasurementDescription" Flt Concurrent [
      ];
  mkEntry "MeasurementModel::getNoiseCovarianceMatrix" Flt Concurrent [
      ];
  mkEntry "PFCorrection::correct" Flt Concurrent [
      mkAcc (Named "PFCorrection::skip_") Rd (Plain) "PFCorrection.cpp:17";
      mkAcc (Named "ParticleSet::state_") Wr (Plain) "PFCorrection.cpp:20";
      mkAcc (Named "GaussianMixture::components") Wr (Plain) "PFCorrection.cpp:20";
      mkAcc (Named "GaussianMixture::use_quaternion") Wr (Plain) "PFCorrection.cpp:20";
      mkAcc (Named "GaussianMixture::dim_circular_component") Wr (Plain) "PFCorrection.cpp:20";
      mkAcc (Named "GaussianMixture::dim") Wr (Plain) "PFCorrection.cpp:20";
      mkAcc (Named "GaussianMixture::dim_linear") Wr (Plain) "PFCorrection.cpp:20";
      mkAcc (Named "GaussianMixture::dim_circular") Wr (Plain) "PFCorrection.cpp:20";
      mkAcc (Named "GaussianMixture::dim_noise") Wr (Plain) "PFCorrection.cpp:20";
      mkAcc (Named "GaussianMixture::dim_covariance") Wr (Plain) "PFCorrection.cpp:20";
      mkAcc (Named "GaussianMixture::mean_") Wr (Plain) "PFCorrection.cpp:20";
      mkAcc (Named "GaussianMixture::covariance_") Wr (Plain) "PFCorrection.cpp:20";
      mkAcc (Named "GaussianMixture::weight_") Wr (Plain) "PFCorrection.cpp:20"];
  mkEntry "PFCorrection::freeze_measurements" Flt Concurrent [
      ];
  mkEntry "PFPrediction::predict" Flt Concurrent [
      mkAcc (Named "PFPrediction::skip_") Rd (Plain) "PFPrediction.cpp:19";
      mkAcc (Named "ParticleSet::state_") Wr (Plain) "PFPrediction.cpp:22";
      mkAcc (Named "GaussianMixture::components") Wr (Plain) "PFPrediction.cpp:22";
      mkAcc (Named "GaussianMixture::use_quaternion") Wr (Plain) "PFPrediction.cpp:22";
      mkAcc (Named "GaussianMixture::dim_circular_component") Wr (Plain) "PFPrediction.cpp:22";
      mkAcc (Named "GaussianMixture::dim") Wr (Plain) "PFPrediction.cpp:22";
      mkAcc (Named "GaussianMixture::dim_linear") Wr (Plain) "PFPrediction.cpp:22";
      mkAcc (Named "GaussianMixture::dim_circular") Wr (Plain) "PFPrediction.cpp:22";
      mkAcc (Named "GaussianMixture::dim_noise") Wr (Plain) "PFPrediction.cpp:22";
      mkAcc (Named "GaussianMixture::dim_covariance") Wr (Plain) "PFPrediction.cpp:22";
      mkAcc (Named "GaussianMixture::mean_") Wr (Plain) "PFPrediction.cpp:22";
      mkAcc (Named "GaussianMixture::covariance_") Wr (Plain) "PFPrediction.cpp:22";
      mkAcc (Named "GaussianMixture::weight_") Wr (Plain) "PFPrediction.cpp:22"];
  mkEntry "ParticleFilter::correction" Flt Concurrent [
      mkAcc (Named "ParticleFilter::correction_") Rd (Plain) "ParticleFilter.cpp:67"];
  mkEntry "ParticleFilter::initialization" Flt Concurrent [
      mkAcc (Named "ParticleFilter::initialization_") Rd (Plain) "ParticleFilter.cpp:55"];
  mkEntry "ParticleFilter::prediction" Flt Concurrent [
      mkAcc (Named "ParticleFilter::prediction_") Rd (Plain) "ParticleFilter.cpp:61"];
  mkEntry "ParticleFilter::resampling" Flt Concurrent [
      mkAcc (Named "ParticleFilter::resampling_") Rd (Plain) "ParticleFilter.cpp:73"];
  mkEntry "ParticleSet::augmentWithNoise" Flt Concurrent [
      mkAcc (Named "ParticleSet::state_") Wr (Plain) "ParticleSet.cpp:61";
      mkAcc (Named "GaussianMixture::dim") Rd (Plain) "ParticleSet.cpp:61";
      mkAcc (Named "ParticleSet::state_") Wr (Plain) "ParticleSet.cpp:62";
      mkAcc (Named "GaussianMixture::components") Rd (Plain) "ParticleSet.cpp:62"];
  mkEntry "ParticleSet::resize" Flt Concurrent [
      mkAcc (Named "GaussianMixture::dim_circular_component") Rd (Plain) "ParticleSet.cpp:37";
      mkAcc (Named "GaussianMixture::dim_linear") Rd (Plain) "ParticleSet.cpp:39";
      mkAcc (Named "GaussianMixture::dim_circular") Rd (Plain) "ParticleSet.cpp:39";
      mkAcc (Named "GaussianMixture::components") Rd (Plain) "ParticleSet.cpp:39";
      mkAcc (Named "GaussianMixture::dim") Rd (Plain) "ParticleSet.cpp:41";
      mkAcc (Named "GaussianMixture::components") Rd (Plain) "ParticleSet.cpp:41";
      mkAcc (Named "ParticleSet::state_") Wr (Plain) "ParticleSet.cpp:42";
      mkAcc (Named "ParticleSet::state_") Wr (Plain) "ParticleSet.cpp:47"];
  mkEntry "ParticleSet::state" Flt Concurrent [
      mkAcc (Named "ParticleSet::state_") Wr (Plain) "ParticleSet.cpp:102";
      mkAcc (Named "ParticleSet::state_") Wr (Plain) "ParticleSet.cpp:108";
      mkAcc (Named "ParticleSet::state_") Wr (Plain) "ParticleSet.cpp:114";
      mkAcc (Named "ParticleSet::state_") Rd (Plain) "ParticleSet.cpp:120";
      mkAcc (Named "ParticleSet::state_") Rd (Plain) "ParticleSet.cpp:126";
      mkAcc (Named "ParticleSet::state_") Rd (Plain) "ParticleSet.cpp:132"];
  mkEntry "Resampling::neff" Flt Concurrent [
      ];
  mkEntry "Resampling::resample" Flt Concurrent [
      mkAcc (Named "Resampling::generator_") Wr (Plain) "Resampling.cpp:78"];
  mkEntry "ResamplingWithPrior::resample" Flt Concurrent [
      mkAcc (Named "ResamplingWithPrior::prior_ratio_") Rd (Plain) "ResamplingWithPrior.cpp:66";
      mkAcc (Named "GaussianMixture::dim_linear") Rd (Plain) "ResamplingWithPrior.cpp:70";
      mkAcc (Named "GaussianMixture::dim_circular") Rd (Plain) "ResamplingWithPrior.cpp:70";
      mkAcc (Named "GaussianMixture::use_quaternion") Rd (Plain) "ResamplingWithPrior.cpp:70";
      mkAcc (Named "GaussianMixture::dim_linear") Rd (Plain) "ResamplingWithPrior.cpp:71";
      mkAcc (Named "GaussianMixture::dim_circular") Rd (Plain) "ResamplingWithPrior.cpp:71";
      mkAcc (Named "GaussianMixture::use_quaternion") Rd (Plain) "ResamplingWithPrior.cpp:71";
      mkAcc (Named "GaussianMixture::dim_linear") Rd (Plain) "ResamplingWithPrior.cpp:75";
      mkAcc (Named "GaussianMixture::dim_circular") Rd (Plain) "ResamplingWithPrior.cpp:75";
      mkAcc (Named "GaussianMixture::use_quaternion") Rd (Plain) "ResamplingWithPrior.cpp:75";
      mkAcc (Named "ResamplingWithPrior::init_model_") Rd (Plain) "ResamplingWithPrior.cpp:100";
      mkAcc (Named "ParticleSet::state_") Wr (Plain) "ResamplingWithPrior.cpp:103";
      mkAcc (Named "GaussianMixture::components") Wr (Plain) "ResamplingWithPrior.cpp:103";
      mkAcc (Named "GaussianMixture::use_quaternion") Wr (Plain) "ResamplingWithPrior.cpp:103";
      mkAcc (Named "GaussianMixture::dim_circular_component") Wr (Plain) "ResamplingWithPrior.cpp:103";
      mkAcc (Named "GaussianMixture::dim") Wr (Plain) "ResamplingWithPrior.cpp:103";
      mkAcc (Named "GaussianMixture::dim_linear") Wr (Plain) "ResamplingWithPrior.cpp:103";
      mkAcc (Named "GaussianMixture::dim_circular") Wr (Plain) "ResamplingWithPrior.cpp:103";
      mkAcc (Named "GaussianMixture::dim_noise") Wr (Plain) "ResamplingWithPrior.cpp:103";
      mkAcc (Named "GaussianMixture::dim_covariance") Wr (Plain) "ResamplingWithPrior.cpp:103";
      mkAcc (Named "GaussianMixture::mean_") Wr (Plain) "ResamplingWithPrior.cpp:103";
      mkAcc (Named "GaussianMixture::covariance_") Wr (Plain) "ResamplingWithPrior.cpp:103";
      mkAcc (Named "GaussianMixture::weight_") Wr (Plain) "ResamplingWithPrior.cpp:103"];
  mkEntry "ResamplingWithPrior::sort_indices" Flt Concurrent [
      ];
  mkEntry "SIS::filtering_step" Flt Concurrent [
      mkAcc (Named "SIS::cor_particle_") Rd (Plain) "SIS.cpp:61";
      mkAcc (Named "SIS::pred_particle_") Wr (Plain) "SIS.cpp:61";
      mkAcc (Named "SIS::pred_particle_") Rd (Plain) "SIS.cpp:65";
      mkAcc (Named "SIS::cor_particle_") Wr (Plain) "SIS.cpp:65";
      mkAcc (Named "SIS::cor_particle_") Wr (Plain) "SIS.cpp:68";
      mkAcc (Named "ParticleSet::state_") Wr (Plain) "SIS.cpp:71";
      mkAcc (Named "GaussianMixture::components") Wr (Plain) "SIS.cpp:71";
      mkAcc (Named "GaussianMixture::use_quaternion") Wr (Plain) "SIS.cpp:71";
      mkAcc (Named "GaussianMixture::dim_circular_component") Wr (Plain) "SIS.cpp:71";
      mkAcc (Named "GaussianMixture::dim") Wr (Plain) "SIS.cpp:71";
      mkAcc (Named "GaussianMixture::dim_linear") Wr (Plain) "SIS.cpp:71";
      mkAcc (Named "GaussianMixture::dim_circular") Wr (Plain) "SIS.cpp:71";
      mkAcc (Named "GaussianMixture::dim_noise") Wr (Plain) "SIS.cpp:71";
      mkAcc (Named "GaussianMixture::dim_covariance") Wr (Plain) "SIS.cpp:71";
      mkAcc (Named "GaussianMixture::mean_") Wr (Plain) "SIS.cpp:71";
      mkAcc (Named "GaussianMixture::covariance_") Wr (Plain) "SIS.cpp:71";
      mkAcc (Named "GaussianMixture::weight_") Wr (Plain) "SIS.cpp:71";
      mkAcc (Named "SIS::cor_particle_") Wr (Plain) "SIS.cpp:71";
      mkAcc (Named "SIS::pred_particle_") Rd (Plain) "SIS.cpp:71";
      mkAcc (Named "SIS::cor_particle_") Wr (Plain) "SIS.cpp:75";
      mkAcc (Named "SIS::num_particle_") Rd (Plain) "SIS.cpp:75";
      mkAcc (Named "SIS::num_particle_") Rd (Plain) "SIS.cpp:77";
      mkAcc (Named "GaussianMixture::dim_linear") Rd (Plain) "SIS.cpp:77";
      mkAcc (Named "SIS::cor_particle_") Rd (Plain) "SIS.cpp:77";
      mkAcc (Named "GaussianMixture::dim_circular") Rd (Plain) "SIS.cpp:77";
      mkAcc (Named "SIS::num_particle_") Rd (Plain) "SIS.cpp:78";
      mkAcc (Named "SIS::cor_particle_") Rd (Plain) "SIS.cpp:80";
      mkAcc (Named "ParticleSet::state_") Wr (Plain) "SIS.cpp:82";
      mkAcc (Named "GaussianMixture::components") Wr (Plain) "SIS.cpp:82";
      mkAcc (Named "GaussianMixture::use_quaternion") Wr (Plain) "SIS.cpp:82";
      mkAcc (Named "GaussianMixture::dim_circular_component") Wr (Plain) "SIS.cpp:82";
      mkAcc (Named "GaussianMixture::dim") Wr (Plain) "SIS.cpp:82";
      mkAcc (Named "GaussianMixture::dim_linear") Wr (Plain) "SIS.cpp:82";
      mkAcc (Named "GaussianMixture::dim_circular") Wr (Plain) "SIS.cpp:82";
      mkAcc (Named "GaussianMixture::dim_noise") Wr (Plain) "SIS.cpp:82";
      mkAcc (Named "GaussianMixture::dim_covariance") Wr (Plain) "SIS.cpp:82";
      mkAcc (Named "GaussianMixture::mean_") Wr (Plain) "SIS.cpp:82";
      mkAcc (Named "GaussianMixture::covariance_") Wr (Plain) "SIS.cpp:82";
      mkAcc (Named "GaussianMixture::weight_") Wr (Plain) "SIS.cpp:82";
      mkAcc (Named "SIS::cor_particle_") Wr (Plain) "SIS.cpp:82"];
  mkEntry "SIS::initialization_step" Flt Concurrent [
      mkAcc (Named "SIS::pred_particle_") Wr (Plain) "SIS.cpp:54"];
  mkEntry "SIS::log" Flt Concurrent [
      mkAcc (Named "SIS::pred_particle_") Wr (Plain) "SIS.cpp:104";
      mkAcc (Named "SIS::pred_particle_") Wr (Plain) "SIS.cpp:104";
      mkAcc (Named "SIS::cor_particle_") Wr (Plain) "SIS.cpp:105";
      mkAcc (Named "SIS::cor_particle_") Wr (Plain) "SIS.cpp:105"];
  mkEntry "SIS::run_condition" Flt Concurrent [
      ];
  mkEntry "SUKFCorrection::correctStep" Flt Concurrent [
      mkAcc (Named "SUKFCorrection::innovations_") Wr (Plain) "SUKFCorrection.cpp:80";
      mkAcc (Named "SUKFCorrection::measurement_model_") Rd (Plain) "SUKFCorrection.cpp:85";
      mkAcc (Named "SUKFCorrection::measurement_model_") Rd (Plain) "SUKFCorrection.cpp:87";
      mkAcc (Named "SUKFCorrection::measurement_sub_size_") Rd (Plain) "SUKFCorrection.cpp:91";
      mkAcc (Named "GaussianMixture::components") Wr (Plain) "SUKFCorrection.cpp:95";
      mkAcc (Named "GaussianMixture::use_quaternion") Wr (Plain) "SUKFCorrection.cpp:95";
      mkAcc (Named "GaussianMixture::dim_circular_component") Wr (Plain) "SUKFCorrection.cpp:95";
      mkAcc (Named "GaussianMixture::dim") Wr (Plain) "SUKFCorrection.cpp:95";
      mkAcc (Named "GaussianMixture::dim_linear") Wr (Plain) "SUKFCorrection.cpp:95";
      mkAcc (Named "GaussianMixture::dim_circular") Wr (Plain) "SUKFCorrection.cpp:95";
      mkAcc (Named "GaussianMixture::dim_noise") Wr (Plain) "SUKFCorrection.cpp:95";
      mkAcc (Named "GaussianMixture::dim_covariance") Wr (Plain) "SUKFCorrection.cpp:95";
      mkAcc (Named "GaussianMixture::mean_") Wr (Plain) "SUKFCorrection.cpp:95";
      mkAcc (Named "GaussianMixture::covariance_") Wr (Plain) "SUKFCorrection.cpp:95";
      mkAcc (Named "GaussianMixture::weight_") Wr (Plain) "SUKFCorrection.cpp:95";
      mkAcc (Named "UTWeight::c") Rd (Plain) "SUKFCorrection.cpp:100";
      mkAcc (Named "SUKFCorrection::ut_weight_") Rd (Plain) "SUKFCorrection.cpp:100";
      mkAcc (Named "SUKFCorrection::measurement_model_") Rd (Plain) "SUKFCorrection.cpp:105";
      mkAcc (Named "GaussianMixture::components") Wr (Plain) "SUKFCorrection.cpp:109";
      mkAcc (Named "GaussianMixture::use_quaternion") Wr (Plain) "SUKFCorrection.cpp:109";
      mkAcc (Named "GaussianMixture::dim_circular_component") Wr (Plain) "SUKFCorrection.cpp:109";
      mkAcc (Named "GaussianMixture::dim") Wr (Plain) "SUKFCorrection.cpp:109";
      mkAcc (Named "GaussianMixture::dim_linear") Wr (Plain) "SUKFCorrection.cpp:109";
      mkAcc (Named "GaussianMixture::dim_circular") Wr (Plain) "SUKFCorrection.cpp:109";
      mkAcc (Named "GaussianMixture::dim_noise") Wr (Plain) "SUKFCorrection.cpp:109";
      mkAcc (Named "GaussianMixture::dim_covariance") Wr (Plain) "SUKFCorrection.cpp:109";
      mkAcc (Named "GaussianMixture::mean_") Wr (Plain) "SUKFCorrection.cpp:109";
      mkAcc (Named "GaussianMixture::covariance_") Wr (Plain) "SUKFCorrection.cpp:109";
      mkAcc (Named "GaussianMixture::weight_") Wr (Plain) "SUKFCorrection.cpp:109";
      mkAcc (Named "SUKFCorrection::propagated_sigma_points_") Wr (Plain) "SUKFCorrection.cpp:114";
      mkAcc (Named "GaussianMixture::dim") Rd (Plain) "SUKFCorrection.cpp:117";
      mkAcc (Named "GaussianMixture::components") Wr (Plain) "SUKFCorrection.cpp:118";
      mkAcc (Named "GaussianMixture::components") Rd (Plain) "SUKFCorrection.cpp:119";
      mkAcc (Named "SUKFCorrection::propagated_sigma_points_") Wr (Plain) "SUKFCorrection.cpp:121";
      mkAcc (Named "UTWeight::mean") Rd (Plain) "SUKFCorrection.cpp:124";
      mkAcc (Named "SUKFCorrection::ut_weight_") Rd (Plain) "SUKFCorrection.cpp:124";
      mkAcc (Named "SUKFCorrection::measurement_model_") Rd (Plain) "SUKFCorrection.cpp:130";
      mkAcc (Named "GaussianMixture::components") Wr (Plain) "SUKFCorrection.cpp:134";
      mkAcc (Named "GaussianMixture::use_quaternion") Wr (Plain) "SUKFCorrection.cpp:134";
      mkAcc (Named "GaussianMixture::dim_circular_component") Wr (Plain) "SUKFCorrection.cpp:134";
      mkAcc (Named "GaussianMixture::dim") Wr (Plain) "SUKFCorrection.cpp:134";
      mkAcc (Named "GaussianMixture::dim_linear") Wr (Plain) "SUKFCorrection.cpp:134";
      mkAcc (Named "GaussianMixture::dim_circular") Wr (Plain) "SUKFCorrection.cpp:134";
      mkAcc (Named "GaussianMixture::dim_noise") Wr (Plain) "SUKFCorrection.cpp:134";
      mkAcc (Named "GaussianMixture::dim_covariance") Wr (Plain) "SUKFCorrection.cpp:134";
      mkAcc (Named "GaussianMixture::mean_") Wr (Plain) "SUKFCorrection.cpp:134";
      mkAcc (Named "GaussianMixture::covariance_") Wr (Plain) "SUKFCorrection.cpp:134";
      mkAcc (Named "GaussianMixture::weight_") Wr (Plain) "SUKFCorrection.cpp:134";
      mkAcc (Named "SUKFCorrection::innovations_") Wr (Plain) "SUKFCorrection.cpp:139";
      mkAcc (Named "UTWeight::covariance") Wr (Plain) "SUKFCorrection.cpp:148";
      mkAcc (Named "SUKFCorrection::ut_weight_") Wr (Plain) "SUKFCorrection.cpp:148";
      mkAcc (Named "GaussianMixture::components") Rd (Plain) "SUKFCorrection.cpp:149";
      mkAcc (Named "SUKFCorrection::propagated_sigma_points_") Wr (Plain) "SUKFCorrection.cpp:153";
      mkAcc (Named "SUKFCorrection::measurement_sub_size_") Rd (Plain) "SUKFCorrection.cpp:166";
      mkAcc (Named "SUKFCorrection::measurement_sub_size_") Rd (Plain) "SUKFCorrection.cpp:168";
      mkAcc (Named "SUKFCorrection::measurement_sub_size_") Rd (Plain) "SUKFCorrection.cpp:169";
      mkAcc (Named "SUKFCorrection::measurement_sub_size_") Rd (Plain) "SUKFCorrection.cpp:171";
      mkAcc (Named "SUKFCorrection::innovations_") Wr (Plain) "SUKFCorrection.cpp:173";
      mkAcc (Named "SUKFCorrection::measurement_sub_size_") Rd (Plain) "SUKFCorrection.cpp:173";
      mkAcc (Named "GaussianMixture::dim_linear") Rd (Plain) "SUKFCorrection.cpp:179";
      mkAcc (Named "GaussianMixture::dim_circular") Rd (Plain) "SUKFCorrection.cpp:180"];
  mkEntry "SUKFCorrection::getLikelihood" Flt Concurrent [
      mkAcc (Named "SUKFCorrection::innovations_") Rd (Plain) "SUKFCorrection.cpp:54";
      mkAcc (Named "SUKFCorrection::measurement_sub_size_") Rd (Plain) "SUKFCorrection.cpp:58";
      mkAcc (Named "SUKFCorrection::innovations_") Rd (Plain) "SUKFCorrection.cpp:58";
      mkAcc (Named "SUKFCorrection::innovations_") Rd (Plain) "SUKFCorrection.cpp:59";
      mkAcc (Named "SUKFCorrection::measurement_sub_size_") Rd (Plain) "SUKFCorrection.cpp:59";
      mkAcc (Named "SUKFCorrection::measurement_sub_size_") Rd (Plain) "SUKFCorrection.cpp:61";
      mkAcc (Named "SUKFCorrection::innovations_") Rd (Plain) "SUKFCorrection.cpp:65";
      mkAcc (Named "SUKFCorrection::propagated_sigma_points_") Rd (Plain) "SUKFCorrection.cpp:66";
      mkAcc (Named "SUKFCorrection::innovations_") Rd (Plain) "SUKFCorrection.cpp:66";
      mkAcc (Named "SUKFCorrection::innovations_") Rd (Plain) "SUKFCorrection.cpp:67";
      mkAcc (Named "SUKFCorrection::propagated_sigma_points_") Wr (Plain) "SUKFCorrection.cpp:69";
      mkAcc (Named "SUKFCorrection::innovations_") Wr (Plain) "SUKFCorrection.cpp:70";
      mkAcc (Named "SUKFCorrection::innovations_") Rd (Plain) "SUKFCorrection.cpp:70"];
  mkEntry "SUKFCorrection::getMeasurementModel" Flt Concurrent [
      mkAcc (Named "SUKFCorrection::measurement_model_") Rd (Plain) "SUKFCorrection.cpp:44"];
  mkEntry "SUKFCorrection::getNoiseCovarianceMatrix" Flt Concurrent [
      mkAcc (Named "global::ignore") Wr (Plain) "SUKFCorrection.cpp:200";
      mkAcc (Named "SUKFCorrection::measurement_model_") Rd (Plain) "SUKFCorrection.cpp:200";
      mkAcc (Named "SUKFCorrection::use_reduced_noise_covariance_matrix_") Rd (Plain) "SUKFCorrection.cpp:202";
      mkAcc (Named "SUKFCorrection::measurement_sub_size_") Rd (Plain) "SUKFCorrection.cpp:205"];
  mkEntry "SimulatedLinearSensor::freeze" Flt Concurrent [
      mkAcc (Named "SimulatedLinearSensor::simulated_state_model_") Rd (Plain) "SimulatedLinearSensor.cpp:79";
      mkAcc (Named "SimulatedLinearSensor::measurement_") Wr (Plain) "SimulatedLinearSensor.cpp:82";
      mkAcc (Named "LTIMeasurementModel::H_") Rd (Plain) "SimulatedLinearSensor.cpp:82";
      mkAcc (Named "SimulatedLinearSensor::simulated_state_model_") Rd (Plain) "SimulatedLinearSensor.cpp:82";
      mkAcc (Named "global::ignore") Wr (Plain) "SimulatedLinearSensor.cpp:85";
      mkAcc (Named "SimulatedLinearSensor::measurement_") Rd (Plain) "SimulatedLinearSensor.cpp:85";
      mkAcc (Named "SimulatedLinearSensor::measurement_") Wr (Plain) "SimulatedLinearSensor.cpp:87"];
  mkEntry "SimulatedLinearSensor::getInputDescription" Flt Concurrent [
      mkAcc (Named "SimulatedLinearSensor::input_description_") Wr (Plain) "SimulatedLinearSensor.cpp:103"];
  mkEntry "SimulatedLinearSensor::getMeasurementDescription" Flt Concurrent [
      mkAcc (Named "SimulatedLinearSensor::measurement_description_") Wr (Plain) "SimulatedLinearSensor.cpp:109"];
  mkEntry "SimulatedLinearSensor::log" Flt Concurrent [
      mkAcc (Named "SimulatedLinearSensor::measurement_") Wr (Plain) "SimulatedLinearSensor.cpp:115"];
  mkEntry "SimulatedLinearSensor::measure" Flt Concurrent [
      mkAcc (Named "SimulatedLinearSensor::measurement_") Wr (Plain) "SimulatedLinearSensor.cpp:97"];
  mkEntry "SimulatedStateModel::bufferData" Flt Concurrent [
      mkAcc (Named "SimulatedStateModel::current_simulation_time_") Rd (Plain) "SimulatedStateModel.cpp:40";
      mkAcc (Named "SimulatedStateModel::simulation_time_") Rd (Plain) "SimulatedStateModel.cpp:40";
      mkAcc (Named "SimulatedStateModel::current_simulation_time_") Wr (Plain) "SimulatedStateModel.cpp:43";
      mkAcc (Named "SimulatedStateModel::target_") Wr (Plain) "SimulatedStateModel.cpp:47";
      mkAcc (Named "SimulatedStateModel::current_simulation_time_") Rd (Plain) "SimulatedStateModel.cpp:47";
      mkAcc (Named "SimulatedStateModel::data_simulated_state_model_") Wr (Plain) "SimulatedStateModel.cpp:49"];
  mkEntry "SimulatedStateModel::getData" Flt Concurrent [
      mkAcc (Named "SimulatedStateModel::data_simulated_state_model_") Wr (Plain) "SimulatedStateModel.cpp:57"];
  mkEntry "SimulatedStateModel::log" Flt Concurrent [
      mkAcc (Named "SimulatedStateModel::target_") Wr (Plain) "SimulatedStateModel.cpp:83";
      mkAcc (Named "SimulatedStateModel::current_simulation_time_") Rd (Plain) "SimulatedStateModel.cpp:83"];
  mkEntry "StateModel::exogenous_model" Flt Concurrent [
      mkAcc (Named "StateModel::exogenous_model_") Rd (Plain) "StateModel.cpp:57";
      mkAcc (Named "StateModel::exogenous_model_") Rd (Plain) "StateModel.cpp:58"];
  mkEntry "StateModel::getNoiseCovarianceMatrix" Flt Concurrent [
      ];
  mkEntry "StateModel::getNoiseSample" Flt Concurrent [
      ];
  mkEntry "StateModel::getTransitionProbability" Flt Concurrent [
      ];
  mkEntry "StateModel::have_exogenous_model" Flt Concurrent [
      mkAcc (Named "StateModel::exogenous_model_") Rd (Plain) "StateModel.cpp:48"];
  mkEntry "StateModel::is_skipping" Flt Concurrent [
      mkAcc (Named "StateModel::skip_") Rd (Plain) "StateModel.cpp:34"];
  mkEntry "UKFCorrection::correctStep" Flt Concurrent [
      mkAcc (Named "UKFCorrection::innovations_") Wr (Plain) "UKFCorrection.cpp:89";
      mkAcc (Named "GaussianMixture::components") Wr (Plain) "UKFCorrection.cpp:101";
      mkAcc (Named "GaussianMixture::use_quaternion") Wr (Plain) "UKFCorrection.cpp:101";
      mkAcc (Named "GaussianMixture::dim_circular_component") Wr (Plain) "UKFCorrection.cpp:101";
      mkAcc (Named "GaussianMixture::dim") Wr (Plain) "UKFCorrection.cpp:101";
      mkAcc (Named "GaussianMixture::dim_linear") Wr (Plain) "UKFCorrection.cpp:101";
      mkAcc (Named "GaussianMixture::dim_circular") Wr (Plain) "UKFCorrection.cpp:101";
      mkAcc (Named "GaussianMixture::dim_noise") Wr (Plain) "UKFCorrection.cpp:101";
      mkAcc (Named "GaussianMixture::dim_covariance") Wr (Plain) "UKFCorrection.cpp:101";
      mkAcc (Named "GaussianMixture::mean_") Wr (Plain) "UKFCorrection.cpp:101";
      mkAcc (Named "GaussianMixture::covariance_") Wr (Plain) "UKFCorrection.cpp:101";
      mkAcc (Named "GaussianMixture::weight_") Wr (Plain) "UKFCorrection.cpp:101";
      mkAcc (Named "UKFCorrection::type_") Rd (Plain) "UKFCorrection.cpp:108";
      mkAcc (Named "global::ignore") Wr (Plain) "UKFCorrection.cpp:114";
      mkAcc (Named "UKFCorrection::update_weights_online_") Rd (Plain) "UKFCorrection.cpp:117";
      mkAcc (Named "UTWeight::mean") Wr (Plain) "UKFCorrection.cpp:118";
      mkAcc (Named "UTWeight::covariance") Wr (Plain) "UKFCorrection.cpp:118";
      mkAcc (Named "UTWeight::c") Wr (Plain) "UKFCorrection.cpp:118";
      mkAcc (Named "UKFCorrection::ut_weight_") Wr (Plain) "UKFCorrection.cpp:118";
      mkAcc (Named "UKFCorrection::measurement_model_") Rd (Plain) "UKFCorrection.cpp:118";
      mkAcc (Named "UKFCorrection::ut_alpha_") Rd (Plain) "UKFCorrection.cpp:118";
      mkAcc (Named "UKFCorrection::ut_beta_") Rd (Plain) "UKFCorrection.cpp:118";
      mkAcc (Named "UKFCorrection::ut_kappa_") Rd (Plain) "UKFCorrection.cpp:118";
      mkAcc (Named "UKFCorrection::predicted_meas_") Wr (Plain) "UKFCorrection.cpp:120";
      mkAcc (Named "UKFCorrection::ut_weight_") Rd (Plain) "UKFCorrection.cpp:120";
      mkAcc (Named "UKFCorrection::measurement_model_") Rd (Plain) "UKFCorrection.cpp:120";
      mkAcc (Named "UKFCorrection::type_") Rd (Plain) "UKFCorrection.cpp:122";
      mkAcc (Named "UKFCorrection::predicted_meas_") Wr (Plain) "UKFCorrection.cpp:124";
      mkAcc (Named "UKFCorrection::ut_weight_") Rd (Plain) "UKFCorrection.cpp:124";
      mkAcc (Named "UKFCorrection::additive_measurement_model_") Rd (Plain) "UKFCorrection.cpp:124";
      mkAcc (Named "GaussianMixture::components") Wr (Plain) "UKFCorrection.cpp:129";
      mkAcc (Named "GaussianMixture::use_quaternion") Wr (Plain) "UKFCorrection.cpp:129";
      mkAcc (Named "GaussianMixture::dim_circular_component") Wr (Plain) "UKFCorrection.cpp:129";
      mkAcc (Named "GaussianMixture::dim") Wr (Plain) "UKFCorrection.cpp:129";
      mkAcc (Named "GaussianMixture::dim_linear") Wr (Plain) "UKFCorrection.cpp:129";
      mkAcc (Named "GaussianMixture::dim_circular") Wr (Plain) "UKFCorrection.cpp:129";
      mkAcc (Named "GaussianMixture::dim_noise") Wr (Plain) "UKFCorrection.cpp:129";
      mkAcc (Named "GaussianMixture::dim_covariance") Wr (Plain) "UKFCorrection.cpp:129";
      mkAcc (Named "GaussianMixture::mean_") Wr (Plain) "UKFCorrection.cpp:129";
      mkAcc (Named "GaussianMixture::covariance_") Wr (Plain) "UKFCorrection.cpp:129";
      mkAcc (Named "GaussianMixture::weight_") Wr (Plain) "UKFCorrection.cpp:129";
      mkAcc (Named "UKFCorrection::predicted_meas_") Wr (Plain) "UKFCorrection.cpp:140";
      mkAcc (Named "GaussianMixture::components") Wr (Plain) "UKFCorrection.cpp:145";
      mkAcc (Named "GaussianMixture::use_quaternion") Wr (Plain) "UKFCorrection.cpp:145";
      mkAcc (Named "GaussianMixture::dim_circular_component") Wr (Plain) "UKFCorrection.cpp:145";
      mkAcc (Named "GaussianMixture::dim") Wr (Plain) "UKFCorrection.cpp:145";
      mkAcc (Named "GaussianMixture::dim_linear") Wr (Plain) "UKFCorrection.cpp:145";
      mkAcc (Named "GaussianMixture::dim_circular") Wr (Plain) "UKFCorrection.cpp:145";
      mkAcc (Named "GaussianMixture::dim_noise") Wr (Plain) "UKFCorrection.cpp:145";
      mkAcc (Named "GaussianMixture::dim_covariance") Wr (Plain) "UKFCorrection.cpp:145";
      mkAcc (Named "GaussianMixture::mean_") Wr (Plain) "UKFCorrection.cpp:145";
      mkAcc (Named "GaussianMixture::covariance_") Wr (Plain) "UKFCorrection.cpp:145";
      mkAcc (Named "GaussianMixture::weight_") Wr (Plain) "UKFCorrection.cpp:145";
      mkAcc (Named "UKFCorrection::innovations_") Wr (Plain) "UKFCorrection.cpp:150";
      mkAcc (Named "GaussianMixture::components") Rd (Plain) "UKFCorrection.cpp:153";
      mkAcc (Named "GaussianMixture::dim_covariance") Rd (Plain) "UKFCorrection.cpp:158";
      mkAcc (Named "UKFCorrection::predicted_meas_") Rd (Plain) "UKFCorrection.cpp:158";
      mkAcc (Named "UKFCorrection::predicted_meas_") Wr (Plain) "UKFCorrection.cpp:159";
      mkAcc (Named "UKFCorrection::innovations_") Wr (Plain) "UKFCorrection.cpp:163";
      mkAcc (Named "UKFCorrection::predicted_meas_") Wr (Plain) "UKFCorrection.cpp:167"];
  mkEntry "UKFCorrection::getLikelihood" Flt Concurrent [
      mkAcc (Named "UKFCorrection::innovations_") Rd (Plain) "UKFCorrection.cpp:73";
      mkAcc (Named "UKFCorrection::innovations_") Rd (Plain) "UKFCorrection.cpp:76";
      mkAcc (Named "UKFCorrection::innovations_") Rd (Plain) "UKFCorrection.cpp:77";
      mkAcc (Named "UKFCorrection::innovations_") Wr (Plain) "UKFCorrection.cpp:79";
      mkAcc (Named "UKFCorrection::innovations_") Rd (Plain) "UKFCorrection.cpp:79";
      mkAcc (Named "UKFCorrection::predicted_meas_") Wr (Plain) "UKFCorrection.cpp:79"];
  mkEntry "UKFCorrection::getMeasurementModel" Flt Concurrent [
      mkAcc (Named "UKFCorrection::type_") Rd (Plain) "UKFCorrection.cpp:64";
      mkAcc (Named "UKFCorrection::additive_measurement_model_") Rd (Plain) "UKFCorrection.cpp:65";
      mkAcc (Named "UKFCorrection::measurement_model_") Rd (Plain) "UKFCorrection.cpp:67"];
  mkEntry "UKFPrediction::getStateModel" Flt Concurrent [
      mkAcc (Named "UKFPrediction::type_") Rd (Plain) "UKFPrediction.cpp:71";
      mkAcc (Named "UKFPrediction::add_state_model_") Rd (Plain) "UKFPrediction.cpp:72";
      mkAcc (Named "UKFPrediction::state_model_") Rd (Plain) "UKFPrediction.cpp:74"];
  mkEntry "UKFPrediction::predictStep" Flt Concurrent [
      mkAcc (Named "GaussianMixture::components") Wr (Plain) "UKFPrediction.cpp:82";
      mkAcc (Named "GaussianMixture::use_quaternion") Wr (Plain) "UKFPrediction.cpp:82";
      mkAcc (Named "GaussianMixture::dim_circular_component") Wr (Plain) "UKFPrediction.cpp:82";
      mkAcc (Named "GaussianMixture::dim") Wr (Plain) "UKFPrediction.cpp:82";
      mkAcc (Named "GaussianMixture::dim_linear") Wr (Plain) "UKFPrediction.cpp:82";
      mkAcc (Named "GaussianMixture::dim_circular") Wr (Plain) "UKFPrediction.cpp:82";
      mkAcc (Named "GaussianMixture::dim_noise") Wr (Plain) "UKFPrediction.cpp:82";
      mkAcc (Named "GaussianMixture::dim_covariance") Wr (Plain) "UKFPrediction.cpp:82";
      mkAcc (Named "GaussianMixture::mean_") Wr (Plain) "UKFPrediction.cpp:82";
      mkAcc (Named "GaussianMixture::covariance_") Wr (Plain) "UKFPrediction.cpp:82";
      mkAcc (Named "GaussianMixture::weight_") Wr (Plain) "UKFPrediction.cpp:82";
      mkAcc (Named "UKFPrediction::type_") Rd (Plain) "UKFPrediction.cpp:89";
      mkAcc (Named "UKFPrediction::state_model_") Rd (Plain) "UKFPrediction.cpp:93";
      mkAcc (Named "global::ignore") Wr (Plain) "UKFPrediction.cpp:95";
      mkAcc (Named "UKFPrediction::ut_weight_") Rd (Plain) "UKFPrediction.cpp:95";
      mkAcc (Named "UKFPrediction::state_model_") Rd (Plain) "UKFPrediction.cpp:95";
      mkAcc (Named "UKFPrediction::type_") Rd (Plain) "UKFPrediction.cpp:97";
      mkAcc (Named "global::ignore") Wr (Plain) "UKFPrediction.cpp:99";
      mkAcc (Named "UKFPrediction::ut_weight_") Rd (Plain) "UKFPrediction.cpp:99";
      mkAcc (Named "UKFPrediction::add_state_model_") Rd (Plain) "UKFPrediction.cpp:99"];
  mkEntry "VectorDescription::circular_components" Flt Concurrent [
      mkAcc (Named "VectorDescription::circular_components_") Rd (Plain) "VectorDescription.cpp:35"];
  mkEntry "VectorDescription::circular_size" Flt Concurrent [
      mkAcc (Named "VectorDescription::circular_type") Rd (Plain) "VectorDescription.cpp:53";
      mkAcc (Named "VectorDescription::circular_components_") Rd (Plain) "VectorDescription.cpp:54";
      mkAcc (Named "VectorDescription::circular_components_") Rd (Plain) "VectorDescription.cpp:56"];
  mkEntry "VectorDescription::linear_components" Flt Concurrent [
      mkAcc (Named "VectorDescription::linear_components_") Rd (Plain) "VectorDescription.cpp:29"];
  mkEntry "VectorDescription::linear_size" Flt Concurrent [
      mkAcc (Named "VectorDescription::linear_components_") Rd (Plain) "VectorDescription.cpp:47"];
  mkEntry "VectorDescription::noise_size" Flt Concurrent [
      mkAcc (Named "VectorDescription::noise_components_") Rd (Plain) "VectorDescription.cpp:62"];
  mkEntry "VectorDescription::total_size" Flt Concurrent [
      ];
  mkEntry "WhiteNoiseAcceleration::getNoiseCovarianceMatrix" Flt Concurrent [
      mkAcc (Named "ImplData::Q_") Rd (Plain) "WhiteNoiseAcceleration.cpp:206";
      mkAcc (Named "WhiteNoiseAcceleration::pimpl_") Rd (Plain) "WhiteNoiseAcceleration.cpp:206"];
  mkEntry "WhiteNoiseAcceleration::getNoiseSample" Flt Concurrent [
      mkAcc (Named "ImplData::sqrt_Q_") Rd (Plain) "WhiteNoiseAcceleration.cpp:196";
      mkAcc (Named "WhiteNoiseAcceleration::pimpl_") Rd (Plain) "WhiteNoiseAcceleration.cpp:196";
      mkAcc (Named "ImplData::gauss_rnd_sample_") Rd (Plain) "WhiteNoiseAcceleration.cpp:198";
      mkAcc (Named "WhiteNoiseAcceleration::pimpl_") Rd (Plain) "WhiteNoiseAcceleration.cpp:198";
      mkAcc (Named "ImplData::sqrt_Q_") Rd (Plain) "WhiteNoiseAcceleration.cpp:200";
      mkAcc (Named "WhiteNoiseAcceleration::pimpl_") Rd (Plain) "WhiteNoiseAcceleration.cpp:200"];
  mkEntry "WhiteNoiseAcceleration::getStateDescription" Flt Concurrent [
      mkAcc (Named "ImplData::state_description_") Rd (Plain) "WhiteNoiseAcceleration.cpp:190";
      mkAcc (Named "WhiteNoiseAcceleration::pimpl_") Rd (Plain) "WhiteNoiseAcceleration.cpp:190"];
  mkEntry "WhiteNoiseAcceleration::getStateTransitionMatrix" Flt Concurrent [
      mkAcc (Named "ImplData::F_") Rd (Plain) "WhiteNoiseAcceleration.cpp:212";
      mkAcc (Named "WhiteNoiseAcceleration::pimpl_") Rd (Plain) "WhiteNoiseAcceleration.cpp:212"];
  mkEntry "WhiteNoiseAcceleration::getTransitionProbability" Flt Concurrent [
      mkAcc (Named "ImplData::F_") Rd (Plain) "WhiteNoiseAcceleration.cpp:219";
      mkAcc (Named "WhiteNoiseAcceleration::pimpl_") Rd (Plain) "WhiteNoiseAcceleration.cpp:219";
      mkAcc (Named "ImplData::Q_") Rd (Plain) "WhiteNoiseAcceleration.cpp:219"];
  mkEntry "any::operator=" Flt Concurrent [
      ];
  mkEntry "any::swap" Flt Concurrent [
      mkAcc (Named "any::content") Wr (Plain) "any.h:225"];
  mkEntry "(destruction)" Ctl PostJoin [
      mkAcc (Named "BootstrapCorrection::likelihood_") Wr (Plain) "destruction";
      mkAcc (Named "BootstrapCorrection::likelihood_model_") Wr (Plain) "destruction";
      mkAcc (Named "BootstrapCorrection::measurement_model_") Wr (Plain) "destruction";
      mkAcc (Named "BootstrapCorrection::valid_likelihood_") Wr (Plain) "destruction";
      mkAcc (Named "DrawParticles::state_model_") Wr (Plain) "destruction";
      mkAcc (Named "ExogenousModel::skip_") Wr (Plain) "destruction";
      mkAcc (Named "FilteringAlgorithm::cv_run_") Wr (Plain) "destruction";
      mkAcc (Named "FilteringAlgorithm::filtering_step_") Wr (Plain) "destruction";
      mkAcc (Named "FilteringAlgorithm::filtering_thread_") Wr (Plain) "destruction";
      mkAcc (Named "FilteringAlgorithm::mtx_run_") Wr (Plain) "destruction";
      mkAcc (Named "FilteringAlgorithm::reset_") Wr (Plain) "destruction";
      mkAcc (Named "FilteringAlgorithm::run_") Wr (Plain) "destruction";
      mkAcc (Named "FilteringAlgorithm::teardown_") Wr (Plain) "destruction";
      mkAcc (Named "GPFCorrection::distribution_") Wr (Plain) "destruction";
      mkAcc (Named "GPFCorrection::gaussian_correction_") Wr (Plain) "destruction";
      mkAcc (Named "GPFCorrection::gaussian_random_sample_") Wr (Plain) "destruction";
      mkAcc (Named "GPFCorrection::generator_") Wr (Plain) "destruction";
      mkAcc (Named "GPFCorrection::likelihood_") Wr (Plain) "destruction";
      mkAcc (Named "GPFCorrection::likelihood_model_") Wr (Plain) "destruction";
      mkAcc (Named "GPFCorrection::state_model_") Wr (Plain) "destruction";
      mkAcc (Named "GPFCorrection::valid_likelihood_") Wr (Plain) "destruction";
      mkAcc (Named "GPFPrediction::gaussian_prediction_") Wr (Plain) "destruction";
      mkAcc (Named "GaussianCorrection::skip_") Wr (Plain) "destruction";
      mkAcc (Named "GaussianFilter::correction_") Wr (Plain) "destruction";
      mkAcc (Named "GaussianFilter::prediction_") Wr (Plain) "destruction";
      mkAcc (Named "GaussianLikelihood::scale_factor_") Wr (Plain) "destruction";
      mkAcc (Named "GaussianMixture::components") Wr (Plain) "destruction";
      mkAcc (Named "GaussianMixture::covariance_") Wr (Plain) "destruction";
      mkAcc (Named "GaussianMixture::dim") Wr (Plain) "destruction";
      mkAcc (Named "GaussianMixture::dim_circular") Wr (Plain) "destruction";
      mkAcc (Named "GaussianMixture::dim_circular_component") Wr (Plain) "destruction";
      mkAcc (Named "GaussianMixture::dim_covariance") Wr (Plain) "destruction";
      mkAcc (Named "GaussianMixture::dim_linear") Wr (Plain) "destruction";
      mkAcc (Named "GaussianMixture::dim_noise") Wr (Plain) "destruction";
      mkAcc (Named "GaussianMixture::mean_") Wr (Plain) "destruction";
      mkAcc (Named "GaussianMixture::use_quaternion") Wr (Plain) "destruction";
      mkAcc (Named "GaussianMixture::weight_") Wr (Plain) "destruction";
      mkAcc (Named "GaussianPrediction::skip_") Wr (Plain) "destruction";
      mkAcc (Named "ImplData::F_") Wr (Plain) "destruction";
      mkAcc (Named "ImplData::Q_") Wr (Plain) "destruction";
      mkAcc (Named "ImplData::distribution_") Wr (Plain) "destruction";
      mkAcc (Named "ImplData::gauss_rnd_sample_") Wr (Plain) "destruction";
      mkAcc (Named "ImplData::generator_") Wr (Plain) "destruction";
      mkAcc (Named "ImplData::sqrt_Q_") Wr (Plain) "destruction";
      mkAcc (Named "ImplData::state_description_") Wr (Plain) "destruction";
      mkAcc (Named "InitSurveillanceAreaGrid::num_particle_x_") Wr (Plain) "destruction";
      mkAcc (Named "InitSurveillanceAreaGrid::num_particle_y_") Wr (Plain) "destruction";
      mkAcc (Named "InitSurveillanceAreaGrid::surv_x_inf_") Wr (Plain) "destruction";
      mkAcc (Named "InitSurveillanceAreaGrid::surv_x_sup_") Wr (Plain) "destruction";
      mkAcc (Named "InitSurveillanceAreaGrid::surv_y_inf_") Wr (Plain) "destruction";
      mkAcc (Named "InitSurveillanceAreaGrid::surv_y_sup_") Wr (Plain) "destruction";
      mkAcc (Named "KFCorrection::innovations_") Wr (Plain) "destruction";
      mkAcc (Named "KFCorrection::meas_covariances_") Wr (Plain) "destruction";
      mkAcc (Named "KFCorrection::measurement_model_") Wr (Plain) "destruction";
      mkAcc (Named "KFPrediction::state_model_") Wr (Plain) "destruction";
      mkAcc (Named "LTIMeasurementModel::H_") Wr (Plain) "destruction";
      mkAcc (Named "LTIMeasurementModel::R_") Wr (Plain) "destruction";
      mkAcc (Named "LTIStateModel::F_") Wr (Plain) "destruction";
      mkAcc (Named "LTIStateModel::Q_") Wr (Plain) "destruction";
      mkAcc (Named "LinearModel::distribution_") Wr (Plain) "destruction";
      mkAcc (Named "LinearModel::gauss_rnd_sample_") Wr (Plain) "destruction";
      mkAcc (Named "LinearModel::generator_") Wr (Plain) "destruction";
      mkAcc (Named "LinearModel::sqrt_R_") Wr (Plain) "destruction";
      mkAcc (Named "Logger::log_enabled_") Wr (Plain) "destruction";
      mkAcc (Named "Logger::log_files_") Wr (Plain) "destruction";
      mkAcc (Named "PFCorrection::skip_") Wr (Plain) "destruction";
      mkAcc (Named "PFPrediction::skip_") Wr (Plain) "destruction";
      mkAcc (Named "ParticleFilter::correction_") Wr (Plain) "destruction";
      mkAcc (Named "ParticleFilter::initialization_") Wr (Plain) "destruction";
      mkAcc (Named "ParticleFilter::prediction_") Wr (Plain) "destruction";
      mkAcc (Named "ParticleFilter::resampling_") Wr (Plain) "destruction";
      mkAcc (Named "ParticleSet::state_") Wr (Plain) "destruction";
      mkAcc (Named "Resampling::generator_") Wr (Plain) "destruction";
      mkAcc (Named "ResamplingWithPrior::init_model_") Wr (Plain) "destruction";
      mkAcc (Named "ResamplingWithPrior::prior_ratio_") Wr (Plain) "destruction";
      mkAcc (Named "SIS::cor_particle_") Wr (Plain) "destruction";
      mkAcc (Named "SIS::num_particle_") Wr (Plain) "destruction";
      mkAcc (Named "SIS::pred_particle_") Wr (Plain) "destruction";
      mkAcc (Named "SUKFCorrection::innovations_") Wr (Plain) "destruction";
      mkAcc (Named "SUKFCorrection::measurement_model_") Wr (Plain) "destruction";
      mkAcc (Named "SUKFCorrection::measurement_sub_size_") Wr (Plain) "destruction";
      mkAcc (Named "SUKFCorrection::propagated_sigma_points_") Wr (Plain) "destruction";
      mkAcc (Named "SUKFCorrection::use_reduced_noise_covariance_matrix_") Wr (Plain) "destruction";
      mkAcc (Named "SUKFCorrection::ut_weight_") Wr (Plain) "destruction";
      mkAcc (Named "SimulatedLinearSensor::input_description_") Wr (Plain) "destruction";
      mkAcc (Named "SimulatedLinearSensor::measurement_") Wr (Plain) "destruction";
      mkAcc (Named "SimulatedLinearSensor::measurement_description_") Wr (Plain) "destruction";
      mkAcc (Named "SimulatedLinearSensor::simulated_state_model_") Wr (Plain) "destruction";
      mkAcc (Named "SimulatedStateModel::current_simulation_time_") Wr (Plain) "destruction";
      mkAcc (Named "SimulatedStateModel::data_simulated_state_model_") Wr (Plain) "destruction";
      mkAcc (Named "SimulatedStateModel::simulation_time_") Wr (Plain) "destruction";
      mkAcc (Named "SimulatedStateModel::target_") Wr (Plain) "destruction";
      mkAcc (Named "StateModel::exogenous_model_") Wr (Plain) "destruction";
      mkAcc (Named "StateModel::skip_") Wr (Plain) "destruction";
      mkAcc (Named "UKFCorrection::additive_measurement_model_") Wr (Plain) "destruction";
      mkAcc (Named "UKFCorrection::innovations_") Wr (Plain) "destruction";
      mkAcc (Named "UKFCorrection::measurement_model_") Wr (Plain) "destruction";
      mkAcc (Named "UKFCorrection::predicted_meas_") Wr (Plain) "destruction";
      mkAcc (Named "UKFCorrection::type_") Wr (Plain) "destruction";
      mkAcc (Named "UKFCorrection::update_weights_online_") Wr (Plain) "destruction";
      mkAcc (Named "UKFCorrection::ut_alpha_") Wr (Plain) "destruction";
      mkAcc (Named "UKFCorrection::ut_beta_") Wr (Plain) "destruction";
      mkAcc (Named "UKFCorrection::ut_kappa_") Wr (Plain) "destruction";
      mkAcc (Named "UKFCorrection::ut_weight_") Wr (Plain) "destruction";
      mkAcc (Named "UKFPrediction::add_state_model_") Wr (Plain) "destruction";
      mkAcc (Named "UKFPrediction::state_model_") Wr (Plain) "destruction";
      mkAcc (Named "UKFPrediction::type_") Wr (Plain) "destruction";
      mkAcc (Named "UKFPrediction::ut_weight_") Wr (Plain) "destruction";
      mkAcc (Named "UTWeight::c") Wr (Plain) "destruction";
      mkAcc (Named "UTWeight::covariance") Wr (Plain) "destruction";
      mkAcc (Named "UTWeight::mean") Wr (Plain) "destruction";
      mkAcc (Named "VectorDescription::circular_components_") Wr (Plain) "destruction";
      mkAcc (Named "VectorDescription::circular_type") Wr (Plain) "destruction";
      mkAcc (Named "VectorDescription::linear_components_") Wr (Plain) "destruction";
      mkAcc (Named "VectorDescription::noise_components_") Wr (Plain) "destruction";
      mkAcc (Named "WhiteNoiseAcceleration::pimpl_") Wr (Plain) "destruction";
      mkAcc (Named "any::content") Wr (Plain) "destruction"]
].


Definition prefix_racy : list string :=
  [ "ExogenousModel::skip_"; "GaussianCorrection::skip_"; "GaussianPrediction::skip_";
    "PFCorrection::skip_"; "PFPrediction::skip_"; "StateModel::skip_" ].

Lemma prefix_table_offenders : same_set (racy_vars prefix_table) prefix_racy = true.
Proof. vm_compute. reflexivity. Qed.

(* every data race of every execution of the pre-fix table is on one of the six flags, and each
   reported pair is a race of some execution (offenders_realisable) *)
Lemma prefix_races_only_on_skip_flags tr i j o1 o2 :
  valid prefix_table tr -> race tr i j o1 o2 ->
  In (var_name (a_var (o_acc o1))) prefix_racy /\ In (var_name (a_var (o_acc o2))) prefix_racy.
Proof.
  intros V R. destruct (race_vars_confined _ _ _ _ _ _ V R) as [A B].
  split; apply (same_set_in _ _ prefix_table_offenders); assumption.
Qed.
