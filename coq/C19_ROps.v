(* C19_ROps.v — the Coq-reals instance of the scalar interface SOps, used by
   the "World B" theorems (C19, C18; importable by C07, C15, C17).
   Nothing is assumed about atan2: it is DEFINED from atan by quadrant, and its
   contract (polar form + uniqueness of the principal argument) is proved.
   Axioms: the four standard real-number axioms of Coq's Reals only. *)
Require Import ZArith Reals Lra Lia.
Require Import BFL.Ops.
Local Open Scope R_scope.

(* atan2 y x, as std::atan2 / std::arg on finite non-NaN doubles without signed zeros *)
Definition atan2 (y x : R) : R :=
  match total_order_T x 0 with
  | inleft (left _)  => if Rle_dec 0 y then atan (y / x) + PI else atan (y / x) - PI
  | inleft (right _) => match total_order_T y 0 with
                        | inleft (left _) => - (PI / 2) | inleft (right _) => 0 | inright _ => PI / 2 end
  | inright _ => atan (y / x)
  end.

Definition Rleb (a b : R) : bool := if Rle_dec a b then true else false.
Definition Rltb (a b : R) : bool := if Rlt_dec a b then true else false.

Definition ROps : SOps :=
  mkSOps R 0 1 Rplus Rminus Rmult Rdiv Ropp Rleb Rltb IZR
         sqrt exp ln cos sin acos atan2 PI (/ IZR (Z.pow 2 1022)).

Lemma Rleb_true a b : Rleb a b = true <-> a <= b.
Proof. unfold Rleb. destruct (Rle_dec a b); split; intros; auto; try discriminate; contradiction. Qed.
Lemma Rleb_false a b : Rleb a b = false <-> b < a.
Proof. unfold Rleb. destruct (Rle_dec a b); split; intros; auto; try discriminate; lra. Qed.
Lemma Rltb_true a b : Rltb a b = true <-> a < b.
Proof. unfold Rltb. destruct (Rlt_dec a b); split; intros; auto; try discriminate; contradiction. Qed.
Lemma Rltb_false a b : Rltb a b = false <-> b <= a.
Proof. unfold Rltb. destruct (Rlt_dec a b); split; intros; auto; try discriminate; lra. Qed.

Lemma sqrt_1t2_pos t : 0 < sqrt (1 + t²).
Proof. apply sqrt_lt_R0. unfold Rsqr. nra. Qed.

(* polar representation: existence part of the contract *)
Lemma atan2_polar y x : (x <> 0 \/ y <> 0) ->
  let r := sqrt (x² + y²) in let th := atan2 y x in
  - PI < th <= PI /\ x = r * cos th /\ y = r * sin th.
Proof.
  intros Hnz r th. subst r th. unfold atan2. pose proof PI_RGT_0 as Hpi.
  destruct (total_order_T x 0) as [[Hx|Hx]|Hx].
  - (* x < 0 *)
    set (t := y / x). pose proof (atan_bound t) as [Hb1 Hb2]. pose proof (sqrt_1t2_pos t) as Hs.
    assert (Hr : sqrt (x² + y²) = - x * sqrt (1 + t²)).
    { replace (x² + y²) with ((- x)² * (1 + t²)) by (unfold t, Rsqr; field; lra).
      rewrite sqrt_mult_alt by apply Rle_0_sqr. rewrite sqrt_Rsqr by lra. reflexivity. }
    assert (Hyx : y = t * x) by (unfold t; field; lra).
    destruct (Rle_dec 0 y) as [Hy|Hy].
    + assert (Hix : / x < 0) by (apply Rinv_lt_0_compat; lra). assert (t <= 0) by (unfold t, Rdiv; nra).
      assert (atan t <= 0) by (destruct (Req_dec t 0) as [->|]; [rewrite atan_0; lra | left; rewrite <- atan_0; apply atan_increasing; lra]).
      split; [lra|]. rewrite neg_cos, neg_sin, cos_atan, sin_atan, Hr. split; [field; lra | rewrite Hyx at 1; field; lra].
    + assert (Hix : / x < 0) by (apply Rinv_lt_0_compat; lra). assert (0 < t) by (unfold t, Rdiv; nra).
      assert (0 < atan t) by (rewrite <- atan_0; apply atan_increasing; lra).
      split; [lra|]. replace (atan t - PI) with (atan t + PI - 2 * INR 1 * PI) by (simpl; lra).
      assert (E1 : cos (atan t + PI - 2 * INR 1 * PI) = cos (atan t + PI)).
      { rewrite <- (cos_period (atan t + PI - 2 * INR 1 * PI) 1). f_equal. lra. }
      assert (E2 : sin (atan t + PI - 2 * INR 1 * PI) = sin (atan t + PI)).
      { rewrite <- (sin_period (atan t + PI - 2 * INR 1 * PI) 1). f_equal. lra. }
      rewrite E1, E2, neg_cos, neg_sin, cos_atan, sin_atan, Hr. split; [field; lra | rewrite Hyx at 1; field; lra].
  - (* x = 0 *) subst x. assert (Hy : y <> 0) by (destruct Hnz; [lra | auto]).
    replace (0² + y²) with (y²) by (unfold Rsqr; ring).
    destruct (total_order_T y 0) as [[Hy'|Hy']|Hy']; try lra.
    + rewrite cos_neg, sin_neg, cos_PI2, sin_PI2. replace (y²) with ((-y)²) by (unfold Rsqr; ring). rewrite sqrt_Rsqr by lra. split; [lra|split; lra].
    + rewrite cos_PI2, sin_PI2, sqrt_Rsqr by lra. split; [lra|split; lra].
  - (* x > 0 *)
    set (t := y / x). pose proof (atan_bound t) as [Hb1 Hb2]. pose proof (sqrt_1t2_pos t) as Hs.
    assert (Hr : sqrt (x² + y²) = x * sqrt (1 + t²)).
    { replace (x² + y²) with (x² * (1 + t²)) by (unfold t, Rsqr; field; lra).
      rewrite sqrt_mult_alt by apply Rle_0_sqr. rewrite sqrt_Rsqr by lra. reflexivity. }
    assert (Hyx : y = t * x) by (unfold t; field; lra).
    split; [lra|]. rewrite cos_atan, sin_atan, Hr. split; [field; lra | rewrite Hyx at 1; field; lra].
Qed.

Lemma atan2_0_0 : atan2 0 0 = 0.
Proof.
  unfold atan2. destruct (total_order_T 0 0) as [[H|H]|H]; lra.
Qed.

(* integer multiples of 2 PI: periodicity of cos and sin over Z *)
Lemma IZR_pos_INR p : IZR (Z.pos p) = INR (Pos.to_nat p).
Proof. now rewrite INR_IZR_INZ, positive_nat_Z. Qed.
Lemma cos_period_Z x (k : Z) : cos (x + 2 * IZR k * PI) = cos x.
Proof.
  destruct k as [|p|p].
  - f_equal. simpl. lra.
  - rewrite (IZR_pos_INR p). apply cos_period.
  - rewrite <- (cos_period (x + 2 * IZR (Z.neg p) * PI) (Pos.to_nat p)). f_equal.
    change (Z.neg p) with (- Z.pos p)%Z. rewrite opp_IZR, (IZR_pos_INR p). lra.
Qed.
Lemma sin_period_Z x (k : Z) : sin (x + 2 * IZR k * PI) = sin x.
Proof.
  destruct k as [|p|p].
  - f_equal. simpl. lra.
  - rewrite (IZR_pos_INR p). apply sin_period.
  - rewrite <- (sin_period (x + 2 * IZR (Z.neg p) * PI) (Pos.to_nat p)). f_equal.
    change (Z.neg p) with (- Z.pos p)%Z. rewrite opp_IZR, (IZR_pos_INR p). lra.
Qed.

(* cos d = 1 and |d| < 2 PI force d = 0 *)
Lemma cos_eq_1_small d : cos d = 1 -> - (2 * PI) < d < 2 * PI -> d = 0.
Proof.
  intros Hc Hd. pose proof PI_RGT_0 as Hpi.
  assert (Hs : sin d = 0).
  { pose proof (sin2_cos2 d) as H. rewrite Hc in H. unfold Rsqr in H. nra. }
  apply sin_eq_0_0 in Hs. destruct Hs as [k Hk].
  assert (Hk' : (-2 < k < 2)%Z).
  { split; apply lt_IZR; nra. }
  assert (Hcases : k = (-1)%Z \/ k = 0%Z \/ k = 1%Z) by lia.
  destruct Hcases as [-> | [-> | ->]].
  - exfalso. replace d with (- PI) in Hc by lra. rewrite cos_neg, cos_PI in Hc. lra.
  - lra.
  - exfalso. replace d with PI in Hc by lra. rewrite cos_PI in Hc. lra.
Qed.

(* uniqueness of the principal argument *)
Lemma polar_unique r th1 th2 : 0 < r ->
  - PI < th1 <= PI -> - PI < th2 <= PI ->
  r * cos th1 = r * cos th2 -> r * sin th1 = r * sin th2 -> th1 = th2.
Proof.
  intros Hr H1 H2 Hc Hs.
  assert (Hc' : cos th1 = cos th2) by (apply (Rmult_eq_reg_l r); lra).
  assert (Hs' : sin th1 = sin th2) by (apply (Rmult_eq_reg_l r); lra).
  assert (Hd : cos (th1 - th2) = 1).
  { rewrite cos_minus, Hc', Hs'. pose proof (sin2_cos2 th2) as H. unfold Rsqr in H. lra. }
  apply cos_eq_1_small in Hd; lra.
Qed.

(* the contract in the form used by clients: atan2 (r sin th) (r cos th) = th *)
Lemma atan2_of_polar r th : 0 < r -> - PI < th <= PI ->
  atan2 (r * sin th) (r * cos th) = th.
Proof.
  intros Hr Hth.
  assert (Hnz : r * cos th <> 0 \/ r * sin th <> 0).
  { destruct (Req_dec (cos th) 0) as [Hc|Hc].
    - right. pose proof (sin2_cos2 th) as H. rewrite Hc in H. unfold Rsqr in H. nra.
    - left. nra. }
  destruct (atan2_polar _ _ Hnz) as [Hrange [Hx Hy]].
  assert (Hrr : sqrt ((r * cos th)² + (r * sin th)²) = r).
  { replace ((r * cos th)² + (r * sin th)²) with (r² * ((sin th)² + (cos th)²)) by (unfold Rsqr; ring).
    rewrite sin2_cos2, Rmult_1_r. apply sqrt_Rsqr. lra. }
  rewrite Hrr in Hx, Hy.
  apply (polar_unique r); auto; lra.
Qed.

(* scaling both arguments by a positive factor does not change atan2 *)
Lemma atan2_scale c y x : 0 < c -> atan2 (c * y) (c * x) = atan2 y x.
Proof.
  intros Hc. destruct (Req_dec x 0) as [Hx|Hx]; [destruct (Req_dec y 0) as [Hy|Hy]|].
  - subst. now rewrite !Rmult_0_r.
  - subst. rewrite Rmult_0_r. unfold atan2.
    destruct (total_order_T 0 0) as [[H|H]|H]; try lra.
    destruct (total_order_T (c * y) 0) as [[H1|H1]|H1]; destruct (total_order_T y 0) as [[H2|H2]|H2]; try reflexivity; nra.
  - unfold atan2.
    replace (c * y / (c * x)) with (y / x) by (field; lra).
    destruct (total_order_T (c * x) 0) as [[H1|H1]|H1]; destruct (total_order_T x 0) as [[H2|H2]|H2];
      try reflexivity; try (exfalso; nra).
    destruct (Rle_dec 0 (c * y)); destruct (Rle_dec 0 y); try reflexivity; exfalso; nra.
Qed.
