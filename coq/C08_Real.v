(* C08_Real.v — the weight update of the Gaussian particle filter over Coq's
   real numbers: product form exp lw' = exp lw (l+eps)(t+eps)/(q+eps), with
   the positivity guard of every logarithm proved.  ln / exp are the real
   functions of the standard library.  Axioms: the four real-number axioms of
   Coq's Reals only.  The model functions are the ones of C08_Model, taken at
   the scalar record C08_ROps (and, for the whole step, at the list instance
   of the matrix interface over these scalars). *)
Require Import ZArith Reals Lra Lia List.
Require Import BFL.Ops BFL.ListOps BFL.Density BFL.C01_Model BFL.C08_Model BFL.C08_Struct.
Import ListNotations.
Local Open Scope R_scope.

Definition Rleb8 (a b : R) : bool := if Rle_dec a b then true else false.
Definition Rltb8 (a b : R) : bool := if Rlt_dec a b then true else false.

(* the scalar interface at R.  stiny = 2^-1022 = numeric_limits<double>::min().
   satan2 is not used by the C08 model (any total function would do). *)
Definition C08_ROps : SOps :=
  mkSOps R 0 1 Rplus Rminus Rmult Rdiv Ropp Rleb8 Rltb8 IZR
         sqrt exp ln cos sin acos (fun y x => atan (y / x)) PI (/ IZR (Z.pow 2 1022)).

Lemma tiny_pos : 0 < stiny C08_ROps.
Proof. cbn [stiny C08_ROps]. apply Rinv_0_lt_compat. apply IZR_lt. reflexivity. Qed.

(* the arguments of the three logarithms are positive *)
Lemma weight_log_args_positive (l t q : R) :
  0 <= l -> 0 <= t -> 0 <= q ->
  0 < l + stiny C08_ROps /\ 0 < t + stiny C08_ROps /\ 0 < q + stiny C08_ROps.
Proof. pose proof tiny_pos. intros; lra. Qed.

Lemma gpf_weight_R (lw l t q : R) :
  gpf_weight C08_ROps lw l t q =
  lw + ln (l + stiny C08_ROps) + ln (t + stiny C08_ROps) - ln (q + stiny C08_ROps).
Proof. reflexivity. Qed.

(* exp lw' = exp lw * (l + eps) * (t + eps) / (q + eps) *)
Lemma weight_product_form (lw l t q : R) :
  0 <= l -> 0 <= t -> 0 <= q ->
  exp (gpf_weight C08_ROps lw l t q) =
  exp lw * (l + stiny C08_ROps) * (t + stiny C08_ROps) / (q + stiny C08_ROps).
Proof.
  intros Hl Ht Hq. destruct (weight_log_args_positive l t q Hl Ht Hq) as (Pl & Pt & Pq).
  rewrite gpf_weight_R. unfold Rminus, Rdiv.
  rewrite !exp_plus, exp_Ropp, !exp_ln by assumption. reflexivity.
Qed.

(* without eps the update is the textbook w' = w l t / q (q > 0); eps only guards ln 0 *)
Lemma weight_ratio_bounds (lw l t q : R) :
  0 <= l -> 0 <= t -> 0 <= q -> 0 < exp (gpf_weight C08_ROps lw l t q).
Proof. intros. apply exp_pos. Qed.

(* ---- the whole correction step at real scalars ------------------------------ *)
Section Step.
Variable sq eg : nat -> lmx C08_ROps -> lmx C08_ROps.
Let O := ListMat C08_ROps sq eg.
Variable n : nat.

(* a Gaussian density is positive: q_i needs no premise *)
Lemma density_pos d (x m : M O d 1) (P : M O d d) : 0 < density (O:=O) x m P.
Proof. unfold density. cbn [sexp sc O ListMat C08_ROps]. apply exp_pos. Qed.

Variable gc : gstep O n.
Variable lik : list (M O n 1) -> bool * list R.
Variable trans : list (M O n 1) -> list (M O n 1) -> list R.
Variable zs : list (M O n 1).
Variables pred old : pset O n.

Let g := gc (gm_of pred) (gm_of old).
Let xs := gpf_drawn gc zs pred old.
Let r := gpf_correct gc lik trans zs pred old.

Lemma correct_weight_product (i : nat) (d : particle O n) :
  fst (lik xs) = true -> (i < length pred)%nat ->
  length (snd (lik xs)) = length pred -> length (trans (map pstate pred) xs) = length pred ->
  let li := nth i (snd (lik xs)) 0 in
  let ti := nth i (trans (map pstate pred) xs) 0 in
  let b := belief_at g i in
  let qi := density (O:=O) (nth i xs (mzero n 1)) (gmean b) (gcov b) in
  0 <= li -> 0 <= ti ->
  0 < qi /\ 0 < li + stiny C08_ROps /\ 0 < ti + stiny C08_ROps /\ 0 < qi + stiny C08_ROps /\
  exp (plw (nth i (cr_particles r) d)) =
  exp (plw (nth i pred (dparticle O n))) * (li + stiny C08_ROps) * (ti + stiny C08_ROps)
  / (qi + stiny C08_ROps).
Proof.
  intros Hv Hi _ _ li ti b qi Hl Ht.
  assert (Hq : 0 < qi) by apply density_pos.
  destruct (weight_log_args_positive li ti qi Hl Ht (Rlt_le _ _ Hq)) as (Pl & Pt & Pq).
  repeat (split; [assumption|]).
  unfold r. rewrite (correct_weight O n gc lik trans zs pred old Hv i d Hi). cbn zeta.
  apply (weight_product_form _ li ti qi); try assumption. now apply Rlt_le.
Qed.

(* the shipped likelihood and transition models return non-negative values *)
Lemma gauss_lik_h_nonneg m (scale : R) v1 v2 v3 v4 (h : M O n 1 -> M O m 1) (R0 : M O m m) (y : M O m 1) ys i :
  0 <= scale -> 0 <= nth i (snd (gauss_lik_h (O:=O) scale v1 v2 v3 v4 h R0 y ys)) 0.
Proof.
  intros Hs. unfold gauss_lik_h.
  assert (Z : 0 <= nth i (snd (false, [s0 (sc O)])) 0) by (destruct i as [|[|i]]; cbn; lra).
  destruct v1; [|exact Z]. destruct v2; [|exact Z]. destruct v3; [|exact Z]. destruct v4; [|exact Z].
  cbn [negb snd].
  destruct (Nat.lt_ge_cases i (length ys)) as [Hi|Hi].
  - set (f := fun x : M O n 1 => smul (sc O) scale (density (lin_innovation (h x) y) (mzero m 1) R0)).
    rewrite (nth_indep _ 0 (f (mzero n 1))) by (rewrite map_length; exact Hi).
    rewrite (map_nth f). unfold f. cbn [smul sc O ListMat C08_ROps].
    apply Rmult_le_pos; [exact Hs | apply Rlt_le; exact (density_pos m _ _ R0)].
  - rewrite nth_overflow by (rewrite map_length; exact Hi). lra.
Qed.

Lemma gauss_lik_nonneg m (scale : R) (H : M O m n) (R0 : M O m m) (y : M O m 1) v ys i :
  0 <= scale -> 0 <= nth i (snd (gauss_lik (O:=O) scale v H R0 y ys)) 0.
Proof. apply gauss_lik_h_nonneg. Qed.

Lemma lin_trans_nonneg (F Q : M O n n) ps cs i : 0 <= nth i (lin_trans (O:=O) F Q ps cs) 0.
Proof.
  unfold lin_trans.
  destruct (Nat.lt_ge_cases i (length (combine ps cs))) as [Hi|Hi].
  - set (f := fun pc : M O n 1 * M O n 1 => density (O:=O) (msub (snd pc) (mmul F (fst pc))) (mzero n 1) Q).
    rewrite (nth_indep _ 0 (f (mzero n 1, mzero n 1))) by (rewrite map_length; exact Hi).
    rewrite (map_nth f). unfold f. apply Rlt_le. exact (density_pos n _ _ Q).
  - rewrite nth_overflow by (rewrite map_length; exact Hi). lra.
Qed.

(* ---- histories: the log-weights telescope ------------------------------------- *)
(* increment of log-weight i contributed by step s taken from state st *)
Definition step_incr (st : fstate O n) (s : step_in O n) (i : nat) : R :=
  let st' := gpf_step st s in
  let gC := si_gc s (gm_of (fs_pred st')) (gm_of (fs_corr st)) in
  let xs := gpf_drawn (si_gc s) (si_zs s) (fs_pred st') (fs_corr st) in
  gpf_weight C08_ROps 0 (nth i (fs_lik st') 0)
             (nth i (si_trans s (map pstate (fs_pred st')) xs) 0)
             (density (O:=O) (nth i xs (mzero n 1)) (gmean (belief_at gC i)) (gcov (belief_at gC i))).

Fixpoint incr_sum (st : fstate O n) (h : list (step_in O n)) (i : nat) : R :=
  match h with
  | [] => 0
  | s :: h' => step_incr st s i + incr_sum (gpf_step st s) h' i
  end.

(* every correction of the history is valid and its likelihood / transition models return one
   value per particle (their contract) *)
Fixpoint all_valid (N : nat) (st : fstate O n) (h : list (step_in O n)) : Prop :=
  match h with
  | [] => True
  | s :: h' =>
      let st' := gpf_step st s in
      fs_valid st' = true /\ length (fs_lik st') = N /\
      length (si_trans s (map pstate (fs_pred st'))
                       (gpf_drawn (si_gc s) (si_zs s) (fs_pred st') (fs_corr st))) = N /\
      all_valid N st' h'
  end.

Lemma gpf_weight_split (lw l t q : R) :
  gpf_weight C08_ROps lw l t q = lw + gpf_weight C08_ROps 0 l t q.
Proof. rewrite !gpf_weight_R. lra. Qed.

Lemma weights_telescope (N : nat) (h : list (step_in O n)) : forall (st : fstate O n) (i : nat),
  length (fs_pred st) = N -> length (fs_corr st) = N ->
  Forall (fun s => shape_ok O n (si_gp s) /\ shape_ok O n (si_gc s)) h ->
  all_valid N st h -> (i < N)%nat ->
  plw (nth i (fs_corr (gpf_run st h)) (dparticle O n)) =
  plw (nth i (fs_corr st) (dparticle O n)) + incr_sum st h i.
Proof.
  induction h as [|s h IH]; intros st i Lp Lc HF Hv Hi.
  - cbn. lra.
  - apply Forall_cons_iff in HF. destruct HF as [[Sp Sc] HF']. destruct Hv as (Hv1 & Hl1 & Hl2 & Hv).
    pose proof (gpf_step_formulae O n N st s Lp Lc Sp Sc) as SF.
    destruct SF as (L1 & L2 & _ & Hw & _ & _ & _ & Hval).
    destruct (Hval Hv1) as (_ & _ & Hall). destruct (Hall Hl1 Hl2 i Hi) as [_ Hwi].
    change (gpf_run st (s :: h)) with (gpf_run (gpf_step st s) h).
    rewrite (IH (gpf_step st s) i L1 L2 HF' Hv Hi). cbn [incr_sum].
    rewrite Hwi. rewrite gpf_weight_split.
    assert (E : plw (nth i (fs_pred (gpf_step st s)) (dparticle O n)) = plw (nth i (fs_corr st) (dparticle O n))).
    { rewrite <- !(map_nth plw). now rewrite Hw. }
    rewrite E, Rplus_assoc. reflexivity.
Qed.

End Step.
