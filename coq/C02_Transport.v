(* C02_Transport.v — the Kalman prediction model executed at the LIST instance
   (the instance that is extracted and run), with the scalars of an arbitrary
   realFieldType, computes the same mixture as the model at the MathComp
   instance (the instance the C02 theorems are about).  This closes, for this
   step, the gap "same Gallina term applied to two operation records": the
   list record's operations are proved to implement the interface on
   well-formed inputs (ListOpsCorrect.v), and the step preserves
   well-formedness.  Only rounding separates the executed model from the
   theorems.  Here: the representation relation (repr, repr_gmix: entries,
   weights AND descriptors), LinearStateModel::propagate with all its branches
   for an arbitrary exogenous function that respects the representation, and
   the whole step with the three skip flags.  C02_TransportEntry.v instantiates
   this at the extracted entry points (affine exogenous model, sequences, spec).
   The basic lemmas (repr, repr_mul, repr_add, repr_tr) are shared with the
   transports of C01, C03, C04. *)
Require Import ZArith List Bool.
Require Import BFL.Ops BFL.ListOps BFL.C02_Model.
From mathcomp Require Import all_ssreflect all_algebra.
Require Import BFL.MxOps BFL.ListOpsCorrect.
Set Implicit Arguments.
Unset Strict Implicit.
Unset Printing Implicit Defensive.
Import GRing.Theory.
Local Open Scope ring_scope.

Section T.
Variable F : realFieldType.
Variable tr : Transc F.
Variable sq : forall n, 'M[F]_n -> 'M[F]_n.
Variable eg : forall n, 'M[F]_n -> 'M[F]_(n,1).
Let S := FOps tr.
Let OL := ListMat S (fun _ X => X) (fun _ X => X).
Let OM := MxMat tr sq eg.

(* a list matrix represents a MathComp matrix *)
Definition repr m n (l : lmxF F) (A : 'M[F]_(m,n)) : Prop := wf m n l /\ toM m n l = A.
Arguments repr : clear implicits.

Lemma repr_mul m n p l1 A1 l2 A2 : repr m n l1 A1 -> repr n p l2 A2 ->
  repr m p (@mmul OL m n p l1 l2) (A1 *m A2).
Proof.
move=> [w1 <-] [w2 <-]; split; last exact: toM_lmul.
by apply: lmul_wf; case: w1.
Qed.

Lemma repr_add m n l1 A1 l2 A2 : repr m n l1 A1 -> repr m n l2 A2 ->
  repr m n (@madd OL m n l1 l2) (A1 + A2).
Proof. by move=> [w1 <-] [w2 <-]; split; [exact: zipw2_wf | exact: toM_madd]. Qed.

Lemma repr_tr m n l A : repr m n l A -> repr n m (@mtr OL m n l) (A^T).
Proof. by move=> [w <-]; split; [exact: ltr_wf | exact: toM_ltr]. Qed.

(* mixtures *)
Definition repr_covs n (ls : list (lmxF F)) (As : list 'M[F]_n) : Prop :=
  List.Forall2 (fun l A => repr n n l A) ls As.

Definition repr_gmix n k (gl : gmix OL n k) (gm : gmix OM n k) : Prop :=
  repr n k (gm_means gl) (gm_means gm : 'M[F]_(n,k)) /\
  repr_covs (gm_covs gl) (gm_covs gm) /\
  gm_weights gl = gm_weights gm /\
  gm_layout gl = gm_layout gm.

Definition repr_exo n k (ul : option (lmxF F -> lmxF F)) (um : option ('M[F]_(n,k) -> 'M[F]_(n,k))) : Prop :=
  match ul, um with
  | None, None => True
  | Some fl, Some fm => forall l A, repr n k l A -> repr n k (fl l) (fm A)
  | _, _ => False
  end.

Lemma repr_cov_step n lF (Fm : 'M[F]_n) lQ (Q : 'M[F]_n) lP (P : 'M[F]_n) :
  repr n n lF Fm -> repr n n lQ Q -> repr n n lP P ->
  repr n n (@kf_predict_cov OL n lF lQ lP) (@kf_predict_cov OM n Fm Q P).
Proof.
move=> rF rQ rP; rewrite /kf_predict_cov.
by apply: repr_add => //; apply: repr_mul; [apply: repr_mul | apply: repr_tr].
Qed.

Lemma repr_covs_map n lF (Fm : 'M[F]_n) lQ (Q : 'M[F]_n) ls As :
  repr n n lF Fm -> repr n n lQ Q -> repr_covs ls As ->
  repr_covs (List.map (@kf_predict_cov OL n lF lQ) ls) (List.map (@kf_predict_cov OM n Fm Q) As).
Proof.
move=> rF rQ; elim=> [|l A ls' As' r1 _ IH] /=; first exact: List.Forall2_nil.
by apply: List.Forall2_cons => //; apply: repr_cov_step.
Qed.

Lemma repr_covs_length n ls (As : list 'M[F]_n) : repr_covs ls As -> length ls = length As.
Proof. by elim=> [|l A ls' As' _ _ IH] //=; rewrite IH. Qed.

Lemma repr_covs_skipn n j ls (As : list 'M[F]_n) :
  repr_covs ls As -> repr_covs (List.skipn j ls) (List.skipn j As).
Proof.
move=> r; elim: j ls As r => [|j IH] ls As r //.
by case: r => [|l A ls' As' _ r'] /=; [exact: List.Forall2_nil | apply: IH].
Qed.

Lemma repr_covs_app n l1 (A1 : list 'M[F]_n) l2 A2 :
  repr_covs l1 A1 -> repr_covs l2 A2 -> repr_covs (l1 ++ l2) (A1 ++ A2).
Proof. by move=> r1 r2; apply: List.Forall2_app. Qed.

(* LinearStateModel::propagate, all branches (the last one keeps the content of the output) *)
Theorem lin_propagate_transport n k lF (Fm : 'M[F]_n) ul um ss se lcur (cur : 'M[F]_(n,k)) lold (old : 'M[F]_(n,k)) :
  repr n n lF Fm -> repr_exo ul um -> repr n k lcur cur -> repr n k lold old ->
  repr n k (@lin_propagate OL n k lF ul ss se lcur lold) (@lin_propagate OM n k Fm um ss se cur old).
Proof.
move=> rF rU rC rO; rewrite /lin_propagate.
case: ul um rU => [fl|] [fm|] //= rU.
- case: ss; case: se => //=.
  + exact: rU.
  + exact: repr_mul.
  + by apply: repr_add; [exact: repr_mul | exact: rU].
- by case: ss => //=; exact: repr_mul.
Qed.

(* the whole prediction step commutes with the representation *)
Theorem kf_predict_transport n k lF (Fm : 'M[F]_n) lQ (Q : 'M[F]_n) ul um
        (prevl oldl : gmix OL n k) (prevm oldm : gmix OM n k) sp ss se :
  repr n n lF Fm -> repr n n lQ Q -> repr_exo ul um ->
  repr_gmix prevl prevm -> repr_gmix oldl oldm ->
  repr_gmix (@gaussian_predict OL n k lF lQ ul sp ss se prevl oldl)
            (@gaussian_predict OM n k Fm Q um sp ss se prevm oldm).
Proof.
move=> rF rQ rU rP rO.
rewrite /gaussian_predict; case: sp => //=.
rewrite /kf_predict_step; case: ss => //=.
case: rP => rPm [rPc [rPw rPl]]; case: rO => rOm [rOc [rOw rOl]].
split; last split => //.
- exact: (@lin_propagate_transport n k lF Fm ul um false se).
- rewrite /overwrite_prefix !List.map_length (repr_covs_length rPc).
  apply: repr_covs_app; first exact: repr_covs_map.
  exact: repr_covs_skipn.
Qed.

End T.

Print Assumptions kf_predict_transport.
