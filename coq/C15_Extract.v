(* C15_Extract.v — executable entry points of the C15 model at the list
   instance, for the correspondence check.  ExtrOcamlBasic only. *)
Require Import ZArith List.
Require Import BFL.Ops BFL.ListOps BFL.Density BFL.C15_Model.
Require Import Extraction ExtrOcamlBasic.
Import ListNotations.

Definition c15_O (S : SOps) : MatOps := ListMat S (fun _ A => A) (fun _ A => A).

(* utils::multivariate_gaussian_log_density / _density on a batch *)
Definition c15_logdens (S : SOps) (d b : nat) (input mean cov : lmx S) : list (T S) :=
  @log_density_mat (c15_O S) d b input mean cov.
Definition c15_dens (S : SOps) (d b : nat) (input mean cov : lmx S) : list (T S) :=
  @density_mat (c15_O S) d b input mean cov.

(* utils::multivariate_gaussian_log_density_UVR / _density_UVR *)
Definition c15_logdens_uvr (S : SOps) (d b k bs rc : nat) (input mean U V R : lmx S)
  : list (T S) :=
  @log_density_uvr (c15_O S) d b k bs rc input mean U V R.
Definition c15_dens_uvr (S : SOps) (d b k bs rc : nat) (input mean U V R : lmx S)
  : list (T S) :=
  @density_uvr (c15_O S) d b k bs rc input mean U V R.

(* spec: the assembled covariance S = U V + blockdiag(R), and det S through the
   determinant lemma as the code computes it *)
Definition c15_assembled (S : SOps) (d k bs rc : nat) (U V R : lmx S) : lmx S :=
  @assembled_S (c15_O S) d k bs rc U V R.
Definition c15_det_S (S : SOps) (d k bs rc : nat) (U V R : lmx S) : T S :=
  @uvr_det_S (c15_O S) d k bs rc U V R.

(* utils::log_sum_exp *)
Definition c15_lse (S : SOps) (x0 : T S) (l : list (T S)) : T S := @lse S x0 l.
Definition c15_lse_shifted (S : SOps) (x0 : T S) (l : list (T S)) : list (T S) :=
  @lse_shifted S x0 l.

Extraction "C15_model.ml" c15_logdens c15_dens c15_logdens_uvr c15_dens_uvr
           c15_assembled c15_det_S c15_lse c15_lse_shifted.
