(* C01_Extract.v — executable entry points of the C01 model at the list
   instance, for the correspondence check.  ExtrOcamlBasic only. *)
Require Import ZArith List.
Require Import BFL.Ops BFL.ListOps BFL.Density BFL.C01_Model.
Require Import Extraction ExtrOcamlBasic.
Import ListNotations.

Definition c01_O (S : SOps) : MatOps := ListMat S (fun _ A => A) (fun _ A => A).

(* per component: corrected mean, corrected covariance, innovation, Py, likelihood *)
Definition c01_run (S : SOps) (n m : nat) (H R y : lmx S) (cs : list (lmx S * lmx S))
  : list (lmx S * lmx S * lmx S * lmx S * T S) :=
  map (fun o : kf_out (c01_O S) n m =>
         (gmean (ko_comp o), gcov (ko_comp o), ko_innov o, ko_Py o, kf_likelihood o))
      (@kf_correct (c01_O S) n m H R y
         (map (fun p => @mkGcomp (c01_O S) n (fst p) (snd p)) cs)).

(* spec: information-form posterior and the density N(y; Hm, HPH^T+R) *)
Definition c01_spec (S : SOps) (n m : nat) (H R y : lmx S) (cs : list (lmx S * lmx S))
  : list (lmx S * lmx S * T S) :=
  map (fun p =>
         let c := @mkGcomp (c01_O S) n (fst p) (snd p) in
         let q := @info_posterior (c01_O S) n m H R y c in
         (gmean q, gcov q,
          @density (c01_O S) m y (@mmul (c01_O S) m n 1 H (fst p))
                   (@madd (c01_O S) m m (@mmul (c01_O S) m n m (@mmul (c01_O S) m n n H (snd p)) (@mtr (c01_O S) m n H)) R)))
      cs.

Extraction "C01_model.ml" c01_run c01_spec.
