(* C12_Payload.v — the sensor interface as the library really sees it.

   C12_Model describes a call into the measurement model by an `option`: Some value / None.
   The C++ interface is richer: every call returns a validity FLAG *and* a PAYLOAD
   (std::pair<bool, bfl::Data>, std::pair<bool, MatrixXd>), and a model that reports
   "unavailable" still hands back some payload next to its false flag: an empty bfl::Data, a
   matrix of another shape, a stale matrix, a value of another type.  bfl::Data is bfl::any:
   reading it is any_cast<MatrixXd&&>, which THROWS bad_any_cast unless the any holds a matrix.
   "The correction leaves the belief untouched" therefore has a second half the option model
   cannot express: on a failing path the payload must never be cast or read, otherwise
   correct() ends with an exception (or garbage) instead of `corr = pred`.  (Seeded change
   C12-r5 is exactly that: a helper that casts before the caller tests the flag.)

   This file transcribes the same code with flags, payloads, casts and their ORDER
     KFCorrection.cpp:48-95      only the innovation is cast, after all four flags (:95)
     sigma_point.cpp:131-147     fun_data is cast after its flag (:146)
     UKFCorrection.cpp:91-128    the innovation is cast after its flag (:128)
     SUKFCorrection.cpp:79-139   pred cast after its flag (:111), innovation after its flag (:139)
     GaussianLikelihood.cpp:25-75 each payload cast right after its own flag
   in an exception monad, and proves
     (a) *_raw_is_skeleton: when every payload delivered with a TRUE flag is a matrix, the
         payload-level step is the option-level skeleton of C12_Model applied to the view
         "false flag = None" -- so every theorem of C12_Proofs is a theorem about the
         payload-level step, whatever accompanies the false flags;
     (b) *_raw_failure: when a call the class honours reports unavailability, the step returns
         normally (no exception), with the predicted belief and no likelihood -- for ANY
         payloads whatsoever, also ill-typed ones next to true flags of calls made earlier;
     (c) kf_cast_before_flag_refuted: the transcription of C12-r5 (cast, then test) throws on
         (false, empty Data).
   No axioms. *)
Require Import List Bool.
Require Import BFL.C12_Model BFL.C12_Proofs.
Import ListNotations.
Local Open Scope bool_scope.

(* bfl::Data (bfl::any): empty, holding a MatrixXd, holding a value of some other type *)
Inductive data (M : Type) := DEmpty | DMat (m : M) | DOther.
Arguments DEmpty {M}. Arguments DMat {M}. Arguments DOther {M}.

(* any_cast<MatrixXd&&>; None = bad_any_cast is thrown *)
Definition cast {M : Type} (d : data M) : option M := match d with DMat m => Some m | _ => None end.

Inductive exn (A : Type) := Ok (a : A) | Throw.
Arguments Ok {A}. Arguments Throw {A}.

Section Raw.
Variables G St Y X YP NU RC PY PM PXY LK RNG GS : Type.

(* the measurement model as the library sees it *)
Record rmodel := mkRM {
  rm_measure : bool * data Y;
  rm_predicted : X -> bool * data YP;
  rm_innovation : data YP -> data Y -> bool * data NU;
  rm_noisecov : bool * RC
}.

Definition flagged {A : Type} (r : bool * A) : option A := if fst r then Some (snd r) else None.
Definition flagged_cast {A : Type} (r : bool * data A) : option A := if fst r then cast (snd r) else None.

(* ------------------------------------------------------------------ KFCorrection *)
Variable kf_px : G -> X.
Variable kf_upd : G -> NU -> RC -> G -> G * PY.

Definition kf_step_raw (rm : rmodel) (pred out : G) (st0 : kf_state NU PY) : exn (result G (kf_state NU PY)) :=
  let st := mkKfSt None (kf_py st0) in
  let M := rm_measure rm in
  if negb (fst M) then Ok (mkRes pred st [Measure]) else
  let P := rm_predicted rm (kf_px pred) in
  if negb (fst P) then Ok (mkRes pred st [Measure; Predicted]) else
  (* :75 both payloads are handed on as bfl::Data, uncast *)
  let I := rm_innovation rm (snd P) (snd M) in
  if negb (fst I) then Ok (mkRes pred st [Measure; Predicted; Innovation]) else
  let N := rm_noisecov rm in
  if negb (fst N) then Ok (mkRes pred st [Measure; Predicted; Innovation; NoiseCov]) else
  (* :95 innovations_ = any_cast<MatrixXd&&>(std::move(innovation)) *)
  match cast (snd I) with
  | None => Throw
  | Some nu => let '(g, py) := kf_upd pred nu (snd N) out in
               Ok (mkRes g (mkKfSt (Some nu) py) [Measure; Predicted; Innovation; NoiseCov])
  end.

(* the option-level sensor this is a refinement of: measurement and predicted measurement stay bfl::Data *)
Definition kf_view (rm : rmodel) : mmodel (data Y) X (data YP) NU RC :=
  mkMM true (flagged (rm_measure rm)) (fun x => flagged (rm_predicted rm x))
       (fun a b => flagged_cast (rm_innovation rm a b)) (rm_noisecov rm).

Lemma kf_raw_is_skeleton (rm : rmodel) pred out st :
  (* the innovation delivered with a true flag is a matrix *)
  (fst (rm_innovation rm (snd (rm_predicted rm (kf_px pred))) (snd (rm_measure rm))) = true ->
   cast (snd (rm_innovation rm (snd (rm_predicted rm (kf_px pred))) (snd (rm_measure rm)))) <> None) ->
  kf_step_raw rm pred out st = Ok (kf_step kf_px kf_upd (kf_view rm) pred out st).
Proof.
  unfold kf_step_raw, kf_step, kf_view, flagged, flagged_cast; simpl.
  destruct (rm_measure rm) as [vM dM]; simpl. destruct vM; simpl; [|reflexivity].
  destruct (rm_predicted rm (kf_px pred)) as [vP dP]; simpl. destruct vP; simpl; [|reflexivity].
  destruct (rm_innovation rm dP dM) as [vI dI]; simpl. destruct vI; simpl; [|reflexivity].
  intros WT. destruct (rm_noisecov rm) as [vN R]; simpl.
  destruct (cast dI) as [nu|] eqn:E; [|exfalso; apply WT; reflexivity].
  destruct vN; simpl; [|reflexivity].
  destruct (kf_upd pred nu R out); reflexivity.
Qed.

Definition kf_fails_raw (rm : rmodel) (pred : G) : Prop :=
  fst (rm_measure rm) = false \/
  fst (rm_predicted rm (kf_px pred)) = false \/
  fst (rm_innovation rm (snd (rm_predicted rm (kf_px pred))) (snd (rm_measure rm))) = false \/
  fst (rm_noisecov rm) = false.

(* no premise on any payload *)
Lemma kf_raw_failure (rm : rmodel) pred out st :
  kf_fails_raw rm pred ->
  exists l, kf_step_raw rm pred out st = Ok (mkRes pred (mkKfSt None (kf_py st)) l).
Proof.
  unfold kf_fails_raw, kf_step_raw.
  destruct (rm_measure rm) as [vM dM]; simpl. destruct vM; simpl; [|eexists; reflexivity].
  destruct (rm_predicted rm (kf_px pred)) as [vP dP]; simpl. destruct vP; simpl; [|eexists; reflexivity].
  destruct (rm_innovation rm dP dM) as [vI dI]; simpl. destruct vI; simpl; [|eexists; reflexivity].
  destruct (rm_noisecov rm) as [vN R]; simpl. destruct vN; simpl; [|eexists; reflexivity].
  intros [H|[H|[H|H]]]; discriminate.
Qed.

(* the transcription of seeded change C12-r5: GaussianCorrection::evaluateInnovation casts the payload
   BEFORE the caller looks at the flag *)
Definition kf_step_cast_before_flag (rm : rmodel) (pred out : G) (st0 : kf_state NU PY) : exn (result G (kf_state NU PY)) :=
  let st := mkKfSt None (kf_py st0) in
  let M := rm_measure rm in
  if negb (fst M) then Ok (mkRes pred st [Measure]) else
  let P := rm_predicted rm (kf_px pred) in
  if negb (fst P) then Ok (mkRes pred st [Measure; Predicted]) else
  let I := rm_innovation rm (snd P) (snd M) in
  match cast (snd I) with
  | None => Throw
  | Some nu =>
    if negb (fst I) then Ok (mkRes pred st [Measure; Predicted; Innovation]) else
    let N := rm_noisecov rm in
    if negb (fst N) then Ok (mkRes pred st [Measure; Predicted; Innovation; NoiseCov]) else
    let '(g, py) := kf_upd pred nu (snd N) out in
    Ok (mkRes g (mkKfSt (Some nu) py) [Measure; Predicted; Innovation; NoiseCov])
  end.

(* ------------------------------------------------------------------ unscented transform / UKFCorrection *)
Variable sigma_of : G -> X.
Variable ut_moments : G -> YP -> PM * PXY.
Variable pm_default : PM.
Variable pxy_empty : PXY.
Variable pm_add_noise : PM -> RC -> PM.
Variable ukf_augment : G -> RC -> G.
Variable pm_mean : PM -> YP.
Variable ukf_upd : G -> PM -> PXY -> NU -> G -> G.

(* sigma_point.cpp:131-147: the flag is tested (:141), then fun_data is cast (:146) *)
Definition ut_base_raw (rm : rmodel) (input : G) : exn (bool * PM * PXY) :=
  let P := rm_predicted rm (sigma_of input) in
  if negb (fst P) then Ok (false, pm_default, pxy_empty) else
  match cast (snd P) with
  | None => Throw
  | Some yp => let '(pm, pxy) := ut_moments input yp in Ok (true, pm, pxy)
  end.

Definition ukf_step_raw (additive : bool) (rm : rmodel) (pred out : G) (st : ukf_state NU PM)
  : exn (result G (ukf_state NU PM)) :=
  let M := rm_measure rm in
  if negb (fst M) then Ok (mkRes pred (mkUkfSt None (u_pm st)) [Measure]) else
  let input := if additive then pred else ukf_augment pred (snd (rm_noisecov rm)) in
  let pre := if additive then [] else [NoiseCov] in
  match ut_base_raw rm input with
  | Throw => Throw
  | Ok (false, pm, _) => Ok (mkRes pred (mkUkfSt None pm) (Measure :: pre ++ [Predicted]))
  | Ok (true, pm0, pxy) =>
    let pm := if additive then pm_add_noise pm0 (snd (rm_noisecov rm)) else pm0 in
    let l := Measure :: pre ++ [Predicted] ++ (if additive then [NoiseCov] else []) in
    (* :121-122 y_p is a MatrixXd; the measurement is handed on as bfl::Data *)
    let I := rm_innovation rm (DMat (pm_mean pm)) (snd M) in
    if negb (fst I) then Ok (mkRes pred (mkUkfSt None pm) (l ++ [Innovation])) else
    match cast (snd I) with                                             (* :128 *)
    | None => Throw
    | Some nu => Ok (mkRes (ukf_upd pred pm pxy nu out) (mkUkfSt (Some nu) pm) (l ++ [Innovation]))
    end
  end.

(* predicted measurements and innovations are read as matrices; the measurement stays bfl::Data *)
Definition u_view (rm : rmodel) : mmodel (data Y) X YP NU RC :=
  mkMM true (flagged (rm_measure rm)) (fun x => flagged_cast (rm_predicted rm x))
       (fun a b => flagged_cast (rm_innovation rm (DMat a) b)) (rm_noisecov rm).

Definition ukf_input_raw (additive : bool) (rm : rmodel) (pred : G) : G :=
  if additive then pred else ukf_augment pred (snd (rm_noisecov rm)).
Definition ukf_pm_raw (additive : bool) (rm : rmodel) (pred : G) (yp : YP) : PM :=
  let pm := fst (ut_moments (ukf_input_raw additive rm pred) yp) in
  if additive then pm_add_noise pm (snd (rm_noisecov rm)) else pm.

(* every payload that comes with a true flag at the arguments of THIS call is a matrix *)
Definition ukf_well_typed (additive : bool) (rm : rmodel) (pred : G) : Prop :=
  let P := rm_predicted rm (sigma_of (ukf_input_raw additive rm pred)) in
  (fst P = true -> cast (snd P) <> None) /\
  (forall yp, cast (snd P) = Some yp ->
     let I := rm_innovation rm (DMat (pm_mean (ukf_pm_raw additive rm pred yp))) (snd (rm_measure rm)) in
     fst I = true -> cast (snd I) <> None).

Lemma ukf_raw_is_skeleton (additive : bool) (rm : rmodel) pred out st :
  ukf_well_typed additive rm pred ->
  ukf_step_raw additive rm pred out st =
  Ok (ukf_step sigma_of ut_moments pm_default pxy_empty pm_add_noise ukf_augment pm_mean ukf_upd additive (u_view rm) pred out st).
Proof.
  unfold ukf_well_typed, ukf_pm_raw, ukf_input_raw, ukf_step_raw, ukf_step, ut_additive, ut_generic, ut_base, ut_base_raw,
         u_view, flagged, flagged_cast; simpl.
  destruct (rm_measure rm) as [vM dM]; simpl. destruct vM; simpl; [|reflexivity].
  destruct additive; simpl.
  - destruct (rm_predicted rm (sigma_of pred)) as [vP dP]; simpl. destruct vP; simpl; [|intros _; reflexivity].
    intros [W1 W2]. destruct (cast dP) as [yp|] eqn:E; [|exfalso; apply W1; reflexivity].
    specialize (W2 yp eq_refl). destruct (ut_moments pred yp) as [pm pxy]; simpl in *.
    destruct (rm_innovation rm (DMat (pm_mean (pm_add_noise pm (snd (rm_noisecov rm))))) dM) as [vI dI]; simpl in *.
    destruct vI; simpl; [|reflexivity].
    destruct (cast dI) as [nu|] eqn:E2; [reflexivity|exfalso; apply W2; reflexivity].
  - destruct (rm_predicted rm (sigma_of (ukf_augment pred (snd (rm_noisecov rm))))) as [vP dP]; simpl. destruct vP; simpl; [|intros _; reflexivity].
    intros [W1 W2]. destruct (cast dP) as [yp|] eqn:E; [|exfalso; apply W1; reflexivity].
    specialize (W2 yp eq_refl). destruct (ut_moments (ukf_augment pred (snd (rm_noisecov rm))) yp) as [pm pxy]; simpl in *.
    destruct (rm_innovation rm (DMat (pm_mean pm)) dM) as [vI dI]; simpl in *.
    destruct vI; simpl; [|reflexivity].
    destruct (cast dI) as [nu|] eqn:E2; [reflexivity|exfalso; apply W2; reflexivity].
Qed.

(* a call the class honours reports unavailability (the innovation call exists only after the predicted
   measurement was delivered as a matrix) *)
Definition ukf_fails_raw (additive : bool) (rm : rmodel) (pred : G) : Prop :=
  let P := rm_predicted rm (sigma_of (ukf_input_raw additive rm pred)) in
  fst (rm_measure rm) = false \/ fst P = false \/
  (exists yp, cast (snd P) = Some yp /\
     fst (rm_innovation rm (DMat (pm_mean (ukf_pm_raw additive rm pred yp))) (snd (rm_measure rm))) = false).

Lemma ukf_raw_failure (additive : bool) (rm : rmodel) pred out st :
  ukf_fails_raw additive rm pred ->
  exists pm l, ukf_step_raw additive rm pred out st = Ok (mkRes pred (mkUkfSt None pm) l).
Proof.
  unfold ukf_fails_raw, ukf_pm_raw, ukf_input_raw, ukf_step_raw, ut_base_raw; simpl.
  destruct (rm_measure rm) as [vM dM]; simpl. destruct vM; simpl; [|do 2 eexists; reflexivity].
  destruct additive; simpl.
  - destruct (rm_predicted rm (sigma_of pred)) as [vP dP]; simpl. destruct vP; simpl; [|do 2 eexists; reflexivity].
    intros [H|[H|[yp [E H]]]]; try discriminate. rewrite E.
    destruct (ut_moments pred yp) as [pm pxy]; simpl in *. rewrite H; simpl. do 2 eexists; reflexivity.
  - destruct (rm_predicted rm (sigma_of (ukf_augment pred (snd (rm_noisecov rm))))) as [vP dP]; simpl. destruct vP; simpl; [|do 2 eexists; reflexivity].
    intros [H|[H|[yp [E H]]]]; try discriminate. rewrite E.
    destruct (ut_moments (ukf_augment pred (snd (rm_noisecov rm))) yp) as [pm pxy]; simpl in *. rewrite H; simpl. do 2 eexists; reflexivity.
Qed.

(* ------------------------------------------------------------------ SUKFCorrection *)
Variable sukf_pred_mean : YP -> YP.
Variable sukf_upd : G -> X -> YP -> NU -> RC -> G -> G * YP.

Definition sukf_step_raw (sub_ok : bool) (ncalls : nat) (rm : rmodel) (pred out : G) (st0 : sukf_state YP NU)
  : exn (result G (sukf_state YP NU)) :=
  let st := mkSukfSt None (s_prop st0) in
  let M := rm_measure rm in
  if negb (fst M && sub_ok) then Ok (mkRes pred st [Measure]) else          (* :86-94 valid_measurement &= size test *)
  let sp := sigma_of pred in
  let P := rm_predicted rm sp in
  if negb (fst P) then Ok (mkRes pred st [Measure; Predicted]) else
  match cast (snd P) with                                                   (* :111 *)
  | None => Throw
  | Some yp =>
    let I := rm_innovation rm (DMat (sukf_pred_mean yp)) (snd M) in
    if negb (fst I) then Ok (mkRes pred (mkSukfSt None (Some yp)) [Measure; Predicted; Innovation]) else
    match cast (snd I) with                                                 (* :139 *)
    | None => Throw
    | Some nu =>
      let '(g, yp') := sukf_upd pred sp yp nu (snd (rm_noisecov rm)) out in
      Ok (mkRes g (mkSukfSt (Some nu) (Some yp')) ([Measure; Predicted; Innovation] ++ repeat NoiseCov ncalls))
    end
  end.

Definition sukf_well_typed (rm : rmodel) (pred : G) : Prop :=
  let P := rm_predicted rm (sigma_of pred) in
  (fst P = true -> cast (snd P) <> None) /\
  (forall yp, cast (snd P) = Some yp ->
     let I := rm_innovation rm (DMat (sukf_pred_mean yp)) (snd (rm_measure rm)) in
     fst I = true -> cast (snd I) <> None).

Lemma sukf_raw_is_skeleton (sub_ok : bool) ncalls (rm : rmodel) pred out st :
  sukf_well_typed rm pred ->
  sukf_step_raw sub_ok ncalls rm pred out st =
  Ok (sukf_step sigma_of sukf_pred_mean sukf_upd sub_ok ncalls (u_view rm) pred out st).
Proof.
  unfold sukf_well_typed, sukf_step_raw, sukf_step, u_view, flagged, flagged_cast; simpl.
  destruct (rm_measure rm) as [vM dM]; simpl. destruct vM; simpl; [|intros _; reflexivity].
  destruct sub_ok; simpl; [|intros _; reflexivity].
  destruct (rm_predicted rm (sigma_of pred)) as [vP dP]; simpl. destruct vP; simpl; [|intros _; reflexivity].
  intros [W1 W2]. destruct (cast dP) as [yp|] eqn:E; [|exfalso; apply W1; reflexivity].
  specialize (W2 yp eq_refl); simpl in W2.
  destruct (rm_innovation rm (DMat (sukf_pred_mean yp)) dM) as [vI dI]; simpl in *.
  destruct vI; simpl; [|reflexivity].
  destruct (cast dI) as [nu|] eqn:E2; [|exfalso; apply W2; reflexivity].
  destruct (sukf_upd pred (sigma_of pred) yp nu (snd (rm_noisecov rm)) out); reflexivity.
Qed.

Definition sukf_fails_raw (sub_ok : bool) (rm : rmodel) (pred : G) : Prop :=
  let P := rm_predicted rm (sigma_of pred) in
  fst (rm_measure rm) = false \/ sub_ok = false \/ fst P = false \/
  (exists yp, cast (snd P) = Some yp /\
     fst (rm_innovation rm (DMat (sukf_pred_mean yp)) (snd (rm_measure rm))) = false).

Lemma sukf_raw_failure (sub_ok : bool) ncalls (rm : rmodel) pred out st :
  sukf_fails_raw sub_ok rm pred ->
  exists prop l, sukf_step_raw sub_ok ncalls rm pred out st = Ok (mkRes pred (mkSukfSt None prop) l).
Proof.
  unfold sukf_fails_raw, sukf_step_raw; simpl.
  destruct (rm_measure rm) as [vM dM]; simpl. destruct vM; simpl; [|do 2 eexists; reflexivity].
  destruct sub_ok; simpl; [|do 2 eexists; reflexivity].
  destruct (rm_predicted rm (sigma_of pred)) as [vP dP]; simpl. destruct vP; simpl; [|do 2 eexists; reflexivity].
  intros [H|[H|[H|[yp [E H]]]]]; try discriminate. rewrite E, H; simpl. do 2 eexists; reflexivity.
Qed.

(* ------------------------------------------------------------------ GaussianLikelihood *)
Variable st_px : St -> X.
Variable gl_dens : NU -> RC -> LK.
Variable lk_zero1 : LK.

(* every payload is cast right after its own flag was found true (:33-34, :44-45, :55-56) *)
Definition gl_likelihood_raw (rm : rmodel) (s : St) : exn (option LK * list site) :=
  let M := rm_measure rm in
  if negb (fst M) then Ok (None, [Measure]) else
  match cast (snd M) with
  | None => Throw
  | Some y =>
    let P := rm_predicted rm (st_px s) in
    if negb (fst P) then Ok (None, [Measure; Predicted]) else
    match cast (snd P) with
    | None => Throw
    | Some yp =>
      let I := rm_innovation rm (DMat yp) (DMat y) in
      if negb (fst I) then Ok (None, [Measure; Predicted; Innovation]) else
      match cast (snd I) with
      | None => Throw
      | Some nu =>
        let N := rm_noisecov rm in
        if fst N then Ok (Some (gl_dens nu (snd N)), [Measure; Predicted; Innovation; NoiseCov])
        else Ok (None, [Measure; Predicted; Innovation; NoiseCov])
      end
    end
  end.

Definition gl_view (rm : rmodel) : mmodel Y X YP NU RC :=
  mkMM true (flagged_cast (rm_measure rm)) (fun x => flagged_cast (rm_predicted rm x))
       (fun a b => flagged_cast (rm_innovation rm (DMat a) (DMat b))) (rm_noisecov rm).

Definition gl_well_typed (rm : rmodel) (s : St) : Prop :=
  (fst (rm_measure rm) = true -> cast (snd (rm_measure rm)) <> None) /\
  (fst (rm_predicted rm (st_px s)) = true -> cast (snd (rm_predicted rm (st_px s))) <> None) /\
  (forall y yp, cast (snd (rm_measure rm)) = Some y -> cast (snd (rm_predicted rm (st_px s))) = Some yp ->
     fst (rm_innovation rm (DMat yp) (DMat y)) = true -> cast (snd (rm_innovation rm (DMat yp) (DMat y))) <> None).

Lemma gl_raw_is_skeleton (rm : rmodel) s :
  gl_well_typed rm s -> gl_likelihood_raw rm s = Ok (gl_likelihood st_px gl_dens (gl_view rm) s).
Proof.
  unfold gl_well_typed, gl_likelihood_raw, gl_likelihood, gl_view, flagged_cast; simpl.
  destruct (rm_measure rm) as [vM dM]; simpl. destruct vM; simpl; [|intros _; reflexivity].
  intros [W1 [W2 W3]]. destruct (cast dM) as [y|] eqn:E1; [|exfalso; apply W1; reflexivity].
  destruct (rm_predicted rm (st_px s)) as [vP dP]; simpl in *. destruct vP; simpl; [|reflexivity].
  destruct (cast dP) as [yp|] eqn:E2; [|exfalso; apply W2; reflexivity].
  specialize (W3 y yp eq_refl eq_refl).
  destruct (rm_innovation rm (DMat yp) (DMat y)) as [vI dI]; simpl in *. destruct vI; simpl; [|reflexivity].
  destruct (cast dI) as [nu|] eqn:E3; [|exfalso; apply W3; reflexivity].
  destruct (rm_noisecov rm) as [vN R]; simpl. destruct vN; reflexivity.
Qed.

(* "the Gaussian likelihood reports failure rather than a value": no value and no exception, whatever the payloads
   next to the false flags are *)
Definition gl_fails_raw (rm : rmodel) (s : St) : Prop :=
  fst (rm_measure rm) = false \/
  (exists y, cast (snd (rm_measure rm)) = Some y /\
     (fst (rm_predicted rm (st_px s)) = false \/
      exists yp, cast (snd (rm_predicted rm (st_px s))) = Some yp /\
        (fst (rm_innovation rm (DMat yp) (DMat y)) = false \/
         ((exists nu, cast (snd (rm_innovation rm (DMat yp) (DMat y))) = Some nu) /\ fst (rm_noisecov rm) = false)))).

Lemma gl_raw_failure (rm : rmodel) s :
  gl_fails_raw rm s -> exists l, gl_likelihood_raw rm s = Ok (None, l).
Proof.
  unfold gl_fails_raw, gl_likelihood_raw; simpl.
  destruct (rm_measure rm) as [vM dM]; simpl. destruct vM; simpl; [|eexists; reflexivity].
  intros [H|[y [E1 H]]]; [discriminate|]. rewrite E1.
  destruct (rm_predicted rm (st_px s)) as [vP dP]; simpl in *. destruct vP; simpl; [|eexists; reflexivity].
  destruct H as [H|[yp [E2 H]]]; [discriminate|]. rewrite E2.
  destruct (rm_innovation rm (DMat yp) (DMat y)) as [vI dI]; simpl in *. destruct vI; simpl; [|eexists; reflexivity].
  destruct H as [H|[[nu E3] H]]; [discriminate|]. rewrite E3.
  destruct (rm_noisecov rm) as [vN R]; simpl in *. subst vN. eexists; reflexivity.
Qed.

(* ------------------------------------------------------------------ particle corrections *)
(* a user LikelihoodModel already is flag + payload (LCustom f : St -> bool * LK); the shipped one goes through
   the sensor *)
Definition lik_eval_raw (lm : likmodel St LK) (rm : rmodel) (s : St) : exn ((bool * LK) * list site) :=
  match lm with
  | LGauss => match gl_likelihood_raw rm s with
              | Throw => Throw
              | Ok (o, l) => Ok (lik_pair lk_zero1 o, l)
              end
  | LCustom f => Ok (f s, [Likelihood])
  end.

Variable boot_wupd : G -> LK -> G.

Definition boot_step_raw (lm : likmodel St LK) (rm : rmodel) (pred out : pset G St) (st : pf_state LK)
  : exn (result (pset G St) (pf_state LK)) :=
  match lik_eval_raw lm rm (snd pred) with
  | Throw => Throw
  | Ok (vl, l) =>
    if fst vl then Ok (mkRes (boot_wupd (fst pred) (snd vl), snd pred) (pf_state_of vl) l)
    else Ok (mkRes pred (pf_state_of vl) l)
  end.

Lemma lik_eval_raw_is_skeleton (lm : likmodel St LK) (rm : rmodel) s :
  (lm = LGauss -> gl_well_typed rm s) ->
  lik_eval_raw lm rm s = Ok (lik_eval st_px gl_dens lk_zero1 lm (gl_view rm) s).
Proof.
  destruct lm as [|f]; simpl; intros W; [|reflexivity].
  rewrite (gl_raw_is_skeleton rm s (W eq_refl)).
  destruct (gl_likelihood st_px gl_dens (gl_view rm) s); reflexivity.
Qed.

Lemma boot_raw_is_skeleton (lm : likmodel St LK) (rm : rmodel) pred out st :
  (lm = LGauss -> gl_well_typed rm (snd pred)) ->
  boot_step_raw lm rm pred out st = Ok (boot_step st_px gl_dens lk_zero1 boot_wupd lm (gl_view rm) pred out st).
Proof.
  intros W. unfold boot_step_raw, boot_step. rewrite (lik_eval_raw_is_skeleton lm rm (snd pred) W).
  destruct (lik_eval st_px gl_dens lk_zero1 lm (gl_view rm) (snd pred)) as [vl l].
  destruct (fst vl); reflexivity.
Qed.

(* whatever vector a failing likelihood model hands back next to its false flag: the predicted set is returned,
   the vector is stored (getLikelihood reports (false, that vector)) and nothing is computed from it *)
Lemma boot_raw_failure_custom (f : St -> bool * LK) (rm : rmodel) pred out st :
  fst (f (snd pred)) = false ->
  boot_step_raw (LCustom f) rm pred out st = Ok (mkRes pred (pf_state_of (f (snd pred))) [Likelihood]).
Proof. intros H. unfold boot_step_raw; simpl. rewrite H. reflexivity. Qed.

Lemma boot_raw_failure_gauss (rm : rmodel) pred out st :
  gl_fails_raw rm (snd pred) ->
  exists l, boot_step_raw LGauss rm pred out st = Ok (mkRes pred (mkPfSt false lk_zero1) l).
Proof.
  intros H. destruct (gl_raw_failure rm (snd pred) H) as [l E].
  unfold boot_step_raw; simpl. rewrite E; simpl. eexists; reflexivity.
Qed.

(* GPFCorrection over ANY wrapped correction gc that may itself end with an exception *)
Variable gpf_sample : RNG -> G -> St -> St * RNG.
Variable gpf_wupd : pset G St -> LK -> pset G St -> G.

Definition gpf_step_raw (gc : G -> G -> GS -> exn (result G GS)) (lm : likmodel St LK) (rm : rmodel)
           (pred out : pset G St) (st : gpf_state LK RNG GS) : exn (result (pset G St) (gpf_state LK RNG GS)) :=
  match gc (fst pred) (fst out) (g_inner st) with
  | Throw => Throw
  | Ok r =>
    let '(states, rng') := gpf_sample (g_rng st) (r_out r) (snd out) in
    match lik_eval_raw lm rm states with
    | Throw => Throw
    | Ok (vl, l) =>
      let st' := mkGpfSt (pf_state_of vl) (r_st r) rng' in
      if fst vl then Ok (mkRes (gpf_wupd pred (snd vl) (r_out r, states), states) st' (r_log r ++ l))
      else Ok (mkRes pred st' (r_log r ++ l))
    end
  end.

Lemma gpf_raw_is_skeleton (gc : G -> G -> GS -> result G GS) (lm : likmodel St LK) (rm : rmodel) pred out st :
  (lm = LGauss -> gl_well_typed rm (gpf_states _ _ _ _ _ gpf_sample gc pred out st)) ->
  gpf_step_raw (fun a b s => Ok (gc a b s)) lm rm pred out st =
  Ok (gpf_step st_px gl_dens lk_zero1 gpf_sample gpf_wupd gc lm (gl_view rm) pred out st).
Proof.
  unfold gpf_step_raw, gpf_step, gpf_states.
  destruct (gpf_sample (g_rng st) (r_out (gc (fst pred) (fst out) (g_inner st))) (snd out)) as [states rng'] eqn:E; simpl.
  intros W. rewrite (lik_eval_raw_is_skeleton lm rm states W).
  destruct (lik_eval st_px gl_dens lk_zero1 lm (gl_view rm) states) as [vl l].
  destruct (fst vl); reflexivity.
Qed.

(* the wrapped correction returned normally and the likelihood fails at the drawn states: the whole predicted set
   comes back, for any payloads *)
Lemma gpf_raw_failure (gc : G -> G -> GS -> exn (result G GS)) (lm : likmodel St LK) (rm : rmodel) pred out st r :
  gc (fst pred) (fst out) (g_inner st) = Ok r ->
  let states := fst (gpf_sample (g_rng st) (r_out r) (snd out)) in
  match lm with LGauss => gl_fails_raw rm states | LCustom f => fst (f states) = false end ->
  exists st' l, gpf_step_raw gc lm rm pred out st = Ok (mkRes pred st' l) /\ pf_valid (g_pf st') = false.
Proof.
  intros E. unfold gpf_step_raw. rewrite E.
  destruct (gpf_sample (g_rng st) (r_out r) (snd out)) as [states rng']; simpl.
  destruct lm as [|f]; simpl; intros H.
  - destruct (gl_raw_failure rm states H) as [l El]. rewrite El; simpl. do 2 eexists; split; reflexivity.
  - rewrite H. do 2 eexists; split; [reflexivity|]. simpl. exact H.
Qed.

End Raw.

(* ------------------------------------------------------------------ the witness for (c) *)
(* a sensor over one-point types whose innovation() reports unavailability next to an EMPTY bfl::Data *)
Definition r5_sensor : rmodel unit unit unit unit unit :=
  mkRM unit unit unit unit unit (true, DMat tt) (fun _ => (true, DMat tt)) (fun _ _ => (false, DEmpty)) (true, tt).

Lemma kf_cast_before_flag_refuted :
  kf_fails_raw unit unit unit unit unit unit (fun _ => tt) r5_sensor tt /\
  kf_step_cast_before_flag unit unit unit unit unit unit unit (fun _ => tt) (fun g _ _ _ => (g, tt)) r5_sensor tt tt (mkKfSt None tt) = Throw /\
  kf_step_raw unit unit unit unit unit unit unit (fun _ => tt) (fun g _ _ _ => (g, tt)) r5_sensor tt tt (mkKfSt None tt)
    = Ok (mkRes tt (mkKfSt None tt) [Measure; Predicted; Innovation]).
Proof. repeat split. right; right; left; reflexivity. Qed.
