(* C18_Extract.v — executable entry points of the C18 model (scalars abstract;
   IEEE doubles and the eigen-solver oracle are supplied by the OCaml driver).
   ExtrOcamlBasic only. *)
Require Import ZArith List.
Require Import BFL.Ops BFL.C18_Model.
Require Import Extraction ExtrOcamlBasic.

Definition c18_log (S : SOps) (qs : list (quat S)) : list (vec3 S) := map (q_to_rv S) qs.
Definition c18_exp (S : SOps) (rs : list (vec3 S)) : list (quat S) := map (rv_to_q S) rs.
Definition c18_sum (S : SOps) (q : quat S) (rs : list (vec3 S)) : list (quat S) := qsum S q rs.
Definition c18_diff (S : SOps) (qls : list (quat S)) (qr : quat S) : list (vec3 S) := qdiff S qls qr.
Definition c18_outer (S : SOps) (w : list (T S)) (qs : list (quat S)) : list (list (T S)) :=
  mat4_rows S (outer_sum S w qs).
Definition c18_mean (S : SOps) (eig : list (list (T S)) -> quat S) (w : list (T S)) (qs : list (quat S)) : quat S :=
  qmean S eig w qs.

Extraction "C18_model.ml" c18_log c18_exp c18_sum c18_diff c18_outer c18_mean.
