(* C08_TV.v — histories whose operands change from step to step.
   The model of C08 is a function of the state before a step (the two buffers, valid_likelihood_,
   likelihood_) and of the inputs OF THAT STEP; step_in already carries per-step wrapped steps,
   likelihood and transition models (C08_multi_step quantifies over arbitrary lists of them).
   Here the statement is spelled out for the concrete operand families the correspondence
   check varies: a time-varying linear-Gaussian model (state model F_k, Q_k; measurement model of
   size m_k with H_k, R_k and reading y_k; likelihood scale s_k; transition model Ft_k, Qt_k).
   At step k every formula mentions the operands of step k only: nothing computed from
   R_j, H_j, F_j, ... (j < k) survives into step k.  (A GaussianLikelihood that keeps the inverse
   of the first noise covariance it saw — seeded change C08-r3 — violates tv_multi_step (e).) *)
Require Import ZArith List Bool Lia.
Require Import BFL.Ops BFL.Density BFL.C01_Model BFL.C08_Model BFL.C08_Struct.
Import ListNotations.

Section TV.
Variable O : MatOps.
Notation S := (sc O).
Variable n : nat.
Notation dpart := (dparticle O n).

Lemma tv_step_shape (p : tv_ops O n) :
  shape_ok O n (si_gp (tv_step_in p)) /\ shape_ok O n (si_gc (tv_step_in p)).
Proof. split; cbn; [apply kf_pred_gstep_shape | apply kf_corr_gstep_shape]. Qed.

Lemma tv_shapes (ps : list (tv_ops O n)) :
  Forall (fun s => shape_ok O n (si_gp s) /\ shape_ok O n (si_gc s)) (map tv_step_in ps).
Proof. apply Forall_forall. intros s Hs. apply in_map_iff in Hs. destruct Hs as (p & <- & _). apply tv_step_shape. Qed.

Lemma map_fst_gm_of (ps : pset O n) : map fst (gm_of ps) = map pbelief ps.
Proof. unfold gm_of. rewrite map_map. reflexivity. Qed.

Lemma tv_run_lengths N st (ps : list (tv_ops O n)) :
  length (fs_pred st) = N -> length (fs_corr st) = N ->
  length (fs_pred (tv_run st ps)) = N /\ length (fs_corr (tv_run st ps)) = N.
Proof. intros Lp Lc. unfold tv_run. apply gpf_run_lengths; auto using tv_shapes. Qed.

(* what step k of a time-varying history establishes, in terms of the operands of step k *)
Definition tv_step_formulae (N : nat) (st1 : fstate O n) (p : tv_ops O n) (st2 : fstate O n) : Prop :=
  length (fs_pred st2) = N /\ length (fs_corr st2) = N /\
  (* (a) prediction: positions and log-weights of the previous corrected set ... *)
  map pstate (fs_pred st2) = map pstate (fs_corr st1) /\
  map plw (fs_pred st2) = map plw (fs_corr st1) /\
  (* (b) ... beliefs F_k m, F_k P F_k^T + Q_k *)
  map pbelief (fs_pred st2) = map (kf_pred_comp (tv_F p) (tv_Q p)) (map pbelief (fs_corr st1)) /\
  (* (c) the likelihood is valid *)
  fs_valid st2 = true /\
  (* (d) corrected beliefs: the Kalman correction with H_k, R_k, y_k *)
  map pbelief (fs_corr st2) =
    map (fun c => ko_comp (kf_correct_one (tv_H p) (tv_R p) (tv_y p) c)) (map pbelief (fs_pred st2)) /\
  (* (e) likelihood values: s_k N(y_k - H_k x_i; 0, R_k) at the drawn positions, R_k the noise covariance OF THIS STEP *)
  fs_lik st2 =
    map (fun x => smul S (tv_scale p)
                    (density (lin_innovation (lin_predicted (tv_H p) x) (tv_y p)) (mzero (tv_m p) 1) (tv_R p)))
        (map pstate (fs_corr st2)) /\
  (* (f) positions m_i + L_i z_i and the weight update with the transition density N(x_i; Ft_k xprev_i, Qt_k) *)
  forall i, i < N ->
    let q := nth i (fs_corr st2) dpart in
    pstate q = sample_from_proposal (pmean q) (pcov q) (nth i (tv_zs p) (mzero n 1)) /\
    plw q = gpf_weight S (plw (nth i (fs_pred st2) dpart)) (nth i (fs_lik st2) (s0 S))
              (density (msub (pstate q) (mmul (tv_Ft p) (pstate (nth i (fs_pred st2) dpart)))) (mzero n 1) (tv_Qt p))
              (density (pstate q) (pmean q) (pcov q)).

Lemma nth_map_default {A B} (f : A -> B) (l : list A) i (d : A) (d' : B) :
  i < length l -> nth i (map f l) d' = f (nth i l d).
Proof. intros Hi. rewrite (nth_indep _ d' (f d)) by (rewrite map_length; exact Hi). apply map_nth. Qed.

Lemma tv_one_step N st (p : tv_ops O n) :
  length (fs_pred st) = N -> length (fs_corr st) = N ->
  tv_step_formulae N st p (gpf_step st (tv_step_in p)).
Proof.
  intros Lp Lc.
  destruct (tv_step_shape p) as [Sp Sc].
  pose proof (gpf_step_formulae O n N st (tv_step_in p) Lp Lc Sp Sc) as HF.
  set (st2 := gpf_step st (tv_step_in p)) in *.
  destruct HF as (L1 & L2 & Hst & Hlw & Hbel & Hlik & _ & Hval).
  cbn [tv_step_in si_gp si_gc si_lik si_trans si_zs] in Hbel, Hlik, Hval.
  (* the likelihood model of this family always reports valid *)
  assert (Hv : fs_valid st2 = true).
  { unfold gauss_lik, gauss_lik_h in Hlik. cbn in Hlik. now inversion Hlik. }
  destruct (Hval Hv) as (Hcb & Hpos & Hw).
  set (xs := gpf_drawn (kf_corr_gstep true (tv_H p) (tv_R p) (tv_y p)) (tv_zs p) (fs_pred st2) (fs_corr st)) in *.
  assert (Hl : fs_lik st2 =
               map (fun x => smul S (tv_scale p)
                               (density (lin_innovation (lin_predicted (tv_H p) x) (tv_y p)) (mzero (tv_m p) 1) (tv_R p))) xs).
  { unfold gauss_lik, gauss_lik_h in Hlik. cbn in Hlik. now inversion Hlik. }
  assert (Lx : length xs = N) by (rewrite <- Hpos, map_length; exact L2).
  unfold tv_step_formulae. fold st2.
  split; [exact L1|]. split; [exact L2|]. split; [exact Hst|]. split; [exact Hlw|].
  split.
  { rewrite Hbel, kf_pred_gstep_beliefs by (rewrite !gm_of_length; congruence). now rewrite map_fst_gm_of. }
  split; [exact Hv|].
  split.
  { rewrite Hcb, kf_corr_gstep_beliefs by (rewrite !gm_of_length; congruence). now rewrite map_fst_gm_of. }
  split; [rewrite Hpos; exact Hl|].
  intros i Hi. cbv zeta.
  assert (Ll : length (fs_lik st2) = N) by (rewrite Hl, map_length; exact Lx).
  assert (Lt : length (lin_trans (tv_Ft p) (tv_Qt p) (map pstate (fs_pred st2)) xs) = N).
  { rewrite lin_trans_length by (rewrite map_length; congruence). exact Lx. }
  destruct (Hw Ll Lt i Hi) as [Hx Hwi].
  set (gC := kf_corr_gstep true (tv_H p) (tv_R p) (tv_y p) (gm_of (fs_pred st2)) (gm_of (fs_corr st))) in *.
  (* particle i of the corrected set: its position is entry i of xs, its belief is belief i of the wrapped correction *)
  assert (Hq1 : pstate (nth i (fs_corr st2) dpart) = nth i xs (mzero n 1)).
  { rewrite <- Hpos. symmetry. apply nth_map_default. congruence. }
  assert (Hq2 : pbelief (nth i (fs_corr st2) dpart) = belief_at gC i).
  { rewrite belief_at_nth, <- Hcb. symmetry. apply nth_map_default. congruence. }
  assert (Hm : pmean (nth i (fs_corr st2) dpart) = gmean (belief_at gC i)) by (rewrite <- Hq2; reflexivity).
  assert (HP : pcov (nth i (fs_corr st2) dpart) = gcov (belief_at gC i)) by (rewrite <- Hq2; reflexivity).
  split.
  - rewrite Hq1, Hm, HP. exact Hx.
  - rewrite Hwi, Hq1, Hm, HP. f_equal.
    rewrite (lin_trans_nth O n (tv_Ft p) (tv_Qt p) (map pstate (fs_pred st2)) xs i (s0 S))
      by (rewrite ?map_length; congruence).
    f_equal. f_equal. f_equal. apply nth_map_default. congruence.
Qed.

(* ... at every step k of every time-varying history *)
Lemma tv_multi_step N st (ps : list (tv_ops O n)) k d :
  length (fs_pred st) = N -> length (fs_corr st) = N -> k < length ps ->
  tv_step_formulae N (tv_run st (firstn k ps)) (nth k ps d) (tv_run st (firstn (Datatypes.S k) ps)).
Proof.
  intros Lp Lc Hk.
  assert (E : firstn (Datatypes.S k) ps = firstn k ps ++ [nth k ps d]).
  { clear -Hk. revert k Hk. induction ps as [|a ps IH]; intros k Hk; cbn in Hk; [lia|].
    destruct k; cbn; [reflexivity|]. f_equal. apply IH. lia. }
  rewrite E. unfold tv_run at 2. rewrite map_app, <- gpf_run_app. cbn [map gpf_run fold_left].
  fold (tv_run st (firstn k ps)).
  destruct (tv_run_lengths N st (firstn k ps) Lp Lc) as [L1 L2].
  apply tv_one_step; assumption.
Qed.

(* two histories that agree from step k on and reach the same state before step k agree afterwards,
   whatever operands the earlier steps had: the only memory is the state *)
Lemma tv_no_hidden_memory st (h1 h1' h2 : list (tv_ops O n)) :
  tv_run st h1 = tv_run st h1' -> tv_run st (h1 ++ h2) = tv_run st (h1' ++ h2).
Proof.
  intros E. unfold tv_run in *. rewrite !map_app, <- !gpf_run_app. now rewrite E.
Qed.

End TV.

(* ---- the executed entry points (C08_Extract.v) -------------------------------------------- *)
Require Import BFL.ListOps BFL.C08_Extract.

(* the entry point the driver runs is pf_trace over the per-step step_in's, each built from its own operands *)
Lemma c08_trace_tv_is_pf_trace (S : SOps) sq (n : nat) pred0 corr0 valid0 lik0
      (steps : list (nat * c08_cfg S * step_tuple S)) :
  c08_trace_tv S sq n pred0 corr0 valid0 lik0 steps =
  map (fun st => (map (c08_to_tuple S sq n) (fs_pred st), map (c08_to_tuple S sq n) (fs_corr st), fs_valid st, fs_lik st))
      (pf_trace (@mkFstate (c08_O S sq) n (map (c08_of_tuple S sq n) pred0) (map (c08_of_tuple S sq n) corr0) valid0 lik0)
                (map (fun mcs => c08_step_in S sq n (fst (fst mcs)) (snd (fst mcs)) (snd mcs)) steps)).
Proof.
  unfold c08_trace_tv. f_equal. f_equal. apply map_ext. intros [[m cf] s]. reflexivity.
Qed.

(* ... and with a constant measurement size and configuration it is c08_trace *)
Lemma c08_trace_const_is_tv (S : SOps) sq (n m : nat) (cf : c08_cfg S) pred0 corr0 valid0 lik0 (steps : list (step_tuple S)) :
  c08_trace S sq n m cf pred0 corr0 valid0 lik0 steps =
  c08_trace_tv S sq n pred0 corr0 valid0 lik0 (map (fun s => (m, cf, s)) steps).
Proof.
  unfold c08_trace, c08_trace_tv. f_equal. f_equal. rewrite map_map. reflexivity.
Qed.

(* running a history step by step from the reported states is running the history: the trace of h1 ++ h2 is the
   trace of h1 followed by the trace of h2 started in the last state of h1 (what the driver does with h2 = one step) *)
Lemma last_cons_default {A} (a : A) (l : list A) (d : A) : last (a :: l) d = last l a.
Proof.
  revert a d. induction l as [|b l IH]; intros a d; [reflexivity|].
  change (last (a :: b :: l) d) with (last (b :: l) d). rewrite !IH. reflexivity.
Qed.

Lemma pf_trace_app (O : MatOps) (n : nat) (st : fstate O n) h1 h2 :
  pf_trace st (h1 ++ h2) = pf_trace st h1 ++ pf_trace (last (pf_trace st h1) st) h2.
Proof.
  revert st. induction h1 as [|s h1 IH]; intros st; [reflexivity|].
  cbn [app pf_trace]. rewrite IH, last_cons_default. reflexivity.
Qed.
