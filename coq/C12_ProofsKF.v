(* C12_ProofsKF.v — with no fault, the KF skeleton of C12 instantiated with the
   numerical routines of C01 (C12_KFInst) IS C01's kf_correct: the fault model
   and the algebraic model are one definition.  Holds for every MatOps
   instance (MathComp, lists over floats, ...).  No axioms. *)
Require Import ZArith List.
Require Import BFL.Ops BFL.Density BFL.C01_Model BFL.C12_Model BFL.C12_Proofs BFL.C12_KFInst.
Import ListNotations.

Section KFC01.
Variable O : MatOps.
Variables n m : nat.
Variable W : Type.
Variables (H : M O m n) (R : M O m m) (y : M O m 1).

Definition nus_of (cs : list (gcomp O n)) : list (M O m 1) :=
  map (fun a => lin_innovation a y) (map (lin_predicted H) (map gmean cs)).

Lemma nus_of_innov cs : nus_of cs = map ko_innov (kf_correct H R y cs).
Proof.
  unfold nus_of, kf_correct. rewrite !map_map. apply map_ext. intros c.
  unfold kf_correct_one. destruct (kf_correct_comp _ _ _ _ _) as [[x' P'] Py]. reflexivity.
Qed.

Lemma loop_is_kf_correct cs :
  map (fun cn : gcomp O n * M O m 1 => kf_correct_comp (gcov (fst cn)) (gmean (fst cn)) H R (snd cn))
      (combine cs (nus_of cs)) =
  map (fun o => (gmean (ko_comp o), gcov (ko_comp o), ko_Py o)) (kf_correct H R y cs).
Proof.
  unfold nus_of, kf_correct. induction cs as [|c cs IH]; [reflexivity|].
  simpl. rewrite IH. f_equal.
Qed.

Lemma gcomp_eta (c : gcomp O n) : mkGcomp (gmean c) (gcov c) = c.
Proof. destruct c; reflexivity. Qed.

Lemma kf_skeleton_no_fault_is_C01 (pred out : kfG O n W) st :
  let res := kf_correct H R y (fst pred) in
  c_kf_step H (inject no_fault (lin_mm H R y)) pred out st =
  mkRes (overwrite_prefix (map ko_comp res) (fst out), snd out)
        (mkKfSt (Some (map ko_innov res)) (map ko_Py res)) sites4.
Proof.
  intros res. unfold c_kf_step, lin_mm. rewrite kf_no_fault.
  unfold c_kf_px. fold (nus_of (fst pred)). unfold c_kf_upd. cbv zeta.
  rewrite loop_is_kf_correct. fold res. simpl fst; simpl snd.
  rewrite !map_map. simpl.
  replace (map (fun x : kf_out O n m => mkGcomp (gmean (ko_comp x)) (gcov (ko_comp x))) res) with (map ko_comp res)
    by (apply map_ext; intros o; now rewrite gcomp_eta).
  now rewrite (nus_of_innov (fst pred)).
Qed.

Lemma combine_map_same {A B C} (f : A -> B) (g : A -> C) (l : list A) :
  combine (map f l) (map g l) = map (fun a => (f a, g a)) l.
Proof. induction l; simpl; congruence. Qed.

Lemma kf_skeleton_likelihood_is_C01 (pred out : kfG O n W) st :
  c_kf_get_lik (r_st (c_kf_step H (inject no_fault (lin_mm H R y)) pred out st)) =
  Some (map kf_likelihood (kf_correct H R y (fst pred))).
Proof.
  rewrite kf_skeleton_no_fault_is_C01. unfold c_kf_get_lik, kf_get_lik, c_kf_lik. simpl.
  rewrite combine_map_same, map_map. reflexivity.
Qed.

(* and under any pattern that fails a consulted call the same instance returns the predicted object *)
Lemma kf_skeleton_fault_is_identity (p : pattern) (pred out : kfG O n W) st :
  fails_any p sites4 = true ->
  r_out (c_kf_step H (inject p (lin_mm H R y)) pred out st) = pred.
Proof. intros Hf. unfold c_kf_step. now apply kf_identity. Qed.
End KFC01.
