(* C16_Regress.v — regression specs: transcriptions of code that has since been
   repaired in /repo, each with the witness that refuted the full-strength
   statement.  Not part of any property theorem and not extracted; the current
   model is C16_Model. *)
Require Import ZArith List.
Require Import BFL.Ops BFL.ListOps BFL.C16_Model.
Import ListNotations.

Section Before_56b3d39.
(* SimulatedStateModel's constructor before "fix: SimulatedStateModel rejects an
   empty trajectory at construction":
     target_ = MatrixXd(initial_state.rows(), simulation_time_);
     target_.col(0) = initial_state;      <- column 0 of a matrix without columns
   None = the constructor has no defined result (Eigen assertion / write outside
   the allocation). *)
Variable O : MatOps.
Variable d : nat.
Variable motion : M O d 1 -> list (T (sc O)) -> M O d 1 * list (T (sc O)).

Definition sim_ctor_v0 (x0 : M O d 1) (simulation_time : nat) (zs : list (T (sc O)))
  : option (@sim_state O d) :=
  match simulation_time with
  | 0 => None
  | S k => Some (mkSim (x0 :: sim_columns motion k x0 zs) simulation_time 0 None)
  end.

(* "every simulation_time yields a model state" was false of that code *)
Lemma C16_trajectory_total_refuted_v0 :
  exists x0 len zs, sim_ctor_v0 x0 len zs = None.
Proof. exists (mzero d 1), 0, []. reflexivity. Qed.

(* on every other input the repaired constructor builds the same state *)
Lemma sim_ctor_v0_agrees x0 len zs st :
  sim_ctor_v0 x0 len zs = Some st -> sim_ctor motion x0 len zs = inr st.
Proof. destruct len; simpl; [discriminate|]. intros E; inversion E; reflexivity. Qed.
End Before_56b3d39.
