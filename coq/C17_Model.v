(* C17_Model.v — Gallina transcription of
     src/BayesFilters/src/HistoryBuffer.cpp            (HEAD, after fix 3576481)
     src/BayesFilters/src/EstimatesExtraction.cpp
   written against the scalar interface SOps (HistoryBuffer: no arithmetic at
   all).  The circular rows go through C19_Model.dir_mean, the transcription of
   directional_statistics::directional_mean that EstimatesExtraction::mean calls.
   No proofs here.

   Representation: a particle set (Eigen matrix, one particle per column) is
   the list of its columns; a column is the list of its entries (state_size
   of them).  The history deque is the list of its elements, front (newest)
   first.  `unsigned int` / `int` arguments are Z (the window itself is a nat:
   it is proved to stay in [2,30]). *)
Require Import ZArith List.
Require Import BFL.Ops BFL.C19_Model.
Import ListNotations.

(* ------------------------------------------------------------------ *)
(* HistoryBuffer                                                      *)
(* ------------------------------------------------------------------ *)
Section Hist.
Variable A : Type.                       (* Eigen::VectorXd *)

Record hist := mkHist { window : nat; buf : list A }.

(* unsigned int window_ = 5; empty deque *)
Definition hist_init : hist := mkHist 5 [].
(* const unsigned int max_window_ = 30 *)
Definition max_window : Z := 30%Z.

(* HistoryBuffer.cpp:46-52: push_front; if (size() > window_) pop_back *)
Definition hist_add (x : A) (h : hist) : hist :=
  let b := x :: buf h in
  mkHist (window h) (if Nat.ltb (window h) (length b) then removelast b else b).

(* HistoryBuffer.cpp:55-64: column i = i-th element from the front *)
Definition hist_get (h : hist) : list A := buf h.

(* HistoryBuffer.cpp:76-77: while (size() > tmp) pop_back();  fuel = size() *)
Fixpoint shrink_loop (fuel : nat) (b : list A) (tmp : nat) : list A :=
  match fuel with
  | O => b
  | S f => if Nat.ltb tmp (length b) then shrink_loop f (removelast b) tmp else b
  end.

(* HistoryBuffer.cpp:71-73 (the three clamping branches) *)
Definition clamp_window (w : Z) : nat :=
  if (w <? 2)%Z then 2 else if (max_window <=? w)%Z then Z.to_nat max_window else Z.to_nat w.

(* HistoryBuffer.cpp:67-82; w is the unsigned argument, 0 <= w < 2^32 *)
Definition hist_set_size (w : Z) (h : hist) : hist :=
  if (w =? Z.of_nat (window h))%Z then h
  else let tmp := clamp_window w in
       mkHist tmp (shrink_loop (length (buf h)) (buf h) tmp).

(* HistoryBuffer.cpp:85-94.  window_ - 1 is unsigned arithmetic: it equals
   the integer difference because 2 <= window_ (C17_hist_inv). *)
Definition hist_decrease (h : hist) : hist := hist_set_size (Z.of_nat (window h) - 1) h.
Definition hist_increase (h : hist) : hist := hist_set_size (Z.of_nat (window h) + 1) h.

(* HistoryBuffer.cpp:97-101 *)
Definition hist_clear (h : hist) : hist := mkHist (window h) [].

(* HistoryBuffer.cpp:19-43, move construction / move assignment: (target, moved-from source).
   The target takes window_ and the deque; the source is left with window_ = 0 (and state_size_ = 0,
   not modelled) and a moved-from deque (valid but unspecified; empty with libstdc++). *)
Definition hist_move (h : hist) : hist * hist := (mkHist (window h) (buf h), mkHist 0 []).

(* operations of a directly driven HistoryBuffer (all setters return true) *)
Inductive hop := HAdd (x : A) | HSet (w : Z) | HDec | HInc | HClear.
Definition hstep (h : hist) (o : hop) : hist :=
  match o with
  | HAdd x => hist_add x h
  | HSet w => hist_set_size w h
  | HDec => hist_decrease h
  | HInc => hist_increase h
  | HClear => hist_clear h
  end.
Definition hrun (h : hist) (ops : list hop) : hist := fold_left hstep ops h.
End Hist.
Arguments mkHist {A}. Arguments window {A}. Arguments buf {A}.
Arguments hist_add {A}. Arguments hist_get {A}. Arguments hist_set_size {A}.
Arguments hist_decrease {A}. Arguments hist_increase {A}. Arguments hist_clear {A}. Arguments hist_move {A}.
Arguments shrink_loop {A}. Arguments hstep {A}. Arguments hrun {A}.
Arguments HAdd {A}. Arguments HSet {A}. Arguments HDec {A}. Arguments HInc {A}. Arguments HClear {A}.

(* ------------------------------------------------------------------ *)
(* EstimatesExtraction                                                *)
(* ------------------------------------------------------------------ *)
Inductive method :=
  Mmean | Msmean | Mwmean | Memean | Mmode | Msmode | Mwmode | Memode | Mmap | Msmap | Mwmap | Memap.
Inductive stat := Smean | Smode | Smap.
Inductive wvariant := Wsimple | Wweighted | Wexponential.

Section Est.
Variable S : SOps.
Notation t := (T S).
Definition vec : Type := list t.

(* linear_size_, circular_size_ (fixed by the constructor) *)
Variables lin circ : nat.
Definition state_size : nat := lin + circ.

(* row r of a matrix given by its columns *)
Definition prow (r : nat) (ps : list vec) : list t := map (fun p => nth r p (s0 S)) ps.
(* particles.col(i) *)
Definition pcol (i : nat) (ps : list vec) : vec := nth i ps [].

(* one entry of (matrix * vector): sum_k x_k * w_k, accumulated left to right *)
Definition wsum (xs ws : list t) : t :=
  fold_left (fun acc p => sadd S acc (smul S (fst p) (snd p))) (combine xs ws) (s0 S).

(* EstimatesExtraction.cpp:210-221.  head(linear) = topRows(linear) * exp(w);
   tail(circular) = directional_mean(bottomRows(circular), exp(w)).
   (particles has state_size rows: bottomRows(circular) starts at row linear.)
   With ONE column directional_mean returns that column wrapped to (-pi, pi] (/repo dee9c81; C19_Model.dir_mean). *)
Definition mean (ps : list vec) (lw : list t) : vec :=
  let w := map (sexp S) lw in
  map (fun r => wsum (prow r ps) w) (seq 0 lin)
  ++ dir_mean S (length ps) (map (fun r => prow r ps) (seq lin circ)) w.

(* Eigen maxCoeff(&index) on a vector: the visitor starts at entry 0 and moves
   on a strictly greater value, so the FIRST maximum is reported. *)
Fixpoint argmax_from (l : list t) (i best : nat) (bestv : t) : nat :=
  match l with
  | [] => best
  | v :: l' => if sltb S bestv v then argmax_from l' (Datatypes.S i) i v
               else argmax_from l' (Datatypes.S i) best bestv
  end.
Definition argmax (l : list t) : nat :=
  match l with [] => 0 | x :: l' => argmax_from l' 1 0 x end.

(* EstimatesExtraction.cpp:224-231 *)
Definition mode (ps : list vec) (lw : list t) : vec := pcol (argmax lw) ps.

(* utils.h:72-77: max + log(sum(exp(data - max))) *)
Definition lmax (l : list t) : t := match l with [] => s0 S | x :: l' => smaxl S x l' end.
Definition lse (l : list t) : t :=
  let m := lmax l in sadd S m (sln S (ssum S (map (fun x => sexp S (ssub S x m)) l))).

(* EstimatesExtraction.cpp:255-257: values(i) =
   log(lik(i) + eps) + log_sum_exp(log(T.row(i) + eps) + previous_weights) *)
Definition map_value (plw : list t) (l : t) (trow : list t) : t :=
  sadd S (sln S (sadd S l (stiny S)))
         (lse (map (fun tp => sadd S (sln S (sadd S (fst tp) (stiny S))) (snd tp)) (combine trow plw))).
Definition map_values (plw lik : list t) (Tm : list (list t)) : list t :=
  map (fun lt => map_value plw (fst lt) (snd lt)) (combine lik Tm).
(* EstimatesExtraction.cpp:259-261 *)
Definition map_est (ps : list vec) (plw lik : list t) (Tm : list (list t)) : vec :=
  pcol (argmax (map_values plw lik Tm)) ps.

(* cached log-weights of the window, as functions of the number n of stored estimates *)
(* :288  VectorXd::Constant(n, -log(n)) *)
Definition sm_weights (n : nat) : list t := repeat (sopp S (sln S (sofnat S n))) n.
Definition sub_lse (l : list t) : list t := let c := lse l in map (fun x => ssub S x c) l.
(* :319-323  w(i) = log(n - i); w -= log_sum_exp(w) *)
Definition wm_weights (n : nat) : list t :=
  sub_lse (map (fun i => sln S (sofnat S (n - i))) (seq 0 n)).
(* :355-359  w(i) = -(i / n); w -= log_sum_exp(w) *)
Definition em_weights (n : nat) : list t :=
  sub_lse (map (fun i => sopp S (sdiv S (sofnat S i) (sofnat S n))) (seq 0 n)).
Definition win_weights (v : wvariant) : nat -> list t :=
  match v with Wsimple => sm_weights | Wweighted => wm_weights | Wexponential => em_weights end.

Record est := mkEst {
  meth : method;            (* extraction_method_ *)
  hb : hist vec;            (* hist_buffer_ *)
  smw : list t;             (* sm_weights_ *)
  wmw : list t;             (* wm_weights_ *)
  emw : list t              (* em_weights_ *)
}.
(* EstimatesExtraction.h:50 default method emode; empty weight vectors *)
Definition est_init : est := mkEst Memode (hist_init vec) [] [] [].

Definition base_est (s : stat) (ps : list vec) (lw plw lik : list t) (Tm : list (list t)) : vec :=
  match s with
  | Smean => mean ps lw
  | Smode => mode ps lw
  | Smap => map_est ps plw lik Tm
  end.

(* `if (x_weights_.size() != history.cols()) recompute` *)
Definition cached (c : list t) (n : nat) (f : nat -> list t) : list t :=
  if Nat.eqb (length c) n then c else f n.

(* EstimatesExtraction.cpp:265-363 (simpleAverage / weightedAverage / exponentialAverage) *)
Definition windowed (v : wvariant) (s : stat) (st : est)
           (ps : list vec) (lw plw lik : list t) (Tm : list (list t)) : est * vec :=
  let cur := base_est s ps lw plw lik Tm in
  let h := hist_add cur (hb st) in
  let history := hist_get h in
  let n := length history in
  match v with
  | Wsimple =>
      let w := cached (smw st) n sm_weights in
      (mkEst (meth st) h w (wmw st) (emw st), mean history w)
  | Wweighted =>
      let w := cached (wmw st) n wm_weights in
      (mkEst (meth st) h (smw st) w (emw st), mean history w)
  | Wexponential =>
      let w := cached (emw st) n em_weights in
      (mkEst (meth st) h (smw st) (wmw st) w, mean history w)
  end.

Definition avail (r : est * vec) : est * (bool * vec) := (fst r, (true, snd r)).
(* VectorXd out_particle(state_size_) under EIGEN_INITIALIZE_MATRICES_BY_ZERO *)
Definition unavailable : vec := repeat (s0 S) state_size.

(* EstimatesExtraction.cpp:82-134 *)
Definition extract2 (st : est) (ps : list vec) (lw : list t) : est * (bool * vec) :=
  match meth st with
  | Mmean  => (st, (true, mean ps lw))
  | Msmean => avail (windowed Wsimple Smean st ps lw [] [] [])
  | Mwmean => avail (windowed Wweighted Smean st ps lw [] [] [])
  | Memean => avail (windowed Wexponential Smean st ps lw [] [] [])
  | Mmode  => (st, (true, mode ps lw))
  | Msmode => avail (windowed Wsimple Smode st ps lw [] [] [])
  | Mwmode => avail (windowed Wweighted Smode st ps lw [] [] [])
  | Memode => avail (windowed Wexponential Smode st ps lw [] [] [])
  | Mmap | Msmap | Mwmap | Memap => (st, (false, unavailable))
  end.

(* EstimatesExtraction.cpp:137-178 *)
Definition extract5 (st : est) (ps : list vec) (lw plw lik : list t) (Tm : list (list t))
  : est * (bool * vec) :=
  match meth st with
  | Mmean | Msmean | Mwmean | Memean | Mmode | Msmode | Mwmode | Memode => extract2 st ps lw
  | Mmap  => (st, (true, map_est ps plw lik Tm))
  | Msmap => avail (windowed Wsimple Smap st ps lw plw lik Tm)
  | Mwmap => avail (windowed Wweighted Smap st ps lw plw lik Tm)
  | Memap => avail (windowed Wexponential Smap st ps lw plw lik Tm)
  end.

(* :65-70 *)
Definition set_method (m : method) (st : est) : est :=
  mkEst m (hb st) (smw st) (wmw st) (emw st).
(* :73-79 (int argument; the conversion to unsigned is the identity on window > 0) *)
Definition set_window (w : Z) (st : est) : est * bool :=
  if (0 <? w)%Z then (mkEst (meth st) (hist_set_size w (hb st)) (smw st) (wmw st) (emw st), true)
  else (st, false).
(* :181-184 *)
Definition est_clear (st : est) : est :=
  mkEst (meth st) (hist_clear (hb st)) (smw st) (wmw st) (emw st).

(* EstimatesExtraction.cpp:29-62, move construction / move assignment: (target, moved-from source).
   Every member is taken over; the source is left with method emode, a moved-from history buffer and
   moved-from (empty) weight vectors. *)
Definition est_move (st : est) : est * est :=
  (mkEst (meth st) (fst (hist_move (hb st))) (smw st) (wmw st) (emw st),
   mkEst Memode (snd (hist_move (hb st))) [] [] []).

(* the public operations; result = (returned bool, returned estimate or []) *)
Inductive op :=
| OExtract2 (ps : list vec) (lw : list t)
| OExtract5 (ps : list vec) (lw plw lik : list t) (Tm : list (list t))
| OSetMethod (m : method)
| OSetWindow (w : Z)
| OClear.

Definition step (st : est) (o : op) : est * (bool * vec) :=
  match o with
  | OExtract2 ps lw => extract2 st ps lw
  | OExtract5 ps lw plw lik Tm => extract5 st ps lw plw lik Tm
  | OSetMethod m => (set_method m st, (true, []))
  | OSetWindow w => let r := set_window w st in (fst r, (snd r, []))
  | OClear => (est_clear st, (true, []))
  end.

Definition run (st : est) (ops : list op) : est := fold_left (fun s o => fst (step s o)) ops st.
End Est.

Arguments mkEst {S}. Arguments meth {S}. Arguments hb {S}. Arguments smw {S}. Arguments wmw {S}. Arguments emw {S}.
Arguments OExtract2 {S}. Arguments OExtract5 {S}. Arguments OSetMethod {S}. Arguments OSetWindow {S}. Arguments OClear {S}.

(* which methods are what *)
Definition meth_stat (m : method) : stat :=
  match m with
  | Mmean | Msmean | Mwmean | Memean => Smean
  | Mmode | Msmode | Mwmode | Memode => Smode
  | Mmap | Msmap | Mwmap | Memap => Smap
  end.
Definition meth_win (m : method) : option wvariant :=
  match m with
  | Mmean | Mmode | Mmap => None
  | Msmean | Msmode | Msmap => Some Wsimple
  | Mwmean | Mwmode | Mwmap => Some Wweighted
  | Memean | Memode | Memap => Some Wexponential
  end.
