(* C19_Proofs.v — lemmas about the C19 model at the Coq-reals instance ROps. *)
Require Import ZArith Reals Lra Lia List.
Require Import BFL.Ops BFL.C19_ROps BFL.C19_Model.
Import ListNotations.
Local Open Scope R_scope.

(* ------------------------------------------------------------------ wrap *)

Definition in_range (x : R) : Prop := - PI < x <= PI.
(* y is x plus an integer number of full turns *)
Definition cong2pi (x y : R) : Prop := exists k : Z, y = x + 2 * IZR k * PI.

Lemma cong2pi_refl x : cong2pi x x.
Proof. exists 0%Z. simpl. lra. Qed.
Lemma cong2pi_sym x y : cong2pi x y -> cong2pi y x.
Proof. intros [k ->]. exists (- k)%Z. rewrite opp_IZR. lra. Qed.
Lemma cong2pi_trans x y z : cong2pi x y -> cong2pi y z -> cong2pi x z.
Proof. intros [k ->] [l ->]. exists (k + l)%Z. rewrite plus_IZR. lra. Qed.
Lemma cong2pi_plus x y u v : cong2pi x y -> cong2pi u v -> cong2pi (x + u) (y + v).
Proof. intros [k ->] [l ->]. exists (k + l)%Z. rewrite plus_IZR. lra. Qed.
Lemma cong2pi_opp x y : cong2pi x y -> cong2pi (- x) (- y).
Proof. intros [k ->]. exists (- k)%Z. rewrite opp_IZR. lra. Qed.
Lemma cong2pi_cos x y : cong2pi x y -> cos y = cos x.
Proof. intros [k ->]. apply cos_period_Z. Qed.
Lemma cong2pi_sin x y : cong2pi x y -> sin y = sin x.
Proof. intros [k ->]. apply sin_period_Z. Qed.

(* every real has a representative in (-PI, PI] *)
Lemma principal_exists x : exists k : Z, in_range (x + 2 * IZR k * PI).
Proof.
  pose proof PI_RGT_0 as Hpi. set (u := (PI - x) / (2 * PI)).
  destruct (archimed u) as [H1 H2]. exists (up u - 1)%Z. rewrite minus_IZR.
  assert (Hu : u * (2 * PI) = PI - x) by (unfold u; field; lra).
  unfold in_range. split; nra.
Qed.

Lemma in_range_cong_eq x y : in_range x -> in_range y -> cong2pi x y -> x = y.
Proof.
  intros Hx Hy Hc. symmetry. apply (polar_unique 1); try assumption; try lra.
  - now rewrite (cong2pi_cos _ _ Hc).
  - now rewrite (cong2pi_sin _ _ Hc).
Qed.

Lemma wrap_R x : wrap ROps x = atan2 (sin x) (cos x).
Proof. unfold wrap, carg, cexp, cj_times. simpl. rewrite exp_0, !Rmult_1_l. reflexivity. Qed.

Local Arguments wrap : simpl never.

(* atan2 (sin x) (cos x) is the representative of x in (-PI, PI] *)
Lemma atan2_sin_cos x : in_range (atan2 (sin x) (cos x)) /\ cong2pi x (atan2 (sin x) (cos x)).
Proof.
  destruct (principal_exists x) as [k Hk].
  assert (E : atan2 (sin x) (cos x) = x + 2 * IZR k * PI).
  { rewrite <- (sin_period_Z x k), <- (cos_period_Z x k).
    rewrite <- (Rmult_1_l (sin _)), <- (Rmult_1_l (cos _)). apply atan2_of_polar; [lra | exact Hk]. }
  rewrite E. split; [exact Hk | now exists k].
Qed.

Lemma wrap_range x : in_range (wrap ROps x).
Proof. rewrite wrap_R. apply atan2_sin_cos. Qed.
Lemma wrap_congruent x : cong2pi x (wrap ROps x).
Proof. rewrite wrap_R. apply atan2_sin_cos. Qed.
Lemma wrap_cong x y : cong2pi x y -> wrap ROps y = wrap ROps x.
Proof. intros H. rewrite !wrap_R, (cong2pi_cos _ _ H), (cong2pi_sin _ _ H). reflexivity. Qed.
Lemma wrap_shift x (k : Z) : wrap ROps (x + 2 * IZR k * PI) = wrap ROps x.
Proof. apply wrap_cong. now exists k. Qed.
Lemma wrap_id x : in_range x -> wrap ROps x = x.
Proof. intros H. symmetry. apply in_range_cong_eq; [exact H | apply wrap_range | apply wrap_congruent]. Qed.
Lemma wrap_idem x : wrap ROps (wrap ROps x) = wrap ROps x.
Proof. apply wrap_id, wrap_range. Qed.
(* the boundary convention: the half turn is represented by +PI, never by -PI *)
Lemma wrap_PI : wrap ROps PI = PI.
Proof. apply wrap_id. unfold in_range. pose proof PI_RGT_0. lra. Qed.
Lemma wrap_mPI : wrap ROps (- PI) = PI.
Proof.
  replace (- PI) with (PI + 2 * IZR (-1) * PI) by (simpl; lra). rewrite wrap_shift. apply wrap_PI.
Qed.

(* ------------------------------------------------------- add / sub (matrices) *)

Definition plain_add (a : list (list R)) (b : list R) : list (list R) :=
  map (fun rb => map (fun x => x + snd rb) (fst rb)) (combine a b).
Definition plain_sub (a : list (list R)) (b : list R) : list (list R) :=
  map (fun rb => map (fun x => x - snd rb) (fst rb)) (combine a b).

Lemma dir_add_R a b : dir_add ROps a b = map (map (wrap ROps)) (plain_add a b).
Proof.
  unfold dir_add, plain_add. rewrite map_map. apply map_ext. intros [r y]. simpl.
  rewrite map_map. reflexivity.
Qed.

Lemma plain_sub_add a b : plain_sub a b = plain_add a (map Ropp b).
Proof.
  unfold plain_sub, plain_add. revert b. induction a as [|r a IH]; intros [|y b]; simpl; try reflexivity.
  rewrite IH. reflexivity.
Qed.

Lemma dir_sub_R a b : dir_sub ROps a b = map (map (wrap ROps)) (plain_sub a b).
Proof. unfold dir_sub. rewrite dir_add_R, plain_sub_add. reflexivity. Qed.

Lemma Forall_map_wrap_range l : Forall in_range (map (wrap ROps) l).
Proof. induction l; simpl; constructor; [apply wrap_range | assumption]. Qed.
Lemma Forall_mmap_wrap_range m : Forall (Forall in_range) (map (map (wrap ROps)) m).
Proof. induction m; simpl; constructor; [apply Forall_map_wrap_range | assumption]. Qed.

Lemma Forall2_map_wrap_cong l : Forall2 cong2pi l (map (wrap ROps) l).
Proof. induction l; simpl; constructor; [apply wrap_congruent | assumption]. Qed.
Lemma Forall2_mmap_wrap_cong m : Forall2 (Forall2 cong2pi) m (map (map (wrap ROps)) m).
Proof. induction m; simpl; constructor; [apply Forall2_map_wrap_cong | assumption]. Qed.

Lemma map_wrap_cong l l' : Forall2 cong2pi l l' -> map (wrap ROps) l' = map (wrap ROps) l.
Proof. induction 1; simpl; [reflexivity|]. f_equal; [now apply wrap_cong | assumption]. Qed.
Lemma mmap_wrap_cong m m' : Forall2 (Forall2 cong2pi) m m' ->
  map (map (wrap ROps)) m' = map (map (wrap ROps)) m.
Proof. induction 1; simpl; [reflexivity|]. f_equal; [now apply map_wrap_cong | assumption]. Qed.

Lemma plain_add_cong a a' b b' : Forall2 (Forall2 cong2pi) a a' -> Forall2 cong2pi b b' ->
  Forall2 (Forall2 cong2pi) (plain_add a b) (plain_add a' b').
Proof.
  intros Ha. revert b b'. induction Ha as [|r r' a a' Hr Ha IH]; intros b b' Hb.
  - constructor.
  - destruct Hb as [|y y' b b' Hy Hb]; [constructor|]. unfold plain_add. simpl. constructor.
    + clear -Hr Hy. induction Hr; simpl; constructor; [now apply cong2pi_plus | assumption].
    + apply IH, Hb.
Qed.

Lemma Forall2_cong_map_opp b b' : Forall2 cong2pi b b' -> Forall2 cong2pi (map Ropp b) (map Ropp b').
Proof. induction 1; simpl; constructor; [now apply cong2pi_opp | assumption]. Qed.

Lemma add_range a b : Forall (Forall in_range) (dir_add ROps a b).
Proof. rewrite dir_add_R. apply Forall_mmap_wrap_range. Qed.
Lemma add_congruent a b : Forall2 (Forall2 cong2pi) (plain_add a b) (dir_add ROps a b).
Proof. rewrite dir_add_R. apply Forall2_mmap_wrap_cong. Qed.
Lemma add_shift_invariant a a' b b' : Forall2 (Forall2 cong2pi) a a' -> Forall2 cong2pi b b' ->
  dir_add ROps a' b' = dir_add ROps a b.
Proof. intros Ha Hb. rewrite !dir_add_R. apply mmap_wrap_cong, plain_add_cong; assumption. Qed.

Lemma sub_range a b : Forall (Forall in_range) (dir_sub ROps a b).
Proof. apply add_range. Qed.
Lemma sub_congruent a b : Forall2 (Forall2 cong2pi) (plain_sub a b) (dir_sub ROps a b).
Proof. rewrite dir_sub_R. apply Forall2_mmap_wrap_cong. Qed.
Lemma sub_shift_invariant a a' b b' : Forall2 (Forall2 cong2pi) a a' -> Forall2 cong2pi b b' ->
  dir_sub ROps a' b' = dir_sub ROps a b.
Proof. intros Ha Hb. unfold dir_sub. apply add_shift_invariant; [assumption | now apply Forall2_cong_map_opp]. Qed.

(* shape: one output row per (row of a, entry of b) pair, row widths kept *)
Lemma add_shape a b : length (dir_add ROps a b) = Nat.min (length a) (length b) /\
  forall i, (i < Nat.min (length a) (length b))%nat ->
    length (nth i (dir_add ROps a b) []) = length (nth i a []).
Proof.
  unfold dir_add. rewrite map_length, combine_length. split; [reflexivity|].
  revert b. induction a as [|r a IH]; intros [|y b] i Hi; simpl in *; try lia.
  destruct i; [now rewrite map_length | apply IH; lia].
Qed.

(* entry-wise reading *)
Lemma nth_map_in {A B} (f : A -> B) l j d d' : (j < length l)%nat -> nth j (map f l) d = f (nth j l d').
Proof. intros H. rewrite (nth_indep _ d (f d')) by now rewrite map_length. apply map_nth. Qed.

Lemma nth_mmap {A B} (f : A -> B) M i : nth i (map (map f) M) [] = map f (nth i M []).
Proof. exact (map_nth (map f) M [] i). Qed.

Lemma plain_add_row a b i : (i < length a)%nat -> (i < length b)%nat ->
  nth i (plain_add a b) [] = map (fun x => x + nth i b 0) (nth i a []).
Proof.
  unfold plain_add. revert b i. induction a as [|r a IH]; intros [|y b] i Ha Hb; simpl in *; try lia.
  destruct i; [reflexivity | apply IH; lia].
Qed.

Lemma add_entry a b i j : (i < length a)%nat -> (i < length b)%nat -> (j < length (nth i a []))%nat ->
  nth j (nth i (dir_add ROps a b) []) 0 = wrap ROps (nth j (nth i a []) 0 + nth i b 0).
Proof.
  intros Ha Hb Hj. rewrite dir_add_R.
  rewrite nth_mmap, plain_add_row by assumption.
  rewrite (nth_map_in _ _ _ _ 0) by now rewrite map_length.
  f_equal. now rewrite (nth_map_in _ _ _ _ 0).
Qed.

(* ------------------------------------------------------------------ mean *)

Fixpoint wsumf (f : R -> R) (row w : list R) : R :=
  match row, w with
  | a :: row', x :: w' => f a * x + wsumf f row' w'
  | _, _ => 0
  end.

Lemma resultant_acc row w (acc : R * R) :
  fold_left (fun acc aw => cadd ROps acc (cscale ROps (cexp ROps (cj_times ROps (fst aw))) (snd aw)))
            (combine row w) acc = (fst acc + wsumf cos row w, snd acc + wsumf sin row w).
Proof.
  revert w acc. induction row as [|a row IH]; intros [|x w] [c s]; cbn [combine fold_left wsumf fst snd];
    try (f_equal; lra).
  rewrite IH. unfold cadd, cscale, cexp, cj_times. simpl. rewrite exp_0. f_equal; lra.
Qed.

Lemma resultant_R row w : resultant ROps row w = (wsumf cos row w, wsumf sin row w).
Proof. unfold resultant. rewrite resultant_acc. simpl. f_equal; lra. Qed.

Lemma mean_row_R row w : mean_row ROps row w = atan2 (wsumf sin row w) (wsumf cos row w).
Proof. unfold mean_row, carg. rewrite resultant_R. reflexivity. Qed.

(* the general branch, entry i *)
Lemma mean_is_arg_of_resultant cols a w i : cols <> 1%nat -> (i < length a)%nat ->
  nth i (dir_mean ROps cols a w) 0 =
  atan2 (wsumf sin (nth i a []) w) (wsumf cos (nth i a []) w).
Proof.
  intros Hc Hi. unfold dir_mean. destruct (Nat.eqb_spec cols 1) as [E|_]; [contradiction|].
  rewrite (nth_indep _ 0 (mean_row ROps [] w)) by now rewrite map_length.
  rewrite (map_nth (fun row => mean_row ROps row w)). apply mean_row_R.
Qed.

Lemma mean_general cols a w : cols <> 1%nat -> dir_mean ROps cols a w = map (fun row => mean_row ROps row w) a.
Proof. intros Hc. unfold dir_mean. destruct (Nat.eqb_spec cols 1); [contradiction | reflexivity]. Qed.

(* the one-column branch: the column, wrapped, whatever the weights *)
Lemma mean_single_column a w : dir_mean ROps 1 a w = map (fun row => wrap ROps (nth 0 row 0)) a.
Proof.
  unfold dir_mean. cbn [Nat.eqb]. apply map_ext. intros row. f_equal. cbn [sadd s0 ROps]. apply Rplus_0_r.
Qed.

Lemma mean_length cols a w : length (dir_mean ROps cols a w) = length a.
Proof. unfold dir_mean. destruct (Nat.eqb cols 1); now rewrite map_length. Qed.

Lemma wsumf_cong f row row' w : (forall x y, cong2pi x y -> f y = f x) ->
  Forall2 cong2pi row row' -> wsumf f row' w = wsumf f row w.
Proof.
  intros Hf H. revert w. induction H as [|a a' row row' Ha Hr IH]; intros [|x w]; simpl; try reflexivity.
  rewrite (Hf _ _ Ha), IH. reflexivity.
Qed.

Lemma mean_row_shift row row' w : Forall2 cong2pi row row' -> mean_row ROps row' w = mean_row ROps row w.
Proof.
  intros H. rewrite !mean_row_R.
  rewrite (wsumf_cong sin row row' w cong2pi_sin H), (wsumf_cong cos row row' w cong2pi_cos H). reflexivity.
Qed.

Lemma mean_shift_invariant cols a a' w : cols <> 1%nat -> Forall2 (Forall2 cong2pi) a a' ->
  dir_mean ROps cols a' w = dir_mean ROps cols a w.
Proof.
  intros Hc H. rewrite !mean_general by assumption.
  induction H; simpl; [reflexivity|]. f_equal; [now apply mean_row_shift | assumption].
Qed.

(* the one-column branch is shift invariant as well *)
Lemma mean_single_column_shift a a' w : Forall2 (Forall2 cong2pi) a a' ->
  dir_mean ROps 1 a' w = dir_mean ROps 1 a w.
Proof.
  rewrite !mean_single_column. induction 1 as [|r r' a a' Hr Ha IH]; simpl; [reflexivity|]. f_equal; [|assumption].
  apply wrap_cong. destruct Hr; simpl; [apply cong2pi_refl | assumption].
Qed.

(* rotation of all samples by a common angle *)
Lemma wsumf_cos_rot d row w :
  wsumf cos (map (fun x => x + d) row) w = wsumf cos row w * cos d - wsumf sin row w * sin d.
Proof.
  revert w. induction row as [|a row IH]; intros [|x w]; simpl; try lra.
  rewrite IH, cos_plus. lra.
Qed.
Lemma wsumf_sin_rot d row w :
  wsumf sin (map (fun x => x + d) row) w = wsumf sin row w * cos d + wsumf cos row w * sin d.
Proof.
  revert w. induction row as [|a row IH]; intros [|x w]; simpl; try lra.
  rewrite IH, sin_plus. lra.
Qed.

Lemma atan2_rot y x d : (x <> 0 \/ y <> 0) ->
  cong2pi (atan2 y x + d) (atan2 (y * cos d + x * sin d) (x * cos d - y * sin d)).
Proof.
  intros Hnz. destruct (atan2_polar y x Hnz) as [Hth [Hx Hy]].
  set (r := sqrt (x² + y²)) in *. set (th := atan2 y x) in *.
  assert (Hr : 0 < r).
  { unfold r. apply sqrt_lt_R0. unfold Rsqr. destruct Hnz; nra. }
  clearbody r th.
  replace (y * cos d + x * sin d) with (r * sin (th + d)) by (rewrite sin_plus, Hx, Hy; ring).
  replace (x * cos d - y * sin d) with (r * cos (th + d)) by (rewrite cos_plus, Hx, Hy; ring).
  rewrite atan2_scale by assumption. apply atan2_sin_cos.
Qed.

Lemma mean_row_rotation row w d :
  (wsumf cos row w <> 0 \/ wsumf sin row w <> 0) ->
  cong2pi (mean_row ROps row w + d) (mean_row ROps (map (fun x => x + d) row) w).
Proof.
  intros Hnz. rewrite !mean_row_R, wsumf_cos_rot, wsumf_sin_rot. now apply atan2_rot.
Qed.

(* all samples equal *)
Fixpoint wtot (n : nat) (w : list R) : R :=
  match n, w with
  | S n', x :: w' => x + wtot n' w'
  | _, _ => 0
  end.

Lemma wsumf_repeat f a n w : wsumf f (repeat a n) w = f a * wtot n w.
Proof.
  revert w. induction n as [|n IH]; intros [|x w]; simpl; try lra. rewrite IH. lra.
Qed.

Lemma mean_row_all_equal a n w : 0 < wtot n w -> mean_row ROps (repeat a n) w = wrap ROps a.
Proof.
  intros Hw. rewrite mean_row_R, !wsumf_repeat, wrap_R.
  rewrite (Rmult_comm (sin a)), (Rmult_comm (cos a)). now apply atan2_scale.
Qed.

Lemma mean_all_equal_matrix cols (al : list R) w : cols <> 1%nat -> 0 < wtot cols w ->
  dir_mean ROps cols (map (fun a => repeat a cols) al) w = map (wrap ROps) al.
Proof.
  intros Hc Hw. rewrite mean_general by assumption. rewrite map_map. apply map_ext.
  intros a. now apply mean_row_all_equal.
Qed.

Lemma mean_row_all_equal_in_range a n w : 0 < wtot n w -> - PI < a <= PI ->
  mean_row ROps (repeat a n) w = a.
Proof. intros H Ha. rewrite mean_row_all_equal by assumption. now apply wrap_id. Qed.

(* positive weights, samples inside an arc shorter than a half turn *)
Lemma wsumf_nonneg f row w : Forall (fun x => 0 < x) w -> Forall (fun a => 0 <= f a) row -> 0 <= wsumf f row w.
Proof.
  intros Hw. revert row. induction Hw as [|x w Hx Hw IH]; intros [|a row] Hr; simpl; try lra.
  inversion Hr; subst. specialize (IH row H2). nra.
Qed.
Lemma wsumf_pos f row w : row <> [] -> w <> [] -> Forall (fun x => 0 < x) w -> Forall (fun a => 0 < f a) row ->
  0 < wsumf f row w.
Proof.
  intros Hr Hw Hpw Hpr. destruct row as [|a row]; [contradiction|]. destruct w as [|x w]; [contradiction|].
  simpl. inversion Hpw; subst. inversion Hpr; subst.
  assert (0 <= wsumf f row w).
  { apply wsumf_nonneg; [assumption|]. eapply Forall_impl; [|eassumption]. simpl. intros; lra. }
  nra.
Qed.

Lemma wsumf_shift_cos row w m :
  wsumf (fun a => cos (a - m)) row w = wsumf cos row w * cos m + wsumf sin row w * sin m.
Proof. revert w. induction row as [|a row IH]; intros [|x w]; simpl; try lra. rewrite IH, cos_minus. lra. Qed.
Lemma wsumf_shift_sin row w m :
  wsumf (fun a => sin (a - m)) row w = wsumf sin row w * cos m - wsumf cos row w * sin m.
Proof. revert w. induction row as [|a row IH]; intros [|x w]; simpl; try lra. rewrite IH, sin_minus. lra. Qed.

Lemma cos_pos_range p : in_range p -> 0 < cos p -> - (PI / 2) < p < PI / 2.
Proof.
  intros [H1 H2] Hc. pose proof PI_RGT_0 as Hpi.
  destruct (Rle_dec (PI / 2) p) as [Hge|Hlt].
  - exfalso. assert (cos p <= 0) by (apply cos_le_0; lra). lra.
  - destruct (Rle_dec p (- (PI / 2))) as [Hle|Hgt]; [|lra].
    exfalso. assert (cos (- p) <= 0) by (apply cos_le_0; lra). rewrite cos_neg in H. lra.
Qed.

Lemma sin_nonneg_range q : - PI < q < PI -> 0 <= sin q -> 0 <= q.
Proof.
  intros [H1 H2] Hs. destruct (Rle_dec 0 q) as [|Hn]; [assumption|].
  exfalso. assert (sin q < 0) by (apply sin_lt_0_var; lra). lra.
Qed.

Lemma mean_row_in_arc row w lo hi :
  row <> [] -> length w = length row ->
  Forall (fun x => 0 < x) w -> Forall (fun a => lo <= a <= hi) row -> hi - lo < PI ->
  exists k : Z, lo <= mean_row ROps row w + 2 * IZR k * PI <= hi.
Proof.
  intros Hrow Hlen Hw Hr Harc. pose proof PI_RGT_0 as Hpi.
  assert (Hwne : w <> []) by (intros ->; destruct row; [contradiction | discriminate]).
  set (C := wsumf cos row w). set (Sn := wsumf sin row w).
  set (m := (lo + hi) / 2). set (h := (hi - lo) / 2).
  assert (Hh : h < PI / 2) by (unfold h; lra).
  (* projection on the mid direction is positive *)
  assert (Hmid : 0 < C * cos m + Sn * sin m).
  { unfold C, Sn. rewrite <- wsumf_shift_cos. apply wsumf_pos; try assumption.
    eapply Forall_impl; [|exact Hr]. simpl. intros a Ha. apply cos_gt_0; unfold m; lra. }
  assert (Hlo : 0 <= Sn * cos lo - C * sin lo).
  { unfold C, Sn. rewrite <- wsumf_shift_sin. apply wsumf_nonneg; [assumption|].
    eapply Forall_impl; [|exact Hr]. simpl. intros a Ha. apply sin_ge_0; lra. }
  assert (Hhi : 0 <= C * sin hi - Sn * cos hi).
  { assert (E : C * sin hi - Sn * cos hi = wsumf (fun a => sin (hi - a)) row w).
    { unfold C, Sn. clear. revert w. induction row as [|a row IH]; intros [|x w]; simpl; try lra.
      rewrite <- IH, sin_minus. lra. }
    rewrite E. apply wsumf_nonneg; [assumption|].
    eapply Forall_impl; [|exact Hr]. simpl. intros a Ha. apply sin_ge_0; lra. }
  assert (Hnz : C <> 0 \/ Sn <> 0).
  { destruct (Req_dec C 0) as [HC|]; [|now left]. right. intros HS. rewrite HC, HS in Hmid. lra. }
  rewrite mean_row_R. fold C Sn.
  destruct (atan2_polar Sn C Hnz) as [Hth [HC HS]].
  set (r := sqrt (C² + Sn²)) in *. set (th := atan2 Sn C) in *.
  assert (Hrpos : 0 < r).
  { unfold r. apply sqrt_lt_R0. unfold Rsqr. destruct Hnz; nra. }
  clearbody r th.
  destruct (principal_exists (th - m)) as [k Hk]. exists k.
  set (p := th - m + 2 * IZR k * PI) in *.
  assert (Ecos : cos p = cos (th - m)) by apply cos_period_Z.
  assert (Esin : sin p = sin (th - m)) by apply sin_period_Z.
  assert (Hcp : 0 < cos p).
  { rewrite Ecos, cos_minus. rewrite HC, HS in Hmid.
    assert (0 < r * (cos th * cos m + sin th * sin m)) by lra. nra. }
  destruct (cos_pos_range p Hk Hcp) as [Hp1 Hp2].
  assert (Hlo' : 0 <= sin (p + h)).
  { rewrite sin_plus, Ecos, Esin.
    assert (E : sin (th - m) * cos h + cos (th - m) * sin h = sin (th - lo)).
    { rewrite <- sin_plus. f_equal. unfold m, h. lra. }
    rewrite E, sin_minus. rewrite HC, HS in Hlo.
    assert (0 <= r * (sin th * cos lo - cos th * sin lo)) by lra. nra. }
  assert (Hhi' : 0 <= sin (h - p)).
  { rewrite sin_minus, Ecos, Esin.
    assert (E : sin h * cos (th - m) - cos h * sin (th - m) = sin (hi - th)).
    { rewrite <- sin_minus. f_equal. unfold m, h. lra. }
    rewrite E, sin_minus. rewrite HC, HS in Hhi.
    assert (0 <= r * (sin hi * cos th - cos hi * sin th)) by lra. nra. }
  assert (Hh0 : 0 <= h).
  { destruct row as [|a row]; [contradiction|]. inversion Hr; subst. unfold h. lra. }
  apply sin_nonneg_range in Hlo'; [|lra]. apply sin_nonneg_range in Hhi'; [|lra].
  unfold p, m, h in *. lra.
Qed.

(* non-vacuity helper: a concrete row *)
Lemma in_arc_example_premises :
  let row := [1; 2; 3/2] in let w := [1/4; 1/4; 1/2] in
  row <> [] /\ length w = length row /\ Forall (fun x => 0 < x) w /\
  Forall (fun a => 1 <= a <= 2) row /\ 2 - 1 < PI.
Proof.
  pose proof PI_RGT_0. pose proof PI2_3_2. simpl.
  repeat split; try discriminate; try (repeat constructor; lra).
Qed.

Lemma wrap_concrete : wrap ROps (3 * PI) = PI /\ wrap ROps (PI / 2 + 2 * IZR (-5) * PI) = PI / 2.
Proof.
  pose proof PI_RGT_0. split.
  - replace (3 * PI) with (PI + 2 * IZR 1 * PI) by lra. rewrite wrap_shift. exact wrap_PI.
  - rewrite wrap_shift. apply wrap_id. unfold in_range. lra.
Qed.

(* ------------------------------------------------ matrix-level statements for the general branch *)

Definition row_nonzero (w row : list R) : Prop := wsumf cos row w <> 0 \/ wsumf sin row w <> 0.

Lemma mean_rotation_matrix cols a w d : cols <> 1%nat -> Forall (row_nonzero w) a ->
  Forall2 cong2pi (map (fun m => m + d) (dir_mean ROps cols a w))
                  (dir_mean ROps cols (map (map (fun x => x + d)) a) w).
Proof.
  intros Hc H. rewrite !mean_general by assumption.
  induction H as [|row a Hr Ha IH]; simpl; constructor; [now apply mean_row_rotation | exact IH].
Qed.

Definition arc_ok (cols : nat) (row : list R) (lh : R * R) : Prop :=
  length row = cols /\ row <> [] /\ Forall (fun x => fst lh <= x <= snd lh) row /\ snd lh - fst lh < PI.

Lemma mean_in_arc_matrix cols a w arcs : cols <> 1%nat -> length w = cols ->
  Forall (fun x => 0 < x) w -> Forall2 (arc_ok cols) a arcs ->
  Forall2 (fun m lh => exists k : Z, fst lh <= m + 2 * IZR k * PI <= snd lh) (dir_mean ROps cols a w) arcs.
Proof.
  intros Hc Hw Hpos H. rewrite mean_general by assumption.
  induction H as [|row lh a arcs [Hl [Hne [Hin Harc]]] Ha IH]; simpl; constructor; [|exact IH].
  apply mean_row_in_arc; try assumption. congruence.
Qed.

(* ------------------------------------------------ the one-column branch against the literal clauses *)

Lemma not_cong_half_turn : ~ cong2pi PI 0.
Proof.
  intros [k Hk]. pose proof PI_RGT_0.
  assert (E : IZR (2 * k + 1) = 0) by (rewrite plus_IZR, mult_IZR; simpl; nra).
  apply eq_IZR in E. lia.
Qed.

(* one column, positive weight: the result IS the argument of the resultant; a negative weight is ignored
   (the resultant turns by a half turn, the result does not move) *)
Lemma single_column_positive a w : 0 < w -> dir_mean ROps 1 [[a]] [w] = [mean_row ROps [a] [w]].
Proof.
  intros H. rewrite mean_single_column. cbn [map nth]. f_equal. symmetry.
  apply (mean_row_all_equal a 1 [w]). simpl. lra.
Qed.

Lemma single_column_weight_ignored_refuted :
  exists a w, w < 0 /\ ~ cong2pi (mean_row ROps [a] [w]) (nth 0 (dir_mean ROps 1 [[a]] [w]) 0).
Proof.
  pose proof PI_RGT_0 as Hp. exists 0, (-1). split; [lra|]. rewrite mean_single_column, mean_row_R. cbn [map nth wsumf].
  rewrite sin_0, cos_0. replace (0 * -1 + 0) with 0 by ring. replace (1 * -1 + 0) with (-1) by ring.
  assert (E : atan2 0 (-1) = PI).
  { unfold atan2. destruct (total_order_T (-1) 0) as [[H|H]|H]; try lra.
    destruct (Rle_dec 0 0); [|lra]. replace (0 / -1) with 0 by (field; lra). rewrite atan_0. lra. }
  rewrite E. rewrite wrap_id by (unfold in_range; lra). apply not_cong_half_turn.
Qed.
