(* C06_Cmd.v — the command-level layer of the C06 model: a history is a list of
   ITEMS, each either
     IStep ce     the raw commands  filter.skip(name, status)  issued before a
                  filtering step (ParticleFilter::skip -> PFPrediction::skip /
                  PFCorrection::skip -> StateModel::skip -> ExogenousModel::skip:
                  the dispatch of C13_Model, with or without exogenous model),
                  then one SIS::filtering_step of C06_Model whose two skip flags
                  are READ from the flag state (PFPrediction::skip_ = f_pred,
                  PFCorrection::skip_ = f_corr) and whose state-model motion is the
                  branch of propagate selected by the flags of the state and exogenous
                  models (prop_mode_of: LinearStateModel::propagate's four-way test);
     IReset p w   FilteringAlgorithm::reset(): the pass ends after the current step,
                  the step counter returns to 0 and initialization_step() fills the
                  predicted set again (states/means/covariances p, log-weights w); the
                  corrected set keeps its stale content, the skip flags stay as they are.
   Nothing is computed outside: the flags of every step are a function of the raw
   commands.  No proofs here. *)
Require Import List Bool.
Require Import BFL.Ops BFL.C07_Model BFL.C06_Model BFL.C13_Model.
Import ListNotations.

Section C06Cmd.
Variable S : SOps.
Variable St : Type.
Variable Aux : Type.
Notation T := (T S).

Record cevent := mkCEvent {
  ce_cmds : list cmd;                          (* skip(name, status) calls issued before the step, in order *)
  ce_freeze : bool;                            (* result of correction().freeze_measurements() *)
  ce_lik : option (list T);                    (* LikelihoodModel::likelihood *)
  ce_motion : prop_mode -> nat -> St -> St;    (* StateModel::motion on particle i, by what propagate does under the model flags *)
  ce_u1 : T                                    (* offset drawn by Resampling::resample, if called *)
}.

Inductive item :=
| IStep (ce : cevent)
| IReset (parts : list (St * Aux)) (lw : list T).

(* the event of C06_Model that a step sees under flag state f *)
Definition event_of (f : flags) (ce : cevent) : @event S St :=
  mkEvent (f_pred f) (f_corr f) (ce_freeze ce) (ce_lik ce) (ce_motion ce (prop_mode_of f)) (ce_u1 ce).

Record cstate := mkC { c_flags : flags; c_sis : @sis_state S St Aux }.

(* the commands of the step are dispatched, then the step runs under the resulting flags *)
Definition cmd_flags (cs : cstate) (ce : cevent) : flags := final (ce_cmds ce) (c_flags cs).

Definition cmd_step (Nf : nat) (cs : cstate) (ce : cevent) : cstate :=
  let f := cmd_flags cs ce in
  mkC f (sis_step Nf (c_sis cs) (event_of f ce)).

(* filtering_step_ = 0; initialization().initialize(pred_particle_): the object keeps its layout fields *)
Definition reinit (st : @sis_state S St Aux) (parts : list (St * Aux)) (lw : list T) : @sis_state S St Aux :=
  mkSis 0 (mkSset (s_lin (pred st)) (s_circ (pred st)) parts lw) (cor st).

Definition item_step (Nf : nat) (cs : cstate) (it : item) : cstate :=
  match it with
  | IStep ce => cmd_step Nf cs ce
  | IReset p w => mkC (c_flags cs) (reinit (c_sis cs) p w)
  end.

Definition cmd_run (Nf : nat) (cs : cstate) (its : list item) : cstate := fold_left (item_step Nf) its cs.

(* the states after every item *)
Fixpoint cmd_trace (Nf : nat) (cs : cstate) (its : list item) : list cstate :=
  match its with
  | [] => []
  | it :: r => let cs' := item_step Nf cs it in cs' :: cmd_trace Nf cs' r
  end.

(* all raw commands of a history, in the order they were issued *)
Fixpoint cmds_of (its : list item) : list cmd :=
  match its with
  | [] => []
  | IStep ce :: r => ce_cmds ce ++ cmds_of r
  | IReset _ _ :: r => cmds_of r
  end.

(* what the driver prints per item: the answers skip() gave to the commands of the step, the corrected set
   before the resampling test and the decision taken on it (None for a reset), and the state after the item *)
Definition step_report (Nf : nat) (cs : cstate) (it : item) : option (list res * @sset S St Aux * bool) :=
  match it with
  | IStep ce =>
      let m := sis_mid (c_sis cs) (event_of (cmd_flags cs ce) ce) in
      Some (fst (run (ce_cmds ce) (c_flags cs)), cor m, needs_resampling Nf (cor m))
  | IReset _ _ => None
  end.

Fixpoint cmd_trace_full (Nf : nat) (cs : cstate) (its : list item)
  : list (option (list res * @sset S St Aux * bool) * cstate) :=
  match its with
  | [] => []
  | it :: r => let cs' := item_step Nf cs it in (step_report Nf cs it, cs') :: cmd_trace_full Nf cs' r
  end.

End C06Cmd.
Arguments mkCEvent {_ St}. Arguments ce_cmds {_ St}. Arguments ce_freeze {_ St}. Arguments ce_lik {_ St}.
Arguments ce_motion {_ St}. Arguments ce_u1 {_ St}.
Arguments IStep {_ St Aux}. Arguments IReset {_ St Aux}.
Arguments event_of {_ St}.
Arguments mkC {_ St Aux}. Arguments c_flags {_ St Aux}. Arguments c_sis {_ St Aux}.
Arguments cmd_flags {_ St Aux}. Arguments cmd_step {_ St Aux}. Arguments reinit {_ St Aux}. Arguments item_step {_ St Aux}.
Arguments cmd_run {_ St Aux}. Arguments cmd_trace {_ St Aux}. Arguments cmds_of {_ St Aux}.
Arguments step_report {_ St Aux}. Arguments cmd_trace_full {_ St Aux}.

(* ---- a history of items followed by one more step: the vocabulary of the per-step clauses ---- *)
Section History.
Variable S : SOps.
Variable St Aux : Type.
Variable Nf : nat.
Variable have : bool.                                   (* is an exogenous model attached to the state model *)
Variable st0 : @sis_state S St Aux.                     (* the filter after construction and initialization_step() *)

(* a freshly constructed filter: no flag set *)
Definition hist_start : @cstate S St Aux := mkC (init have) st0.
Definition hist_state (its : list (@item S St Aux)) : @cstate S St Aux := cmd_run Nf hist_start its.
(* every raw command issued so far, including those in front of the step under consideration *)
Definition hist_cmds (its : list (@item S St Aux)) (ce : @cevent S St) : list cmd := cmds_of its ++ ce_cmds ce.
(* the flags the step runs under, and the step before its resampling test *)
Definition hist_flags (its : list (@item S St Aux)) (ce : @cevent S St) : flags := cmd_flags (hist_state its) ce.
Definition hist_mid (its : list (@item S St Aux)) (ce : @cevent S St) : @sis_state S St Aux :=
  sis_mid (c_sis (hist_state its)) (event_of (hist_flags its ce) ce).
Definition hist_after (its : list (@item S St Aux)) (ce : @cevent S St) : @sis_state S St Aux :=
  c_sis (cmd_step Nf (hist_state its) ce).
End History.
Arguments hist_start {_ St Aux}. Arguments hist_state {_ St Aux}. Arguments hist_cmds {_ St Aux}.
Arguments hist_flags {_ St Aux}. Arguments hist_mid {_ St Aux}. Arguments hist_after {_ St Aux}.

(* the rule "status of the last command that touches the flag" (C13), read off the raw commands:
   is the prediction step skipped, is the correction step skipped, what does the state model's propagate do *)
Definition rule_pred_skipped (have : bool) (cs : list cmd) : bool :=
  last_status state_names false cs && (if have then last_status exo_names false cs else true).
Definition rule_corr_skipped (cs : list cmd) : bool := last_status corr_names false cs.
Definition rule_mode (have : bool) (cs : list cmd) : prop_mode :=
  if have then
    (if last_status state_names false cs then MExoOnly
     else if last_status exo_names false cs then MStateOnly else MFull)
  else MStateOnly.
