(* C07_ROps.v — the Coq-reals instance of SOps (World B).  ROpsE e is the
   instance whose `sexp` is an arbitrary function e : R -> R; ROps := ROpsE exp.
   The selection theorems of C07 are proved for every e with e x >= 0, which
   covers log-weights of -infinity (weight exactly zero: any code x with e x = 0). *)
Require Import Reals ZArith Lra.
Require Import BFL.Ops.
Local Open Scope R_scope.

Definition Rleb (a b : R) : bool := if Rle_dec a b then true else false.
Definition Rltb (a b : R) : bool := if Rlt_dec a b then true else false.

Lemma Rleb_true a b : Rleb a b = true <-> a <= b.
Proof. unfold Rleb; destruct (Rle_dec a b); split; auto; discriminate. Qed.
Lemma Rleb_false a b : Rleb a b = false <-> b < a.
Proof. unfold Rleb; destruct (Rle_dec a b); split; auto; try discriminate; lra. Qed.
Lemma Rltb_true a b : Rltb a b = true <-> a < b.
Proof. unfold Rltb; destruct (Rlt_dec a b); split; auto; discriminate. Qed.
Lemma Rltb_false a b : Rltb a b = false <-> b <= a.
Proof. unfold Rltb; destruct (Rlt_dec a b); split; auto; try discriminate; lra. Qed.

(* std::numeric_limits<double>::min() = 2^-1022 *)
Definition Rtiny : R := / (2 ^ 1022).
Lemma Rtiny_pos : 0 < Rtiny.
Proof. unfold Rtiny. apply Rinv_0_lt_compat, pow_lt; lra. Qed.

(* atan2 y x is not used by C06/C07; C19 defines the real one *)
Definition Ratan2_placeholder (y x : R) : R := atan (y / x).

Definition ROpsE (e : R -> R) : SOps :=
  mkSOps R 0 1 Rplus Rminus Rmult Rdiv Ropp Rleb Rltb IZR sqrt e ln cos sin acos
         Ratan2_placeholder PI Rtiny.
Definition ROps : SOps := ROpsE exp.

Lemma sofnat_R e n : sofnat (ROpsE e) n = INR n.
Proof. unfold sofnat; simpl. symmetry; apply INR_IZR_INZ. Qed.
