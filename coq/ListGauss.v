(* ListGauss.v — the Gauss-Jordan routine of the executable list instance
   (ListOps.v: argmax_col, swap_rows, gj_step, gauss_jordan, linv, ldet, lsolve)
   instantiated at the scalars of an arbitrary realFieldType computes, on a
   well-formed n x n input whose MathComp interpretation is invertible, the
   MathComp inverse / determinant / solution.  Together with ListOpsCorrect.v
   this covers every operation of the list instance except the two oracles.
   Axiom-free (MathComp only). *)
Require Import ZArith QArith List.
Require Import BFL.Ops BFL.ListOps.
From mathcomp Require Import all_ssreflect all_algebra perm.
Require Import BFL.MxOps BFL.ListOpsCorrect.
Set Implicit Arguments.
Unset Strict Implicit.
Unset Printing Implicit Defensive.
Import Order.Theory GRing.Theory Num.Theory.
Local Open Scope ring_scope.

(* ------------------------------------------------------------------ *)
(* 1. Pure MathComp facts: one elimination step is a left multiplication
      by a matrix of known determinant; the pivot column cannot vanish.  *)
Section MxStep.
Variable F : realFieldType.
Variables (n q : nat).

(* identity with column k replaced by v *)
Definition colrepl (k : 'I_n) (v : 'cV[F]_n) : 'M[F]_n :=
  \matrix_(i, j) if j == k then v i 0 else (i == j)%:R.

Lemma det_colrepl k v : \det (colrepl k v) = v k 0.
Proof.
rewrite (expand_det_col _ k).
have E i : cofactor (colrepl k v) i k = (i == k)%:R.
  have -> : cofactor (colrepl k v) i k = cofactor (1%:M : 'M[F]_n) i k.
    rewrite /cofactor; congr (_ * \det _).
    apply/matrixP => a b; rewrite !mxE.
    by rewrite eq_sym (negbTE (neq_lift k b)).
  have := adj1 F n; move/matrixP/(_ k i); rewrite !mxE => ->.
  by rewrite eq_sym.
rewrite (bigD1 k) //= big1 ?addr0 => [|i ik]; last by rewrite E (negbTE ik) mulr0.
by rewrite E eqxx mulr1 mxE eqxx.
Qed.

Lemma mul_colrepl k v (M : 'M[F]_(n, q)) i j :
  (colrepl k v *m M) i j = if i == k then v k 0 * M k j else M i j + v i 0 * M k j.
Proof.
rewrite mxE (bigD1 k) //= mxE eqxx.
case: (eqVneq i k) => [->|ik].
  rewrite big1 ?addr0 // => l lk; rewrite mxE (negbTE lk).
  by rewrite eq_sym (negbTE lk) mul0r.
rewrite (bigD1 i) //= mxE (negbTE ik) eqxx mul1r big1 ?addr0 1?addrC //.
move=> l /andP[lk li]; rewrite mxE (negbTE lk) eq_sym (negbTE li) mul0r //.
Qed.

(* the elimination step on the MathComp side *)
Definition mx_gj (k p : 'I_n) (c : 'I_q) (M : 'M[F]_(n, q)) : 'M[F]_(n, q) :=
  let M1 := xrow k p M in
  \matrix_(i, j) if i == k then M1 k j / M1 k c
                 else M1 i j - M1 i c * (M1 k j / M1 k c).

Definition gj_mx (k p : 'I_n) (c : 'I_q) (M : 'M[F]_(n, q)) : 'M[F]_n :=
  let M1 := xrow k p M in
  colrepl k (\col_i if i == k then (M1 k c)^-1 else - (M1 i c / M1 k c)) *m tperm_mx k p.

Lemma mx_gjE k p c M : mx_gj k p c M = gj_mx k p c M *m M.
Proof.
rewrite /gj_mx -mulmxA -xrowE; apply/matrixP => i j.
rewrite mul_colrepl !mxE eqxx.
case: (eqVneq i k) => [_|ik]; first by rewrite mulrC.
by rewrite mulNr mulrA [_ / _ * _]mulrAC.
Qed.

Lemma det_gj_mx k p c M :
  \det (gj_mx k p c M) = (xrow k p M k c)^-1 * (-1) ^+ (k != p).
Proof.
rewrite /gj_mx det_mulmx det_colrepl mxE eqxx det_perm odd_tperm.
by [].
Qed.

End MxStep.

Section PivotNonzero.
Variable F : realFieldType.
Variable n : nat.

Lemma pivot_column_nonzero (A : 'M[F]_n) (k : 'I_n) :
  A \in unitmx ->
  (forall i j : 'I_n, (j < k)%N -> A i j = (i == j)%:R) ->
  exists2 i : 'I_n, (k <= i)%N & A i k != 0.
Proof.
move=> uA cols.
case: (pickP (fun i : 'I_n => (k <= i)%N && (A i k != 0))) => [i /andP[ki nz]|none].
  by exists i.
pose w : 'cV[F]_n := \col_j if (j < k)%N then A j k else 0.
pose v : 'cV[F]_n := delta_mx k ord0 - w.
have Av0 : A *m v = 0.
  rewrite /v mulmxBr; apply/matrixP => i j; rewrite [j]ord1 !mxE.
  have -> : \sum_l A i l * delta_mx k ord0 l (ord0 : 'I_1) = A i k :> F.
    rewrite (bigD1 k) //= mxE !eqxx mulr1 big1 ?addr0 // => l lk.
    by rewrite mxE (negbTE lk) mulr0.
  have -> : \sum_l A i l * w l (ord0 : 'I_1) = (if (i < k)%N then A i k else 0) :> F.
    rewrite (bigD1 i) //= big1 ?addr0; last first.
      move=> l li; rewrite mxE; case: ifP => [lk|_]; last by rewrite mulr0.
      by rewrite cols // eq_sym (negbTE li) mul0r.
    rewrite mxE; case: ifP => [ik|_]; last by rewrite mulr0.
    by rewrite cols // eqxx mul1r.
  case: ltnP => [ik|ki]; first by rewrite subrr.
  rewrite subr0.
  by have := none i; rewrite ki /= => /negbFE/eqP.
have : v = 0 by rewrite -[v](mulKmx uA) Av0 mulmx0.
move/matrixP/(_ k ord0); rewrite !mxE !eqxx ltnn subr0 => /eqP.
by rewrite oner_eq0.
Qed.

End PivotNonzero.

(* ------------------------------------------------------------------ *)
(* 2. The list code, operation by operation.                            *)
Section ListLevel.
Variable F : realFieldType.
Variable tr : Transc F.
Let S := FOps tr.
Local Notation lmx := (lmxF F).

Lemma eqbE a b : Nat.eqb a b = (a == b).
Proof. by case: Nat.eqb_spec => [->|/eqP/negbTE->]; rewrite ?eqxx. Qed.

Lemma sabsE (x : F) : sabs S x = `|x|.
Proof.
rewrite /sabs /=; case: ltrP => [x0|x0]; first by rewrite ltr0_norm.
by rewrite ger0_norm.
Qed.

Lemma wf_of_nth m n (l : lmx) : length l = m ->
  (forall i, (i < m)%N -> length (List.nth i l nil) = n) -> wf m n l.
Proof.
move=> lm H; split=> //; apply/List.Forall_forall => r inr.
case: (List.In_nth _ _ nil inr) => i [il <-]; apply: H; rewrite -lm; exact/ssrnat.ltP.
Qed.

Lemma nth_skipn_add (A : Type) n (l : list A) j d :
  List.nth j (List.skipn n l) d = List.nth (n + j) l d.
Proof.
by elim: n l j => [|n IH] [|x l] j //=; case: j.
Qed.

Lemma nth_map_combine_seq (B : Type) (f : nat * list F -> B) (L : lmx) i d :
  (i < length L)%N ->
  List.nth i (List.map f (List.combine (List.seq 0 (length L)) L)) d = f (i, List.nth i L nil).
Proof.
move=> il; have il' : (i < length L)%coq_nat by apply/ssrnat.ltP.
rewrite (List.nth_indep _ d (f (0%N, nil))); last first.
  by rewrite List.map_length List.combine_length List.seq_length Nat.min_id.
by rewrite List.map_nth List.combine_nth ?List.seq_length // List.seq_nth.
Qed.

(* --- pivot search --- *)
Definition colabs k (rows : lmx) j : F := `|List.nth k (List.nth j rows nil) 0|.

Lemma argmax_col_spec k (rows : lmx) i best bestv :
  exists bv, [/\ bestv <= bv,
    forall j, (j < length rows)%N -> colabs k rows j <= bv &
    (argmax_col S k rows i best bestv = best /\ bv = bestv) \/
    (exists j, [/\ (j < length rows)%N, argmax_col S k rows i best bestv = (i + j)%N
                 & bv = colabs k rows j])].
Proof.
elim: rows i best bestv => [|r rs IH] i best bestv /=.
  by exists bestv; split=> //; left.
rewrite sabsE; case: ltP => [lt|ge].
- case: (IH i.+1 i `|List.nth k r 0|) => bv [le1 all1 H].
  exists bv; split; first exact: le_trans (ltW lt) le1.
    by case=> [|j] //= jl; apply: all1.
  right; case: H => [[-> ->]|[j [jl -> ->]]].
    by exists 0%N; rewrite addn0.
  by exists j.+1; rewrite addSnnS.
- case: (IH i.+1 best bestv) => bv [le1 all1 H].
  exists bv; split=> //.
    by case=> [|j] //= jl; [exact: le_trans ge le1 | apply: all1].
  case: H => [[-> ->]|[j [jl -> ->]]]; first by left.
  by right; exists j.+1; rewrite addSnnS.
Qed.

Definition pivot_of (L : lmx) k :=
  argmax_col S k (List.skipn k L) k k (sabs S (lget S L k k)).

Lemma pivot_spec n q (L : lmx) k : wf n q L -> (k < n)%N ->
  [/\ (k <= pivot_of L k)%N, (pivot_of L k < n)%N &
      forall i, (k <= i)%N -> (i < n)%N -> `|lget S L i k| <= `|lget S L (pivot_of L k) k|].
Proof.
move=> [lL _] kn; rewrite /pivot_of.
have lsk : length (List.skipn k L) = (n - k)%N by rewrite List.skipn_length lL.
have cE j : colabs k (List.skipn k L) j = `|lget S L (k + j) k|.
  by rewrite /colabs nth_skipn_add.
case: (argmax_col_spec k (List.skipn k L) k k (sabs S (lget S L k k))) => bv [le1 all1 H].
set p := argmax_col _ _ _ _ _ _ in H *.
have [pk pn bvE] : [/\ (k <= p)%N, (p < n)%N & bv = `|lget S L p k|].
  case: H => [[-> ->]|[j [jl -> ->]]]; first by rewrite sabsE.
  by rewrite leq_addr cE -ltn_subRL -lsk.
split=> // i ki il; rewrite -bvE.
have := all1 (i - k)%N; rewrite lsk ltn_sub2r // cE subnKC //; exact.
Qed.

(* --- row swap --- *)
Definition tswap (k p i : nat) := if Nat.eqb i k then p else if Nat.eqb i p then k else i.

Definition swapped (L : lmx) k p := if Nat.eqb p k then L else swap_rows S k p L.

Lemma swapped_spec n q (L : lmx) k p : wf n q L -> (k < n)%N -> (p < n)%N ->
  wf n q (swapped L k p) /\
  forall i, (i < n)%N -> List.nth i (swapped L k p) nil = List.nth (tswap k p i) L nil.
Proof.
move=> wL kn pn; rewrite /swapped; case: (Nat.eqb_spec p k) => [->|npk].
  by split=> // i _; rewrite /tswap; case: (Nat.eqb_spec i k) => [->|].
have lL : length L = n by case: wL.
have nthE i : (i < n)%N ->
    List.nth i (swap_rows S k p L) nil = List.nth (tswap k p i) L nil.
  move=> il; rewrite /swap_rows lL.
  exact: (nth_seq_map (fun idx => List.nth (tswap k p idx) L nil) nil il).
split=> //; apply: wf_of_nth; first by rewrite /swap_rows List.map_length List.seq_length.
move=> i il; rewrite nthE //; apply: (wf_nth_row wL).
by rewrite /tswap; case: Nat.eqb => //; case: Nat.eqb.
Qed.

(* --- scaling of the pivot row and elimination --- *)
Definition eliminate (L1 : lmx) k : lmx :=
  let rk := List.nth k L1 nil in
  let piv := List.nth k rk (s0 S) in
  let rk' := List.map (fun x => sdiv S x piv) rk in
  List.map (fun ir : nat * list F =>
              let '(i, r) := ir in
              if Nat.eqb i k then rk'
              else let c := List.nth k r (s0 S) in
                   zipw S (fun x y => ssub S x (smul S c y)) r rk')
           (List.combine (List.seq 0 (length L1)) L1).

Lemma gj_step_eq (L : lmx) d k :
  gj_step S (L, d) k =
  (eliminate (swapped L k (pivot_of L k)) k,
   smul S (if Nat.eqb (pivot_of L k) k then d else sopp S d)
          (lget S (swapped L k (pivot_of L k)) k k)).
Proof. by []. Qed.

Lemma eliminate_spec n q (L1 : lmx) k : wf n q L1 -> (k < n)%N ->
  wf n q (eliminate L1 k) /\
  forall i j, (i < n)%N -> (j < q)%N ->
    lget S (eliminate L1 k) i j =
      if i == k then lget S L1 k j / lget S L1 k k
      else lget S L1 i j - lget S L1 i k * (lget S L1 k j / lget S L1 k k).
Proof.
move=> wL kn; have lL : length L1 = n by case: wL.
rewrite /lget /eliminate.
set rk := List.nth k L1 nil; set piv := List.nth k rk (s0 S).
set rk' := List.map _ rk.
have lrk : length rk = q by apply: (wf_nth_row wL).
have lrk' : length rk' = q by rewrite List.map_length.
have nthrk' j : List.nth j rk' 0 = List.nth j rk 0 / piv.
  by rewrite -[X in List.nth j _ X](mul0r piv^-1) (List.map_nth (fun x => x / piv)).
set f := (fun ir : nat * list F => _).
have rowE i : (i < n)%N ->
    List.nth i (List.map f (List.combine (List.seq 0 (length L1)) L1)) nil
    = f (i, List.nth i L1 nil).
  by move=> il; rewrite nth_map_combine_seq ?lL.
split.
- apply: wf_of_nth.
    by rewrite List.map_length List.combine_length List.seq_length Nat.min_id.
  move=> i il; rewrite rowE // /f; case: Nat.eqb => //.
  by rewrite length_zipw (wf_nth_row wL il) lrk' minnn.
- move=> i j il jq; rewrite rowE // /f eqbE; case: eqP => [_|_]; first exact: nthrk'.
  rewrite nth_zipw ?nthrk' //.
  + by rewrite (wf_nth_row wL il); apply/ssrnat.ltP.
  + by rewrite lrk'; apply/ssrnat.ltP.
Qed.

(* --- one step, on the MathComp side --- *)
Lemma toM_gj_step n c (L : lmx) d (kO pO : 'I_n) (ck : 'I_c) :
  wf n c L -> ck = kO :> nat -> pO = pivot_of L kO :> nat ->
  [/\ wf n c (gj_step S (L, d) kO).1,
      toM n c (gj_step S (L, d) kO).1 = mx_gj kO pO ck (toM n c L) &
      (gj_step S (L, d) kO).2 =
        (if kO == pO then d else - d) * xrow kO pO (toM n c L) kO ck].
Proof.
move=> wL ckE pE; rewrite gj_step_eq -pE /=.
have [wL1 nthL1] := swapped_spec wL (ltn_ord kO) (ltn_ord pO).
have [wL2 getL2] := eliminate_spec wL1 (ltn_ord kO).
have M1E (i : 'I_n) (j : 'I_c) :
    lget S (swapped L kO pO) i j = xrow kO pO (toM n c L) i j.
  rewrite /lget nthL1 // !mxE; congr (List.nth j (List.nth _ L nil) 0).
  rewrite permE /= /tswap !eqbE -!(inj_eq val_inj) /=.
  by case: (_ == _ :> nat) => //; case: (_ == _ :> nat).
split=> //.
- apply/matrixP => i j; rewrite (toM_lget tr) getL2 // [RHS]mxE -(inj_eq val_inj) /=.
  have E1 i' : lget S (swapped L kO pO) i' kO = lget S (swapped L kO pO) i' ck by rewrite ckE.
  by rewrite !E1 !M1E.
- rewrite eqbE -(inj_eq val_inj) /= [(pO == kO :> nat)]eq_sym.
  have -> : lget S (swapped L kO pO) kO kO = lget S (swapped L kO pO) kO ck by rewrite ckE.
  by rewrite M1E.
Qed.

End ListLevel.

(* ------------------------------------------------------------------ *)
(* 3. The invariant of the fold and the main theorems.                  *)
Section Main.
Variable F : realFieldType.
Variable tr : Transc F.
Let S := FOps tr.
Local Notation lmx := (lmxF F).

Lemma lhcat_wf m n1 n2 (A B : lmx) : wf m n1 A -> wf m n2 B -> wf m (n1 + n2) (lhcat S A B).
Proof.
move=> wA wB; have lA : length A = m by case: wA. have lB : length B = m by case: wB.
have lh : length (lhcat S A B) = m.
  by rewrite /lhcat List.map_length List.combine_length lA lB Nat.min_id.
apply: wf_of_nth => // i im; rewrite /lhcat.
rewrite (List.nth_indep _ nil ((fun p : list F * list F => fst p ++ snd p)%list (nil, nil))); last first.
  by rewrite -/(lhcat S A B) lh; apply/ssrnat.ltP.
rewrite (List.map_nth (fun p : list F * list F => (fst p ++ snd p)%list)) List.combine_nth ?lA ?lB //=.
by rewrite List.app_length (wf_nth_row wA im) (wf_nth_row wB im).
Qed.

Lemma toM_map_skipn n q (L : lmx) :
  toM n q (List.map (List.skipn n) L) = rsubmx (toM n (n + q) L).
Proof.
apply/matrixP => i j; rewrite !mxE /=.
have -> : (nil : list F) = List.skipn n nil by rewrite List.skipn_nil.
by rewrite List.map_nth nth_skipn_add List.skipn_nil.
Qed.

Lemma map_skipn_wf n q (L : lmx) : wf n (n + q) L -> wf n q (List.map (List.skipn n) L).
Proof.
move=> [lL fL]; split; first by rewrite List.map_length.
apply/List.Forall_forall => r /List.in_map_iff [r0 [<- inr0]].
rewrite List.skipn_length; move/List.Forall_forall: fL => /(_ _ inr0) ->.
by rewrite -[LHS]/((n + q) - n)%N addKn.
Qed.

Lemma lhcat_nil (A : lmx) : lhcat S A (List.map (fun _ => nil) A) = A.
Proof. by rewrite /lhcat; elim: A => [|a A IH] //=; rewrite IH List.app_nil_r. Qed.

Section Fold.
Variables (n q : nat) (A0 : 'M[F]_n) (B0 : 'M[F]_(n, q)).
Hypothesis uA0 : A0 \in unitmx.

Definition gj_inv (k : nat) (st : lmx * F) : Prop :=
  wf n (n + q) st.1 /\
  exists E : 'M[F]_n,
    [/\ toM n (n + q) st.1 = E *m row_mx A0 B0, st.2 * \det E = 1 &
        forall i j : 'I_n, (j < k)%N -> toM n (n + q) st.1 i (lshift q j) = (i == j)%:R].

Lemma gj_inv_step k st : (k < n)%N -> gj_inv k st -> gj_inv k.+1 (gj_step S st k).
Proof.
case: st => L d kn [wL [E [ME dE cols]]].
rewrite [(L, d).1]/= in wL ME cols; rewrite [(L, d).2]/= in dE.
pose kO := Ordinal kn.
have [pk pn pmax] := pivot_spec tr wL kn.
pose pO := Ordinal pn.
pose ck : 'I_(n + q) := lshift q kO.
have [wL2 ML2 d2] := @toM_gj_step F tr n (n + q) L d kO pO ck wL erefl erefl.
set M := toM n (n + q) L in ME cols ML2 d2.
have uE : E \in unitmx.
  rewrite unitmxE unitfE; apply/eqP => e0; move/eqP: dE.
  by rewrite e0 mulr0 eq_sym oner_eq0.
have uA : lsubmx M \in unitmx by rewrite ME mul_mx_row row_mxKl unitmx_mul uE uA0.
have colsA (i j : 'I_n) : (j < kO)%N -> lsubmx M i j = (i == j)%:R.
  by move=> jk; rewrite mxE; apply: cols.
have [i0 ki0 nz0] := pivot_column_nonzero uA colsA.
have pivnz : M pO ck != 0.
  apply: contraNneq nz0 => p0.
  have := pmax i0 ki0 (ltn_ord i0).
  have -> : lget S L i0 k = M i0 ck by rewrite /M mxE.
  have -> : lget S L (pivot_of tr L k) k = M pO ck by rewrite /M mxE.
  by rewrite p0 normr0 normr_le0 => ?; rewrite [lsubmx M i0 kO]mxE.
have pivE : xrow kO pO M kO ck = M pO ck by rewrite mxE tpermL.
have jltk (j : 'I_n) : (j < k)%N -> (kO == j) = false /\ (pO == j) = false.
  move=> jk; split; apply/negbTE; rewrite -(inj_eq val_inj) /=.
    by rewrite neq_ltn jk orbT.
  by rewrite neq_ltn (leq_trans jk pk) orbT.
split=> //; exists (gj_mx kO pO ck M *m E); split.
- by rewrite ML2 mx_gjE ME mulmxA.
- rewrite d2 det_mulmx det_gj_mx pivE.
  case: (kO == pO) => /=.
    by rewrite expr0 mulr1 mulrA mulfK.
  by rewrite expr1 !mulrA mulfK // mulrN1 opprK.
- move=> i j; rewrite ltnS leq_eqVlt => /orP[/eqP jk|jk].
  + have -> : j = kO by apply: val_inj.
    rewrite ML2 mxE -/ck pivE; case: (i == kO); first by rewrite divff.
    by rewrite divff // mulr1 subrr.
  + have [nkj npj] := jltk j jk.
    rewrite ML2 mxE.
    have -> : xrow kO pO M kO (lshift q j) = 0.
      by rewrite mxE tpermL cols // npj.
    rewrite mul0r mulr0 subr0.
    case: (eqVneq i kO) => [->|nik]; first by rewrite nkj.
    rewrite mxE cols //; congr (_ %:R); congr nat_of_bool.
    case: tpermP => [->|->|] //; first by rewrite nkj.
    by rewrite npj nkj.
Qed.

Lemma gj_inv_fold k st0 : (k <= n)%N -> gj_inv 0 st0 ->
  gj_inv k (List.fold_left (gj_step S) (List.seq 0 k) st0).
Proof.
elim: k => [|k IH] kn H0 //.
rewrite List.seq_S List.fold_left_app /=.
by apply: gj_inv_step => //; apply: IH => //; apply: ltnW.
Qed.

End Fold.

(* the Gauss-Jordan reduction of [A | B] is [1 | A^-1 B], and the
   accumulated scalar is det A *)
Theorem gauss_jordan_correct n q (lA lB : lmx) :
  wf n n lA -> wf n q lB -> toM n n lA \in unitmx ->
  [/\ wf n (n + q) (gauss_jordan S n (lhcat S lA lB)).1,
      toM n (n + q) (gauss_jordan S n (lhcat S lA lB)).1
        = row_mx 1%:M (invmx (toM n n lA) *m toM n q lB) &
      (gauss_jordan S n (lhcat S lA lB)).2 = \det (toM n n lA)].
Proof.
move=> wA wB uA; rewrite /gauss_jordan.
set A0 := toM n n lA in uA *; set B0 := toM n q lB.
have H0 : gj_inv A0 B0 0 (lhcat S lA lB, s1 S).
  split; first exact: lhcat_wf.
  exists 1%:M; split=> //=; first by rewrite mul1mx (toM_lhcat tr).
  by rewrite det1 mulr1.
have [] := gj_inv_fold uA (leqnn n) H0.
set st := List.fold_left _ _ _ => wL [E [ME dE cols]].
have EA : E *m A0 = 1%:M.
  apply/matrixP => i j; have := cols i j (ltn_ord j).
  by rewrite ME mul_mx_row row_mxEl => ->; rewrite mxE.
have EV : E = invmx A0 by rewrite -[LHS]mulmx1 -(mulmxV uA) mulmxA EA mul1mx.
split=> //; first by rewrite ME mul_mx_row EA EV.
move: dE; rewrite EV det_inv => dE.
have dA : \det A0 != 0 by rewrite -unitfE -unitmxE.
by rewrite -[LHS]mulr1 -(mulVf dA) mulrA dE mul1r.
Qed.

Section Results.
Variable n : nat.
Variable A : lmx.
Hypothesis wA : wf n n A.
Hypothesis uA : toM n n A \in unitmx.

Let firstnA : List.firstn n A = A.
Proof. by apply: List.firstn_all2; case: wA => -> _. Qed.

Theorem lsolve_correct q (B : lmx) : wf n q B ->
  wf n q (lsolve S n A B) /\ toM n q (lsolve S n A B) = invmx (toM n n A) *m toM n q B.
Proof.
move=> wB; rewrite /lsolve firstnA.
have [wL ML _] := gauss_jordan_correct wA wB uA.
split; first exact: map_skipn_wf.
by rewrite toM_map_skipn ML row_mxKr.
Qed.

Theorem linv_correct :
  wf n n (linv S n A) /\ toM n n (linv S n A) = invmx (toM n n A).
Proof.
have [w E] := lsolve_correct (@lbuild_wf F tr n n _ : wf n n (lid S n)).
by split=> //; rewrite -[RHS]mulmx1 -(toM_lid tr n).
Qed.

Theorem ldet_correct : ldet S n A = \det (toM n n A).
Proof.
rewrite /ldet firstnA -{1}(lhcat_nil A).
have wZ : wf n 0 (List.map (fun _ => nil) A : lmx).
  split; first by rewrite List.map_length; case: wA.
  by apply/List.Forall_forall => r /List.in_map_iff [r0 [<- _]].
by have [_ _ ->] := gauss_jordan_correct wA wZ uA.
Qed.

End Results.

End Main.

(* ------------------------------------------------------------------ *)
(* 4. Non-vacuity.                                                      *)

(* The premises are satisfiable, in every realFieldType, by a matrix whose
   reduction needs a row swap (the first pivot is 0, the pivot search moves
   to row 1), and the conclusions then hold for it. *)
Section NonVacuity.
Variable F : realFieldType.
Variable tr : Transc F.

Definition swap3 : lmxF F := [:: [:: 0; 1; 0]; [:: 1; 0; 0]; [:: 0; 0; 1]].

Lemma swap3_wf : wf 3 3 swap3.
Proof. by split=> //; repeat constructor. Qed.

Lemma swap3_involutive : toM 3 3 swap3 *m toM 3 3 swap3 = 1%:M.
Proof.
apply/matrixP => i j; rewrite !mxE !big_ord_recl big_ord0 !mxE.
case: i => [[|[|[|i]]] //= ?]; case: j => [[|[|[|j]]] //= ?];
  by rewrite ?mul0r ?mulr0 ?mul1r ?addr0 ?add0r.
Qed.

Lemma swap3_unit : toM 3 3 swap3 \in unitmx.
Proof. by case/mulmx1_unit: swap3_involutive. Qed.

Lemma swap3_needs_swap : pivot_of tr swap3 0 = 1%N.
Proof. by rewrite /pivot_of /= /lget /= !sabsE normr0 normr1 ltxx ltr01 ltr10. Qed.

Example gauss_premises_satisfiable :
  [/\ wf 3 3 swap3, toM 3 3 swap3 \in unitmx, pivot_of tr swap3 0 = 1%N,
      toM 3 3 (linv (FOps tr) 3 swap3) = toM 3 3 swap3 &
      ldet (FOps tr) 3 swap3 = \det (toM 3 3 swap3)].
Proof.
split; [exact: swap3_wf | exact: swap3_unit | exact: swap3_needs_swap | | ].
- have [_ ->] := linv_correct tr swap3_wf swap3_unit.
  by rewrite -[RHS]mul1mx -(mulVmx swap3_unit) -mulmxA swap3_involutive mulmx1.
- exact: (ldet_correct tr swap3_wf swap3_unit).
Qed.
End NonVacuity.

(* The same code run over exact rationals on a 3x3 matrix whose first pivot is
   0 (row swap 0 <-> 2, then 1 <-> 2): A * linv A = I, lsolve A B = linv A * B,
   ldet A = -8 (cofactor expansion by hand: 0*3 - 2*3 + 1*(-2)). *)
Example gauss_concrete_Q :
  let A := [:: [:: 0#1; 2#1; 1#1]; [:: 1#1; 1#1; 0#1]; [:: 2#1; 0#1; 3#1]]%Q in
  let B := [:: [:: 1#1; 0#1]; [:: 0#1; 1#1]; [:: 5#1; -7#2]]%Q in
  let I3 := [:: [:: 1#1; 0#1; 0#1]; [:: 0#1; 1#1; 0#1]; [:: 0#1; 0#1; 1#1]]%Q in
  [&& qmx_eqb (lmul QOps 3 3 3 A (linv QOps 3 A)) I3,
      qmx_eqb (lmul QOps 3 3 3 (linv QOps 3 A) A) I3,
      qmx_eqb (lmul QOps 3 3 2 A (lsolve QOps 3 A B)) B,
      Qeq_bool (ldet QOps 3 A) (-8#1)%Q &
      Nat.eqb (argmax_col QOps 0 A 0 0 (sabs QOps (lget QOps A 0 0))) 2] = true.
Proof. vm_compute. reflexivity. Qed.

Print Assumptions gauss_jordan_correct.
Print Assumptions lsolve_correct.
Print Assumptions linv_correct.
Print Assumptions ldet_correct.
