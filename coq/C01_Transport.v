(* C01_Transport.v — the Kalman correction model (C01_Model.v) and the Gaussian
   density (Density.v) executed at the LIST instance (the one extracted and run),
   over the scalars of an arbitrary realFieldType, represent what the same Gallina
   terms compute at the MathComp instance (the one the C01 theorems are about), on
   well-formed inputs with SPD covariances.  Unlike C02/C03/C04_Transport this step
   inverts a matrix: the inverse / determinant of the list instance are the
   Gauss-Jordan routine of ListOps.v, proved correct in ListGauss.v; the matrices
   inverted here are proved invertible (C01_Proofs.v / LinAlg.v), not assumed so.
   Only rounding separates the executed model from the theorems.  Axiom-free. *)
Require Import ZArith List Bool.
Require Import BFL.Ops BFL.ListOps BFL.Density BFL.C01_Model.
From mathcomp Require Import all_ssreflect all_algebra.
Require Import BFL.MxOps BFL.LinAlg BFL.ListOpsCorrect BFL.ListGauss BFL.C02_Transport BFL.C01_Proofs.
Set Implicit Arguments.
Unset Strict Implicit.
Unset Printing Implicit Defensive.
Import GRing.Theory.
Local Open Scope ring_scope.

Section T.
Variable F : realFieldType.
Variable tr : Transc F.
Variable sq : forall n, 'M[F]_n -> 'M[F]_n.
Variable eg : forall n, 'M[F]_n -> 'M[F]_(n,1).
Let S := FOps tr.
Let OL := ListMat S (fun _ X => X) (fun _ X => X).
Let OM := MxMat tr sq eg.
Notation repr m n l A := (@C02_Transport.repr F m n l A) (only parsing).

(* ---- the remaining operations of the interface, as repr lemmas ---- *)
Lemma repr_msub m n l1 (A1 : 'M[F]_(m,n)) l2 A2 : repr m n l1 A1 -> repr m n l2 A2 ->
  repr m n (@msub OL m n l1 l2) (A1 - A2).
Proof. by move=> [w1 <-] [w2 <-]; split; [exact: zipw2_wf | exact: toM_msub]. Qed.

Lemma repr_mopp m n l (A : 'M[F]_(m,n)) : repr m n l A -> repr m n (@mopp OL m n l) (- A).
Proof. by move=> [w <-]; split; [exact: map_wf | exact: toM_mopp]. Qed.

Lemma repr_mzero m n : repr m n (@mzero OL m n) (0 : 'M[F]_(m,n)).
Proof. by split; [exact: lbuild_wf | exact: toM_mzero]. Qed.

(* inverse and determinant: the Gauss-Jordan routine, on an invertible input *)
Lemma repr_minv n l (A : 'M[F]_n) : repr n n l A -> A \in unitmx ->
  repr n n (@minv OL n l) (invmx A).
Proof. by move=> [w <-] uA; have [w' E] := linv_correct tr w uA. Qed.

Lemma repr_mdet n l (A : 'M[F]_n) : repr n n l A -> A \in unitmx ->
  @mdet OL n l = \det A.
Proof. by move=> [w <-] uA; exact: ldet_correct. Qed.

Lemma repr_mget11 l (A : 'M[F]_1) : repr 1 1 l A ->
  @mget OL 1 1 l 0%N 0%N = @mget OM 1 1 A 0%N 0%N.
Proof.
move=> [_ <-] /=.
by rewrite -[RHS]/(mx_get (toM 1 1 l) (ord0 : 'I_1) (ord0 : 'I_1)) mx_get_ord mxE.
Qed.

(* ---- Density.v: the Gaussian (log-)density ---- *)
Theorem quadform_transport d ld (delta : 'cV[F]_d) lSi (Si : 'M[F]_d) :
  repr d 1 ld delta -> repr d d lSi Si ->
  @quadform OL d ld lSi = @quadform OM d delta Si.
Proof.
move=> rd rS; rewrite /quadform; apply: repr_mget11.
by apply: (repr_mul tr) => //; apply: (repr_mul tr) => //; apply: (repr_tr tr).
Qed.

Theorem log_density_transport d lx (x : 'cV[F]_d) lmu (mu : 'cV[F]_d) lc (cov : 'M[F]_d) :
  repr d 1 lx x -> repr d 1 lmu mu -> repr d d lc cov -> cov \in unitmx ->
  @log_density OL d lx lmu lc = @log_density OM d x mu cov.
Proof.
move=> rx rmu rc uc; rewrite /log_density.
have -> : @quadform OL d (@msub OL d 1 lx lmu) (@minv OL d lc)
        = @quadform OM d (@msub OM d 1 x mu) (@minv OM d cov).
  by apply: quadform_transport; [exact: repr_msub | exact: repr_minv].
by rewrite (repr_mdet rc uc).
Qed.

Theorem density_transport d lx (x : 'cV[F]_d) lmu (mu : 'cV[F]_d) lc (cov : 'M[F]_d) :
  repr d 1 lx x -> repr d 1 lmu mu -> repr d d lc cov -> cov \in unitmx ->
  @density OL d lx lmu lc = @density OM d x mu cov.
Proof. by move=> rx rmu rc uc; rewrite /density (log_density_transport rx rmu rc uc). Qed.

Definition repr_cols d (ls : list (lmxF F)) (xs : list 'cV[F]_d) : Prop :=
  List.Forall2 (fun l x => repr d 1 l x) ls xs.

Theorem log_density_batch_transport d ls (xs : list 'cV[F]_d) lmu (mu : 'cV[F]_d) lc (cov : 'M[F]_d) :
  repr_cols ls xs -> repr d 1 lmu mu -> repr d d lc cov -> cov \in unitmx ->
  @log_density_batch OL d ls lmu lc = @log_density_batch OM d xs mu cov.
Proof.
move=> rxs rmu rc uc; rewrite /log_density_batch.
elim: rxs => [|l x ls' xs' rx _ IH] //=.
by rewrite IH (log_density_transport rx rmu rc uc).
Qed.

Theorem density_batch_transport d ls (xs : list 'cV[F]_d) lmu (mu : 'cV[F]_d) lc (cov : 'M[F]_d) :
  repr_cols ls xs -> repr d 1 lmu mu -> repr d d lc cov -> cov \in unitmx ->
  @density_batch OL d ls lmu lc = @density_batch OM d xs mu cov.
Proof.
move=> rxs rmu rc uc; rewrite /density_batch.
elim: rxs => [|l x ls' xs' rx _ IH] //=.
by rewrite IH (density_transport rx rmu rc uc).
Qed.

(* ---- C01_Model.v: the Kalman correction ---- *)
Definition repr_gcomp n (cl : gcomp OL n) (cm : gcomp OM n) : Prop :=
  repr n 1 (gmean cl) (gmean cm : 'cV[F]_n) /\ repr n n (gcov cl) (gcov cm : 'M[F]_n).

Definition repr_kfout n m (ol : kf_out OL n m) (om : kf_out OM n m) : Prop :=
  [/\ repr_gcomp (ko_comp ol) (ko_comp om),
      repr m 1 (ko_innov ol) (ko_innov om : 'cV[F]_m) &
      repr m m (ko_Py ol) (ko_Py om : 'M[F]_m)].

(* the fields of kf_correct_one, for every instance (definitional) *)
Section Fields.
Variable O : MatOps.
Variables (n m : nat) (H : M O m n) (R : M O m m) (y : M O m 1) (c : gcomp O n).
Let nu := mopp (msub (mmul H (gmean c)) y).
Let Py := madd (mmul (mmul H (gcov c)) (mtr H)) R.
Let K := mmul (mmul (gcov c) (mtr H)) (minv Py).
Lemma ko_innovE : ko_innov (kf_correct_one H R y c) = nu. Proof. by []. Qed.
Lemma ko_PyE : ko_Py (kf_correct_one H R y c) = Py. Proof. by []. Qed.
Lemma ko_meanE : gmean (ko_comp (kf_correct_one H R y c)) = madd (gmean c) (mmul K nu).
Proof. by []. Qed.
Lemma ko_covE :
  gcov (ko_comp (kf_correct_one H R y c)) = msub (gcov c) (mmul (mmul K Py) (mtr K)).
Proof. by []. Qed.
End Fields.

Section KF.
Variables (n m : nat).
Variables (lH : lmxF F) (H : 'M[F]_(m,n)) (lR : lmxF F) (R : 'M[F]_m) (ly : lmxF F) (y : 'cV[F]_m).
Hypothesis rH : repr m n lH H.
Hypothesis rR : repr m m lR R.
Hypothesis ry : repr m 1 ly y.
Hypothesis spdR : spd R.

(* one component: mean, covariance, innovation, innovation covariance *)
Theorem kf_correct_one_transport (cl : gcomp OL n) (cm : gcomp OM n) :
  repr_gcomp cl cm -> spd (gcov cm : 'M[F]_n) ->
  repr_kfout (@kf_correct_one OL n m lH lR ly cl) (@kf_correct_one OM n m H R y cm).
Proof.
move=> [rx rP] spdP.
have rHt := repr_tr tr rH.
have rnu := repr_mopp (repr_msub (repr_mul tr rH rx) ry).
have rPy := repr_add tr (repr_mul tr (repr_mul tr rH rP) rHt) rR.
have uPy : (H *m gcov cm *m H^T + R : 'M[F]_m) \in unitmx := S_unit H spdP spdR.
have rK := repr_mul tr (repr_mul tr rP rHt) (repr_minv rPy uPy).
split.
- split; first by rewrite !ko_meanE; exact: (repr_add tr rx (repr_mul tr rK rnu)).
  rewrite !ko_covE.
  exact: (repr_msub rP (repr_mul tr (repr_mul tr rK rPy) (repr_tr tr rK))).
- by rewrite !ko_innovE; exact: rnu.
- by rewrite !ko_PyE; exact: rPy.
Qed.

(* the reported likelihood of one component *)
Theorem kf_likelihood_transport (ol : kf_out OL n m) (om : kf_out OM n m) :
  repr_kfout ol om -> (ko_Py om : 'M[F]_m) \in unitmx ->
  @kf_likelihood OL n m ol = @kf_likelihood OM n m om.
Proof.
move=> [_ rnu rPy] uPy; rewrite /kf_likelihood.
exact: (density_transport rnu (repr_mzero m 1) rPy uPy).
Qed.

Theorem kf_one_likelihood_transport (cl : gcomp OL n) (cm : gcomp OM n) :
  repr_gcomp cl cm -> spd (gcov cm : 'M[F]_n) ->
  @kf_likelihood OL n m (@kf_correct_one OL n m lH lR ly cl) =
  @kf_likelihood OM n m (@kf_correct_one OM n m H R y cm).
Proof.
move=> rc spdP; apply: kf_likelihood_transport; first exact: kf_correct_one_transport.
exact: (@kf_one_Py_unit F tr sq eg n m H R y spdR cm spdP).
Qed.

(* the whole mixture, any number of components *)
Theorem kf_correct_transport (csl : list (gcomp OL n)) (csm : list (gcomp OM n)) :
  List.Forall2 (@repr_gcomp n) csl csm ->
  List.Forall (fun c : gcomp OM n => spd (gcov c : 'M[F]_n)) csm ->
  List.Forall2 (@repr_kfout n m) (@kf_correct OL n m lH lR ly csl) (@kf_correct OM n m H R y csm).
Proof.
rewrite /kf_correct; elim=> [|cl cm csl' csm' rc _ IH] /= Hspd; first exact: List.Forall2_nil.
have [spdP Hspd'] : spd (gcov cm : 'M[F]_n) /\ List.Forall (fun c : gcomp OM n => spd (gcov c : 'M[F]_n)) csm'.
  by inversion Hspd.
by apply: List.Forall2_cons; [exact: kf_correct_one_transport | exact: IH].
Qed.

Theorem kf_likelihoods_transport (csl : list (gcomp OL n)) (csm : list (gcomp OM n)) :
  List.Forall2 (@repr_gcomp n) csl csm ->
  List.Forall (fun c : gcomp OM n => spd (gcov c : 'M[F]_n)) csm ->
  List.map (@kf_likelihood OL n m) (@kf_correct OL n m lH lR ly csl) =
  List.map (@kf_likelihood OM n m) (@kf_correct OM n m H R y csm).
Proof.
rewrite /kf_correct; elim=> [|cl cm csl' csm' rc _ IH] //= Hspd.
have [spdP Hspd'] : spd (gcov cm : 'M[F]_n) /\ List.Forall (fun c : gcomp OM n => spd (gcov c : 'M[F]_n)) csm'.
  by inversion Hspd.
by rewrite IH // (kf_one_likelihood_transport rc spdP).
Qed.

(* the spec-level (information-form) posterior used by the violation search *)
Theorem info_posterior_transport (cl : gcomp OL n) (cm : gcomp OM n) :
  repr_gcomp cl cm -> spd (gcov cm : 'M[F]_n) ->
  repr_gcomp (@info_posterior OL n m lH lR ly cl) (@info_posterior OM n m H R y cm).
Proof.
move=> [rx rP] spdP; rewrite /info_posterior /repr_gcomp /=.
have rHt := repr_tr tr rH.
have rPi := repr_minv rP (spd_unit spdP).
have rRi := repr_minv rR (spd_unit spdR).
have rHRi := repr_mul tr rHt rRi.
have rI := repr_add tr rPi (repr_mul tr rHRi rH).
have uI : (invmx (gcov cm) + H^T *m invmx R *m H : 'M[F]_n) \in unitmx := info_unit H spdP spdR.
have rPp := repr_minv rI uI.
split=> //.
exact: (repr_mul tr rPp (repr_add tr (repr_mul tr rPi rx) (repr_mul tr rHRi ry))).
Qed.

End KF.
End T.

(* non-vacuity: the premises of the transport theorems are satisfiable in every
   dimension (identity covariances, zero measurement matrix); the concrete run of
   the same model over exact rationals is Properties_C01.C01_concrete_Q. *)
Example kf_transport_premises_satisfiable (F : realFieldType) (tr : Transc F)
        (sq : forall n, 'M[F]_n -> 'M[F]_n) (eg : forall n, 'M[F]_n -> 'M[F]_(n,1)) n m :
  let OL := ListMat (FOps tr) (fun _ X => X) (fun _ X => X) in
  let OM := MxMat tr sq eg in
  [/\ @C02_Transport.repr F m n (@mzero OL m n) (0 : 'M[F]_(m,n)),
      @C02_Transport.repr F m m (@mid OL m) (1%:M : 'M[F]_m),
      spd (1%:M : 'M[F]_m) &
      repr_gcomp (tr:=tr) (sq:=sq) (eg:=eg)
        (@mkGcomp OL n (@mzero OL n 1) (@mid OL n)) (@mkGcomp OM n (0 : 'cV[F]_n) (1%:M : 'M[F]_n))
      /\ spd (1%:M : 'M[F]_n)].
Proof.
have rid k : @C02_Transport.repr F k k (lid (FOps tr) k) (1%:M : 'M[F]_k).
  by split; [exact: lbuild_wf | exact: toM_lid].
split; [exact: repr_mzero | exact: rid | exact: spd1 | split; last exact: spd1].
by split; [exact: repr_mzero | exact: rid].
Qed.

Print Assumptions log_density_transport.
Print Assumptions kf_correct_transport.
Print Assumptions kf_likelihoods_transport.
Print Assumptions info_posterior_transport.
