(* C14_Model.v — a SHAPE CALCULUS for bayes-filters-lib (property C14).

   A shape program is the sequence of Eigen operations a public entry point
   performs, each with its operand shapes written as [nat] expressions in the
   configuration, and with Eigen's own precondition:

     Mul   r1 c1 r2 c2    matrix product                  c1 = r2
     Same  r1 c1 r2 c2    coefficient-wise binary op, or assignment to a
                          destination that cannot be resized
                          (Ref / Block / col(i))          r1 = r2 /\ c1 = c2
     Blk   R C r0 c0 r c  block / middleRows / middleCols / topRows /
                          bottomRows / head / tail of an R x C operand
                                                          r0 + r <= R /\ c0 + c <= C
     Idx   n i            col(i) / operator()(i)          i < n
     Pop   sz             std::deque::pop_back            0 < sz
     Div   d              integer division / modulo by d  0 < d
     Comma slots given    comma initialiser               slots = given
     Guard b              a validation the code performs itself; [false] = the
                          code throws (reported to the caller, not a failure)
     Free                 allocation / conservativeResize / assignment to a
                          resizable MatrixXd             (no precondition)

   Every item carries the label of the public entry point it belongs to (the
   same label the C++ harness announces with vf::Entry) and a site label.
   [run] returns the first item whose precondition fails.  Pure nat/bool/list;
   no proofs in this file. *)
Require Import Arith List Bool String.
Import ListNotations.
Open Scope string_scope.
Open Scope nat_scope.
Open Scope list_scope.

Inductive op : Type :=
| Mul (r1 c1 r2 c2 : nat)
| Same (r1 c1 r2 c2 : nat)
| Blk (R C r0 c0 r c : nat)
| Idx (n i : nat)
| Pop (sz : nat)
| Div (d : nat)
| Comma (slots given : nat)
| Guard (b : bool)
| Free.

Record item := It { entry : string; site : string; what : op }.
Definition prog := list item.

Inductive verdict := Safe | Threw (e s : string) | Fails (e s : string).

Definition ok (o : op) : bool :=
  match o with
  | Mul _ c1 r2 _ => c1 =? r2
  | Same r1 c1 r2 c2 => (r1 =? r2) && (c1 =? c2)
  | Blk R C r0 c0 r c => (r0 + r <=? R) && (c0 + c <=? C)
  | Idx n i => i <? n
  | Pop sz => 0 <? sz
  | Div d => 0 <? d
  | Comma s g => s =? g
  | Guard _ => true
  | Free => true
  end.

Fixpoint run (p : prog) : verdict :=
  match p with
  | [] => Safe
  | x :: r =>
      match what x with
      | Guard false => Threw (entry x) (site x)
      | o => if ok o then run r else Fails (entry x) (site x)
      end
  end.

(* the interface named in the design: first failing site, if any *)
Definition check_shapes (p : prog) : option (string * string) :=
  match run p with Fails e s => Some (e, s) | _ => None end.

(* loops *)
Definition for_ (n : nat) (f : nat -> prog) : prog := flat_map f (seq 0 n).
Definition when (b : bool) (p : prog) : prog := if b then p else [].
Definition pos (n : nat) : bool := 0 <? n.

(* ------------------------------------------------------------------ *)
(* Layout of a GaussianMixture / VectorDescription                     *)

Record layout := Lay { lin : nat; circ : nat; quat : bool; noise : nat }.
Definition csz (l : layout) : nat := if quat l then 4 else 1.   (* stored numbers per circular component *)
Definition tsz (l : layout) : nat := if quat l then 3 else 1.   (* tangent-space numbers per circular component *)
Definition ldim (l : layout) : nat := lin l + circ l * csz l + noise l.      (* GaussianMixture::dim, total_size() *)
Definition lcov (l : layout) : nat := lin l + circ l * tsz l + noise l.      (* dim_covariance, dof_size() *)
Definition noiseless (l : layout) : layout := Lay (lin l) (circ l) (quat l) 0.
Definition augment (l : layout) (q : nat) : layout := Lay (lin l) (circ l) (quat l) (noise l + q).

(* accessors of GaussianMixture / ParticleSet: mean(i), covariance(i) *)
Definition g_mean (e : string) (l : layout) (comps i : nat) : prog :=
  [It e "mean(i)" (Idx comps i)].
Definition g_cov (e : string) (l : layout) (comps i : nat) : prog :=
  [It e "covariance(i)" (Blk (lcov l) (lcov l * comps) 0 (lcov l * i) (lcov l) (lcov l))].

(* ------------------------------------------------------------------ *)
(* GaussianMixture::augmentWithNoise (noise covariance qr x qc; returns false, touching nothing, when it
   is not square) and the ParticleSet override, which also grows state_ *)
Definition e_aug := "ParticleSet::augmentWithNoise".
Definition aug_ret (qr qc : nat) : bool := qr =? qc.
Definition p_augment_gm (e : string) (l : layout) (comps qr qc : nat) : prog :=
  let dold := lcov l in let dc := lcov l + qr in let dim := ldim l + qr in
  when (aug_ret qr qc)
  ([ It e "mean_.bottomRows(added)" (Blk dim comps (dim - qr) 0 qr comps) ] ++
   for_ (comps - 1) (fun i =>
     let ii := comps - 1 - i in
     [ It e "new_block" (Blk dc (dc * comps) 0 (ii * dc) dold dold);
       It e "old_block" (Blk dc (dc * comps) 0 (ii * dold) dold dold) ] ++
     for_ dold (fun j => [ It e "col(j_index)" (Idx dold (dold - 1 - j)) ])) ++
   for_ comps (fun i =>
     [ It e "covariance_.block(noise)" (Blk dc (dc * comps) dold (i * dc + dold) qr qr);
       It e "block=noise_covariance_matrix" (Same qr qr qr qc);
       It e "covariance_.block(zero)" (Blk dc (dc * comps) 0 (i * dc + dold) dold qr) ])).
Definition p_augment (l : layout) (comps qr qc : nat) : prog :=
  p_augment_gm e_aug l comps qr qc ++
  when (aug_ret qr qc) [ It e_aug "state_.bottomRows(added)" (Blk (ldim l + qr) comps (ldim l) 0 qr comps) ].
Definition aug_layout (l : layout) (qr qc : nat) : layout := if aug_ret qr qc then augment l qr else l.

(* ------------------------------------------------------------------ *)
(* WhiteNoiseAcceleration (Dim = OneD/TwoD/ThreeD  <->  D = 1/2/3, d = 2 D) *)

Definition e_wna_ctor := "WhiteNoiseAcceleration::WhiteNoiseAcceleration".
Definition e_wna_noise := "WhiteNoiseAcceleration::getNoiseSample".
Definition e_wna_prop := "WhiteNoiseAcceleration::propagate".
Definition e_wna_motion := "WhiteNoiseAcceleration::motion".
Definition e_wna_tp := "WhiteNoiseAcceleration::getTransitionProbability".

Definition wna_d (D : nat) : nat := 2 * D.

(* ImplData constructor: 2x2 F and Q by comma initialiser; block-diagonal d x d
   F_ and Q_ by a comma initialiser of D*D blocks of 2x2; LDLT square root. *)
Definition p_wna_ctor (D : nat) : prog :=
  let d := wna_d D in
  [ It e_wna_ctor "F<<" (Comma 4 4); It e_wna_ctor "Q<<" (Comma 4 4);
    It e_wna_ctor "F_<<blocks" (Comma (d * d) (D * D * 4));
    It e_wna_ctor "Q_<<blocks" (Comma (d * d) (D * D * 4));
    It e_wna_ctor "P*I" (Mul d d d d); It e_wna_ctor "(P*I)^T*L" (Mul d d d d);
    It e_wna_ctor "*sqrt(D)" (Mul d d d d) ].

(* getNoiseSample(num): rand_vectors(sqrt_Q_.cols(), num); sqrt_Q_ * rand_vectors *)
Definition p_wna_noise (e : string) (D num : nat) : prog :=
  let d := wna_d D in
  [ It e "rand_vectors" Free; It e "sqrt_Q_*rand_vectors" (Mul d d d num) ].

(* LinearStateModel::propagate(cur (sr x sc), Ref prop (mr x mc)), no skipping, no exogenous model *)
Definition p_lin_propagate (e : string) (d sr sc mr mc : nat) : prog :=
  [ It e "F*cur_states" (Mul d d sr sc); It e "prop_states=" (Same mr mc d sc) ].

(* AdditiveStateModel::motion = propagate; mot_states += getNoiseSample(mot_states.cols()) *)
Definition p_wna_motion (e : string) (D sr sc mr mc : nat) : prog :=
  p_lin_propagate e (wna_d D) sr sc mr mc ++ p_wna_noise e D mc ++
  [ It e "mot_states+=noise" (Same mr mc (wna_d D) mc) ].

(* utils::multivariate_gaussian_log_density(input (r x c), mean (k), covariance (a x b)) *)
Definition p_density (e : string) (r c k a b : nat) : prog :=
  [ It e "input.colwise()-mean" (Same r 1 k 1) ] ++
  for_ c (fun i =>
    [ It e "diff.col(i)" (Idx c i);
      It e "covariance.determinant()" (Same a a b b);
      It e "diff^T*covariance^-1" (Mul 1 r a b);
      It e "(..)*diff.col(i)" (Mul 1 b r 1) ]).

(* getTransitionProbability(prev (pr x pc), cur (cr x cc)) =
   density(cur - F*prev, Zero(prev.rows()), Q) *)
Definition p_wna_tp (D pr pc cr cc : nat) : prog :=
  let d := wna_d D in
  [ It e_wna_tp "F*prev_states" (Mul d d pr pc);
    It e_wna_tp "cur_states-F*prev" (Same cr cc d pc) ] ++
  p_density e_wna_tp cr cc pr d d.

Definition case_wna (D num sr sc mr mc pr pc cr cc : nat) : prog :=
  p_wna_ctor D ++ p_wna_noise e_wna_noise D num ++
  p_lin_propagate e_wna_prop (wna_d D) sr sc mr mc ++
  p_wna_motion e_wna_motion D sr sc mr mc ++
  p_wna_tp D pr pc cr cc.

(* ------------------------------------------------------------------ *)
(* SimulatedStateModel over a WhiteNoiseAcceleration model              *)

Definition e_sim_ctor := "SimulatedStateModel::SimulatedStateModel".
Definition e_sim_buffer := "SimulatedStateModel::bufferData".

(* simulation_time == 0 is rejected with an exception (commit 56b3d39); target_ (ir x T);
   target_.col(0) = initial_state; motion(col(k-1), col(k)) for k = 1..T-1 *)
Definition p_sim_ctor (D T ir : nat) : prog :=
  [ It e_sim_ctor "simulation_time >= 1" (Guard (pos T));
    It e_sim_ctor "target_.col(0)" (Idx T 0); It e_sim_ctor "col(0)=initial_state" (Same ir 1 ir 1) ] ++
  for_ (T - 1) (fun k0 =>
    [ It e_sim_ctor "target_.col(k-1)" (Idx T k0); It e_sim_ctor "target_.col(k)" (Idx T (S k0)) ] ++
    p_wna_motion e_sim_ctor D ir 1 ir 1).

(* one call of bufferData with the cursor at [cur] (number of successful calls
   so far): returns false when exhausted, else reads column cur *)
Definition sim_buffer_ret (T cur : nat) : bool := cur <? T.
Definition p_sim_buffer (e : string) (T cur : nat) : prog :=
  when (sim_buffer_ret T cur)
       [ It e "log:target_.col(t-1)" (Idx T cur); It e "target_.col(t-1)" (Idx T cur) ].

(* the cursor current_simulation_time_, transcribed: bufferData leaves it alone when the trajectory is
   exhausted and increments it otherwise; setProperty("reset") sets it to 0.  [f cur] is the program of
   one call made with the cursor at [cur] (bufferData itself, or SimulatedLinearSensor::freeze). *)
Inductive sop := SBuf | SReset.
Definition sim_next (T cur : nat) : nat := if cur <? T then S cur else cur.
Fixpoint sim_run (f : nat -> prog) (T cur : nat) (ops : list sop) : prog :=
  match ops with
  | [] => []
  | SBuf :: r => f cur ++ sim_run f T (sim_next T cur) r
  | SReset :: r => sim_run f T 0 r
  end.
Fixpoint sim_rets (T cur : nat) (ops : list sop) : list bool :=
  match ops with
  | [] => []
  | SBuf :: r => sim_buffer_ret T cur :: sim_rets T (sim_next T cur) r
  | SReset :: r => sim_rets T 0 r
  end.
Definition sim_returns (T calls : nat) : list bool := sim_rets T 0 (repeat SBuf calls).

Definition case_simstate (D T ir : nat) (ops : list sop) : prog :=
  p_wna_ctor D ++ p_sim_ctor D T ir ++ sim_run (p_sim_buffer e_sim_buffer T) T 0 ops.

(* ------------------------------------------------------------------ *)
(* LinearModel / SimulatedLinearSensor                                  *)

Definition e_sls_ctor := "SimulatedLinearSensor::SimulatedLinearSensor".
Definition e_sls_freeze := "SimulatedLinearSensor::freeze".
Definition e_lm_noise := "LinearModel::getNoiseSample".
Definition e_lmm_pred := "LinearMeasurementModel::predictedMeasure".
Definition e_lmm_innov := "LinearMeasurementModel::innovation".

(* LTIMeasurementModel ctor validation, LinearModel ctor (selector matrix), LDLT root,
   SimulatedLinearSensor ctor (row-wise maxCoeff).  sn = declared state size
   (LinearMatrixComponent.first), ms = measured component indices, R is rr x rc. *)
Definition p_sls_ctor (sn : nat) (ms : list nat) (rr rc : nat) : prog :=
  let m := List.length ms in
  [ It e_sls_ctor "H rows/cols != 0" (Guard (pos m && pos sn));
    It e_sls_ctor "R rows/cols != 0" (Guard (pos rr && pos rc));
    It e_sls_ctor "R square" (Guard (rr =? rc));
    It e_sls_ctor "H.rows == R.rows" (Guard (m =? rr)) ] ++
  flat_map (fun ci => [ It e_sls_ctor "component index < state size" (Guard (ci <? sn)) ]) ms ++
  [ It e_sls_ctor "P*I" (Mul rr rr rr rc); It e_sls_ctor "(P*I)^T*L" (Mul rc rr rr rr);
    It e_sls_ctor "*sqrt(D)" (Mul rc rr rr rr) ] ++
  for_ m (fun i => [ It e_sls_ctor "H_.row(i)" (Idx m i); It e_sls_ctor "maxCoeff" (Guard true) ]).

Definition p_lm_noise (e : string) (m num : nat) : prog :=
  [ It e "rand_vectors" Free; It e "sqrt_R_*rand_vectors" (Mul m m m num) ].

(* freeze with the simulated state model's cursor at cur; data is ir x 1 *)
Definition p_sls_freeze (T cur sn m ir : nat) : prog :=
  p_sim_buffer e_sls_freeze T cur ++
  when (sim_buffer_ret T cur)
    ([ It e_sls_freeze "H_*data" (Mul m sn ir 1) ] ++ p_lm_noise e_sls_freeze m 1 ++
     [ It e_sls_freeze "measurement_+=noise" (Same m 1 m 1) ]).

Definition p_lmm_pred (m sn sr sc : nat) : prog := [ It e_lmm_pred "H*cur_states" (Mul m sn sr sc) ].
(* innovation(pred (pr x pc), meas (yr x yc)) = -(pred.colwise() - meas.col(0)) *)
Definition p_lmm_innov (e : string) (pr yr yc : nat) : prog :=
  [ It e "measurements.col(0)" (Idx yc 0); It e "pred.colwise()-y" (Same pr 1 yr 1) ].

Definition case_linsensor (D T ir sn : nat) (ms : list nat) (rr rc calls num sr sc : nat) : prog :=
  let m := List.length ms in
  p_wna_ctor D ++ p_sim_ctor D T ir ++ p_sls_ctor sn ms rr rc ++
  sim_run (fun cur => p_sls_freeze T cur sn m ir) T 0 (repeat SBuf calls) ++
  p_lm_noise e_lm_noise m num ++ p_lmm_pred m sn sr sc ++
  (* innovation of the predicted measurement against the frozen m x 1 measurement *)
  p_lmm_innov e_lmm_innov m m 1.

(* ------------------------------------------------------------------ *)
(* HistoryBuffer: a state machine over (window, stored)                 *)

Inductive hop := HAdd (esz : nat) | HSet (w : nat) | HDec | HInc | HClear | HGet.
Record hstate := HS { hwin : nat; hsz : nat }.
Definition h_init := HS 5 0.
Definition h_max := 30.
Definition e_h_add := "HistoryBuffer::addElement".
Definition e_h_set := "HistoryBuffer::setHistorySize".
Definition e_h_get := "HistoryBuffer::getHistoryBuffer".

Definition h_target (cur w : nat) : nat :=
  if w =? cur then cur else if w <? 2 then 2 else if h_max <=? w then h_max else w.
(* while (size > tmp) pop_back: pops size - tmp elements, the deque holding size - j before the j-th *)
Definition p_h_shrink (e : string) (sz tmp : nat) : prog :=
  for_ (sz - tmp) (fun j => [ It e "pop_back" (Pop (sz - j)) ]).
Definition h_set (e : string) (s : hstate) (w : nat) : prog * hstate :=
  if w =? hwin s then ([], s)
  else let tmp := h_target (hwin s) w in (p_h_shrink e (hsz s) tmp, HS tmp (Nat.min (hsz s) tmp)).
(* unsigned wrap of window_ - 1 at window_ = 0 (moved-from object) is irrelevant here: window >= 2 after any set, 5 initially *)
Definition h_step (ssz : nat) (s : hstate) (o : hop) : prog * hstate :=
  match o with
  | HAdd esz =>
      (* push_front, then pop_back if size > window *)
      let sz1 := S (hsz s) in
      if hwin s <? sz1 then ([ It e_h_add "pop_back" (Pop sz1) ], HS (hwin s) (hsz s))
      else ([], HS (hwin s) sz1)
  | HSet w => h_set e_h_set s w
  | HDec => h_set "HistoryBuffer::decreaseHistorySize" s (hwin s - 1)
  | HInc => h_set "HistoryBuffer::increaseHistorySize" s (hwin s + 1)
  | HClear => ([], HS (hwin s) 0)
  | HGet => ([], s)
  end.
(* the element sizes stored (most recent first), needed by getHistoryBuffer: hist_out.col(i) = element *)
Fixpoint h_run (ssz : nat) (s : hstate) (els : list nat) (ops : list hop) : prog * (hstate * list nat) :=
  match ops with
  | [] => ([], (s, els))
  | o :: r =>
      let '(p, s') := h_step ssz s o in
      let els' := match o with
                  | HAdd esz => firstn (hsz s') (esz :: els)
                  | HClear => []
                  | _ => firstn (hsz s') els
                  end in
      let pg := match o with
                | HGet => flat_map (fun ie => [ It e_h_get "hist_out.col(i)" (Idx (hsz s') (fst ie));
                                                It e_h_get "col(i)=element" (Same ssz 1 (snd ie) 1) ])
                                   (combine (seq 0 (List.length els')) els')
                | _ => []
                end in
      let '(p2, fin) := h_run ssz s' els' r in
      (p ++ pg ++ p2, fin)
  end.
Definition case_history (ssz : nat) (ops : list hop) : prog := fst (h_run ssz h_init [] ops).
(* observable trace: (window, stored) after every operation *)
Fixpoint h_trace (ssz : nat) (s : hstate) (ops : list hop) : list (nat * nat) :=
  match ops with
  | [] => []
  | o :: r => let s' := snd (h_step ssz s o) in (hwin s', hsz s') :: h_trace ssz s' r
  end.

(* ------------------------------------------------------------------ *)
(* InitSurveillanceAreaGrid::initialize on a ParticleSet (n particles, layout l) *)

Definition e_grid := "InitSurveillanceAreaGrid::initialize".
(* returns false unless the particle count is nx * ny and (commit c09dbd3) the states have 4 rows *)
Definition grid_ret (nx ny n : nat) (l : layout) : bool := (n =? nx * ny) && (ldim l =? 4).
Definition p_grid (nx ny n : nat) (l : layout) : prog :=
  when (grid_ret nx ny n l)
    (for_ nx (fun i => for_ ny (fun j =>
       [ It e_grid "state().col(i*ny+j)" (Idx n (i * ny + j));
         It e_grid "col<<x,0,y,0" (Comma (ldim l) 4) ]))).

(* ------------------------------------------------------------------ *)
(* sigma_point::sigma_point(state, c)                                   *)

Definition e_sp := "sigma_point::sigma_point".
Definition p_sigma (e : string) (l : layout) (comps : nat) : prog :=
  let dim := ldim l in let dc := lcov l in let base := 2 * dc + 1 in
  for_ comps (fun i =>
    g_cov e l comps i ++
    [ It e "U*sqrt(s)" (Mul dc dc dc dc);
      It e "sigma_points.middleCols" (Blk dim (base * comps) 0 (base * i) dim base);
      It e "perturbations<<0,A,-A" (Comma base (1 + dc + dc)) ] ++
    when (pos (lin l))
      ([ It e "sp.topRows(lin)" (Blk dim base 0 0 (lin l) base);
         It e "perturbations.topRows(lin)" (Blk dc base 0 0 (lin l) base) ] ++ g_mean e l comps i ++
       [ It e "mean(i).topRows(lin)" (Blk dim 1 0 0 (lin l) 1);
         It e "sp.topRows=" (Same (lin l) base (lin l) base) ]) ++
    when (pos (circ l))
      (if quat l then
         for_ (circ l) (fun j =>
           [ It e "sp.middleRows(lin+4j,4)" (Blk dim base (lin l + j * 4) 0 4 base);
             It e ".col(0)" (Idx base 0) ] ++ g_mean e l comps i ++
           [ It e "mean(i).middleRows(lin+4j,4)" (Blk dim 1 (lin l + j * 4) 0 4 1);
             It e "sp.middleRows.rightCols(2dc)" (Blk 4 base 0 (base - 2 * dc) 4 (2 * dc));
             It e "perturbations.middleRows(lin+3j,3)" (Blk dc base (lin l + j * 3) 0 3 base);
             It e "perturbations.rightCols(2dc)" (Blk 3 base 0 (base - 2 * dc) 3 (2 * dc));
             It e "sp.quat=" (Same 4 (2 * dc) 4 (2 * dc)) ])
       else
         [ It e "sp.middleRows(lin,circ)" (Blk dim base (lin l) 0 (circ l) base);
           It e "perturbations.middleRows(lin,circ)" (Blk dc base (lin l) 0 (circ l) base) ] ++ g_mean e l comps i ++
         [ It e "mean(i).middleRows(lin,circ)" (Blk dim 1 (lin l) 0 (circ l) 1);
           It e "sp.circ=" (Same (circ l) base (circ l) base) ]) ++
    when (pos (noise l))
      ([ It e "sp.bottomRows(noise)" (Blk dim base (dim - noise l) 0 (noise l) base);
         It e "perturbations.bottomRows(noise)" (Blk dc base (dc - noise l) 0 (noise l) base) ] ++ g_mean e l comps i ++
       [ It e "mean(i).bottomRows(noise)" (Blk dim 1 (dim - noise l) 0 (noise l) 1);
         It e "sp.noise=" (Same (noise l) base (noise l) base) ])).

(* UTWeight(dof) / unscented_weights: weight_mean(j), weight_covariance(j) for j < 2 dof + 1 on vectors of that size *)
Definition p_utweight (e : string) (dof : nat) : prog :=
  for_ (2 * dof + 1) (fun j => [ It e "weight_mean(j)" (Idx (2 * dof + 1) j); It e "weight_covariance(j)" (Idx (2 * dof + 1) j) ]).

(* ------------------------------------------------------------------ *)
(* unscented_transform(input, weight, function)                         *)
(* li: input layout; comps; w: the dof the UTWeight was built for
   (weight vectors have 2w+1 entries); the function returned (valid, a
   pr x pc matrix, output description lo).                               *)

Definition p_ut_core (e : string) (li : layout) (comps w : nat) (valid : bool) (pr pc : nat) (lo : layout) : prog :=
  let dimi := ldim li in let dci := lcov li in let base := 2 * dci + 1 in
  let odim := ldim lo in let odc := lcov lo in let nw := 2 * w + 1 in
  let xr := dci - noise li in
  p_sigma e li comps ++
  when valid
  (for_ comps (fun i =>
    [ It e "input_sigma_points.middleCols" (Blk dimi (base * comps) 0 (base * i) dimi base);
      It e "prop_sigma_points.middleCols" (Blk pr pc 0 (base * i) pr base) ] ++
    g_mean e lo comps i ++
    [ It e "output.mean(i).topRows(lin)" (Blk odim 1 0 0 (lin lo) 1);
      It e "prop.topRows(lin)" (Blk pr base 0 0 (lin lo) base);
      It e "prop.topRows*weight.mean" (Mul (lin lo) base nw 1) ] ++
    when (pos (circ lo))
      (if quat lo then
         for_ (circ lo) (fun j =>
           [ It e "output.mean(i).middleRows(lin+4j,4)" (Blk odim 1 (lin lo + j * 4) 0 4 1);
             It e "prop.middleRows(lin+4j,4)" (Blk pr base (lin lo + j * 4) 0 4 base);
             It e "mean_quaternion:quaternion.col(k),k<weight.rows" (Blk 4 base 0 0 4 nw) ])
       else
         [ It e "output.mean(i).bottomRows(circ)" (Blk odim 1 (odim - circ lo) 0 (circ lo) 1);
           It e "prop.bottomRows(circ)" (Blk pr base (pr - circ lo) 0 (circ lo) base) ] ++
         (* directional_mean: a single column is returned wrapped through directional_add (commit dee9c81) *)
         (if base =? 1 then [ It e "directional_mean:a.col(0)" (Idx base 0);
                              It e "directional_mean:a.col(0)+0" (Same (circ lo) 1 (circ lo) 1) ]
          else [ It e "directional_mean:exp(a)*w" (Mul (circ lo) base nw 1) ])) ++
    [ It e "offsets.topRows(lin)" (Blk odc base 0 0 (lin lo) base) ] ++
    when (pos (circ lo))
      (if quat lo then
         for_ (circ lo) (fun j =>
           [ It e "offsets.middleRows(lin+3j,3)" (Blk odc base (lin lo + j * 3) 0 3 base);
             It e "prop.middleRows(lin+4j,4)" (Blk pr base (lin lo + j * 4) 0 4 base) ])
       else
         [ It e "offsets.bottomRows(circ)" (Blk odc base (odc - circ lo) 0 (circ lo) base);
           It e "prop.bottomRows(circ)" (Blk pr base (pr - circ lo) 0 (circ lo) base) ]) ++
    g_cov e lo comps i ++
    [ It e "offsets*diag(wc)" (Mul odc base nw nw);
      It e "(offsets*diag(wc))*offsets^T" (Mul odc nw base odc);
      It e "cross_covariance.middleCols" (Blk xr (odc * comps) 0 (odc * i) xr odc);
      It e "input_offsets.topRows(lin)" (Blk xr base 0 0 (lin li) base);
      It e "input_sp.topRows(lin)" (Blk dimi base 0 0 (lin li) base) ] ++
    g_mean e li comps i ++
    [ It e "input.mean(i).topRows(lin)" (Blk dimi 1 0 0 (lin li) 1) ] ++
    when (pos (circ li))
      (if quat li then
         for_ (circ li) (fun j =>
           [ It e "input_offsets.middleRows(lin+3j,3)" (Blk xr base (lin li + j * 3) 0 3 base);
             It e "input_sp.middleRows(lin+4j,4)" (Blk dimi base (lin li + j * 4) 0 4 base);
             It e "input.mean(i).middleRows(lin+4j,4)" (Blk dimi 1 (lin li + j * 4) 0 4 1) ])
       else
         [ It e "input_offsets.bottomRows(circ)" (Blk xr base (xr - circ li) 0 (circ li) base);
           It e "input_sp.middleRows(lin,circ)" (Blk dimi base (lin li) 0 (circ li) base);
           It e "input.mean(i).middleRows(lin,circ)" (Blk dimi 1 (lin li) 0 (circ li) 1) ]) ++
    [ It e "input_offsets*diag(wc)" (Mul xr base nw nw);
      It e "(input_offsets*diag(wc))*offsets^T" (Mul xr nw base odc) ])).

(* shapes returned by the transform: (components, dim, dim_covariance) of the output, rows/cols of Pxy *)
Definition ut_out (li : layout) (comps : nat) (valid : bool) (lo : layout) : list nat :=
  if valid then [comps; ldim lo; lcov lo; lcov li - noise li; lcov lo * comps]
  else [1; 1; 1; 0; 0].

Definition e_ut_fun := "sigma_point::unscented_transform(FunctionEvaluation)".
Definition e_ut_state := "sigma_point::unscented_transform(StateModel)".
Definition e_ut_addstate := "sigma_point::unscented_transform(AdditiveStateModel)".
Definition e_ut_meas := "sigma_point::unscented_transform(MeasurementModel)".
Definition e_ut_addmeas := "sigma_point::unscented_transform(AdditiveMeasurementModel)".

(* the additive overloads add the noise covariance (qr x qc) to output.covariance(i) for
   i < state.components.  [valid = false] describes the post-processing of the default-constructed
   1-component 1-dimensional output of a failed evaluation: the measurement overload did that before
   commit 49d7ed0 (kept for the regression specification in C14_Regress.v); it now returns first. *)
Definition p_ut_add_noise (e : string) (comps : nat) (valid : bool) (lo : layout) (qr qc : nat) : prog :=
  let ocomps := if valid then comps else 1 in
  let odc := if valid then lcov lo else 1 in
  for_ comps (fun i =>
    [ It e "output.covariance(i)" (Blk odc (odc * ocomps) 0 (odc * i) odc odc);
      It e "output.covariance(i)+=noise_cov" (Same odc odc qr qc) ]).

(* variant: 0 = function, 1 = StateModel, 2 = AdditiveStateModel, 3 = MeasurementModel, 4 = AdditiveMeasurementModel.
   For the additive state overload (no failure path) valid is true. *)
Definition ut_entry (variant : nat) : string :=
  match variant with 0 => e_ut_fun | 1 => e_ut_state | 2 => e_ut_addstate | 3 => e_ut_meas | _ => e_ut_addmeas end.
Definition p_ut (variant : nat) (li : layout) (comps w : nat) (valid : bool) (pr pc : nat) (lo : layout) (qr qc : nat) : prog :=
  let e := ut_entry variant in
  p_ut_core e li comps w valid pr pc lo ++
  match variant with
  | 2 => p_ut_add_noise e comps true lo qr qc
  | 4 => when valid (p_ut_add_noise e comps true lo qr qc)     (* if (!valid) return ...; *)
  | _ => []
  end.

(* ------------------------------------------------------------------ *)
(* Kalman steps                                                         *)

Definition e_kfp := "KFPrediction::predict".
Definition e_kfc := "KFCorrection::correct".
Definition e_kfl := "KFCorrection::getLikelihood".

(* predictStep(prev (lp, comps), pred (lq, compsq)) with a d-dimensional LinearStateModel *)
Definition p_kf_predict (d : nat) (lp : layout) (comps : nat) (lq : layout) (compsq : nat) : prog :=
  p_lin_propagate e_kfp d (ldim lp) comps (ldim lq) compsq ++
  for_ comps (fun i =>
    g_cov e_kfp lq compsq i ++ g_cov e_kfp lp comps i ++
    [ It e_kfp "F*P" (Mul d d (lcov lp) (lcov lp)); It e_kfp "(F*P)*F^T" (Mul d (lcov lp) d d);
      It e_kfp "+Q" (Same d d d d); It e_kfp "pred.covariance(i)=" (Same (lcov lq) (lcov lq) d d) ]).

(* correctStep(pred (lp, comps), corr (lq, compsq)); H is m x n, R is m x m, measurement yr x yc *)
Definition p_kf_correct (m n : nat) (lp : layout) (comps : nat) (lq : layout) (compsq yr yc : nat) : prog :=
  let dim := ldim lp in let dc := lcov lp in
  [ It e_kfc "H*pred.mean()" (Mul m n dim comps) ] ++ p_lmm_innov e_kfc m yr yc ++
  [ It e_kfc "meas_covariances_.resize(components,H.rows())" Free ] ++
  for_ comps (fun i =>
    g_cov e_kfc lp comps i ++
    [ It e_kfc "H*P" (Mul m n dc dc); It e_kfc "(H*P)*H^T" (Mul m dc n m); It e_kfc "+R" (Same m m m m);
      It e_kfc "meas_covariances_.covariance(i)" (Blk m (m * comps) 0 (m * i) m m);
      It e_kfc "meas_covariances_.covariance(i)=" (Same m m m m);
      It e_kfc "P*H^T" (Mul dc dc n m); It e_kfc "(P*H^T)*Py^-1" (Mul dc m m m) ] ++
    g_mean e_kfc lq compsq i ++ g_mean e_kfc lp comps i ++
    [ It e_kfc "innovations_.col(i)" (Idx comps i); It e_kfc "K*innovation" (Mul dc m m 1);
      It e_kfc "pred.mean(i)+K*innovation" (Same dim 1 dc 1);
      It e_kfc "corr.mean(i)=" (Same (ldim lq) 1 dim 1) ] ++
    g_cov e_kfc lq compsq i ++
    [ It e_kfc "K*Py" (Mul dc m m m); It e_kfc "(K*Py)*K^T" (Mul dc m m dc);
      It e_kfc "P-K*Py*K^T" (Same dc dc dc dc);
      It e_kfc "corr.covariance(i)=" (Same (lcov lq) (lcov lq) dc dc) ]).

Definition p_kf_lik (m comps : nat) : prog :=
  for_ comps (fun i => [ It e_kfl "innovations_.col(i)" (Idx comps i);
                         It e_kfl "meas_covariances_.covariance(i)" (Blk m (m * comps) 0 (m * i) m m) ] ++
                       p_density e_kfl m 1 m m m).

(* ------------------------------------------------------------------ *)
(* UKF steps                                                            *)

Definition e_ukfp := "UKFPrediction::predict".
Definition e_ukfc := "UKFCorrection::correct".
Definition e_ukfl := "UKFCorrection::getLikelihood".

(* rename the entry label of a sub-program (a library-internal call is reported under the public entry) *)
Definition relabel (e : string) (p : prog) : prog := map (fun x => It e (site x) (what x)) p.

(* Generic: augment with the q x q process noise, transform through the user's model
   whose motion() returns a (ldim ls) x cols matrix and whose state description is ls.
   Additive: transform through propagate(), which returns dimi x cols; add Q (qr x qc). *)
Definition p_ukf_predict (additive : bool) (lp : layout) (comps w q : nat) (ls : layout) : prog :=
  if additive then
    relabel e_ukfp (p_ut 2 lp comps w true (ldim lp) ((2 * lcov lp + 1) * comps) ls q q)
  else
    let la := augment lp q in
    p_augment_gm e_ukfp lp comps q q ++
    relabel e_ukfp (p_ut 1 la comps w true (ldim ls) ((2 * lcov la + 1) * comps) ls 0 0).

(* correctStep: lp predicted state, lm measurement description, R is r x r, the model's
   predictedMeasure returns (valid, mr x (cols of its argument)); innovation returns ir x comps *)
Definition p_ukf_correct (additive online : bool) (lp : layout) (comps w r : nat) (valid : bool) (lm : layout) (ir : nat)
                         (lq : layout) (compsq : nat) : prog :=
  let li := if additive then lp else augment lp r in
  let base := 2 * lcov li + 1 in
  let msz := ldim lm in let mdc := lcov lm in
  let xr := lcov li - noise li in
  when (negb additive) (p_augment_gm e_ukfc lp comps r r ++ when online (p_utweight e_ukfc w)) ++
  relabel e_ukfc (p_ut (if additive then 4 else 3) li comps w valid msz (base * comps) lm r r) ++
  when valid
  (for_ comps (fun i =>
     (* meas_cov_size = predicted_meas_.dim_covariance (commit e82207d; total_size() before) *)
     [ It e_ukfc "Pxy.middleCols(meas_cov_size*i,meas_cov_size)" (Blk xr (mdc * comps) 0 (mdc * i) xr mdc);
       It e_ukfc "predicted_meas_.covariance(i)" (Blk mdc (mdc * comps) 0 (mdc * i) mdc mdc);
       It e_ukfc "Pxy_i*Py^-1" (Mul xr mdc mdc mdc) ] ++
     g_mean e_ukfc lq compsq i ++ g_mean e_ukfc lp comps i ++
     [ It e_ukfc "innovations_.col(i)" (Idx comps i); It e_ukfc "K*innovation" (Mul xr mdc ir 1);
       It e_ukfc "pred.mean(i)+K*innovation" (Same (ldim lp) 1 xr 1);
       It e_ukfc "corr.mean(i)=" (Same (ldim lq) 1 (ldim lp) 1) ] ++
     g_cov e_ukfc lq compsq i ++ g_cov e_ukfc lp comps i ++
     [ It e_ukfc "K*Py" (Mul xr mdc mdc mdc); It e_ukfc "(K*Py)*K^T" (Mul xr mdc mdc xr);
       It e_ukfc "P-K*Py*K^T" (Same (lcov lp) (lcov lp) xr xr);
       It e_ukfc "corr.covariance(i)=" (Same (lcov lq) (lcov lq) (lcov lp) (lcov lp)) ])).

(* ------------------------------------------------------------------ *)
(* SUKFCorrection::correctStep                                          *)

Definition e_sukf := "SUKFCorrection::correct".
Definition e_sukfl := "SUKFCorrection::getLikelihood".
(* lp predicted state (noise 0), comps, w dof of the UTWeight, msz measurement size, sub the
   sub-measurement size (msz mod sub = 0 is checked by the code; sub > 0), R is r x r and not reduced;
   innovation returns ir x comps *)
Definition sukf_runs (msz sub : nat) : bool := pos sub && (msz mod sub =? 0).
(* [reduced]: use_reduced_noise_covariance_matrix — getNoiseCovarianceMatrix(j) returns the whole r x r matrix
   instead of R.block(sub*j, sub*j, sub, sub); rj is the size of what it returns *)
Definition p_sukf (reduced : bool) (lp : layout) (comps w msz sub r ir : nat) (lq : layout) (compsq : nat) : prog :=
  let dim := ldim lp in let dc := lcov lp in let base := 2 * dc + 1 in
  let ss := 2 * dim + 1 in let nw := 2 * w + 1 in
  let rj := if reduced then r else sub in
  [ It e_sukf "meas_size % measurement_sub_size_" (Div sub) ] ++
  when (sukf_runs msz sub)
  (p_sigma e_sukf lp comps ++
   for_ comps (fun i =>
     [ It e_sukf "propagated.middleCols(size_sigmas*i,size_sigmas)" (Blk msz (base * comps) 0 (ss * i) msz ss);
       It e_sukf "pred_mean.col(i)" (Idx comps i);
       It e_sukf "prop_sp*weight.mean" (Mul msz ss nw 1) ]) ++
   for_ comps (fun i =>
     [ It e_sukf "Y=propagated.middleCols" (Blk msz (base * comps) 0 (ss * i) msz ss);
       It e_sukf "Y.colwise()-=pred_mean.col(i)" (Same msz 1 msz 1);
       It e_sukf "Y*=sqrt_ut_weight" (Mul msz ss nw nw) ] ++
     for_ (msz / sub) (fun j =>
       [ It e_sukf "Y.middleRows(sub*j,sub)" (Blk msz ss (sub * j) 0 sub ss) ] ++
       when (negb reduced) [ It e_sukf "R.block(sub*j,sub*j,sub,sub)" (Blk r r (sub * j) (sub * j) sub sub) ] ++
       [ It e_sukf "Y_j^T*R_j^-1" (Mul ss sub rj rj);
         It e_sukf "tmp.noalias()=" Free;
         It e_sukf "tmp*Y_j" (Mul ss rj sub ss); It e_sukf "C_inv+=" (Same ss ss ss ss);
         It e_sukf "innovations_.col(i)" (Idx comps i);
         It e_sukf "innovations_.col(i).middleRows(sub*j,sub)" (Blk ir 1 (sub * j) 0 sub 1);
         It e_sukf "tmp*innovation_j" (Mul ss rj sub 1) ]) ++
     [ It e_sukf "X=input_sigma_points.middleCols" (Blk dim (base * comps) 0 (ss * i) dim ss);
       It e_sukf "X.topRows(lin)" (Blk dim ss 0 0 (lin lp) ss) ] ++ g_mean e_sukf lp comps i ++
     [ It e_sukf "pred.mean(i).topRows(lin)" (Blk dim 1 0 0 (lin lp) 1);
       It e_sukf "X.bottomRows(circ)" (Blk dim ss (dim - circ lp) 0 (circ lp) ss);
       It e_sukf "pred.mean(i).bottomRows(circ)" (Blk dim 1 (dim - circ lp) 0 (circ lp) 1);
       It e_sukf "X*=sqrt_ut_weight" (Mul dim ss nw nw);
       It e_sukf "X*C_inv" (Mul dim ss ss ss); It e_sukf "(X*C_inv)*d" (Mul dim ss ss 1) ] ++
     g_mean e_sukf lq compsq i ++
     [ It e_sukf "corr.mean(i)=" (Same (ldim lq) 1 dim 1) ] ++ g_cov e_sukf lq compsq i ++
     [ It e_sukf "(X*C_inv)*X^T" (Mul dim ss ss dim);
       It e_sukf "corr.covariance(i)=" (Same (lcov lq) (lcov lq) dim dim) ])).

(* ------------------------------------------------------------------ *)
(* Resampling                                                           *)

Definition e_res := "Resampling::resample".
Definition e_resp := "ResamplingWithPrior::resample".
(* cor: n particles of layout lc; res: nr particles of layout lr; parents has np entries *)
Definition p_resample (e : string) (lc : layout) (n : nat) (lr : layout) (nr np : nat) : prog :=
  [ It e "csw(0)" (Idx n 0); It e "cor.weight(0)" (Idx n 0) ] ++
  for_ (n - 1) (fun i => [ It e "csw(i)" (Idx n (S i)) ]) ++
  for_ n (fun j =>
    [ It e "csw(idx_csw)" (Idx n (n - 1));
      It e "res.state(j)" (Idx nr j); It e "res.state(j)=" (Same (ldim lr) 1 (ldim lc) 1) ] ++
    g_mean e lr nr j ++ [ It e "res.mean(j)=" (Same (ldim lr) 1 (ldim lc) 1) ] ++
    g_cov e lr nr j ++ g_cov e lc n (n - 1) ++
    [ It e "res.covariance(j)=" (Same (lcov lr) (lcov lr) (lcov lc) (lcov lc));
      It e "res.weight(j)" (Idx nr j); It e "res_parents(j)" (Idx np j) ]).

(* prior variant: k = floor(n * prior_ratio) particles from the prior; the temporaries are built with
   ParticleSet(count, dim_linear, dim_circular, use_quaternion) (commit d09c5ac; never with quaternions before) *)
Definition p_resample_prior (lc : layout) (n k np : nat) : prog :=
  let lt := Lay (lin lc) (circ lc) (quat lc) 0 in
  let nres := n - k in
  [ It e_resp "res_parents.tail(n-k)" (Blk np 1 (np - nres) 0 nres 1) ] ++
  for_ nres (fun j =>
    [ It e_resp "tmp.state(j)" (Idx nres j); It e_resp "cor.state(i)" (Idx n (k + j));
      It e_resp "tmp.state(j)=" (Same (ldim lt) 1 (ldim lc) 1);
      It e_resp "tmp.mean(j)=" (Same (ldim lt) 1 (ldim lc) 1) ] ++
    g_cov e_resp lt nres j ++ g_cov e_resp lc n (k + j) ++
    [ It e_resp "tmp.covariance(j)=" (Same (lcov lt) (lcov lt) (lcov lc) (lcov lc));
      It e_resp "tmp.weight(j)" (Idx nres j); It e_resp "cor.weight(i)" (Idx n (k + j)) ]) ++
  [ It e_resp "log_sum_exp:maxCoeff" (Idx nres 0) ] ++
  p_resample e_resp lt nres lt nres nres ++
  (* parents mapped back through the sort permutation: sorted_indices[res_parents_right(j) + k] *)
  for_ nres (fun j => [ It e_resp "res_parents_right(j)" (Idx nres j);
                        It e_resp "sorted_indices[parent+k]" (Idx n (nres - 1 + k)) ]) ++
  (* res_particles = left + right: ParticleSet::operator+= (conservativeResize, then the right part) *)
  [ It e_resp "+=:state_.rightCols" (Blk (ldim lt) (k + nres) 0 (k + nres - nres) (ldim lt) nres);
    It e_resp "+=:state_.rightCols=" (Same (ldim lt) nres (ldim lt) nres);
    It e_resp "+=:mean_.rightCols" (Blk (ldim lt) (k + nres) 0 (k + nres - nres) (ldim lt) nres);
    It e_resp "+=:mean_.rightCols=" (Same (ldim lt) nres (ldim lt) nres);
    It e_resp "+=:covariance_.rightCols" (Blk (lcov lt) (lcov lt * (k + nres)) 0 (lcov lt * (k + nres) - lcov lt * nres) (lcov lt) (lcov lt * nres));
    It e_resp "+=:covariance_.rightCols=" (Same (lcov lt) (lcov lt * nres) (lcov lt) (lcov lt * nres));
    It e_resp "+=:weight_.tail" (Blk (k + nres) 1 (k + nres - nres) 0 nres 1);
    It e_resp "res_parents.head(k)" (Blk np 1 0 0 k 1) ].
(* descriptor and storage of the merged result: components, state cols, mean cols, weight rows, covariance cols *)
Definition resample_prior_out (lc : layout) (n k : nat) : list nat :=
  let lt := Lay (lin lc) (circ lc) (quat lc) 0 in [n; n; n; n; lcov lt * n].

(* ------------------------------------------------------------------ *)
(* density utilities                                                    *)

Definition e_dens := "utils::multivariate_gaussian_log_density".
Definition e_uvr := "utils::multivariate_gaussian_log_density_UVR".
(* input r x c, mean k, U ur x uc, V vr x vc, R bs x rc  (block_size = R.rows()) *)
Definition p_uvr (e : string) (r c k ur uc vr vc bs rc : nat) : prog :=
  let nb := r / bs in
  [ It e "input_size / block_size" (Div bs); It e "input.colwise()-mean" (Same r 1 k 1) ] ++
  (if rc =? bs then
     [ It e "R.inverse()" (Same bs bs rc rc) ] ++
     for_ nb (fun i => [ It e "inv_R.block" (Blk bs r 0 (bs * i) bs bs) ])
   else
     for_ nb (fun i => [ It e "inv_R.block" (Blk bs r 0 (bs * i) bs bs);
                         It e "R.block" (Blk bs rc 0 (bs * i) bs bs) ])) ++
  for_ (vc / bs) (fun i =>
    [ It e "V_inv_R.middleCols" (Blk vr vc 0 (i * bs) vr bs);
      It e "inv_R.block(V)" (Blk bs r 0 (bs * i) bs bs);
      It e "V_i*inv_R_i" (Mul vr bs bs bs) ]) ++
  for_ nb (fun i =>
    [ It e "diff_T_inv_R.middleCols" (Blk c r 0 (i * bs) c bs);
      It e "diff.middleRows" (Blk r c (i * bs) 0 bs c);
      It e "diff_i^T*inv_R_i" (Mul c bs bs bs) ]) ++
  [ It e "V_inv_R*U" (Mul vr vc ur uc); It e "I+V_inv_R*U" (Same vr vr vr uc) ] ++
  for_ c (fun i =>
    [ It e "diff_T_inv_R.row(i)" (Idx c i);
      It e "I_V_inv_R_U.inverse()" (Same vr vr uc uc);
      It e "U*(I+VR^-1U)^-1" (Mul ur uc vr uc); It e "(..)*V_inv_R" (Mul ur uc vr vc);
      It e "I-U(..)V_inv_R" (Same ur ur ur vc);
      It e "row*(..)" (Mul 1 r ur vc); It e "(..)*diff.col(i)" (Mul 1 vc r 1) ]) ++
  (if rc =? bs then [] else for_ nb (fun i => [ It e "R.block.determinant" (Blk bs rc 0 (bs * i) bs bs) ])).

(* SUKFCorrection::getLikelihood after a successful step *)
Definition p_sukf_lik (reduced : bool) (lp : layout) (comps msz sub r ir : nat) : prog :=
  let ss := 2 * lcov lp + 1 in
  let rj := if reduced then r else sub in
  [ It e_sukfl "innovations_.rows() / measurement_sub_size_" (Div sub) ] ++
  for_ (ir / sub) (fun i =>
    [ It e_sukfl "R.middleCols(i*sub,sub)" (Blk sub ir 0 (i * sub) sub sub) ] ++
    when (negb reduced) [ It e_sukfl "R.block(sub*i,sub*i,sub,sub)" (Blk r r (sub * i) (sub * i) sub sub) ] ++
    [ It e_sukfl "R.middleCols=" (Same sub sub rj rj) ]) ++
  for_ comps (fun i =>
    [ It e_sukfl "propagated.middleCols" (Blk msz ((2 * lcov lp + 1) * comps) 0 (ss * i) msz ss);
      It e_sukfl "innovations_.col(i)" (Idx comps i) ] ++
    p_uvr e_sukfl ir 1 ir msz ss ss msz sub ir).

(* ------------------------------------------------------------------ *)
(* EstimatesExtraction                                                  *)

Definition e_ext := "EstimatesExtraction::extract".
(* mean(particles (pr x n), weights (wn)) for an extractor of (el linear, ec circular) *)
Definition p_ext_mean (el ec pr n wn : nat) : prog :=
  when (pos el) [ It e_ext "particles.topRows(lin)" (Blk pr n 0 0 el n);
                  It e_ext "topRows*exp(w)" (Mul el n wn 1);
                  It e_ext "out.head(lin)=" (Same el 1 el 1) ] ++
  when (pos ec) ([ It e_ext "particles.bottomRows(circ)" (Blk pr n (pr - ec) 0 ec n) ] ++
                 (if n =? 1 then [ It e_ext "a.col(0)" (Idx n 0); It e_ext "a.col(0)+0" (Same ec 1 ec 1) ]
                  else [ It e_ext "directional_mean:exp(a)*w" (Mul ec n wn 1) ]) ++
                 [ It e_ext "out.tail(circ)=" (Same ec 1 ec 1) ]).
(* mode: weights.maxCoeff(&row,&col) needs a non-empty vector; particles.col(maxRow), maxRow < wn *)
Definition p_ext_mode (pr n wn : nat) : prog :=
  [ It e_ext "weights.maxCoeff" (Idx wn 0); It e_ext "particles.col(maxRow)" (Idx n (wn - 1)) ].
(* map(particles pr x n, previous_weights pw, likelihoods ln, transition_probabilities tr x tc) *)
Definition p_ext_map (pr n pw ln tr tc : nat) : prog :=
  for_ n (fun i =>
    [ It e_ext "likelihoods(i)" (Idx ln i); It e_ext "transition_probabilities.row(i)" (Idx tr i);
      It e_ext "log(tp.row(i))+previous_weights" (Same tc 1 pw 1);
      It e_ext "log_sum_exp:maxCoeff" (Idx tc 0) ]) ++
  [ It e_ext "values.maxCoeff" (Idx n 0); It e_ext "particles.col(map_index)" (Idx n (n - 1)) ].

(* base statistic: 0 mean, 1 mode, 2 map; averaging: 0 none, 1 simple, 2 weighted, 3 exponential.
   [hs] is the history state before the call, [cur] the size of the estimate pushed (rows of the
   statistic).  Returns the program and the new history state. *)
Definition ext_stat_rows (stat el ec pr : nat) : nat := match stat with 0 => el + ec | _ => pr end.
Definition p_ext_stat (stat el ec pr n wn pw ln tr tc : nat) : prog :=
  match stat with
  | 0 => p_ext_mean el ec pr n wn
  | 1 => p_ext_mode pr n wn
  | _ => p_ext_map pr n pw ln tr tc
  end.
Definition p_ext_call (stat avg el ec pr n wn pw ln tr tc : nat) (hs : hstate) : prog * hstate :=
  let ssz := el + ec in
  let cur := ext_stat_rows stat el ec pr in
  let ps := p_ext_stat stat el ec pr n wn pw ln tr tc in
  match avg with
  | 0 => (ps, hs)
  | _ =>
      let '(pa, hs') := h_step ssz hs (HAdd cur) in
      let k := hsz hs' in
      (* getHistoryBuffer: every stored element (all pushed by this extractor with [cur] rows) into a column *)
      (ps ++ relabel e_ext pa ++
       for_ k (fun i => [ It e_ext "hist_out.col(i)" (Idx k i); It e_ext "col(i)=element" (Same ssz 1 cur 1) ]) ++
       p_ext_mean el ec ssz k k, hs')
  end.
Fixpoint p_ext_calls (calls stat avg el ec pr n wn pw ln tr tc : nat) (hs : hstate) : prog :=
  match calls with
  | 0 => []
  | S c => let '(p, hs') := p_ext_call stat avg el ec pr n wn pw ln tr tc hs in
           p ++ p_ext_calls c stat avg el ec pr n wn pw ln tr tc hs'
  end.
(* setMobileAverageWindowSize(w) (w > 0) first, then [calls] extractions *)
Definition case_extract (w calls stat avg el ec pr n wn pw ln tr tc : nat) : prog :=
  let '(p0, hs) := if pos w then h_set "EstimatesExtraction::setMobileAverageWindowSize" h_init w else ([], h_init) in
  p0 ++ p_ext_calls calls stat avg el ec pr n wn pw ln tr tc hs.

(* ------------------------------------------------------------------ *)
(* EstimatesExtraction as a state machine: operation SEQUENCES on ONE object.
   The object keeps, between calls: the extraction method (statistic, averaging family), the history
   buffer (window, stored estimates with their sizes) and one cached log-weight vector per averaging
   family (sm_weights_, wm_weights_, em_weights_), each rebuilt only when ITS OWN length differs from
   the number of stored estimates at the call that uses it.  Neither setMethod, nor
   setMobileAverageWindowSize, nor clear() touches the caches. *)

Inductive xop :=
| XMethod (stat avg : nat)        (* setMethod: ExtractionMethod number 4 * stat + avg *)
| XWindow (w : nat)               (* setMobileAverageWindowSize(w); w = 0 stands for every w <= 0 (refused) *)
| XClear                          (* clear() *)
| XExtract (full : bool) (pr n wn pw ln tr tc : nat).
    (* extract(particles pr x n, weights wn [, previous_weights pw, likelihoods ln, transition_probabilities tr x tc]) *)

Record xstate := XS { xstat : nat; xavg : nat; xh : hstate; xels : list nat; xsm : nat; xwm : nat; xem : nat }.
Definition x_init := XS 1 3 h_init [] 0 0 0.          (* extraction_method_ = emode, window 5, empty caches *)
Definition e_ext_win := "EstimatesExtraction::setMobileAverageWindowSize".

(* HistoryBuffer::getHistoryBuffer on k stored elements of sizes [els] (most recent first) *)
Definition p_h_get (e : string) (ssz k : nat) (els : list nat) : prog :=
  flat_map (fun ie => [ It e "hist_out.col(i)" (Idx k (fst ie)); It e "col(i)=element" (Same ssz 1 (snd ie) 1) ])
           (combine (seq 0 (List.length els)) els).

Definition x_cache (avg : nat) (s : xstate) : nat := match avg with 1 => xsm s | 2 => xwm s | _ => xem s end.
Definition x_set_cache (avg : nat) (s : xstate) (h : hstate) (els : list nat) (c : nat) : xstate :=
  match avg with
  | 1 => XS (xstat s) (xavg s) h els c (xwm s) (xem s)
  | 2 => XS (xstat s) (xavg s) h els (xsm s) c (xem s)
  | _ => XS (xstat s) (xavg s) h els (xsm s) (xwm s) c
  end.
(* the tail of simpleAverage / weightedAverage / exponentialAverage on a history of k columns:
     if (<cache of size probe>.size() != history.cols()) rebuild the family's cache with history.cols() entries;
     return mean(history, <the family's cache>);
   [probe] is the size of the cache the code EXAMINES, [c] the size of the cache it multiplies with — in the
   code as it is they are the same vector; the new size of that cache is returned *)
Definition x_avg_tail (avg el ec k probe c : nat) : prog * nat :=
  let c' := if probe =? k then c else k in
  (when (negb (probe =? k))
     (match avg with
      | 1 => [ It e_ext "sm_weights_=Constant(cols)" Free ]
      | _ => [ It e_ext "weights_.resize(cols)" Free ] ++
             for_ k (fun i => [ It e_ext "weights_(i)" (Idx k i) ]) ++
             [ It e_ext "log_sum_exp:maxCoeff" (Idx k 0) ]
      end) ++
   p_ext_mean el ec (el + ec) k c', c').

(* one operation: program, new state, observable return values *)
Definition x_step (el ec : nat) (s : xstate) (o : xop) : prog * xstate * list nat :=
  let ssz := el + ec in
  match o with
  | XMethod stat avg => ([], XS stat avg (xh s) (xels s) (xsm s) (xwm s) (xem s), [1])
  | XWindow w =>
      if pos w then
        let '(p, h') := h_set e_ext_win (xh s) w in
        (p, XS (xstat s) (xavg s) h' (firstn (hsz h') (xels s)) (xsm s) (xwm s) (xem s), [1])
      else ([], s, [0])
  | XClear => ([], XS (xstat s) (xavg s) (HS (hwin (xh s)) 0) [] (xsm s) (xwm s) (xem s), [1])
  | XExtract full pr n wn pw ln tr tc =>
      (* the two-argument overload cannot evaluate the map family: it reports false and evaluates nothing;
         the five-argument overload forwards the mean and mode families to the two-argument one *)
      if (2 <=? xstat s) && negb full then ([], s, [0; ssz])
      else
        let stat := xstat s in
        let cur := ext_stat_rows stat el ec pr in
        let ps := p_ext_stat stat el ec pr n wn pw ln tr tc in
        match xavg s with
        | 0 => (ps, s, [1; cur])
        | avg =>
            let '(pa, h') := h_step ssz (xh s) (HAdd cur) in
            let els' := firstn (hsz h') (cur :: xels s) in
            let k := hsz h' in
            let '(pt, c') := x_avg_tail avg el ec k (x_cache avg s) (x_cache avg s) in
            (ps ++ relabel e_ext pa ++ p_h_get e_ext ssz k els' ++ pt, x_set_cache avg s h' els' c', [1; ssz])
        end
  end.

Fixpoint x_run (el ec : nat) (s : xstate) (ops : list xop) : prog * list nat * list nat :=
  match ops with
  | [] => ([], [], [])
  | o :: r =>
      let '(p, s', ob) := x_step el ec s o in
      let '(p2, ob2, w2) := x_run el ec s' r in
      (p ++ p2, ob ++ ob2, hwin (xh s') :: w2)
  end.
Definition case_extseq (el ec : nat) (ops : list xop) : prog := fst (fst (x_run el ec x_init ops)).
Definition obs_extseq (el ec : nat) (ops : list xop) : list nat := snd (fst (x_run el ec x_init ops)).
(* the window after every operation (the harness reads it from getInfo()) *)
Definition win_extseq (el ec : nat) (ops : list xop) : list nat := snd (x_run el ec x_init ops).

(* UKFCorrection::getLikelihood after a successful step: innovations ir x comps, Py_i mdc x mdc *)
Definition p_ukf_lik (comps ir mdc : nat) : prog :=
  for_ comps (fun i => [ It e_ukfl "innovations_.col(i)" (Idx comps i);
                         It e_ukfl "predicted_meas_.covariance(i)" (Blk mdc (mdc * comps) 0 (mdc * i) mdc mdc) ] ++
                       p_density e_ukfl ir 1 ir mdc mdc).

(* ------------------------------------------------------------------ *)
(* The call sequences the harness executes, one per case kind          *)

Definition case_grid (nx ny n : nat) (l : layout) : prog := p_grid nx ny n l.
Definition case_sigma (l : layout) (comps : nat) : prog := p_sigma e_sp l comps.
Definition sigma_out (l : layout) (comps : nat) : list nat := [ldim l; (2 * lcov l + 1) * comps].

(* the shape of what the library-side lambda hands to the core transform *)
Definition ut_prop_shape (variant : nat) (li : layout) (comps pr pc : nat) (lo : layout) : nat * nat :=
  match variant with
  | 1 => (ldim lo, (2 * lcov li + 1) * comps)     (* tmp(total_size(state description), cols) *)
  | 2 => (ldim li, (2 * lcov li + 1) * comps)     (* tmp(state.rows(), state.cols()) *)
  | _ => (pr, pc)                                 (* whatever the function / measurement model returned *)
  end.
Definition case_ut (variant : nat) (li : layout) (comps w : nat) (valid : bool) (pr pc : nat) (lo : layout) (qr qc : nat) : prog :=
  let valid' := match variant with 1 | 2 => true | _ => valid end in
  let '(pr', pc') := ut_prop_shape variant li comps pr pc lo in
  p_utweight "sigma_point::UTWeight::UTWeight" w ++ p_ut variant li comps w valid' pr' pc' lo qr qc.

Definition case_kfp (d : nat) (lp : layout) (comps : nat) (lq : layout) (compsq : nat) : prog :=
  p_kf_predict d lp comps lq compsq.
(* [again]: afterwards a second correction whose measurement is not available (measure() fails: nothing is
   evaluated, corr_state = pred_state) and getLikelihood(), which finds innovations_ emptied (commit 201e1b4) *)
Definition case_kfc (m n : nat) (lp : layout) (comps : nat) (lq : layout) (compsq yr yc : nat) (again : bool) : prog :=
  p_kf_correct m n lp comps lq compsq yr yc ++ p_kf_lik m comps.

(* the UTWeight is built by the step's constructor from the model's declared input description *)
Definition e_ukfp_ctor := "UKFPrediction::UKFPrediction".
Definition e_ukfc_ctor := "UKFCorrection::UKFCorrection".
Definition e_sukf_ctor := "SUKFCorrection::SUKFCorrection".
Definition case_ukfp (additive : bool) (lp : layout) (comps q : nat) (ls : layout) : prog :=
  let w := if additive then lcov ls else lcov ls + q in
  p_utweight e_ukfp_ctor w ++ p_ukf_predict additive lp comps w q ls.
Definition ukfp_out (comps : nat) (ls : layout) : list nat := [comps; ldim ls; lcov ls].

(* [again]: afterwards a second correction whose predictedMeasure fails (the sigma points are drawn, the
   transform returns early, corr_state = pred_state) and getLikelihood(): innovations_ was emptied at the
   start of the step (commit 201e1b4), so nothing is evaluated against the default 1x1 predicted_meas_ *)
Definition case_ukfc (additive : bool) (lp : layout) (comps r : nat) (valid : bool) (lm : layout) (ir : nat)
                     (lq : layout) (compsq : nat) (again online : bool) : prog :=
  let w := if additive then lcov lp else lcov lp + r in
  p_utweight e_ukfc_ctor w ++
  p_ukf_correct additive online lp comps w r valid lm ir lq compsq ++
  when valid (p_ukf_lik comps ir (lcov lm)) ++
  when again (p_ukf_correct additive online lp comps w r false lm ir lq compsq).

Definition case_sukf (reduced : bool) (lp : layout) (comps msz sub r ir : nat) (lq : layout) (compsq : nat) (again : bool) : prog :=
  p_utweight e_sukf_ctor (lcov lp) ++
  p_sukf reduced lp comps (lcov lp) msz sub r ir lq compsq ++
  when (sukf_runs msz sub) (p_sukf_lik reduced lp comps msz sub r ir) ++
  when again ([ It e_sukf "meas_size % measurement_sub_size_" (Div sub) ] ++ when (sukf_runs msz sub) (p_sigma e_sukf lp comps)).

(* Resampling::neff(weights) has no precondition *)
Definition case_resample (lc : layout) (n : nat) (lr : layout) (nr np : nat) : prog :=
  [ It "Resampling::neff" "exp(w).square().sum()" Free ] ++ p_resample e_res lc n lr nr np.
Definition case_resprior (lc : layout) (n k np : nat) : prog := p_resample_prior lc n k np.
Definition case_density (r c k a b : nat) : prog := p_density e_dens r c k a b.
Definition case_uvr (r c k ur uc vr vc bs rc : nat) : prog := p_uvr e_uvr r c k ur uc vr vc bs rc.

(* ------------------------------------------------------------------ *)
(* Observable shapes / return values of a case that runs to its end     *)

Definition b2n (b : bool) : nat := if b then 1 else 0.
Definition obs_wna (D num cc : nat) : list nat := [wna_d D; num; cc].
Definition obs_simstate (T ir : nat) (ops : list sop) : list nat :=
  flat_map (fun r : bool => if r then [1; ir; 1] else [0]) (sim_rets T 0 ops).
Definition obs_linsensor (T m calls num sc : nat) : list nat :=
  flat_map (fun r : bool => if r then [1; m; 1] else [0]) (sim_returns T calls) ++ [m; num; m; sc; m; sc].
Fixpoint obs_history (ssz : nat) (s : hstate) (ops : list hop) : list nat :=
  match ops with
  | [] => []
  | o :: r => let s' := snd (h_step ssz s o) in
              (match o with HGet => [ssz; hsz s'] | _ => [] end) ++ hwin s' :: obs_history ssz s' r
  end.
Definition obs_grid (nx ny n : nat) (l : layout) : list nat := [b2n (grid_ret nx ny n l)].
Definition obs_ut (variant : nat) (li : layout) (comps : nat) (valid : bool) (lo : layout) : list nat :=
  let valid' := match variant with 1 | 2 => true | _ => valid end in b2n valid' :: ut_out li comps valid' lo.
Definition obs_kfp (lq : layout) (compsq : nat) : list nat := [compsq; ldim lq].
(* after a step that could not use the measurement: corr_state = pred_state, no likelihood *)
Definition obs_unused (lp : layout) (comps : nat) : list nat := [comps; ldim lp; 0; 0].
Definition obs_kfc (lp : layout) (comps : nat) (lq : layout) (compsq : nat) (again : bool) : list nat :=
  [compsq; ldim lq; 1; comps] ++ (if again then obs_unused lp comps else []).
Definition obs_ukfc (lp : layout) (comps : nat) (valid : bool) (lq : layout) (compsq : nat) (again : bool) : list nat :=
  (if valid then [compsq; ldim lq; 1; comps] else obs_unused lp comps) ++ (if again then obs_unused lp comps else []).
Definition obs_sukf (lp : layout) (comps msz sub : nat) (lq : layout) (compsq : nat) (again : bool) : list nat :=
  obs_ukfc lp comps (sukf_runs msz sub) lq compsq again.
Definition obs_resample (lr : layout) (nr : nat) : list nat := [nr; nr; nr; nr; lcov lr * nr].
Definition obs_extract (calls stat avg el ec pr : nat) : list nat :=
  flat_map (fun _ => [1; match avg with 0 => ext_stat_rows stat el ec pr | _ => el + ec end]) (seq 0 calls).

(* the particle set after the call, then its sigma points *)
Definition case_psaug (l : layout) (comps qr qc qr2 qc2 : nat) : prog :=
  let l1 := aug_layout l qr qc in let l2 := aug_layout l1 qr2 qc2 in
  p_augment l comps qr qc ++ p_augment l1 comps qr2 qc2 ++ p_sigma e_sp l2 comps.
Definition obs_psaug (l : layout) (comps qr qc qr2 qc2 : nat) : list nat :=
  let l1 := aug_layout l qr qc in let l2 := aug_layout l1 qr2 qc2 in
  [b2n (aug_ret qr qc); b2n (aug_ret qr2 qc2); ldim l2; lcov l2; noise l2; ldim l2; ldim l2; lcov l2; lcov l2 * comps] ++ sigma_out l2 comps.
