(* C13_Extract.v — executable entry point of the skip state machine for the
   correspondence check.  ExtrOcamlBasic only. *)
Require Import ZArith List.
Require Import BFL.Ops BFL.C13_Model BFL.C13_Life.
Require Import Extraction ExtrOcamlBasic.

(* observations of a word of operations on a freshly constructed filter *)
Definition c13_run (k : kind) (have : bool) (ops : list op) : list obs := run_ops k ops (m_init have).

(* the same with moves of the step objects at any position of the word (C13_Life) *)
Definition c13_run_life (k : kind) (have : bool) (ops : list lop) : list lobs := run_lops k ops (m_init have).

(* The build pastes ocaml/float_ops.ml in front of every driver; that fragment
   mentions the extracted types nat, positive, z and sOps.  This unused
   definition only makes the extraction contain them (the skip model itself
   has no arithmetic). *)
Definition c13_types_for_float_ops (S : SOps) (n : nat) : T S := sofZ S (Z.of_nat n).

Extraction "C13_model.ml" c13_run c13_run_life c13_types_for_float_ops.
