(* C15_RProofs.v — utils::log_sum_exp over Coq's reals (World B): the model
   C15_Model.lse at the instances ROps (plain reals) and EOps (reals extended
   by -inf, C15_ROps.v).  Axioms: the four standard real-number axioms only. *)
Require Import ZArith Reals List Lra Lia.
Require Import BFL.Ops BFL.C19_ROps BFL.C15_ROps BFL.C15_Model.
Import ListNotations.
Local Open Scope R_scope.

Definition sumR (l : list R) : R := fold_right Rplus 0 l.

Lemma sumR_scal c l : sumR (map (fun a => c * a) l) = c * sumR l.
Proof. induction l; simpl; [ring | rewrite IHl; ring]. Qed.

Lemma sumR_pos l : l <> [] -> (forall a, In a l -> 0 < a) -> 0 < sumR l.
Proof.
  induction l as [|a l IH]; [congruence|]; intros _ H; simpl.
  destruct l. simpl. rewrite Rplus_0_r. apply H; left; auto.
  assert (0 < a) by (apply H; left; auto).
  assert (0 < sumR (r :: l)) by (apply IH; [congruence | intros; apply H; right; auto]). lra.
Qed.

Lemma sumR_nonneg l : (forall a, In a l -> 0 <= a) -> 0 <= sumR l.
Proof.
  induction l as [|a l IH]; intros H; simpl; [lra|].
  assert (0 <= a) by (apply H; left; auto).
  assert (0 <= sumR l) by (apply IH; intros; apply H; right; auto). lra.
Qed.

Lemma sumR_le_length l : (forall a, In a l -> a <= 1) -> sumR l <= INR (length l).
Proof.
  induction l as [|a l IH]; intros H; [simpl; lra|].
  change (length (a :: l)) with (S (length l)). rewrite S_INR. simpl.
  assert (a <= 1) by (apply H; left; auto).
  assert (sumR l <= INR (length l)) by (apply IH; intros; apply H; right; auto). lra.
Qed.

Lemma sumR_ge_member l x : (forall a, In a l -> 0 <= a) -> In x l -> x <= sumR l.
Proof.
  induction l as [|a l IH]; intros H Hin; [destruct Hin|].
  simpl. destruct Hin as [->|Hin].
  - assert (0 <= sumR l) by (apply sumR_nonneg; intros; apply H; right; auto). lra.
  - assert (0 <= a) by (apply H; left; auto).
    assert (x <= sumR l) by (apply IH; auto; intros; apply H; right; auto). lra.
Qed.

(* the model's sum is a left fold from 0 *)
Lemma fold_left_Rplus l a : fold_left Rplus l a = a + sumR l.
Proof. revert a; induction l as [|b l IH]; intros a; simpl; [ring | rewrite IH; ring]. Qed.

Lemma ssum_R l : ssum ROps l = sumR l.
Proof. unfold ssum. simpl. rewrite fold_left_Rplus. ring. Qed.

Lemma smaxl_R_cons x0 b l :
  smaxl ROps x0 (b :: l) = smaxl ROps (if Rltb x0 b then b else x0) l.
Proof. reflexivity. Qed.

(* data.maxCoeff(): the running maximum is an entry and dominates every entry *)
Lemma smaxl_R_spec x0 l :
  In (smaxl ROps x0 l) (x0 :: l) /\ forall a, In a (x0 :: l) -> a <= smaxl ROps x0 l.
Proof.
  revert x0; induction l as [|b l IH]; intros x0.
  - simpl. split; [auto | intros a [->|[]]; lra].
  - rewrite smaxl_R_cons.
    destruct (IH (if Rltb x0 b then b else x0)) as [Hin Hle].
    split.
    + destruct Hin as [E|Hin']; [|right; right; exact Hin'].
      rewrite <- E. destruct (Rltb x0 b); [right; left | left]; reflexivity.
    + intros a [E0|[E0|Hin']]; try subst a.
      * destruct (Rltb x0 b) eqn:E.
        -- apply Rltb_true in E. assert (b <= smaxl ROps b l) by (apply Hle; left; auto). lra.
        -- apply Hle; left; auto.
      * destruct (Rltb x0 b) eqn:E.
        -- apply Hle; left; auto.
        -- apply Rltb_false in E. assert (x0 <= smaxl ROps x0 l) by (apply Hle; left; auto). lra.
      * apply Hle; right; exact Hin'.
Qed.

(* ---------- log_sum_exp = ln sum exp ---------- *)
Lemma shift_identity (mx : R) (xs : list R) : xs <> [] ->
  mx + ln (sumR (map (fun a => exp (a - mx)) xs)) = ln (sumR (map exp xs)).
Proof.
  intros Hne.
  assert (E : map exp xs = map (fun a => exp mx * a) (map (fun a => exp (a - mx)) xs)).
  { rewrite map_map. apply map_ext; intro a. rewrite <- exp_plus. f_equal; ring. }
  rewrite E, sumR_scal, ln_mult, ln_exp; [reflexivity | apply exp_pos |].
  apply sumR_pos. destruct xs; simpl; congruence.
  intros a Ha. apply in_map_iff in Ha. destruct Ha as [b [<- _]]. apply exp_pos.
Qed.

Lemma lse_R_unfold x0 l :
  lse (Sc:=ROps) x0 l =
  smaxl ROps x0 l + ln (sumR (map (fun a => exp (a - smaxl ROps x0 l)) (x0 :: l))).
Proof. unfold lse. rewrite ssum_R. reflexivity. Qed.

Theorem lse_spec x0 l : lse (Sc:=ROps) x0 l = ln (sumR (map exp (x0 :: l))).
Proof. rewrite lse_R_unfold. apply shift_identity. congruence. Qed.

(* ---------- shift law ---------- *)
Theorem lse_shift x0 l c :
  lse (Sc:=ROps) (x0 + c) (map (fun a => a + c) l) = lse (Sc:=ROps) x0 l + c.
Proof.
  rewrite !lse_spec.
  change ((x0 + c) :: map (fun a => a + c) l) with (map (fun a => a + c) (x0 :: l)).
  set (xs := x0 :: l).
  assert (E : map exp (map (fun a => a + c) xs) = map (fun a => exp c * a) (map exp xs)).
  { rewrite !map_map. apply map_ext; intro a. rewrite exp_plus. ring. }
  rewrite E, sumR_scal, ln_mult, ln_exp.
  - unfold xs. apply Rplus_comm.
  - apply exp_pos.
  - apply sumR_pos. unfold xs; simpl; congruence.
    intros a Ha. apply in_map_iff in Ha. destruct Ha as [b [<- _]]. apply exp_pos.
Qed.

(* ---------- no overflow: what is fed to exp and to ln ---------- *)
Theorem lse_no_overflow x0 l :
  let sh := lse_shifted (Sc:=ROps) x0 l in
  (forall e, In e sh -> e <= 0) /\ In 0 sh /\
  1 <= sumR (map exp sh) <= INR (length (x0 :: l)) /\
  lse (Sc:=ROps) x0 l = smaxl ROps x0 l + ln (sumR (map exp sh)).
Proof.
  intros sh. destruct (smaxl_R_spec x0 l) as [Hin Hle].
  assert (Hsh : sh = map (fun a => a - smaxl ROps x0 l) (x0 :: l)) by reflexivity.
  assert (H1 : forall e, In e sh -> e <= 0).
  { intros e He. rewrite Hsh in He. apply in_map_iff in He. destruct He as [a [<- Ha]].
    specialize (Hle a Ha). simpl in *. lra. }
  assert (H2 : In 0 sh).
  { rewrite Hsh. apply in_map_iff. exists (smaxl ROps x0 l). split; [simpl; ring | exact Hin]. }
  split; [exact H1|]. split; [exact H2|]. split.
  - split.
    + apply sumR_ge_member.
      * intros a Ha. apply in_map_iff in Ha. destruct Ha as [b [<- _]]. left; apply exp_pos.
      * rewrite <- exp_0. apply in_map. exact H2.
    + replace (length (x0 :: l)) with (length (map exp sh)).
      * apply sumR_le_length. intros a Ha. apply in_map_iff in Ha. destruct Ha as [e [<- He]].
        specialize (H1 e He). destruct (Req_dec e 0) as [->|Hne]; [rewrite exp_0; lra|].
        left. rewrite <- exp_0. apply exp_increasing. lra.
      * rewrite Hsh, !map_length. reflexivity.
  - rewrite lse_R_unfold, Hsh, map_map. reflexivity.
Qed.

(* ---------- entries -inf: the same model function at the extended instance ---------- *)
Fixpoint fins (l : list ext) : list R :=
  match l with
  | [] => []
  | Fin x :: t => x :: fins t
  | _ :: t => fins t
  end.
Definition no_bad (l : list ext) : Prop := forall a, In a l -> a <> Bad.

Lemma no_bad_tl a l : no_bad (a :: l) -> no_bad l.
Proof. intros H b Hb. apply H. right; exact Hb. Qed.

Lemma smaxl_E_cons x0 b l :
  smaxl EOps x0 (b :: l) = smaxl EOps (if e_ltb x0 b then b else x0) l.
Proof. reflexivity. Qed.

(* running maximum started at a finite value *)
Lemma emax_fin m l : no_bad l ->
  exists m', smaxl EOps (Fin m) l = Fin m' /\ (m' = m \/ In m' (fins l)) /\ m <= m' /\
             forall a, In a (fins l) -> a <= m'.
Proof.
  revert m; induction l as [|b l IH]; intros m Hnb.
  - exists m. simpl. repeat split; auto; try lra. intros a [].
  - rewrite smaxl_E_cons. pose proof (no_bad_tl _ _ Hnb) as Hnb'.
    destruct b as [|x|]; simpl.
    + destruct (IH m Hnb') as [m' [E [Hin [Hle Hall]]]]. exists m'. auto.
    + destruct (Rltb m x) eqn:Elt.
      * apply Rltb_true in Elt. destruct (IH x Hnb') as [m' [E [Hin [Hle Hall]]]].
        exists m'. split; [exact E|]. split; [|split].
        -- right. destruct Hin as [->|Hin]; [left; reflexivity | right; exact Hin].
        -- lra.
        -- intros a [<-|Ha]; [exact Hle | apply Hall; exact Ha].
      * apply Rltb_false in Elt. destruct (IH m Hnb') as [m' [E [Hin [Hle Hall]]]].
        exists m'. split; [exact E|]. split; [|split].
        -- destruct Hin as [->|Hin]; [left; reflexivity | right; right; exact Hin].
        -- exact Hle.
        -- intros a [<-|Ha]; [lra | apply Hall; exact Ha].
    + exfalso. apply (Hnb Bad); [left; reflexivity | reflexivity].
Qed.

(* running maximum started at -inf *)
Lemma emax_ninf l : no_bad l -> fins l <> [] ->
  exists m', smaxl EOps NInf l = Fin m' /\ In m' (fins l) /\ forall a, In a (fins l) -> a <= m'.
Proof.
  induction l as [|b l IH]; intros Hnb Hne; [simpl in Hne; congruence|].
  rewrite smaxl_E_cons. pose proof (no_bad_tl _ _ Hnb) as Hnb'.
  destruct b as [|x|]; simpl.
  - simpl in Hne. destruct (IH Hnb' Hne) as [m' [E [Hin Hall]]]. exists m'. auto.
  - destruct (emax_fin x l Hnb') as [m' [E [Hin [Hle Hall]]]]. exists m'.
    split; [exact E|]. split.
    + destruct Hin as [->|Hin]; [left; reflexivity | right; exact Hin].
    + intros a [<-|Ha]; [exact Hle | apply Hall; exact Ha].
  - exfalso. apply (Hnb Bad); [left; reflexivity | reflexivity].
Qed.

Lemma emax_spec x0 l : no_bad (x0 :: l) -> fins (x0 :: l) <> [] ->
  exists m, smaxl EOps x0 l = Fin m /\ In m (fins (x0 :: l)) /\
            forall a, In a (fins (x0 :: l)) -> a <= m.
Proof.
  intros Hnb Hne. pose proof (no_bad_tl _ _ Hnb) as Hnb'.
  destruct x0 as [|x|].
  - simpl in *. apply emax_ninf; assumption.
  - destruct (emax_fin x l Hnb') as [m' [E [Hin [Hle Hall]]]]. exists m'.
    split; [exact E|]. split.
    + simpl. destruct Hin as [->|Hin]; [left; reflexivity | right; exact Hin].
    + intros a [<-|Ha]; [exact Hle | apply Hall; exact Ha].
  - exfalso. apply (Hnb Bad); [left; reflexivity | reflexivity].
Qed.

(* the sum of the shifted exponentials stays finite: -inf entries contribute exp(-inf) = 0 *)
Lemma esum_shifted m xs acc : no_bad xs ->
  fold_left e_add (map (fun a : T EOps => e_exp (e_sub a (Fin m))) xs) (Fin acc)
  = Fin (acc + sumR (map (fun a => exp (a - m)) (fins xs))).
Proof.
  revert acc; induction xs as [|b xs IH]; intros acc Hnb.
  - simpl. f_equal. ring.
  - pose proof (no_bad_tl _ _ Hnb) as Hnb'. destruct b as [|x|]; simpl.
    + rewrite IH by assumption. f_equal. ring.
    + rewrite IH by assumption. f_equal. ring.
    + exfalso. apply (Hnb Bad); [left; reflexivity | reflexivity].
Qed.

Lemma fins_map_pos m xs : fins xs <> [] -> 0 < sumR (map (fun a => exp (a - m)) (fins xs)).
Proof.
  intros Hne. apply sumR_pos.
  - destruct (fins xs); simpl; congruence.
  - intros a Ha. apply in_map_iff in Ha. destruct Ha as [b [<- _]]. apply exp_pos.
Qed.

Lemma fins_in x l : In (Fin x) l -> In x (fins l).
Proof.
  induction l as [|b t IH]; intros H; [destruct H|].
  destruct H as [->|H]; [left; reflexivity|].
  destruct b; simpl; auto.
Qed.

Theorem lse_neginf x0 l : no_bad (x0 :: l) -> fins (x0 :: l) <> [] ->
  lse (Sc:=EOps) x0 l = Fin (ln (sumR (map exp (fins (x0 :: l))))) /\
  forall e, In e (lse_shifted (Sc:=EOps) x0 l) -> e = NInf \/ exists r, e = Fin r /\ r <= 0.
Proof.
  intros Hnb Hne. destruct (emax_spec x0 l Hnb Hne) as [m [Em [Hin Hall]]].
  split.
  - unfold lse, ssum. rewrite Em.
    change (s0 EOps) with (Fin 0). change (sadd EOps) with e_add.
    change (sexp EOps) with e_exp. change (ssub EOps) with e_sub. change (sln EOps) with e_ln.
    pose proof (esum_shifted m (x0 :: l) 0 Hnb) as Es.
    match goal with |- e_add _ (e_ln ?X) = _ =>
      replace X with (Fin (0 + sumR (map (fun a => exp (a - m)) (fins (x0 :: l)))))
        by (symmetry; exact Es) end.
    rewrite Rplus_0_l.
    pose proof (fins_map_pos m (x0 :: l) Hne) as Hpos.
    unfold e_ln. destruct (Rlt_dec 0 _) as [_|Hn]; [|contradiction].
    simpl. f_equal. apply shift_identity. exact Hne.
  - unfold lse_shifted. rewrite Em. intros e He. apply in_map_iff in He.
    destruct He as [a [<- Ha]]. change (ssub EOps) with e_sub.
    destruct a as [|x|]; simpl.
    + left; reflexivity.
    + right. exists (x - m). split; [reflexivity|].
      assert (x <= m) by (apply Hall, fins_in; exact Ha).
      lra.
    + exfalso. apply (Hnb Bad); [exact Ha | reflexivity].
Qed.

(* outside the property: with no finite entry the code returns NaN (-inf - -inf) *)
Lemma efold_bad l : fold_left e_add l Bad = Bad.
Proof. induction l as [|a l IH]; simpl; [reflexivity|]. destruct a; exact IH. Qed.

Lemma emax_all_ninf l : (forall a, In a l -> a = NInf) -> smaxl EOps NInf l = NInf.
Proof.
  induction l as [|b l IH]; intros H; [reflexivity|].
  rewrite smaxl_E_cons. rewrite (H b) by (left; reflexivity). simpl.
  apply IH. intros a Ha. apply H. right; exact Ha.
Qed.

Theorem lse_all_neginf l : (forall a, In a l -> a = NInf) -> lse (Sc:=EOps) NInf l = Bad.
Proof.
  intros H. unfold lse, ssum. rewrite (emax_all_ninf l H). simpl.
  rewrite efold_bad. reflexivity.
Qed.

(* ---------- shift law with -inf entries present ---------- *)
Lemma ln_sum_shift xs c : xs <> [] ->
  ln (sumR (map exp (map (fun a => a + c) xs))) = ln (sumR (map exp xs)) + c.
Proof.
  intros Hne.
  assert (E : map exp (map (fun a => a + c) xs) = map (fun a => exp c * a) (map exp xs)).
  { rewrite !map_map. apply map_ext; intro a. rewrite exp_plus. ring. }
  rewrite E, sumR_scal, ln_mult, ln_exp.
  - apply Rplus_comm.
  - apply exp_pos.
  - apply sumR_pos. destruct xs; simpl; congruence.
    intros a Ha. apply in_map_iff in Ha. destruct Ha as [b [<- _]]. apply exp_pos.
Qed.

Lemma fins_shift c l :
  fins (map (fun a => e_add a (Fin c)) l) = map (fun a => a + c) (fins l).
Proof.
  induction l as [|b l IH]; [reflexivity|].
  destruct b as [|x|]; simpl; rewrite ?IH; reflexivity.
Qed.

Lemma no_bad_shift c l : no_bad l -> no_bad (map (fun a => e_add a (Fin c)) l).
Proof.
  intros H a Ha. apply in_map_iff in Ha. destruct Ha as [b [<- Hb]].
  specialize (H b Hb). destruct b; simpl; congruence.
Qed.

Theorem lse_neginf_shift e0 el c : no_bad (e0 :: el) -> fins (e0 :: el) <> [] ->
  lse (Sc:=EOps) (e_add e0 (Fin c)) (map (fun a => e_add a (Fin c)) el)
  = e_add (lse (Sc:=EOps) e0 el) (Fin c).
Proof.
  intros Hnb Hne.
  destruct (lse_neginf e0 el Hnb Hne) as [E _]. rewrite E.
  pose proof (no_bad_shift c (e0 :: el) Hnb) as Hnb'.
  pose proof (fins_shift c (e0 :: el)) as Hf. simpl map in Hnb', Hf.
  assert (Hne' : fins (e_add e0 (Fin c) :: map (fun a => e_add a (Fin c)) el) <> []).
  { rewrite Hf. intro Hm. apply map_eq_nil in Hm. exact (Hne Hm). }
  destruct (lse_neginf _ _ Hnb' Hne') as [E' _]. rewrite E', Hf.
  simpl. f_equal. apply ln_sum_shift. exact Hne.
Qed.
