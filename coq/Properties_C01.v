(* Properties_C01.v — property C01: the Kalman correction returns the exact
   linear-Gaussian Bayes posterior.  Statements only; each is closed by a
   lemma of C01_Proofs.  All hold for every realFieldType F, every state and
   measurement dimension, every mixture, every H (any rank), every SPD R. *)
Require Import ZArith QArith List.
Require Import BFL.Ops BFL.ListOps BFL.Density BFL.C01_Model.
From mathcomp Require Import all_ssreflect all_algebra.
Require Import BFL.MxOps BFL.LinAlg BFL.C01_Proofs.
Import GRing.Theory.
Local Open Scope ring_scope.

Section C01.
Variable F : realFieldType.
Variable tr : Transc F.
Variable sq : forall n, 'M[F]_n -> 'M[F]_n.
Variable eg : forall n, 'M[F]_n -> 'M[F]_(n,1).
Let O := MxMat tr sq eg.
Variables (n m : nat) (H : M O m n) (R : M O m m) (y : M O m 1).
Hypothesis spdR : spd (R : 'M[F]_m).

(* covariance: (P^-1 + H^T R^-1 H)^-1 *)
Theorem C01_cov_information_form (c : gcomp O n) : spd (gcov c : 'M[F]_n) ->
  (gcov (ko_comp (kf_correct_one H R y c)) : 'M[F]_n) =
  invmx (invmx (gcov c) + H^T *m invmx R *m H).
Proof. exact: kf_one_cov. Qed.

(* mean: m + K (y - H m), K = P H^T (H P H^T + R)^-1 *)
Theorem C01_mean_gain_form (c : gcomp O n) :
  (gmean (ko_comp (kf_correct_one H R y c)) : 'cV[F]_n) =
  gmean c + (gcov c *m H^T *m invmx (H *m gcov c *m H^T + R)) *m (y - H *m gmean c).
Proof. exact: kf_one_mean_gain. Qed.

(* mean and covariance together are the conjugate (information-form) posterior *)
Theorem C01_is_conjugate_posterior (c : gcomp O n) : spd (gcov c : 'M[F]_n) ->
  ko_comp (kf_correct_one H R y c) = info_posterior H R y c.
Proof. exact: kf_one_is_info_posterior. Qed.

Theorem C01_cov_sym (c : gcomp O n) : spd (gcov c : 'M[F]_n) ->
  sym (gcov (ko_comp (kf_correct_one H R y c)) : 'M[F]_n).
Proof. exact: kf_one_sym. Qed.

Theorem C01_cov_psd (c : gcomp O n) : spd (gcov c : 'M[F]_n) ->
  psd (gcov (ko_comp (kf_correct_one H R y c)) : 'M[F]_n).
Proof. exact: kf_one_psd. Qed.

(* never larger than the prior, in the Loewner order *)
Theorem C01_cov_le_prior (c : gcomp O n) : spd (gcov c : 'M[F]_n) ->
  mle (gcov (ko_comp (kf_correct_one H R y c)) : 'M[F]_n) (gcov c).
Proof. exact: kf_one_le_prior. Qed.

(* the matrix the step inverts is invertible (no reliance on invmx's totalisation) *)
Theorem C01_innovation_cov_invertible (c : gcomp O n) : spd (gcov c : 'M[F]_n) ->
  (ko_Py (kf_correct_one H R y c) : 'M[F]_m) \in unitmx.
Proof. exact: kf_one_Py_unit. Qed.

(* each component independently, same index, same count *)
Theorem C01_componentwise (cs : list (gcomp O n)) (i : nat) d :
  (i < length cs)%coq_nat ->
  List.nth i (kf_correct H R y cs) d = kf_correct_one H R y (List.nth i cs (ko_comp d)).
Proof. exact: kf_componentwise. Qed.

Theorem C01_component_count (cs : list (gcomp O n)) :
  length (kf_correct H R y cs) = length cs.
Proof. exact: kf_length. Qed.

(* likelihood = N(y; H m, H P H^T + R) *)
Theorem C01_likelihood (c : gcomp O n) :
  kf_likelihood (kf_correct_one H R y c) =
  density (O:=O) y (H *m gmean c) (H *m gcov c *m H^T + R).
Proof. exact: kf_likelihood_is_density. Qed.

End C01.

(* non-vacuity: the premises are satisfiable in every dimension ... *)
Example C01_premises_satisfiable (F : realFieldType) n m :
  spd (1%:M : 'M[F]_n) /\ spd (1%:M : 'M[F]_m).
Proof. by split; exact: spd1. Qed.

(* ... and the executable instance of the same model, run over exact
   rationals on a 2-state / 1-measurement mixture component, returns the
   information-form posterior the theorem predicts. *)
Definition QM := ListMat QOps (fun _ A => A) (fun _ A => A).
Example C01_concrete_Q :
  let P := [:: [:: 2#1; 1#1]; [:: 1#1; 3#1]]%Q in
  let x := [:: [:: 1#1]; [:: -2#1]]%Q in
  let Hm := [:: [:: 1#1; 2#1]]%Q in
  let Rm := [:: [:: 1#2]]%Q in
  let ym := [:: [:: 3#1]]%Q in
  let c := @mkGcomp QM 2 x P in
  let o := @kf_correct_one QM 2 1 Hm Rm ym c in
  let q := @info_posterior QM 2 1 Hm Rm ym c in
  qmx_eqb (gmean (ko_comp o)) (gmean q) && qmx_eqb (gcov (ko_comp o)) (gcov q)
  && qmx_eqb (gmean (ko_comp o)) [:: [:: 85#37]; [:: 10#37]]%Q = true.
Proof. vm_compute. reflexivity. Qed.

Print Assumptions C01_cov_information_form.
Print Assumptions C01_mean_gain_form.
Print Assumptions C01_is_conjugate_posterior.
Print Assumptions C01_cov_sym.
Print Assumptions C01_cov_psd.
Print Assumptions C01_cov_le_prior.
Print Assumptions C01_innovation_cov_invertible.
Print Assumptions C01_componentwise.
Print Assumptions C01_component_count.
Print Assumptions C01_likelihood.
