(* C06_Proofs.v — lemmas about the SIS model over the reals (instance ROps):
   the invariant (N particles, layout, normalised log-weights) by induction over
   all event lists, positivity of every argument of ln, the re-weighting
   formula, the no-measurement clause and the resampling trigger. *)
Require Import Reals ZArith List Bool Lia Lra.
Require Import BFL.Ops BFL.C07_Model BFL.C07_ROps BFL.C07_Proofs BFL.C06_Model.
Import ListNotations.
Local Open Scope R_scope.

Section SIS.
Variables St Aux : Type.
Variables (N dl dc : nat).
Hypothesis Npos : (0 < N)%nat.

Notation sset := (@sset ROps St Aux).
Notation event := (@event ROps St).
Notation sis_state := (@sis_state ROps St Aux).

Definition wf_set (s : sset) : Prop :=
  length (s_parts s) = N /\ length (s_lw s) = N /\ s_lin s = dl /\ s_circ s = dc.
Definition normalised (s : sset) : Prop := lse ROps (s_lw s) = 0.
Definition good (s : sset) : Prop := wf_set s /\ normalised s.

(* after a step; before the first step only the predicted (= initial) set is meaningful *)
Definition Inv (st : sis_state) : Prop := good (pred st) /\ good (cor st).
Definition PreInv (st : sis_state) : Prop := good (pred st) /\ (step st <> 0%nat -> good (cor st)).

(* a valid likelihood vector has one entry per particle *)
Definition wf_ev (ev : event) : Prop :=
  match ev_lik ev with Some l => length l = N /\ Forall (fun x => 0 <= x) l | None => True end.

Lemma mapi_from_length {A B} (f : nat -> A -> B) i l : length (mapi_from f i l) = length l.
Proof. revert i; induction l; intro i; simpl; auto. Qed.

Lemma add_logs_length (lw args : list R) :
  length lw = length args -> length (add_logs ROps lw args) = length lw.
Proof. revert args; induction lw; destruct args; simpl; intro H; try congruence. f_equal. apply IHlw. lia. Qed.

Lemma add_logs_nth (lw args : list R) i :
  length lw = length args -> (i < length lw)%nat ->
  nth i (add_logs ROps lw args) 0 = nth i lw 0 + ln (nth i args 0).
Proof.
  revert args i; induction lw as [|w lw IH]; destruct args as [|a args]; intros i H Hi; simpl in *; try lia.
  destruct i; [reflexivity|]. apply IH; lia.
Qed.

Lemma nonempty_of_length {A} (l : list A) : length l = N -> l <> [].
Proof. intros H E. rewrite E in H. simpl in H. lia. Qed.

Lemma good_predict ev (prev pr : sset) : good prev -> wf_set pr -> good (predict ev prev pr).
Proof.
  intros [[P1 [P2 [P3 P4]]] Pn] [Q1 [Q2 [Q3 Q4]]]. unfold predict. destruct (ev_skip_pred ev).
  - repeat split; auto.
  - repeat split; simpl; auto. rewrite combine_length, mapi_from_length, !map_length, P1, Q1. apply Nat.min_id.
Qed.

Lemma wf_correct ev (pr : sset) : wf_ev ev -> wf_set pr -> wf_set (correct ev pr).
Proof.
  intros Hev [Q1 [Q2 [Q3 Q4]]]. unfold correct, wf_ev in *. destruct (ev_skip_corr ev); [repeat split; auto|].
  destruct (ev_lik ev) as [l|]; [|repeat split; auto]. destruct Hev as [Hev _].
  repeat split; simpl; auto. rewrite add_logs_length; auto. unfold lik_args. rewrite map_length.
  transitivity N; [exact Q2 | symmetry; exact Hev].
Qed.

Lemma good_normalise (c : sset) : wf_set c -> good (normalise c).
Proof.
  intros [Q1 [Q2 [Q3 Q4]]]. split.
  - unfold normalise. repeat split; cbn [s_parts s_lw s_lin s_circ]; auto. rewrite lse_normalise_length; auto.
  - unfold normalised, normalise. cbn [s_lw]. apply lse_normalised_zero. apply nonempty_of_length; auto.
Qed.

Lemma sumR_repeat c n : sumR (repeat c n) = INR n * c.
Proof. induction n; [simpl; lra|]. rewrite S_INR. simpl repeat. simpl sumR. rewrite IHn. ring. Qed.

Lemma map_repeat {A B} (f : A -> B) c n : map f (repeat c n) = repeat (f c) n.
Proof. induction n; simpl; congruence. Qed.

Lemma lse_uniform n : (0 < n)%nat -> lse ROps (repeat (- ln (INR n)) n) = 0.
Proof.
  intro H. assert (Hn : 0 < INR n) by (apply lt_0_INR; auto).
  rewrite lse_spec by (destruct n; [lia | simpl; congruence]).
  rewrite map_repeat, sumR_repeat, exp_Ropp, exp_ln by auto.
  replace (INR n * / INR n) with 1 by (field; lra). apply ln_1.
Qed.

Lemma resampled_lw (c : sset) u1 : wf_set c ->
  s_lw (resampled c u1) = repeat (- ln (INR N)) N.
Proof.
  intros [Q1 [Q2 _]]. unfold resampled.
  pose proof (uniform_weights_statement (s_parts c) (s_lw c) u1) as H.
  assert (E : length (s_lw c : list R) = N) by exact Q2. rewrite E in H.
  destruct (resample (s_parts c) (s_lw c) u1) as [[out w] par]. exact H.
Qed.

Lemma good_resampled (c : sset) u1 : wf_set c -> good (resampled c u1).
Proof.
  intro W. pose proof (resampled_lw c u1 W) as Hw. destruct W as [Q1 [Q2 [Q3 Q4]]].
  split.
  - pose proof (resample_lengths ROps (s_parts c) (s_lw c) u1 (nonempty_of_length _ Q1)) as L.
    unfold resampled in *. destruct (resample (s_parts c) (s_lw c) u1) as [[out w] par].
    destruct L as [L1 [L2 L3]]. repeat split; simpl in *; auto; lia.
  - unfold normalised. rewrite Hw. apply lse_uniform; auto.
Qed.

Lemma resampled_layout (c : sset) u1 : s_lin (resampled c u1) = s_lin c /\ s_circ (resampled c u1) = s_circ c.
Proof. unfold resampled. destruct (resample (s_parts c) (s_lw c) u1) as [[out w] par]. split; reflexivity. Qed.

Lemma good_mid st ev : PreInv st -> wf_ev ev ->
  good (pred (sis_mid st ev)) /\ good (cor (sis_mid st ev)).
Proof.
  intros [Hp Hc] Hev. unfold sis_mid. cbn [pred cor].
  set (pr := if Nat.eqb (step st) 0 then pred st else predict ev (cor st) (pred st)).
  assert (G : good pr).
  { unfold pr. destruct (Nat.eqb (step st) 0) eqn:E; auto.
    apply Nat.eqb_neq in E. apply good_predict; [apply Hc; auto | apply Hp]. }
  split; auto. destruct (ev_freeze ev); auto.
  apply good_normalise, wf_correct; [auto | apply G].
Qed.

Lemma step_inv st ev : PreInv st -> wf_ev ev -> Inv (sis_step N st ev).
Proof.
  intros HP Hev. destruct (good_mid st ev HP Hev) as [G1 G2]. unfold sis_step, Inv. cbn [pred cor].
  split; auto. destruct (needs_resampling N (cor (sis_mid st ev))); auto.
  apply good_resampled. apply G2.
Qed.

Lemma Inv_PreInv st : Inv st -> PreInv st.
Proof. intros [A B]. split; auto. Qed.

(* every state of the trace of every history satisfies the invariant *)
Lemma trace_inv evs : forall st, PreInv st -> Forall wf_ev evs -> Forall Inv (sis_trace N st evs).
Proof.
  induction evs as [|ev evs IH]; intros st HP Hev; simpl; [constructor|].
  inversion Hev; subst. pose proof (step_inv st ev HP H1) as HI.
  constructor; auto. apply IH; auto. apply Inv_PreInv; auto.
Qed.

Lemma run_inv evs : forall st, PreInv st -> Forall wf_ev evs -> evs <> [] -> Inv (sis_run N st evs).
Proof.
  induction evs as [|ev evs IH]; intros st HP Hev Hne; [congruence|].
  inversion Hev; subst. unfold sis_run. simpl. pose proof (step_inv st ev HP H1) as HI.
  destruct evs as [|ev' evs']; [exact HI|]. apply IH; auto; [apply Inv_PreInv; auto | congruence].
Qed.

Lemma run_step (evs : list event) : forall st : sis_state, step (sis_run N st evs) = (step st + length evs)%nat.
Proof.
  induction evs; intro st; unfold sis_run in *; simpl; [lia|]. rewrite IHevs. simpl. lia.
Qed.

(* statements in the form used by Properties_C06.v: an initial state is one whose step counter is 0 and
   whose predicted set (filled by the initialisation) has N normalised particles of layout (dl, dc) *)
Lemma init_preinv (st0 : sis_state) : step st0 = 0%nat -> good (pred st0) -> PreInv st0.
Proof. intros H G. split; auto. intro Hn. congruence. Qed.

Lemma trace_inv_statement (evs : list event) (st0 : sis_state) :
  step st0 = 0%nat -> good (pred st0) -> Forall wf_ev evs -> Forall Inv (sis_trace N st0 evs).
Proof. intros H G Hev. apply trace_inv; auto. apply init_preinv; auto. Qed.

Lemma run_inv_statement (evs : list event) (st0 : sis_state) :
  step st0 = 0%nat -> good (pred st0) -> Forall wf_ev evs -> evs <> [] ->
  Inv (sis_run N st0 evs) /\ step (sis_run N st0 evs) = length evs.
Proof.
  intros H G Hev Hne. split; [apply run_inv; auto; apply init_preinv; auto|].
  rewrite run_step, H. reflexivity.
Qed.

(* ---- arguments of ln ---- *)
Definition lse_arg (l : list R) : R :=
  match l with [] => 0 | x0 :: r => sumR (map (fun a => exp (a - smaxl ROps x0 r)) l) end.

Lemma lse_unfold (l : list R) : l <> [] ->
  exists mx, lse ROps l = mx + ln (lse_arg l) /\ 0 < lse_arg l.
Proof.
  destruct l as [|x0 r]; [congruence|]. intros _. exists (smaxl ROps x0 r). split.
  - unfold lse, lse_arg, ssum. change (s0 ROps) with 0. change (sadd ROps) with Rplus. change (sln ROps) with ln.
    rewrite fold_left_Rplus, Rplus_0_l. reflexivity.
  - unfold lse_arg. apply sumR_pos; [simpl; congruence|].
    intros a Ha. apply in_map_iff in Ha. destruct Ha as [b [<- _]]. apply exp_pos.
Qed.

Lemma lik_args_pos (l : list R) : Forall (fun x => 0 <= x) l -> Forall (fun x => 0 < x) (lik_args ROps l).
Proof.
  intro H. unfold lik_args. apply Forall_map. eapply Forall_impl; [|exact H].
  intros a Ha. change (0 < a + Rtiny). pose proof Rtiny_pos. lra.
Qed.

Lemma ln_args_statement :
  (forall l, Forall (fun x => 0 <= x) l -> Forall (fun x => 0 < x) (lik_args ROps l)) /\
  (forall l, l <> [] -> exists mx, lse ROps l = mx + ln (lse_arg l) /\ 0 < lse_arg l) /\
  (log_uniform ROps N = - ln (INR N) /\ 0 < INR N).
Proof.
  split; [exact lik_args_pos|]. split; [exact lse_unfold|]. split.
  - unfold log_uniform. rewrite (sofnat_R exp). reflexivity.
  - apply lt_0_INR; auto.
Qed.

(* ---- re-weighting formula ---- *)
Lemma map_exp_add_logs (lw l : list R) :
  length lw = length l -> Forall (fun x => 0 <= x) l ->
  map exp (add_logs ROps lw (lik_args ROps l)) = map (fun p => exp (fst p) * (snd p + Rtiny)) (combine lw l).
Proof.
  revert l; induction lw as [|w lw IH]; destruct l as [|a l]; intros H Hp; simpl in *; try congruence; auto.
  inversion Hp; subst. f_equal; [|apply IH; auto].
  change (exp (w + ln (a + Rtiny)) = exp w * (a + Rtiny)). pose proof Rtiny_pos.
  rewrite exp_plus, exp_ln by lra. reflexivity.
Qed.

Lemma lt_of_len {A} (l : list A) i : length l = N -> (i < N)%nat -> (i < length l)%nat.
Proof. intros H Hi. rewrite H. exact Hi. Qed.

Lemma lik_args_nth (l : list R) i : (i < length l)%nat -> nth i (lik_args ROps l) 0 = nth i l 0 + Rtiny.
Proof.
  revert i; induction l as [|a l IH]; intros i H; simpl in H; [lia|]. destruct i; [reflexivity|].
  simpl. apply IH. lia.
Qed.

Lemma reweight_core (lwp l : list R) i :
  length lwp = N -> length l = N -> Forall (fun x => 0 <= x) l -> (i < N)%nat ->
  exp (nth i (lse_normalise ROps (add_logs ROps lwp (lik_args ROps l))) 0)
  = exp (nth i lwp 0) * (nth i l 0 + Rtiny) / sumR (map (fun p => exp (fst p) * (snd p + Rtiny)) (combine lwp l)).
Proof.
  intros Hw Hlen Hpos Hi.
  assert (La : length (lik_args ROps l) = N) by (unfold lik_args; rewrite map_length; exact Hlen).
  assert (Hwl : length lwp = length (lik_args ROps l)) by (transitivity N; [exact Hw | symmetry; exact La]).
  set (v := add_logs ROps lwp (lik_args ROps l)).
  assert (Lv : length v = N) by exact (eq_trans (add_logs_length lwp (lik_args ROps l) Hwl) Hw).
  assert (Hne : v <> []) by (apply nonempty_of_length; auto).
  unfold lse_normalise. rewrite lse_spec by auto.
  set (z := ln (sumR (map exp v))).
  change (map (fun x : T ROps => ssub ROps x z) v) with (map (fun x : R => x - z) v).
  set (f := fun x : R => x - z).
  rewrite (nth_indep (map f v) 0 (f 0)) by (rewrite map_length; apply lt_of_len; [exact Lv | exact Hi]).
  rewrite (map_nth f v 0 i). unfold f, z.
  pose proof (sum_exp_pos v Hne) as Sp.
  unfold Rminus. rewrite exp_plus, exp_Ropp, exp_ln by auto.
  replace (@nth R i v 0) with (nth i lwp 0 + ln (@nth R i (lik_args ROps l) 0))
    by (symmetry; exact (add_logs_nth lwp (lik_args ROps l) i Hwl (lt_of_len lwp i Hw Hi))).
  replace (@nth R i (lik_args ROps l) 0) with (nth i l 0 + Rtiny)
    by (symmetry; exact (lik_args_nth l i (lt_of_len l i Hlen Hi))).
  assert (0 <= nth i l 0).
  { rewrite Forall_forall in Hpos. apply Hpos. apply nth_In. apply lt_of_len; [exact Hlen | exact Hi]. }
  pose proof Rtiny_pos. rewrite exp_plus, exp_ln by lra.
  unfold v. rewrite map_exp_add_logs; [reflexivity | transitivity N; [exact Hw | symmetry; exact Hlen] | exact Hpos].
Qed.

Lemma reweight (st : sis_state) (ev : event) (l : list R) :
  ev_freeze ev = true -> ev_skip_corr ev = false -> ev_lik ev = Some l ->
  length l = N -> Forall (fun x => 0 <= x) l -> length (s_lw (pred (sis_mid st ev))) = N ->
  forall i, (i < N)%nat ->
  let lwp := s_lw (pred (sis_mid st ev)) in
  exp (nth i (s_lw (cor (sis_mid st ev))) 0)
  = exp (nth i lwp 0) * (nth i l 0 + Rtiny) / sumR (map (fun p => exp (fst p) * (snd p + Rtiny)) (combine lwp l)).
Proof.
  intros Hf Hs Hl Hlen Hpos Hw i Hi lwp.
  assert (E : s_lw (cor (sis_mid st ev)) = lse_normalise ROps (add_logs ROps lwp (lik_args ROps l))).
  { unfold lwp, sis_mid. cbn [pred cor]. rewrite Hf. unfold correct. rewrite Hs, Hl. reflexivity. }
  rewrite E. exact (reweight_core lwp l i Hw Hlen Hpos Hi).
Qed.

Lemma no_measurement (st : sis_state) (ev : event) : ev_freeze ev = false -> cor (sis_mid st ev) = pred (sis_mid st ev).
Proof. intro H. unfold sis_mid. simpl. rewrite H. reflexivity. Qed.

Lemma INR3 : INR 3 = 3. Proof. simpl. lra. Qed.

Lemma resample_iff (st : sis_state) (ev : event) :
  let m := sis_mid st ev in
  (needs_resampling N (cor m) = true <-> neff ROps (s_lw (cor m)) < INR N / 3) /\
  (needs_resampling N (cor m) = true ->
     cor (sis_step N st ev) = resampled (cor m) (ev_u1 ev) /\
     (wf_set (cor m) -> s_lw (cor (sis_step N st ev)) = repeat (- ln (INR N)) N)) /\
  (needs_resampling N (cor m) = false -> cor (sis_step N st ev) = cor m) /\
  pred (sis_step N st ev) = pred m /\ step (sis_step N st ev) = Datatypes.S (step st).
Proof.
  intro m. split; [|split; [|split]].
  - unfold needs_resampling. change (sltb ROps) with Rltb. change (sdiv ROps) with Rdiv.
    rewrite !(sofnat_R exp), INR3. apply Rltb_true.
  - intro H. unfold sis_step. fold m. cbn [cor]. rewrite H. split; auto. intro W. apply resampled_lw; auto.
  - intro H. unfold sis_step. fold m. cbn [cor]. rewrite H. reflexivity.
  - split; reflexivity.
Qed.


(* ---- what the driver runs is sis_trace ---- *)
Lemma trace_full_bridge (evs : list event) : forall st : sis_state,
  map snd (sis_trace_full N st evs) = sis_trace N st evs.
Proof. induction evs as [|ev evs IH]; intro st; simpl; [reflexivity|]. f_equal. apply IH. Qed.

Lemma trace_full_components (evs : list event) : forall (st : sis_state) k m b st',
  nth_error (sis_trace_full N st evs) k = Some (m, b, st') ->
  exists st0 ev, m = cor (sis_mid st0 ev) /\ b = needs_resampling N m /\ st' = sis_step N st0 ev.
Proof.
  induction evs as [|ev evs IH]; intros st k m b st' H; [destruct k; discriminate|].
  destruct k; simpl in H.
  - inversion H; subst. exists st, ev. repeat split.
  - eapply IH; eauto.
Qed.

(* ---- the other two ways of having no usable measurement ---- *)
Lemma lse_normalise_id (l : list R) : lse ROps l = 0 -> lse_normalise ROps l = l.
Proof.
  intro H. unfold lse_normalise. rewrite H. rewrite <- (map_id l) at 2. apply map_ext. intro a.
  change (a - 0 = a). lra.
Qed.

Lemma no_usable_likelihood (st : sis_state) (ev : event) :
  ev_freeze ev = true -> (ev_skip_corr ev = true \/ ev_lik ev = None) ->
  normalised (pred (sis_mid st ev)) -> cor (sis_mid st ev) = pred (sis_mid st ev).
Proof.
  intros Hf Hs Hn. unfold sis_mid in *. cbn [pred cor] in *. rewrite Hf.
  set (pr := if Nat.eqb (step st) 0 then pred st else predict ev (cor st) (pred st)) in *.
  assert (E : correct ev pr = pr).
  { unfold correct. destruct Hs as [Hs|Hs]; rewrite Hs; [reflexivity|]. destruct (ev_skip_corr ev); reflexivity. }
  rewrite E. unfold normalise. rewrite (lse_normalise_id (s_lw pr) Hn). destruct pr; reflexivity.
Qed.

(* ---- after every step no resampling is pending: neff >= N/3 ---- *)
Lemma neff_uniform n : (0 < n)%nat -> (neff ROps (repeat (- ln (INR n)) n) : R) = INR n.
Proof.
  intro H. assert (Hn : 0 < INR n) by (apply lt_0_INR; auto).
  rewrite (neff_formula exp). rewrite map_repeat, sumR_repeat.
  replace (exp (- ln (INR n))) with (/ INR n) by (rewrite exp_Ropp, exp_ln; auto).
  field. lra.
Qed.

Definition settled (c : sset) : Prop := needs_resampling N c = false.

Lemma needs_resampling_lw (c c' : sset) : s_lw c = s_lw c' -> needs_resampling N c = needs_resampling N c'.
Proof. intro H. unfold needs_resampling. rewrite H. reflexivity. Qed.

Lemma settled_after_step (st : sis_state) (ev : event) :
  wf_set (cor (sis_mid st ev)) -> settled (cor (sis_step N st ev)).
Proof.
  intro W. unfold settled, sis_step. cbn [cor].
  destruct (needs_resampling N (cor (sis_mid st ev))) eqn:E; [|exact E].
  unfold needs_resampling. rewrite (resampled_lw _ _ W), neff_uniform by auto.
  change (sltb ROps) with Rltb. change (sdiv ROps) with Rdiv. rewrite !(sofnat_R exp), INR3.
  apply Rltb_false. assert (0 < INR N) by (apply lt_0_INR; auto). lra.
Qed.

(* end-of-step statement: from the second step on, a failed acquisition leaves cor = pred at the END of the step
   (no resampling can be triggered by the copied set, because none was pending after the previous step) *)
Lemma no_measurement_end_of_step (st : sis_state) (ev : event) :
  step st <> 0%nat -> settled (cor st) -> ev_freeze ev = false ->
  cor (sis_step N st ev) = pred (sis_step N st ev).
Proof.
  intros Hs Hset Hf. unfold sis_step. cbn [cor pred].
  rewrite (no_measurement st ev Hf).
  assert (E : needs_resampling N (pred (sis_mid st ev)) = false).
  { unfold sis_mid. cbn [pred]. apply Nat.eqb_neq in Hs. rewrite Hs.
    rewrite <- Hset. apply needs_resampling_lw. unfold predict. destruct (ev_skip_pred ev); reflexivity. }
  rewrite E. reflexivity.
Qed.

(* ---- positivity at the ln and division sites of one step ---- *)
Lemma sum_sq_pos (l : list R) : l <> [] -> 0 < sumR (map (fun x => exp x * exp x) l).
Proof.
  intro H. apply sumR_pos; [destruct l; simpl; congruence|].
  intros a Ha. apply in_map_iff in Ha. destruct Ha as [b [<- _]]. pose proof (exp_pos b). nra.
Qed.

Lemma step_sites_positive (st : sis_state) (ev : event) :
  PreInv st -> wf_ev ev ->
  (* ln (lik + tiny) *)
  (forall l, ev_lik ev = Some l -> Forall (fun x => 0 < x) (lik_args ROps l)) /\
  (* ln inside log_sum_exp of the re-weighted set *)
  (0 < lse_arg (s_lw (correct ev (pred (sis_mid st ev))))) /\
  (* 1 / sum (exp lw)^2 in neff *)
  (0 < sumR (map (fun x => exp x * exp x) (s_lw (cor (sis_mid st ev))))) /\
  (* ln N *)
  0 < INR N.
Proof.
  intros HP Hev. destruct (good_mid st ev HP Hev) as [[Wp _] [Wc _]].
  split; [|split; [|split]].
  - intros l Hl. unfold wf_ev in Hev. rewrite Hl in Hev. apply lik_args_pos. apply Hev.
  - assert (W : wf_set (correct ev (pred (sis_mid st ev)))) by (apply wf_correct; auto).
    destruct W as [_ [W2 _]]. destruct (lse_unfold _ (nonempty_of_length _ W2)) as [mx [_ Hpos]]. exact Hpos.
  - destruct Wc as [_ [W2 _]]. apply sum_sq_pos. apply (nonempty_of_length _ W2).
  - apply lt_0_INR; auto.
Qed.

End SIS.

(* ------------------------------------------------------------------ *)
(* Regression specification: SIS::filtering_step before /repo commit 356425a
   built the resampled set as ParticleSet(num_particle_, state_size_), i.e. with
   every component linear.  Not part of any property theorem. *)
Section Regress.
Variables St Aux : Type.
Definition resampled_old (c : @sset ROps St Aux) (u1 : R) : @sset ROps St Aux :=
  let '(out, w, par) := resample (s_parts c) (s_lw c) u1 in
  mkSset (s_lin c + s_circ c) 0 out w.

Lemma old_resampling_loses_layout (c : @sset ROps St Aux) u1 :
  s_circ c <> 0%nat -> s_circ (resampled_old c u1) <> s_circ c /\ s_lin (resampled_old c u1) <> s_lin c.
Proof.
  intro H. unfold resampled_old. destruct (resample (s_parts c) (s_lw c) u1) as [[out w] par]. simpl. lia.
Qed.
End Regress.
