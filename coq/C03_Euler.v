(* C03_Euler.v — whole-layout exactness of the unscented transform for layouts with linear rows,
   Euler-angle (circular) rows and an appended noise block, at the real matrix instance RF
   (C03_RFun.v), on top of C19's circle theory.
   Setting: input layout (lin, circ Euler angles, noise rows), output layout (olin, ocirc Euler
   angles); the propagated function is the one the correspondence harness runs, column by column
   x -> Am x + b in STORAGE coordinates, where
     - a linear output row does not read the circular input rows       (map_lin_structure)
     - a circular output row reads circular input rows with INTEGER coefficients (identity,
       permutation, differences of angles ...: a rotation / offset of the circle) (map_circ_structure)
   and reads linear and noise rows with arbitrary real coefficients.
   Smallness (small_spread), per component, in terms of the factor A = sq P the oracle returned:
     every sigma offset sqrt(c) A_jk on a circular input row and every propagated offset
     sqrt(c) (Am A)_ik on a circular output row is within a half turn (absolute value < PI), and
     the weighted resultant w0 + 2 wi sum_k cos(sqrt(c) (Am A)_ik) of each circular output row is
     positive (w0 < 0 for small alpha).  C03_Spread.v derives all three from bounds on the
     covariance alone.
   Result: mean = Am m + b (exactly on linear rows, arg(exp(j .)) of it on circular rows),
   covariance = Am P Am^T (+ N), cross-covariance = the non-noise rows of P Am^T, for every
   component of the mixture and all five overloads.
   Axioms: the four standard axioms of Coq's Reals. *)
Require Import ZArith Reals Lra Lia List Bool Arith.
Require Import BFL.Ops BFL.C03_Model BFL.C19_ROps BFL.C19_Model BFL.C19_Proofs BFL.C03_Real BFL.C03_RFun.
Import ListNotations.
Local Open Scope R_scope.

(* ------------------------------------------------------------------ congruence helpers *)
Lemma cong2pi_eq_l a a' y : a = a' -> cong2pi a y -> cong2pi a' y.
Proof. now intros ->. Qed.

Lemma rsum_cong2pi n f g : (forall k, (k < n)%nat -> cong2pi (g k) (f k)) -> cong2pi (rsum n g) (rsum n f).
Proof.
  induction n as [|n IH]; intros H; simpl; [apply cong2pi_refl|].
  apply cong2pi_plus; [apply IH; intros; apply H; lia | apply H; lia].
Qed.

Lemma cong2pi_int_mult (z : Z) x y : cong2pi x y -> cong2pi (IZR z * x) (IZR z * y).
Proof. intros [k ->]. exists (z * k)%Z. rewrite mult_IZR. ring. Qed.

Lemma Rabs_in_range x : Rabs x < PI -> in_range x /\ in_range (- x).
Proof. intros H. apply Rabs_def2 in H. unfold in_range. lra. Qed.

Lemma Forall2_len {A B} (R : A -> B -> Prop) l l' : Forall2 R l l' -> length l = length l'.
Proof. induction 1; simpl; congruence. Qed.

Lemma Forall2_map_seq {A B} (R : A -> B -> Prop) (f : nat -> A) (g : nat -> B) n :
  (forall k, (k < n)%nat -> R (f k) (g k)) -> Forall2 R (map f (seq 0 n)) (map g (seq 0 n)).
Proof.
  intros H. assert (G : forall a, (forall k, (a <= k < a + n)%nat -> R (f k) (g k)) ->
                              Forall2 R (map f (seq a n)) (map g (seq a n))).
  { clear H. induction n as [|n IH]; intros a H; simpl; constructor; [apply H; lia | apply IH; intros; apply H; lia]. }
  apply G. intros; apply H; lia.
Qed.

Lemma fold_right_lsumR {A} (f : A -> R) l : fold_right (fun p acc => f p + acc) 0 l = lsumR f l.
Proof. induction l; simpl; [reflexivity|]. now rewrite IHl. Qed.

(* the scalar circle helpers depend on the matrix instance only through its scalars *)
Section ScalarBridge.
Variables sq eg : nat -> fmx -> fmx.
Notation O := (RF sq eg).
Lemma wrapF x : C03_Model.wrap (O:=O) x = C19_Model.wrap ROps x.
Proof. exact (wrap_is_C19 x). Qed.
Lemma dir_addF a b : C03_Model.dir_add (O:=O) a b = C19_Model.wrap ROps (a + b).
Proof. exact (dir_add_is_wrap a b). Qed.
Lemma dir_subF a b : C03_Model.dir_sub (O:=O) a b = C19_Model.wrap ROps (a - b).
Proof. exact (dir_sub_is_wrap a b). Qed.
End ScalarBridge.

(* ------------------------------------------------------------------ one circular row, samples given up to
   full turns: xs_k = mu + pert_k (mod 2 pi) with perts = 0, +p_1 .. +p_n, -p_1 .. -p_n *)
Section CircularRowGen.
Variables (mu w0 wi : R) (ps xs : list R).
Let perts := 0 :: ps ++ map Ropp ps.
Let ws := w0 :: repeat wi (length ps + length ps).
Hypothesis xs_cong : Forall2 cong2pi (map (fun p => p + mu) perts) xs.
Hypothesis ps_nonempty : ps <> [].
Hypothesis resultant_pos : 0 < w0 + 2 * wi * fold_right (fun p acc => cos p + acc) 0 ps.

Lemma circular_row_mean_gen : C03_Model.dir_mean (O:=RM) ws xs = C19_Model.wrap ROps mu.
Proof.
  assert (Hx : exists a b l, xs = a :: b :: l).
  { pose proof (Forall2_len _ _ _ xs_cong) as HL. rewrite map_length in HL. unfold perts in HL.
    destruct ps as [|p l]; [contradiction|]. simpl in HL.
    destruct xs as [|a [|b l']]; simpl in HL; try discriminate. eauto. }
  destruct Hx as (a & b & l & Hx).
  assert (E : C03_Model.dir_mean (O:=RM) ws xs = mean_row ROps xs ws) by (rewrite Hx; apply dir_mean_is_C19).
  rewrite E. clear E a b l Hx.
  rewrite (mean_row_shift _ _ ws xs_cong).
  pose proof (perts_cos w0 wi ps) as Pc. pose proof (perts_sin w0 wi ps) as Ps. fold perts ws in Pc, Ps.
  assert (Hnz : wsumf cos perts ws <> 0 \/ wsumf sin perts ws <> 0) by (left; rewrite Pc; lra).
  pose proof (mean_row_rotation perts ws mu Hnz) as Hrot.
  assert (H0 : mean_row ROps perts ws = 0).
  { rewrite mean_row_R, Ps, Pc.
    set (rho := w0 + _) in *.
    replace 0 with (rho * 0) at 1 by lra. replace rho with (rho * 1) at 2 by lra.
    rewrite atan2_scale by assumption.
    rewrite <- sin_0 at 1. rewrite <- cos_0.
    destruct (atan2_sin_cos 0) as [Hr Hc].
    symmetry. apply in_range_cong_eq; [|assumption|assumption].
    unfold in_range. pose proof PI_RGT_0. lra. }
  rewrite H0, Rplus_0_l in Hrot.
  set (mv := mean_row ROps (map (fun x => x + mu) perts) ws) in *.
  assert (Hmv : in_range mv).
  { unfold mv. rewrite mean_row_R. apply atan2_polar.
    rewrite wsumf_cos_rot, wsumf_sin_rot, Ps, Pc.
    set (rho := w0 + _) in *.
    destruct (Req_dec (cos mu) 0) as [Hc|Hc].
    - right. assert (sin mu <> 0) by (intros Hs; pose proof (sin2_cos2 mu) as E; unfold Rsqr in E; rewrite Hc, Hs in E; lra).
      nra.
    - left. nra. }
  apply in_range_cong_eq; [assumption | apply wrap_range |].
  eapply cong2pi_trans; [apply cong2pi_sym; exact Hrot | apply wrap_congruent].
Qed.
End CircularRowGen.

(* directional_sub of a sample congruent to mu + p from arg(exp(j mu)) is p, for p within a half turn *)
Lemma dir_sub_recover mu p x : cong2pi (mu + p) x -> in_range p ->
  C19_Model.wrap ROps (x - C19_Model.wrap ROps mu) = p.
Proof.
  intros Hx Hp. transitivity (C19_Model.wrap ROps p); [|apply wrap_id; exact Hp]. apply wrap_cong.
  replace p with ((mu + p) + - mu) by lra. unfold Rminus.
  apply cong2pi_plus; [assumption | apply cong2pi_opp, wrap_congruent].
Qed.

(* ------------------------------------------------------------------ weights at the real instance *)
Lemma nth_0_repeat_2n (x d : R) n : (0 < n)%nat -> nth 0 (repeat x (2 * n)) d = x.
Proof. intros H. destruct n as [|n']; [lia|]. replace (2 * Datatypes.S n')%nat with (Datatypes.S (n' + Datatypes.S n')) by lia. reflexivity. Qed.

Section WeightsR.
Variables sq eg : nat -> fmx -> fmx.
Notation O := (RF sq eg).
Variables (n : nat) (alpha beta kappa : R).
Let lam := alpha * alpha * (INR n + kappa) - INR n.
Let c := INR n + lam.

Lemma sofnat_R k : sofnat ROps k = INR k.
Proof. unfold sofnat. simpl. symmetry. apply INR_IZR_INZ. Qed.

Lemma ut_weights_R :
  ut_weights (O:=O) n alpha beta kappa =
  mkUtw (O:=O) (lam / c :: repeat (1 / (2 * c)) (2 * n))
        (lam / c + (1 - alpha * alpha + beta) :: repeat (1 / (2 * c)) (2 * n)) c.
Proof.
  unfold ut_weights, ut_lambda. change (sc O) with ROps. rewrite !sofnat_R. unfold s2. simpl.
  replace (1 + 1) with 2 by lra. reflexivity.
Qed.

Lemma ut_weights_R_c : w_c (ut_weights (O:=O) n alpha beta kappa) = alpha * alpha * (INR n + kappa).
Proof. rewrite ut_weights_R. simpl. unfold c, lam. ring. Qed.

Lemma ut_weights_R_facts : c <> 0 ->
  lam / c + 2 * INR n * (1 / (2 * c)) = 1 /\ 2 * (1 / (2 * c)) * c = 1.
Proof. intros Hc. split; [unfold c at 1 2; field; exact Hc | field; exact Hc]. Qed.
Lemma ut_weights_R_form : (0 < n)%nat ->
  let w := ut_weights (O:=O) n alpha beta kappa in
  w = mkUtw (O:=O) (nth 0 (w_mean w) 0 :: repeat (nth 1 (w_mean w) 0) (2 * n))
            (nth 0 (w_cov w) 0 :: repeat (nth 1 (w_mean w) 0) (2 * n)) (w_c w).
Proof.
  intros Hn. cbv zeta. rewrite ut_weights_R. cbn [w_mean w_cov w_c nth].
  destruct n as [|n']; [lia|]. replace (2 * Datatypes.S n')%nat with (Datatypes.S (n' + Datatypes.S n')) by lia.
  reflexivity.
Qed.

Lemma ut_weights_R_sums : (0 < n)%nat ->
  let w := ut_weights (O:=O) n alpha beta kappa in
  w_c w <> 0 ->
  nth 0 (w_mean w) 0 + 2 * INR n * nth 1 (w_mean w) 0 = 1 /\ 2 * nth 1 (w_mean w) 0 * w_c w = 1.
Proof.
  intros Hn. cbv zeta. rewrite ut_weights_R. cbn [w_mean w_cov w_c nth].
  change (T (sc O)) with R. rewrite (nth_0_repeat_2n _ _ n Hn). apply ut_weights_R_facts.
Qed.
End WeightsR.

(* ------------------------------------------------------------------ one component *)
Section EulerComponent.
Variables sq eg : nat -> fmx -> fmx.
Notation O := (RF sq eg).
Variables lin circ noise olin ocirc : nat.
Let Lin := mkLayout lin circ false noise.
Let Lout := mkLayout olin ocirc false 0.
(* storage / covariance / non-noise rows of the input, rows of the output *)
Variables d dc dx p pc : nat.
Hypothesis Hd : d = (lin + circ + noise)%nat.
Hypothesis Hdc : dc = d.
Hypothesis Hdx : dx = (lin + circ)%nat.
Hypothesis Hp : p = (olin + ocirc)%nat.
Hypothesis Hpc : pc = p.

Definition circ_row (l c i : nat) : bool := (l <=? i)%nat && (i <? l + c)%nat.
Notation cin := (circ_row lin circ).
Notation cout := (circ_row olin ocirc).

Variables (c : R) (m P : fmx) (Am b : fmx).
Let s := sqrt c.
Let A := sq dc P.
Hypothesis c_pos : 0 < c.
(* the oracle's factor: A A^T = P on the dc x dc block *)
Hypothesis factor_ok : forall a b', (a < dc)%nat -> (b' < dc)%nat -> rsum dc (fun k => A a k * A b' k) = P a b'.

(* structure of the map *)
Hypothesis map_lin_structure : forall i j, (i < olin)%nat -> cin j = true -> Am i j = 0.
Hypothesis map_circ_structure : forall i j, cout i = true -> cin j = true -> exists z : Z, Am i j = IZR z.

(* (Am A)_ik *)
Definition AmA (i k : nat) : R := rsum d (fun j => Am i j * A j k).
(* smallness *)
Hypothesis small_in : forall j k, cin j = true -> (k < dc)%nat -> Rabs (s * A j k) < PI.
Hypothesis small_out : forall i k, cout i = true -> (k < dc)%nat -> Rabs (s * AmA i k) < PI.

Lemma s_sq : s * s = c.
Proof. unfold s. apply sqrt_sqrt. lra. Qed.

(* ---- sigma points: mean (+) tangent offset e *)
Definition is_sigma (e : nat -> R) (x : fmx) : Prop :=
  forall j, (j < d)%nat ->
    x j 0%nat = if cin j then C19_Model.wrap ROps (e j + m j 0%nat) else e j + m j 0%nat.

Lemma add_mean_sigma central (pt : fmx) :
  is_sigma (fun j => pt j 0%nat) (add_mean (O:=O) Lin d dc central m pt).
Proof.
  intros j Hj. unfold add_mean. change (@mbuild O d 1) with (fbuild d 1). unfold fbuild.
  rewrite inb_true by lia. unfold add_mean_row, colget. change (@mget O) with fget.
  change (l_lin Lin) with lin. change (l_circ Lin) with circ. change (l_noise Lin) with noise.
  change (l_quat Lin) with false. change (l_cw Lin) with 1%nat. cbv iota.
  unfold circ_row. unfold fget. rewrite !inb_true by lia.
  destruct (Nat.ltb_spec j lin) as [H1|H1].
  - replace (lin <=? j)%nat with false by (symmetry; apply Nat.leb_gt; lia). simpl. reflexivity.
  - replace (lin <=? j)%nat with true by (symmetry; apply Nat.leb_le; lia).
    replace (lin + circ * 1)%nat with (lin + circ)%nat by lia.
    destruct (Nat.ltb_spec j (lin + circ)) as [H2|H2]; simpl andb; cbv iota.
    + rewrite dir_addF. reflexivity.
    + replace (d - noise <=? j)%nat with true by (symmetry; apply Nat.leb_le; lia).
      replace (j - (d - dc))%nat with j by lia. reflexivity.
Qed.

Definition X0 : fmx := add_mean (O:=O) Lin d dc true m (@mzero O dc 1).
Definition Xp (k : nat) : fmx :=
  add_mean (O:=O) Lin d dc false m (@mcol O dc dc k (@mscale O dc dc (ssqrt ROps c) (@msqrt O dc P))).
Definition Xn (k : nat) : fmx :=
  add_mean (O:=O) Lin d dc false m (@mcol O dc dc k (@mscale O dc dc (sopp ROps (ssqrt ROps c)) (@msqrt O dc P))).

Lemma sigma_comp_eq :
  sigma_comp (O:=O) Lin d dc c m P = X0 :: (map Xp (seq 0 dc) ++ map Xn (seq 0 dc)).
Proof. unfold sigma_comp, perturbations. rewrite map_app, !map_map. reflexivity. Qed.

Lemma sigma_comp_len : length (sigma_comp (O:=O) Lin d dc c m P) = (2 * dc + 1)%nat.
Proof. rewrite sigma_comp_eq. simpl. rewrite app_length, !map_length, !seq_length. lia. Qed.

Lemma is_sigma_ext e e' x : (forall j, (j < d)%nat -> e j = e' j) -> is_sigma e x -> is_sigma e' x.
Proof. intros E H j Hj. rewrite (H j Hj), (E j Hj). reflexivity. Qed.

Lemma X0_sigma : is_sigma (fun _ => 0) X0.
Proof. apply (is_sigma_ext (fun j => @mzero O dc 1 j 0%nat)); [reflexivity | apply add_mean_sigma]. Qed.

Lemma Xp_sigma k : (k < dc)%nat -> is_sigma (fun j => s * A j k) (Xp k).
Proof.
  intros Hk. eapply is_sigma_ext; [|apply add_mean_sigma]. intros j Hj. cbv beta.
  pose proof (pert_get sq eg dc (ssqrt ROps c) (@msqrt O dc P) k j ltac:(lia) Hk) as E.
  unfold colget in E. change (@mget O dc 1) with (fget dc 1) in E. unfold fget in E.
  rewrite inb_true in E by lia. exact E.
Qed.

Lemma Xn_sigma k : (k < dc)%nat -> is_sigma (fun j => - (s * A j k)) (Xn k).
Proof.
  intros Hk. eapply is_sigma_ext; [|apply add_mean_sigma]. intros j Hj. cbv beta.
  pose proof (pert_get sq eg dc (sopp ROps (ssqrt ROps c)) (@msqrt O dc P) k j ltac:(lia) Hk) as E.
  unfold colget in E. change (@mget O dc 1) with (fget dc 1) in E. unfold fget in E.
  rewrite inb_true in E by lia. rewrite E. simpl. fold s. unfold A. simpl. ring.
Qed.

(* ---- the code's own difference operator recovers the offset on the non-noise rows *)
Lemma input_offset e x i : is_sigma e x -> (forall j, cin j = true -> in_range (e j)) -> (i < dx)%nat ->
  offsets (O:=O) Lin (p:=d) dx x m i 0%nat = e i.
Proof.
  intros Hx He Hi. unfold offsets. change (@mbuild O dx 1) with (fbuild dx 1). unfold fbuild.
  rewrite inb_true by lia. unfold offset_row, colget. change (@mget O) with fget.
  change (l_lin Lin) with lin. change (l_circ Lin) with circ. change (l_quat Lin) with false.
  change (l_tw Lin) with 1%nat. cbv iota. unfold fget. rewrite !inb_true by lia.
  rewrite (Hx i) by lia. unfold circ_row.
  destruct (Nat.ltb_spec i lin) as [H1|H1].
  - replace (lin <=? i)%nat with false by (symmetry; apply Nat.leb_gt; lia). simpl. ring.
  - replace (lin <=? i)%nat with true by (symmetry; apply Nat.leb_le; lia).
    replace (i <? lin + circ * 1)%nat with true by (symmetry; apply Nat.ltb_lt; lia).
    replace (i <? lin + circ)%nat with true by (symmetry; apply Nat.ltb_lt; lia). simpl andb. cbv iota.
    rewrite dir_subF.
    assert (Hc : cin i = true).
    { unfold circ_row. rewrite (proj2 (Nat.leb_le _ _) H1). apply andb_true_intro. split; [reflexivity|]. apply Nat.ltb_lt. lia. }
    rewrite <- (wrap_id (e i) (He i Hc)) at 2. apply wrap_cong.
    replace (e i) with ((e i + m i 0%nat) - m i 0%nat) at 1 by lra.
    apply cong2pi_plus; [apply wrap_congruent | apply cong2pi_refl].
Qed.

(* ---- one column through the map *)
Definition Yf (x : fmx) : fmx := @madd O p 1 (@mmul O p d 1 Am x) b.
Definition mu (i : nat) : R := rsum d (fun j => Am i j * m j 0%nat) + b i 0%nat.
Definition q (e : nat -> R) (i : nat) : R := rsum d (fun j => Am i j * e j).

Lemma Yf_get x i : (i < p)%nat -> Yf x i 0%nat = rsum d (fun j => Am i j * x j 0%nat) + b i 0%nat.
Proof.
  intros Hi. pose proof (affine_get sq eg d p Am b x i Hi) as E. unfold colget in E.
  change (@mget O p 1) with (fget p 1) in E. unfold fget in E. rewrite inb_true in E by lia. exact E.
Qed.

Lemma cin_cases j : cin j = true \/ cin j = false.
Proof. destruct (cin j); auto. Qed.

Lemma Y_lin e x i : is_sigma e x -> (i < olin)%nat -> Yf x i 0%nat = mu i + q e i.
Proof.
  intros Hx Hi. rewrite Yf_get by lia. unfold mu, q.
  rewrite (rsum_ext d (fun j => Am i j * x j 0%nat) (fun j => Am i j * m j 0%nat + Am i j * e j)).
  - rewrite rsum_plus. lra.
  - intros j Hj. rewrite (Hx j Hj). destruct (cin_cases j) as [Hc|Hc]; rewrite Hc.
    + rewrite (map_lin_structure i j Hi Hc). ring.
    + ring.
Qed.

Lemma cout_lt i : cout i = true -> (i < p)%nat /\ (olin <= i)%nat.
Proof.
  unfold circ_row. intros H. apply andb_prop in H. destruct H as [H1 H2].
  apply Nat.leb_le in H1. apply Nat.ltb_lt in H2. lia.
Qed.

Lemma Y_circ e x i : is_sigma e x -> cout i = true -> cong2pi (mu i + q e i) (Yf x i 0%nat).
Proof.
  intros Hx Hi. destruct (cout_lt i Hi) as [Hip _]. rewrite Yf_get by assumption. unfold mu, q.
  replace (rsum d (fun j => Am i j * m j 0%nat) + b i 0%nat + rsum d (fun j => Am i j * e j))
    with (rsum d (fun j => Am i j * (e j + m j 0%nat)) + b i 0%nat).
  2:{ rewrite (rsum_ext d (fun j => Am i j * (e j + m j 0%nat)) (fun j => Am i j * m j 0%nat + Am i j * e j)) by (intros; ring).
      rewrite rsum_plus. lra. }
  apply cong2pi_plus; [|apply cong2pi_refl].
  apply rsum_cong2pi. intros j Hj. rewrite (Hx j Hj).
  destruct (cin_cases j) as [Hc|Hc]; rewrite Hc; [|apply cong2pi_refl].
  destruct (map_circ_structure i j Hi Hc) as [z ->].
  apply cong2pi_int_mult, wrap_congruent.
Qed.

Lemma q_zero i : q (fun _ => 0) i = 0.
Proof. unfold q. transitivity (rsum d (fun _ => 0)); [apply rsum_ext; intros; ring | apply rsum_0]. Qed.
Lemma q_plus k i : q (fun j => s * A j k) i = s * AmA i k.
Proof. unfold q, AmA. rewrite <- rsum_scal. apply rsum_ext. intros; ring. Qed.
Lemma q_minus k i : q (fun j => - (s * A j k)) i = - (s * AmA i k).
Proof. unfold q, AmA. rewrite <- rsum_scal, <- rsum_opp. apply rsum_ext. intros; ring. Qed.

(* ---- weights of the symmetric set *)
Variables (w0 w0c wi : R).
Let wm := w0 :: repeat wi (2 * dc).
Let wc := w0c :: repeat wi (2 * dc).
Hypothesis w_sum : w0 + 2 * INR dc * wi = 1.
Hypothesis w_i : 2 * wi * c = 1.
Hypothesis dc_pos : (0 < dc)%nat.
(* positive weighted resultant of every circular output row *)
Hypothesis resultant_pos : forall i, cout i = true ->
  0 < w0 + 2 * wi * rsum dc (fun k => cos (s * AmA i k)).

Let Xs := sigma_comp (O:=O) Lin d dc c m P.
Let Ys := affine_cols (O:=O) (d:=d) (p:=p) Am b Xs.
Let ybar := out_mean (O:=O) Lout p wm Ys.

Lemma Ys_eq : Ys = map Yf Xs.
Proof. reflexivity. Qed.

(* sums over the sigma set *)
Lemma sigma_sumR (G : R * fmx -> R) (u0 : R) :
  lsumR G (combine (u0 :: repeat wi (2 * dc)) Xs) =
  G (u0, X0) + rsum dc (fun k => G (wi, Xp k)) + rsum dc (fun k => G (wi, Xn k)).
Proof. unfold Xs. rewrite sigma_comp_eq. apply sym_sum. Qed.

Lemma ybar_lin i : (i < olin)%nat -> ybar i 0%nat = mu i.
Proof.
  intros Hi. unfold ybar, out_mean. change (@mbuild O p 1) with (fbuild p 1). unfold fbuild.
  rewrite inb_true by lia. change (l_lin Lout) with olin.
  rewrite (proj2 (Nat.ltb_lt _ _) Hi).
  rewrite wsum_get by lia. rewrite Ys_eq, combine_map_r, lsumR_map. cbn [fst snd].
  unfold wm. rewrite sigma_sumR. cbn [fst snd].
  rewrite (Y_lin _ _ i X0_sigma Hi), q_zero.
  rewrite (rsum_ext dc (fun k => wi * Yf (Xp k) i 0%nat) (fun k => wi * mu i + wi * s * AmA i k)).
  2:{ intros k Hk. rewrite (Y_lin _ _ i (Xp_sigma k Hk) Hi), q_plus. ring. }
  rewrite (rsum_ext dc (fun k => wi * Yf (Xn k) i 0%nat) (fun k => wi * mu i + - (wi * s * AmA i k))).
  2:{ intros k Hk. rewrite (Y_lin _ _ i (Xn_sigma k Hk) Hi), q_minus. ring. }
  rewrite !rsum_plus, rsum_opp, !rsum_const.
  replace (mu i) with ((w0 + 2 * INR dc * wi) * mu i) at 4 by (rewrite w_sum; ring). ring.
Qed.

Lemma ybar_circ i : cout i = true -> ybar i 0%nat = C19_Model.wrap ROps (mu i).
Proof.
  intros Hi. destruct (cout_lt i Hi) as [Hip Hio].
  unfold ybar, out_mean. change (@mbuild O p 1) with (fbuild p 1). unfold fbuild.
  rewrite inb_true by lia. change (l_lin Lout) with olin. change (l_circ Lout) with ocirc.
  change (l_quat Lout) with false. change (l_cw Lout) with 1%nat. cbv iota.
  replace (i <? olin)%nat with false by (symmetry; apply Nat.ltb_ge; lia).
  replace (i <? olin + ocirc * 1)%nat with true by (symmetry; apply Nat.ltb_lt; lia).
  rewrite Ys_eq, map_map. unfold Xs. rewrite sigma_comp_eq. cbn [map]. rewrite map_app, !map_map.
  set (ps := map (fun k => s * AmA i k) (seq 0 dc)).
  assert (Lps : length ps = dc) by (unfold ps; now rewrite map_length, seq_length).
  unfold wm. replace (2 * dc)%nat with (length ps + length ps)%nat by lia.
  change (C03_Model.dir_mean (O:=O)) with (C03_Model.dir_mean (O:=RM)).
  apply (circular_row_mean_gen (mu i) w0 wi ps).
  - cbn [map]. constructor.
    + unfold colget. change (@mget O p 1) with (fget p 1). unfold fget. rewrite inb_true by lia.
      eapply cong2pi_eq_l; [|apply (Y_circ _ _ i X0_sigma Hi)]. rewrite q_zero. ring.
    + rewrite map_app. apply Forall2_app.
      * unfold ps. rewrite map_map. apply Forall2_map_seq. intros k Hk.
        unfold colget. change (@mget O p 1) with (fget p 1). unfold fget. rewrite inb_true by lia.
        eapply cong2pi_eq_l; [|apply (Y_circ _ _ i (Xp_sigma k Hk) Hi)]. rewrite q_plus. ring.
      * unfold ps. rewrite !map_map. apply Forall2_map_seq. intros k Hk.
        unfold colget. change (@mget O p 1) with (fget p 1). unfold fget. rewrite inb_true by lia.
        eapply cong2pi_eq_l; [|apply (Y_circ _ _ i (Xn_sigma k Hk) Hi)]. rewrite q_minus. ring.
  - intros E. assert (length ps = 0%nat) by (now rewrite E). lia.
  - rewrite fold_right_lsumR. unfold ps. rewrite lsumR_seq. apply (resultant_pos i Hi).
Qed.

(* the output offsets are the propagated tangent offsets *)
Lemma output_offset e x i : is_sigma e x -> (forall i', cout i' = true -> in_range (q e i')) -> (i < pc)%nat ->
  offsets (O:=O) Lout (p:=p) pc (Yf x) ybar i 0%nat = q e i.
Proof.
  intros Hx Hq Hi. unfold offsets. change (@mbuild O pc 1) with (fbuild pc 1). unfold fbuild.
  rewrite inb_true by lia. unfold offset_row, colget. change (@mget O) with fget.
  change (l_lin Lout) with olin. change (l_circ Lout) with ocirc. change (l_quat Lout) with false.
  change (l_tw Lout) with 1%nat. cbv iota. unfold fget. rewrite !inb_true by lia.
  destruct (Nat.ltb_spec i olin) as [H1|H1].
  - rewrite (Y_lin e x i Hx H1), (ybar_lin i H1). simpl. ring.
  - replace (i <? olin + ocirc * 1)%nat with true by (symmetry; apply Nat.ltb_lt; lia).
    assert (Hc : cout i = true).
    { unfold circ_row. rewrite (proj2 (Nat.leb_le _ _) H1). apply andb_true_intro. split; [reflexivity|]. apply Nat.ltb_lt. lia. }
    rewrite dir_subF, (ybar_circ i Hc). apply dir_sub_recover; [apply (Y_circ e x i Hx Hc) | apply (Hq i Hc)].
Qed.

Lemma range_q0 i : cout i = true -> in_range (q (fun _ => 0) i).
Proof. intros _. rewrite q_zero. unfold in_range. pose proof PI_RGT_0. lra. Qed.
Lemma range_qp k : (k < dc)%nat -> forall i, cout i = true -> in_range (q (fun j => s * A j k) i).
Proof. intros Hk i Hi. rewrite q_plus. apply Rabs_in_range, small_out; assumption. Qed.
Lemma range_qn k : (k < dc)%nat -> forall i, cout i = true -> in_range (q (fun j => - (s * A j k)) i).
Proof. intros Hk i Hi. rewrite q_minus. apply Rabs_in_range, small_out; assumption. Qed.

Lemma range_e0 j : cin j = true -> in_range ((fun _ : nat => 0) j).
Proof. intros _. unfold in_range. pose proof PI_RGT_0. lra. Qed.
Lemma range_ep k : (k < dc)%nat -> forall j, cin j = true -> in_range (s * A j k).
Proof. intros Hk j Hj. apply Rabs_in_range, small_in; assumption. Qed.
Lemma range_en k : (k < dc)%nat -> forall j, cin j = true -> in_range (- (s * A j k)).
Proof. intros Hk j Hj. apply Rabs_in_range, small_in; assumption. Qed.

(* Gram identities *)
Lemma gram_cov i j :
  rsum dc (fun k => AmA i k * AmA j k) = rsum d (fun a => rsum d (fun b' => Am i a * P a b' * Am j b')).
Proof.
  transitivity (rsum dc (fun k => rsum d (fun a => rsum d (fun b' => (Am i a * A a k) * (Am j b' * A b' k))))).
  { apply rsum_ext. intros k _. unfold AmA. rewrite <- rsum_scal_r. apply rsum_ext. intros a _.
    rewrite <- rsum_scal. reflexivity. }
  rewrite rsum_swap. apply rsum_ext. intros a Ha. rewrite rsum_swap. apply rsum_ext. intros b' Hb.
  rewrite <- (factor_ok a b') by lia. rewrite <- rsum_scal, <- rsum_scal_r. apply rsum_ext. intros; ring.
Qed.

Lemma gram_cross i j : (i < d)%nat ->
  rsum dc (fun k => A i k * AmA j k) = rsum d (fun b' => P i b' * Am j b').
Proof.
  intros Hi.
  transitivity (rsum dc (fun k => rsum d (fun b' => A i k * (Am j b' * A b' k)))).
  { apply rsum_ext. intros k _. unfold AmA. rewrite <- rsum_scal. reflexivity. }
  rewrite rsum_swap. apply rsum_ext. intros b' Hb.
  rewrite <- (factor_ok i b') by lia. rewrite <- rsum_scal_r. apply rsum_ext. intros; ring.
Qed.

(* ---- the transformed component *)
Definition cov_image (i j : nat) : R := rsum d (fun a => rsum d (fun b' => Am i a * P a b' * Am j b')).
Definition cross_image (i j : nat) : R := rsum d (fun b' => P i b' * Am j b').

Let u := ut_component (O:=O) Lin Lout (d:=d) (p:=p) pc dx (mkUtw (O:=O) wm wc c) m Xs Ys.

Lemma comp_mean i : (i < p)%nat ->
  colget (O:=O) (uc_mean u) i = if cout i then C19_Model.wrap ROps (mu i) else mu i.
Proof.
  intros Hi. unfold u, ut_component. cbn [uc_mean w_mean]. fold ybar.
  unfold colget. change (@mget O p 1) with (fget p 1). unfold fget. rewrite inb_true by lia.
  destruct (cout i) eqn:Hc; [apply ybar_circ; exact Hc|].
  apply ybar_lin. unfold circ_row in Hc. apply andb_false_iff in Hc.
  destruct Hc as [Hc|Hc]; [apply Nat.leb_gt in Hc; lia | apply Nat.ltb_ge in Hc; lia].
Qed.

Lemma comp_cov i j : (i < pc)%nat -> (j < pc)%nat -> @mget O pc pc (uc_cov u) i j = cov_image i j.
Proof.
  intros Hi Hj. unfold u, ut_component. cbn [uc_cov w_cov w_mean]. fold ybar.
  rewrite wouter_get by assumption.
  rewrite Ys_eq, map_map, combine_map2, combine_map_r, lsumR_map. cbn [fst snd].
  unfold wc. rewrite sigma_sumR. cbn [fst snd].
  rewrite !(output_offset _ _ _ X0_sigma range_q0) by assumption. rewrite !q_zero.
  rewrite (rsum_ext dc _ (fun k => wi * (s * s) * (AmA i k * AmA j k))).
  2:{ intros k Hk. rewrite !(output_offset _ _ _ (Xp_sigma k Hk) (range_qp k Hk)) by assumption. rewrite !q_plus. ring. }
  rewrite (rsum_ext dc (fun k => wi * (offsets (O:=O) Lout (p:=p) pc (Yf (Xn k)) ybar i 0%nat * offsets (O:=O) Lout (p:=p) pc (Yf (Xn k)) ybar j 0%nat))
                   (fun k => wi * (s * s) * (AmA i k * AmA j k))).
  2:{ intros k Hk. rewrite !(output_offset _ _ _ (Xn_sigma k Hk) (range_qn k Hk)) by assumption. rewrite !q_minus. ring. }
  rewrite !rsum_scal, s_sq, gram_cov. fold (cov_image i j).
  assert (E : wi * c = 1 / 2) by lra. rewrite E. lra.
Qed.

Lemma comp_cross i j : (i < dx)%nat -> (j < pc)%nat -> @mget O dx pc (uc_cross u) i j = cross_image i j.
Proof.
  intros Hi Hj. unfold u, ut_component. cbn [uc_cross w_cov w_mean]. fold ybar.
  rewrite wouter_get by assumption.
  rewrite Ys_eq, map_map, combine_map2, combine_map_r, lsumR_map. cbn [fst snd].
  unfold wc. rewrite sigma_sumR. cbn [fst snd].
  rewrite (output_offset _ _ _ X0_sigma range_q0) by assumption. rewrite q_zero.
  rewrite (rsum_ext dc _ (fun k => wi * (s * s) * (A i k * AmA j k))).
  2:{ intros k Hk. rewrite (output_offset _ _ _ (Xp_sigma k Hk) (range_qp k Hk)) by assumption.
      rewrite (input_offset _ _ _ (Xp_sigma k Hk) (range_ep k Hk)) by assumption. rewrite q_plus. ring. }
  rewrite (rsum_ext dc (fun k => wi * (offsets (O:=O) Lin (p:=d) dx (Xn k) m i 0%nat * offsets (O:=O) Lout (p:=p) pc (Yf (Xn k)) ybar j 0%nat))
                   (fun k => wi * (s * s) * (A i k * AmA j k))).
  2:{ intros k Hk. rewrite (output_offset _ _ _ (Xn_sigma k Hk) (range_qn k Hk)) by assumption.
      rewrite (input_offset _ _ _ (Xn_sigma k Hk) (range_en k Hk)) by assumption. rewrite q_minus. ring. }
  rewrite !rsum_scal, s_sq, gram_cross by lia. fold (cross_image i j).
  assert (E : wi * c = 1 / 2) by lra. rewrite E. lra.
Qed.

(* ---- the sigma points reproduce the moments they were drawn from (tangent space) *)
Lemma sigma_moment1 j : w0 * 0 + rsum dc (fun k => wi * (s * A j k)) + rsum dc (fun k => wi * - (s * A j k)) = 0.
Proof.
  rewrite (rsum_ext dc (fun k => wi * - (s * A j k)) (fun k => - (wi * (s * A j k)))) by (intros; ring).
  rewrite rsum_opp. lra.
Qed.

Lemma sigma_moment2 i j : (i < dc)%nat -> (j < dc)%nat ->
  w0c * (0 * 0) + rsum dc (fun k => wi * ((s * A i k) * (s * A j k)))
                + rsum dc (fun k => wi * (- (s * A i k) * - (s * A j k))) = P i j.
Proof.
  intros Hi Hj. rewrite <- (factor_ok i j Hi Hj).
  rewrite (rsum_ext dc (fun k => wi * ((s * A i k) * (s * A j k))) (fun k => wi * (s * s) * (A i k * A j k))) by (intros; ring).
  rewrite (rsum_ext dc (fun k => wi * (- (s * A i k) * - (s * A j k))) (fun k => wi * (s * s) * (A i k * A j k))) by (intros; ring).
  rewrite !rsum_scal, s_sq.
  assert (E : wi * c = 1 / 2) by lra. rewrite E. lra.
Qed.
(* the tangent offsets of the 2 dc + 1 sigma points, in the order of the sigma-point matrix *)
Definition tangent_offsets : list (nat -> R) :=
  (fun _ => 0) :: (map (fun k j => s * A j k) (seq 0 dc) ++ map (fun k j => - (s * A j k)) (seq 0 dc)).

Lemma sigma_moments_euler :
  length Xs = (2 * dc + 1)%nat /\
  (* every sigma point is the mean (+) its tangent offset (plain sum on linear and noise rows,
     arg(exp(j .)) of the sum on circular rows), and the code's difference operator reads the offset back *)
  Forall2 (fun e x => is_sigma e x /\ forall i, (i < dx)%nat -> offsets (O:=O) Lin (p:=d) dx x m i 0%nat = e i)
          tangent_offsets Xs /\
  (* the first sigma point is the mean *)
  (forall x0 j, (j < d)%nat ->
     nth 0 Xs x0 j 0%nat = if cin j then C19_Model.wrap ROps (m j 0%nat) else m j 0%nat) /\
  (* weighted mean and covariance in the tangent chart at the mean *)
  (forall j, lsumR (fun p => fst p * (m j 0%nat + snd p j)) (combine wm tangent_offsets) = m j 0%nat) /\
  (forall i j, (i < dc)%nat -> (j < dc)%nat ->
     lsumR (fun p => fst p * (snd p i * snd p j)) (combine wc tangent_offsets) = P i j).
Proof.
  split; [apply sigma_comp_len|]. split; [|split; [|split]].
  - unfold Xs. rewrite sigma_comp_eq. unfold tangent_offsets. constructor.
    + split; [apply X0_sigma|]. intros i Hi. apply (input_offset _ _ i X0_sigma range_e0 Hi).
    + apply Forall2_app.
      * rewrite <- (map_map (fun k => k) (fun k => fun j => s * A j k)) at 1. rewrite map_id.
        apply Forall2_map_seq. intros k Hk. split; [apply Xp_sigma; exact Hk|].
        intros i Hi. apply (input_offset _ _ i (Xp_sigma k Hk) (range_ep k Hk) Hi).
      * apply Forall2_map_seq. intros k Hk. split; [apply Xn_sigma; exact Hk|].
        intros i Hi. apply (input_offset _ _ i (Xn_sigma k Hk) (range_en k Hk) Hi).
  - intros x0 j Hj. unfold Xs. rewrite sigma_comp_eq. cbn [nth]. rewrite (X0_sigma j Hj).
    rewrite Rplus_0_l. reflexivity.
  - intros j. unfold wm, tangent_offsets. rewrite sym_sum. cbn [fst snd].
    rewrite (rsum_ext dc (fun k => wi * (m j 0%nat + s * A j k)) (fun k => wi * m j 0%nat + wi * (s * A j k))) by (intros; ring).
    rewrite (rsum_ext dc (fun k => wi * (m j 0%nat + - (s * A j k))) (fun k => wi * m j 0%nat + - (wi * (s * A j k)))) by (intros; ring).
    rewrite !rsum_plus, rsum_opp, !rsum_const.
    replace (m j 0%nat) with ((w0 + 2 * INR dc * wi) * m j 0%nat) at 4 by (rewrite w_sum; ring). ring.
  - intros i j Hi Hj. unfold wc, tangent_offsets. rewrite sym_sum. cbn [fst snd].
    apply sigma_moment2; assumption.
Qed.
End EulerComponent.

(* ------------------------------------------------------------------ the whole mixture, all overloads *)
Definition factor_ok (sq : nat -> fmx -> fmx) (dc : nat) (P : fmx) : Prop :=
  forall a b, (a < dc)%nat -> (b < dc)%nat -> rsum dc (fun k => sq dc P a k * sq dc P b k) = P a b.

(* spreads small enough: every sigma offset on a circular input row and every propagated offset on a
   circular output row within a half turn, positive weighted resultant on every circular output row *)
Definition small_spread (sq : nat -> fmx -> fmx) (lin circ olin ocirc d dc : nat) (c w0 wi : R) (Am P : fmx) : Prop :=
  (forall j k, circ_row lin circ j = true -> (k < dc)%nat -> Rabs (sqrt c * sq dc P j k) < PI) /\
  (forall i k, circ_row olin ocirc i = true -> (k < dc)%nat -> Rabs (sqrt c * AmA sq d dc P Am i k) < PI) /\
  (forall i, circ_row olin ocirc i = true ->
     0 < w0 + 2 * wi * rsum dc (fun k => cos (sqrt c * AmA sq d dc P Am i k))).

Section EulerMixture.
Variables sq eg : nat -> fmx -> fmx.
Notation O := (RF sq eg).
Variables lin circ noise olin ocirc : nat.
Let Lin := mkLayout lin circ false noise.
Let Lout := mkLayout olin ocirc false 0.
Let d := l_dim Lin.
Let dc := l_dcov Lin.
Let dx := l_dx Lin.
Let p := l_dim Lout.
Let pc := l_dcov Lout.
Variables alpha beta kappa : R.
Let w := ut_weights (O:=O) dc alpha beta kappa.
Let c := w_c w.
Let w0 := nth 0 (w_mean w) 0.
Let wi := nth 1 (w_mean w) 0.
Variables Am b : fmx.
Variable comps : list (fmx * fmx).
Let k := length comps.

Hypothesis dc_pos : (0 < dc)%nat.
Hypothesis c_pos : 0 < c.
Hypothesis map_lin_structure : forall i j, (i < olin)%nat -> circ_row lin circ j = true -> Am i j = 0.
Hypothesis map_circ_structure : forall i j, circ_row olin ocirc i = true -> circ_row lin circ j = true ->
  exists z : Z, Am i j = IZR z.
Hypothesis factors : forall mc, In mc comps -> factor_ok sq dc (snd mc).
Hypothesis spreads : forall mc, In mc comps -> small_spread sq lin circ olin ocirc d dc c w0 wi Am (snd mc).

(* what the property states about one transformed component: mean Am m + b (modulo 2 pi on circular
   rows: the value arg(exp(j .)) the code returns), covariance Am P Am^T + N, cross-covariance =
   the non-noise rows of P Am^T *)
Definition euler_image (N : fmx) (mc : fmx * fmx) (u : ut_comp O p pc dx) : Prop :=
  (forall i, (i < p)%nat ->
     colget (O:=O) (uc_mean u) i =
     if circ_row olin ocirc i then C19_Model.wrap ROps (mu d (fst mc) Am b i) else mu d (fst mc) Am b i) /\
  (forall i j, (i < pc)%nat -> (j < pc)%nat -> @mget O pc pc (uc_cov u) i j = cov_image d (snd mc) Am i j + N i j) /\
  (forall i j, (i < dx)%nat -> (j < pc)%nat -> @mget O dx pc (uc_cross u) i j = cross_image d (snd mc) Am i j).

Let X := sigma_points (O:=O) Lin d dc c comps.
Let r := ut_core (O:=O) Lin Lout (d:=d) (dc:=dc) (p:=p) pc dx w comps X (affine_cols (O:=O) (d:=d) (p:=p) Am b X).

Lemma dims_eq : d = (lin + circ + noise)%nat /\ dc = d /\ dx = (lin + circ)%nat /\ p = (olin + ocirc)%nat /\ pc = p.
Proof. unfold d, dc, dx, p, pc, l_dim, l_dcov, l_dx, l_cw, l_tw, Lin, Lout. simpl. lia. Qed.

Lemma w_form : w = mkUtw (O:=O) (w0 :: repeat wi (2 * dc)) (nth 0 (w_cov w) 0 :: repeat wi (2 * dc)) c.
Proof. exact (ut_weights_R_form sq eg dc alpha beta kappa dc_pos). Qed.

Lemma w_facts : w0 + 2 * INR dc * wi = 1 /\ 2 * wi * c = 1.
Proof. apply (ut_weights_R_sums sq eg dc alpha beta kappa dc_pos). unfold c in c_pos. fold w. lra. Qed.

Lemma X_chunk i mc0 : (i < k)%nat ->
  chunk (2 * dc + 1) i X = sigma_comp (O:=O) Lin d dc c (fst (nth i comps mc0)) (snd (nth i comps mc0)).
Proof.
  intros Hi. destruct dims_eq as (E1 & E2 & E3 & E4 & E5).
  unfold X, sigma_points. rewrite chunk_concatR.
  - rewrite (nth_indep _ _ (sigma_comp (O:=O) Lin d dc c (fst mc0) (snd mc0))) by (now rewrite map_length).
    apply (map_nth (fun mc => sigma_comp (O:=O) Lin d dc c (fst mc) (snd mc))).
  - intros l Hl. apply in_map_iff in Hl. destruct Hl as [mc [<- _]].
    apply (sigma_comp_len sq eg lin circ noise olin ocirc d dc dx p pc E1 E2 E3 E4 E5).
  - now rewrite map_length.
Qed.

Lemma r_comp i u0 mc0 : (i < k)%nat ->
  nth i (ur_comps r) u0 =
  ut_component (O:=O) Lin Lout (d:=d) (p:=p) pc dx w (fst (nth i comps mc0))
    (sigma_comp (O:=O) Lin d dc c (fst (nth i comps mc0)) (snd (nth i comps mc0)))
    (affine_cols (O:=O) (d:=d) (p:=p) Am b (sigma_comp (O:=O) Lin d dc c (fst (nth i comps mc0)) (snd (nth i comps mc0)))).
Proof.
  intros Hi. unfold r, ut_core. cbn [ur_comps].
  pose (h := fun (i : nat) (mc : fmx * fmx) => ut_component (O:=O) Lin Lout (d:=d) (p:=p) pc dx w (fst mc)
             (chunk (2 * dc + 1) i X) (chunk (2 * dc + 1) i (affine_cols (O:=O) (d:=d) (p:=p) Am b X))).
  etransitivity; [exact (map_indexedR h comps mc0 u0 i Hi)|]. unfold h.
  unfold affine_cols at 1. rewrite chunk_mapR, (X_chunk i mc0 Hi). reflexivity.
Qed.

Lemma r_image i u0 mc0 : (i < k)%nat -> euler_image (fun _ _ => 0) (nth i comps mc0) (nth i (ur_comps r) u0).
Proof.
  intros Hi. destruct dims_eq as (E1 & E2 & E3 & E4 & E5). destruct w_facts as [W1 W2].
  assert (Hin : In (nth i comps mc0) comps) by (apply nth_In; exact Hi).
  pose proof (factors _ Hin) as HF. destruct (spreads _ Hin) as (S1 & S2 & S3).
  rewrite (r_comp i u0 mc0 Hi), w_form.
  split; [|split].
  - intros i' Hi'.
    apply (comp_mean sq eg lin circ noise olin ocirc d dc dx p pc E1 E2 E3 E4 E5 c _ _ Am b
             map_lin_structure map_circ_structure w0 _ wi W1 dc_pos S3 i' Hi').
  - intros i' j' Hi' Hj'. rewrite Rplus_0_r.
    apply (comp_cov sq eg lin circ noise olin ocirc d dc dx p pc E1 E2 E3 E4 E5 c _ _ Am b c_pos HF
             map_lin_structure map_circ_structure S2 w0 _ wi W1 W2 dc_pos S3 i' j' Hi' Hj').
  - intros i' j' Hi' Hj'.
    apply (comp_cross sq eg lin circ noise olin ocirc d dc dx p pc E1 E2 E3 E4 E5 c _ _ Am b c_pos HF
             map_lin_structure map_circ_structure S1 S2 w0 _ wi W1 W2 dc_pos S3 i' j' Hi' Hj').
Qed.

Lemma r_length : length (ur_comps r) = k.
Proof. unfold r, ut_core. cbn [ur_comps]. rewrite map_length, combine_length, seq_length. unfold k. apply Nat.min_id. Qed.

Lemma r_weights : ur_weights r = repeat (1 / INR k) k.
Proof. unfold r, ut_core. cbn [ur_weights]. fold k. change (sc O) with ROps. rewrite sofnat_R. reflexivity. Qed.

Lemma noise_image N i u0 mc0 : (i < k)%nat ->
  euler_image N (nth i comps mc0) (nth i (ur_comps (add_noise_cov (O:=O) N r)) u0).
Proof.
  intros Hi. unfold add_noise_cov. cbn [ur_comps].
  set (f := fun u : ut_comp O p pc dx => mkUtComp (O:=O) (uc_mean u) (@madd O pc pc (uc_cov u) N) (uc_cross u)).
  rewrite (nth_indep _ u0 (f u0)) by (rewrite map_length, r_length; exact Hi).
  rewrite (map_nth f). unfold f. destruct (r_image i u0 mc0 Hi) as (M1 & M2 & M3).
  split; [|split]; cbn [uc_mean uc_cov uc_cross]; [exact M1 | | exact M3].
  intros i' j' Hi' Hj'. change (@mget O pc pc) with (fget pc pc). rewrite fget_add.
  change (fget pc pc (uc_cov (nth i (ur_comps r) u0))) with (@mget O pc pc (uc_cov (nth i (ur_comps r) u0))).
  rewrite (M2 i' j' Hi' Hj'), Rplus_0_r. unfold fget. rewrite inb_true by assumption. reflexivity.
Qed.

(* exactness on affine maps, every overload, every component *)
Definition euler_exact_statement : Prop :=
  ut_generic (O:=O) Lin Lout (d:=d) (dc:=dc) (p:=p) pc dx w comps
             (fun X => Some (affine_cols (O:=O) (d:=d) (p:=p) Am b X)) = Some r /\
  ut_meas (O:=O) Lin Lout (d:=d) (dc:=dc) (p:=p) pc dx w comps
          (fun X => Some (affine_cols (O:=O) (d:=d) (p:=p) Am b X)) = Some r /\
  ut_state (O:=O) Lin Lout (d:=d) (dc:=dc) (p:=p) pc dx w comps (affine_cols (O:=O) (d:=d) (p:=p) Am b) = r /\
  (forall N, ut_additive_state (O:=O) Lin Lout (d:=d) (dc:=dc) (p:=p) pc dx w comps
               (affine_cols (O:=O) (d:=d) (p:=p) Am b) N = add_noise_cov (O:=O) N r /\
             ut_additive_meas (O:=O) Lin Lout (d:=d) (dc:=dc) (p:=p) pc dx w comps
               (fun X => Some (affine_cols (O:=O) (d:=d) (p:=p) Am b X)) N = Some (add_noise_cov (O:=O) N r)) /\
  ur_weights r = repeat (1 / INR k) k /\ length (ur_comps r) = k /\
  (forall N, ur_weights (add_noise_cov (O:=O) N r) = repeat (1 / INR k) k /\
             length (ur_comps (add_noise_cov (O:=O) N r)) = k) /\
  (forall i u0 mc0, (i < k)%nat -> euler_image (fun _ _ => 0) (nth i comps mc0) (nth i (ur_comps r) u0)) /\
  (forall N i u0 mc0, (i < k)%nat ->
     euler_image N (nth i comps mc0) (nth i (ur_comps (add_noise_cov (O:=O) N r)) u0)).

Theorem euler_affine_exact : euler_exact_statement.
Proof.
  split; [reflexivity|]. split; [reflexivity|]. split; [reflexivity|].
  split; [intros N; split; reflexivity|].
  split; [exact r_weights|]. split; [exact r_length|].
  split; [intros N; split; [exact r_weights | unfold add_noise_cov; cbn [ur_comps]; rewrite map_length; exact r_length]|].
  split; [exact r_image | exact noise_image].
Qed.
End EulerMixture.
