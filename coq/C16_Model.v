(* C16_Model.v — model of the shipped models and initialisers, as they are in
   /repo now:
     WhiteNoiseAcceleration::ImplData ctor, getNoiseSample, getTransitionProbability
                                         (WhiteNoiseAcceleration.cpp:22-98, 194-220)
     AdditiveStateModel::motion          (AdditiveStateModel.cpp:14-19)
     LinearStateModel::propagate         (LinearStateModel.cpp:16-38; the branch taken by
                                          a model that is not skipping and has no exogenous
                                          model attached — the skip branches belong to C13)
     LTIStateModel ctor                  (LTIStateModel.cpp:14-28)
     LTIMeasurementModel ctor            (LTIMeasurementModel.cpp:16-32)
     LinearModel ctor, getNoiseSample    (LinearModel.cpp:21-60)
     SimulatedStateModel ctor, bufferData, getData, setProperty
                                         (SimulatedStateModel.cpp:16-75)
     SimulatedLinearSensor ctor (descriptions), freeze, measure (SimulatedLinearSensor.cpp:17-103)
     InitSurveillanceAreaGrid::initialize   (InitSurveillanceAreaGrid.cpp:44-63)
   Polymorphic in the arithmetic (MatOps).  The standard-normal draws of the
   seeded generators are an INPUT of the model (a list consumed front to back,
   in the order the code calls gauss_rnd_sample_()); std::pow(T, 3.0) and
   std::pow(T, 2.0) are transcribed as T*(T*T) and T*T; the LDLT-based factor
   is the oracle [msqrt].  No proofs in this file. *)
Require Import ZArith List Bool.
Require Import BFL.Ops BFL.Density.
Import ListNotations.
Local Open Scope bool_scope.

(* WhiteNoiseAcceleration::Dim *)
Inductive Dim := OneD | TwoD | ThreeD.
Definition dim_blocks (d : Dim) : nat := match d with OneD => 1 | TwoD => 2 | ThreeD => 3 end.
(* size of F_ / Q_ / the state description *)
Definition dim_n (d : Dim) : nat := match d with OneD => 2 | TwoD => 4 | ThreeD => 6 end.

(* which constructor check fired (the checks are an if / else-if chain) *)
Inductive lti_err := ErrFEmpty | ErrQEmpty | ErrFNotSquare | ErrQNotSquare | ErrFQMismatch.
Inductive meas_err := ErrHEmpty | ErrREmpty | ErrRNotSquare | ErrHRMismatch
                      | ErrIndex (pos value : nat).       (* LinearModel only *)

(* SimulatedStateModel's constructor: simulation_time = 0 throws *)
Inductive sim_err := ErrSimEmpty.

(* calls on a SimulatedStateModel / a SimulatedLinearSensor *)
Inductive sim_op := SimBuffer | SimReset | SimOther.      (* bufferData(), setProperty("reset"), setProperty(<other>) *)
Inductive sens_op := SensFreeze | SensReset | SensOther.  (* freeze(), reset / other property of the simulated state model *)

(* VectorDescription with Euler-type circular components: component counts; every size
   accessor is then the component count, total_size their sum *)
Record vdesc := mkDesc { d_lin : nat; d_circ : nat; d_noise : nat }.
Definition desc_total (v : vdesc) : nat := d_lin v + d_circ v + d_noise v.
Definition desc_linear_size (v : vdesc) : nat := d_lin v.
(* add_noise_components *)
Definition desc_add_noise (v : vdesc) (k : nat) : vdesc := mkDesc (d_lin v) (d_circ v) (d_noise v + k).

Section Models.
Variable O : MatOps.
Notation S := (sc O).
Notation t := (T S).

(* ---------------------------------------------------------------- WNA *)

Definition lit2 : t := sofZ S 2.
Definition lit3 : t := sofZ S 3.
Definition pow2 (x : t) : t := smul S x x.                 (* std::pow(x, 2.0) *)
Definition pow3 (x : t) : t := smul S x (smul S x x).      (* std::pow(x, 3.0) *)

(* double q11 = 1.0 / 3.0 * std::pow(T_, 3.0);  double q2 = 1.0 / 2.0 * std::pow(T_, 2.0); *)
Definition wna_q11 (Ts : t) : t := smul S (sdiv S (s1 S) lit3) (pow3 Ts).
Definition wna_q2 (Ts : t) : t := smul S (sdiv S (s1 S) lit2) (pow2 Ts).

(* Matrix2d F; F << 1.0, T_, 0.0, 1.0;   Matrix2d Q; Q << q11, q2, q2, T_; *)
Definition wna_F2 (Ts : t) : M O 2 2 := mof_lists O 2 2 [[s1 S; Ts]; [s0 S; s1 S]].
Definition wna_Q2 (Ts : t) : M O 2 2 :=
  mof_lists O 2 2 [[wna_q11 Ts; wna_q2 Ts]; [wna_q2 Ts; Ts]].
Definition Z2 : M O 2 2 := mzero 2 2.                      (* Matrix2d::Zero() *)

(* the comma initialisers of the three cases: rows of 2x2 blocks *)
Definition blocks1 (B : M O 2 2) : M O 2 2 := B.
Definition blocks2 (B : M O 2 2) : M O (2 + 2) (2 + 2) :=
  mvcat (mhcat B Z2)
        (mhcat Z2 B).
Definition blocks3 (B : M O 2 2) : M O (2 + (2 + 2)) (2 + (2 + 2)) :=
  mvcat (mhcat B (mhcat Z2 Z2))
        (mvcat (mhcat Z2 (mhcat B Z2))
               (mhcat Z2 (mhcat Z2 B))).
Definition blocks (d : Dim) (B : M O 2 2) : M O (dim_n d) (dim_n d) :=
  match d return M O (dim_n d) (dim_n d) with
  | OneD => blocks1 B
  | TwoD => blocks2 B
  | ThreeD => blocks3 B
  end.

(* F_, Q_ (after Q_ *= tilde_q_), sqrt_Q_ *)
Definition wna_F (d : Dim) (Ts : t) : M O (dim_n d) (dim_n d) := blocks d (wna_F2 Ts).
Definition wna_Q (d : Dim) (Ts q : t) : M O (dim_n d) (dim_n d) := mscale q (blocks d (wna_Q2 Ts)).
Definition wna_sqrtQ (d : Dim) (Ts q : t) : M O (dim_n d) (dim_n d) := msqrt (wna_Q d Ts q).

(* MatrixXd rand_vectors(rows, num); for i < size: *(data() + i) = gauss_rnd_sample_();
   Eigen's default storage is column-major: entry (r, c) is the (c*rows + r)-th draw *)
Definition fill_colmajor (rows num : nat) (zs : list t) : M O rows num :=
  mbuild rows num (fun r c => nth (c * rows + r) zs (s0 S)).

(* getNoiseSample(num) of WhiteNoiseAcceleration (L = sqrt_Q_) and of LinearModel
   (L = sqrt_R_): L * rand_vectors; returns the sample and the draws left *)
Definition noise_sample {d} (L : M O d d) (num : nat) (zs : list t) : M O d num * list t :=
  (mmul L (fill_colmajor d num zs), skipn (d * num) zs).

(* AdditiveStateModel::motion over LinearStateModel::propagate (not skipping, no
   exogenous model): mot = F * cur; mot += getNoiseSample(mot.cols()) *)
Definition additive_motion {d c} (F L : M O d d) (X : M O d c) (zs : list t) : M O d c * list t :=
  let prop := mmul F X in
  let '(w, zs') := noise_sample L c zs in
  (madd prop w, zs').

Definition wna_noise_sample (d : Dim) (Ts q : t) (num : nat) (zs : list t) :=
  noise_sample (wna_sqrtQ d Ts q) num zs.
Definition wna_motion (d : Dim) (Ts q : t) {c} (X : M O (dim_n d) c) (zs : list t) :=
  additive_motion (wna_F d Ts) (wna_sqrtQ d Ts q) X zs.

(* multivariate_gaussian_density(cur - F_ * prev, VectorXd::Zero(prev.rows()), Q_):
   one value per column *)
Definition transition_probability {d c} (F Q : M O d d) (prev cur : M O d c) : list t :=
  let diff := msub cur (mmul F prev) in
  map (fun j => density (mcol j diff) (mzero d 1) Q) (seq 0 c).
Definition wna_transition_probability (d : Dim) (Ts q : t) {c} (prev cur : M O (dim_n d) c) :=
  transition_probability (wna_F d Ts) (wna_Q d Ts q) prev cur.

(* ---------------------------------------------------------------- constructors *)

Definition is_empty (r c : nat) : bool := (r =? 0) || (c =? 0).

(* LTIStateModel(F, Q): members are copies of the arguments *)
Definition lti_state_ctor {fr fc qr qc} (F : M O fr fc) (Q : M O qr qc)
  : lti_err + (M O fr fc * M O qr qc) :=
  if is_empty fr fc then inl ErrFEmpty
  else if is_empty qr qc then inl ErrQEmpty
  else if negb (fr =? fc) then inl ErrFNotSquare
  else if negb (qr =? qc) then inl ErrQNotSquare
  else if negb (fr =? qr) then inl ErrFQMismatch
  else inr (F, Q).

(* LTIMeasurementModel(H, R) *)
Definition lti_meas_ctor {hr hc rr rc} (H : M O hr hc) (R : M O rr rc)
  : meas_err + (M O hr hc * M O rr rc) :=
  if is_empty hr hc then inl ErrHEmpty
  else if is_empty rr rc then inl ErrREmpty
  else if negb (rr =? rc) then inl ErrRNotSquare
  else if negb (hr =? rr) then inl ErrHRMismatch
  else inr (H, R).

(* H_(i, j) = v *)
Definition mset {r c} (A : M O r c) (i j : nat) (v : t) : M O r c :=
  mbuild r c (fun a b => if (a =? i) && (b =? j) then v else mget A a b).

(* the loop of LinearModel's constructor, from row i on *)
Fixpoint lm_fill {m n} (i : nat) (idxs : list nat) (H : M O m n) : meas_err + M O m n :=
  match idxs with
  | [] => inr H
  | ci :: rest =>
      if ci <? n then lm_fill (Datatypes.S i) rest (mset H i ci (s1 S))
      else inl (ErrIndex i ci)
  end.

(* LinearModel({n, idxs}, R, seed): base-class constructor on Zero(|idxs|, n) and R,
   then the loop, then sqrt_R_.  Result: H_, R_, sqrt_R_ *)
Definition linear_model_ctor (n : nat) (idxs : list nat) {rr rc} (R : M O rr rc)
  : meas_err + (M O (length idxs) n * M O rr rc * M O rr rr) :=
  match lti_meas_ctor (mzero (length idxs) n) R with
  | inl e => inl e
  | inr (H0, R') =>
      match lm_fill 0 idxs H0 with
      | inl e => inl e
      | inr H => inr (H, R', msqrt (mbuild rr rr (fun i j => mget R' i j)))
      end
  end.

(* ---------------------------------------------------------------- simulated trajectory *)

Section Sim.
Variable d : nat.
(* StateModel::motion on one column, threading the draws *)
Variable motion : M O d 1 -> list t -> M O d 1 * list t.

(* for k = 1 .. simulation_time-1: motion(target.col(k-1), target.col(k)) *)
Fixpoint sim_columns (k : nat) (x : M O d 1) (zs : list t) : list (M O d 1) :=
  match k with
  | 0 => []
  | Datatypes.S k' => let '(x', zs') := motion x zs in x' :: sim_columns k' x' zs'
  end.

Record sim_state := mkSim {
  sim_target : list (M O d 1);      (* the columns of target_ *)
  sim_time : nat;                   (* simulation_time_ *)
  sim_cur : nat;                    (* current_simulation_time_ *)
  sim_data : option (M O d 1)       (* data_simulated_state_model_ (None: empty Data) *)
}.

(* the constructor: throws when simulation_time = 0 (before allocating target_), otherwise
   column 0 is the initial state and column k is motion(column k-1) *)
Definition sim_ctor (x0 : M O d 1) (simulation_time : nat) (zs : list t) : sim_err + sim_state :=
  match simulation_time with
  | 0 => inl ErrSimEmpty
  | Datatypes.S k => inr (mkSim (x0 :: sim_columns k x0 zs) simulation_time 0 None)
  end.

(* bufferData / setProperty; the boolean is the call's return value.  A column
   read outside target_ would show up as [None] in sim_data. *)
Definition sim_step (st : sim_state) (op : sim_op) : sim_state * bool :=
  match op with
  | SimBuffer =>
      if sim_time st <=? sim_cur st then (st, false)
      else (mkSim (sim_target st) (sim_time st) (Datatypes.S (sim_cur st))
                  (nth_error (sim_target st) (sim_cur st)), true)
  | SimReset => (mkSim (sim_target st) (sim_time st) 0 (sim_data st), true)
  | SimOther => (st, false)
  end.

(* a whole call sequence: the return value and getData() after every call *)
Fixpoint sim_run (st : sim_state) (ops : list sim_op) : list (bool * option (M O d 1)) * sim_state :=
  match ops with
  | [] => ([], st)
  | op :: rest =>
      let '(st', b) := sim_step st op in
      let '(outs, stf) := sim_run st' rest in
      ((b, sim_data st') :: outs, stf)
  end.

(* ---------------------------------------------------------------- simulated linear sensor *)

Variable m : nat.
Record sens_state := mkSens {
  sens_sim : sim_state;
  sens_zs : list t;                 (* draws left in the sensor's own generator *)
  sens_meas : option (M O m 1)      (* measurement_ (None: still empty) *)
}.

(* freeze(): forwards a failing bufferData(); otherwise H_ * data + noise(1 column) *)
Definition sensor_freeze (H : M O m d) (LR : M O m m) (st : sens_state) : sens_state * bool :=
  let '(sim', ok) := sim_step (sens_sim st) SimBuffer in
  if ok then
    match sim_data sim' with
    | Some x =>
        let '(w, zs') := noise_sample LR 1 (sens_zs st) in
        (mkSens sim' zs' (Some (madd (mmul H x) w)), true)
    | None => (mkSens sim' (sens_zs st) (sens_meas st), false)   (* unreachable: see C16 proofs *)
    end
  else (mkSens sim' (sens_zs st) (sens_meas st), false).

Definition sensor_step (H : M O m d) (LR : M O m m) (st : sens_state) (op : sens_op) : sens_state * bool :=
  match op with
  | SensFreeze => sensor_freeze H LR st
  | SensReset => let '(s', b) := sim_step (sens_sim st) SimReset in (mkSens s' (sens_zs st) (sens_meas st), b)
  | SensOther => let '(s', b) := sim_step (sens_sim st) SimOther in (mkSens s' (sens_zs st) (sens_meas st), b)
  end.

(* return value of every call and measure() after it *)
Fixpoint sensor_run (H : M O m d) (LR : M O m m) (st : sens_state) (ops : list sens_op)
  : list (bool * option (M O m 1)) * sens_state :=
  match ops with
  | [] => ([], st)
  | op :: rest =>
      let '(st', b) := sensor_step H LR st op in
      let '(outs, stf) := sensor_run H LR st' rest in
      ((b, sens_meas st') :: outs, stf)
  end.
End Sim.

(* ---------------------------------------------------------------- sensor descriptions *)

(* the rest of SimulatedLinearSensor's constructor (SimulatedLinearSensor.cpp:29-66):
   input description = state description of the simulated model + one noise component per
   row of R; every row i of H_ counts as linear or circular according to where its entry of
   largest magnitude sits: H_.row(i).array().abs().maxCoeff(&state_index) — Eigen's visitor
   keeps the FIRST maximum (it updates on strictly larger values only) *)
Definition sabs1 (x : t) : t := if sltb S x (s0 S) then sopp S x else x.

Fixpoint argmax_from (f : nat -> t) (j k best : nat) (bestv : t) : nat :=
  match k with
  | 0 => best
  | Datatypes.S k' =>
      if sltb S bestv (f j) then argmax_from f (Datatypes.S j) k' j (f j)
      else argmax_from f (Datatypes.S j) k' best bestv
  end.

Definition row_argmax_abs {m n} (H : M O m n) (i : nat) : nat :=
  match n with
  | 0 => 0
  | Datatypes.S k => argmax_from (fun j => sabs1 (mget H i j)) 1 k 0 (sabs1 (mget H i 0))
  end.

(* (input_description_, measurement_description_) *)
Definition sensor_descriptions {m n} (H : M O m n) (state_desc : vdesc) (noise_rows : nat) : vdesc * vdesc :=
  let input := desc_add_noise state_desc noise_rows in
  let counts :=
    fold_left (fun acc i => if row_argmax_abs H i <? desc_linear_size input
                            then (Datatypes.S (fst acc), snd acc) else (fst acc, Datatypes.S (snd acc)))
              (seq 0 m) (0, 0) in
  (input, mkDesc (fst counts) (snd counts) 0).

(* ---------------------------------------------------------------- grid initialiser *)

(* particles.state().col(k) << v 0, v 1, v 2, v 3 *)
Definition set_col {r c} (A : M O r c) (k : nat) (v : nat -> t) : M O r c :=
  mbuild r c (fun i j => if j =? k then v i else mget A i j).

(* (delta / (num_particle_ - 1)) * i + inf, num_particle_ being a double member *)
Definition grid_coord (delta inf : t) (n i : nat) : t :=
  sadd S (smul S (sdiv S delta (ssub S (sofnat S n) (s1 S))) (sofnat S i)) inf.

Definition grid_point (xinf dx yinf dy : t) (nx ny i j : nat) : nat -> t :=
  fun r => match r with
           | 0 => grid_coord dx xinf nx i
           | 2 => grid_coord dy yinf ny j
           | _ => s0 S
           end.

(* the (i, j) pairs in the order of the two nested loops *)
Definition grid_pairs (nx ny : nat) : list (nat * nat) := list_prod (seq 0 nx) (seq 0 ny).

(* initialize(particles): [st], [w] are the state matrix and the weight vector on
   entry; None = returns false without touching the set *)
Definition grid_initialize (xinf xsup yinf ysup : t) (nx ny : nat) {np} (st : M O 4 np) (w : M O np 1)
  : option (M O 4 np * M O np 1) :=
  if negb (np =? nx * ny) then None
  else
    let dx := ssub S xsup xinf in
    let dy := ssub S ysup yinf in
    let st' := fold_left (fun A ij => set_col A (fst ij * ny + snd ij)
                                              (grid_point xinf dx yinf dy nx ny (fst ij) (snd ij)))
                         (grid_pairs nx ny) st in
    Some (st', mconst O np 1 (sopp S (sln S (sofnat S np)))).

(* initialize(particles) on a particle set with ANY number [r] of state rows, both checks in the
   code's order: the particle count, then "the grid is laid out on states (x, vx, y, vy)"
   (particles.state().rows() != 4 -> false).  For r = 4 this is [grid_initialize] (C16_ProofsSM). *)
Definition grid_initialize_rows (xinf xsup yinf ysup : t) (nx ny : nat) {r np} (st : M O r np) (w : M O np 1)
  : option (M O r np * M O np 1) :=
  if negb (np =? nx * ny) then None
  else if negb (r =? 4) then None
  else
    let dx := ssub S xsup xinf in
    let dy := ssub S ysup yinf in
    let st' := fold_left (fun A ij => set_col A (fst ij * ny + snd ij)
                                              (grid_point xinf dx yinf dy nx ny (fst ij) (snd ij)))
                         (grid_pairs nx ny) st in
    Some (st', mconst O np 1 (sopp S (sln S (sofnat S np)))).

End Models.

Arguments wna_F2 {_}. Arguments wna_Q2 {_}. Arguments blocks {_}.
Arguments wna_F {_}. Arguments wna_Q {_}. Arguments wna_sqrtQ {_}.
Arguments fill_colmajor {_}. Arguments noise_sample {_ d}. Arguments additive_motion {_ d c}.
Arguments wna_noise_sample {_}. Arguments wna_motion {_} d Ts q {c}.
Arguments transition_probability {_ d c}. Arguments wna_transition_probability {_} d Ts q {c}.
Arguments lti_state_ctor {_ fr fc qr qc}. Arguments lti_meas_ctor {_ hr hc rr rc}.
Arguments mset {_ r c}. Arguments lm_fill {_ m n}. Arguments linear_model_ctor {_} n idxs {rr rc}.
Arguments sim_columns {_ d}. Arguments sim_state {_}. Arguments mkSim {_ d}.
Arguments sim_target {_ d}. Arguments sim_time {_ d}. Arguments sim_cur {_ d}. Arguments sim_data {_ d}.
Arguments sim_ctor {_ d}. Arguments sim_step {_ d}. Arguments sim_run {_ d}.
Arguments sens_state {_}. Arguments mkSens {_ d m}.
Arguments sens_sim {_ d m}. Arguments sens_zs {_ d m}. Arguments sens_meas {_ d m}.
Arguments sensor_freeze {_ d m}. Arguments sensor_step {_ d m}. Arguments sensor_run {_ d m}.
Arguments sabs1 {_}. Arguments argmax_from {_}. Arguments row_argmax_abs {_ m n}. Arguments sensor_descriptions {_ m n}.
Arguments set_col {_ r c}. Arguments grid_coord {_}. Arguments grid_point {_}.
Arguments grid_initialize {_} xinf xsup yinf ysup nx ny {np}.
Arguments grid_initialize_rows {_} xinf xsup yinf ysup nx ny {r np}.
