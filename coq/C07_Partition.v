(* C07_Partition.v — the partition made by ResamplingWithPrior::resample
   (ResamplingWithPrior.cpp:75-88: sort_indices, then the first num_prior
   positions of the sorted order are skipped), as a RELATION on sets of
   particles, so that exact ties at the split are covered:

     replaced_set  = the first  floor(ratio N) sorted indices   (never copied, replaced by prior draws)
     survivor_set  = the others                                  (tmp_particles, resampled)

   - partition_g: for every arithmetic whose <= is total and transitive (what
     std::sort needs of its comparison: doubles without NaN, the reals), the two
     sets have floor(ratio N) and N - floor(ratio N) members, together they are
     a duplicate-free enumeration of 0..N-1, and no replaced particle is heavier
     than a survivor;
   - forced_g: consequently a particle strictly heavier than some survivor is a
     survivor, one strictly lighter than some replaced particle is replaced;
   - admissible_forced: the same holds of EVERY admissible partition (any choice
     among exact ties): below the (k+1)-th smallest weight a particle is
     replaced, above it it survives — this is what the oracle of props/C07.py
     decides on the implementation's output;
   - parents_survive: every parent reported by the model of
     ResamplingWithPrior::resample is a survivor and not a replaced particle.
   No proofs about the reals are needed except the instance at the end. *)
Require Import Reals ZArith List Bool Permutation Sorted Lia Lra.
Require Import BFL.Ops BFL.C07_Model BFL.C07_ROps BFL.C07_Proofs.
Import ListNotations.

(* the two sets, from the functions the model (and the extracted code) runs *)
Definition replaced_set (S : SOps) (ratio : T S) (lw : list (T S)) : list nat :=
  firstn (num_prior S (length lw) ratio) (sort_idx S (map (sexp S) lw)).
Definition survivor_set (S : SOps) (ratio : T S) (lw : list (T S)) : list nat :=
  skipn (num_prior S (length lw) ratio) (sort_idx S (map (sexp S) lw)).

(* weight of particle i as the library computes it: exp of its log-weight *)
Definition wt (S : SOps) (lw : list (T S)) (i : nat) : T S := sexp S (nth i lw (s0 S)).

Lemma NoDup_app_disj {A} (l1 l2 : list A) x : NoDup (l1 ++ l2) -> In x l1 -> In x l2 -> False.
Proof.
  induction l1 as [|a l1 IH]; simpl; intros H H1 H2; [exact H1|].
  inversion H as [|? ? Hn Hd]; subst. destruct H1 as [->|H1].
  - apply Hn. apply in_or_app. right. exact H2.
  - exact (IH Hd H1 H2).
Qed.

Lemma NoDup_app_left {A} (l1 l2 : list A) : NoDup (l1 ++ l2) -> NoDup l1.
Proof.
  induction l1 as [|a l1 IH]; simpl; intro H; [constructor|]. inversion H as [|? ? Hn Hd]; subst.
  constructor; [|exact (IH Hd)]. intro Hi. apply Hn. apply in_or_app. left. exact Hi.
Qed.

Lemma NoDup_app_right {A} (l1 l2 : list A) : NoDup (l1 ++ l2) -> NoDup l2.
Proof. induction l1 as [|a l1 IH]; simpl; intro H; [exact H|]. inversion H; subst. auto. Qed.

Section PartitionGeneric.
Variable S : SOps.
Notation T := (T S).
Hypothesis le_total : forall a b : T, sleb S a b = true \/ sleb S b a = true.
Hypothesis le_trans : forall a b c : T, sleb S a b = true -> sleb S b c = true -> sleb S a c = true.

Definition kle (p q : T * nat) : Prop := sleb S (fst p) (fst q) = true.

Lemma le_refl_g a : sleb S a a = true.
Proof. destruct (le_total a a); assumption. Qed.

Lemma ins_sorted_g (x : T * nat) l : StronglySorted kle l -> StronglySorted kle (ins S x l).
Proof.
  induction l as [|h t IH]; intro Hs; simpl.
  - constructor; constructor.
  - inversion Hs as [|? ? Hs' Hf]; subst.
    destruct (sleb S (fst x) (fst h)) eqn:E.
    + constructor; auto. constructor; auto.
      eapply Forall_impl; [|exact Hf]. intros q Hq. unfold kle in *. eapply le_trans; eauto.
    + constructor; auto.
      apply (Permutation_Forall (Permutation_sym (ins_perm S x t))).
      constructor; auto. unfold kle. destruct (le_total (fst x) (fst h)) as [C|C]; [congruence | exact C].
Qed.

Lemma sort_pairs_sorted_g (keys : list T) : StronglySorted kle (sort_pairs S keys).
Proof.
  unfold sort_pairs. match goal with |- StronglySorted _ (fold_right _ _ ?L0) => generalize L0 end. intro L.
  induction L as [|x L IH]; [constructor|]. change (fold_right (ins S) [] (x :: L)) with (ins S x (fold_right (ins S) [] L)).
  apply ins_sorted_g; auto.
Qed.

(* the sorted indices are ordered by non-decreasing key *)
Lemma sort_idx_sorted_g (keys : list T) d a b : (a <= b < length keys)%nat ->
  sleb S (nth (nth a (sort_idx S keys) 0%nat) keys d) (nth (nth b (sort_idx S keys) 0%nat) keys d) = true.
Proof.
  intro H. destruct (Nat.eq_dec a b) as [->|Hne]; [apply le_refl_g|].
  set (prs := sort_pairs S keys).
  assert (Lp : length prs = length keys).
  { unfold prs. rewrite (Permutation_length (sort_pairs_perm S keys)), combine_length, seq_length. lia. }
  assert (K : forall c, (c < length keys)%nat ->
                fst (nth c prs (d, 0%nat)) = nth (nth c (sort_idx S keys) 0%nat) keys d).
  { intros c Hc. unfold sort_idx. fold prs.
    change 0%nat with (snd (d, 0%nat)) at 2. rewrite map_nth.
    assert (I : In (nth c prs (d, 0%nat)) prs) by (apply nth_In; lia).
    apply (Permutation_in _ (sort_pairs_perm S keys)) in I.
    destruct (nth c prs (d, 0%nat)) as [k i] eqn:Ek. simpl.
    apply (in_combine_seq keys 0 k i d) in I. destruct I as [I1 I2].
    rewrite Nat.sub_0_r in I2. symmetry. exact I2. }
  rewrite <- !K by lia.
  assert (Hab : (a < b < length prs)%nat) by (rewrite Lp; lia).
  exact (StronglySorted_nth kle prs (d, 0%nat) a b (sort_pairs_sorted_g keys) Hab).
Qed.

Section OneInput.
Variables (ratio : T) (lw : list T).
Notation N := (length lw).
Notation k := (num_prior S N ratio).
Notation srt := (sort_idx S (map (sexp S) lw)).
Notation Rset := (replaced_set S ratio lw).
Notation Kset := (survivor_set S ratio lw).

Lemma srt_length : length srt = N.
Proof. rewrite sort_idx_length, map_length. reflexivity. Qed.

Lemma replaced_length : length Rset = k.
Proof. unfold replaced_set. rewrite firstn_length, srt_length. pose proof (num_prior_le S N ratio). lia. Qed.

Lemma survivor_length : length Kset = (N - k)%nat.
Proof. unfold survivor_set. rewrite skipn_length, srt_length. reflexivity. Qed.

Lemma sets_app : Rset ++ Kset = srt.
Proof. apply firstn_skipn. Qed.

Lemma sets_perm : Permutation (Rset ++ Kset) (seq 0 N).
Proof. rewrite sets_app. rewrite <- (map_length (sexp S) lw). apply sort_idx_perm. Qed.

Lemma sets_nodup : NoDup (Rset ++ Kset).
Proof. apply (Permutation_NoDup (Permutation_sym sets_perm)). apply seq_NoDup. Qed.

Lemma sets_cover i : (i < N)%nat -> In i Rset \/ In i Kset.
Proof.
  intro H. apply in_app_or. apply (Permutation_in _ (Permutation_sym sets_perm)). apply in_seq. lia.
Qed.

Lemma sets_range i : In i Rset \/ In i Kset -> (i < N)%nat.
Proof.
  intro H. apply in_or_app in H. apply (Permutation_in _ sets_perm) in H. apply in_seq in H. lia.
Qed.

Lemma wt_key i : (i < N)%nat -> nth i (map (sexp S) lw) (sexp S (s0 S)) = wt S lw i.
Proof. intros _. unfold wt. apply map_nth. Qed.

(* positions: a replaced particle sits before the split, a survivor after it *)
Lemma replaced_pos r : In r Rset -> exists a, (a < k)%nat /\ (a < N)%nat /\ nth a srt 0%nat = r.
Proof.
  intro H. destruct (In_nth _ _ 0%nat H) as [a [Ha E]]. rewrite replaced_length in Ha.
  exists a. pose proof (num_prior_le S N ratio). repeat split; try lia.
  rewrite <- E. unfold replaced_set. rewrite <- (firstn_skipn k srt) at 1.
  rewrite app_nth1; [reflexivity|]. fold Rset. rewrite replaced_length. exact Ha.
Qed.

Lemma survivor_pos s : In s Kset -> exists b, (k <= b < N)%nat /\ nth b srt 0%nat = s.
Proof.
  intro H. destruct (In_nth _ _ 0%nat H) as [b [Hb E]]. rewrite survivor_length in Hb.
  exists (k + b)%nat. split; [lia|]. rewrite <- E. unfold survivor_set. symmetry. apply nth_skipn'.
Qed.

(* no replaced particle is heavier than a survivor *)
Lemma cross_le r s : In r Rset -> In s Kset -> sleb S (wt S lw r) (wt S lw s) = true.
Proof.
  intros Hr Hs. destruct (replaced_pos r Hr) as [a [Ha [HaN Ea]]]. destruct (survivor_pos s Hs) as [b [Hb Eb]].
  rewrite <- wt_key by (apply sets_range; auto). rewrite <- (wt_key s) by (apply sets_range; auto).
  rewrite <- Ea, <- Eb. apply sort_idx_sorted_g. rewrite map_length. lia.
Qed.

Theorem partition_g :
  length Rset = k /\ length Kset = (N - k)%nat /\
  Permutation (Rset ++ Kset) (seq 0 N) /\ NoDup (Rset ++ Kset) /\
  (forall r s, In r Rset -> In s Kset -> sleb S (wt S lw r) (wt S lw s) = true).
Proof.
  split; [apply replaced_length|]. split; [apply survivor_length|]. split; [apply sets_perm|].
  split; [apply sets_nodup|]. exact cross_le.
Qed.

(* strictly heavier than a survivor => survivor; strictly lighter than a replaced one => replaced *)
Theorem forced_g i : (i < N)%nat ->
  ((exists s, In s Kset /\ sleb S (wt S lw i) (wt S lw s) = false) -> In i Kset /\ ~ In i Rset) /\
  ((exists r, In r Rset /\ sleb S (wt S lw r) (wt S lw i) = false) -> In i Rset /\ ~ In i Kset).
Proof.
  intro Hi. split.
  - intros [s [Hs Hlt]]. assert (Hn : ~ In i Rset).
    { intro Hr. pose proof (cross_le i s Hr Hs). congruence. }
    split; auto. destruct (sets_cover i Hi); tauto.
  - intros [r [Hr Hlt]]. assert (Hn : ~ In i Kset).
    { intro Hs. pose proof (cross_le r i Hr Hs). congruence. }
    split; auto. destruct (sets_cover i Hi); tauto.
Qed.

(* ---- every admissible partition agrees with the model's outside the tie class at the split ---- *)

(* (R', K') is admissible: a duplicate-free split of 0..N-1 with k replaced particles, none heavier than a survivor *)
Definition admissible (R' K' : list nat) : Prop :=
  Permutation (R' ++ K') (seq 0 N) /\ length R' = k /\
  forall r s, In r R' -> In s K' -> sleb S (wt S lw r) (wt S lw s) = true.

Lemma model_admissible : admissible Rset Kset.
Proof. split; [apply sets_perm|]. split; [apply replaced_length | exact cross_le]. Qed.

(* thr = the (k+1)-th smallest weight = the weight of the lightest survivor of the model *)
Definition thr : T := wt S lw (nth k srt 0%nat).

Lemma thr_le_survivor s : (k < N)%nat -> In s Kset -> sleb S thr (wt S lw s) = true.
Proof.
  intros Hk Hs. destruct (survivor_pos s Hs) as [b [Hb Eb]]. unfold thr.
  assert (Hk0 : (nth k srt 0 < N)%nat).
  { rewrite <- (map_length (sexp S) lw) at 2. apply sort_idx_range. rewrite map_length. lia. }
  rewrite <- wt_key by exact Hk0. rewrite <- (wt_key s) by (apply sets_range; auto).
  rewrite <- Eb. apply sort_idx_sorted_g. rewrite map_length. lia.
Qed.

Lemma replaced_le_thr r : (k < N)%nat -> In r Rset -> sleb S (wt S lw r) thr = true.
Proof.
  intros Hk Hr. destruct (replaced_pos r Hr) as [a [Ha [HaN Ea]]]. unfold thr.
  assert (Hk0 : (nth k srt 0 < N)%nat).
  { rewrite <- (map_length (sexp S) lw) at 2. apply sort_idx_range. rewrite map_length. lia. }
  rewrite <- wt_key by (apply sets_range; auto). rewrite <- (wt_key (nth k srt 0%nat)) by exact Hk0.
  rewrite <- Ea. apply sort_idx_sorted_g. rewrite map_length. lia.
Qed.

Lemma incl_len_le (l1 l2 : list nat) : NoDup l1 -> incl l1 l2 -> (length l1 <= length l2)%nat.
Proof. intros. apply NoDup_incl_length; auto. Qed.

Theorem admissible_forced R' K' i : (k < N)%nat -> admissible R' K' -> (i < N)%nat ->
  (sleb S thr (wt S lw i) = false -> In i R' /\ ~ In i K') /\     (* strictly lighter than thr: replaced *)
  (sleb S (wt S lw i) thr = false -> In i K' /\ ~ In i R').       (* strictly heavier than thr: survives *)
Proof.
  intros Hk [Hperm [Hlen Hcross]] Hi.
  assert (Hnd : NoDup (R' ++ K')) by (apply (Permutation_NoDup (Permutation_sym Hperm)), seq_NoDup).
  assert (Hcov : forall j, (j < N)%nat -> In j R' \/ In j K').
  { intros j Hj. apply in_app_or. apply (Permutation_in _ (Permutation_sym Hperm)). apply in_seq. lia. }
  assert (Hrng : forall j, In j (R' ++ K') -> (j < N)%nat).
  { intros j Hj. apply (Permutation_in _ Hperm) in Hj. apply in_seq in Hj. lia. }
  assert (HlenK : length K' = (N - k)%nat).
  { pose proof (Permutation_length Hperm) as L. rewrite app_length, seq_length in L. lia. }
  split.
  - (* i lighter than thr but surviving in K': then R' ++ [i] fits into the model's replaced set *)
    intro Hlt. assert (HnK : ~ In i K').
    { intro HiK.
      assert (Hinc : incl (i :: R') Rset).
      { intros j [<-|Hj].
        - destruct (sets_cover i Hi) as [|HK]; auto. pose proof (thr_le_survivor i Hk HK). congruence.
        - assert (HjN : (j < N)%nat) by (apply Hrng, in_or_app; auto).
          destruct (sets_cover j HjN) as [|HK]; auto.
          pose proof (thr_le_survivor j Hk HK) as H1. pose proof (Hcross j i Hj HiK) as H2.
          pose proof (le_trans _ _ _ H1 H2). congruence. }
      assert (Hnd' : NoDup (i :: R')).
      { constructor; [|exact (NoDup_app_left _ _ Hnd)].
        intro HiR. exact (NoDup_app_disj _ _ _ Hnd HiR HiK). }
      pose proof (incl_len_le _ _ Hnd' Hinc) as L. simpl in L. rewrite replaced_length in L. lia. }
    split; auto. destruct (Hcov i Hi); tauto.
  - (* i heavier than thr but replaced in R': then K' ++ [i] fits into the model's survivors minus the split one *)
    intro Hlt. assert (HnR : ~ In i R').
    { intro HiR.
      set (t := nth k srt 0%nat).
      assert (HtK : In t Kset).
      { assert (E : t = nth 0 Kset 0%nat).
        { unfold t, survivor_set. rewrite nth_skipn', Nat.add_0_r. reflexivity. }
        rewrite E. apply nth_In. rewrite survivor_length. lia. }
      (* every member of i :: K' is strictly heavier than thr, hence a survivor of the model other than t *)
      assert (Hheavy : forall j, In j (i :: K') -> sleb S (wt S lw j) thr = false).
      { intros j [<-|Hj]; auto. destruct (sleb S (wt S lw j) thr) eqn:E; auto.
        pose proof (Hcross i j HiR Hj) as H2. pose proof (le_trans _ _ _ H2 E). congruence. }
      assert (Hinc : incl (t :: i :: K') Kset).
      { intros j [<-|Hj]; auto.
        assert (HjN : (j < N)%nat) by (destruct Hj as [<-|Hj]; [auto | apply Hrng, in_or_app; auto]).
        destruct (sets_cover j HjN) as [HR|]; auto.
        pose proof (replaced_le_thr j Hk HR). rewrite (Hheavy j Hj) in H. discriminate. }
      assert (Hnd' : NoDup (t :: i :: K')).
      { constructor.
        - intro Ht. apply Hheavy in Ht. fold t in Ht. unfold thr in Ht. fold t in Ht. rewrite le_refl_g in Ht. discriminate.
        - constructor; [|exact (NoDup_app_right _ _ Hnd)].
          intro HiK. exact (NoDup_app_disj _ _ _ Hnd HiR HiK). }
      pose proof (incl_len_le _ _ Hnd' Hinc) as L. simpl in L. rewrite survivor_length, HlenK in L. lia. }
    split; auto. destruct (Hcov i Hi); tauto.
Qed.

End OneInput.
End PartitionGeneric.

(* ---- the parents reported by the model of ResamplingWithPrior::resample are survivors (any arithmetic) ---- *)
Lemma parents_survive (S : SOps) {P} (init : nat -> list P) ratio (ps : list P) lw u1 :
  length lw = length ps -> (0 < length ps)%nat ->
  length (init (num_prior S (length ps) ratio)) = num_prior S (length ps) ratio ->
  forall j, (j < length ps - num_prior S (length ps) ratio)%nat ->
  exists p, nth (num_prior S (length ps) ratio + j) (snd (@resample_prior S P init ratio ps lw u1)) 0%Z = Z.of_nat p
            /\ In p (survivor_set S ratio lw) /\ ~ In p (replaced_set S ratio lw).
Proof.
  intros Hlen Npos Hinit j Hj.
  destruct (prior_parents_right S init ratio ps lw u1 Hlen Npos Hinit j Hj) as [E [R1 R2]].
  eexists. split; [exact E|].
  assert (HK : In (nth (num_prior S (length ps) ratio + nth j (rpar S ratio ps lw u1) 0%nat) (sort_idx S (map (sexp S) lw)) 0%nat)
                  (survivor_set S ratio lw)).
  { unfold survivor_set. rewrite Hlen. rewrite <- nth_skipn'. apply nth_In.
    rewrite skipn_length, sort_idx_length, map_length, Hlen. lia. }
  split; [exact HK|]. intro HR. exact (NoDup_app_disj _ _ _ (sets_nodup S ratio lw) HR HK).
Qed.

(* ---- the real-number instance ---- *)
Lemma Rleb_total e (a b : T (ROpsE e)) : sleb (ROpsE e) a b = true \/ sleb (ROpsE e) b a = true.
Proof.
  change (Rleb a b = true \/ Rleb b a = true). destruct (Rle_dec a b) as [H|H].
  - left. apply Rleb_true. exact H.
  - right. apply Rleb_true. apply Rnot_le_lt in H. apply Rlt_le. exact H.
Qed.

Lemma Rleb_trans e (a b c : T (ROpsE e)) :
  sleb (ROpsE e) a b = true -> sleb (ROpsE e) b c = true -> sleb (ROpsE e) a c = true.
Proof.
  change (Rleb a b = true -> Rleb b c = true -> Rleb a c = true). rewrite !Rleb_true. intros; eapply Rle_trans; eauto.
Qed.

Local Open Scope R_scope.

Lemma partition_relational_R (e : R -> R) (lw : list R) (ratio : R) :
  (0 < length lw)%nat -> 0 <= ratio < 1 ->
  let N := length lw in
  let k := num_prior (ROpsE e) N ratio in
  let Rs := replaced_set (ROpsE e) ratio lw in
  let Ks := survivor_set (ROpsE e) ratio lw in
  let w := fun i => e (nth i lw 0) in
  (INR k <= INR N * ratio < INR k + 1) /\ (k < N)%nat /\
  length Rs = k /\ length Ks = (N - k)%nat /\
  Permutation (Rs ++ Ks) (seq 0 N) /\ NoDup (Rs ++ Ks) /\
  (forall r s, In r Rs -> In s Ks -> w r <= w s) /\
  (forall i, (i < N)%nat -> (exists s, In s Ks /\ w s < w i) -> In i Ks /\ ~ In i Rs) /\
  (forall i, (i < N)%nat -> (exists r, In r Rs /\ w i < w r) -> In i Rs /\ ~ In i Ks).
Proof.
  intros Npos Hr N k Rs Ks w.
  destruct (num_prior_spec e N ratio Npos Hr) as [F1 F2].
  destruct (partition_g (ROpsE e) (Rleb_total e) (Rleb_trans e) ratio lw) as [L1 [L2 [Pm [Nd Cr]]]].
  split; [exact F1|]. split; [exact F2|]. split; [exact L1|]. split; [exact L2|]. split; [exact Pm|]. split; [exact Nd|].
  split; [|split].
  - intros r s Hr' Hs. apply Rleb_true. exact (Cr r s Hr' Hs).
  - intros i Hi [s [Hs Hlt]].
    apply (proj1 (forced_g (ROpsE e) (Rleb_total e) (Rleb_trans e) ratio lw i Hi)).
    exists s. split; auto. apply Rleb_false. exact Hlt.
  - intros i Hi [r [Hr' Hlt]].
    apply (proj2 (forced_g (ROpsE e) (Rleb_total e) (Rleb_trans e) ratio lw i Hi)).
    exists r. split; auto. apply Rleb_false. exact Hlt.
Qed.

(* every admissible choice among ties: replaced below the (k+1)-th smallest weight, surviving above it *)
Lemma admissible_forced_R (e : R -> R) (lw : list R) (ratio : R) (R' K' : list nat) :
  (0 < length lw)%nat -> 0 <= ratio < 1 ->
  let N := length lw in
  let k := num_prior (ROpsE e) N ratio in
  let w := fun i => e (nth i lw 0) in
  let t := w (nth k (sort_idx (ROpsE e) (map e lw)) 0%nat) in
  Permutation (R' ++ K') (seq 0 N) -> length R' = k ->
  (forall r s, In r R' -> In s K' -> w r <= w s) ->
  forall i, (i < N)%nat ->
    (w i < t -> In i R' /\ ~ In i K') /\ (t < w i -> In i K' /\ ~ In i R').
Proof.
  intros Npos Hr N k w t Hp Hl Hc i Hi.
  destruct (num_prior_spec e N ratio Npos Hr) as [_ F2].
  assert (Adm : admissible (ROpsE e) ratio lw R' K').
  { split; [exact Hp|]. split; [exact Hl|]. intros r s H1 H2. apply Rleb_true. exact (Hc r s H1 H2). }
  destruct (admissible_forced (ROpsE e) (Rleb_total e) (Rleb_trans e) ratio lw R' K' i F2 Adm Hi) as [A B].
  split; intro Hlt.
  - apply A. apply Rleb_false. exact Hlt.
  - apply B. apply Rleb_false. exact Hlt.
Qed.
