(* C03_QuatSpread.v — the upper half of the smallness premises of C03_Quat.quat_affine_exact stated on the
   covariance alone.  For the t-th rotation block let tr_t(P) = P_oo + P_(o+1)(o+1) + P_(o+2)(o+2), o = lin + 3 t.
   Whatever factor A with A A^T = P the oracle returns:
     c tr_t(P) < PI^2   implies  every rotation-vector block sqrt(c) A_[t],k is strictly within a half turn
     tr_t(P) < 2        implies  the positive weighted resultant w0 + 2 wi sum_k cos |sqrt(c) A_[t],k| > 0
                                 (also for a negative central weight; 1 - cos x <= x^2 / 2)
   What cannot be derived from the covariance is the LOWER bound of the code's exp / log pair: a block that is
   neither zero nor outside the 1e-4 cut-off zone is read back as zero (C18: bound 2 asin 1e-4), so the
   premise "zero or cut < sin(|block| / 2)" stays on the factor (rot_blocks_readable).
   Axioms: the four standard axioms of Coq's Reals. *)
Require Import ZArith Reals Lra Lia List Bool Arith.
Require Import BFL.Ops BFL.C03_Model BFL.C19_ROps BFL.C18_Model BFL.C18_Proofs BFL.C03_Real.
Require Import BFL.C03_RFun BFL.C03_Euler BFL.C03_Spread BFL.C03_QuatAlg BFL.C03_Quat.
Import ListNotations.
Local Open Scope R_scope.

Section QuatSpread.
Variables sq : nat -> fmx -> fmx.
Variables lin circ dc : nat.
Variables (c w0 wi : R) (P : fmx).
Hypothesis rows : (lin + circ * 3 <= dc)%nat.
Hypothesis c_pos : 0 < c.
Hypothesis w_sum : w0 + 2 * INR dc * wi = 1.
Hypothesis w_i : 2 * wi * c = 1.
Hypothesis HF : factor_ok sq dc P.
Let A := sq dc P.
Let s := sqrt c.

Definition rot_trace (t : nat) : R :=
  P (lin + t * 3)%nat (lin + t * 3)%nat + P (lin + t * 3 + 1)%nat (lin + t * 3 + 1)%nat + P (lin + t * 3 + 2)%nat (lin + t * 3 + 2)%nat.

(* the part of the smallness that stays on the factor: every block is zero or outside the cut-off zone *)
Definition rot_blocks_readable : Prop :=
  forall t k, (t < circ)%nat -> (k < dc)%nat ->
    blk lin (fun j => s * A j k) t = V0 \/ cut < sin (n3 (blk lin (fun j => s * A j k) t) / 2).

Lemma ss_blk t k : ss (blk lin (fun j => s * A j k) t) =
  c * (A (lin + t * 3)%nat k * A (lin + t * 3)%nat k + A (lin + t * 3 + 1)%nat k * A (lin + t * 3 + 1)%nat k
       + A (lin + t * 3 + 2)%nat k * A (lin + t * 3 + 2)%nat k).
Proof.
  assert (Hs : s * s = c) by (unfold s; apply sqrt_sqrt; lra).
  unfold ss, blk. simpl. rewrite <- Hs. ring.
Qed.

Lemma sum_ss_blk t : (t < circ)%nat -> rsum dc (fun k => ss (blk lin (fun j => s * A j k) t)) = c * rot_trace t.
Proof.
  intros Ht. rewrite (rsum_ext dc _ (fun k => c * (A (lin + t * 3)%nat k * A (lin + t * 3)%nat k)
                                        + (c * (A (lin + t * 3 + 1)%nat k * A (lin + t * 3 + 1)%nat k)
                                        + c * (A (lin + t * 3 + 2)%nat k * A (lin + t * 3 + 2)%nat k)))).
  2:{ intros k _. rewrite ss_blk. ring. }
  rewrite !rsum_plus, !rsum_scal. unfold rot_trace.
  rewrite <- (HF (lin + t * 3)%nat (lin + t * 3)%nat), <- (HF (lin + t * 3 + 1)%nat (lin + t * 3 + 1)%nat),
          <- (HF (lin + t * 3 + 2)%nat (lin + t * 3 + 2)%nat) by nia.
  fold A. ring.
Qed.

Lemma ss_blk_le t k : (t < circ)%nat -> (k < dc)%nat -> ss (blk lin (fun j => s * A j k) t) <= c * rot_trace t.
Proof.
  intros Ht Hk. rewrite <- (sum_ss_blk t Ht).
  apply (rsum_term_le dc (fun k => ss (blk lin (fun j => s * A j k) t))); [intros; apply ss_nonneg | exact Hk].
Qed.

Theorem rot_spread_from_cov :
  (forall t, (t < circ)%nat -> c * rot_trace t < PI * PI /\ rot_trace t < 2) ->
  rot_blocks_readable ->
  (forall t k, (t < circ)%nat -> (k < dc)%nat -> ok_rv (blk lin (fun j => sqrt c * sq dc P j k) t)) /\
  (forall t, (t < circ)%nat ->
     0 < w0 + 2 * wi * rsum dc (fun k => cos (n3 (blk lin (fun j => sqrt c * sq dc P j k) t)))).
Proof.
  intros Hcov Hread. pose proof PI_RGT_0 as Hpi. fold s A. split.
  - intros t k Ht Hk. destruct (Hread t k Ht Hk) as [E|E]; [left; exact E | right; split; [exact E|]].
    destruct (Hcov t Ht) as [H1 _]. pose proof (ss_blk_le t k Ht Hk) as H2.
    set (v := blk lin (fun j => s * A j k) t) in *.
    pose proof (n3_nonneg v) as Hn. pose proof (n3_sq v) as Hq.
    destruct (Rlt_or_le (n3 v) PI) as [|Hge]; [assumption|]. exfalso. nra.
  - intros t Ht. destruct (Hcov t Ht) as [_ H2].
    assert (Hwi : 0 < wi) by (assert (0 < wi * c) by lra; nra).
    set (x := fun k => n3 (blk lin (fun j => s * A j k) t)).
    assert (E1 : rsum dc (fun k => cos (x k)) = INR dc - rsum dc (fun k => 1 - cos (x k))).
    { rewrite (rsum_ext dc (fun k => 1 - cos (x k)) (fun k => 1 + - cos (x k))) by (intros; ring).
      rewrite rsum_plus, rsum_opp, rsum_const. lra. }
    assert (E2 : rsum dc (fun k => 1 - cos (x k)) <= c * rot_trace t / 2).
    { rewrite <- (sum_ss_blk t Ht).
      apply Rle_trans with (rsum dc (fun k => / 2 * ss (blk lin (fun j => s * A j k) t))).
      - apply rsum_le. intros k _. pose proof (one_minus_cos_le (x k)) as H. unfold x in H |- *.
        rewrite n3_sq in H. lra.
      - rewrite rsum_scal. lra. }
    change (fun k => cos (n3 (blk lin (fun j => s * A j k) t))) with (fun k => cos (x k)). rewrite E1.
    assert (2 * wi * rsum dc (fun k => 1 - cos (x k)) <= rot_trace t / 2).
    { apply Rle_trans with (2 * wi * (c * rot_trace t / 2)); [apply Rmult_le_compat_l; lra|].
      replace (2 * wi * (c * rot_trace t / 2)) with ((2 * wi * c) * rot_trace t / 2) by field.
      rewrite w_i. lra. }
    nra.
Qed.
End QuatSpread.
